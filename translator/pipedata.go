package main

import (
	"bytes"
	"errors"
	"fmt"
	"go/ast"
	"go/parser"
	"go/printer"
	"go/token"
	"os"
	"path/filepath"
	"sort"
	"strconv"
	"strings"
)

// ---------------------------------------------------------------------------
// G2 (pipeline, DATA side): processing/processing.go -> gen/PipeDataGen.v
//
// translator/pipe.go regenerates the concurrency skeleton of processing.go and keeps what the statements compute as
// source text.  This generator translates, statement by statement from the AST, the functions that decide WHICH
// geometry goes to WHICH tile matrix into executable Gallina (vocabulary: coq/theories/Pipe/GoData.v, Prelude/GoLoop.v,
// Prelude/GoAssoc.v):
//   polygonsToMulti, processMultiPolygon, wrapFeatureForTileMatrix, the three methods of featureForTileMatrixWrapper
//   (the struct and the interface Feature regenerated as Records from their declarations), the per-feature body of
//   the receive loop of processFeatures (channel featuresOut = the list of values sent on it, in order) and the
//   per-feature body of the distribution loop of writeFeaturesToTargets (the lookup targetChannels[tmID] + nil test).
//
// Meaning given to the Go constructs (everything else is a translation failure naming the position):
//   x := e, x = e, var x T, x++            let-bindings (uint64 ++ wraps: uint64_inc; int ++ is exact Z)
//   if c {..} [else {..}]                  a branch that ends in panic/return: `if c then exit else rest`; otherwise a
//                                          join over the variables the branches assign (error monad)
//   for _, x := range s / for i, x := ..   range_loop (Prelude/GoLoop.v) over the slice (with indices: indexed_from 0 s);
//                                          every loop body is a definition gen_<func>_range<N>: parameters = the
//                                          variables in scope it mentions, state = the variables it assigns
//   for k, v := range m on a Go map        range_loop over (ord (GSite<n> idx..) (map fst m)), v = m[k]: the iteration
//                                          ORDER is the parameter `ord`; a site per statement, indexed by the indices /
//                                          keys of the enclosing loops, so that every execution has its own order
//   for i := a; i < b; i++ {..}            a Fixpoint on fuel S (Z.to_nat (b - a)) over the variables it assigns
//   m[k] (map), m[k] = v, len(m), make     gm_get_or (zero value when absent), gm_set, gm_len, [] (Prelude/GoAssoc.v)
//   s[i], s[i] = v, len(s), append(s, x)   idx, setidx (index errors = Err IndexOutOfRange), zlen, s ++ [x]
//   make(geom.MultiPolygon, n)             go_make_slice nil_polygon n
//   switch x.(type) {case T: .. default:}  match on the dynamic type (GoPolygon / GoMultiPolygon / anything else, nil)
//   y := x.(T)                             match; a different dynamic type = the panic GoTypeAssertion
//   a value of a concrete type used as a geom.Geometry   Some (GoPolygon v) / Some (GoMultiPolygon v); nil = None
//   ch <- v                                v_ch := v_ch ++ [v]
//   panic(fmt.Errorf("text", n))           the function returns (its state so far, Some (GoPanicf "text" n))
//   &T{f: v, ..}, x.f, x.M()               record constructor / projection / regenerated method
//   f(p, ids) on the processPolygonFunc    application of the function parameter v_f
// ---------------------------------------------------------------------------

type pdTy struct {
	kind   string
	elem   *pdTy
	params []*pdTy
	result *pdTy
}

var (
	pdInt     = &pdTy{kind: "int"}
	pdUint64  = &pdTy{kind: "uint64"}
	pdBool    = &pdTy{kind: "bool"}
	pdPoly    = &pdTy{kind: "poly"}    // geom.Polygon
	pdRawPoly = &pdTy{kind: "rawpoly"} // [][][2]float64 (element of a geom.MultiPolygon)
	pdMulti   = &pdTy{kind: "multi", elem: pdRawPoly}
	pdPolys   = &pdTy{kind: "polys", elem: pdPoly}
	pdTmids   = &pdTy{kind: "tmids", elem: pdInt}
	pdIface   = &pdTy{kind: "iface"}   // geom.Geometry
	pdFeature = &pdTy{kind: "feature"} // interface Feature
	pdWrapper = &pdTy{kind: "wrapper"} // *featureForTileMatrixWrapper, FeatureForTileMatrix
	pdColumns = &pdTy{kind: "columns"}
	pdNil     = &pdTy{kind: "nil"}
	pdMapPoly = &pdTy{kind: "map", elem: pdPolys}
	pdMapMult = &pdTy{kind: "map", elem: pdMulti}
	pdChanOut = &pdTy{kind: "chanout", elem: pdWrapper} // chan<- FeatureForTileMatrix: the values sent so far
	pdChanIn  = &pdTy{kind: "chanin"}                   // receive-only channels: not usable in the translated parts
	pdChan    = &pdTy{kind: "chan"}                     // a non-nil chan<- Feature
	pdOptChan = &pdTy{kind: "optchan"}                  // chan<- Feature that may be nil
	pdChanMap = &pdTy{kind: "chanmap", elem: pdOptChan} // map[int]chan<- Feature
	pdRouted  = &pdTy{kind: "routed"}                   // pseudo variable: (channel, value) pairs sent on looked-up channels
	pdFunc    = &pdTy{kind: "func", params: []*pdTy{pdPoly, pdTmids}, result: pdMapPoly}
)

const pdWrapperName = "featureForTileMatrixWrapper"

func (t *pdTy) coq() string {
	switch t.kind {
	case "int", "uint64":
		return "Z"
	case "bool":
		return "bool"
	case "poly", "rawpoly":
		return "P"
	case "multi", "polys":
		return "(list P)"
	case "tmids":
		return "(list Z)"
	case "iface":
		return "(option (ggeometry P))"
	case "feature":
		return "(gen_Feature C P)"
	case "wrapper":
		return "(gen_" + pdWrapperName + " C P)"
	case "columns":
		return "C"
	case "map":
		return "(gomap Z " + t.elem.coq() + ")"
	case "chanout":
		return "(list " + t.elem.coq() + ")"
	case "chan":
		return "CH"
	case "optchan":
		return "(option CH)"
	case "chanmap":
		return "(gomap Z CH)"
	case "routed":
		return "(list (CH * " + pdWrapper.coq() + "))"
	case "func":
		var ps []string
		for _, p := range t.params {
			ps = append(ps, p.coq())
		}
		return "(" + strings.Join(ps, " -> ") + " -> " + t.result.coq() + ")"
	}
	return "UNSUPPORTED_TYPE_" + t.kind
}

func (t *pdTy) isSlice() bool { return t.kind == "multi" || t.kind == "polys" || t.kind == "tmids" }

func (t *pdTy) zero() (string, bool) {
	switch t.kind {
	case "int", "uint64":
		return "0", true
	case "multi", "polys":
		return "(@nil P)", true
	case "tmids":
		return "(@nil Z)", true
	case "iface":
		return "(@None (ggeometry P))", true
	case "poly", "rawpoly":
		return "nil_polygon", true
	}
	return "", false
}

type pdVar struct {
	name string // Go name ("" for synthesized variables)
	coq  string
	ty   *pdTy
}

type pdEnv struct{ vars []*pdVar }

func (e *pdEnv) clone() *pdEnv { return &pdEnv{vars: append([]*pdVar{}, e.vars...)} }

func (e *pdEnv) lookup(name string) *pdVar {
	for i := len(e.vars) - 1; i >= 0; i-- {
		if e.vars[i].name == name {
			return e.vars[i]
		}
	}
	return nil
}

func (e *pdEnv) byCoq(c string) *pdVar {
	for i := len(e.vars) - 1; i >= 0; i-- {
		if e.vars[i].coq == c {
			return e.vars[i]
		}
	}
	return nil
}

// retype: a copy of the environment in which variable v has another type (after a nil test)
func (e *pdEnv) retype(v *pdVar, ty *pdTy) *pdEnv {
	n := e.clone()
	for i := range n.vars {
		if n.vars[i] == v {
			n.vars[i] = &pdVar{name: v.name, coq: v.coq, ty: ty}
		}
	}
	return n
}

type pdSig struct {
	coq      string
	params   []*pdTy
	result   *pdTy
	monadic  bool
	hasSites bool
}

type pdSite struct {
	n    int
	args []*pdVar
	doc  string
}

type pdField struct {
	name string
	ty   *pdTy
}

// how the enclosing construct is left
type pdCtx struct {
	retTy     string                // Coq type of the function's result
	wrapRet   func(v string) string // `return v` from here (also used to hand on a Ret of an inner loop)
	result    *pdTy                 // declared result type (nil for the body functions)
	stateVars []*pdVar              // body functions: the variables a panic hands back
	siteArgs  []*pdVar              // indices / keys of the enclosing loops
	depth     int                   // number of enclosing loops
	ranged    map[string]bool       // maps being ranged over (writes refused)
}

func (c *pdCtx) with(wrap func(string) string) *pdCtx {
	n := *c
	n.wrapRet = wrap
	n.depth++
	n.ranged = map[string]bool{}
	for k := range c.ranged {
		n.ranged[k] = true
	}
	return &n
}

var errPdNeedsMonad = errors.New("needs the error monad")

type pd struct {
	fset     *token.FileSet
	funcs    map[string]*ast.FuncDecl
	methods  map[string]*ast.FuncDecl // "<recv type>.<name>"
	types    map[string]*ast.TypeSpec
	files    []*ast.File
	fn       string
	fresh    int
	loopN    int
	pure     bool
	defs     []string
	sites    []pdSite
	sigs     map[string]*pdSig
	fields   []pdField // of the wrapper struct, in declaration order
	featM    []pdField // methods of interface Feature (name, result type)
	used     map[string]bool
	docs     []string
	own      map[string]bool // locals of the current function created by make
	appendOK bool
}

func (g *pd) src(n ast.Node) string {
	var b bytes.Buffer
	_ = printer.Fprint(&b, g.fset, n)
	return pkSquash(b.String())
}

func (g *pd) errf(n ast.Node, format string, a ...interface{}) error {
	p := g.fset.Position(n.Pos())
	return fmt.Errorf("%s:%d (%s): %s", filepath.Base(p.Filename), p.Line, g.fn, fmt.Sprintf(format, a...))
}

func (g *pd) line(n ast.Node) string {
	p := g.fset.Position(n.Pos())
	return fmt.Sprintf("%s:%d", filepath.Base(p.Filename), p.Line)
}

func (g *pd) tmp() string {
	g.fresh++
	return fmt.Sprintf("t_%d", g.fresh)
}

func (g *pd) doc(s string) {
	if !g.used[s] {
		g.used[s] = true
		g.docs = append(g.docs, s)
	}
}

// the Go types the translation gives a meaning to, by their printed text
func (g *pd) tyOf(t ast.Expr) (*pdTy, error) {
	switch g.src(t) {
	case "int", "tms20.TMID":
		return pdInt, nil
	case "uint64":
		return pdUint64, nil
	case "bool":
		return pdBool, nil
	case "geom.Polygon":
		return pdPoly, nil
	case "geom.MultiPolygon":
		return pdMulti, nil
	case "[]geom.Polygon":
		return pdPolys, nil
	case "[]tms20.TMID":
		return pdTmids, nil
	case "geom.Geometry":
		return pdIface, nil
	case "Feature":
		return pdFeature, nil
	case "FeatureForTileMatrix", "*" + pdWrapperName:
		return pdWrapper, nil
	case "[]interface{}":
		return pdColumns, nil
	case "map[tms20.TMID][]geom.Polygon":
		return pdMapPoly, nil
	case "map[tms20.TMID]geom.MultiPolygon":
		return pdMapMult, nil
	case "chan<- FeatureForTileMatrix":
		return pdChanOut, nil
	case "<-chan Feature", "<-chan FeatureForTileMatrix":
		return pdChanIn, nil
	case "chan<- Feature":
		return pdOptChan, nil
	case "map[int]chan<- Feature":
		return pdChanMap, nil
	case "processPolygonFunc":
		ts := g.types["processPolygonFunc"]
		if ts == nil {
			return nil, g.errf(t, "type processPolygonFunc is not declared")
		}
		want := "func(p geom.Polygon, tileMatrixIDs []tms20.TMID) map[tms20.TMID][]geom.Polygon"
		if got := g.src(ts.Type); got != want {
			return nil, g.errf(ts, "processPolygonFunc is %s, expected %s", got, want)
		}
		return pdFunc, nil
	}
	return nil, g.errf(t, "type %s is outside the translated subset", g.src(t))
}

func pdTuple(vs []*pdVar) string {
	if len(vs) == 1 {
		return vs[0].coq
	}
	var ns []string
	for _, v := range vs {
		ns = append(ns, v.coq)
	}
	return "(" + strings.Join(ns, ", ") + ")"
}

func pdTupleTy(vs []*pdVar) string {
	if len(vs) == 1 {
		return vs[0].ty.coq()
	}
	var ns []string
	for _, v := range vs {
		ns = append(ns, v.ty.coq())
	}
	return "(" + strings.Join(ns, " * ") + ")%type"
}

// a binder for the state of a loop / body function
func pdStateBinder(vs []*pdVar) string {
	if len(vs) == 1 {
		return "(" + vs[0].coq + " : " + vs[0].ty.coq() + ")"
	}
	return "'(" + pdTuple(vs) + " : " + pdTupleTy(vs) + ")"
}

func pdDoBind(vs []*pdVar) string {
	if len(vs) == 1 {
		return vs[0].coq
	}
	return pdTuple(vs)
}

func pdIsPanic(s ast.Stmt) bool {
	es, ok := s.(*ast.ExprStmt)
	if !ok {
		return false
	}
	c, ok := es.X.(*ast.CallExpr)
	if !ok {
		return false
	}
	id, ok := c.Fun.(*ast.Ident)
	return ok && id.Name == "panic"
}

func pdExits(list []ast.Stmt) bool {
	if len(list) == 0 {
		return false
	}
	last := list[len(list)-1]
	if _, ok := last.(*ast.ReturnStmt); ok {
		return true
	}
	return pdIsPanic(last)
}

// does the subtree contain anything that leaves it other than by falling through (return, panic, break, continue,
// goto, a type assertion)?
func pdEscapes(n ast.Node) bool {
	found := false
	ast.Inspect(n, func(x ast.Node) bool {
		switch y := x.(type) {
		case *ast.ReturnStmt, *ast.BranchStmt:
			found = true
		case *ast.TypeAssertExpr:
			if y.Type != nil {
				found = true
			}
		case *ast.CallExpr:
			if id, ok := y.Fun.(*ast.Ident); ok && id.Name == "panic" {
				found = true
			}
		}
		return !found
	})
	return found
}

func pdCanPanic(n ast.Node) bool {
	found := false
	ast.Inspect(n, func(x ast.Node) bool {
		switch y := x.(type) {
		case *ast.TypeAssertExpr:
			if y.Type != nil {
				found = true
			}
		case *ast.CallExpr:
			if id, ok := y.Fun.(*ast.Ident); ok && id.Name == "panic" {
				found = true
			}
		}
		return !found
	})
	return found
}

// Go names mentioned in a subtree
func pdMentions(n ast.Node) map[string]bool {
	m := map[string]bool{}
	ast.Inspect(n, func(x ast.Node) bool {
		if id, ok := x.(*ast.Ident); ok {
			m[id.Name] = true
		}
		return true
	})
	return m
}

// the variables of env a subtree assigns (Go names; "#routed" for sends on looked-up channels)
func (g *pd) assigned(env *pdEnv, n ast.Node) map[string]bool {
	m := map[string]bool{}
	root := func(e ast.Expr) string {
		for {
			switch x := e.(type) {
			case *ast.Ident:
				return x.Name
			case *ast.IndexExpr:
				e = x.X
			case *ast.ParenExpr:
				e = x.X
			default:
				return ""
			}
		}
	}
	ast.Inspect(n, func(x ast.Node) bool {
		switch y := x.(type) {
		case *ast.AssignStmt:
			if y.Tok != token.DEFINE {
				for _, l := range y.Lhs {
					if r := root(l); r != "" {
						m[r] = true
					}
				}
			}
		case *ast.IncDecStmt:
			if r := root(y.X); r != "" {
				m[r] = true
			}
		case *ast.SendStmt:
			if r := root(y.Chan); r != "" {
				if v := env.lookup(r); v != nil && v.ty.kind == "chanout" {
					m[r] = true
				} else {
					m["#routed"] = true
				}
			}
		}
		return true
	})
	return m
}

func pdQuote(s string) (string, error) { return pkStr(s) }

// ---------------------------------------------------------------------------
// expressions
// ---------------------------------------------------------------------------

// a value of type `from` used where `to` is expected
func (g *pd) coerce(code string, from, to *pdTy, at ast.Node) (string, error) {
	if from == to {
		return code, nil
	}
	switch {
	case from.kind == to.kind && from.kind != "map":
		return code, nil
	case from.kind == "map" && to.kind == "map" && from.elem == to.elem:
		return code, nil
	case (from.kind == "poly" && to.kind == "rawpoly") || (from.kind == "rawpoly" && to.kind == "poly"):
		return code, nil // geom.Polygon and [][][2]float64 are assignable to each other
	case to.kind == "iface" && from.kind == "poly":
		g.doc("a geom.Polygon used as a geom.Geometry  ->  Some (GoPolygon v): an interface value with that dynamic type")
		return "(Some (GoPolygon " + code + "))", nil
	case to.kind == "iface" && from.kind == "multi":
		g.doc("a geom.MultiPolygon used as a geom.Geometry  ->  Some (GoMultiPolygon v) (never the nil interface, also for a nil slice)")
		return "(Some (GoMultiPolygon " + code + "))", nil
	case to.kind == "iface" && from.kind == "nil":
		return "(@None (ggeometry P))", nil
	case to.kind == "optchan" && from.kind == "chan":
		return "(Some " + code + ")", nil
	}
	return "", g.errf(at, "a value of kind %s cannot be used as %s in the translated subset", from.kind, to.kind)
}

func (g *pd) exprs(env *pdEnv, cx *pdCtx, es []ast.Expr) ([]string, []*pdTy, []string, error) {
	var codes []string
	var tys []*pdTy
	var pre []string
	for _, e := range es {
		c, t, p, err := g.expr(env, cx, e)
		if err != nil {
			return nil, nil, nil, err
		}
		codes, tys, pre = append(codes, c), append(tys, t), append(pre, p...)
	}
	return codes, tys, pre, nil
}

func (g *pd) needMonad() error {
	if g.pure {
		return errPdNeedsMonad
	}
	return nil
}

func (g *pd) expr(env *pdEnv, cx *pdCtx, e ast.Expr) (string, *pdTy, []string, error) {
	switch x := e.(type) {
	case *ast.ParenExpr:
		return g.expr(env, cx, x.X)
	case *ast.Ident:
		switch x.Name {
		case "nil":
			return "nil", pdNil, nil, nil
		case "true", "false":
			if env.lookup(x.Name) == nil {
				return x.Name, pdBool, nil, nil
			}
		}
		v := env.lookup(x.Name)
		if v == nil {
			return "", nil, nil, g.errf(x, "identifier %s is not a variable of the translated part", x.Name)
		}
		if v.ty.kind == "chanin" || v.ty.kind == "chanout" || v.ty.kind == "routed" {
			return "", nil, nil, g.errf(x, "channel %s used as a value", x.Name)
		}
		return v.coq, v.ty, nil, nil
	case *ast.BasicLit:
		if x.Kind != token.INT {
			return "", nil, nil, g.errf(x, "literal %s is outside the translated subset", x.Value)
		}
		n, err := strconv.ParseInt(x.Value, 0, 64)
		if err != nil || n < 0 {
			return "", nil, nil, g.errf(x, "integer literal %s", x.Value)
		}
		return strconv.FormatInt(n, 10), pdInt, nil, nil
	case *ast.UnaryExpr:
		switch x.Op {
		case token.NOT:
			c, t, p, err := g.expr(env, cx, x.X)
			if err != nil {
				return "", nil, nil, err
			}
			if t.kind != "bool" {
				return "", nil, nil, g.errf(x, "! on a %s", t.kind)
			}
			return "(negb " + c + ")", pdBool, p, nil
		case token.AND:
			if cl, ok := x.X.(*ast.CompositeLit); ok {
				return g.composite(env, cx, cl)
			}
		}
		return "", nil, nil, g.errf(x, "unary operator %s is outside the translated subset", x.Op)
	case *ast.BinaryExpr:
		return g.binary(env, cx, x)
	case *ast.IndexExpr:
		c, t, p, err := g.expr(env, cx, x.X)
		if err != nil {
			return "", nil, nil, err
		}
		ic, it, ip, err := g.expr(env, cx, x.Index)
		if err != nil {
			return "", nil, nil, err
		}
		p = append(p, ip...)
		if it.kind != "int" {
			return "", nil, nil, g.errf(x, "index / key of kind %s", it.kind)
		}
		switch {
		case t.isSlice():
			if err := g.needMonad(); err != nil {
				return "", nil, nil, err
			}
			g.doc("s[i] on a slice  ->  idx s i (Prelude/Base.v: Err IndexOutOfRange outside 0 <= i < len s)")
			tv := g.tmp()
			p = append(p, "do "+tv+" <- idx "+c+" "+ic+";")
			return tv, t.elem, p, nil
		case t.kind == "map":
			z, ok := t.elem.zero()
			if !ok {
				return "", nil, nil, g.errf(x, "no zero value for %s", t.elem.kind)
			}
			g.doc("m[k] on a map[tms20.TMID]T  ->  gm_get_or Z.eqb zero m k (Prelude/GoAssoc.v: the zero value, a nil slice, when there is no entry)")
			return "(gm_get_or Z.eqb " + z + " " + c + " " + ic + ")", t.elem, p, nil
		case t.kind == "chanmap":
			g.doc("targetChannels[k] on the map[int]chan<- Feature  ->  gm_get Z.eqb m k : option CH (None = the nil channel, the zero value when there is no entry; the entries are results of make(chan Feature), hence not nil: checked on the AST)")
			return "(gm_get Z.eqb " + c + " " + ic + ")", pdOptChan, p, nil
		}
		return "", nil, nil, g.errf(x, "index expression on a %s", t.kind)
	case *ast.SelectorExpr:
		c, t, p, err := g.expr(env, cx, x.X)
		if err != nil {
			return "", nil, nil, err
		}
		if t.kind != "wrapper" {
			return "", nil, nil, g.errf(x, "field selection on a %s", t.kind)
		}
		for _, f := range g.fields {
			if f.name == x.Sel.Name {
				return "(" + pdWrapperName + "_" + f.name + " " + c + ")", f.ty, p, nil
			}
		}
		return "", nil, nil, g.errf(x, "%s has no field %s", pdWrapperName, x.Sel.Name)
	case *ast.CallExpr:
		return g.call(env, cx, x)
	}
	return "", nil, nil, g.errf(e, "expression %s is outside the translated subset", g.src(e))
}

func (g *pd) binary(env *pdEnv, cx *pdCtx, x *ast.BinaryExpr) (string, *pdTy, []string, error) {
	a, at, ap, err := g.expr(env, cx, x.X)
	if err != nil {
		return "", nil, nil, err
	}
	b, bt, bp, err := g.expr(env, cx, x.Y)
	if err != nil {
		return "", nil, nil, err
	}
	pre := append(ap, bp...)
	if x.Op == token.EQL || x.Op == token.NEQ {
		if at.kind == "nil" {
			a, at, b, bt = b, bt, a, at
		}
		if bt.kind == "nil" {
			var c string
			switch at.kind {
			case "iface", "optchan":
				g.doc("x == nil on an interface / channel value  ->  iface_is_nil x (Pipe/GoData.v)")
				c = "(iface_is_nil " + a + ")"
			default:
				return "", nil, nil, g.errf(x, "comparison of a %s with nil", at.kind)
			}
			if x.Op == token.NEQ {
				c = "(negb " + c + ")"
			}
			return c, pdBool, pre, nil
		}
	}
	intlike := func(t *pdTy) bool { return t.kind == "int" || t.kind == "uint64" }
	if !intlike(at) || at.kind != bt.kind {
		// an untyped constant takes the type of the other operand
		if _, ok := x.Y.(*ast.BasicLit); ok && intlike(at) {
			bt = at
		} else if _, ok := x.X.(*ast.BasicLit); ok && intlike(bt) {
			at = bt
		} else {
			return "", nil, nil, g.errf(x, "operator %s on %s and %s", x.Op, at.kind, bt.kind)
		}
	}
	switch x.Op {
	case token.EQL:
		return "(" + a + " =? " + b + ")", pdBool, pre, nil
	case token.NEQ:
		return "(negb (" + a + " =? " + b + "))", pdBool, pre, nil
	case token.LSS:
		return "(" + a + " <? " + b + ")", pdBool, pre, nil
	case token.GTR:
		return "(" + b + " <? " + a + ")", pdBool, pre, nil
	case token.LEQ:
		return "(" + a + " <=? " + b + ")", pdBool, pre, nil
	case token.GEQ:
		return "(" + b + " <=? " + a + ")", pdBool, pre, nil
	}
	return "", nil, nil, g.errf(x, "operator %s is outside the translated subset", x.Op)
}

func (g *pd) composite(env *pdEnv, cx *pdCtx, cl *ast.CompositeLit) (string, *pdTy, []string, error) {
	if id, ok := cl.Type.(*ast.Ident); !ok || id.Name != pdWrapperName {
		return "", nil, nil, g.errf(cl, "composite literal of %s", g.src(cl.Type))
	}
	vals := map[string]string{}
	var pre []string
	for _, el := range cl.Elts {
		kv, ok := el.(*ast.KeyValueExpr)
		if !ok {
			return "", nil, nil, g.errf(el, "struct literal without field names")
		}
		k, ok := kv.Key.(*ast.Ident)
		if !ok {
			return "", nil, nil, g.errf(el, "struct literal key")
		}
		var ft *pdTy
		for _, f := range g.fields {
			if f.name == k.Name {
				ft = f.ty
			}
		}
		if ft == nil {
			return "", nil, nil, g.errf(el, "%s has no field %s", pdWrapperName, k.Name)
		}
		if _, dup := vals[k.Name]; dup {
			return "", nil, nil, g.errf(el, "field %s twice", k.Name)
		}
		c, t, p, err := g.expr(env, cx, kv.Value)
		if err != nil {
			return "", nil, nil, err
		}
		c, err = g.coerce(c, t, ft, kv.Value)
		if err != nil {
			return "", nil, nil, err
		}
		pre = append(pre, p...)
		vals[k.Name] = c
	}
	args := []string{}
	for _, f := range g.fields {
		c, ok := vals[f.name]
		if !ok {
			return "", nil, nil, g.errf(cl, "field %s is not given (zero values of fields are outside the subset)", f.name)
		}
		args = append(args, c)
	}
	g.doc("&" + pdWrapperName + "{..}  ->  the record value mk_" + pdWrapperName + " (no field of the struct is assigned anywhere in package processing: checked; a pointer obtained this way is never nil)")
	return "(mk_" + pdWrapperName + " " + strings.Join(args, " ") + ")", pdWrapper, pre, nil
}

func (g *pd) call(env *pdEnv, cx *pdCtx, c *ast.CallExpr) (string, *pdTy, []string, error) {
	if c.Ellipsis != token.NoPos {
		return "", nil, nil, g.errf(c, "call with ...")
	}
	switch f := c.Fun.(type) {
	case *ast.Ident:
		if v := env.lookup(f.Name); v != nil {
			if v.ty.kind != "func" {
				return "", nil, nil, g.errf(c, "call of %s, which is a %s", f.Name, v.ty.kind)
			}
			args, tys, pre, err := g.exprs(env, cx, c.Args)
			if err != nil {
				return "", nil, nil, err
			}
			if len(args) != len(v.ty.params) {
				return "", nil, nil, g.errf(c, "%d arguments for %s", len(args), f.Name)
			}
			for i := range args {
				if args[i], err = g.coerce(args[i], tys[i], v.ty.params[i], c.Args[i]); err != nil {
					return "", nil, nil, err
				}
			}
			g.doc("f(polygon, ids) on the processPolygonFunc parameter  ->  (v_f polygon ids): f is a parameter of the generated functions; it is assumed to return (a panic inside it is its own) and to have no effect processing.go can see")
			return "(" + v.coq + " " + strings.Join(args, " ") + ")", v.ty.result, pre, nil
		}
		switch f.Name {
		case "len":
			if len(c.Args) != 1 {
				return "", nil, nil, g.errf(c, "len with %d arguments", len(c.Args))
			}
			a, t, p, err := g.expr(env, cx, c.Args[0])
			if err != nil {
				return "", nil, nil, err
			}
			switch {
			case t.isSlice():
				return "(zlen " + a + ")", pdInt, p, nil
			case t.kind == "map":
				g.doc("len(m) on a map  ->  gm_len m (Prelude/GoAssoc.v; one entry per key)")
				return "(gm_len " + a + ")", pdInt, p, nil
			}
			return "", nil, nil, g.errf(c, "len of a %s", t.kind)
		case "append":
			if !g.appendOK {
				return "", nil, nil, g.errf(c, "append is translated only in the form m[k] = append(m[k], x) on a map made by this function")
			}
			if len(c.Args) != 2 {
				return "", nil, nil, g.errf(c, "append with %d arguments", len(c.Args))
			}
			a, t, p, err := g.expr(env, cx, c.Args[0])
			if err != nil {
				return "", nil, nil, err
			}
			b, bt, bp, err := g.expr(env, cx, c.Args[1])
			if err != nil {
				return "", nil, nil, err
			}
			if !t.isSlice() {
				return "", nil, nil, g.errf(c, "append to a %s", t.kind)
			}
			if b, err = g.coerce(b, bt, t.elem, c.Args[1]); err != nil {
				return "", nil, nil, err
			}
			g.doc("append(s, x)  ->  s ++ [x]: slices are values (accepted only in the form m[k] = append(m[k], x) on a map this function made itself: the slices appended to are its own)")
			return "(" + a + " ++ [" + b + "])", t, append(p, bp...), nil
		case "make":
			if len(c.Args) != 2 {
				return "", nil, nil, g.errf(c, "make with %d arguments", len(c.Args))
			}
			t, err := g.tyOf(c.Args[0])
			if err != nil {
				return "", nil, nil, err
			}
			n, nt, p, err := g.expr(env, cx, c.Args[1])
			if err != nil {
				return "", nil, nil, err
			}
			if nt.kind != "int" {
				return "", nil, nil, g.errf(c, "make with a size of kind %s", nt.kind)
			}
			switch t.kind {
			case "map":
				if ce, ok := c.Args[1].(*ast.CallExpr); !ok || g.src(ce.Fun) != "len" || len(p) != 0 {
					return "", nil, nil, g.errf(c, "the size hint of make(map) must be a len(..) of a variable")
				}
				g.doc("make(map[tms20.TMID]T, len(..))  ->  the empty association list (the second argument is a capacity hint)")
				return "(@nil (Z * " + t.elem.coq() + "))", t, nil, nil
			case "multi", "polys":
				if err := g.needMonad(); err != nil {
					return "", nil, nil, err
				}
				g.doc("make(geom.MultiPolygon, n)  ->  go_make_slice nil_polygon n (Pipe/GoData.v): n nil polygons (nil_polygon, the zero value of the abstract polygon type, is a parameter); Err SliceBounds for n < 0")
				tv := g.tmp()
				p = append(p, "do "+tv+" <- go_make_slice nil_polygon "+n+";")
				return tv, t, p, nil
			}
			return "", nil, nil, g.errf(c, "make of a %s", t.kind)
		}
		sig := g.sigs[f.Name]
		if sig == nil {
			return "", nil, nil, g.errf(c, "call of %s, which is not translated", f.Name)
		}
		if sig.hasSites && cx.depth > 0 {
			return "", nil, nil, g.errf(c, "call of %s (which ranges over Go maps) inside a loop: its sites would need the loop's indices", f.Name)
		}
		args, tys, pre, err := g.exprs(env, cx, c.Args)
		if err != nil {
			return "", nil, nil, err
		}
		return g.applySig(sig, args, tys, pre, c, c.Args)
	case *ast.SelectorExpr:
		if len(c.Args) != 0 {
			return "", nil, nil, g.errf(c, "method call with arguments")
		}
		r, rt, pre, err := g.expr(env, cx, f.X)
		if err != nil {
			return "", nil, nil, err
		}
		switch rt.kind {
		case "feature":
			for _, m := range g.featM {
				if m.name == f.Sel.Name {
					g.doc("x." + m.name + "() on a Feature  ->  the field Feature_" + m.name + " of the record of method results (regenerated from interface.go; the implementations are assumed to be getters: two calls give the same value)")
					return "(Feature_" + m.name + " " + r + ")", m.ty, pre, nil
				}
			}
		case "wrapper":
			if sig := g.sigs[pdWrapperName+"."+f.Sel.Name]; sig != nil {
				g.doc("x." + f.Sel.Name + "() on a FeatureForTileMatrix  ->  the regenerated method of *" + pdWrapperName + " (checked: the only type of package processing with a method " + f.Sel.Name + "; what arrives on the channel is what processFeatures sent: the results of wrapFeatureForTileMatrix)")
				return g.applySig(sig, []string{r}, []*pdTy{rt}, pre, c, []ast.Expr{f.X})
			}
		}
		return "", nil, nil, g.errf(c, "method %s on a %s", f.Sel.Name, rt.kind)
	}
	return "", nil, nil, g.errf(c, "call %s is outside the translated subset", g.src(c))
}

func (g *pd) applySig(sig *pdSig, args []string, tys []*pdTy, pre []string, at ast.Node, argNodes []ast.Expr) (string, *pdTy, []string, error) {
	if len(args) != len(sig.params) {
		return "", nil, nil, g.errf(at, "%d arguments, %d parameters", len(args), len(sig.params))
	}
	var err error
	for i := range args {
		if args[i], err = g.coerce(args[i], tys[i], sig.params[i], argNodes[i]); err != nil {
			return "", nil, nil, err
		}
	}
	app := sig.coq
	if len(args) > 0 {
		app += " " + strings.Join(args, " ")
	}
	if sig.monadic {
		if err := g.needMonad(); err != nil {
			return "", nil, nil, err
		}
		tv := g.tmp()
		pre = append(pre, "do "+tv+" <- "+app+";")
		return tv, sig.result, pre, nil
	}
	return "(" + app + ")", sig.result, pre, nil
}

// ---------------------------------------------------------------------------
// statements (continuation style: k gives the term for "fall through the end of the list")
// ---------------------------------------------------------------------------

func pdSeq(pre []string, body string) string {
	if len(pre) == 0 {
		return body
	}
	return strings.Join(pre, "\n  ") + "\n  " + body
}

func (g *pd) declare(env *pdEnv, id *ast.Ident, ty *pdTy) (*pdVar, error) {
	if id.Name == "_" {
		return nil, g.errf(id, "blank identifier declared")
	}
	if env.lookup(id.Name) != nil {
		return nil, g.errf(id, "%s shadows a variable of the same name", id.Name)
	}
	if _, isFn := g.funcs[id.Name]; isFn {
		return nil, g.errf(id, "%s shadows a function", id.Name)
	}
	v := &pdVar{name: id.Name, coq: "v_" + id.Name, ty: ty}
	env.vars = append(env.vars, v)
	return v, nil
}

func (g *pd) panicTerm(cx *pdCtx, at ast.Node, p string) (string, error) {
	if cx.stateVars == nil {
		return "", g.errf(at, "a panic in a function that is translated as a whole has no value in the translated subset")
	}
	return cx.wrapRet("(" + pdTuple(cx.stateVars) + ", Some (" + p + "))"), nil
}

// the variables of env (in scope order) whose Go name is in set
func pdSelect(env *pdEnv, set map[string]bool) []*pdVar {
	var out []*pdVar
	for _, v := range env.vars {
		key := v.name
		if key != "" && set[key] && env.lookup(v.name) == v {
			out = append(out, v)
		}
	}
	return out
}

func pdIn(vs []*pdVar, v *pdVar) bool {
	for _, w := range vs {
		if w == v || w.coq == v.coq {
			return true
		}
	}
	return false
}

// parameters of a loop-body / loop definition: the variables in scope that the subtree needs and that are not its state
func (g *pd) loopParams(env *pdEnv, cx *pdCtx, state []*pdVar, sub ast.Node, extra []*pdVar, sitesInside bool) []*pdVar {
	ment := pdMentions(sub)
	canPanic := pdCanPanic(sub)
	var out []*pdVar
	for _, v := range env.vars {
		if env.byCoq(v.coq) != v || pdIn(state, v) || pdIn(out, v) {
			continue
		}
		need := v.name != "" && ment[v.name]
		if canPanic && pdIn(cx.stateVars, v) {
			need = true
		}
		if sitesInside && pdIn(cx.siteArgs, v) {
			need = true
		}
		if pdIn(extra, v) {
			need = true
		}
		if need {
			out = append(out, v)
		}
	}
	return out
}

func pdBinders(vs []*pdVar) string {
	var b []string
	for _, v := range vs {
		b = append(b, "("+v.coq+" : "+v.ty.coq()+")")
	}
	return strings.Join(b, " ")
}

func pdNames(vs []*pdVar) string {
	var b []string
	for _, v := range vs {
		b = append(b, v.coq)
	}
	return strings.Join(b, " ")
}

func (g *pd) stmts(env *pdEnv, cx *pdCtx, list []ast.Stmt, k func(*pdEnv) (string, error)) (string, error) {
	if len(list) == 0 {
		return k(env)
	}
	rest := func(e *pdEnv) (string, error) { return g.stmts(e, cx, list[1:], k) }
	switch x := list[0].(type) {
	case *ast.DeclStmt:
		gd, ok := x.Decl.(*ast.GenDecl)
		if !ok || gd.Tok != token.VAR {
			return "", g.errf(x, "declaration outside the translated subset")
		}
		var lets []string
		for _, sp := range gd.Specs {
			vs := sp.(*ast.ValueSpec)
			if vs.Type == nil || len(vs.Values) != 0 {
				return "", g.errf(vs, "var declaration must have a type and no value")
			}
			ty, err := g.tyOf(vs.Type)
			if err != nil {
				return "", err
			}
			z, ok := ty.zero()
			if !ok {
				return "", g.errf(vs, "no zero value for %s", ty.kind)
			}
			for _, id := range vs.Names {
				v, err := g.declare(env, id, ty)
				if err != nil {
					return "", err
				}
				lets = append(lets, "let "+v.coq+" := "+z+" in")
			}
		}
		r, err := rest(env)
		if err != nil {
			return "", err
		}
		return pdSeq(lets, r), nil
	case *ast.AssignStmt:
		return g.assign(env, cx, x, rest)
	case *ast.IncDecStmt:
		id, ok := x.X.(*ast.Ident)
		if !ok || x.Tok != token.INC {
			return "", g.errf(x, "only x++ on a variable is translated")
		}
		v := env.lookup(id.Name)
		if v == nil {
			return "", g.errf(x, "%s is not a variable of the translated part", id.Name)
		}
		var e string
		switch v.ty.kind {
		case "uint64":
			g.doc("x++ on a uint64  ->  uint64_inc x = (x + 1) mod 2^64 (Pipe/GoData.v)")
			e = "(uint64_inc " + v.coq + ")"
		case "int":
			g.doc("i++ on an int  ->  i + 1 on exact Z (int is exact Z here: the only int arithmetic is the counter of a loop bounded by a slice length)")
			e = "(" + v.coq + " + 1)"
		default:
			return "", g.errf(x, "++ on a %s", v.ty.kind)
		}
		r, err := rest(env)
		if err != nil {
			return "", err
		}
		return "let " + v.coq + " := " + e + " in\n  " + r, nil
	case *ast.ExprStmt:
		if pdIsPanic(x) {
			c := x.X.(*ast.CallExpr)
			if len(c.Args) != 1 {
				return "", g.errf(x, "panic with %d arguments", len(c.Args))
			}
			ec, ok := c.Args[0].(*ast.CallExpr)
			if !ok || g.src(ec.Fun) != "fmt.Errorf" || len(ec.Args) != 2 {
				return "", g.errf(x, "only panic(fmt.Errorf(text, n)) is translated")
			}
			lit, ok := ec.Args[0].(*ast.BasicLit)
			if !ok || lit.Kind != token.STRING {
				return "", g.errf(x, "the format of fmt.Errorf must be a string literal")
			}
			text, err := strconv.Unquote(lit.Value)
			if err != nil {
				return "", g.errf(x, "string literal %s", lit.Value)
			}
			q, err := pdQuote(text)
			if err != nil {
				return "", g.errf(x, "%v", err)
			}
			a, at, pre, err := g.expr(env, cx, ec.Args[1])
			if err != nil {
				return "", err
			}
			if at.kind != "int" || len(pre) != 0 {
				return "", g.errf(x, "the argument of the panic message must be an int variable")
			}
			g.doc("panic(fmt.Errorf(text, n))  ->  the function returns (the variables it assigns, as they are now; Some (GoPanicf text n)): what was sent before the panic stays sent")
			if len(list) > 1 {
				return "", g.errf(list[1], "statement after a panic")
			}
			return g.panicTerm(cx, x, "GoPanicf "+q+"%string "+a)
		}
		return "", g.errf(x, "statement %s is outside the translated subset", g.src(x))
	case *ast.SendStmt:
		id, ok := x.Chan.(*ast.Ident)
		if !ok {
			return "", g.errf(x, "send on %s", g.src(x.Chan))
		}
		ch := env.lookup(id.Name)
		if ch == nil {
			return "", g.errf(x, "%s is not a variable of the translated part", id.Name)
		}
		val, vt, pre, err := g.expr(env, cx, x.Value)
		if err != nil {
			return "", err
		}
		var let string
		switch ch.ty.kind {
		case "chanout":
			if val, err = g.coerce(val, vt, ch.ty.elem, x.Value); err != nil {
				return "", err
			}
			g.doc("ch <- v on the output channel  ->  v_ch := v_ch ++ [v]: the channel is the list of the values sent on it so far, in order (when and whether the send completes is the skeleton's concern: gen/PipeGen.v)")
			let = "let " + ch.coq + " := (" + ch.coq + " ++ [" + val + "]) in"
		case "chan":
			if vt.kind != "wrapper" {
				return "", g.errf(x, "a %s sent on a target channel", vt.kind)
			}
			rv := env.byCoq("routed")
			if rv == nil {
				return "", g.errf(x, "send on a looked-up channel outside the distribution loop")
			}
			g.doc("channel <- v on a channel looked up in targetChannels (after the nil test)  ->  routed := routed ++ [(channel, v)]: the pairs (channel, value) in the order of the sends")
			let = "let routed := (routed ++ [(" + ch.coq + ", " + val + ")]) in"
		case "optchan":
			return "", g.errf(x, "send on a channel that may be nil (it would block for ever): no value in the translated subset")
		default:
			return "", g.errf(x, "send on a %s", ch.ty.kind)
		}
		r, err := rest(env)
		if err != nil {
			return "", err
		}
		return pdSeq(append(pre, let), r), nil
	case *ast.ReturnStmt:
		if cx.result == nil || len(x.Results) != 1 {
			return "", g.errf(x, "return statement outside the translated subset")
		}
		if len(list) > 1 {
			return "", g.errf(list[1], "statement after a return")
		}
		c, t, pre, err := g.expr(env, cx, x.Results[0])
		if err != nil {
			return "", err
		}
		if c, err = g.coerce(c, t, cx.result, x.Results[0]); err != nil {
			return "", err
		}
		return pdSeq(pre, cx.wrapRet(c)), nil
	case *ast.IfStmt:
		return g.ifStmt(env, cx, x, rest)
	case *ast.RangeStmt:
		return g.rangeStmt(env, cx, x, rest)
	case *ast.ForStmt:
		return g.forStmt(env, cx, x, rest)
	case *ast.TypeSwitchStmt:
		return g.typeSwitch(env, cx, x, rest)
	}
	return "", g.errf(list[0], "statement %s is outside the translated subset", g.src(list[0]))
}

func (g *pd) assign(env *pdEnv, cx *pdCtx, x *ast.AssignStmt, rest func(*pdEnv) (string, error)) (string, error) {
	if len(x.Lhs) != 1 || len(x.Rhs) != 1 {
		return "", g.errf(x, "tuple assignment is outside the translated subset")
	}
	switch x.Tok {
	case token.DEFINE:
		id, ok := x.Lhs[0].(*ast.Ident)
		if !ok {
			return "", g.errf(x, ":= to %s", g.src(x.Lhs[0]))
		}
		if ta, ok := x.Rhs[0].(*ast.TypeAssertExpr); ok && ta.Type != nil {
			c, t, pre, err := g.expr(env, cx, ta.X)
			if err != nil {
				return "", err
			}
			if t.kind != "iface" {
				return "", g.errf(x, "type assertion on a %s", t.kind)
			}
			want := g.src(ta.Type)
			var con string
			var ty *pdTy
			switch want {
			case "geom.Polygon":
				con, ty = "GoPolygon", pdPoly
			case "geom.MultiPolygon":
				con, ty = "GoMultiPolygon", pdMulti
			default:
				return "", g.errf(x, "type assertion to %s", want)
			}
			q, _ := pdQuote(want)
			pan, err := g.panicTerm(cx, x, "GoTypeAssertion "+q+"%string")
			if err != nil {
				return "", err
			}
			tv := g.tmp()
			v, err := g.declare(env, id, ty)
			if err != nil {
				return "", err
			}
			r, err := rest(env)
			if err != nil {
				return "", err
			}
			g.doc("y := x.(T) on a geom.Geometry  ->  match on the dynamic type; any other dynamic type (or nil) = the run-time panic GoTypeAssertion \"T\"")
			return pdSeq(pre, "match "+c+" with\n  | Some ("+con+" "+tv+") => let "+v.coq+" := "+tv+" in\n  "+r+"\n  | _ => "+pan+"\n  end"), nil
		}
		c, t, pre, err := g.expr(env, cx, x.Rhs[0])
		if err != nil {
			return "", err
		}
		if t.kind == "nil" {
			return "", g.errf(x, ":= nil")
		}
		if ce, ok := x.Rhs[0].(*ast.CallExpr); ok && g.src(ce.Fun) == "make" {
			g.own[id.Name] = true
		}
		v, err := g.declare(env, id, t)
		if err != nil {
			return "", err
		}
		r, err := rest(env)
		if err != nil {
			return "", err
		}
		return pdSeq(append(pre, "let "+v.coq+" := "+c+" in"), r), nil
	case token.ASSIGN:
		switch l := x.Lhs[0].(type) {
		case *ast.Ident:
			v := env.lookup(l.Name)
			if v == nil {
				return "", g.errf(x, "%s is not a variable of the translated part", l.Name)
			}
			switch v.ty.kind {
			case "int", "uint64", "bool", "iface", "poly", "multi", "polys":
			default:
				return "", g.errf(x, "assignment to a variable of kind %s", v.ty.kind)
			}
			c, t, pre, err := g.expr(env, cx, x.Rhs[0])
			if err != nil {
				return "", err
			}
			if c, err = g.coerce(c, t, v.ty, x.Rhs[0]); err != nil {
				return "", err
			}
			r, err := rest(env)
			if err != nil {
				return "", err
			}
			return pdSeq(append(pre, "let "+v.coq+" := "+c+" in"), r), nil
		case *ast.IndexExpr:
			id, ok := l.X.(*ast.Ident)
			if !ok {
				return "", g.errf(x, "assignment to %s", g.src(l))
			}
			v := env.lookup(id.Name)
			if v == nil {
				return "", g.errf(x, "%s is not a variable of the translated part", id.Name)
			}
			if !g.own[id.Name] {
				return "", g.errf(x, "%s is written through, but was not made by this function (aliasing is outside the translation)", id.Name)
			}
			ic, it, pre, err := g.expr(env, cx, l.Index)
			if err != nil {
				return "", err
			}
			if it.kind != "int" {
				return "", g.errf(x, "index / key of kind %s", it.kind)
			}
			// m[k] = append(m[k], v): the one accepted use of append
			if ce, ok := x.Rhs[0].(*ast.CallExpr); ok && g.src(ce.Fun) == "append" {
				if v.ty.kind != "map" || len(ce.Args) != 2 || g.src(ce.Args[0]) != g.src(l) {
					return "", g.errf(x, "append is translated only in the form m[k] = append(m[k], x) on a map made by this function")
				}
				g.appendOK = true
			}
			c, t, p2, err := g.expr(env, cx, x.Rhs[0])
			g.appendOK = false
			if err != nil {
				return "", err
			}
			pre = append(pre, p2...)
			if c, err = g.coerce(c, t, v.ty.elem, x.Rhs[0]); err != nil {
				return "", err
			}
			var let string
			switch {
			case v.ty.kind == "map":
				if cx.ranged[id.Name] {
					return "", g.errf(x, "write to map %s inside a range over it", id.Name)
				}
				g.doc("m[k] = v on a map[tms20.TMID]T made by this function  ->  gm_set Z.eqb m k v (Prelude/GoAssoc.v: a present key keeps its place, a new key goes to the end; the place is not observable: iteration takes its order from `ord`)")
				let = "let " + v.coq + " := (gm_set Z.eqb " + v.coq + " " + ic + " " + c + ") in"
			case v.ty.isSlice():
				if err := g.needMonad(); err != nil {
					return "", err
				}
				g.doc("s[i] = v on a slice made by this function  ->  do s <- setidx s i v (Prelude/Base.v: Err IndexOutOfRange outside 0 <= i < len s)")
				let = "do " + v.coq + " <- setidx " + v.coq + " " + ic + " " + c + ";"
			default:
				return "", g.errf(x, "indexed assignment to a %s", v.ty.kind)
			}
			r, err := rest(env)
			if err != nil {
				return "", err
			}
			return pdSeq(append(pre, let), r), nil
		}
	}
	return "", g.errf(x, "assignment %s is outside the translated subset", g.src(x))
}

func (g *pd) noReturn(at ast.Node) func(string) string {
	return func(string) string { return "UNREACHABLE_RETURN_" + strings.ReplaceAll(g.line(at), ":", "_") }
}

func (g *pd) ifStmt(env *pdEnv, cx *pdCtx, x *ast.IfStmt, rest func(*pdEnv) (string, error)) (string, error) {
	if x.Init != nil {
		return "", g.errf(x, "if with an init statement")
	}
	cond, ct, pre, err := g.expr(env, cx, x.Cond)
	if err != nil {
		return "", err
	}
	if ct.kind != "bool" {
		return "", g.errf(x, "condition of kind %s", ct.kind)
	}
	unreachable := func(*pdEnv) (string, error) { return "", g.errf(x, "internal: fall-through of an exiting branch") }
	thenExits := pdExits(x.Body.List)
	var elseList []ast.Stmt
	switch e := x.Else.(type) {
	case nil:
	case *ast.BlockStmt:
		elseList = e.List
	default:
		elseList = []ast.Stmt{e}
	}
	if thenExits && x.Else == nil {
		// `if x == nil { exit }` on a channel that may be nil: afterwards it is not nil
		if be, ok := x.Cond.(*ast.BinaryExpr); ok && be.Op == token.EQL && g.src(be.Y) == "nil" {
			if id, ok := be.X.(*ast.Ident); ok {
				if v := env.lookup(id.Name); v != nil && v.ty.kind == "optchan" {
					a, err := g.stmts(env.clone(), cx, x.Body.List, unreachable)
					if err != nil {
						return "", err
					}
					r, err := rest(env.retype(v, pdChan))
					if err != nil {
						return "", err
					}
					g.doc("if channel == nil { panic(..) } on a looked-up channel  ->  match channel with None => the panic | Some channel => the rest (where the channel is not nil)")
					return pdSeq(pre, "match "+v.coq+" with\n  | None => "+a+"\n  | Some "+v.coq+" => "+r+"\n  end"), nil
				}
			}
		}
		a, err := g.stmts(env.clone(), cx, x.Body.List, unreachable)
		if err != nil {
			return "", err
		}
		r, err := rest(env)
		if err != nil {
			return "", err
		}
		return pdSeq(pre, "if "+cond+" then ("+a+")\n  else ("+r+")"), nil
	}
	escapes := pdEscapes(x.Body)
	if x.Else != nil && pdEscapes(x.Else) {
		escapes = true
	}
	if !escapes {
		set := g.assigned(env, x.Body)
		if x.Else != nil {
			for k2 := range g.assigned(env, x.Else) {
				set[k2] = true
			}
		}
		vars := pdSelect(env, set)
		if len(vars) == 0 {
			return "", g.errf(x, "an if statement that assigns no variable of the enclosing scope")
		}
		if err := g.needMonad(); err != nil {
			return "", err
		}
		join := func(*pdEnv) (string, error) { return "Ok " + pdTuple(vars), nil }
		jcx := *cx
		jcx.wrapRet = g.noReturn(x)
		a, err := g.stmts(env.clone(), &jcx, x.Body.List, join)
		if err != nil {
			return "", err
		}
		b := "Ok " + pdTuple(vars)
		if x.Else != nil {
			if b, err = g.stmts(env.clone(), &jcx, elseList, join); err != nil {
				return "", err
			}
		}
		r, err := rest(env)
		if err != nil {
			return "", err
		}
		return pdSeq(pre, "do "+pdDoBind(vars)+" <- (if "+cond+" then ("+a+")\n  else ("+b+"));\n  "+r), nil
	}
	// general case: the rest of the block is repeated in both branches
	a, err := g.stmts(env.clone(), cx, x.Body.List, func(*pdEnv) (string, error) { return rest(env.clone()) })
	if err != nil {
		return "", err
	}
	b, err := g.stmts(env.clone(), cx, elseList, func(*pdEnv) (string, error) { return rest(env.clone()) })
	if err != nil {
		return "", err
	}
	return pdSeq(pre, "if "+cond+" then ("+a+")\n  else ("+b+")"), nil
}

func (g *pd) typeSwitch(env *pdEnv, cx *pdCtx, x *ast.TypeSwitchStmt, rest func(*pdEnv) (string, error)) (string, error) {
	if x.Init != nil {
		return "", g.errf(x, "type switch with an init statement")
	}
	es, ok := x.Assign.(*ast.ExprStmt)
	if !ok {
		return "", g.errf(x, "type switch that binds a variable")
	}
	ta, ok := es.X.(*ast.TypeAssertExpr)
	if !ok || ta.Type != nil {
		return "", g.errf(x, "type switch guard")
	}
	c, t, pre, err := g.expr(env, cx, ta.X)
	if err != nil {
		return "", err
	}
	if t.kind != "iface" {
		return "", g.errf(x, "type switch on a %s", t.kind)
	}
	pats := map[string]string{"geom.Polygon": "Some (GoPolygon _)", "geom.MultiPolygon": "Some (GoMultiPolygon _)"}
	seen := map[string]bool{}
	var arms []string
	var deflt string
	hasDefault := false
	for _, cc := range x.Body.List {
		cl := cc.(*ast.CaseClause)
		body, err := g.stmts(env.clone(), cx, cl.Body, func(*pdEnv) (string, error) { return rest(env.clone()) })
		if err != nil {
			return "", err
		}
		if cl.List == nil {
			hasDefault = true
			deflt = body
			continue
		}
		if len(cl.List) != 1 {
			return "", g.errf(cl, "case with several types")
		}
		name := g.src(cl.List[0])
		p, ok := pats[name]
		if !ok || seen[name] {
			return "", g.errf(cl, "case %s of a type switch on a geom.Geometry", name)
		}
		seen[name] = true
		arms = append(arms, "  | "+p+" => (* case "+name+" *)\n  "+body)
	}
	if !hasDefault {
		if deflt, err = rest(env.clone()); err != nil {
			return "", err
		}
	}
	g.doc("switch x.(type) { case geom.Polygon: .. case geom.MultiPolygon: .. default: .. } on a geom.Geometry  ->  match on Some (GoPolygon _) / Some (GoMultiPolygon _) / anything else (other dynamic types, pointers, nil); the statements after the switch are repeated in every arm")
	return pdSeq(pre, "match "+c+" with\n"+strings.Join(arms, "\n")+"\n  | _ => (* default *)\n  "+deflt+"\n  end"), nil
}

func (g *pd) emitLoopResult(cx *pdCtx, out string, state []*pdVar, r string) string {
	rv := "r_" + strings.TrimPrefix(out, "out_")
	pat := pdTuple(state)
	return "match " + out + " with\n  | Ret " + rv + " => " + cx.wrapRet(rv) + "\n  | Next " + pat + " => " + r + "\n  end"
}

func (g *pd) rangeStmt(env *pdEnv, cx *pdCtx, x *ast.RangeStmt, rest func(*pdEnv) (string, error)) (string, error) {
	if x.Tok != token.DEFINE {
		return "", g.errf(x, "range without :=")
	}
	if err := g.needMonad(); err != nil {
		return "", err
	}
	id, ok := x.X.(*ast.Ident)
	if !ok {
		return "", g.errf(x, "range over %s (only over a variable)", g.src(x.X))
	}
	coll := env.lookup(id.Name)
	if coll == nil {
		return "", g.errf(x, "%s is not a variable of the translated part", id.Name)
	}
	named := func(e ast.Expr) *ast.Ident {
		if i, ok := e.(*ast.Ident); ok && i.Name != "_" {
			return i
		}
		return nil
	}
	if (x.Key != nil && named(x.Key) == nil && g.src(x.Key) != "_") || (x.Value != nil && named(x.Value) == nil && g.src(x.Value) != "_") {
		return "", g.errf(x, "range variables must be identifiers")
	}
	var keyId, valId *ast.Ident
	if x.Key != nil {
		keyId = named(x.Key)
	}
	if x.Value != nil {
		valId = named(x.Value)
	}
	set := g.assigned(env, x.Body)
	if set[id.Name] {
		return "", g.errf(x, "the loop writes to %s, which it ranges over", id.Name)
	}
	state := pdSelect(env, set)
	if len(state) == 0 {
		return "", g.errf(x, "a loop that assigns no variable of the enclosing scope")
	}
	g.loopN++
	n := g.loopN
	name := fmt.Sprintf("gen_%s_range%d", g.fn, n)
	benv := env.clone()
	wrap := func(v string) string { return "Ok (RRet " + v + ")" }
	icx := cx.with(wrap)
	var elemBinder, listTerm, doc string
	var lets []string
	var extra []*pdVar
	sitesBefore := len(g.sites)
	switch {
	case coll.ty.isSlice():
		var idx *pdVar
		if keyId != nil {
			v, err := g.declare(benv, keyId, pdInt)
			if err != nil {
				return "", err
			}
			idx = v
		} else {
			idx = &pdVar{name: "", coq: fmt.Sprintf("i_%d", n), ty: pdInt}
			benv.vars = append(benv.vars, idx)
		}
		icx.siteArgs = append(append([]*pdVar{}, cx.siteArgs...), idx)
		var val *pdVar
		if valId != nil {
			v, err := g.declare(benv, valId, coll.ty.elem)
			if err != nil {
				return "", err
			}
			val = v
		}
		body, err := g.stmts(benv, icx, x.Body.List, func(*pdEnv) (string, error) { return "Ok (Cont " + pdTuple(state) + ")", nil })
		if err != nil {
			return "", err
		}
		useIdx := keyId != nil || len(g.sites) > sitesBefore
		if useIdx {
			ix := fmt.Sprintf("ix_%d", n)
			elemBinder = "(" + ix + " : (Z * " + coll.ty.elem.coq() + ")%type)"
			lets = append(lets, "let "+idx.coq+" := (fst "+ix+") in")
			if val != nil {
				lets = append(lets, "let "+val.coq+" := (snd "+ix+") in")
			}
			listTerm = "(indexed_from 0 " + coll.coq + ")"
			g.doc("for i, x := range s on a slice (also with i = _ when the body ranges over a Go map: the index then names the execution)  ->  range_loop over indexed_from 0 s (Prelude/GoAssoc.v)")
		} else {
			vn := "x_" + strconv.Itoa(n)
			if val != nil {
				vn = val.coq
			}
			elemBinder = "(" + vn + " : " + coll.ty.elem.coq() + ")"
			listTerm = coll.coq
			g.doc("for _, x := range s on a slice  ->  range_loop over s (Prelude/GoLoop.v)")
		}
		doc = fmt.Sprintf("%s for .. := range %s (a slice)", g.line(x), id.Name)
		return g.finishRange(env, cx, x, name, n, state, extra, elemBinder, lets, body, listTerm, doc, len(g.sites) > sitesBefore, rest)
	case coll.ty.kind == "map":
		if keyId == nil {
			return "", g.errf(x, "range over a map without a key variable")
		}
		site := pdSite{n: len(g.sites) + 1, args: append([]*pdVar{}, cx.siteArgs...)}
		site.doc = fmt.Sprintf("%s for %s := range %s", g.line(x), keyId.Name, id.Name)
		g.sites = append(g.sites, site)
		key, err := g.declare(benv, keyId, pdInt)
		if err != nil {
			return "", err
		}
		icx.siteArgs = append(append([]*pdVar{}, cx.siteArgs...), key)
		icx.ranged[id.Name] = true
		elemBinder = "(" + key.coq + " : Z)"
		if valId != nil {
			val, err := g.declare(benv, valId, coll.ty.elem)
			if err != nil {
				return "", err
			}
			z, ok := coll.ty.elem.zero()
			if !ok {
				return "", g.errf(x, "no zero value for %s", coll.ty.elem.kind)
			}
			lets = append(lets, "let "+val.coq+" := (gm_get_or Z.eqb "+z+" "+coll.coq+" "+key.coq+") in")
			extra = append(extra, coll)
		}
		body, err := g.stmts(benv, icx, x.Body.List, func(*pdEnv) (string, error) { return "Ok (Cont " + pdTuple(state) + ")", nil })
		if err != nil {
			return "", err
		}
		sargs := ""
		for _, a := range site.args {
			sargs += " " + a.coq
		}
		con := fmt.Sprintf("GSite%d", site.n)
		if sargs != "" {
			con = "(" + con + sargs + ")"
		}
		listTerm = "(ord " + con + " (map fst " + coll.coq + "))"
		g.doc("for k, v := range m on a Go map  ->  range_loop over (ord (GSite<n> ..) (map fst m)) with v = m[k]: the keys of the map in the ORDER given by the parameter ord (one site per execution of the statement; the theorems hold for every ord that permutes); the map is not written to during the loop (checked)")
		doc = fmt.Sprintf("%s for %s := range %s (a Go map: order = ord %s)", g.line(x), keyId.Name, id.Name, con)
		return g.finishRange(env, cx, x, name, n, state, extra, elemBinder, lets, body, listTerm, doc, true, rest)
	}
	return "", g.errf(x, "range over a %s", coll.ty.kind)
}

func (g *pd) finishRange(env *pdEnv, cx *pdCtx, x *ast.RangeStmt, name string, n int, state, extra []*pdVar, elemBinder string, lets []string, body, listTerm, doc string, sitesInside bool, rest func(*pdEnv) (string, error)) (string, error) {
	params := g.loopParams(env, cx, state, x.Body, extra, sitesInside)
	def := "(* " + doc + " = range loop " + strconv.Itoa(n) + " of " + g.fn + "; state = " + pdTuple(state) + " *)\n"
	def += "Definition " + name
	if len(params) > 0 {
		def += " " + pdBinders(params)
	}
	def += " " + elemBinder + " " + pdStateBinder(state) + " : res (rctl " + pdTupleTy(state) + " " + cx.retTy + ") :=\n  " + pdSeq(lets, body) + "."
	g.defs = append(g.defs, def)
	r, err := rest(env)
	if err != nil {
		return "", err
	}
	out := fmt.Sprintf("out_%d", n)
	app := name
	if len(params) > 0 {
		app = "(" + name + " " + pdNames(params) + ")"
	}
	return "do " + out + " <- range_loop (R := " + cx.retTy + ") " + app + " " + listTerm + " " + pdTuple(state) + ";\n  " + g.emitLoopResult(cx, out, state, r), nil
}

func (g *pd) forStmt(env *pdEnv, cx *pdCtx, x *ast.ForStmt, rest func(*pdEnv) (string, error)) (string, error) {
	if err := g.needMonad(); err != nil {
		return "", err
	}
	init, ok := x.Init.(*ast.AssignStmt)
	if !ok || init.Tok != token.DEFINE || len(init.Lhs) != 1 || len(init.Rhs) != 1 {
		return "", g.errf(x, "only for i := a; i < b; i++ is translated")
	}
	iid, ok := init.Lhs[0].(*ast.Ident)
	if !ok {
		return "", g.errf(x, "loop variable")
	}
	cond, ok := x.Cond.(*ast.BinaryExpr)
	if !ok || cond.Op != token.LSS || g.src(cond.X) != iid.Name {
		return "", g.errf(x, "the loop condition must be %s < bound", iid.Name)
	}
	post, ok := x.Post.(*ast.IncDecStmt)
	if !ok || post.Tok != token.INC || g.src(post.X) != iid.Name {
		return "", g.errf(x, "the post statement must be %s++", iid.Name)
	}
	if pdEscapes(x.Body) {
		return "", g.errf(x, "break / continue / return / panic inside a counting loop")
	}
	i0, t0, pre0, err := g.expr(env, cx, init.Rhs[0])
	if err != nil {
		return "", err
	}
	if t0.kind != "int" || len(pre0) != 0 {
		return "", g.errf(x, "initial value of the loop variable")
	}
	benv := env.clone()
	iv, err := g.declare(benv, iid, pdInt)
	if err != nil {
		return "", err
	}
	set := g.assigned(benv, x.Body)
	set[iid.Name] = true
	state := pdSelect(benv, set)
	bnd, bt, bpre, err := g.expr(benv, cx, cond.Y)
	if err != nil {
		return "", err
	}
	if bt.kind != "int" || len(bpre) != 0 {
		return "", g.errf(x, "bound of the loop")
	}
	g.loopN++
	n := g.loopN
	name := fmt.Sprintf("gen_%s_for%d", g.fn, n)
	params := g.loopParams(benv, cx, state, x, nil, false)
	call := func(fuel string) string {
		s := name
		if len(params) > 0 {
			s += " " + pdNames(params)
		}
		return s + " " + fuel
	}
	icx := cx.with(func(v string) string { return "Ok (Ret " + v + ")" })
	sitesBefore := len(g.sites)
	body, err := g.stmts(benv.clone(), icx, x.Body.List, func(*pdEnv) (string, error) {
		return "let " + iv.coq + " := (" + iv.coq + " + 1) in\n  " + call("fuel'") + " " + pdTuple(state), nil
	})
	if err != nil {
		return "", err
	}
	if len(g.sites) != sitesBefore {
		return "", g.errf(x, "range over a Go map inside a counting loop")
	}
	g.doc("for i := a; i < b; i++ { .. }  ->  a Fixpoint on fuel over the variables the loop assigns (ctl of Prelude/GoLoop.v), started with fuel S (Z.to_nat (b - a)); Err OutOfFuel stands for non-termination and is shown absent; i++ on exact Z")
	stTy := pdTupleTy(state)
	var open string
	if len(state) == 1 {
		open = "let " + state[0].coq + " := st in"
	} else {
		open = "let '" + pdTuple(state) + " := st in"
	}
	def := "(* " + g.line(x) + " for " + g.src(x.Init) + "; " + g.src(x.Cond) + "; " + g.src(x.Post) + " = loop " + strconv.Itoa(n) + " of " + g.fn + "; state = " + pdTuple(state) + " *)\n"
	def += "Fixpoint " + name
	if len(params) > 0 {
		def += " " + pdBinders(params)
	}
	def += " (fuel : nat) (st : " + stTy + ") {struct fuel} : res (ctl " + stTy + " " + cx.retTy + ") :=\n"
	def += "  match fuel with\n  | O => Err OutOfFuel\n  | S fuel' =>\n  " + open + "\n  if (" + iv.coq + " <? " + bnd + ") then (" + body + ")\n  else Ok (Next " + pdTuple(state) + ")\n  end."
	g.defs = append(g.defs, def)
	r, err := rest(env)
	if err != nil {
		return "", err
	}
	out := fmt.Sprintf("out_%d", n)
	return "let " + iv.coq + " := " + i0 + " in\n  do " + out + " <- " + call("(S (Z.to_nat ("+bnd+" - "+i0+")))") + " " + pdTuple(state) + ";\n  " + g.emitLoopResult(cx, out, state, r), nil
}

// ---------------------------------------------------------------------------
// functions, methods, loop bodies
// ---------------------------------------------------------------------------

type pdSnapshot struct {
	defs, sites, docs int
	fresh, loopN      int
	used              map[string]bool
}

func (g *pd) snapshot() pdSnapshot {
	u := map[string]bool{}
	for k, v := range g.used {
		u[k] = v
	}
	return pdSnapshot{len(g.defs), len(g.sites), len(g.docs), g.fresh, g.loopN, u}
}

func (g *pd) restore(s pdSnapshot) {
	g.defs, g.sites, g.docs, g.fresh, g.loopN, g.used = g.defs[:s.defs], g.sites[:s.sites], g.docs[:s.docs], s.fresh, s.loopN, s.used
}

func (g *pd) paramEnv(fd *ast.FuncDecl, lenient bool) (*pdEnv, []*pdVar, error) {
	env := &pdEnv{}
	var ps []*pdVar
	add := func(fl *ast.FieldList) error {
		if fl == nil {
			return nil
		}
		for _, f := range fl.List {
			ty, err := g.tyOf(f.Type)
			if err != nil {
				if lenient {
					continue // not in scope: a use of it in the translated part is an error there
				}
				return err
			}
			if len(f.Names) == 0 {
				return g.errf(f, "unnamed parameter")
			}
			for _, id := range f.Names {
				v, err := g.declare(env, id, ty)
				if err != nil {
					return err
				}
				ps = append(ps, v)
			}
		}
		return nil
	}
	if err := add(fd.Recv); err != nil {
		return nil, nil, err
	}
	if err := add(fd.Type.Params); err != nil {
		return nil, nil, err
	}
	return env, ps, nil
}

// a function / method translated as a whole
func (g *pd) function(key string, fd *ast.FuncDecl, coqName string) error {
	g.fn = strings.TrimPrefix(coqName, "gen_")
	if fd.Type.TypeParams != nil || fd.Type.Results == nil || len(fd.Type.Results.List) != 1 || len(fd.Type.Results.List[0].Names) != 0 {
		return g.errf(fd, "only functions with one unnamed result are translated")
	}
	resTy, err := g.tyOf(fd.Type.Results.List[0].Type)
	if err != nil {
		return err
	}
	var term string
	var ps []*pdVar
	monadic := false
	g.fresh, g.loopN = 0, 0
	snap := g.snapshot()
	for _, pure := range []bool{true, false} {
		g.restore(snap)
		g.pure = pure
		g.own = map[string]bool{}
		var env *pdEnv
		env, ps, err = g.paramEnv(fd, false)
		if err != nil {
			return err
		}
		cx := &pdCtx{retTy: resTy.coq(), result: resTy, ranged: map[string]bool{}}
		if pure {
			cx.wrapRet = func(v string) string { return v }
		} else {
			cx.wrapRet = func(v string) string { return "Ok " + v }
		}
		term, err = g.stmts(env, cx, fd.Body.List, func(*pdEnv) (string, error) {
			return "", g.errf(fd, "the function can fall off its end")
		})
		if err == nil {
			monadic = !pure
			break
		}
		if !errors.Is(err, errPdNeedsMonad) {
			return err
		}
	}
	if err != nil {
		return err
	}
	g.pure = false
	rt := resTy.coq()
	if monadic {
		rt = "res " + rt
	}
	def := "(* " + g.line(fd) + " func " + key + " *)\nDefinition " + coqName
	if len(ps) > 0 {
		def += " " + pdBinders(ps)
	}
	def += " : " + rt + " :=\n  " + term + "."
	g.defs = append(g.defs, def)
	sig := &pdSig{coq: coqName, result: resTy, monadic: monadic, hasSites: len(g.sites) > snap.sites}
	for _, p := range ps {
		sig.params = append(sig.params, p.ty)
	}
	g.sigs[key] = sig
	return nil
}

// the body of the receive loop `for { x, ok := <-ch; if !ok { break }; BODY }` of a function, as a function of x and
// the variables BODY assigns
func (g *pd) loopBody(fnName, coqName string) error {
	fd := g.funcs[fnName]
	if fd == nil {
		return fmt.Errorf("processing.go: function %s not found", fnName)
	}
	g.fn = strings.TrimPrefix(coqName, "gen_")
	g.pure = false
	g.own = map[string]bool{}
	g.fresh, g.loopN = 0, 0
	env, _, err := g.paramEnv(fd, true)
	if err != nil {
		return err
	}
	var loop *ast.ForStmt
	for _, s := range fd.Body.List {
		if f, ok := s.(*ast.ForStmt); ok && f.Init == nil && f.Cond == nil && f.Post == nil {
			if loop != nil {
				return g.errf(f, "a second `for {}` loop")
			}
			loop = f
			continue
		}
		if loop != nil {
			continue // after the loop: close, logging, waiting (the skeleton's concern)
		}
		switch x := s.(type) {
		case *ast.DeclStmt:
			gd, ok := x.Decl.(*ast.GenDecl)
			if !ok || gd.Tok != token.VAR {
				return g.errf(x, "declaration outside the translated subset")
			}
			for _, sp := range gd.Specs {
				vs := sp.(*ast.ValueSpec)
				if vs.Type == nil || len(vs.Values) != 0 {
					return g.errf(vs, "var declaration must have a type and no value")
				}
				ty, err := g.tyOf(vs.Type)
				if err != nil {
					return err
				}
				for _, id := range vs.Names {
					if _, err := g.declare(env, id, ty); err != nil {
						return err
					}
				}
			}
		case *ast.AssignStmt:
			// x := make(T ..) of a type the translation knows: in scope for the body
			if x.Tok == token.DEFINE && len(x.Lhs) == 1 && len(x.Rhs) == 1 {
				if ce, ok := x.Rhs[0].(*ast.CallExpr); ok && g.src(ce.Fun) == "make" && len(ce.Args) >= 1 {
					if ty, err := g.tyOf(ce.Args[0]); err == nil {
						if _, err := g.declare(env, x.Lhs[0].(*ast.Ident), ty); err != nil {
							return err
						}
					}
				}
			}
		}
	}
	if loop == nil || len(loop.Body.List) < 3 {
		return g.errf(fd, "no `for { x, ok := <-ch; if !ok { break }; .. }` loop found")
	}
	recv, ok := loop.Body.List[0].(*ast.AssignStmt)
	if !ok || recv.Tok != token.DEFINE || len(recv.Lhs) != 2 || len(recv.Rhs) != 1 {
		return g.errf(loop.Body.List[0], "the loop must start with x, ok := <-ch")
	}
	ue, ok := recv.Rhs[0].(*ast.UnaryExpr)
	if !ok || ue.Op != token.ARROW {
		return g.errf(recv, "the loop must start with x, ok := <-ch")
	}
	chId, ok := ue.X.(*ast.Ident)
	if !ok {
		return g.errf(recv, "receive from %s", g.src(ue.X))
	}
	xId, ok1 := recv.Lhs[0].(*ast.Ident)
	okId, ok2 := recv.Lhs[1].(*ast.Ident)
	if !ok1 || !ok2 {
		return g.errf(recv, "the loop must start with x, ok := <-ch")
	}
	if got, want := g.src(loop.Body.List[1]), "if !"+okId.Name+" { break }"; got != want {
		return g.errf(loop.Body.List[1], "expected `%s`, found `%s`", want, got)
	}
	// the element type of the channel, from the declared parameter
	var elem *pdTy
	for _, f := range fd.Type.Params.List {
		for _, nm := range f.Names {
			if nm.Name == chId.Name {
				switch g.src(f.Type) {
				case "<-chan Feature":
					elem = pdFeature
				case "<-chan FeatureForTileMatrix":
					elem = pdWrapper
				}
			}
		}
	}
	if elem == nil {
		return g.errf(recv, "%s is not a receive-only channel parameter of Feature / FeatureForTileMatrix", chId.Name)
	}
	xv, err := g.declare(env, xId, elem)
	if err != nil {
		return err
	}
	body := loop.Body.List[2:]
	blk := &ast.BlockStmt{List: body}
	if pdMentions(blk)[okId.Name] {
		return g.errf(loop, "%s is used after the break test", okId.Name)
	}
	for _, s := range body {
		bad := false
		ast.Inspect(s, func(n ast.Node) bool {
			if _, ok := n.(*ast.BranchStmt); ok {
				bad = true
			}
			return !bad
		})
		if bad {
			return g.errf(s, "break / continue / goto in the body of the receive loop")
		}
	}
	set := g.assigned(env, blk)
	if set["#routed"] {
		env.vars = append(env.vars, &pdVar{name: "#routed", coq: "routed", ty: pdRouted})
	}
	state := pdSelect(env, set)
	if len(state) == 0 {
		return g.errf(loop, "the body assigns nothing")
	}
	ment := pdMentions(blk)
	var params []*pdVar
	for _, v := range env.vars {
		if v != xv && !pdIn(state, v) && ment[v.name] {
			params = append(params, v)
		}
	}
	params = append(params, xv)
	sTy := pdTupleTy(state)
	cx := &pdCtx{retTy: "(" + sTy + " * option gpanic)%type", stateVars: state, ranged: map[string]bool{},
		wrapRet: func(v string) string { return "Ok " + v }}
	snap := g.snapshot()
	term, err := g.stmts(env, cx, body, func(*pdEnv) (string, error) {
		return "Ok (" + pdTuple(state) + ", @None gpanic)", nil
	})
	if err != nil {
		return err
	}
	def := "(* " + g.line(loop) + " the body of the receive loop of " + fnName + " after `" + g.src(recv) + "; " + g.src(loop.Body.List[1]) + "`:\n   a function of " + xId.Name + " and of the variables it assigns (state = " + pdTuple(state) + "); result = (state, the panic if any) *)\n"
	def += "Definition " + coqName + " " + pdBinders(params) + " " + pdStateBinder(state) + " : res (" + sTy + " * option gpanic) :=\n  " + term + "."
	g.defs = append(g.defs, def)
	sig := &pdSig{coq: coqName, monadic: true, hasSites: len(g.sites) > snap.sites}
	g.sigs[fnName+".body"] = sig
	return nil
}

// ---------------------------------------------------------------------------
// declarations and AST guards
// ---------------------------------------------------------------------------

func (g *pd) checkDecls(repo string) error {
	// interface Feature: methods without parameters, one result
	ft := g.types["Feature"]
	if ft == nil {
		return fmt.Errorf("interface.go: type Feature not found")
	}
	it, ok := ft.Type.(*ast.InterfaceType)
	if !ok {
		return g.errf(ft, "Feature is not an interface")
	}
	for _, m := range it.Methods.List {
		fn, ok := m.Type.(*ast.FuncType)
		if !ok || len(m.Names) != 1 {
			return g.errf(m, "Feature: embedded interface")
		}
		if fn.Params != nil && len(fn.Params.List) != 0 {
			return g.errf(m, "Feature.%s has parameters", m.Names[0].Name)
		}
		if fn.Results == nil || len(fn.Results.List) != 1 || len(fn.Results.List[0].Names) > 1 {
			return g.errf(m, "Feature.%s must have one result", m.Names[0].Name)
		}
		ty, err := g.tyOf(fn.Results.List[0].Type)
		if err != nil {
			return err
		}
		g.featM = append(g.featM, pdField{m.Names[0].Name, ty})
	}
	// FeatureForTileMatrix = Feature + TileMatrixID() int
	fft := g.types["FeatureForTileMatrix"]
	if fft == nil {
		return fmt.Errorf("interface.go: type FeatureForTileMatrix not found")
	}
	if got, want := g.src(fft.Type), "interface { Feature TileMatrixID() int }"; got != want {
		return g.errf(fft, "FeatureForTileMatrix is `%s`, expected `%s`", got, want)
	}
	// the wrapper struct
	ws := g.types[pdWrapperName]
	if ws == nil {
		return fmt.Errorf("processing.go: type %s not found", pdWrapperName)
	}
	st, ok := ws.Type.(*ast.StructType)
	if !ok {
		return g.errf(ws, "%s is not a struct", pdWrapperName)
	}
	for _, f := range st.Fields.List {
		if len(f.Names) == 0 {
			return g.errf(f, "embedded field")
		}
		ty, err := g.tyOf(f.Type)
		if err != nil {
			return err
		}
		for _, id := range f.Names {
			g.fields = append(g.fields, pdField{id.Name, ty})
		}
	}
	// its methods: exactly those of FeatureForTileMatrix, pointer receiver, declared result types of the interface
	want := map[string]string{"TileMatrixID": "int"}
	for _, m := range it.Methods.List {
		want[m.Names[0].Name] = g.src(m.Type.(*ast.FuncType).Results.List[0].Type)
	}
	for key, fd := range g.methods {
		parts := strings.SplitN(key, ".", 2)
		if parts[0] != "*"+pdWrapperName {
			if parts[0] == pdWrapperName {
				return g.errf(fd, "method with a value receiver on %s", pdWrapperName)
			}
			if _, clash := want[parts[1]]; clash {
				return g.errf(fd, "another type of package processing has a method %s: calls through the interfaces are no longer decided statically", parts[1])
			}
			continue
		}
		res, ok := want[parts[1]]
		if !ok {
			return g.errf(fd, "unexpected method %s of %s", parts[1], pdWrapperName)
		}
		if fd.Type.Params != nil && len(fd.Type.Params.List) != 0 {
			return g.errf(fd, "method %s has parameters", parts[1])
		}
		if fd.Type.Results == nil || len(fd.Type.Results.List) != 1 || g.src(fd.Type.Results.List[0].Type) != res {
			return g.errf(fd, "method %s must return %s", parts[1], res)
		}
	}
	for name := range want {
		if g.methods["*"+pdWrapperName+"."+name] == nil {
			return fmt.Errorf("processing.go: method (*%s).%s not found", pdWrapperName, name)
		}
	}
	// no field of the wrapper is assigned anywhere in the package
	isField := map[string]bool{}
	for _, f := range g.fields {
		isField[f.name] = true
	}
	var bad error
	for _, file := range g.files {
		ast.Inspect(file, func(n ast.Node) bool {
			check := func(e ast.Expr) {
				for {
					switch y := e.(type) {
					case *ast.SelectorExpr:
						if isField[y.Sel.Name] && bad == nil {
							bad = g.errf(y, "assignment to field %s: a %s is no longer the value it was created with", y.Sel.Name, pdWrapperName)
						}
						return
					case *ast.IndexExpr:
						e = y.X
					case *ast.StarExpr:
						e = y.X
					case *ast.ParenExpr:
						e = y.X
					default:
						return
					}
				}
			}
			switch y := n.(type) {
			case *ast.AssignStmt:
				for _, l := range y.Lhs {
					check(l)
				}
			case *ast.IncDecStmt:
				check(y.X)
			case *ast.UnaryExpr:
				if y.Op == token.AND {
					if _, isLit := y.X.(*ast.CompositeLit); !isLit {
						check(y.X)
					}
				}
			}
			return true
		})
	}
	if bad != nil {
		return bad
	}
	// imports and the alias tms20.TMID = int
	for _, file := range g.files {
		for _, im := range file.Imports {
			p, _ := strconv.Unquote(im.Path.Value)
			base := filepath.Base(p)
			name := base
			if im.Name != nil {
				name = im.Name.Name
			}
			if (name == "geom" && p != "github.com/go-spatial/geom") || (name == "tms20" && p != "github.com/pdok/texel/tms20") ||
				(p == "github.com/go-spatial/geom" && name != "geom") || (p == "github.com/pdok/texel/tms20" && name != "tms20") {
				return g.errf(im, "import %s as %s", p, name)
			}
		}
	}
	tf, err := parser.ParseFile(token.NewFileSet(), filepath.Join(repo, "tms20", "tms20.go"), nil, 0)
	if err != nil {
		return err
	}
	okAlias := false
	for _, d := range tf.Decls {
		if gd, ok := d.(*ast.GenDecl); ok && gd.Tok == token.TYPE {
			for _, sp := range gd.Specs {
				ts := sp.(*ast.TypeSpec)
				if ts.Name.Name == "TMID" {
					if id, ok := ts.Type.(*ast.Ident); ok && id.Name == "int" && ts.Assign != token.NoPos {
						okAlias = true
					}
				}
			}
		}
	}
	if !okAlias {
		return fmt.Errorf("tms20/tms20.go: `type TMID = int` not found")
	}
	return nil
}

// the only values stored in targetChannels are results of make(chan Feature) (so an entry is never nil)
func (g *pd) checkChanMap() error {
	fd := g.funcs["writeFeaturesToTargets"]
	if fd == nil {
		return fmt.Errorf("processing.go: function writeFeaturesToTargets not found")
	}
	g.fn = "writeFeaturesToTargets"
	var bad error
	writes := 0
	ast.Inspect(fd.Body, func(n ast.Node) bool {
		switch y := n.(type) {
		case *ast.BlockStmt:
			for i, s := range y.List {
				a, ok := s.(*ast.AssignStmt)
				if !ok || len(a.Lhs) != 1 {
					continue
				}
				ix, ok := a.Lhs[0].(*ast.IndexExpr)
				if !ok || g.src(ix.X) != "targetChannels" {
					continue
				}
				writes++
				okShape := false
				if a.Tok == token.ASSIGN && i > 0 {
					if prev, ok := y.List[i-1].(*ast.AssignStmt); ok && prev.Tok == token.DEFINE && len(prev.Lhs) == 1 && len(prev.Rhs) == 1 &&
						g.src(prev.Lhs[0]) == g.src(a.Rhs[0]) && g.src(prev.Rhs[0]) == "make(chan Feature)" {
						okShape = true
					}
				}
				if !okShape && bad == nil {
					bad = g.errf(a, "targetChannels[..] must be assigned the channel made by the preceding `c := make(chan Feature)`")
				}
			}
		case *ast.CallExpr:
			if id, ok := y.Fun.(*ast.Ident); ok && id.Name == "delete" && bad == nil {
				bad = g.errf(y, "delete")
			}
		}
		return true
	})
	if bad != nil {
		return bad
	}
	if writes != 1 {
		return g.errf(fd, "%d assignments to targetChannels[..], expected 1", writes)
	}
	return nil
}

func genPipeData(repo string) (string, error) {
	dir := filepath.Join(repo, "processing")
	g := &pd{fset: token.NewFileSet(), funcs: map[string]*ast.FuncDecl{}, methods: map[string]*ast.FuncDecl{},
		types: map[string]*ast.TypeSpec{}, sigs: map[string]*pdSig{}, used: map[string]bool{}, own: map[string]bool{}}
	entries, err := os.ReadDir(dir)
	if err != nil {
		return "", err
	}
	var names []string
	for _, e := range entries {
		n := e.Name()
		if e.IsDir() || !strings.HasSuffix(n, ".go") || strings.HasSuffix(n, "_test.go") {
			continue
		}
		names = append(names, n)
	}
	sort.Strings(names)
	for _, n := range names {
		f, err := parser.ParseFile(g.fset, filepath.Join(dir, n), nil, 0)
		if err != nil {
			return "", err
		}
		if f.Name.Name != "processing" {
			return "", fmt.Errorf("%s: package %s, expected processing", n, f.Name.Name)
		}
		g.files = append(g.files, f)
		for _, d := range f.Decls {
			switch x := d.(type) {
			case *ast.GenDecl:
				if x.Tok == token.TYPE {
					for _, sp := range x.Specs {
						ts := sp.(*ast.TypeSpec)
						if ts.TypeParams != nil {
							return "", fmt.Errorf("%s: generic type %s", n, ts.Name.Name)
						}
						if _, dup := g.types[ts.Name.Name]; dup {
							return "", fmt.Errorf("%s: type %s declared twice", n, ts.Name.Name)
						}
						g.types[ts.Name.Name] = ts
					}
				}
			case *ast.FuncDecl:
				if x.Recv == nil {
					if _, dup := g.funcs[x.Name.Name]; dup {
						return "", fmt.Errorf("%s: %s declared twice", n, x.Name.Name)
					}
					g.funcs[x.Name.Name] = x
				} else if len(x.Recv.List) == 1 {
					g.methods[g.src(x.Recv.List[0].Type)+"."+x.Name.Name] = x
				}
			}
		}
	}
	if err := g.checkDecls(repo); err != nil {
		return "", err
	}
	if err := g.checkChanMap(); err != nil {
		return "", err
	}
	for _, name := range []string{"polygonsToMulti", "processMultiPolygon", "wrapFeatureForTileMatrix"} {
		fd := g.funcs[name]
		if fd == nil {
			return "", fmt.Errorf("processing.go: function %s not found", name)
		}
		if err := g.function(name, fd, "gen_"+name); err != nil {
			return "", err
		}
	}
	var mnames []string
	for _, m := range g.featM {
		mnames = append(mnames, m.name)
	}
	mnames = append(mnames, "TileMatrixID")
	for _, m := range mnames {
		if err := g.function(pdWrapperName+"."+m, g.methods["*"+pdWrapperName+"."+m], "gen_"+pdWrapperName+"_"+m); err != nil {
			return "", err
		}
	}
	if err := g.loopBody("processFeatures", "gen_processFeatures_body"); err != nil {
		return "", err
	}
	if err := g.loopBody("writeFeaturesToTargets", "gen_writeFeaturesToTargets_body"); err != nil {
		return "", err
	}

	var b strings.Builder
	b.WriteString("(* GENERATED by /verif/translator (G2, the DATA side of the pipeline; translator/pipedata.go) from processing/processing.go and\n   processing/interface.go on every run -- do not edit.\n\n")
	b.WriteString("   Every statement of polygonsToMulti, processMultiPolygon, wrapFeatureForTileMatrix, the methods of *" + pdWrapperName + ",\n")
	b.WriteString("   the per-feature body of the receive loop of processFeatures and of the distribution loop of writeFeaturesToTargets is derived from\n")
	b.WriteString("   the AST; each range-loop body is a definition gen_<func>_range<N> (parameters = the variables in scope it mentions, state = the\n")
	b.WriteString("   variables it assigns).  P = the type of polygons, C = the type of a feature's columns, CH = the type of target channels: abstract\n")
	b.WriteString("   (processing.go never looks inside them).  int / tms20.TMID is exact Z.  Vocabulary: Pipe/GoData.v.\n")
	b.WriteString("   Trusted table: geom.Polygon = [][][2]float64, geom.MultiPolygon = [][][][2]float64, geom.Geometry = interface{} (github.com/go-spatial/geom).\n")
	b.WriteString("   Meaning given to the constructs that occur:\n")
	docs := append([]string{}, g.docs...)
	sort.Strings(docs)
	for _, d := range docs {
		b.WriteString("     - " + strings.ReplaceAll(strings.ReplaceAll(d, "(*", "( *"), "*)", "* )") + "\n")
	}
	b.WriteString("*)\n")
	b.WriteString("From Coq Require Import ZArith List Bool String.\n")
	b.WriteString("From Texel Require Import Prelude.Base Prelude.GoLoop Prelude.GoAssoc Pipe.GoData.\n")
	b.WriteString("Import ListNotations.\nOpen Scope Z_scope.\n\n")
	b.WriteString("(* the order-consuming statements: ranges over Go maps; the arguments are the indices / keys of the enclosing loops *)\n")
	b.WriteString("Inductive gen_site : Type :=\n")
	for _, s := range g.sites {
		line := fmt.Sprintf("| GSite%d", s.n)
		for _, a := range s.args {
			line += " (" + a.coq + " : " + a.ty.coq() + ")"
		}
		b.WriteString(line + "   (* " + s.doc + " *)\n")
	}
	b.WriteString(".\n\n")
	b.WriteString("(* interface Feature (interface.go): the record of the results of its methods *)\n")
	b.WriteString("Record gen_Feature (C P : Type) : Type := mk_Feature {\n")
	for i, m := range g.featM {
		sep := ";"
		if i == len(g.featM)-1 {
			sep = ""
		}
		b.WriteString("  Feature_" + m.name + " : " + m.ty.coq() + sep + "\n")
	}
	b.WriteString("}.\nArguments mk_Feature {C P}.\n")
	for _, m := range g.featM {
		b.WriteString("Arguments Feature_" + m.name + " {C P}.\n")
	}
	b.WriteString("\n(* " + g.line(g.types[pdWrapperName]) + " type " + pdWrapperName + " struct; FeatureForTileMatrix values are (pointers to) these *)\n")
	b.WriteString("Record gen_" + pdWrapperName + " (C P : Type) : Type := mk_" + pdWrapperName + " {\n")
	for i, f := range g.fields {
		sep := ";"
		if i == len(g.fields)-1 {
			sep = ""
		}
		b.WriteString("  " + pdWrapperName + "_" + f.name + " : " + f.ty.coq() + sep + "\n")
	}
	b.WriteString("}.\nArguments mk_" + pdWrapperName + " {C P}.\n")
	for _, f := range g.fields {
		b.WriteString("Arguments " + pdWrapperName + "_" + f.name + " {C P}.\n")
	}
	b.WriteString("\nSection PipeData.\nContext {C P CH : Type} (nil_polygon : P) (ord : gen_site -> list Z -> list Z).\n\n")
	b.WriteString(strings.Join(g.defs, "\n\n"))
	b.WriteString("\n\nEnd PipeData.\n")
	return b.String(), nil
}
