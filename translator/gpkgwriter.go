package main

import (
	"fmt"
	"go/ast"
	"go/parser"
	"go/printer"
	"go/token"
	"go/types"
	"path/filepath"
	"sort"
	"strconv"
	"strings"
)

// ---------------------------------------------------------------------------
// G2 (GeoPackage target writer): TargetGeopackage.WriteFeatures and TargetGeopackage.writeFeatures of
// processing/gpkg/gpkg.go -> gen/GpkgWriterGen.v
//
// Every statement of the two functions is derived from the AST and written in the monad `wres` of
// Gpkg/WriterOps.v.  The hidden state behind target.handle / tx / stmt is the explicit variable `wld : world`
// that every database call takes and returns.
//   x, ok := <-ch                   let '(x, ok, ch) := chan_recv feature_nil ch   (the channel = the values sent before close)
//   for { .. break .. }             a top-level Fixpoint on fuel over exactly the variables the loop assigns
//   for _, f := range s { .. }      wrange_loop over exactly the variables the body assigns (continue = Cont, break = Brk)
//   if c { A } else { B }; rest     rest goes into the branch that falls through; when both do, it is bound as a local
//                                   function of the variables the branches assign
//   x, err := call(..)              let '(x, err) := op ..  /  let '(wld, (x, err)) := op wld ..
//   if err != nil { log.Fatalf(.., err) }    if negb (is_nil err) then WErr (fatal err) else ..
//   a % b                           wdo t <- go_rem a b   (Model DivZero)
//   s[i], s[:h:m]                   wdo t <- widx s i / slice3 s 0 h m
//   append(s, x)                    s ++ [x]  -- only for a slice this function owns (a nil local only ever assigned
//                                   nil / append of itself) or for s[:h:h] (capped: append must reallocate); anything
//                                   else could write into memory shared with the caller and is REFUSED
// `int` is exact Z.  A second declaration of a name gets a new Coq name (v_err, v_err_2): Go's block scoping is kept.
//
// MODELLED calls (each only in exactly this shape, checked in the AST; the operations are defined in Gpkg/WriterOps.v
// from the pieces of Gpkg/Model.v): see gwModelled below; the list is printed at the top of the generated file.
// Anything else is an error = a generated file that does not compile.
// ---------------------------------------------------------------------------

var gwModelled = []string{
	"target.handle.Begin()                          op_Begin wld",
	"tx.Prepare(<Table>.insertSQL())                op_Prepare wld tx (op_insertSQL <table>)",
	"gpkg.NewBinary(int32(<int>), <geometry>)       op_NewBinary (go_int32 ..) ..        [github.com/go-spatial/geom/encoding/gpkg]",
	"stmt.Exec(data...)                             op_Exec wld stmt data                (= insert_row of the model)",
	"stmt.Close()                                   op_StmtClose wld stmt",
	"_ = tx.Commit()                                op_Commit wld tx                     (the error is discarded by the code)",
	"target.handle.UpdateGeometryExtent(name, ext)  op_UpdateGeometryExtent wld name ext (= merge_extent of the model)",
	"cmp.IsEmptyGeo(<geometry>)                     op_IsEmptyGeo                        [github.com/go-spatial/geom/cmp]",
	"geom.NewExtentFromGeometry(<geometry>)         op_NewExtentFromGeometry             [github.com/go-spatial/geom]",
	"_ = ext.AddGeometry(<geometry>)                ext := op_AddGeometry ext ..         (ext a local *geom.Extent; error discarded)",
	"f.Geometry() / f.Columns()                     f_geom f / op_Columns f              (processing.Feature)",
	"log.Fatalf(.., err) / log.Fatalln(.., err)     WErr (fatal err)                     (the process ends with that error)",
	"log.Println(..)                                nothing",
	"target.Table / .pagesize / .Name / .srs / .ID  tg_Table / tg_pagesize / t_name / t_srs / s_id (struct fields checked)",
	"createSQL / selectSQL / insertSQL (text only):",
	"t.columns / t.gcolumn / column.name / .ctype   t_cols / t_gcol / c_name / c_type",
	"column.notnull / column.pk (int)               go_notnull = Z.b2z (c_notnull ..) / go_pk = Z.of_N (c_pk ..)",
	"strings.Join(list, sep)                        String.concat sep list",
	"fmt.Sprintf(\"a%vb\", s)  (one verb, a string)    a ++ s ++ b",
	"strings.ReplaceAll(s, \"c\", new)  (old = ONE byte below 0x80, a literal)    op_ReplaceAll1 s c new  (every such byte replaced)",
	"quoteIdentifier(name)  (fix a631213, F20)      wdo t <- gen_quoteIdentifier name   (REGENERATED from its body when the source has it)",
}

// fuel per function and loop (in order of appearance), over the variables in scope at the loop
var gwFuel = map[string][]string{
	"WriteFeatures": {"(S (List.length v_inFeatures))"},
}

const (
	gwInt      = "int"
	gwInt32    = "int32"
	gwBool     = "bool"
	gwErr      = "error"
	gwFeature  = "feature"
	gwFeatures = "features"
	gwChan     = "chan"
	gwGeom     = "geometry"
	gwBin      = "binary"
	gwAny      = "any"
	gwAnys     = "anys"
	gwExtPtr   = "extptr"
	gwTx       = "tx"
	gwStmt     = "stmt"
	gwSQL      = "sql"
	gwString   = "string"
	gwTarget   = "target"
	gwHandle   = "handle"
	gwTable    = "table"
	gwSrs      = "srs"
	gwResult   = "result"
	gwWorld    = "world"
	gwNil      = "nil"
	gwStrings  = "strings"
	gwColumn   = "column"
	gwColumns  = "columns"
)

var gwCoq = map[string]string{gwInt: "Z", gwInt32: "Z", gwBool: "bool", gwErr: "goerr", gwFeature: "feature",
	gwFeatures: "(list feature)", gwChan: "(list feature)", gwGeom: "geom", gwBin: "geom", gwAny: "anyv",
	gwAnys: "(list anyv)", gwExtPtr: "(option ext)", gwTx: "txh", gwStmt: "stmth", gwSQL: "sqltext",
	gwString: "string", gwStrings: "(list string)", gwColumn: "column", gwColumns: "(list column)", gwTarget: "target", gwTable: "table", gwSrs: "srs", gwResult: "unit", gwWorld: "world"}

// struct fields that may be read: Go type -> field -> (type, Coq projection)
var gwFields = map[string]map[string][2]string{
	gwTarget: {"Table": {gwTable, "tg_Table"}, "pagesize": {gwInt, "tg_pagesize"}, "handle": {gwHandle, ""}},
	gwTable:  {"Name": {gwString, "t_name"}, "srs": {gwSrs, "t_srs"}, "columns": {gwColumns, "t_cols"}, "gcolumn": {gwString, "t_gcol"}},
	gwSrs:    {"ID": {gwInt, "s_id"}},
	gwColumn: {"name": {gwString, "c_name"}, "ctype": {gwString, "c_type"}, "notnull": {gwInt, "go_notnull"}, "pk": {gwInt, "go_pk"}},
}

type gwDecl struct {
	name string
	coq  string
	ty   string
	seq  int
}

type gwEnv struct {
	parent *gwEnv
	vars   map[string]*gwDecl
}

func (e *gwEnv) child() *gwEnv { return &gwEnv{parent: e, vars: map[string]*gwDecl{}} }

func (e *gwEnv) lookup(n string) *gwDecl {
	for s := e; s != nil; s = s.parent {
		if d, ok := s.vars[n]; ok {
			return d
		}
	}
	return nil
}

// all declarations visible from e, in declaration order
func (e *gwEnv) visible() []*gwDecl {
	seen := map[string]bool{}
	var out []*gwDecl
	for s := e; s != nil; s = s.parent {
		for n, d := range s.vars {
			if !seen[n] {
				seen[n] = true
				out = append(out, d)
			}
		}
	}
	sort.Slice(out, func(i, j int) bool { return out[i].seq < out[j].seq })
	return out
}

type gwVal struct {
	code   string
	ty     string
	lit    bool
	capped bool // s[:h:h]
}

type gwCtx struct {
	top  bool                   // not inside a loop: `return` is possible
	fall func() (string, error) // the statement list falls off its end
	brk  func() (string, error) // nil outside loops
	cont func() (string, error)
	ret  func(string) (string, error) // schema side only: `return v` inside a range loop
}

type gw struct {
	fset     *token.FileSet
	imports  map[string]string // import name -> path
	methods  map[string]*ast.FuncDecl
	done     map[string]bool // methods already generated (may be called)
	strFuncs map[string]int  // package-level functions `func f(a, .. string) string` already generated -> number of parameters
	world    *gwDecl
	recv     string
	fn       string
	retTy    string // "" = no result
	n        int
	seq      int
	loopN    int
	declN    map[string]int
	borrowed map[string]bool
	pre      strings.Builder
	sch      *gsch // nil for the writer; the schema side (gpkgschema.go) hooks its extensions in through this
}

func (g *gw) fresh(p string) string {
	g.n++
	return fmt.Sprintf("%s_%d", p, g.n)
}

func (g *gw) src(n ast.Node) string {
	var sb strings.Builder
	_ = printer.Fprint(&sb, g.fset, n)
	return strings.Join(strings.Fields(sb.String()), " ")
}

func (g *gw) errAt(n ast.Node, format string, a ...interface{}) error {
	return fmt.Errorf("%s: %s", g.fset.Position(n.Pos()), fmt.Sprintf(format, a...))
}

func (g *gw) declare(env *gwEnv, name, ty string) *gwDecl {
	g.declN[name]++
	coq := "v_" + name
	if g.declN[name] > 1 {
		coq = fmt.Sprintf("v_%s_%d", name, g.declN[name])
	}
	g.seq++
	d := &gwDecl{name: name, coq: coq, ty: ty, seq: g.seq}
	env.vars[name] = d
	return d
}

func (g *gw) goType(x ast.Expr) (string, error) {
	switch types.ExprString(x) {
	case "int":
		return gwInt, nil
	case "bool":
		return gwBool, nil
	case "[]processing.Feature":
		if g.imports["processing"] == "github.com/pdok/texel/processing" {
			return gwFeatures, nil
		}
	case "<-chan processing.Feature":
		if g.imports["processing"] == "github.com/pdok/texel/processing" {
			return gwChan, nil
		}
	case "*geom.Extent":
		if g.imports["geom"] == "github.com/go-spatial/geom" {
			return gwExtPtr, nil
		}
	case "interface{}", "any":
		return gwAny, nil
	case "string":
		return gwString, nil
	case "[]string":
		return gwStrings, nil
	}
	if g.sch != nil {
		if t, ok := g.sch.goType(x); ok {
			return t, nil
		}
	}
	return "", g.errAt(x, "unsupported type %s", types.ExprString(x))
}

func gwZero(ty string) (string, bool) {
	switch ty {
	case gwFeatures, gwAnys, gwStrings:
		return "[]", true
	case gwString:
		return "EmptyString", true
	case gwExtPtr, gwErr:
		return "None", true
	case gwInt:
		return "0", true
	case gwBool:
		return "false", true
	}
	if z, ok := gsZero[ty]; ok {
		return z, true
	}
	return "", false
}

// conv converts a value for assignment to / use as type ty
func (g *gw) conv(n ast.Node, v gwVal, ty string) (string, error) {
	if v.ty == ty {
		return v.code, nil
	}
	switch {
	case v.ty == gwNil && (ty == gwFeatures || ty == gwAnys || ty == gwStrings):
		return "[]", nil
	case v.ty == gwNil && (ty == gwExtPtr || ty == gwErr):
		return "None", nil
	case v.ty == gwString && ty == gwAny:
		return "(AStr " + v.code + ")", nil
	case v.ty == gwBin && ty == gwAny:
		return "(ABin " + v.code + ")", nil
	}
	if g.sch != nil {
		if c, ok := g.sch.conv(v, ty); ok {
			return c, nil
		}
	}
	return "", g.errAt(n, "type mismatch: %s used as %s", v.ty, ty)
}

func (g *gw) isPkg(x ast.Expr, name, path string) bool {
	id, ok := x.(*ast.Ident)
	return ok && id.Name == name && g.imports[name] == path
}

// ownedExpr: does the slice expression denote memory only this function can reach?
func (g *gw) ownedExpr(x ast.Expr) bool {
	switch x := x.(type) {
	case *ast.ParenExpr:
		return g.ownedExpr(x.X)
	case *ast.Ident:
		if x.Name == "nil" {
			return true
		}
		return !g.borrowed[x.Name]
	case *ast.CallExpr:
		if id, ok := x.Fun.(*ast.Ident); ok && id.Name == "append" && len(x.Args) >= 1 {
			return g.ownedExpr(x.Args[0]) || g.cappedSlice(x.Args[0])
		}
	}
	return false
}

func (g *gw) cappedSlice(x ast.Expr) bool {
	s, ok := x.(*ast.SliceExpr)
	return ok && s.Slice3 && s.Low == nil && s.High != nil && s.Max != nil && g.src(s.High) == g.src(s.Max)
}

// ownership is decided per NAME over the whole function: a name is owned when every value ever stored in it is.
func (g *gw) ownership(fd *ast.FuncDecl) {
	g.borrowed = map[string]bool{}
	for _, f := range fd.Type.Params.List {
		for _, n := range f.Names {
			g.borrowed[n.Name] = true
		}
	}
	for changed := true; changed; {
		changed = false
		mark := func(n string) {
			if n != "_" && !g.borrowed[n] {
				g.borrowed[n] = true
				changed = true
			}
		}
		ast.Inspect(fd.Body, func(n ast.Node) bool {
			switch s := n.(type) {
			case *ast.AssignStmt:
				if len(s.Lhs) == len(s.Rhs) {
					for i, l := range s.Lhs {
						if id, ok := l.(*ast.Ident); ok && !g.ownedExpr(s.Rhs[i]) {
							mark(id.Name)
						}
					}
				} else {
					for _, l := range s.Lhs {
						if id, ok := l.(*ast.Ident); ok {
							mark(id.Name)
						}
					}
				}
			case *ast.ValueSpec:
				for i, id := range s.Names {
					if i < len(s.Values) && !g.ownedExpr(s.Values[i]) {
						mark(id.Name)
					}
				}
			case *ast.RangeStmt:
				for _, e := range []ast.Expr{s.Key, s.Value} {
					if id, ok := e.(*ast.Ident); ok {
						mark(id.Name)
					}
				}
			}
			return true
		})
	}
}

// ---------------------------------------------------------------------------
// expressions
// ---------------------------------------------------------------------------

func (g *gw) expr(env *gwEnv, x ast.Expr, binds *[]string) (gwVal, error) {
	if g.sch != nil {
		if v, ok, err := g.sch.expr(env, x, binds); ok || err != nil {
			return v, err
		}
	}
	switch x := x.(type) {
	case *ast.ParenExpr:
		return g.expr(env, x.X, binds)
	case *ast.BasicLit:
		switch x.Kind {
		case token.INT:
			z, err := parseIntLit(x.Value)
			if err != nil {
				return gwVal{}, err
			}
			return gwVal{code: lgLit(z), ty: gwInt, lit: true}, nil
		case token.STRING:
			s, err := strconv.Unquote(x.Value)
			if err != nil {
				return gwVal{}, err
			}
			return gwVal{code: coqString(s) + "%string", ty: gwString}, nil
		}
		return gwVal{}, g.errAt(x, "unsupported literal %s", x.Value)
	case *ast.Ident:
		if d := env.lookup(x.Name); d != nil {
			return gwVal{code: d.coq, ty: d.ty}, nil
		}
		switch x.Name {
		case "true", "false":
			return gwVal{code: x.Name, ty: gwBool}, nil
		case "nil":
			return gwVal{code: "nil", ty: gwNil}, nil
		}
		return gwVal{}, g.errAt(x, "unknown identifier %s", x.Name)
	case *ast.UnaryExpr:
		v, err := g.expr(env, x.X, binds)
		if err != nil {
			return gwVal{}, err
		}
		if x.Op == token.NOT && v.ty == gwBool {
			return gwVal{code: "(negb " + v.code + ")", ty: gwBool}, nil
		}
		if x.Op == token.SUB && v.ty == gwInt {
			return gwVal{code: "(- " + v.code + ")", ty: gwInt}, nil
		}
		return gwVal{}, g.errAt(x, "unsupported unary %s on %s", x.Op, v.ty)
	case *ast.BinaryExpr:
		if x.Op == token.LAND || x.Op == token.LOR {
			a, err := g.expr(env, x.X, binds)
			if err != nil {
				return gwVal{}, err
			}
			var rb []string
			b, err := g.expr(env, x.Y, &rb)
			if err != nil {
				return gwVal{}, err
			}
			if len(rb) > 0 {
				return gwVal{}, g.errAt(x, "the right operand of %s may not index, slice or divide", x.Op)
			}
			if a.ty != gwBool || b.ty != gwBool {
				return gwVal{}, g.errAt(x, "%s on %s, %s", x.Op, a.ty, b.ty)
			}
			op := "&&"
			if x.Op == token.LOR {
				op = "||"
			}
			return gwVal{code: "(" + a.code + " " + op + " " + b.code + ")", ty: gwBool}, nil
		}
		a, err := g.expr(env, x.X, binds)
		if err != nil {
			return gwVal{}, err
		}
		b, err := g.expr(env, x.Y, binds)
		if err != nil {
			return gwVal{}, err
		}
		// p == nil / p != nil
		if (x.Op == token.EQL || x.Op == token.NEQ) && b.ty == gwNil && (a.ty == gwExtPtr || a.ty == gwErr) {
			if x.Op == token.EQL {
				return gwVal{code: "(is_nil " + a.code + ")", ty: gwBool}, nil
			}
			return gwVal{code: "(negb (is_nil " + a.code + "))", ty: gwBool}, nil
		}
		if a.ty == gwString && b.ty == gwString {
			switch x.Op {
			case token.ADD:
				return gwVal{code: "(String.append " + a.code + " " + b.code + ")", ty: gwString}, nil
			case token.EQL:
				return gwVal{code: "(String.eqb " + a.code + " " + b.code + ")", ty: gwBool}, nil
			case token.NEQ:
				return gwVal{code: "(negb (String.eqb " + a.code + " " + b.code + "))", ty: gwBool}, nil
			}
		}
		if a.ty != gwInt || b.ty != gwInt {
			return gwVal{}, g.errAt(x, "unsupported operator %s on %s, %s", x.Op, a.ty, b.ty)
		}
		in := func(l, op, r, ty string) (gwVal, error) {
			return gwVal{code: "(" + l + " " + op + " " + r + ")", ty: ty}, nil
		}
		switch x.Op {
		case token.ADD:
			return in(a.code, "+", b.code, gwInt)
		case token.SUB:
			return in(a.code, "-", b.code, gwInt)
		case token.MUL:
			return in(a.code, "*", b.code, gwInt)
		case token.REM:
			t := g.fresh("t")
			*binds = append(*binds, fmt.Sprintf("wdo %s <- go_rem %s %s;", t, a.code, b.code))
			return gwVal{code: t, ty: gwInt}, nil
		case token.EQL:
			return in(a.code, "=?", b.code, gwBool)
		case token.NEQ:
			return gwVal{code: "(negb (" + a.code + " =? " + b.code + "))", ty: gwBool}, nil
		case token.LSS:
			return in(a.code, "<?", b.code, gwBool)
		case token.LEQ:
			return in(a.code, "<=?", b.code, gwBool)
		case token.GTR:
			return in(b.code, "<?", a.code, gwBool)
		case token.GEQ:
			return in(b.code, "<=?", a.code, gwBool)
		}
		return gwVal{}, g.errAt(x, "unsupported operator %s", x.Op)
	case *ast.SelectorExpr:
		a, err := g.expr(env, x.X, binds)
		if err != nil {
			return gwVal{}, err
		}
		f, ok := gwFields[a.ty][x.Sel.Name]
		if !ok || f[1] == "" {
			return gwVal{}, g.errAt(x, "unsupported field %s of %s", x.Sel.Name, a.ty)
		}
		return gwVal{code: "(" + f[1] + " " + a.code + ")", ty: f[0]}, nil
	case *ast.IndexExpr:
		a, err := g.expr(env, x.X, binds)
		if err != nil {
			return gwVal{}, err
		}
		el := ""
		switch a.ty {
		case gwAnys:
			el = gwAny
		case gwFeatures:
			el = gwFeature
		default:
			return gwVal{}, g.errAt(x, "index on %s", a.ty)
		}
		i, err := g.expr(env, x.Index, binds)
		if err != nil {
			return gwVal{}, err
		}
		if i.ty != gwInt {
			return gwVal{}, g.errAt(x, "index of type %s", i.ty)
		}
		t := g.fresh("t")
		*binds = append(*binds, fmt.Sprintf("wdo %s <- widx %s %s;", t, a.code, i.code))
		return gwVal{code: t, ty: el}, nil
	case *ast.SliceExpr:
		if !x.Slice3 || x.Low != nil || x.High == nil || x.Max == nil {
			return gwVal{}, g.errAt(x, "only the slice expression s[:high:max] is supported")
		}
		a, err := g.expr(env, x.X, binds)
		if err != nil {
			return gwVal{}, err
		}
		if a.ty != gwAnys && a.ty != gwFeatures {
			return gwVal{}, g.errAt(x, "slice of %s", a.ty)
		}
		h, err := g.expr(env, x.High, binds)
		if err != nil {
			return gwVal{}, err
		}
		m, err := g.expr(env, x.Max, binds)
		if err != nil {
			return gwVal{}, err
		}
		if h.ty != gwInt || m.ty != gwInt {
			return gwVal{}, g.errAt(x, "slice bounds of type %s, %s", h.ty, m.ty)
		}
		t := g.fresh("t")
		*binds = append(*binds, fmt.Sprintf("wdo %s <- slice3 %s 0 %s %s;", t, a.code, h.code, m.code))
		return gwVal{code: t, ty: a.ty, capped: g.cappedSlice(x)}, nil
	case *ast.CallExpr:
		return g.call(env, x, binds)
	}
	return gwVal{}, g.errAt(x, "unsupported expression %s", g.src(x))
}

// call: the calls that are expressions with ONE result and do not touch the world
func (g *gw) call(env *gwEnv, x *ast.CallExpr, binds *[]string) (gwVal, error) {
	if g.sch != nil {
		if v, ok, err := g.sch.call(env, x, binds); ok || err != nil {
			return v, err
		}
	}
	if x.Ellipsis.IsValid() {
		return gwVal{}, g.errAt(x, "unsupported call with ... : %s", g.src(x))
	}
	if id, ok := x.Fun.(*ast.Ident); ok && env.lookup(id.Name) == nil {
		switch id.Name {
		case "len":
			if len(x.Args) != 1 {
				break
			}
			a, err := g.expr(env, x.Args[0], binds)
			if err != nil {
				return gwVal{}, err
			}
			if a.ty != gwAnys && a.ty != gwFeatures && a.ty != gwStrings && a.ty != gwColumns {
				return gwVal{}, g.errAt(x, "len of %s", a.ty)
			}
			return gwVal{code: "(zlen " + a.code + ")", ty: gwInt}, nil
		case "int32":
			if len(x.Args) != 1 {
				break
			}
			a, err := g.expr(env, x.Args[0], binds)
			if err != nil {
				return gwVal{}, err
			}
			if a.ty != gwInt {
				return gwVal{}, g.errAt(x, "int32 of %s", a.ty)
			}
			return gwVal{code: "(go_int32 " + a.code + ")", ty: gwInt32}, nil
		case "append":
			if len(x.Args) != 2 {
				return gwVal{}, g.errAt(x, "append with %d arguments", len(x.Args))
			}
			if !g.ownedExpr(x.Args[0]) && !g.cappedSlice(x.Args[0]) {
				return gwVal{}, g.errAt(x, "append to %s could write into memory shared with another holder of that slice (not a slice this function owns, not capped as s[:n:n])", g.src(x.Args[0]))
			}
			a, err := g.expr(env, x.Args[0], binds)
			if err != nil {
				return gwVal{}, err
			}
			b, err := g.expr(env, x.Args[1], binds)
			if err != nil {
				return gwVal{}, err
			}
			el := gwAny
			switch a.ty {
			case gwAnys:
			case gwFeatures:
				el = gwFeature
			case gwStrings:
				el = gwString
			default:
				return gwVal{}, g.errAt(x, "append to %s", a.ty)
			}
			bc, err := g.conv(x.Args[1], b, el)
			if err != nil {
				return gwVal{}, err
			}
			return gwVal{code: "(" + a.code + " ++ [" + bc + "])", ty: a.ty}, nil
		}
		// a package-level text function of this file that was regenerated before its use (quoteIdentifier)
		if n, ok := g.strFuncs[id.Name]; ok {
			if len(x.Args) != n {
				return gwVal{}, g.errAt(x, "%d arguments for %s", len(x.Args), id.Name)
			}
			code := "gen_" + id.Name
			for _, arg := range x.Args {
				a, err := g.expr(env, arg, binds)
				if err != nil {
					return gwVal{}, err
				}
				if a.ty != gwString {
					return gwVal{}, g.errAt(arg, "argument of %s has type %s, expected string", id.Name, a.ty)
				}
				code += " " + a.code
			}
			t := g.fresh("t")
			*binds = append(*binds, fmt.Sprintf("wdo %s <- %s;", t, code))
			return gwVal{code: t, ty: gwString}, nil
		}
		return gwVal{}, g.errAt(x, "unsupported call %s", g.src(x))
	}
	sel, ok := x.Fun.(*ast.SelectorExpr)
	if !ok {
		return gwVal{}, g.errAt(x, "unsupported call %s", g.src(x))
	}
	// package functions
	if g.isPkg(sel.X, "cmp", "github.com/go-spatial/geom/cmp") && sel.Sel.Name == "IsEmptyGeo" && len(x.Args) == 1 {
		a, err := g.expr(env, x.Args[0], binds)
		if err != nil {
			return gwVal{}, err
		}
		if a.ty != gwGeom {
			return gwVal{}, g.errAt(x, "cmp.IsEmptyGeo of %s", a.ty)
		}
		return gwVal{code: "(op_IsEmptyGeo " + a.code + ")", ty: gwBool}, nil
	}
	if g.isPkg(sel.X, "strings", "strings") && sel.Sel.Name == "Join" && len(x.Args) == 2 {
		a, err := g.expr(env, x.Args[0], binds)
		if err != nil {
			return gwVal{}, err
		}
		b, err := g.expr(env, x.Args[1], binds)
		if err != nil {
			return gwVal{}, err
		}
		if a.ty != gwStrings || b.ty != gwString {
			return gwVal{}, g.errAt(x, "strings.Join of %s, %s", a.ty, b.ty)
		}
		return gwVal{code: "(String.concat " + b.code + " " + a.code + ")", ty: gwString}, nil
	}
	if g.isPkg(sel.X, "strings", "strings") && sel.Sel.Name == "ReplaceAll" && len(x.Args) == 3 {
		// strings.ReplaceAll(s, "c", new) with a literal old text of exactly ONE byte below 0x80: the occurrences of such a
		// byte cannot overlap and it is never part of a multi-byte UTF-8 sequence, so every such byte is replaced
		a, err := g.expr(env, x.Args[0], binds)
		if err != nil {
			return gwVal{}, err
		}
		lit, ok := x.Args[1].(*ast.BasicLit)
		if !ok || lit.Kind != token.STRING {
			return gwVal{}, g.errAt(x, "strings.ReplaceAll: the text to replace must be a literal")
		}
		old, err := strconv.Unquote(lit.Value)
		if err != nil {
			return gwVal{}, err
		}
		if len(old) != 1 || old[0] < 32 || old[0] > 126 {
			return gwVal{}, g.errAt(x, "strings.ReplaceAll: only a text of one printable ASCII byte can be replaced (got %q)", old)
		}
		c, err := g.expr(env, x.Args[2], binds)
		if err != nil {
			return gwVal{}, err
		}
		if a.ty != gwString || c.ty != gwString {
			return gwVal{}, g.errAt(x, "strings.ReplaceAll of %s, %s", a.ty, c.ty)
		}
		return gwVal{code: "(op_ReplaceAll1 " + a.code + " " + coqString(old) + "%char " + c.code + ")", ty: gwString}, nil
	}
	if g.isPkg(sel.X, "fmt", "fmt") && sel.Sel.Name == "Sprintf" && len(x.Args) == 2 {
		// fmt.Sprintf("..%v..", s) with ONE verb (%v or %s) and a string argument: the text around the verb and the string
		lit, ok := x.Args[0].(*ast.BasicLit)
		if !ok || lit.Kind != token.STRING {
			return gwVal{}, g.errAt(x, "fmt.Sprintf with a format that is not a literal")
		}
		format, err := strconv.Unquote(lit.Value)
		if err != nil {
			return gwVal{}, err
		}
		if strings.Count(format, "%") != 1 {
			return gwVal{}, g.errAt(x, "fmt.Sprintf: only a format with exactly one verb is supported")
		}
		i := strings.Index(format, "%")
		if i+1 >= len(format) || (format[i+1] != 'v' && format[i+1] != 's') {
			return gwVal{}, g.errAt(x, "fmt.Sprintf: only %%v / %%s of a string is supported")
		}
		a, err := g.expr(env, x.Args[1], binds)
		if err != nil {
			return gwVal{}, err
		}
		if a.ty != gwString {
			return gwVal{}, g.errAt(x, "fmt.Sprintf of %s", a.ty)
		}
		return gwVal{code: "(String.append " + coqString(format[:i]) + "%string (String.append " + a.code + " " + coqString(format[i+2:]) + "%string))", ty: gwString}, nil
	}
	if id, ok := sel.X.(*ast.Ident); ok && env.lookup(id.Name) == nil {
		return gwVal{}, g.errAt(x, "unsupported call %s", g.src(x))
	}
	// methods
	r, err := g.expr(env, sel.X, binds)
	if err != nil {
		return gwVal{}, err
	}
	switch {
	case r.ty == gwFeature && sel.Sel.Name == "Geometry" && len(x.Args) == 0:
		return gwVal{code: "(f_geom " + r.code + ")", ty: gwGeom}, nil
	case r.ty == gwFeature && sel.Sel.Name == "Columns" && len(x.Args) == 0:
		return gwVal{code: "(op_Columns " + r.code + ")", ty: gwAnys}, nil
	case r.ty == gwTable && sel.Sel.Name == "insertSQL" && len(x.Args) == 0:
		return gwVal{code: "(op_insertSQL " + r.code + ")", ty: gwSQL}, nil
	}
	return gwVal{}, g.errAt(x, "unsupported call %s", g.src(x))
}

// gwOp: a modelled call that has several results and / or changes the world
type gwOp struct {
	code    string   // the Coq application, without the world argument
	world   bool     // takes and returns the world
	results []string // result types
	monadic bool     // a call of a regenerated method: wres world
	assigns *gwDecl  // ext.AddGeometry: the receiver is updated; the (error) result is discarded
}

// opCall recognises the modelled multi-result / world calls; (nil, nil) when x is not one of them
func (g *gw) opCall(env *gwEnv, x *ast.CallExpr, binds *[]string) (*gwOp, error) {
	if g.sch != nil {
		if op, err := g.sch.opCall(env, x, binds); op != nil || err != nil {
			return op, err
		}
	}
	sel, ok := x.Fun.(*ast.SelectorExpr)
	if !ok {
		return nil, nil
	}
	arg := func(i int, ty string) (string, error) {
		v, err := g.expr(env, x.Args[i], binds)
		if err != nil {
			return "", err
		}
		if v.ty != ty {
			return "", g.errAt(x.Args[i], "argument %d of %s has type %s, expected %s", i+1, g.src(x.Fun), v.ty, ty)
		}
		return v.code, nil
	}
	name := sel.Sel.Name
	// package functions
	if id, ok := sel.X.(*ast.Ident); ok && env.lookup(id.Name) == nil {
		switch {
		case g.isPkg(sel.X, "gpkg", "github.com/go-spatial/geom/encoding/gpkg") && name == "NewBinary" && len(x.Args) == 2 && !x.Ellipsis.IsValid():
			a, err := arg(0, gwInt32)
			if err != nil {
				return nil, err
			}
			b, err := arg(1, gwGeom)
			if err != nil {
				return nil, err
			}
			return &gwOp{code: "op_NewBinary " + a + " " + b, results: []string{gwBin, gwErr}}, nil
		case g.isPkg(sel.X, "geom", "github.com/go-spatial/geom") && name == "NewExtentFromGeometry" && len(x.Args) == 1 && !x.Ellipsis.IsValid():
			a, err := arg(0, gwGeom)
			if err != nil {
				return nil, err
			}
			return &gwOp{code: "op_NewExtentFromGeometry " + a, results: []string{gwExtPtr, gwErr}}, nil
		}
		return nil, nil
	}
	// target.handle.<M>(..)
	if hs, ok := sel.X.(*ast.SelectorExpr); ok && hs.Sel.Name == "handle" {
		if id, ok := hs.X.(*ast.Ident); ok {
			if d := env.lookup(id.Name); d != nil && d.ty == gwTarget {
				switch {
				case name == "Begin" && len(x.Args) == 0:
					return (&gwOp{code: "op_Begin", world: true, results: []string{gwTx, gwErr}}).with(""), nil
				case name == "UpdateGeometryExtent" && len(x.Args) == 2 && !x.Ellipsis.IsValid():
					a, err := arg(0, gwString)
					if err != nil {
						return nil, err
					}
					b, err := arg(1, gwExtPtr)
					if err != nil {
						return nil, err
					}
					return (&gwOp{code: "op_UpdateGeometryExtent", world: true, results: []string{gwErr}}).with(a + " " + b), nil
				}
				return nil, g.errAt(x, "unsupported call on the database handle: %s", g.src(x))
			}
		}
	}
	id, ok := sel.X.(*ast.Ident)
	if !ok {
		return nil, nil
	}
	d := env.lookup(id.Name)
	if d == nil {
		return nil, nil
	}
	switch {
	case d.ty == gwTx && name == "Prepare" && len(x.Args) == 1 && !x.Ellipsis.IsValid():
		a, err := arg(0, gwSQL)
		if err != nil {
			return nil, err
		}
		return (&gwOp{code: "op_Prepare", world: true, results: []string{gwStmt, gwErr}}).with(d.coq + " " + a), nil
	case d.ty == gwTx && name == "Commit" && len(x.Args) == 0:
		return (&gwOp{code: "op_Commit", world: true, results: []string{gwErr}}).with(d.coq), nil
	case d.ty == gwStmt && name == "Exec" && len(x.Args) == 1 && x.Ellipsis.IsValid():
		a, err := arg(0, gwAnys)
		if err != nil {
			return nil, err
		}
		return (&gwOp{code: "op_Exec", world: true, results: []string{gwResult, gwErr}}).with(d.coq + " " + a), nil
	case d.ty == gwStmt && name == "Close" && len(x.Args) == 0:
		return (&gwOp{code: "op_StmtClose", world: true}).with(d.coq), nil
	case d.ty == gwExtPtr && name == "AddGeometry" && len(x.Args) == 1 && !x.Ellipsis.IsValid():
		a, err := arg(0, gwGeom)
		if err != nil {
			return nil, err
		}
		return &gwOp{code: "op_AddGeometry " + d.coq + " " + a, results: []string{gwErr}, assigns: d}, nil
	case d.ty == gwTarget && d.name == g.recv && g.done[name] && !x.Ellipsis.IsValid():
		fd := g.methods[name]
		var ps []string
		for _, f := range fd.Type.Params.List {
			ty, err := g.goType(f.Type)
			if err != nil {
				return nil, err
			}
			for range f.Names {
				ps = append(ps, ty)
			}
		}
		if len(ps) != len(x.Args) {
			return nil, g.errAt(x, "%d arguments for %s", len(x.Args), name)
		}
		code := d.coq
		for i, ty := range ps {
			v, err := g.expr(env, x.Args[i], binds)
			if err != nil {
				return nil, err
			}
			c, err := g.conv(x.Args[i], v, ty)
			if err != nil {
				return nil, err
			}
			code += " " + c
		}
		return &gwOp{code: "gen_" + name + " " + strings.Replace(code, d.coq, d.coq+" wld", 1), world: true, monadic: true}, nil
	}
	return nil, nil
}

// with: the world argument comes right after the operation's name
func (o *gwOp) with(args string) *gwOp {
	o.code = strings.TrimSpace(o.code + " wld " + args)
	return o
}

// ---------------------------------------------------------------------------
// which outer variables does a statement list assign (the world included)?
// ---------------------------------------------------------------------------

type gwAssigned struct {
	g    *gw
	env  *gwEnv
	set  map[*gwDecl]bool
	errs []error
}

func (a *gwAssigned) hit(local []map[string]bool, name string) {
	if name == "_" {
		return
	}
	for i := len(local) - 1; i >= 0; i-- {
		if local[i][name] {
			return
		}
	}
	if d := a.env.lookup(name); d != nil {
		a.set[d] = true
	}
}

func (a *gwAssigned) exprs(local []map[string]bool, xs ...ast.Node) {
	for _, x := range xs {
		if x == nil {
			continue
		}
		ast.Inspect(x, func(n ast.Node) bool {
			switch c := n.(type) {
			case *ast.CallExpr:
				if a.g.sch != nil && a.g.sch.assignedCall(a, local, c) {
					return true
				}
				if sel, ok := c.Fun.(*ast.SelectorExpr); ok {
					switch sel.Sel.Name {
					case "Begin", "Prepare", "Exec", "Close", "Commit", "UpdateGeometryExtent":
						a.set[a.g.world] = true
					case "AddGeometry":
						if id, ok := sel.X.(*ast.Ident); ok {
							a.hit(local, id.Name)
						}
					default:
						if id, ok := sel.X.(*ast.Ident); ok && id.Name == a.g.recv && a.g.methods[sel.Sel.Name] != nil {
							a.set[a.g.world] = true
						}
					}
				}
			case *ast.UnaryExpr:
				if c.Op == token.ARROW {
					if id, ok := c.X.(*ast.Ident); ok {
						a.hit(local, id.Name)
					}
				}
			case *ast.FuncLit:
				a.errs = append(a.errs, a.g.errAt(c, "function literals are not supported"))
				return false
			}
			return true
		})
	}
}

func (a *gwAssigned) stmts(local []map[string]bool, list []ast.Stmt) {
	local = append(local, map[string]bool{})
	cur := local[len(local)-1]
	for _, st := range list {
		if a.g.sch != nil && a.g.sch.assignedStmt(a, local, st) {
			continue
		}
		switch s := st.(type) {
		case *ast.AssignStmt:
			for _, r := range s.Rhs {
				a.exprs(local, r)
			}
			for _, l := range s.Lhs {
				id, ok := l.(*ast.Ident)
				if !ok {
					a.errs = append(a.errs, a.g.errAt(l, "assignment to %s is not supported", a.g.src(l)))
					continue
				}
				if s.Tok == token.DEFINE {
					if !cur[id.Name] && id.Name != "_" {
						cur[id.Name] = true
					}
				} else {
					a.hit(local, id.Name)
				}
			}
		case *ast.DeclStmt:
			if gd, ok := s.Decl.(*ast.GenDecl); ok {
				for _, sp := range gd.Specs {
					if vs, ok := sp.(*ast.ValueSpec); ok {
						for _, v := range vs.Values {
							a.exprs(local, v)
						}
						for _, n := range vs.Names {
							cur[n.Name] = true
						}
					}
				}
			}
		case *ast.ExprStmt:
			a.exprs(local, s.X)
		case *ast.IfStmt:
			if s.Init != nil {
				a.errs = append(a.errs, a.g.errAt(s, "if with an init statement is not supported"))
			}
			a.exprs(local, s.Cond)
			a.stmts(local, s.Body.List)
			switch e := s.Else.(type) {
			case *ast.BlockStmt:
				a.stmts(local, e.List)
			case *ast.IfStmt:
				a.stmts(local, []ast.Stmt{e})
			}
		case *ast.ForStmt:
			if s.Init != nil || s.Cond != nil || s.Post != nil {
				a.errs = append(a.errs, a.g.errAt(s, "only `for { }` loops are supported"))
			}
			a.stmts(local, s.Body.List)
		case *ast.RangeStmt:
			a.exprs(local, s.X)
			inner := append(local, map[string]bool{})
			for _, e := range []ast.Expr{s.Key, s.Value} {
				if id, ok := e.(*ast.Ident); ok {
					if s.Tok == token.DEFINE {
						inner[len(inner)-1][id.Name] = true
					} else {
						a.hit(local, id.Name)
					}
				}
			}
			a.stmts(inner, s.Body.List)
		case *ast.BlockStmt:
			a.stmts(local, s.List)
		case *ast.ReturnStmt:
			for _, r := range s.Results {
				a.exprs(local, r)
			}
		case *ast.BranchStmt, *ast.EmptyStmt:
		default:
			a.errs = append(a.errs, a.g.errAt(st, "unsupported statement %s", a.g.src(st)))
		}
	}
}

// assigned returns the declarations visible in env that the statements assign, the world first, then in declaration order
func (g *gw) assigned(env *gwEnv, list []ast.Stmt) ([]*gwDecl, error) {
	a := &gwAssigned{g: g, env: env, set: map[*gwDecl]bool{}}
	a.stmts(nil, list)
	if len(a.errs) > 0 {
		return nil, a.errs[0]
	}
	var out []*gwDecl
	for d := range a.set {
		out = append(out, d)
	}
	sort.Slice(out, func(i, j int) bool { return out[i].seq < out[j].seq })
	return out, nil
}

func gwTuple(ds []*gwDecl) string {
	if len(ds) == 0 {
		return "tt"
	}
	var ns []string
	for _, d := range ds {
		ns = append(ns, d.coq)
	}
	if len(ns) == 1 {
		return ns[0]
	}
	return "(" + strings.Join(ns, ", ") + ")"
}

func gwTupleTy(ds []*gwDecl) string {
	if len(ds) == 0 {
		return "unit"
	}
	var ts []string
	for _, d := range ds {
		ts = append(ts, gwCoq[d.ty])
	}
	if len(ts) == 1 {
		return ts[0]
	}
	return "(" + strings.Join(ts, " * ") + ")%type"
}

// a binder for the tuple: `(v : T)` or `'((a, b) : (A * B)%type)`
func gwBinder(ds []*gwDecl) string {
	switch len(ds) {
	case 0:
		return "(_ : unit)"
	case 1:
		return "(" + ds[0].coq + " : " + gwCoq[ds[0].ty] + ")"
	}
	return "'(" + gwTuple(ds) + " : " + gwTupleTy(ds) + ")"
}

// a pattern for `wdo PATTERN <- ..`
func gwPattern(ds []*gwDecl) string {
	switch len(ds) {
	case 0:
		return "_"
	case 1:
		return ds[0].coq
	}
	return gwTuple(ds)
}

// ---------------------------------------------------------------------------
// statements
// ---------------------------------------------------------------------------

func (g *gw) isFatal(st ast.Stmt) bool {
	es, ok := st.(*ast.ExprStmt)
	if !ok {
		return false
	}
	c, ok := es.X.(*ast.CallExpr)
	if !ok {
		return false
	}
	sel, ok := c.Fun.(*ast.SelectorExpr)
	return ok && g.isPkg(sel.X, "log", "log") && (sel.Sel.Name == "Fatalf" || sel.Sel.Name == "Fatalln" || sel.Sel.Name == "Fatal")
}

// terminates: control never falls off the end of the list
func (g *gw) terminates(list []ast.Stmt) bool {
	if len(list) == 0 {
		return false
	}
	switch s := list[len(list)-1].(type) {
	case *ast.ReturnStmt:
		return true
	case *ast.BranchStmt:
		return s.Label == nil && (s.Tok == token.BREAK || s.Tok == token.CONTINUE)
	case *ast.ExprStmt:
		return g.isFatal(s)
	case *ast.IfStmt:
		switch e := s.Else.(type) {
		case *ast.BlockStmt:
			return g.terminates(s.Body.List) && g.terminates(e.List)
		case *ast.IfStmt:
			return g.terminates(s.Body.List) && g.terminates([]ast.Stmt{e})
		}
	case *ast.BlockStmt:
		return g.terminates(s.List)
	case *ast.SwitchStmt, *ast.TypeSwitchStmt:
		if g.sch != nil {
			return g.sch.switchTerminates(s)
		}
	}
	return false
}

func (g *gw) block(env *gwEnv, list []ast.Stmt, ctx gwCtx) (string, error) {
	if len(list) == 0 {
		return ctx.fall()
	}
	if g.sch != nil {
		if c, ok, err := g.sch.block(env, list, ctx); ok || err != nil {
			return c, err
		}
	}
	rest := func() (string, error) { return g.block(env, list[1:], ctx) }
	return g.stmt(env, list[0], len(list) == 1, rest, ctx)
}

// bindLHS resolves the left-hand sides of an assignment of values of the given types; returns the Coq names
func (g *gw) bindLHS(env *gwEnv, s *ast.AssignStmt, tys []string) ([]string, error) {
	var out []string
	for i, l := range s.Lhs {
		id, ok := l.(*ast.Ident)
		if !ok {
			return nil, g.errAt(l, "assignment to %s is not supported", g.src(l))
		}
		if id.Name == "_" {
			out = append(out, "_")
			continue
		}
		var d *gwDecl
		if s.Tok == token.DEFINE {
			d = env.vars[id.Name]
			if d == nil {
				d = g.declare(env, id.Name, tys[i])
			}
		} else {
			d = env.lookup(id.Name)
			if d == nil {
				return nil, g.errAt(l, "unknown variable %s", id.Name)
			}
		}
		if d.ty != tys[i] {
			return nil, g.errAt(l, "%s has type %s, assigned a %s", id.Name, d.ty, tys[i])
		}
		out = append(out, d.coq)
	}
	return out, nil
}

func gwJoin(binds []string, tail string) string {
	if len(binds) == 0 {
		return tail
	}
	return strings.Join(binds, "\n  ") + "\n  " + tail
}

func (g *gw) stmt(env *gwEnv, st ast.Stmt, last bool, rest func() (string, error), ctx gwCtx) (string, error) {
	if g.sch != nil {
		if c, ok, err := g.sch.stmt(env, st, last, rest, ctx); ok || err != nil {
			return c, err
		}
	}
	switch s := st.(type) {
	case *ast.EmptyStmt:
		return rest()
	case *ast.BlockStmt:
		if !last {
			return "", g.errAt(s, "a nested block that is not the last statement is not supported")
		}
		return g.block(env.child(), s.List, ctx)
	case *ast.DeclStmt:
		gd, ok := s.Decl.(*ast.GenDecl)
		if !ok || gd.Tok != token.VAR {
			return "", g.errAt(s, "unsupported declaration")
		}
		var lets []string
		for _, sp := range gd.Specs {
			vs := sp.(*ast.ValueSpec)
			if vs.Type == nil {
				return "", g.errAt(s, "var without a type is not supported")
			}
			ty, err := g.goType(vs.Type)
			if err != nil {
				return "", err
			}
			if len(vs.Values) != 0 && len(vs.Values) != len(vs.Names) {
				return "", g.errAt(s, "unsupported var declaration")
			}
			for i, n := range vs.Names {
				var code string
				if len(vs.Values) == 0 {
					z, ok := gwZero(ty)
					if !ok {
						return "", g.errAt(s, "no zero value for %s", ty)
					}
					code = z
				} else {
					var binds []string
					v, err := g.expr(env, vs.Values[i], &binds)
					if err != nil {
						return "", err
					}
					lets = append(lets, binds...)
					if code, err = g.conv(vs.Values[i], v, ty); err != nil {
						return "", err
					}
				}
				if env.vars[n.Name] != nil {
					return "", g.errAt(s, "%s redeclared", n.Name)
				}
				d := g.declare(env, n.Name, ty)
				lets = append(lets, fmt.Sprintf("let %s : %s := %s in", d.coq, gwCoq[ty], code))
			}
		}
		r, err := rest()
		if err != nil {
			return "", err
		}
		return gwJoin(lets, r), nil
	case *ast.AssignStmt:
		return g.assign(env, s, rest)
	case *ast.ExprStmt:
		c, ok := s.X.(*ast.CallExpr)
		if !ok {
			return "", g.errAt(s, "unsupported statement %s", g.src(s))
		}
		if sel, ok := c.Fun.(*ast.SelectorExpr); ok && g.isPkg(sel.X, "log", "log") {
			switch sel.Sel.Name {
			case "Fatalf", "Fatalln":
				if len(c.Args) < 2 || c.Ellipsis.IsValid() {
					return "", g.errAt(s, "%s must end with the error it reports", g.src(c.Fun))
				}
				var binds []string
				for i, a := range c.Args {
					v, err := g.expr(env, a, &binds)
					if err != nil {
						return "", err
					}
					if len(binds) > 0 {
						return "", g.errAt(a, "an argument of %s may not index, slice or divide", g.src(c.Fun))
					}
					if i == len(c.Args)-1 {
						if _, isId := a.(*ast.Ident); !isId || v.ty != gwErr {
							return "", g.errAt(a, "the last argument of %s must be an error variable", g.src(c.Fun))
						}
						if !last {
							return "", g.errAt(s, "statements after %s", g.src(c.Fun))
						}
						return "WErr (fatal " + v.code + ")", nil
					}
				}
			case "Println", "Printf", "Print":
				var binds []string
				for _, a := range c.Args {
					if _, err := g.expr(env, a, &binds); err != nil {
						return "", err
					}
				}
				if len(binds) > 0 {
					return "", g.errAt(s, "an argument of %s may not index, slice or divide", g.src(c.Fun))
				}
				r, err := rest()
				if err != nil {
					return "", err
				}
				return "(* log." + sel.Sel.Name + " *) " + r, nil
			}
			return "", g.errAt(s, "unsupported call %s", g.src(c))
		}
		var binds []string
		op, err := g.opCall(env, c, &binds)
		if err != nil {
			return "", err
		}
		if op == nil || op.assigns != nil {
			return "", g.errAt(s, "unsupported statement %s", g.src(s))
		}
		if len(op.results) != 0 && !op.monadic {
			return "", g.errAt(s, "the results of %s are dropped without `_ =`", g.src(c))
		}
		r, err := rest()
		if err != nil {
			return "", err
		}
		if op.monadic {
			return gwJoin(binds, "wdo wld <- "+op.code+";\n  "+r), nil
		}
		if !op.world {
			return "", g.errAt(s, "unsupported statement %s", g.src(s))
		}
		return gwJoin(binds, "let wld := "+op.code+" in\n  "+r), nil
	case *ast.BranchStmt:
		if s.Label != nil {
			return "", g.errAt(s, "labels are not supported")
		}
		if !last {
			return "", g.errAt(s, "statements after %s", s.Tok)
		}
		switch s.Tok {
		case token.BREAK:
			if ctx.brk != nil {
				return ctx.brk()
			}
		case token.CONTINUE:
			if ctx.cont != nil {
				return ctx.cont()
			}
		}
		return "", g.errAt(s, "unsupported %s", s.Tok)
	case *ast.ReturnStmt:
		if !ctx.top {
			return "", g.errAt(s, "return inside a loop is not supported")
		}
		if !last {
			return "", g.errAt(s, "statements after return")
		}
		if g.retTy == "" {
			if len(s.Results) != 0 {
				return "", g.errAt(s, "return with a value")
			}
			return "WOk wld", nil
		}
		if len(s.Results) != 1 {
			return "", g.errAt(s, "return must have one value")
		}
		var binds []string
		v, err := g.expr(env, s.Results[0], &binds)
		if err != nil {
			return "", err
		}
		c, err := g.conv(s.Results[0], v, g.retTy)
		if err != nil {
			return "", err
		}
		return gwJoin(binds, "WOk "+c), nil
	case *ast.IfStmt:
		return g.ifStmt(env, s, last, rest, ctx)
	case *ast.ForStmt:
		return g.forStmt(env, s, rest)
	case *ast.RangeStmt:
		return g.rangeStmt(env, s, rest)
	}
	return "", g.errAt(st, "unsupported statement %s", g.src(st))
}

func (g *gw) assign(env *gwEnv, s *ast.AssignStmt, rest func() (string, error)) (string, error) {
	if s.Tok == token.ADD_ASSIGN && len(s.Lhs) == 1 && len(s.Rhs) == 1 {
		// x += e  is  x = x + e
		return g.assign(env, &ast.AssignStmt{Lhs: s.Lhs, TokPos: s.TokPos, Tok: token.ASSIGN,
			Rhs: []ast.Expr{&ast.BinaryExpr{X: s.Lhs[0], OpPos: s.TokPos, Op: token.ADD, Y: s.Rhs[0]}}}, rest)
	}
	if s.Tok != token.DEFINE && s.Tok != token.ASSIGN {
		return "", g.errAt(s, "unsupported assignment operator %s", s.Tok)
	}
	if len(s.Rhs) != 1 {
		return "", g.errAt(s, "unsupported tuple assignment")
	}
	var binds []string
	// x, ok := <-ch
	if u, ok := s.Rhs[0].(*ast.UnaryExpr); ok && u.Op == token.ARROW {
		id, ok := u.X.(*ast.Ident)
		if !ok || len(s.Lhs) != 2 {
			return "", g.errAt(s, "only `x, ok := <-ch` on a channel variable is supported")
		}
		ch := env.lookup(id.Name)
		if ch == nil || ch.ty != gwChan {
			return "", g.errAt(s, "%s is not a channel of features", id.Name)
		}
		ns, err := g.bindLHS(env, s, []string{gwFeature, gwBool})
		if err != nil {
			return "", err
		}
		r, err := rest()
		if err != nil {
			return "", err
		}
		return fmt.Sprintf("let '(%s, %s, %s) := chan_recv feature_nil %s in\n  %s", ns[0], ns[1], ch.coq, ch.coq, r), nil
	}
	if c, ok := s.Rhs[0].(*ast.CallExpr); ok {
		op, err := g.opCall(env, c, &binds)
		if err != nil {
			return "", err
		}
		if op != nil {
			if op.monadic {
				return "", g.errAt(s, "%s has no result", g.src(c))
			}
			if len(op.results) != len(s.Lhs) {
				return "", g.errAt(s, "%s has %d results", g.src(c), len(op.results))
			}
			var pat string
			if op.assigns != nil {
				if id, ok := s.Lhs[0].(*ast.Ident); !ok || id.Name != "_" || s.Tok != token.ASSIGN {
					return "", g.errAt(s, "the result of %s must be discarded with `_ =`", g.src(c.Fun))
				}
				pat = "let " + op.assigns.coq + " := " + op.code + " in"
			} else {
				ns, err := g.bindLHS(env, s, op.results)
				if err != nil {
					return "", err
				}
				inner := ns[0]
				if len(ns) == 2 {
					inner = "(" + ns[0] + ", " + ns[1] + ")"
				}
				switch {
				case op.world:
					pat = "let '(wld, " + inner + ") := " + op.code + " in"
				case len(ns) == 2:
					pat = "let '" + inner + " := " + op.code + " in"
				default:
					pat = "let " + inner + " := " + op.code + " in"
				}
			}
			r, err := rest()
			if err != nil {
				return "", err
			}
			return gwJoin(binds, pat+"\n  "+r), nil
		}
	}
	if len(s.Lhs) != 1 {
		return "", g.errAt(s, "unsupported tuple assignment %s", g.src(s))
	}
	v, err := g.expr(env, s.Rhs[0], &binds)
	if err != nil {
		return "", err
	}
	id, ok := s.Lhs[0].(*ast.Ident)
	if !ok {
		return "", g.errAt(s, "assignment to %s is not supported", g.src(s.Lhs[0]))
	}
	var d *gwDecl
	if id.Name != "_" {
		if s.Tok == token.DEFINE {
			if env.vars[id.Name] != nil {
				return "", g.errAt(s, "no new variable on the left of :=")
			}
			if v.ty == gwNil {
				return "", g.errAt(s, "untyped nil")
			}
			d = g.declare(env, id.Name, v.ty)
		} else if d = env.lookup(id.Name); d == nil {
			return "", g.errAt(s, "unknown variable %s", id.Name)
		}
		if d.ty == gwTarget || d.ty == gwChan {
			return "", g.errAt(s, "assignment to %s is not supported", id.Name)
		}
	}
	r := ""
	if d != nil {
		code, err := g.conv(s.Rhs[0], v, d.ty)
		if err != nil {
			return "", err
		}
		binds = append(binds, fmt.Sprintf("let %s : %s := %s in", d.coq, gwCoq[d.ty], code))
	}
	if r, err = rest(); err != nil {
		return "", err
	}
	return gwJoin(binds, r), nil
}

func (g *gw) ifStmt(env *gwEnv, s *ast.IfStmt, last bool, rest func() (string, error), ctx gwCtx) (string, error) {
	if s.Init != nil {
		return "", g.errAt(s, "if with an init statement is not supported")
	}
	var binds []string
	c, err := g.expr(env, s.Cond, &binds)
	if err != nil {
		return "", err
	}
	if c.ty != gwBool {
		return "", g.errAt(s.Cond, "condition of type %s", c.ty)
	}
	var elseList []ast.Stmt
	switch e := s.Else.(type) {
	case nil:
	case *ast.BlockStmt:
		elseList = e.List
	case *ast.IfStmt:
		elseList = []ast.Stmt{e}
	default:
		return "", g.errAt(s, "unsupported else")
	}
	thenFalls, elseFalls := !g.terminates(s.Body.List), !g.terminates(elseList)
	after := rest
	head := ""
	if last {
		after = ctx.fall
	} else if thenFalls && elseFalls {
		// the code after the if, as a local function of the variables the branches assign
		vars, err := g.assigned(env, append(append([]ast.Stmt{}, s.Body.List...), elseList...))
		if err != nil {
			return "", err
		}
		k := g.fresh("k")
		r, err := rest()
		if err != nil {
			return "", err
		}
		head = fmt.Sprintf("let %s := fun %s =>\n  %s in\n  ", k, gwBinder(vars), r)
		after = func() (string, error) { return "(" + k + " " + gwTuple(vars) + ")", nil }
	} else if !thenFalls && !elseFalls {
		return "", g.errAt(s, "unreachable statements after this if")
	}
	sub := gwCtx{top: ctx.top, fall: after, brk: ctx.brk, cont: ctx.cont, ret: ctx.ret}
	th, err := g.block(env.child(), s.Body.List, sub)
	if err != nil {
		return "", err
	}
	el, err := g.block(env.child(), elseList, sub)
	if err != nil {
		return "", err
	}
	return gwJoin(binds, head+"if "+c.code+" then (\n  "+th+")\n  else (\n  "+el+")"), nil
}

// for { .. }: a Fixpoint on fuel; the state is what the body assigns, everything else in scope is a parameter
func (g *gw) forStmt(env *gwEnv, s *ast.ForStmt, rest func() (string, error)) (string, error) {
	if s.Init != nil || s.Cond != nil || s.Post != nil {
		return "", g.errAt(s, "only `for { }` loops are supported")
	}
	state, err := g.assigned(env, s.Body.List)
	if err != nil {
		return "", err
	}
	isState := map[*gwDecl]bool{}
	for _, d := range state {
		isState[d] = true
	}
	var params []*gwDecl
	for _, d := range env.visible() {
		if !isState[d] {
			params = append(params, d)
		}
	}
	idx := g.loopN
	g.loopN++
	fuels := gwFuel[g.fn]
	if idx >= len(fuels) {
		return "", g.errAt(s, "no fuel configured for loop %d of %s", idx+1, g.fn)
	}
	name := fmt.Sprintf("gen_%s_loop%d", g.fn, idx+1)
	var sig, callParams, callState []string
	for _, d := range params {
		sig = append(sig, fmt.Sprintf("(%s : %s)", d.coq, gwCoq[d.ty]))
		callParams = append(callParams, d.coq)
	}
	sig = append(sig, "(fuel : nat)")
	for _, d := range state {
		sig = append(sig, fmt.Sprintf("(%s : %s)", d.coq, gwCoq[d.ty]))
		callState = append(callState, d.coq)
	}
	recur := func() (string, error) {
		return "(" + strings.Join(append(append([]string{name}, callParams...), append([]string{"fuel'"}, callState...)...), " ") + ")", nil
	}
	exit := func() (string, error) { return "WOk " + gwTuple(state), nil }
	body, err := g.block(env.child(), s.Body.List, gwCtx{fall: recur, brk: exit, cont: recur})
	if err != nil {
		return "", err
	}
	fmt.Fprintf(&g.pre, "(* gpkg.go:%d loop %d of %s; state = %s *)\nFixpoint %s %s {struct fuel} : wres %s :=\n  match fuel with\n  | O => WErr OutOfFuel\n  | S fuel' =>\n  %s\n  end.\n\n",
		g.fset.Position(s.Pos()).Line, idx+1, g.fn, gwTuple(state), name, strings.Join(sig, " "), gwTupleTy(state), body)
	r, err := rest()
	if err != nil {
		return "", err
	}
	call := strings.Join(append(append([]string{name}, callParams...), append([]string{fuels[idx]}, callState...)...), " ")
	return fmt.Sprintf("wdo %s <- %s;\n  %s", gwPattern(state), call, r), nil
}

// for _, x := range s { .. }
func (g *gw) rangeStmt(env *gwEnv, s *ast.RangeStmt, rest func() (string, error)) (string, error) {
	if k, ok := s.Key.(*ast.Ident); !ok || k.Name != "_" || s.Tok != token.DEFINE {
		return "", g.errAt(s, "only `for _, x := range s` is supported")
	}
	vid, ok := s.Value.(*ast.Ident)
	if !ok || vid.Name == "_" {
		return "", g.errAt(s, "only `for _, x := range s` is supported")
	}
	var binds []string
	xs, err := g.expr(env, s.X, &binds)
	if err != nil {
		return "", err
	}
	el := ""
	switch xs.ty {
	case gwFeatures:
		el = gwFeature
	case gwAnys:
		el = gwAny
	case gwColumns:
		el = gwColumn
	case gwStrings:
		el = gwString
	default:
		return "", g.errAt(s, "range over %s", xs.ty)
	}
	state, err := g.assigned(env, s.Body.List)
	if err != nil {
		return "", err
	}
	if id, ok := s.X.(*ast.Ident); ok {
		for _, d := range state {
			if d.name == id.Name {
				return "", g.errAt(s, "the loop assigns the slice %s it ranges over", id.Name)
			}
		}
	}
	inner := env.child()
	xd := g.declare(inner, vid.Name, el)
	next := func() (string, error) { return "WOk (Cont " + gwTuple(state) + ")", nil }
	brk := func() (string, error) { return "WOk (Brk " + gwTuple(state) + ")", nil }
	body, err := g.block(inner.child(), s.Body.List, gwCtx{fall: next, brk: brk, cont: next})
	if err != nil {
		return "", err
	}
	r, err := rest()
	if err != nil {
		return "", err
	}
	return gwJoin(binds, fmt.Sprintf("wdo %s <- wrange_loop (fun (%s : %s) %s =>\n  %s) %s %s;\n  %s",
		gwPattern(state), xd.coq, gwCoq[el], gwBinder(state), body, xs.code, gwTuple(state), r)), nil
}

// ---------------------------------------------------------------------------
// functions
// ---------------------------------------------------------------------------

func (g *gw) method(name string) (string, error) {
	fd := g.methods[name]
	if fd == nil {
		return "", fmt.Errorf("method %s of *TargetGeopackage not found", name)
	}
	if fd.Type.Results != nil && len(fd.Type.Results.List) > 0 {
		return "", g.errAt(fd, "%s has results", name)
	}
	if fd.Type.TypeParams != nil {
		return "", g.errAt(fd, "%s is generic", name)
	}
	g.fn, g.n, g.loopN, g.declN, g.retTy = name, 0, 0, map[string]int{}, ""
	g.recv = fd.Recv.List[0].Names[0].Name
	g.ownership(fd)
	env := &gwEnv{vars: map[string]*gwDecl{}}
	rd := g.declare(env, g.recv, gwTarget)
	g.world = &gwDecl{name: "", coq: "wld", ty: gwWorld, seq: 0}
	env.vars[""] = g.world
	sig := []string{fmt.Sprintf("(%s : target)", rd.coq), "(wld : world)"}
	for _, f := range fd.Type.Params.List {
		ty, err := g.goType(f.Type)
		if err != nil {
			return "", err
		}
		for _, n := range f.Names {
			if n.Name == "_" {
				return "", g.errAt(f, "unnamed parameter")
			}
			d := g.declare(env, n.Name, ty)
			sig = append(sig, fmt.Sprintf("(%s : %s)", d.coq, gwCoq[ty]))
		}
	}
	body, err := g.block(env.child(), fd.Body.List, gwCtx{top: true, fall: func() (string, error) { return "WOk wld", nil }})
	if err != nil {
		return "", err
	}
	if g.loopN != len(gwFuel[name]) {
		return "", g.errAt(fd, "%s has %d `for { }` loops, fuel is configured for %d", name, g.loopN, len(gwFuel[name]))
	}
	var b strings.Builder
	b.WriteString(g.pre.String())
	g.pre.Reset()
	fmt.Fprintf(&b, "(* gpkg.go:%d func (%s *TargetGeopackage) %s *)\nDefinition gen_%s %s : wres world :=\n  %s.\n\n",
		g.fset.Position(fd.Pos()).Line, g.recv, name, name, strings.Join(sig, " "), body)
	g.done[name] = true
	return b.String(), nil
}

// sqlFunc: a method `func (t Table) name() string` that only builds a text: no world, one result
func (g *gw) sqlFunc(f *ast.File, name string) (string, error) {
	var fd *ast.FuncDecl
	for _, d := range f.Decls {
		if x, ok := d.(*ast.FuncDecl); ok && x.Name.Name == name && x.Recv != nil && len(x.Recv.List) == 1 &&
			len(x.Recv.List[0].Names) == 1 && types.ExprString(x.Recv.List[0].Type) == "Table" && x.Body != nil {
			fd = x
		}
	}
	if fd == nil {
		return "", fmt.Errorf("method %s of Table not found", name)
	}
	if len(fd.Type.Params.List) != 0 || fd.Type.Results == nil || len(fd.Type.Results.List) != 1 ||
		len(fd.Type.Results.List[0].Names) != 0 || types.ExprString(fd.Type.Results.List[0].Type) != "string" {
		return "", g.errAt(fd, "%s is not func (t Table) %s() string", name, name)
	}
	g.fn, g.n, g.loopN, g.declN, g.retTy = name, 0, 0, map[string]int{}, gwString
	g.recv = fd.Recv.List[0].Names[0].Name
	g.ownership(fd)
	env := &gwEnv{vars: map[string]*gwDecl{}}
	rd := g.declare(env, g.recv, gwTable)
	g.world = &gwDecl{name: "", coq: "wld", ty: gwWorld, seq: 0}
	missing := func() (string, error) { return "", g.errAt(fd, "%s can end without a return", name) }
	body, err := g.block(env.child(), fd.Body.List, gwCtx{top: true, fall: missing})
	if err != nil {
		return "", err
	}
	if strings.Contains(body, "wld") || g.pre.Len() > 0 {
		return "", g.errAt(fd, "%s touches the database", name)
	}
	return fmt.Sprintf("(* gpkg.go:%d func (%s Table) %s *)\nDefinition gen_%s (%s : table) : wres string :=\n  %s.\n\n",
		g.fset.Position(fd.Pos()).Line, g.recv, name, name, rd.coq, body), nil
}

// strFunc: a package-level function `func name(p1, .. string) string` that only builds a text (quoteIdentifier): no world,
// no receiver, one result.  Once generated it may be called from the SQL text methods.
func (g *gw) strFunc(fd *ast.FuncDecl) (string, error) {
	name := fd.Name.Name
	if fd.Recv != nil || fd.Body == nil || fd.Type.TypeParams != nil || fd.Type.Results == nil || len(fd.Type.Results.List) != 1 ||
		len(fd.Type.Results.List[0].Names) != 0 || types.ExprString(fd.Type.Results.List[0].Type) != "string" {
		return "", g.errAt(fd, "%s is not func %s(.. string) string", name, name)
	}
	g.fn, g.n, g.loopN, g.declN, g.retTy = name, 0, 0, map[string]int{}, gwString
	g.recv = ""
	g.ownership(fd)
	env := &gwEnv{vars: map[string]*gwDecl{}}
	g.world = &gwDecl{name: "", coq: "wld", ty: gwWorld, seq: 0}
	var sig []string
	for _, f := range fd.Type.Params.List {
		if types.ExprString(f.Type) != "string" {
			return "", g.errAt(f, "%s: parameter of type %s, expected string", name, types.ExprString(f.Type))
		}
		for _, n := range f.Names {
			if n.Name == "_" {
				return "", g.errAt(f, "unnamed parameter")
			}
			d := g.declare(env, n.Name, gwString)
			sig = append(sig, fmt.Sprintf("(%s : string)", d.coq))
		}
	}
	if len(sig) == 0 {
		return "", g.errAt(fd, "%s has no parameter", name)
	}
	missing := func() (string, error) { return "", g.errAt(fd, "%s can end without a return", name) }
	body, err := g.block(env.child(), fd.Body.List, gwCtx{top: true, fall: missing})
	if err != nil {
		return "", err
	}
	if strings.Contains(body, "wld") || g.pre.Len() > 0 {
		return "", g.errAt(fd, "%s touches the database", name)
	}
	g.strFuncs[name] = len(sig)
	return fmt.Sprintf("(* gpkg.go:%d func %s *)\nDefinition gen_%s %s : wres string :=\n  %s.\n\n",
		g.fset.Position(fd.Pos()).Line, name, name, strings.Join(sig, " "), body), nil
}

// checkStruct: the struct has (at least) the named fields with exactly these types
func gwCheckStruct(f *ast.File, name string, want map[string]string) error {
	for _, d := range f.Decls {
		gd, ok := d.(*ast.GenDecl)
		if !ok || gd.Tok != token.TYPE {
			continue
		}
		for _, sp := range gd.Specs {
			ts := sp.(*ast.TypeSpec)
			st, ok := ts.Type.(*ast.StructType)
			if !ok || ts.Name.Name != name {
				continue
			}
			got := map[string]string{}
			for _, fl := range st.Fields.List {
				for _, n := range fl.Names {
					got[n.Name] = types.ExprString(fl.Type)
				}
			}
			for k, v := range want {
				if got[k] != v {
					return fmt.Errorf("struct %s: field %s has type %q, expected %q", name, k, got[k], v)
				}
			}
			return nil
		}
	}
	return fmt.Errorf("struct %s not found", name)
}

func genGpkgWriter(repo string) (string, error) {
	fset := token.NewFileSet()
	path := filepath.Join(repo, "processing", "gpkg", "gpkg.go")
	f, err := parser.ParseFile(fset, path, nil, 0)
	if err != nil {
		return "", err
	}
	g := &gw{fset: fset, imports: map[string]string{}, methods: map[string]*ast.FuncDecl{}, done: map[string]bool{}}
	for _, im := range f.Imports {
		p, _ := strconv.Unquote(im.Path.Value)
		n := p[strings.LastIndex(p, "/")+1:]
		if im.Name != nil {
			n = im.Name.Name
		}
		g.imports[n] = p
	}
	if err := gwCheckStruct(f, "TargetGeopackage", map[string]string{"Table": "Table", "pagesize": "int", "handle": "*gpkg.Handle"}); err != nil {
		return "", err
	}
	if err := gwCheckStruct(f, "Table", map[string]string{"Name": "string", "srs": "gpkg.SpatialReferenceSystem", "columns": "[]column", "gcolumn": "string"}); err != nil {
		return "", err
	}
	if err := gwCheckStruct(f, "column", map[string]string{"name": "string", "ctype": "string", "notnull": "int", "pk": "int"}); err != nil {
		return "", err
	}
	if g.imports["gpkg"] != "github.com/go-spatial/geom/encoding/gpkg" {
		return "", fmt.Errorf("gpkg is not github.com/go-spatial/geom/encoding/gpkg")
	}
	// processing.Feature has exactly the two methods the translation maps
	pf, err := parser.ParseFile(fset, filepath.Join(repo, "processing", "interface.go"), nil, 0)
	if err != nil {
		return "", err
	}
	featureOK := false
	for _, d := range pf.Decls {
		gd, ok := d.(*ast.GenDecl)
		if !ok || gd.Tok != token.TYPE {
			continue
		}
		for _, sp := range gd.Specs {
			ts := sp.(*ast.TypeSpec)
			it, ok := ts.Type.(*ast.InterfaceType)
			if !ok || ts.Name.Name != "Feature" {
				continue
			}
			got := map[string]string{}
			for _, m := range it.Methods.List {
				for _, n := range m.Names {
					got[n.Name] = types.ExprString(m.Type)
				}
			}
			featureOK = len(got) == 2 && got["Columns"] == "func() []interface{}" && got["Geometry"] == "func() geom.Geometry"
		}
	}
	if !featureOK {
		return "", fmt.Errorf("processing.Feature is not interface { Columns() []interface{}; Geometry() geom.Geometry }")
	}
	for _, d := range f.Decls {
		fd, ok := d.(*ast.FuncDecl)
		if !ok || fd.Recv == nil || len(fd.Recv.List) != 1 || len(fd.Recv.List[0].Names) != 1 || fd.Body == nil {
			continue
		}
		if types.ExprString(fd.Recv.List[0].Type) == "*TargetGeopackage" {
			g.methods[fd.Name.Name] = fd
		}
	}
	var b strings.Builder
	b.WriteString("(* GENERATED by /verif/translator (G2, GeoPackage target writer) from processing/gpkg/gpkg.go on every run -- do not edit.\n")
	b.WriteString("   Control flow, page arithmetic, order of the calls and all conditions are derived from the AST.\n")
	b.WriteString("   MODELLED (trusted) calls, each accepted only in exactly this shape; the operations are defined in Gpkg/WriterOps.v:\n")
	for _, m := range gwModelled {
		b.WriteString("     " + strings.ReplaceAll(m, "*", "ptr ") + "\n")
	}
	b.WriteString("*)\n")
	b.WriteString("From Coq Require Import ZArith NArith List Bool String Ascii.\nFrom Texel Require Import Gpkg.Model Gpkg.WriterOps.\nImport ListNotations.\nOpen Scope Z_scope.\n\n")
	for _, m := range []string{"writeFeatures", "WriteFeatures"} {
		s, err := g.method(m)
		if err != nil {
			return "", err
		}
		b.WriteString(s)
	}
	// the identifier quoting of fix a631213 (F20): regenerated from its body when the source has it, and then callable
	// from the three SQL text methods.  A source without it (the repair undone) yields texts with bare names, and no
	// gen_quoteIdentifier: Gpkg/ProofsGenWriter.v stops checking.
	g.strFuncs = map[string]int{}
	for _, d := range f.Decls {
		if fd, ok := d.(*ast.FuncDecl); ok && fd.Recv == nil && fd.Name.Name == "quoteIdentifier" {
			s, err := g.strFunc(fd)
			if err != nil {
				return "", err
			}
			b.WriteString(s)
		}
	}
	for _, m := range []string{"createSQL", "selectSQL", "insertSQL"} {
		s, err := g.sqlFunc(f, m)
		if err != nil {
			return "", err
		}
		b.WriteString(s)
	}
	return b.String(), nil
}
