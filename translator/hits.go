package main

import (
	"fmt"
	"go/ast"
	"go/token"
	"go/types"
)

// ---------------------------------------------------------------------------
// G2: checkPointHits of pointindex.go -> gen/HitsGen.v (engine: find.go)
//
//	levelHitOnce := ix.hitOnce[level]
//	levelHitMultiple := ix.hitMultiple[level]
//
// Go maps are references: the two locals stand for the inner maps of the receiver, the writes
// `levelHitOnce[vertex] = ..` are writes to ix.hitOnce[level].  The generated function takes the two inner maps
// (as they are before the call) and returns them as they are after it; `ix` and `level` are used for nothing else
// (any other use is a translation failure).  Writing to an entry of a nil map panics: the translator checks that
// the only caller, SnapClosestPoints, makes both inner maps when they are nil before it calls checkPointHits.
// ---------------------------------------------------------------------------

// hitsCallerMakesMaps: in (*PointIndex).SnapClosestPoints, the call checkPointHits(ix, _, _, L) is preceded, in the
// same loop body, by  if ix.F[L] == nil { ix.F[L] = make(map[..]..) }  for F = hitOnce and F = hitMultiple.
func (g *pg) hitsCallerMakesMaps() error {
	// every call of checkPointHits in the package
	var calls []*ast.CallExpr
	var owners []string
	for key, fd := range g.funcs {
		if fd.Body == nil {
			continue
		}
		ast.Inspect(fd.Body, func(n ast.Node) bool {
			if c, ok := n.(*ast.CallExpr); ok {
				if id, ok := c.Fun.(*ast.Ident); ok && id.Name == "checkPointHits" {
					calls = append(calls, c)
					owners = append(owners, key)
				}
			}
			return true
		})
	}
	if len(calls) != 1 || owners[0] != "PointIndex.SnapClosestPoints" {
		return fmt.Errorf("checkPointHits: expected exactly one call, in (*PointIndex).SnapClosestPoints, found %d %v", len(calls), owners)
	}
	call := calls[0]
	fd := g.funcs["PointIndex.SnapClosestPoints"]
	if fd.Recv == nil || len(fd.Recv.List) != 1 || len(fd.Recv.List[0].Names) != 1 {
		return fmt.Errorf("SnapClosestPoints: unsupported receiver")
	}
	recv := fd.Recv.List[0].Names[0].Name
	if len(call.Args) != 4 || types.ExprString(call.Args[0]) != recv {
		return fmt.Errorf("checkPointHits is not called on the receiver of SnapClosestPoints")
	}
	lvl, ok := call.Args[3].(*ast.Ident)
	if !ok {
		return fmt.Errorf("checkPointHits: the level argument is not a variable")
	}
	// the innermost statement list of a range body that contains the call, at any depth below it
	var found bool
	var check func(list []ast.Stmt) bool // does the list contain the call (at any depth)?
	contains := func(s ast.Stmt) bool {
		has := false
		ast.Inspect(s, func(n ast.Node) bool {
			if n == ast.Node(call) {
				has = true
			}
			return true
		})
		return has
	}
	isMake := func(s ast.Stmt, field string) bool {
		is, ok := s.(*ast.IfStmt)
		if !ok || is.Init != nil || is.Else != nil || len(is.Body.List) != 1 {
			return false
		}
		target := recv + "." + field + "[" + lvl.Name + "]"
		if types.ExprString(is.Cond) != target+" == nil" {
			return false
		}
		as, ok := is.Body.List[0].(*ast.AssignStmt)
		if !ok || as.Tok != token.ASSIGN || len(as.Lhs) != 1 || len(as.Rhs) != 1 || types.ExprString(as.Lhs[0]) != target {
			return false
		}
		mk, ok := as.Rhs[0].(*ast.CallExpr)
		if !ok || len(mk.Args) < 1 {
			return false
		}
		if id, ok := mk.Fun.(*ast.Ident); !ok || id.Name != "make" {
			return false
		}
		_, isMap := mk.Args[0].(*ast.MapType)
		return isMap
	}
	check = func(list []ast.Stmt) bool {
		once, multi := false, false
		for _, s := range list {
			if isMake(s, "hitOnce") {
				once = true
			}
			if isMake(s, "hitMultiple") {
				multi = true
			}
			if contains(s) {
				if once && multi {
					// the level variable and the maps must not be reassigned between the makes and the call: the statements
					// in between are the two ifs, a make of a slice and the loop itself; check there is no other write
					found = true
				}
				return true
			}
		}
		return false
	}
	ast.Inspect(fd.Body, func(n ast.Node) bool {
		if rs, ok := n.(*ast.RangeStmt); ok {
			if k, ok := rs.Key.(*ast.Ident); ok && k.Name == lvl.Name {
				check(rs.Body.List)
			}
		}
		return true
	})
	if !found {
		return fmt.Errorf("SnapClosestPoints does not make ix.hitOnce[%s] and ix.hitMultiple[%s] when nil before calling checkPointHits", lvl.Name, lvl.Name)
	}
	// nothing in SnapClosestPoints assigns the level variable or deletes from the maps
	bad := ""
	ast.Inspect(fd.Body, func(n ast.Node) bool {
		switch n := n.(type) {
		case *ast.AssignStmt:
			for _, l := range n.Lhs {
				if id, ok := l.(*ast.Ident); ok && id.Name == lvl.Name && n.Tok != token.DEFINE {
					bad = "assignment to " + lvl.Name
				}
			}
		case *ast.CallExpr:
			if id, ok := n.Fun.(*ast.Ident); ok && (id.Name == "delete" || id.Name == "clear") {
				bad = "call of " + id.Name
			}
		}
		return true
	})
	if bad != "" {
		return fmt.Errorf("SnapClosestPoints: %s", bad)
	}
	return nil
}

func genHits(repo string) (string, error) {
	g, err := pgLoad(repo)
	if err != nil {
		return "", err
	}
	if g.aliases["Level"] != ltUint {
		return "", fmt.Errorf("type Level = uint not found")
	}
	if g.slicesName == "" {
		return "", fmt.Errorf("import of slices not found")
	}
	if err := g.loadStruct("PointIndex", map[string]bool{"hitOnce": true, "hitMultiple": true}); err != nil {
		return "", err
	}
	want := "map:" + ltUint + "|map:" + ltPt + "|slice:" + ltInt
	for _, f := range g.structs["PointIndex"] {
		if f.ty != want {
			return "", fmt.Errorf("PointIndex.%s is not map[Level]map[intgeom.Point][]int", f.name)
		}
	}
	if err := g.hitsCallerMakesMaps(); err != nil {
		return "", err
	}
	g.out.WriteString("(* GENERATED by /verif/translator (G2, whole bodies in the error monad) from pointindex/pointindex.go on every run -- do not edit.\n")
	g.out.WriteString("   Mapped to hand-written support (after checking the AST for the exact shape):\n")
	g.out.WriteString("   - `levelHitOnce := ix.hitOnce[level]`, `levelHitMultiple := ix.hitMultiple[level]` (the first two statements): Go maps are\n")
	g.out.WriteString("     references, the locals stand for the inner maps of the receiver; they are the parameters of the generated function and\n")
	g.out.WriteString("     their final contents its result; ix and level are used for nothing else.  Both inner maps are non-nil: the only caller,\n")
	g.out.WriteString("     SnapClosestPoints, makes them when nil before the call (checked);\n")
	g.out.WriteString("   - map[intgeom.Point][]int used through m[k] and m[k] = v only = gomap of Prelude/GoAssoc.v (gm_get_or: nil slice when missing, gm_set);\n")
	g.out.WriteString("   - slices.Contains(s, x) on []int = existsb (Z.eqb x) s; len(s) = zlen s; append(s, x) = s ++ [x]; int ring ids = exact Z. *)\n")
	g.out.WriteString(pgHeader)
	g.out.WriteString("Import ListNotations.\nOpen Scope Z_scope.\n\n")
	if err := g.function(pgSpec{name: "checkPointHits", coqName: "gen_checkPointHits", refPrefix: 2}); err != nil {
		return "", err
	}
	return g.out.String(), nil
}
