package main

import (
	"fmt"
	"go/ast"
	"go/parser"
	"go/token"
	"path/filepath"
	"strings"
)

// ---------------------------------------------------------------------------
// G2: leaf functions of pointindex.go (and mathhelp) -> Gallina
//
// A small, explicit Go subset is translated statement by statement:
//   x := e ; x = e ; x-- ; x++ ; var x T ; if/else ; tagless switch ; return e1, e2
// over int/int64/uint (-> Z), bool, intgeom.Point (-> pair), intgeom.Extent
// (-> 4-tuple) and the receiver *PointIndex (-> record of the fields used).
// Go's `/` and `%` become Z.quot / Z.rem (truncation toward zero, as in Go);
// conversions int(..)/int64(..)/uint(..) are the identity (DESIGN 4.1 bounds).
// Anything outside the subset is a translation FAILURE, which breaks every
// theorem that depends on the generated file.
// ---------------------------------------------------------------------------

type gty int

const (
	tyZ gty = iota
	tyBool
	tyPt
	tyExtent
	tyIx
	tyQtcList
	tyTuple
)

type g2 struct {
	fset   *token.FileSet
	funcs  map[string]*ast.FuncDecl
	consts map[string]string
	out    strings.Builder
}

type g2env struct {
	vars map[string]gty
}

func (e *g2env) clone() *g2env {
	c := &g2env{vars: map[string]gty{}}
	for k, v := range e.vars {
		c.vars[k] = v
	}
	return c
}

func goTypeOf(x ast.Expr) (gty, error) {
	switch t := x.(type) {
	case *ast.Ident:
		switch t.Name {
		case "int", "int64", "uint", "uint64", "Level", "Q":
			return tyZ, nil
		case "bool":
			return tyBool, nil
		}
	case *ast.SelectorExpr:
		switch t.Sel.Name {
		case "Point":
			return tyPt, nil
		case "Extent":
			return tyExtent, nil
		case "M", "Z":
			return tyZ, nil
		case "Line":
			return tyTuple, nil
		}
	case *ast.StarExpr:
		if id, ok := t.X.(*ast.Ident); ok && id.Name == "PointIndex" {
			return tyIx, nil
		}
	}
	return 0, fmt.Errorf("unsupported type %T", x)
}

var g2Accessors = map[string]string{"MinX": "gx_minx", "MinY": "gx_miny", "MaxX": "gx_maxx", "MaxY": "gx_maxy", "XSpan": "gx_xspan", "YSpan": "gx_yspan"}

func (g *g2) expr(env *g2env, x ast.Expr) (string, gty, error) {
	switch x := x.(type) {
	case *ast.ParenExpr:
		return g.expr(env, x.X)
	case *ast.BasicLit:
		if x.Kind != token.INT {
			return "", 0, fmt.Errorf("unsupported literal %s", x.Value)
		}
		z, err := parseIntLit(x.Value)
		if err != nil {
			return "", 0, err
		}
		return z.String(), tyZ, nil
	case *ast.Ident:
		switch x.Name {
		case "true", "false":
			return x.Name, tyBool, nil
		}
		if t, ok := env.vars[x.Name]; ok {
			return "v_" + x.Name, t, nil
		}
		if c, ok := g.consts[x.Name]; ok {
			return c, tyZ, nil
		}
		return "", 0, fmt.Errorf("unknown identifier %s", x.Name)
	case *ast.UnaryExpr:
		s, t, err := g.expr(env, x.X)
		if err != nil {
			return "", 0, err
		}
		switch x.Op {
		case token.NOT:
			return "(negb " + s + ")", tyBool, nil
		case token.SUB:
			return "(- " + s + ")", t, nil
		}
		return "", 0, fmt.Errorf("unsupported unary %s", x.Op)
	case *ast.BinaryExpr:
		a, ta, err := g.expr(env, x.X)
		if err != nil {
			return "", 0, err
		}
		b, _, err := g.expr(env, x.Y)
		if err != nil {
			return "", 0, err
		}
		bin := func(op string, t gty) (string, gty, error) { return "(" + a + " " + op + " " + b + ")", t, nil }
		fn := func(f string, t gty) (string, gty, error) { return "(" + f + " " + a + " " + b + ")", t, nil }
		switch x.Op {
		case token.ADD:
			return bin("+", tyZ)
		case token.SUB:
			return bin("-", tyZ)
		case token.MUL:
			return bin("*", tyZ)
		case token.QUO:
			return fn("Z.quot", tyZ)
		case token.REM:
			return fn("Z.rem", tyZ)
		case token.SHL:
			return fn("Z.shiftl", tyZ)
		case token.SHR:
			return fn("Z.shiftr", tyZ)
		case token.AND:
			return fn("Z.land", tyZ)
		case token.OR:
			return fn("Z.lor", tyZ)
		case token.XOR:
			return fn("Z.lxor", tyZ)
		case token.LSS:
			return bin("<?", tyBool)
		case token.LEQ:
			return bin("<=?", tyBool)
		case token.GTR:
			return "(" + b + " <? " + a + ")", tyBool, nil
		case token.GEQ:
			return "(" + b + " <=? " + a + ")", tyBool, nil
		case token.EQL:
			if ta == tyBool {
				return fn("Bool.eqb", tyBool)
			}
			return bin("=?", tyBool)
		case token.NEQ:
			if ta == tyBool {
				return "(negb (Bool.eqb " + a + " " + b + "))", tyBool, nil
			}
			return "(negb (" + a + " =? " + b + "))", tyBool, nil
		case token.LAND:
			return bin("&&", tyBool)
		case token.LOR:
			return bin("||", tyBool)
		}
		return "", 0, fmt.Errorf("unsupported operator %s", x.Op)
	case *ast.IndexExpr:
		s, t, err := g.expr(env, x.X)
		if err != nil {
			return "", 0, err
		}
		lit, ok := x.Index.(*ast.BasicLit)
		if !ok {
			if id, isID := x.Index.(*ast.Ident); isID {
				if c, isC := g.consts[id.Name]; isC {
					lit = &ast.BasicLit{Kind: token.INT, Value: c}
					ok = true
				}
			}
		}
		if !ok {
			return "", 0, fmt.Errorf("non-constant index")
		}
		switch {
		case t == tyPt && lit.Value == "0":
			return "(fst " + s + ")", tyZ, nil
		case t == tyPt && lit.Value == "1":
			return "(snd " + s + ")", tyZ, nil
		case t == tyTuple && lit.Value == "0":
			return "(fst " + s + ")", tyPt, nil
		case t == tyTuple && lit.Value == "1":
			return "(snd " + s + ")", tyPt, nil
		}
		return "", 0, fmt.Errorf("unsupported index expression")
	case *ast.SelectorExpr:
		if id, ok := x.X.(*ast.Ident); ok {
			if t, isVar := env.vars[id.Name]; isVar && t == tyIx {
				return "(ix_" + x.Sel.Name + " v_" + id.Name + ")", ixFieldType(x.Sel.Name), nil
			}
			if t, isVar := env.vars[id.Name]; isVar && t == tyTuple { // parent.intExtent etc.
				return "(q_" + x.Sel.Name + " v_" + id.Name + ")", quadFieldType(x.Sel.Name), nil
			}
			if c, ok := g.consts[id.Name+"."+x.Sel.Name]; ok {
				return c, tyZ, nil
			}
		}
		return "", 0, fmt.Errorf("unsupported selector %s", x.Sel.Name)
	case *ast.CallExpr:
		return g.call(env, x)
	case *ast.CompositeLit:
		return g.composite(env, x)
	}
	return "", 0, fmt.Errorf("unsupported expression %T", x)
}

func ixFieldType(f string) gty {
	if f == "intExtent" {
		return tyExtent
	}
	return tyZ
}

func quadFieldType(f string) gty {
	switch f {
	case "intExtent":
		return tyExtent
	case "intCentroid":
		return tyPt
	}
	return tyZ
}

func (g *g2) composite(env *g2env, x *ast.CompositeLit) (string, gty, error) {
	elts := func() ([]string, error) {
		var out []string
		for _, e := range x.Elts {
			s, _, err := g.expr(env, e)
			if err != nil {
				return nil, err
			}
			out = append(out, s)
		}
		return out, nil
	}
	switch t := x.Type.(type) {
	case *ast.SelectorExpr:
		es, err := elts()
		if err != nil {
			return "", 0, err
		}
		if t.Sel.Name == "Extent" && len(es) == 4 {
			return "(" + strings.Join(es, ", ") + ")", tyExtent, nil
		}
		if t.Sel.Name == "Point" && len(es) == 2 {
			return "(" + strings.Join(es, ", ") + ")", tyPt, nil
		}
	case *ast.ArrayType:
		if id, ok := t.Elt.(*ast.Ident); ok && id.Name == "quadrantToCheck" {
			var items []string
			for _, e := range x.Elts {
				cl, ok := e.(*ast.CompositeLit)
				if !ok || len(cl.Elts) != 3 {
					return "", 0, fmt.Errorf("unsupported quadrantToCheck literal")
				}
				var parts []string
				for _, f := range cl.Elts {
					s, _, err := g.expr(env, f)
					if err != nil {
						return "", 0, err
					}
					parts = append(parts, s)
				}
				items = append(items, "("+strings.Join(parts, ", ")+")")
			}
			return "[" + strings.Join(items, "; ") + "]", tyQtcList, nil
		}
	}
	return "", 0, fmt.Errorf("unsupported composite literal")
}

func (g *g2) call(env *g2env, x *ast.CallExpr) (string, gty, error) {
	args := func() ([]string, []gty, error) {
		var ss []string
		var ts []gty
		for _, a := range x.Args {
			s, t, err := g.expr(env, a)
			if err != nil {
				return nil, nil, err
			}
			ss = append(ss, s)
			ts = append(ts, t)
		}
		return ss, ts, nil
	}
	switch f := x.Fun.(type) {
	case *ast.Ident:
		switch f.Name {
		case "int", "int64", "uint", "uint64":
			ss, _, err := args()
			if err != nil || len(ss) != 1 {
				return "", 0, fmt.Errorf("bad conversion")
			}
			return ss[0], tyZ, nil
		}
		if fd, ok := g.funcs[f.Name]; ok {
			ss, _, err := args()
			if err != nil {
				return "", 0, err
			}
			rt, err := g.retType(fd)
			if err != nil {
				return "", 0, err
			}
			return "(gen_" + f.Name + " " + strings.Join(ss, " ") + ")", rt, nil
		}
	case *ast.SelectorExpr:
		if pkg, ok := f.X.(*ast.Ident); ok && pkg.Name == "mathhelp" {
			ss, _, err := args()
			if err != nil {
				return "", 0, err
			}
			switch f.Sel.Name {
			case "Bool2int":
				return "(gen_Bool2int " + ss[0] + ")", tyZ, nil
			case "Pow2":
				return "(gen_Pow2 " + ss[0] + ")", tyZ, nil
			case "IBetweenInc":
				return "(gen_IBetweenInc " + strings.Join(ss, " ") + ")", tyBool, nil
			}
		}
		// method call on a value
		recv, rt, err := g.expr(env, f.X)
		if err == nil && len(x.Args) == 0 {
			if acc, ok := g2Accessors[f.Sel.Name]; ok && rt == tyExtent {
				return "(" + acc + " " + recv + ")", tyZ, nil
			}
			if rt == tyPt && f.Sel.Name == "X" {
				return "(fst " + recv + ")", tyZ, nil
			}
			if rt == tyPt && f.Sel.Name == "Y" {
				return "(snd " + recv + ")", tyZ, nil
			}
		}
	}
	return "", 0, fmt.Errorf("unsupported call %s", exprString(x.Fun))
}

func exprString(x ast.Expr) string {
	switch t := x.(type) {
	case *ast.Ident:
		return t.Name
	case *ast.SelectorExpr:
		return exprString(t.X) + "." + t.Sel.Name
	}
	return fmt.Sprintf("%T", x)
}

func (g *g2) retType(fd *ast.FuncDecl) (gty, error) {
	if fd.Type.Results == nil || len(fd.Type.Results.List) == 0 {
		return 0, fmt.Errorf("%s returns nothing", fd.Name.Name)
	}
	if len(fd.Type.Results.List) > 1 || len(fd.Type.Results.List[0].Names) > 1 {
		return tyTuple, nil
	}
	return goTypeOf(fd.Type.Results.List[0].Type)
}

// assigned collects the names assigned (=, op=, ++, --) in a statement list, excluding fresh := declarations.
func assigned(stmts []ast.Stmt, acc map[string]bool) {
	for _, s := range stmts {
		switch s := s.(type) {
		case *ast.AssignStmt:
			if s.Tok != token.DEFINE {
				for _, l := range s.Lhs {
					if id, ok := l.(*ast.Ident); ok {
						acc[id.Name] = true
					}
				}
			}
		case *ast.IncDecStmt:
			if id, ok := s.X.(*ast.Ident); ok {
				acc[id.Name] = true
			}
		case *ast.IfStmt:
			assigned(s.Body.List, acc)
			if s.Else != nil {
				switch e := s.Else.(type) {
				case *ast.BlockStmt:
					assigned(e.List, acc)
				case *ast.IfStmt:
					assigned([]ast.Stmt{e}, acc)
				}
			}
		case *ast.SwitchStmt:
			for _, c := range s.Body.List {
				assigned(c.(*ast.CaseClause).Body, acc)
			}
		case *ast.BlockStmt:
			assigned(s.List, acc)
		}
	}
}

func endsWithReturn(stmts []ast.Stmt) bool {
	if len(stmts) == 0 {
		return false
	}
	switch s := stmts[len(stmts)-1].(type) {
	case *ast.ReturnStmt:
		return true
	case *ast.IfStmt:
		if s.Else == nil {
			return false
		}
		var eb []ast.Stmt
		switch e := s.Else.(type) {
		case *ast.BlockStmt:
			eb = e.List
		case *ast.IfStmt:
			eb = []ast.Stmt{e}
		}
		return endsWithReturn(s.Body.List) && endsWithReturn(eb)
	case *ast.SwitchStmt:
		hasDefault := false
		for _, c := range s.Body.List {
			cc := c.(*ast.CaseClause)
			if cc.List == nil {
				hasDefault = true
			}
			if !endsWithReturn(cc.Body) {
				return false
			}
		}
		return hasDefault
	}
	return false
}

// stmts translates a statement list into a Gallina term; `tail` is the term to use when the list falls off its
// end (the values of the variables a join needs), "" when falling off is an error.
func (g *g2) stmts(env *g2env, list []ast.Stmt, tail string, stopAt func(ast.Stmt) bool) (string, error) {
	if len(list) == 0 {
		if tail == "" {
			return "", fmt.Errorf("control reaches the end of a function without return")
		}
		return tail, nil
	}
	s, rest := list[0], list[1:]
	if stopAt != nil && stopAt(s) {
		if tail == "" {
			return "", fmt.Errorf("cut point without result")
		}
		return tail, nil
	}
	switch s := s.(type) {
	case *ast.ReturnStmt:
		var parts []string
		for _, r := range s.Results {
			e, _, err := g.expr(env, r)
			if err != nil {
				return "", err
			}
			parts = append(parts, e)
		}
		if len(parts) == 1 {
			return parts[0], nil
		}
		return "(" + strings.Join(parts, ", ") + ")", nil
	case *ast.DeclStmt:
		gd, ok := s.Decl.(*ast.GenDecl)
		if !ok || gd.Tok != token.VAR {
			return "", fmt.Errorf("unsupported declaration")
		}
		env2 := env.clone()
		var lets string
		for _, sp := range gd.Specs {
			vs := sp.(*ast.ValueSpec)
			var t gty = tyQtcList
			if vs.Type != nil {
				if at, ok := vs.Type.(*ast.ArrayType); ok {
					if id, ok := at.Elt.(*ast.Ident); !ok || id.Name != "quadrantToCheck" {
						return "", fmt.Errorf("unsupported var type")
					}
				} else {
					var err error
					t, err = goTypeOf(vs.Type)
					if err != nil {
						return "", err
					}
				}
			}
			for _, n := range vs.Names {
				env2.vars[n.Name] = t
				zero := map[gty]string{tyZ: "0", tyBool: "false", tyQtcList: "(@nil (Z * bool * bool))"}[t]
				lets += fmt.Sprintf("let v_%s := %s in\n  ", n.Name, zero)
			}
		}
		k, err := g.stmts(env2, rest, tail, stopAt)
		return lets + k, err
	case *ast.AssignStmt:
		if len(s.Lhs) != len(s.Rhs) {
			return "", fmt.Errorf("unsupported multi-assignment")
		}
		env2 := env.clone()
		var lets string
		for i := range s.Lhs {
			id, ok := s.Lhs[i].(*ast.Ident)
			if !ok {
				return "", fmt.Errorf("unsupported assignment target")
			}
			rhs := s.Rhs[i]
			switch s.Tok {
			case token.DEFINE, token.ASSIGN:
			default:
				// x op= y is x = x op (y)
				binop, ok := map[token.Token]token.Token{token.ADD_ASSIGN: token.ADD, token.SUB_ASSIGN: token.SUB, token.MUL_ASSIGN: token.MUL,
					token.OR_ASSIGN: token.OR, token.AND_ASSIGN: token.AND, token.XOR_ASSIGN: token.XOR,
					token.SHL_ASSIGN: token.SHL, token.SHR_ASSIGN: token.SHR, token.QUO_ASSIGN: token.QUO, token.REM_ASSIGN: token.REM}[s.Tok]
				if !ok || len(s.Lhs) != 1 {
					return "", fmt.Errorf("unsupported assignment operator %s", s.Tok)
				}
				rhs = &ast.BinaryExpr{X: s.Lhs[i], Op: binop, Y: &ast.ParenExpr{X: rhs}}
			}
			e, t, err := g.expr(env, rhs)
			if err != nil {
				return "", err
			}
			if id.Name == "_" {
				continue
			}
			env2.vars[id.Name] = t
			lets += fmt.Sprintf("let v_%s := %s in\n  ", id.Name, e)
		}
		k, err := g.stmts(env2, rest, tail, stopAt)
		return lets + k, err
	case *ast.IncDecStmt:
		id, ok := s.X.(*ast.Ident)
		if !ok {
			return "", fmt.Errorf("unsupported inc/dec")
		}
		op := "+"
		if s.Tok == token.DEC {
			op = "-"
		}
		k, err := g.stmts(env, rest, tail, stopAt)
		return fmt.Sprintf("let v_%s := v_%s %s 1 in\n  %s", id.Name, id.Name, op, k), err
	case *ast.IfStmt:
		if s.Init != nil {
			return "", fmt.Errorf("unsupported if with init")
		}
		var elseList []ast.Stmt
		if s.Else != nil {
			switch e := s.Else.(type) {
			case *ast.BlockStmt:
				elseList = e.List
			case *ast.IfStmt:
				elseList = []ast.Stmt{e}
			}
		}
		return g.branch(env, []ast.Expr{s.Cond}, [][]ast.Stmt{s.Body.List}, elseList, rest, tail, stopAt)
	case *ast.SwitchStmt:
		if s.Tag != nil || s.Init != nil {
			return "", fmt.Errorf("unsupported switch with tag")
		}
		var conds []ast.Expr
		var bodies [][]ast.Stmt
		var def []ast.Stmt
		for _, c := range s.Body.List {
			cc := c.(*ast.CaseClause)
			if cc.List == nil {
				def = cc.Body
				continue
			}
			if len(cc.List) != 1 {
				return "", fmt.Errorf("unsupported case list")
			}
			conds = append(conds, cc.List[0])
			bodies = append(bodies, cc.Body)
		}
		return g.branch(env, conds, bodies, def, rest, tail, stopAt)
	}
	return "", fmt.Errorf("unsupported statement %T", s)
}

// branch: if c1 {b1} else if c2 {b2} ... else {def}; rest
// Every branch is continued with the statements that follow (the continuation is duplicated; the
// functions translated are small), so no join of assigned variables is needed.
func (g *g2) branch(env *g2env, conds []ast.Expr, bodies [][]ast.Stmt, def []ast.Stmt, rest []ast.Stmt, tail string, stopAt func(ast.Stmt) bool) (string, error) {
	k := func(body []ast.Stmt) (string, error) {
		if endsWithReturn(body) {
			return g.stmts(env, body, "", stopAt)
		}
		return g.stmts(env, append(append([]ast.Stmt{}, body...), rest...), tail, stopAt)
	}
	var sb strings.Builder
	for i, c := range conds {
		ce, _, err := g.expr(env, c)
		if err != nil {
			return "", err
		}
		be, err := k(bodies[i])
		if err != nil {
			return "", err
		}
		fmt.Fprintf(&sb, "if %s then (%s) else ", ce, be)
	}
	de, err := k(def)
	if err != nil {
		return "", err
	}
	fmt.Fprintf(&sb, "(%s)", de)
	return sb.String(), nil
}

type g2spec struct {
	name   string
	cutVar string // translate up to the first statement that assigns `found`, and return this variable
}

func (g *g2) function(spec g2spec) error {
	fd, ok := g.funcs[spec.name]
	if !ok {
		return fmt.Errorf("function %s not found", spec.name)
	}
	env := &g2env{vars: map[string]gty{}}
	var params []string
	if fd.Recv != nil {
		for _, f := range fd.Recv.List {
			for _, n := range f.Names {
				env.vars[n.Name] = tyIx
				params = append(params, fmt.Sprintf("(v_%s : gen_ix)", n.Name))
			}
		}
	}
	coqTy := map[gty]string{tyZ: "Z", tyBool: "bool", tyPt: "(Z * Z)", tyExtent: "gen_extent", tyIx: "gen_ix", tyTuple: "((Z * Z) * (Z * Z))"}
	for _, f := range fd.Type.Params.List {
		t, err := goTypeOf(f.Type)
		if err != nil {
			if id, ok := f.Type.(*ast.Ident); ok && id.Name == "Quadrant" {
				t = tyTuple
				for _, n := range f.Names {
					env.vars[n.Name] = t
					params = append(params, fmt.Sprintf("(v_%s : gen_quad)", n.Name))
				}
				continue
			}
			if _, isMap := f.Type.(*ast.MapType); isMap && spec.cutVar != "" {
				continue // the map of quadrants is only used after the cut
			}
			return fmt.Errorf("%s: parameter: %v", spec.name, err)
		}
		for _, n := range f.Names {
			env.vars[n.Name] = t
			params = append(params, fmt.Sprintf("(v_%s : %s)", n.Name, coqTy[t]))
		}
	}
	var stop func(ast.Stmt) bool
	tail := ""
	if spec.cutVar != "" {
		tail = "v_" + spec.cutVar
		stop = func(s ast.Stmt) bool {
			as, ok := s.(*ast.AssignStmt)
			if !ok || len(as.Lhs) != 1 {
				return false
			}
			id, ok := as.Lhs[0].(*ast.Ident)
			return ok && id.Name == "found"
		}
	}
	body, err := g.stmts(env, fd.Body.List, tail, stop)
	if err != nil {
		return fmt.Errorf("%s: %v", spec.name, err)
	}
	fmt.Fprintf(&g.out, "(* %s:%d func %s *)\nDefinition gen_%s %s :=\n  %s.\n\n", filepath.Base(g.fset.Position(fd.Pos()).Filename), g.fset.Position(fd.Pos()).Line, spec.name, spec.name, strings.Join(params, " "), body)
	return nil
}

func genPointIndex(repo string) (string, error) {
	g := &g2{fset: token.NewFileSet(), funcs: map[string]*ast.FuncDecl{}, consts: map[string]string{}}
	for _, rel := range []string{"pointindex/pointindex.go", "mathhelp/mathhelp.go"} {
		f, err := parser.ParseFile(g.fset, filepath.Join(repo, rel), nil, 0)
		if err != nil {
			return "", err
		}
		for _, d := range f.Decls {
			switch d := d.(type) {
			case *ast.FuncDecl:
				g.funcs[d.Name.Name] = d
			case *ast.GenDecl:
				if d.Tok != token.CONST {
					continue
				}
				for _, sp := range d.Specs {
					vs := sp.(*ast.ValueSpec)
					for i, n := range vs.Names {
						if i < len(vs.Values) {
							if bl, ok := vs.Values[i].(*ast.BasicLit); ok && bl.Kind == token.INT {
								if z, err := parseIntLit(bl.Value); err == nil {
									g.consts[n.Name] = z.String()
								}
							}
						}
					}
				}
			}
		}
	}
	g.out.WriteString("(* GENERATED by /verif/translator (G2) from pointindex/pointindex.go and mathhelp/mathhelp.go on every run -- do not edit. *)\n")
	g.out.WriteString("From Coq Require Import ZArith List Bool.\nImport ListNotations.\nOpen Scope Z_scope.\n\n")
	g.out.WriteString("Definition gen_extent := (Z * Z * Z * Z)%type.\n")
	g.out.WriteString("Definition gx_minx (e : gen_extent) : Z := let '(a, _, _, _) := e in a.\nDefinition gx_miny (e : gen_extent) : Z := let '(_, b, _, _) := e in b.\n")
	g.out.WriteString("Definition gx_maxx (e : gen_extent) : Z := let '(_, _, c, _) := e in c.\nDefinition gx_maxy (e : gen_extent) : Z := let '(_, _, _, d) := e in d.\n")
	g.out.WriteString("Definition gx_xspan (e : gen_extent) : Z := gx_maxx e - gx_minx e.\nDefinition gx_yspan (e : gen_extent) : Z := gx_maxy e - gx_miny e.\n")
	g.out.WriteString("Record gen_ix := mk_gen_ix { ix_intExtent : gen_extent; ix_deepestLevel : Z; ix_deepestSize : Z; ix_deepestRes : Z }.\n")
	g.out.WriteString("Record gen_quad := mk_gen_quad { q_z : Z; q_intExtent : gen_extent; q_intCentroid : Z * Z }.\n\n")
	for _, c := range []string{"xAx", "yAx", "right", "top", "VectorTileInternalPixelResolution"} {
		v, ok := g.consts[c]
		if !ok {
			return "", fmt.Errorf("constant %s not found", c)
		}
		fmt.Fprintf(&g.out, "Definition gen_const_%s : Z := %s.\n", c, v)
	}
	g.out.WriteString("\n")
	for _, spec := range []g2spec{
		{name: "Bool2int"}, {name: "Pow2"}, {name: "IBetweenInc"},
		{name: "floorDiv"}, {name: "containsPoint"}, {name: "getInfiniteQuadrant"},
		{name: "quadrantsAreAdjacent"}, {name: "adjacentQuadrantX"}, {name: "adjacentQuadrantY"},
		{name: "oneIfRight"}, {name: "oneIfTop"},
		{name: "getQuadrantExtentAndCentroid"},
		{name: "findIntersectingQuadrants", cutVar: "quadrantsToCheck"},
	} {
		if spec.name == "Pow2" {
			// 1 << n
			fd, ok := g.funcs["Pow2"]
			if !ok {
				return "", fmt.Errorf("Pow2 not found")
			}
			_ = fd
		}
		if err := g.function(spec); err != nil {
			return "", err
		}
	}
	// FromTileMatrixSet: the expression of the deepest resolution
	if err := g.deepestRes(); err != nil {
		return "", err
	}
	// InsertPoint / InsertCoord: the coordinate expressions and the range test
	if err := g.insertParts(); err != nil {
		return "", err
	}
	return g.out.String(), nil
}

// insertParts extracts (a) the two floorDiv arguments of InsertPoint and (b) the condition of InsertCoord's range test.
func (g *g2) insertParts() error {
	ip, ok := g.funcs["InsertPoint"]
	if !ok {
		return fmt.Errorf("InsertPoint not found")
	}
	env := &g2env{vars: map[string]gty{"ix": tyIx, "intPoint": tyPt}}
	var xs []string
	for _, s := range ip.Body.List {
		as, ok := s.(*ast.AssignStmt)
		if !ok || len(as.Lhs) != 1 {
			continue
		}
		id, _ := as.Lhs[0].(*ast.Ident)
		if id == nil || (id.Name != "deepestX" && id.Name != "deepestY") {
			continue
		}
		e, _, err := g.expr(env, as.Rhs[0])
		if err != nil {
			return fmt.Errorf("InsertPoint: %v", err)
		}
		xs = append(xs, e)
	}
	if len(xs) != 2 {
		return fmt.Errorf("InsertPoint: expected deepestX and deepestY assignments")
	}
	fmt.Fprintf(&g.out, "(* InsertPoint: the deepest pixel address of an integer point *)\nDefinition gen_InsertPoint_coord (v_ix : gen_ix) (v_intPoint : Z * Z) : Z * Z :=\n  (%s, %s).\n\n", xs[0], xs[1])
	ic, ok := g.funcs["InsertCoord"]
	if !ok {
		return fmt.Errorf("InsertCoord not found")
	}
	env = &g2env{vars: map[string]gty{"ix": tyIx, "deepestX": tyZ, "deepestY": tyZ}}
	for _, s := range ic.Body.List {
		if is, ok := s.(*ast.IfStmt); ok {
			c, _, err := g.expr(env, is.Cond)
			if err != nil {
				return fmt.Errorf("InsertCoord: %v", err)
			}
			if !endsWithReturn(is.Body.List) {
				return fmt.Errorf("InsertCoord: the range test does not return")
			}
			fmt.Fprintf(&g.out, "(* InsertCoord: true = OutsideGridError *)\nDefinition gen_InsertCoord_outside (v_ix : gen_ix) (v_deepestX v_deepestY : Z) : bool :=\n  %s.\n\n", c)
			return nil
		}
	}
	return fmt.Errorf("InsertCoord: range test not found")
}

// deepestRes extracts `deepestRes: <expr>` from the PointIndex literal in FromTileMatrixSet.
func (g *g2) deepestRes() error {
	fd, ok := g.funcs["FromTileMatrixSet"]
	if !ok {
		return fmt.Errorf("FromTileMatrixSet not found")
	}
	env := &g2env{vars: map[string]gty{"intExtent": tyExtent, "deepestSize": tyZ, "deepestLevel": tyZ}}
	var found string
	var ferr error
	ast.Inspect(fd, func(n ast.Node) bool {
		kv, ok := n.(*ast.KeyValueExpr)
		if !ok {
			return true
		}
		if id, ok := kv.Key.(*ast.Ident); ok && id.Name == "deepestRes" {
			e, _, err := g.expr(env, kv.Value)
			if err != nil {
				ferr = err
			}
			found = e
		}
		return true
	})
	if ferr != nil {
		return fmt.Errorf("FromTileMatrixSet deepestRes: %v", ferr)
	}
	if found == "" {
		return fmt.Errorf("FromTileMatrixSet: deepestRes not found")
	}
	fmt.Fprintf(&g.out, "(* FromTileMatrixSet: deepestRes *)\nDefinition gen_deepestRes (v_intExtent : gen_extent) (v_deepestSize : Z) : Z :=\n  %s.\n\n", found)
	return nil
}
