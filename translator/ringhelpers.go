package main

import (
	"fmt"
	"go/ast"
	"go/parser"
	"go/token"
	"go/types"
	"path/filepath"
	"sort"
	"strings"
)

// ---------------------------------------------------------------------------
// G2: the small ring helpers of snap.go and mapslicehelp.go -> gen/RingHelpersGen.v
//
//   snap.go          ringsAreEqual, ringContains, outersToPolygons, reverseWindingOrderIfConfigured,
//                    sortPolyIdxsByOuterAreaDesc
//   mapslicehelp.go  FindLastKeyWithMaxValue, LastMatch, DeleteFromSliceByIndex, OrderedMapKeys, CountVals,
//                    LastElement, ReverseClone   (generic: instantiated at the types of their call sites in snap.go)
//
// Same machinery as kmp.go / kmpdedup.go (error monad, one Fixpoint on fuel per `for` loop, range_loop), plus, behind
// the flag sg.rh (hooks rh* below):
//   x % y                                   do t <- go_rem x y        (Err DivZero; truncating Z.rem)
//   for i := range s {}                     range_loop over zseq (length s)
//   if _, ok := m[k]; ok {}                 on a map[int]X that is only read: mem_Z k m (m = the list of its keys)
//   return a, b / named results / `return`  pairs and triples; named results start as zero values
//   a, b := f(..)                           only for geomhelp.RayIntersect (see below)
//   t[i] = v on [][2]float64, [][][][2]float64 locals created by make;  make([]T, 0, n);  make(S, l) with l := len(s)
//   &s[i]  (only read through)              Some s[i];   s == nil on a slice: is_nil s (nil and empty are both [])
//   shadowing `:=` in an inner block        the inner variable is renamed (x_2) before translation
//   uint                                    exact Z, as int (counts far below 2^64)
// and, kept as the MODEL's function of the same meaning after checking the AST for the exact call shape (each of these
// is listed again at the top of the generated file; they are part of the trusted base):
//   geomhelp.RayIntersect(p, a, b)  (float code)                  -> rayIntersect p a b      (Snap/Model.v)
//   geomhelp.Shoelace(r)  (float code), the literal 0.0           -> absArea2 r, 0           (twice the exact area)
//   sortedmap.New[int, float64](n, func(i, j float64) bool { return i > j }) -> [] ; A.Insert(i, v) with i the index
//       of the enclosing range loop -> area_place A i v ; A.Keys() -> map fst A
//   *orderedmap.OrderedMap[K, V] = the insertion-ordered association list; for p := m.Newest(); p != nil; p = p.Prev()
//       -> range_loop over rev m ; for p := m.Oldest(); p != nil; p = p.Next() -> range_loop over m ;
//       p.Key, p.Value -> fst p, snd p ; m.Len() -> zlen m
//   slices.Index(s, v) -> slices_index pt_eqb s v (first index or -1) ; slices.Contains(s, v) on []int -> mem_Z v s
//   slices.Reverse(p[i][j]) on the written parameter -> p[i][j] replaced by its reverse (value semantics: the rings of a
//       polygon list do not share backing arrays)
//   config.ReverseWindingOrder -> reverseWindingOrder config (the struct Config is checked field by field)
// ---------------------------------------------------------------------------

const (
	stPolys   = "polys"    // [][][][2]float64
	stBB      = "boolpair" // two bool results
	stZZZ     = "zzz"      // three integer results
	stOMapZZ  = "omapzz"   // *orderedmap.OrderedMap[int, uint]: insertion-ordered association list
	stOMapZB  = "omapzb"   // *orderedmap.OrderedMap[int, bool]
	stOPairZZ = "opairzz"  // *orderedmap.Pair[int, uint], only usable as p.Key / p.Value
	stOPairZB = "opairzb"
	stKeySet  = "keyset" // map[int]X that is only read through the comma-ok form: the list of its keys
	stConfig  = "config" // snap.Config
	stAMap    = "amap"   // *sortedmap.SortedMap[int, float64] ordered by i > j: the micro-model of Snap/Model.v (area_place)
)

func init() {
	for k, v := range map[string]string{stPolys: "(list (list (list pt)))", stBB: "(bool * bool)%type", stZZZ: "(Z * Z * Z)%type",
		stOMapZZ: "(list (Z * Z))", stOMapZB: "(list (Z * bool))", stOPairZZ: "(Z * Z)%type", stOPairZB: "(Z * bool)%type",
		stKeySet: "(list Z)", stConfig: "config", stAMap: "(list (Z * Z))"} {
		sgCoq[k] = v
	}
	// fuel of the `for` loops (one more than the number of iterations: the last round only evaluates the condition)
	sgFuel["ringsAreEqual"] = []string{"(S (length v_ringI))"}
	sgFuel["ringContains"] = []string{"(S (length v_ring))"}
	sgFuel["outersToPolygons"] = []string{"(S (length v_outers))"}
	sgFuel["LastMatch"] = []string{"(S (length v_haystack))"}
	sgFuel["ReverseClone"] = []string{"(S (length v_s))"}
}

const (
	rhGeomhelpPath   = "github.com/pdok/texel/geomhelp"
	rhOrderedmapPath = "github.com/wk8/go-ordered-map/v2"
	rhSortedmapPath  = "github.com/tobshub/go-sortedmap"
)

// the zero value of an element of a slice type, as a Coq term
var rhZero = map[string]string{stInts: "0", stPts: "((0, 0) : pt)", stRings: "(@nil pt)", stPolys: "(@nil (list pt))"}
var rhNil = map[string]string{stInts: "(@nil Z)", stPts: "(@nil pt)", stRings: "(@nil (list pt))", stPolys: "(@nil (list (list pt)))"}

// the fields of snap.Config and the projections of the model's record [config]
var rhConfigFields = []lfield{{"KeepPointsAndLines", "keepPointsAndLines"}, {"IgnoreOutsideGrid", "ignoreOutsideGrid"}, {"ReverseWindingOrder", "reverseWindingOrder"}}

func (g *sg) rhShadowed(env *sgEnv, pkg string) bool { _, s := env.vars[pkg]; return s }

// rhType: the types of the ring helpers (called first by goType when g.rh).
func (g *sg) rhType(x ast.Expr) (string, bool) {
	switch types.ExprString(x) {
	case "[][][][2]float64":
		return stPolys, true
	case "uint":
		return stInt, true
	case "Config":
		if g.rhConfigOK {
			return stConfig, true
		}
		return "", false
	case "*orderedmap.OrderedMap[K, V]":
		if g.pkgs["orderedmap"] != rhOrderedmapPath || g.generic["K"] != stInt {
			return "", false
		}
		switch g.generic["V"] {
		case stInt:
			return stOMapZZ, true
		case stBool:
			return stOMapZB, true
		}
		return "", false
	}
	switch x := x.(type) {
	case *ast.Ident:
		if t, ok := g.generic[x.Name]; ok {
			return t, true
		}
	case *ast.ArrayType:
		if id, ok := x.Elt.(*ast.Ident); ok && x.Len == nil {
			switch g.generic[id.Name] {
			case stInt:
				return stInts, true
			case stPt:
				return stPts, true
			case stPts:
				return stRings, true
			}
		}
	case *ast.StarExpr:
		if id, ok := x.X.(*ast.Ident); ok && g.generic[id.Name] == stPt {
			return stPtPtr, true
		}
	case *ast.MapType:
		// map[int]X: only the comma-ok read is supported, so the value type does not matter
		if k, ok := x.Key.(*ast.Ident); ok && k.Name == "int" {
			if _, shadow := g.generic["int"]; !shadow {
				return stKeySet, true
			}
		}
	}
	return "", false
}

// rhSignature: parameters and results of a ring helper.
func (g *sg) rhSignature(fd *ast.FuncDecl) (*sgSig, error) {
	sig := &sgSig{name: fd.Name.Name, mutated: -1}
	if fd.Recv != nil {
		return nil, fmt.Errorf("methods are not supported")
	}
	for _, f := range fd.Type.Params.List {
		t, err := g.goType(f.Type)
		if err != nil {
			return nil, err
		}
		if len(f.Names) == 0 {
			return nil, fmt.Errorf("unnamed parameter")
		}
		for _, n := range f.Names {
			sig.params = append(sig.params, lfield{n.Name, t})
		}
	}
	asg := map[string]bool{}
	sgAssigned(fd.Body.List, asg)
	if fd.Type.Results == nil || len(fd.Type.Results.List) == 0 {
		// a function without result: it writes through exactly one [][][][2]float64 parameter (slices.Reverse(p[i][j]))
		for i, p := range sig.params {
			if !asg[p.name] {
				continue
			}
			if p.ty != stPolys || sig.mutated >= 0 || rhPlainlyAssigned(fd.Body, p.name) {
				return nil, fmt.Errorf("unsupported use of the parameter %s", p.name)
			}
			sig.mutated = i
		}
		if sig.mutated < 0 {
			return nil, fmt.Errorf("function without result and without a written slice parameter")
		}
		sig.retTy = sig.params[sig.mutated].ty
		return sig, nil
	}
	for _, p := range sig.params { // a function with results only reads its parameters
		if asg[p.name] || asg["call:"+p.name] {
			return nil, fmt.Errorf("the parameter %s is assigned or written through", p.name)
		}
	}
	var tys []string
	var named []lfield
	for _, f := range fd.Type.Results.List {
		t, err := g.goType(f.Type)
		if err != nil {
			return nil, err
		}
		if len(f.Names) == 0 {
			tys = append(tys, t)
		}
		for _, n := range f.Names {
			tys = append(tys, t)
			named = append(named, lfield{n.Name, t})
		}
	}
	switch {
	case len(tys) == 1:
		sig.result = tys[0]
	case len(tys) == 2 && tys[0] == stBool && tys[1] == stBool:
		sig.result = stBB
	case len(tys) == 3 && tys[0] == stInt && tys[1] == stInt && tys[2] == stInt:
		sig.result = stZZZ
	default:
		return nil, fmt.Errorf("unsupported result list")
	}
	sig.retTy = sig.result
	if len(named) > 0 {
		if len(named) != len(tys) {
			return nil, fmt.Errorf("unsupported result list")
		}
		// named results are variables (zero at the start) when the body mentions them or returns without operands
		names := map[string]bool{}
		for _, n := range named {
			names[n.name] = true
		}
		used := false
		ast.Inspect(fd.Body, func(n ast.Node) bool {
			switch n := n.(type) {
			case *ast.Ident:
				if names[n.Name] {
					used = true
				}
			case *ast.ReturnStmt:
				if len(n.Results) == 0 {
					used = true
				}
			}
			return true
		})
		if used {
			sig.results = named
		}
	}
	return sig, nil
}

func rhPlainlyAssigned(body *ast.BlockStmt, name string) bool {
	plain := false
	ast.Inspect(body, func(n ast.Node) bool {
		if as, ok := n.(*ast.AssignStmt); ok {
			for _, l := range as.Lhs {
				if id, ok := l.(*ast.Ident); ok && id.Name == name {
					plain = true
				}
			}
		}
		return true
	})
	return plain
}

// rhDeclareResults: the named results of the function being translated, as variables holding zero values.
func (g *sg) rhDeclareResults(env *sgEnv, sig *sgSig) (string, error) {
	prefix := ""
	for _, r := range sig.results {
		if _, dup := env.vars[r.name]; dup || r.name == "_" {
			return "", fmt.Errorf("%s: the named result %s shadows a parameter", sig.name, r.name)
		}
		zero, ok := map[string]string{stInt: "0", stBool: "false"}[r.ty]
		if !ok {
			return "", fmt.Errorf("%s: named result of type %s", sig.name, r.ty)
		}
		env.declare(r.name, r.ty)
		prefix += "let v_" + r.name + " := " + zero + " in\n  "
	}
	return prefix, nil
}

// rhReturn: `return a, b`, `return a, b, c`, and `return` with named results.
func (g *sg) rhReturn(env *sgEnv, s *ast.ReturnStmt, ctx *sgCtx) (string, bool, error) {
	var want []string
	switch g.cur.result {
	case stBB:
		want = []string{stBool, stBool}
	case stZZZ:
		want = []string{stInt, stInt, stInt}
	}
	if len(s.Results) == 0 && len(g.cur.results) > 0 {
		var parts []string
		for _, r := range g.cur.results {
			if env.vars[r.name] != r.ty {
				return "", true, fmt.Errorf("return: the named result %s is shadowed", r.name)
			}
			parts = append(parts, "v_"+r.name)
		}
		if len(parts) == 1 {
			return ctx.ret(parts[0]), true, nil
		}
		return ctx.ret("(" + strings.Join(parts, ", ") + ")"), true, nil
	}
	if want == nil || len(s.Results) != len(want) {
		return "", false, nil
	}
	var binds, parts []string
	for i, r := range s.Results {
		v, err := g.expr(env, r, &binds)
		if err != nil {
			return "", true, err
		}
		if v.ty != want[i] {
			return "", true, fmt.Errorf("return: %s used as %s", v.ty, want[i])
		}
		parts = append(parts, v.code)
	}
	return sgJoin(binds, ctx.ret("("+strings.Join(parts, ", ")+")")), true, nil
}

// rhExpr: p.Key, p.Value on the pair of an ordered-map loop; config.Field.
func (g *sg) rhExpr(env *sgEnv, x ast.Expr, binds *[]string) (sgVal, error) {
	sel, ok := x.(*ast.SelectorExpr)
	if !ok {
		return sgVal{}, fmt.Errorf("unsupported expression %T", x)
	}
	id, ok := sel.X.(*ast.Ident)
	if !ok {
		return sgVal{}, fmt.Errorf("unsupported selector %s", types.ExprString(x))
	}
	switch ty := env.vars[id.Name]; ty {
	case stOPairZZ, stOPairZB:
		vty := stInt
		if ty == stOPairZB {
			vty = stBool
		}
		switch sel.Sel.Name {
		case "Key":
			return sgVal{code: "(fst v_" + id.Name + ")", ty: stInt}, nil
		case "Value":
			return sgVal{code: "(snd v_" + id.Name + ")", ty: vty}, nil
		}
	case stConfig:
		for _, f := range rhConfigFields {
			if f.name == sel.Sel.Name {
				return sgVal{code: "(" + f.ty + " v_" + id.Name + ")", ty: stBool}, nil
			}
		}
	}
	return sgVal{}, fmt.Errorf("unsupported selector %s", types.ExprString(x))
}

func rhIsSlice(ty string) bool { _, ok := rhNil[ty]; return ok }

// rhBinary: x % y; s == nil / s != nil on a slice; == / != on bool.
func (g *sg) rhBinary(env *sgEnv, x *ast.BinaryExpr, binds *[]string) (sgVal, bool, error) {
	isNil := func(e ast.Expr) bool {
		id, ok := e.(*ast.Ident)
		_, shadow := env.vars["nil"]
		return ok && id.Name == "nil" && !shadow
	}
	switch x.Op {
	case token.REM:
		a, err := g.expr(env, x.X, binds)
		if err != nil {
			return sgVal{}, true, err
		}
		b, err := g.expr(env, x.Y, binds)
		if err != nil {
			return sgVal{}, true, err
		}
		if a.ty != stInt || b.ty != stInt {
			return sgVal{}, true, fmt.Errorf("%% on %s, %s", a.ty, b.ty)
		}
		t := g.fresh("t")
		*binds = append(*binds, fmt.Sprintf("do %s <- go_rem %s %s;", t, a.code, b.code))
		return sgVal{code: t, ty: stInt}, true, nil
	case token.EQL, token.NEQ:
		if isNil(x.Y) && !isNil(x.X) {
			if id, ok := x.X.(*ast.Ident); ok && rhIsSlice(env.vars[id.Name]) {
				code := "(is_nil v_" + id.Name + ")"
				if x.Op == token.NEQ {
					code = "(negb " + code + ")"
				}
				return sgVal{code: code, ty: stBool}, true, nil
			}
			return sgVal{}, false, nil
		}
		// bool == bool: only when both operands are evidently bool (no reads that can fail are duplicated)
		var ab, bb []string
		a, errA := g.expr(env, x.X, &ab)
		if errA != nil || a.ty != stBool {
			return sgVal{}, false, nil
		}
		b, errB := g.expr(env, x.Y, &bb)
		if errB != nil || b.ty != stBool {
			return sgVal{}, false, nil
		}
		*binds = append(append(*binds, ab...), bb...)
		code := "(Bool.eqb " + a.code + " " + b.code + ")"
		if x.Op == token.NEQ {
			code = "(negb " + code + ")"
		}
		return sgVal{code: code, ty: stBool}, true, nil
	}
	return sgVal{}, false, nil
}

// rhNonNeg: the expression is evidently >= 0 (the length of a make).
func (g *sg) rhNonNeg(env *sgEnv, x ast.Expr) bool {
	if sgStaticallyNonNeg(x) {
		return true
	}
	switch x := x.(type) {
	case *ast.CallExpr: // m.Len() of an ordered map
		if sel, ok := x.Fun.(*ast.SelectorExpr); ok && sel.Sel.Name == "Len" && len(x.Args) == 0 {
			if id, ok := sel.X.(*ast.Ident); ok {
				return env.vars[id.Name] == stOMapZZ || env.vars[id.Name] == stOMapZB
			}
		}
	case *ast.Ident: // a local defined once, by `l := <non-negative>`, and never assigned again
		fd := g.funcs[g.cur.name]
		if fd == nil || env.vars[x.Name] != stInt {
			return false
		}
		defs, other := 0, 0
		ast.Inspect(fd, func(n ast.Node) bool {
			switch n := n.(type) {
			case *ast.AssignStmt:
				for i, l := range n.Lhs {
					if id, ok := l.(*ast.Ident); ok && id.Name == x.Name {
						if n.Tok == token.DEFINE && len(n.Lhs) == len(n.Rhs) && sgStaticallyNonNeg(n.Rhs[i]) {
							defs++
						} else {
							other++
						}
					}
				}
			case *ast.IncDecStmt:
				if id, ok := n.X.(*ast.Ident); ok && id.Name == x.Name {
					other++
				}
			case *ast.RangeStmt:
				for _, e := range []ast.Expr{n.Key, n.Value} {
					if id, ok := e.(*ast.Ident); ok && id.Name == x.Name {
						other++
					}
				}
			case *ast.Field:
				for _, id := range n.Names {
					if id.Name == x.Name {
						other++
					}
				}
			case *ast.UnaryExpr:
				if id, ok := n.X.(*ast.Ident); ok && n.Op == token.AND && id.Name == x.Name {
					other++
				}
			}
			return true
		})
		return defs == 1 && other == 0
	}
	return false
}

// rhCall: the library calls of the ring helpers that occur in expressions.
func (g *sg) rhCall(env *sgEnv, x *ast.CallExpr, binds *[]string) (sgVal, bool, error) {
	fun := types.ExprString(x.Fun)
	if x.Ellipsis != token.NoPos {
		return sgVal{}, false, nil
	}
	switch fun {
	case "slices.Index", "slices.Contains":
		if g.pkgs["slices"] != "slices" || g.rhShadowed(env, "slices") || len(x.Args) != 2 {
			return sgVal{}, true, fmt.Errorf("unsupported %s", fun)
		}
		s, err := g.expr(env, x.Args[0], binds)
		if err != nil {
			return sgVal{}, true, err
		}
		v, err := g.expr(env, x.Args[1], binds)
		if err != nil {
			return sgVal{}, true, err
		}
		switch {
		case fun == "slices.Index" && s.ty == stPts && v.ty == stPt:
			return sgVal{code: "(slices_index pt_eqb " + s.code + " " + v.code + ")", ty: stInt}, true, nil
		case fun == "slices.Contains" && s.ty == stInts && v.ty == stInt:
			return sgVal{code: "(mem_Z " + v.code + " " + s.code + ")", ty: stBool}, true, nil
		}
		return sgVal{}, true, fmt.Errorf("%s on %s, %s", fun, s.ty, v.ty)
	case "sortedmap.New[int, float64]":
		if g.pkgs["sortedmap"] != rhSortedmapPath || g.rhShadowed(env, "sortedmap") || len(x.Args) != 2 {
			return sgVal{}, true, fmt.Errorf("sortedmap.New: not %s, or unexpected arguments", rhSortedmapPath)
		}
		var hb []string // the size hint has no meaning for the contents, but it is evaluated
		if h, err := g.expr(env, x.Args[0], &hb); err != nil || h.ty != stInt || len(hb) != 0 {
			return sgVal{}, true, fmt.Errorf("sortedmap.New: unsupported size hint")
		}
		want := "func(i, j float64) bool { return i > j }"
		if got := sgPrint(g.fset, x.Args[1]); got != want {
			return sgVal{}, true, fmt.Errorf("sortedmap.New: the ordering is %q, the micro-model (area_place) assumes %q", got, want)
		}
		return sgVal{code: "(@nil (Z * Z))", ty: stAMap}, true, nil
	case "make":
		if g.rhShadowed(env, "make") || (len(x.Args) != 2 && len(x.Args) != 3) {
			return sgVal{}, true, fmt.Errorf("unsupported make")
		}
		ty, err := g.goType(x.Args[0])
		if err != nil {
			return sgVal{}, true, err
		}
		if !rhIsSlice(ty) {
			return sgVal{}, true, fmt.Errorf("make of %s", ty)
		}
		for _, a := range x.Args[1:] { // length and capacity: evaluated, without effects, evidently non-negative
			var ab []string
			if n, err := g.expr(env, a, &ab); err != nil || n.ty != stInt || len(ab) != 0 || !g.rhNonNeg(env, a) {
				return sgVal{}, true, fmt.Errorf("make with a length or capacity that is not evidently a non-negative int")
			}
		}
		if len(x.Args) == 3 { // make(T, 0, cap): the capacity has no meaning for the contents
			if lit, ok := x.Args[1].(*ast.BasicLit); !ok || lit.Value != "0" {
				return sgVal{}, true, fmt.Errorf("make(T, n, cap) with n other than 0")
			}
			return sgVal{code: rhNil[ty], ty: ty}, true, nil
		}
		n, _ := g.expr(env, x.Args[1], binds)
		return sgVal{code: "(repeat " + rhZero[ty] + " (Z.to_nat " + n.code + "))", ty: ty}, true, nil
	}
	if sel, ok := x.Fun.(*ast.SelectorExpr); ok && len(x.Args) == 0 {
		if id, ok := sel.X.(*ast.Ident); ok {
			switch ty := env.vars[id.Name]; {
			case sel.Sel.Name == "Len" && (ty == stOMapZZ || ty == stOMapZB):
				return sgVal{code: "(zlen v_" + id.Name + ")", ty: stInt}, true, nil
			case sel.Sel.Name == "Keys" && ty == stAMap:
				return sgVal{code: "(map fst v_" + id.Name + ")", ty: stInts}, true, nil
			}
		}
	}
	return sgVal{}, false, nil
}

// rhIndex2: X[i][j] with X an identifier
func rhIndex2(x ast.Expr) (id *ast.Ident, i, j ast.Expr, ok bool) {
	outer, ok1 := x.(*ast.IndexExpr)
	if !ok1 {
		return nil, nil, nil, false
	}
	inner, ok2 := outer.X.(*ast.IndexExpr)
	if !ok2 {
		return nil, nil, nil, false
	}
	id, ok3 := inner.X.(*ast.Ident)
	return id, inner.Index, outer.Index, ok3
}

// rhStmt: the library calls used as statements; returns the lines that rebind the changed variable.
func (g *sg) rhStmt(env *sgEnv, c *ast.CallExpr) (string, bool, error) {
	fun := types.ExprString(c.Fun)
	if fun == "slices.Reverse" {
		if g.pkgs["slices"] != "slices" || g.rhShadowed(env, "slices") || len(c.Args) != 1 {
			return "", true, fmt.Errorf("unsupported slices.Reverse")
		}
		id, ix, jx, ok := rhIndex2(c.Args[0])
		if !ok || env.vars[id.Name] != stPolys {
			return "", true, fmt.Errorf("slices.Reverse is only supported as slices.Reverse(p[i][j]) on a [][][][2]float64")
		}
		isParam := g.cur.mutated >= 0 && g.cur.params[g.cur.mutated].name == id.Name
		if !isParam && !env.made[id.Name] {
			return "", true, fmt.Errorf("slices.Reverse through %s, which is neither the written parameter nor a local created by make", id.Name)
		}
		var binds []string
		i, err := g.expr(env, ix, &binds)
		if err != nil {
			return "", true, err
		}
		row := g.fresh("t")
		binds = append(binds, fmt.Sprintf("do %s <- idx v_%s %s;", row, id.Name, i.code))
		j, err := g.expr(env, jx, &binds)
		if err != nil {
			return "", true, err
		}
		if i.ty != stInt || j.ty != stInt {
			return "", true, fmt.Errorf("index of type %s, %s", i.ty, j.ty)
		}
		el, row2 := g.fresh("t"), g.fresh("t")
		binds = append(binds, fmt.Sprintf("do %s <- idx %s %s;", el, row, j.code),
			fmt.Sprintf("do %s <- setidx %s %s (rev %s);", row2, row, j.code, el),
			fmt.Sprintf("do v_%s <- setidx v_%s %s %s;", id.Name, id.Name, i.code, row2))
		return strings.Join(binds, "\n  "), true, nil
	}
	if sel, ok := c.Fun.(*ast.SelectorExpr); ok && sel.Sel.Name == "Insert" {
		x, ok := sel.X.(*ast.Ident)
		if !ok || env.vars[x.Name] != stAMap {
			return "", false, nil
		}
		if len(c.Args) != 2 {
			return "", true, fmt.Errorf("unsupported Insert")
		}
		// the key must be the index of the enclosing range loop: the keys are distinct, so Insert always places
		k, ok := c.Args[0].(*ast.Ident)
		if !ok || !env.rangeVar[k.Name] || env.vars[k.Name] != stInt {
			return "", true, fmt.Errorf("Insert: the key is not the index of the enclosing range loop")
		}
		var binds []string
		val := ""
		switch v := c.Args[1].(type) {
		case *ast.BasicLit: // 0.0
			if v.Kind != token.FLOAT || strings.Trim(v.Value, "0.") != "" {
				return "", true, fmt.Errorf("Insert: the only float literal supported is zero")
			}
			val = "0"
		case *ast.CallExpr: // geomhelp.Shoelace(ring): float code, the model's exact doubled area
			if types.ExprString(v.Fun) != "geomhelp.Shoelace" || g.pkgs["geomhelp"] != rhGeomhelpPath || g.rhShadowed(env, "geomhelp") ||
				g.rhExtSigs["Shoelace"] != "func(pts [][2]float64) float64" || len(v.Args) != 1 || v.Ellipsis != token.NoPos {
				return "", true, fmt.Errorf("Insert: the value is not geomhelp.Shoelace(ring) with Shoelace func(pts [][2]float64) float64")
			}
			r, err := g.expr(env, v.Args[0], &binds)
			if err != nil {
				return "", true, err
			}
			if r.ty != stPts {
				return "", true, fmt.Errorf("geomhelp.Shoelace of %s", r.ty)
			}
			val = "(absArea2 " + r.code + ")"
		default:
			return "", true, fmt.Errorf("Insert: unsupported value")
		}
		binds = append(binds, fmt.Sprintf("let v_%s := (area_place v_%s v_%s %s) in", x.Name, x.Name, k.Name, val))
		return strings.Join(binds, "\n  "), true, nil
	}
	return "", false, nil
}

// rhAssign: c, on := geomhelp.RayIntersect(p, a, b)  (float code: the model's rayIntersect).
func (g *sg) rhAssign(env *sgEnv, s *ast.AssignStmt, rest []ast.Stmt, k lcont, ctx *sgCtx) (string, bool, error) {
	if len(s.Lhs) != 2 || len(s.Rhs) != 1 {
		return "", false, nil
	}
	c, ok := s.Rhs[0].(*ast.CallExpr)
	if !ok || types.ExprString(c.Fun) != "geomhelp.RayIntersect" {
		return "", false, nil
	}
	want := "func(pt, start, end [2]float64) (intersects, on bool)"
	if g.pkgs["geomhelp"] != rhGeomhelpPath || g.rhShadowed(env, "geomhelp") || g.rhExtSigs["RayIntersect"] != want {
		return "", true, fmt.Errorf("geomhelp.RayIntersect is not %s of %s", want, rhGeomhelpPath)
	}
	if s.Tok != token.DEFINE || len(c.Args) != 3 || c.Ellipsis != token.NoPos {
		return "", true, fmt.Errorf("geomhelp.RayIntersect: only `a, b := geomhelp.RayIntersect(p, s, e)` is supported")
	}
	var lines, as []string
	for _, a := range c.Args {
		v, err := g.expr(env, a, &lines)
		if err != nil {
			return "", true, err
		}
		if v.ty != stPt {
			return "", true, fmt.Errorf("geomhelp.RayIntersect: argument of type %s", v.ty)
		}
		as = append(as, v.code)
	}
	env2 := env.clone()
	var names []string
	for _, l := range s.Lhs {
		id, ok := l.(*ast.Ident)
		if !ok {
			return "", true, fmt.Errorf("unsupported assignment target %s", types.ExprString(l))
		}
		if id.Name == "_" {
			names = append(names, "_")
			continue
		}
		if _, exists := env.vars[id.Name]; exists || (len(names) > 0 && names[0] == "v_"+id.Name) {
			return "", true, fmt.Errorf(":= of the existing variable %s is not supported", id.Name)
		}
		env2.declare(id.Name, stBool)
		names = append(names, "v_"+id.Name)
	}
	lines = append(lines, fmt.Sprintf("let '(%s, %s) := rayIntersect %s in", names[0], names[1], strings.Join(as, " ")))
	body, err := g.stmts(env2, rest, k, ctx)
	if err != nil {
		return "", true, err
	}
	return sgJoin(lines, body), true, nil
}

// rhIfInit: if _, ok := m[k]; ok { .. } on a map that is only read.
func (g *sg) rhIfInit(env *sgEnv, s *ast.IfStmt, rest []ast.Stmt, k lcont, ctx *sgCtx) (string, error) {
	as, ok := s.Init.(*ast.AssignStmt)
	if !ok || as.Tok != token.DEFINE || len(as.Lhs) != 2 || len(as.Rhs) != 1 {
		return "", fmt.Errorf("unsupported if with init")
	}
	blank, ok1 := as.Lhs[0].(*ast.Ident)
	okv, ok2 := as.Lhs[1].(*ast.Ident)
	ix, ok3 := as.Rhs[0].(*ast.IndexExpr)
	if !ok1 || !ok2 || !ok3 || blank.Name != "_" || okv.Name == "_" {
		return "", fmt.Errorf("unsupported if with init (only `if _, ok := m[k]; ..`)")
	}
	m, ok := ix.X.(*ast.Ident)
	if !ok || env.vars[m.Name] != stKeySet {
		return "", fmt.Errorf("unsupported if with init: %s is not a map[int]X parameter", types.ExprString(ix.X))
	}
	if _, exists := env.vars[okv.Name]; exists {
		return "", fmt.Errorf(":= of the existing variable %s is not supported", okv.Name)
	}
	var binds []string
	key, err := g.expr(env, ix.Index, &binds)
	if err != nil {
		return "", err
	}
	if key.ty != stInt {
		return "", fmt.Errorf("map key of type %s", key.ty)
	}
	env2 := env.clone()
	env2.declare(okv.Name, stBool)
	bare := *s
	bare.Init = nil
	body, err := g.stmts(env2, append([]ast.Stmt{&bare}, rest...), k, ctx)
	if err != nil {
		return "", err
	}
	binds = append(binds, fmt.Sprintf("let v_%s := (mem_Z %s v_%s) in", okv.Name, key.code, m.Name))
	return sgJoin(binds, body), nil
}

// rhOMapLoop: for p := m.Newest(); p != nil; p = p.Prev() { }  /  for p := m.Oldest(); p != nil; p = p.Next() { }
// over an ordered map: a range loop over the association list (reversed for Newest/Prev).
func (g *sg) rhOMapLoop(env *sgEnv, s *ast.ForStmt, after lcont, ctx *sgCtx) (string, bool, error) {
	init, ok := s.Init.(*ast.AssignStmt)
	if !ok || init.Tok != token.DEFINE || len(init.Lhs) != 1 || len(init.Rhs) != 1 {
		return "", false, nil
	}
	p, ok1 := init.Lhs[0].(*ast.Ident)
	c, ok2 := init.Rhs[0].(*ast.CallExpr)
	if !ok1 || !ok2 || len(c.Args) != 0 {
		return "", false, nil
	}
	sel, ok := c.Fun.(*ast.SelectorExpr)
	if !ok {
		return "", false, nil
	}
	m, ok := sel.X.(*ast.Ident)
	if !ok || (env.vars[m.Name] != stOMapZZ && env.vars[m.Name] != stOMapZB) {
		return "", false, nil
	}
	step := map[string]string{"Newest": "Prev", "Oldest": "Next"}[sel.Sel.Name]
	if step == "" || p.Name == "_" {
		return "", true, fmt.Errorf("unsupported ordered-map loop: %s", types.ExprString(c))
	}
	if _, exists := env.vars[p.Name]; exists {
		return "", true, fmt.Errorf(":= of the existing variable %s is not supported", p.Name)
	}
	if s.Cond == nil || s.Post == nil || sgPrint(g.fset, s.Cond) != p.Name+" != nil" || sgPrint(g.fset, s.Post) != p.Name+" = "+p.Name+"."+step+"()" {
		return "", true, fmt.Errorf("unsupported ordered-map loop: expected `%s != nil; %s = %s.%s()`", p.Name, p.Name, p.Name, step)
	}
	if _, shadow := env.vars["nil"]; shadow {
		return "", true, fmt.Errorf("nil is shadowed")
	}
	asg := map[string]bool{}
	sgAssigned(s.Body.List, asg)
	if asg[p.Name] || asg[m.Name] || asg["call:"+m.Name] || asg["call:"+p.Name] {
		return "", true, fmt.Errorf("ordered-map loop: the body changes the map or the loop variable")
	}
	// the body must not touch the map at all (a Set/Delete during the walk is outside the association-list reading)
	touched := false
	ast.Inspect(s.Body, func(n ast.Node) bool {
		if id, ok := n.(*ast.Ident); ok && id.Name == m.Name {
			touched = true
		}
		return true
	})
	if touched {
		return "", true, fmt.Errorf("ordered-map loop: the body uses the map %s", m.Name)
	}
	rs := &ast.RangeStmt{For: s.For, Key: ast.NewIdent("_"), Value: p, Tok: token.DEFINE, X: c, Body: s.Body}
	out, err := g.rangeLoop(env, rs, after, ctx)
	return out, true, err
}

// rhRangeSource: the list a range loop made by rhOMapLoop walks, and the type of its element.
func (g *sg) rhRangeSource(env *sgEnv, x ast.Expr) (string, string) {
	c, ok := x.(*ast.CallExpr)
	if !ok || len(c.Args) != 0 {
		return "", ""
	}
	sel, ok := c.Fun.(*ast.SelectorExpr)
	if !ok {
		return "", ""
	}
	m, ok := sel.X.(*ast.Ident)
	if !ok {
		return "", ""
	}
	el := map[string]string{stOMapZZ: stOPairZZ, stOMapZB: stOPairZB}[env.vars[m.Name]]
	switch {
	case el != "" && sel.Sel.Name == "Newest":
		return "(rev v_" + m.Name + ")", el
	case el != "" && sel.Sel.Name == "Oldest":
		return "v_" + m.Name, el
	}
	return "", ""
}

// rhRename: a variable declared in an inner block under the name of a variable of an enclosing block (or under a name
// used twice in the function) is renamed x_2, x_3, ..: the translation binds variables by name.
func rhRename(fd *ast.FuncDecl) error {
	byName := map[string][]*ast.Object{}
	all := map[string]bool{}
	var idents []*ast.Ident
	ast.Inspect(fd, func(n ast.Node) bool {
		if id, ok := n.(*ast.Ident); ok {
			all[id.Name] = true
			idents = append(idents, id)
			if id.Obj != nil && id.Obj.Kind == ast.Var {
				seen := false
				for _, o := range byName[id.Name] {
					if o == id.Obj {
						seen = true
					}
				}
				if !seen {
					byName[id.Name] = append(byName[id.Name], id.Obj)
				}
			}
		}
		return true
	})
	newName := map[*ast.Object]string{}
	var names []string
	for n := range byName {
		names = append(names, n)
	}
	sort.Strings(names)
	for _, n := range names {
		objs := byName[n]
		if len(objs) < 2 || n == "_" {
			continue
		}
		sort.Slice(objs, func(i, j int) bool { return objs[i].Pos() < objs[j].Pos() })
		for i, o := range objs[1:] {
			nn := fmt.Sprintf("%s_%d", n, i+2)
			if all[nn] {
				return fmt.Errorf("cannot rename the shadowing variable %s: %s is in use", n, nn)
			}
			all[nn] = true
			newName[o] = nn
		}
	}
	for _, id := range idents {
		if nn, ok := newName[id.Obj]; ok && id.Obj != nil {
			id.Name = nn
		}
	}
	return nil
}

type rhFunc struct {
	name     string
	typarams string            // the type parameter list, as "N constraint;.."
	generic  map[string]string // the instantiation used by snap.go
	inst     string            // for the comment in the generated file
}

var rhSnapFuncs = []string{"ringsAreEqual", "ringContains", "outersToPolygons", "reverseWindingOrderIfConfigured", "sortPolyIdxsByOuterAreaDesc"}

var rhHelpFuncs = []rhFunc{
	{"FindLastKeyWithMaxValue", "K comparable;V constraints.Ordered;", map[string]string{"K": stInt, "V": stInt}, "K = int, V = uint"},
	{"LastMatch", "T comparable;", map[string]string{"T": stInt}, "T = int"},
	{"DeleteFromSliceByIndex", "V any;X any;", map[string]string{"V": stPts}, "V = [][2]float64, map[int]X = the list of its keys"},
	{"OrderedMapKeys", "K comparable;V any;", map[string]string{"K": stInt, "V": stInt}, "K = int, V = uint"},
	{"CountVals", "K comparable;V comparable;", map[string]string{"K": stInt, "V": stBool}, "K = int, V = bool"},
	{"LastElement", "T any;", map[string]string{"T": stPt}, "T = [2]float64"},
	{"ReverseClone", "S ~[]E;E any;", map[string]string{"S": stPts, "E": stPt}, "S = [][2]float64"},
}

func rhImports(f *ast.File, pkgs map[string]string) error {
	for _, im := range f.Imports {
		path := strings.Trim(im.Path.Value, `"`)
		name := path[strings.LastIndex(path, "/")+1:]
		if im.Name != nil {
			name = im.Name.Name
		}
		if name == "go-sortedmap" {
			name = "sortedmap"
		}
		if old, ok := pkgs[name]; ok && old != path {
			return fmt.Errorf("import %s differs between snap.go and mapslicehelp.go", name)
		}
		pkgs[name] = path
	}
	return nil
}

// rhCheckCallSites: every helper is called from snap.go, and the ordered maps handed to the helpers are created there
// with the key / value types the helpers are instantiated at (IsOuter being an alias of bool).
func rhCheckCallSites(sf *ast.File, pkgs map[string]string) error {
	if !strings.HasSuffix(pkgs["mapslicehelp"], "/texel/mapslicehelp") || pkgs["orderedmap"] != rhOrderedmapPath {
		return fmt.Errorf("snap.go does not import mapslicehelp / orderedmap as expected")
	}
	alias := false
	for _, d := range sf.Decls {
		if gd, ok := d.(*ast.GenDecl); ok && gd.Tok == token.TYPE {
			for _, sp := range gd.Specs {
				ts := sp.(*ast.TypeSpec)
				if ts.Name.Name == "IsOuter" && ts.Assign.IsValid() && types.ExprString(ts.Type) == "bool" {
					alias = true
				}
			}
		}
	}
	made := map[string]string{} // variable -> type arguments of orderedmap.New
	called := map[string]bool{}
	var bad error
	ast.Inspect(sf, func(n ast.Node) bool {
		switch n := n.(type) {
		case *ast.AssignStmt:
			if len(n.Lhs) == 1 && len(n.Rhs) == 1 {
				id, ok1 := n.Lhs[0].(*ast.Ident)
				c, ok2 := n.Rhs[0].(*ast.CallExpr)
				if ok1 && ok2 {
					if f := types.ExprString(c.Fun); strings.HasPrefix(f, "orderedmap.New[") {
						made[id.Name] = strings.TrimSuffix(strings.TrimPrefix(f, "orderedmap.New["), "]")
					}
				}
			}
		case *ast.CallExpr:
			f := types.ExprString(n.Fun)
			if !strings.HasPrefix(f, "mapslicehelp.") {
				return true
			}
			name := strings.TrimPrefix(f, "mapslicehelp.")
			called[name] = true
			want := map[string]string{"FindLastKeyWithMaxValue": "int, uint", "OrderedMapKeys": "int, uint", "CountVals": "int, IsOuter"}[name]
			if want != "" {
				id, ok := n.Args[0].(*ast.Ident)
				if !ok || made[id.Name] != want {
					bad = fmt.Errorf("mapslicehelp.%s is not called on a map created by orderedmap.New[%s]", name, want)
				}
			}
		}
		return true
	})
	if bad != nil {
		return bad
	}
	if !alias {
		return fmt.Errorf("snap.IsOuter is not an alias of bool")
	}
	for _, h := range rhHelpFuncs {
		if !called[h.name] {
			return fmt.Errorf("mapslicehelp.%s is not called from snap.go", h.name)
		}
	}
	return nil
}

const rhHeader = `(* GENERATED by /verif/translator (G2, loops in the error monad) from snap/snap.go and mapslicehelp/mapslicehelp.go
   on every run -- do not edit.
   NOT translated, kept as the function of the MODEL (Snap/Model.v) or of Prelude/GoLib.v after checking the AST for
   the exact call shape (trusted):
     geomhelp.RayIntersect(p, a, b)   (float code)  = rayIntersect p a b
     geomhelp.Shoelace(r), 0.0        (float code)  = absArea2 r, 0   (twice the exact area)
     sortedmap.New[int, float64](n, func(i, j float64) bool { return i > j }) = [] ; A.Insert(i, v) with i the index of
       the enclosing range loop = area_place A i v ; A.Keys() = map fst A
     *orderedmap.OrderedMap[K, V] = the insertion-ordered association list; for p := m.Newest(); p != nil; p = p.Prev()
       = range_loop over rev m ; for p := m.Oldest(); p != nil; p = p.Next() = range_loop over m ; p.Key, p.Value =
       fst p, snd p ; m.Len() = zlen m
     map[int]X read by  _, ok := m[k]  only = the list of its keys, ok = mem_Z k m
     slices.Index(s, v) = slices_index pt_eqb s v ; slices.Contains(s, v) on []int = mem_Z v s
     slices.Reverse(p[i][j]) on the written parameter = p[i][j] replaced by its reverse (the rings do not share memory)
     config.ReverseWindingOrder = reverseWindingOrder config ; &s[i] (only read through) = Some s[i] ;
     s == nil on a slice = is_nil s (nil and empty slices are both []) ; uint = exact Z ; x % y = go_rem x y.
   The generic functions of mapslicehelp are instantiated at the types of their call sites in snap.go. *)
From Coq Require Import ZArith List Bool.
From Texel Require Import Prelude.Base Prelude.GoLoop Prelude.GoLib Index.Model Snap.Model.
Import ListNotations.
Open Scope Z_scope.

`

// genRingHelpers: see the top of this file.
func genRingHelpers(repo string) (string, error) {
	g, err := sgLoad(repo)
	if err != nil {
		return "", err
	}
	g.dedup, g.rh, g.splitTail = true, true, false
	g.rhExtSigs = map[string]string{}
	// snap.Config must be the three booleans of the model's record
	sf, err := parser.ParseFile(g.fset, filepath.Join(repo, "snap/snap.go"), nil, 0)
	if err != nil {
		return "", err
	}
	for _, d := range sf.Decls {
		gd, ok := d.(*ast.GenDecl)
		if !ok || gd.Tok != token.TYPE {
			continue
		}
		for _, sp := range gd.Specs {
			ts := sp.(*ast.TypeSpec)
			st, ok := ts.Type.(*ast.StructType)
			if ts.Name.Name != "Config" || !ok {
				continue
			}
			var got []string
			for _, f := range st.Fields.List {
				for _, n := range f.Names {
					got = append(got, n.Name+" "+types.ExprString(f.Type))
				}
			}
			var want []string
			for _, f := range rhConfigFields {
				want = append(want, f.name+" bool")
			}
			if strings.Join(got, ";") != strings.Join(want, ";") {
				return "", fmt.Errorf("snap.Config has the fields %v, the model's record config has %v", got, want)
			}
			g.rhConfigOK = true
		}
	}
	// geomhelp: the signatures of the float functions that stay modelled
	gf, err := parser.ParseFile(g.fset, filepath.Join(repo, "geomhelp/geomhelp.go"), nil, 0)
	if err != nil {
		return "", err
	}
	for _, d := range gf.Decls {
		if fd, ok := d.(*ast.FuncDecl); ok && fd.Recv == nil {
			g.rhExtSigs[fd.Name.Name] = types.ExprString(fd.Type)
		}
	}
	// mapslicehelp
	mf, err := parser.ParseFile(g.fset, filepath.Join(repo, "mapslicehelp/mapslicehelp.go"), nil, 0)
	if err != nil {
		return "", err
	}
	if err := rhImports(mf, g.pkgs); err != nil {
		return "", err
	}
	helpers := map[string]*ast.FuncDecl{}
	for _, d := range mf.Decls {
		if fd, ok := d.(*ast.FuncDecl); ok && fd.Recv == nil {
			helpers[fd.Name.Name] = fd
		}
	}
	for _, shadowed := range []string{"len", "max", "min", "make", "append", "nil", "panic", "true", "false"} {
		if _, ok := helpers[shadowed]; ok {
			return "", fmt.Errorf("package mapslicehelp declares its own %s", shadowed)
		}
	}
	if err := rhCheckCallSites(sf, g.pkgs); err != nil {
		return "", err
	}
	g.out.WriteString(rhHeader)
	for _, name := range rhSnapFuncs {
		fd, ok := g.funcs[name]
		if !ok {
			return "", fmt.Errorf("function %s not found", name)
		}
		if fd.Type.TypeParams != nil {
			return "", fmt.Errorf("%s: unexpected type parameters", name)
		}
		if err := rhRename(fd); err != nil {
			return "", fmt.Errorf("%s: %v", name, err)
		}
		g.generic = map[string]string{}
		if err := g.function(name); err != nil {
			return "", err
		}
	}
	for _, h := range rhHelpFuncs {
		fd, ok := helpers[h.name]
		if !ok {
			return "", fmt.Errorf("mapslicehelp.%s not found", h.name)
		}
		if _, clash := g.funcs[h.name]; clash {
			return "", fmt.Errorf("package snap declares its own %s", h.name)
		}
		got := ""
		if fd.Type.TypeParams != nil {
			for _, f := range fd.Type.TypeParams.List {
				for _, n := range f.Names {
					got += n.Name + " " + types.ExprString(f.Type) + ";"
				}
			}
		}
		if got != h.typarams {
			return "", fmt.Errorf("%s: type parameters %s, expected %s", h.name, got, h.typarams)
		}
		if err := rhRename(fd); err != nil {
			return "", fmt.Errorf("%s: %v", h.name, err)
		}
		g.funcs[h.name] = fd
		g.generic = h.generic
		fmt.Fprintf(&g.out, "(* mapslicehelp.%s at %s *)\n", h.name, h.inst)
		if err := g.function(h.name); err != nil {
			return "", err
		}
		delete(g.funcs, h.name)
	}
	return g.out.String(), nil
}
