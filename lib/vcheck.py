"""Shared driver for /verif/bin/check.

One check run =
  1. regenerate coq/gen from /repo (translator, tie G) and build the Coq project (full .vo build);
  2. compile theories/Properties/<id>.v on its own, collecting the theorems and Print Assumptions;
  3. build and run the Go harness (tie H) against /repo's working tree: it runs the implementation,
     the property oracle on the implementation's outputs, and writes coq/cases/<id>/*.v with inputs
     and observed outputs;
  4. evaluate the case shards with coqc (vm_compute of `mismatches`);
  5. decide, write replay + evidence, print VIOLATION / KNOWN-FINDING lines.
"""
import fcntl
import glob
import hashlib
import json
import os
import re
import subprocess
import sys
import time
from concurrent.futures import ThreadPoolExecutor

VERIF = os.path.dirname(os.path.dirname(os.path.abspath(__file__)))
REPO = os.environ.get("VERIF_REPO", "/repo")
COQ = os.path.join(VERIF, "coq")
BIN = os.path.join(VERIF, "bin")
EVID = os.path.join(VERIF, "evidence")
REPLAYS = os.path.join(VERIF, "replays")
CASES = os.path.join(COQ, "cases")
LOGDIR = os.path.join(BIN, ".build")

GOENV = dict(os.environ, GOFLAGS="-mod=mod", GOPROXY="off", GOSUMDB="off", GOTOOLCHAIN="local",
             CGO_ENABLED=os.environ.get("CGO_ENABLED", "1"))

# which Go harness module (directory under /verif) serves which property
HARNESS = {"C10": "harness_pipe", "C11": "harness_pipe",
           "C12": "harness_gpkg", "C13": "harness_gpkg",
           "C14": "harness_tms", "C15": "harness_tms", "C16": "harness_tms"}


SNAP_TB = ["hand-written Gallina model of pointindex.go / snap.go (Index/Model.v, Snap/Model.v): pixel addresses (x,y) instead of Morton keys (C17), exact Z products for cmpProducts (proved equal to the regenerated int64/uint64/bits.Mul64 source: C02_source_tie_lineIntersects), exact integer winding / Shoelace / RayIntersect (Nextafter nudge = infinitesimal), go-sortedmap / go-ordered-map micro-models, per-level decomposition proved equal to the interleaved loop (Snap/ProofsInterleaved.v); the correspondence runs snapPolygonFull (with the Morton-key limit, F11), proved equal to the plain model of the theorems for deepest level <= 32",
           "tie G2: 13 leaf functions of pointindex.go/mathhelp.go regenerated into gen/PointIndexGen.v and proved equal to the model (Index/ProofsGen.v); cmpProducts, leavesRoomBelow, lineIntersects regenerated with machine-integer semantics into gen/LineGen.v and proved equal to the model for ordinates in [-2^62, 2^62) (Index/MachineInt.v, Index/ProofsGenLine.v); getQuadrantZs (gen/ChildrenGen.v, Bits/ProofsGenChildren.v) and kmpTable/kmpSearch/kmpSearchAll of snap.go (gen/KmpGen.v, Snap/ProofsGenKmp.v: equal to the model on all inputs, int as exact Z) likewise; cleanupNewVertices, asPointOrLine, ensureCorrectWindingOrder (gen/SnapSmallGen.v, Snap/ProofsGenSmall.v; windingOrderIsCorrect and ReverseClone modelled); kmpDeduplicate + mapslicehelp.RemoveSequences (gen/KmpDedupGen.v, Snap/ProofsGenKmpDedup.v: equal to the model for every ring; go-sortedmap New/Insert/Keys/Map, fmt.Sprint key, slices.Contains, copy, slices.Reverse, append onto the ring window kept as the micro-model's functions after an AST check); cleanupNewRing (gen/CleanupRingGen.v, Snap/ProofsGenCleanup.v); the whole of splitRing incl. its ordered-map stack walk (gen/SplitWalkGen.v, Snap/ProofsGenSplitWalk.v: equal to the model for every ring; cleanupNewRing calls the regenerated one); dedupeInnersOuters with CountVals / DeleteFromSliceByIndex (gen/DedupeGen.v, Snap/ProofsGenDedupe.v), matchInnersToPolygons (gen/MatchGen.v, Snap/ProofsGenMatch.v) and the ring helpers ringsAreEqual, ringContains, sortPolyIdxsByOuterAreaDesc, outersToPolygons, reverseWindingOrderIfConfigured, FindLastKeyWithMaxValue, LastMatch, OrderedMapKeys, LastElement, ReverseClone (gen/RingHelpersGen.v, Snap/ProofsGenRingHelpers.v), each equal to the model on all inputs and outcomes; findIntersectingQuadrants (table AND loop), checkPointHits, snapClosestPoints (descent over Morton-keyed level maps, refinement key = toZ(x,y)) and insertCoord (gen/FindGen.v, HitsGen.v, DescentGen.v, Index/ProofsGenFind.v, ProofsGenHits.v, ProofsGenDescent.v). Kept as the micro-models functions after an AST check of the exact call shape (TRUSTED): go-ordered-map, go-sortedmap, builtin maps used as sets / association lists, slices.Index / Contains / Reverse, geomhelp.RayIntersect / Shoelace and winding.Order (float code: the exact integer versions), verticesHitMultiple as a predicate; slice aliasing through spare capacity is outside the translation. addPointsAndSnap, SnapPolygon, tileMatrixIDsByLevels, verticesHitMultiple (gen/SnapTopGen.v, Snap/ProofsGenSnapTop.v: the regenerated interleaved ring x level loop equals Snap/ModelInterleaved.v for every iteration order of every Go map, hence the per-level model). With these every function of snap.go and pointindex.go is regenerated from source on every run; what stays modelled there: the float predicates (exact integer versions), float64 as an abstract type with abstract operations in the index entry points, and the library micro-models; CLI glue facts in gen/CliGen.v",
           "tie G2 (gen/IndexTopGen.v, Index/ProofsGenIndexTop.v, Index/GoTop.v): the exported entry points of pointindex.go (InsertPolygon, InsertPoint, InsertCoord, floorDiv, SnapClosestPoints, GetHitMultiple, FromTileMatrixSet) and intgeom's codec / accessors regenerated whole; trusted readings: float64 = abstract type with abstract operations (the theorems hold for every instance), int64 arithmetic with wrap-around, error values as option, methods that change maps of the pointer receiver return the final maps, the range over the per-level result map iterates in an order chosen by the caller (theorem for every permutation), go-spatial Polygon.LinearRings() = the polygon, tms20.TileMatrixSet = the view (tile widths, MatrixBoundingBox result)",
           "tie H: Go harness /verif/harness (generators, float<->integer centre mapping, projections); floats are outside the theorems (checked envelope: dyadic synthetic grids exactly; real grids and decimal tiny-unit grids on valid polygons)"]
TRUSTED = {p: SNAP_TB for p in ("C01", "C02", "C03", "C04", "C05", "C06", "C07", "C08", "C09", "C18")}


def harness_dir(pid):
    return HARNESS.get(pid, "harness")


FORBIDDEN = re.compile(r"\b(Admitted|admit|Axiom|Axioms|Parameter|Parameters|Conjecture|Hypothesis|Variable)\b|Unset Guard|bypass_check|Admit Obligations|type-in-type|impredicative-set")


def log(*a):
    print(*a, file=sys.stderr, flush=True)


def sh(cmd, cwd=None, env=None, timeout=None, capture=True):
    t0 = time.time()
    try:
        p = subprocess.run(cmd, cwd=cwd, env=env, timeout=timeout, shell=isinstance(cmd, str),
                           stdout=subprocess.PIPE if capture else None,
                           stderr=subprocess.STDOUT if capture else None, text=True)
        return p.returncode, p.stdout or "", time.time() - t0
    except subprocess.TimeoutExpired as e:
        out = e.stdout if isinstance(e.stdout, str) else (e.stdout or b"").decode("utf8", "replace")
        return 124, out + "\n[timeout after %ss]" % timeout, time.time() - t0


class Lock:
    def __init__(self, name):
        os.makedirs(LOGDIR, exist_ok=True)
        self.path = os.path.join(LOGDIR, name + ".lock")

    def __enter__(self):
        self.f = open(self.path, "w")
        fcntl.flock(self.f, fcntl.LOCK_EX)
        return self

    def __exit__(self, *a):
        fcntl.flock(self.f, fcntl.LOCK_UN)
        self.f.close()


# ----------------------------------------------------------------------------------------------
# building
# ----------------------------------------------------------------------------------------------

def _newest(paths):
    m = 0
    for p in paths:
        try:
            m = max(m, os.path.getmtime(p))
        except OSError:
            pass
    return m


def build_go(name, srcdir, tags=None):
    """go build srcdir -> bin/.<name>; always invoked (go's own cache makes it cheap), because the
    harness imports /repo's packages and must see the current working tree."""
    out = os.path.join(BIN, "." + name)
    gosum = os.path.join(REPO, "go.sum")
    if os.path.exists(os.path.join(srcdir, "go.mod")) and "pdok/texel" in open(os.path.join(srcdir, "go.mod")).read():
        if os.path.exists(gosum):
            with open(gosum) as f, open(os.path.join(srcdir, "go.sum"), "w") as g:
                g.write(f.read())
    cmd = ["go", "build"] + (["-tags", tags] if tags else []) + ["-o", out, "."]
    rc, o, dt = sh(cmd, cwd=srcdir, env=GOENV, timeout=900)
    return rc == 0, o, out


def coq_files():
    fs = []
    for root in ("gen", "theories"):
        for p in sorted(glob.glob(os.path.join(COQ, root, "**", "*.v"), recursive=True)):
            fs.append(os.path.relpath(p, COQ))
    return fs


def write_coqproject():
    body = "-Q theories Texel\n-Q gen Texel.Gen\n" + "\n".join(coq_files()) + "\n"
    p = os.path.join(COQ, "_CoqProject")
    old = open(p).read() if os.path.exists(p) else ""
    if old != body or not os.path.exists(os.path.join(COQ, "Makefile")):
        with open(p, "w") as f:
            f.write(body)
        sh(["coq_makefile", "-f", "_CoqProject", "-o", "Makefile"], cwd=COQ)


def regenerate():
    """Tie G: run the translator on /repo's working tree."""
    ok, o, tr = build_go("translator", os.path.join(VERIF, "translator"))
    if not ok:
        return False, "translator build failed:\n" + o
    rc, o, _ = sh([tr, "-repo", REPO, "-out", os.path.join(COQ, "gen")], timeout=300)
    return rc == 0, o


def build_coq(targets=None, timeout=3000):
    """Full .vo build (never -vos).  `make -k` so that a broken file does not hide the state of
    the others; returns (all_ok, log)."""
    write_coqproject()
    cmd = ["make", "-k", "-j16"] + (targets or [])
    rc, o, dt = sh(cmd, cwd=COQ, timeout=timeout)
    with open(os.path.join(LOGDIR, "coq_build.log"), "w") as f:
        f.write(o)
    return rc == 0, o


def vo_fresh(rel):
    v = os.path.join(COQ, rel)
    vo = v[:-2] + ".vo"
    return os.path.exists(vo) and os.path.getmtime(vo) >= os.path.getmtime(v)


def coq_deps(rel):
    """Transitive .v dependencies of a file inside the project (via coqdep)."""
    rc, o, _ = sh(["coqdep", "-Q", "theories", "Texel", "-Q", "gen", "Texel.Gen"] + coq_files(), cwd=COQ)
    deps = {}
    for line in o.splitlines():
        if ":" not in line:
            continue
        lhs, rhs = line.split(":", 1)
        tgt = [t for t in lhs.split() if t.endswith(".vo")]
        if not tgt:
            continue
        deps[tgt[0][:-1]] = [d[:-1] for d in rhs.split() if d.endswith(".vo")]
    seen, todo = set(), [rel]
    while todo:
        x = todo.pop()
        if x in seen:
            continue
        seen.add(x)
        todo.extend(deps.get(x, []))
    return sorted(seen)


def audit(files):
    """No Admitted/admit/Axiom/Parameter/... anywhere in the given .v files (comments stripped)."""
    bad = []
    for rel in files:
        try:
            src = open(os.path.join(COQ, rel)).read()
        except OSError:
            continue
        src = strip_comments(src)
        for i, line in enumerate(src.splitlines(), 1):
            m = FORBIDDEN.search(line)
            if m:
                # Variable/Hypothesis are fine inside a Section; checked by section depth below
                if m.group(0) in ("Variable", "Hypothesis", "Variables", "Parameters") and _in_section(src, i):
                    continue
                bad.append("%s:%d: %s" % (rel, i, line.strip()))
    return bad


def strip_comments(s):
    out, depth, i = [], 0, 0
    while i < len(s):
        if s.startswith("(*", i):
            depth += 1
            i += 2
        elif s.startswith("*)", i) and depth > 0:
            depth -= 1
            i += 2
        else:
            if depth == 0:
                out.append(s[i])
            elif s[i] == "\n":
                out.append("\n")
            i += 1
    return "".join(out)


def _in_section(src, lineno):
    depth = 0
    for i, line in enumerate(src.splitlines(), 1):
        if i >= lineno:
            break
        if re.match(r"\s*Section\s+\w+", line):
            depth += 1
        elif re.match(r"\s*End\s+\w+", line) and depth > 0:
            depth -= 1
    return depth > 0


STDLIB_AXIOM_PREFIXES = ("ClassicalDedekindReals.", "FunctionalExtensionality.", "Classical_Prop.",
                         "ClassicalEpsilon.", "ClassicalUniqueChoice.", "Eqdep.Eq_rect_eq.", "PropExtensionality.",
                         "Coq.")


def check_properties_file(pid):
    """Compile theories/Properties/<pid>.v on its own; returns dict with theorems, assumptions, ok."""
    rel = "theories/Properties/%s.v" % pid
    path = os.path.join(COQ, rel)
    res = {"file": rel, "theorems": [], "assumptions": {}, "ok": False, "log": "", "axioms": []}
    if not os.path.exists(path):
        res["log"] = "missing " + rel
        return res
    src = strip_comments(open(path).read())
    res["theorems"] = re.findall(r"^\s*(?:Theorem|Corollary)\s+(\w+)", src, re.M)
    rc, o, dt = sh(["coqc", "-Q", "theories", "Texel", "-Q", "gen", "Texel.Gen", rel], cwd=COQ, timeout=1500)
    res["log"] = o
    res["ok"] = rc == 0
    # parse Print Assumptions output: blocks "Closed under the global context" or "Axioms:\n name : type"
    cur = None
    closed = o.count("Closed under the global context")
    axioms = []
    for line in o.splitlines():
        if line.startswith("Axioms:"):
            cur = "ax"
            continue
        if cur == "ax":
            # an axiom is listed as "name : type" or, when the type is long, as "name" followed by indented lines
            m = re.match(r"^([A-Za-z_][\w.']*)\s*(:.*)?$", line)
            if m and not line.startswith(" "):
                axioms.append(m.group(1))
            elif line and not line.startswith(" "):
                cur = None
    res["closed"] = closed
    res["axioms"] = sorted(set(axioms))
    # axioms of the Coq standard library (real numbers, classical logic, extensionality) are reported by name and
    # accepted; anything else (in particular an axiom declared inside this project) is a failure
    res["stdlib_axioms"] = [a for a in res["axioms"] if a.startswith(STDLIB_AXIOM_PREFIXES)]
    res["foreign_axioms"] = [a for a in res["axioms"] if not a.startswith(STDLIB_AXIOM_PREFIXES)]
    return res


# ----------------------------------------------------------------------------------------------
# correspondence shards
# ----------------------------------------------------------------------------------------------

def run_shard(path, timeout=1200):
    rel = os.path.relpath(path, COQ)
    rc, o, dt = sh(["coqc", "-Q", "theories", "Texel", "-Q", "gen", "Texel.Gen", "-Q", "cases", "TexelCases", rel],
                   cwd=COQ, timeout=timeout)
    # expected output: "M = []" possibly followed by "     : list N"
    flat = " ".join(o.split())
    m = re.search(r"M = (\[[^\]]*\])", flat)
    mism = None
    if rc == 0 and m:
        body = m.group(1).strip("[]").strip()
        mism = [int(re.sub(r"%\w+", "", x).strip()) for x in body.split(";")] if body else []
    for ext in (".vo", ".vos", ".vok", ".glob"):
        try:
            os.remove(path[:-2] + ext)
        except OSError:
            pass
    try:
        os.remove(os.path.join(os.path.dirname(path), "." + os.path.basename(path)[:-2] + ".aux"))
    except OSError:
        pass
    return {"shard": os.path.basename(path), "rc": rc, "mismatches": mism, "log": o[-4000:], "wall_s": dt}


def run_shards(paths, jobs=16, timeout=1200):
    with ThreadPoolExecutor(max_workers=jobs) as ex:
        return list(ex.map(lambda p: run_shard(p, timeout), paths))


# ----------------------------------------------------------------------------------------------
# known findings
# ----------------------------------------------------------------------------------------------

def known_findings():
    p = os.path.join(VERIF, "known_findings.json")
    if not os.path.exists(p):
        return {"findings": [], "fixed": []}
    return json.load(open(p))


# ----------------------------------------------------------------------------------------------
# evidence / replay
# ----------------------------------------------------------------------------------------------

def write_json(path, obj):
    os.makedirs(os.path.dirname(path), exist_ok=True)
    tmp = path + ".tmp"
    with open(tmp, "w") as f:
        json.dump(obj, f, indent=1, sort_keys=False)
        f.write("\n")
    os.replace(tmp, path)


def write_replay(pid, obj):
    h = hashlib.sha1(json.dumps(obj, sort_keys=True).encode()).hexdigest()[:12]
    path = os.path.join(REPLAYS, "%s-%s.json" % (pid, h))
    write_json(path, obj)
    return path


def git_head(path):
    rc, o, _ = sh(["git", "-C", path, "rev-parse", "--short", "HEAD"])
    return o.strip() if rc == 0 else "?"


def repo_dirty():
    rc, o, _ = sh(["git", "-C", REPO, "status", "--porcelain"])
    return [l for l in o.splitlines() if l.strip()]


# ----------------------------------------------------------------------------------------------
# coqchk (thorough tier): independent re-check of the compiled property file and everything it depends on
# ----------------------------------------------------------------------------------------------

def coqchk(pid, timeout=3600):
    """Runs `coqchk -silent -o` on Texel.Properties.<pid>; cached by the hash of all .v files it depends on."""
    rel = "theories/Properties/%s.v" % pid
    deps = coq_deps(rel)
    h = hashlib.sha1()
    for d in deps:
        try:
            h.update(open(os.path.join(COQ, d), "rb").read())
        except OSError:
            pass
    stamp = os.path.join(LOGDIR, "coqchk_%s_%s.json" % (pid, h.hexdigest()[:16]))
    if os.path.exists(stamp):
        return json.load(open(stamp))
    rc, o, dt = sh(["coqchk", "-silent", "-o", "-Q", "theories", "Texel", "-Q", "gen", "Texel.Gen", "Texel.Properties.%s" % pid],
                   cwd=COQ, timeout=timeout)
    axioms = []
    lines = o.splitlines()
    for k, line in enumerate(lines):
        if line.strip().startswith("* Axioms:"):
            first = line.split("Axioms:", 1)[1].strip()
            if first and first != "<none>":
                axioms.append(first)
            for l2 in lines[k + 1:]:
                if l2.strip().startswith("* "):
                    break
                if l2.strip():
                    axioms.append(l2.strip())
            break
    res = {"rc": rc, "wall_s": round(dt, 1), "axioms": axioms[:50], "tail": o[-1500:]}
    if rc == 0:
        write_json(stamp, res)
    return res
