#!/usr/bin/env python3
"""Regenerates /verif/MANIFEST.json from the table below.  A property is claimed only when
theories/Properties/<id>.v states at least one theorem; otherwise it is listed under not_applicable
with the reason (so the manifest is valid at all times)."""
import json
import os
import re
import subprocess
import sys

VERIF = os.path.dirname(os.path.dirname(os.path.abspath(__file__)))
sys.path.insert(0, os.path.join(VERIF, "lib"))
import vcheck as V  # noqa: E402

TECH = "machine-checked proof in Coq 8.16.1 about an executable Gallina model; model tied to /repo on every run"

P = {
 "C01": dict(
  text="Partial. Theorems (all inputs): exact crossing/validity oracles are sound and complete w.r.t. their Prop definitions; every output vertex is a routed pixel centre (provenance); no-collapse outputs consist of routed edges only; the full statement is refuted for the faithful model by the F5 witness when one is known. The global implication 'valid input => no two output edges cross' (Guibas-Marimont deformation argument) is NOT a theorem: it is decided on every run by exact search over generated valid polygons on the implementation, with the model held to the code by vm_compute correspondence (edge multisets).",
  note="Trusted: Coq kernel+vm_compute; hand-written Index/Snap model tied by correspondence (tie H) on every run; float predicates modelled by exact integer versions (checked envelope on dyadic grids); search is not proof for the global clause.",
  tech=TECH + " (tie H: vm_compute correspondence); exact-arithmetic search for the unproved global clause", ref="DESIGN.md 6 C01"),
 "C02": dict(
  text="Theorems for all segments, hot sets and depths: the integer pixel test equals 'closed segment meets half-open square' (lineIntersects_spec, via 1-D Helly over Q); routed centres are centroids of occupied pixels; ordering/NoDup/completeness of the quadtree descent as far as proved (see evidence 'partial'). Correspondence: snapClosestPoints, lineIntersects (incl. 128-bit product path) and non-collapsing polygons compared exactly with the model; independent exact-rational clip oracle on the implementation.",
  note="Trusted: Coq kernel+vm_compute; hand-written Index model (addresses (x,y) instead of Morton keys, justified by C17) tied by correspondence; cmpProducts' 128-bit arithmetic modelled as exact Z products.",
  tech=TECH + " (tie H) + independent exact-rational oracle for replay witnesses", ref="DESIGN.md 6 C02"),
 "C03": dict(
  text="Theorems at integer/rational level for all inputs: every routed point is the centroid min + k*S + S/2 of an occupied pixel of that level with S = 2^(d-l)*res (centre formula), provenance of every output coordinate, deviation bound against the ideal centre. Float conversion (ToGeomOrd) and DeviationStats' float arithmetic are an explicit envelope checked by the harness with exact rationals on every built-in quadtree set.",
  note="Trusted: Coq kernel; Index/Snap model tied by correspondence (coordinate multisets); level arithmetic of FromTileMatrixSet checked on the implementation through the verif hook; floats outside the theorems.",
  tech=TECH + " (tie H) + exact-rational oracle on built-in tile matrix sets", ref="DESIGN.md 6 C03"),
 "C04": dict(
  text="Partial. Clause 1 (every output vertex is the pixel centre of an input vertex) is a theorem for all inputs (provenance through every stage). Clause 2 (half-pixel closeness) is proved for routed edges; in general it is refuted by F5. Clause 3 (coverage) is not a theorem. Clauses 2-3 are decided on every run by exact search (Chebyshev box test, even-odd coverage at sample locations) on the implementation; model tied by correspondence on edge and point multisets.",
  note="Trusted: as C01. Search is not proof for clauses 2 (general) and 3.",
  tech=TECH + " (tie H); exact-arithmetic search for clauses 2-3", ref="DESIGN.md 6 C04"),
 "C18": dict(
  text="Partial. Theorems: kmpDeduplicate returns a subsequence and is the identity without step-backs; splitRing conserves directed edges (up to the documented whole-ring reversal); dedupe only deletes rings; conservation for kmpDeduplicate on the visits<=2 class as far as proved (bounded enumeration theorem with the bound in the statement otherwise). The nesting clause (hole inside shell) is search only. Oracle on the implementation: routed-run test, nesting, exact signed-area accounting on polygons filtered to the class by the implementation's own routing.",
  note="Trusted: as C01; class membership is decided with the implementation's own routing output through the verif hook.",
  tech=TECH + " (tie H); exact-arithmetic search for the nesting clause", ref="DESIGN.md 6 C18"),
 "C05": dict(
  text="Theorems at model level for all polygons inside the grid: splitRing totality/shape/orientation/repeat-freeness under the hit-accounting hypothesis, keep policy, reverse flag flips exactly the polygon rings (see evidence for which are full and which partial). Correspondence on ring structure (length, area sign, repeats) for all four flag combinations; oracle checks every returned ring on the implementation.",
  note="Trusted: as C01; orientation is the exact integer sign (float sign agrees except on zero-area rings, which the property exempts).",
  tech=TECH + " (tie H)", ref="DESIGN.md 6 C05"),
 "C06": dict(
  text="Partial. Theorems for all inputs: kmpTable/kmpSearch/kmpSearchAll never index out of range and terminate within the model's fuel (independent of the non-standard shift); a reported match is a match; kmpDeduplicate totality as far as proved (see evidence 'partial': open obligations are named). Exhaustive small-scope enumeration inside Coq (bound stated). Model-level OutOfFuel = would hang. Wall-clock, memory, aliasing are measured by the harness only (watchdog, c*n^2 bound).",
  note="Trusted: as C01; time/memory/stack are runtime behaviour the model cannot exhibit.",
  tech=TECH + " (tie H); harness watchdog for runtime behaviour", ref="DESIGN.md 6 C06"),
 "C07": dict(
  text="Theorems: the model is a function of (grid, polygon, level set, flags); results are independent of the order (and multiplicity) in which levels are processed; reversing any ring of non-zero area leaves the normalised ring, hence the result, unchanged (xprod (rev r) = - xprod r); the reverse flag reverses exactly the rings of the polygon part. Harness: repeated in-process runs, permuted/duplicated id lists, reversed rings, toggled flag, compared bit-for-bit on the implementation.",
  note="Trusted: as C01; Go map iteration is modelled as arbitrary order over keyed/ordered lists; zero-area input rings are outside the reversal theorem (valid polygons have non-zero area).",
  tech=TECH + " (tie H) + repetition on the implementation", ref="DESIGN.md 6 C07"),
 "C08": dict(
  text="Theorems: result keys are requested levels only; on a round grid (coarser resolution exactly 2^(d-L) times the deeper one) extents, centroids, occupied sets and routed centres for level l computed from deepest level L equal those computed from any deeper level d; a concrete non-round grid shows the hypothesis is needed. Levels are independent by construction of the per-level model, which the correspondence checks on multi-level requests.",
  note="Trusted: as C01; the decomposition of the interleaved Go loop into per-level functions is a modelling decision validated by the correspondence on every id subset.",
  tech=TECH + " (tie H)", ref="DESIGN.md 6 C08"),
 "C09": dict(
  text="Full: a polygon is indexed iff EVERY vertex lies in the half-open integer extent [min, min+2^d*res) (floor division), any vertex outside gives OutsideGrid, SnapPolygon then panics or returns the empty result with ignore-outside-grid, and geometry is produced only if all vertices are inside — theorems for all grids with positive resolution, all polygons, all sides and distances. F2 regression example. Correspondence on outcomes {OutsideGrid, empty, snapped} for border-hugging polygons.",
  note="Trusted: Coq kernel; Index model tied by correspondence; 'outside by any amount' is on the tool's 1e-10 integers (a float less than one unit outside truncates onto the border: below resolution).",
  tech=TECH + " (tie H)", ref="DESIGN.md 6 C09"),
 "C10": dict(
  text="Theorems over all feature streams, target counts, per-feature outcomes and ALL schedules of the reader/snapper/router/writer transition system: per-target invariant received++inflight++future = expected, exactly-once in source order with only the target's geometry, unique final state. Correspondence by recorded histories from the real ProcessFeatures with fake sources/targets.",
  note="Trusted: Coq kernel; Go channel/WaitGroup semantics as modelled (rendezvous LTS); fake source/targets.",
  tech=TECH + " (tie H by histories); invariants over all reachable states", ref="DESIGN.md 6 C10"),
 "C11": dict(
  text="Theorems at model level for all interleavings: no deadlock, strictly decreasing measure (termination under any scheduler), return only after every target finished and received everything. Partial: data races and leaked goroutines are runtime behaviour no model exhibits; they are searched dynamically (-race build, goroutine accounting) as supporting evidence.",
  note="Trusted: as C10; race detector and goroutine accounting are search, not proof.",
  tech=TECH + " (tie H by histories); -race/goroutine search for the runtime clause", ref="DESIGN.md 6 C11"),
 "C12": dict(
  text="Theorems for every stream and every page size p>0 about the paged-writer state machine: all rows in order, n/p+1 transactions, extent = bounding box of all non-empty geometries, one rtree entry per non-empty geometry, schema copied (srs pre-seeded by the library: known finding F10, refuted theorem). SQLite/rtree/GeoPackage library are modelled; the real TargetGeopackage is driven through the verif sqlite stand-in and the written file compared with the model.",
  note="Trusted: Coq kernel; SQLite, go-sqlite3, the GeoPackage library and the verif stand-in for SpatiaLite functions are modelled, held to the code by correspondence.",
  tech=TECH + " (tie H on written files)", ref="DESIGN.md 6 C12"),
 "C13": dict(
  text="Partial. Theorems: target path = dir/name_<id>ext on the safe alphabet, distinct ids give distinct files, CLI = per-table composition of writer . route . pipeline(snap cfg), overwrite forgets prior content. urfave/cli, file system and SQLite are modelled; weight is on the end-to-end correspondence of the real binary (built -tags verif) against the composition of library calls.",
  note="Trusted: as C12 plus urfave/cli, path, os.",
  tech=TECH + " (tie H on the real binary)", ref="DESIGN.md 6 C13"),
 "C14": dict(
  text="Theorems: isQuadTree soundness for every record and level, universal single-field perturbation rejection, acceptance implies pixel size = cellSize/16 under stated conditions, validation total; built-in sets by computation over data regenerated from the JSON files on every run.",
  note="Trusted: Coq kernel+vm_compute; translator G3 (JSON -> Coq terms, exact decimals); float ratio test modelled over Q with the tolerance stated.",
  tech=TECH + " (tie G for data, tie H for IsQuadTree/validate)", ref="DESIGN.md 6 C14"),
 "C15": dict(
  text="Theorems over Q for every matrix without variable widths, both corner conventions, every tile and interior point: fromNative . toNative consistent, outside maps to none, bbox spans tile (0,0) to (W,H), all in x,y order. Partial in the float clause (9-decimal rounding, float division): checked by correspondence with margins.",
  note="Trusted: as C14; float rounding is an envelope.",
  tech=TECH + " (tie G data, tie H)", ref="DESIGN.md 6 C15"),
 "C16": dict(
  text="Theorems about the model of the decoder/encoder as the code stands: decode-encode-decode, stable encoding, totality, rejection of non-positive sizes where the code rejects them; refuted theorems + known findings for what the code still gets wrong; built-in documents by computation over regenerated data.",
  note="Trusted: as C14; encoding/json, marshmallow, validator, defaults are modelled by their observed coercion rules, held by correspondence over mutated documents.",
  tech=TECH + " (tie G data, tie H on mutated documents)", ref="DESIGN.md 6 C16"),
 "C17": dict(
  text="Full: uniqueness, round trip, parent = key>>2, not-encodable flag and children keys are theorems for ALL 2^64 address pairs about the programs regenerated from morton.go on every run (bexpr reflection: lor-linearity shape check + unit-vector sweep + extension lemma).",
  note="Trusted: Coq kernel + vm_compute; translator G1 (Go AST -> bexpr, uint ops modulo 2^64); harness cross-checks ToZ/FromZ against the model on ~10^4 inputs per run. No axioms.",
  tech="machine-checked proof in Coq over code regenerated from source (reflection + induction), correspondence by vm_compute", ref="DESIGN.md 6 C17"),
}

ORDER = ["C01", "C02", "C03", "C04", "C18", "C05", "C06", "C07", "C08", "C09", "C10", "C11", "C12", "C13", "C14", "C15", "C16", "C17"]


def has_theorems(pid):
    p = os.path.join(VERIF, "coq/theories/Properties/%s.v" % pid)
    if not os.path.exists(p):
        return False
    return bool(re.search(r"^\s*(Theorem|Corollary)\s+\w+", V.strip_comments(open(p).read()), re.M))


def harness_exists(pid):
    d = os.path.join(VERIF, V.harness_dir(pid))
    if not os.path.isdir(d):
        return False
    for f in os.listdir(d):
        if f.endswith(".go") and ('props["%s"]' % pid) in open(os.path.join(d, f)).read():
            return True
    return False


def hook_commits():
    out = subprocess.run(["git", "-C", V.REPO, "log", "--format=%h %s"], capture_output=True, text=True).stdout
    return [l.split()[0] for l in out.splitlines() if "verif hook" in l]


# properties whose check has been run and reviewed on the unchanged tree (extend as areas are integrated)
READY = [l.strip() for l in open(os.path.join(VERIF, "lib/ready.txt")).read().split() if l.strip()]


def main():
    force = set(sys.argv[1:])
    checks, na = [], []
    for pid in ORDER:
        d = P[pid]
        if (pid in READY and has_theorems(pid) and harness_exists(pid)) or pid in force:
            checks.append({
                "property_id": pid,
                "quick_cmd": "bin/check %s quick" % pid,
                "thorough_cmd": "bin/check %s thorough" % pid,
                "evidence_file": "evidence/%s.json" % pid,
                "replay_cmd_template": "bin/check %s quick --replay {path}" % pid,
                "engine": "rocq-proof",
                "level_claimed": {"category": "proof", "text": d["text"], "design_ref": d["ref"]},
                "level_note": d["note"],
                "technique": d["tech"],
            })
        else:
            na.append({"property_id": pid, "reason": "not claimed at this commit: theorems and/or harness for this property are still under construction (the Rocq technique applies; see DESIGN.md)"})
    m = {
        "version": 1,
        "setup_cmd": "bin/setup",
        "hooks": {"guard": "verif", "enable": "go build -tags verif (harness modules replace github.com/pdok/texel by /repo)",
                  "baseline_off_cmd": "cd /repo && go test -mod=mod -vet=off -count=1 ./...",
                  "source_commits": hook_commits(), "add_only": True},
        "engines": [{"name": "rocq-proof", "path": "coq/", "serves_properties": [c["property_id"] for c in checks],
                     "kind_free_text": "Coq 8.16.1 development: executable Gallina model + theorems; tie G = translator regenerating coq/gen from /repo; tie H = Go harnesses + vm_compute correspondence"}],
        "checks": checks,
        "not_applicable": na,
        "notes": "see DESIGN.md and FRAMEWORK.md; known_findings.json lists recorded findings and fixed defects",
    }
    with open(os.path.join(VERIF, "MANIFEST.json"), "w") as f:
        json.dump(m, f, indent=1)
        f.write("\n")
    print("claimed:", [c["property_id"] for c in checks])
    print("not claimed:", [n["property_id"] for n in na])


if __name__ == "__main__":
    main()
