#!/usr/bin/env python3
"""Regenerates /verif/MANIFEST.json from the table below.  A property is claimed only when
theories/Properties/<id>.v states at least one theorem; otherwise it is listed under not_applicable
with the reason (so the manifest is valid at all times)."""
import json
import os
import re
import subprocess
import sys

VERIF = os.path.dirname(os.path.dirname(os.path.abspath(__file__)))
sys.path.insert(0, os.path.join(VERIF, "lib"))
import vcheck as V  # noqa: E402

TECH = "machine-checked proof in Coq 8.16.1 about an executable Gallina model; model tied to /repo on every run"

P = {
 "C01": dict(
  text="Full on the class of C18, refuted beyond it. C01_routed_steps_do_not_cross: for a valid polygon inside the grid and every level within the index — no assumption on the pixel middles, so also the deepest level of grids with an odd resolution such as WebMercatorQuad — no two routed steps — pairs of consecutive centres of the centre lists of polygon edges — cross properly: the Guibas-Marimont deformation argument completed (first contact of linearly moving segments by real analysis, sweep lemma at a real time, travel order of consecutive hot pixels, valid polygons have edges that touch only at common end points). C01_on_class: snapPolygon, valid polygon, every routed-and-cleaned ring of every requested level visits no pixel centre at three positions => no two edges of the returned geometry of a level cross (every returned edge is a routed step there, C18). Also: exact crossing oracle, sound validity oracle, half-pixel closeness, the sweep lemma, the partial steps (far source edges, same chain, no vertex inside an edge). C01_refuted / C01_refuted_implication: outside the class the statement is machine-checked FALSE for the faithful model on a valid polygon with a hole (finding F5), replayed on the implementation; there the implication is decided on every run by exact search over generated valid polygons; model tied by vm_compute correspondence on edge multisets.",
  note="Trusted: Coq kernel+vm_compute; AXIOMS (only for C01_routed_steps_do_not_cross and C01_on_class, no other theorem of the development): the Coq standard library's real numbers — ClassicalDedekindReals.sig_forall_dec, ClassicalDedekindReals.sig_not_dec, FunctionalExtensionality.functional_extensionality_dep (the first contact time of the deformation is irrational in general); hand-written Index/Snap model tied by correspondence (tie H) on every run and G2 for the leaf functions; float predicates modelled by exact integer versions (checked envelope); search is not proof outside the class. Known finding F5 attributed by mechanism.",
  tech=TECH + " (tie H + G2); exact-arithmetic search for the unproved global clause", ref="DESIGN.md 6 C01"),
 "C02": dict(
  text="Full. For all segments, hot sets, depths and every tie: lineIntersects = 'closed segment meets half-open box' (over Q); findIntersectingQuadrants returns exactly the occupied children met, NoDup, in travel order (mutex and 'certain' shortcuts justified); by induction over levels the route is the NoDup list of occupied pixels met, strongly sorted by travel order, starting at the pixel of a and ending at the pixel of b, reversing with the segment — on any grid whose stored extent covers its pixels (FromTileMatrixSet-style grids qualify). C02_source_tie: containsPoint, getInfiniteQuadrant, the quadrantsToCheck table, oneIfRight/Top are regenerated from pointindex.go on every run and proved equal to the model. The polygon-level clause is a theorem of the model (C02_polygon_noncollapsing, C02_snapPolygon_noncollapsing; no routing or kmp premise left): when every routed-and-cleaned ring (chain) has at least three centres and non-zero area and no centre occurs twice in all chains together, snapLevel — and snapPolygon at every requested level — returns exactly the first chain written counter-clockwise as shell and the others written clockwise as holes (attached iff ringContains finds a vertex in or on the shell, otherwise shells of their own), reversed under the flag; without holes exactly [[chain]]; and the chain IS the concatenation of the routed edges, joints written once (C02_chain_is_concatenation_of_routed_edges). It is also held to the implementation by the exact correspondence and an independent exact-rational oracle. Source tie extended (round 5): the WHOLE body of findIntersectingQuadrants (table and loop), checkPointHits, snapClosestPoints' descent over the Morton-keyed level maps and insertCoord are regenerated from pointindex.go on every run and proved to refine the model (C02_source_tie_find_intersecting, _check_point_hits, _descent, _insert_coord, _index_descent; refinement key = toZ(x,y) by the C17 theorems, no panic, fuel sufficient, deepest level <= 32).",
  note="Trusted: Coq kernel+vm_compute; Index model with (x,y) addresses instead of Morton keys (justified by C17); cmpProducts' 128-bit arithmetic (int64 negation with wrap-around, uint64 conversion, bits.Mul64 high/low words), leavesRoomBelow and lineIntersects are no longer trusted: regenerated from source on every run (gen/LineGen.v) and proved equal to the model's exact Z definitions (C02_source_tie_lineIntersects: cmpProducts for every int64 a, c incl. -2^63 and 0 < b, d < 2^63; lineIntersects for ordinates in [-2^62, 2^62)); hypothesis hs <> [] and the root-extent condition are explicit.",
  tech=TECH + " (tie G2 + H) + independent exact-rational oracle for replay witnesses", ref="DESIGN.md 6 C02"),
 "C03": dict(
  text="Full at integer/rational level: centre formula min + k*S + S/2, every routed point is the centroid of the pixel of an input vertex, deviation bound against the ideal centre (exact above the deepest level / for even resolution, + half an integer unit 0.5e-10 otherwise: the literal bound is refuted by that half unit, below the tool's resolution). Source ties: getQuadrantExtentAndCentroid regenerated from pointindex.go (G2); validation and snapping both use slices.Max of the ids (CLI glue from the ASTs). Float conversion and DeviationStats' float arithmetic are an explicit envelope checked with exact rationals on all 7 built-in sets accepted by validation.",
  note="Trusted: Coq kernel; model tied by correspondence (coordinate multisets, incl. real grids); level arithmetic read back through the verif hook; floats outside the theorems.",
  tech=TECH + " (tie G2 + CLI glue + H) + exact-rational oracle on built-in tile matrix sets", ref="DESIGN.md 6 C03"),
 "C04": dict(
  text="Clause 1 FULL (C04_clause1_vertex_provenance: every output vertex is the centre of the pixel of an input vertex, through routing, spike removal, splitting, dedupe, matching). Clause 2 FULL for routed edges (every point between two centres of a routed chain is within half a pixel, Chebyshev, of the source edge), FULL END TO END ON THE CLASS OF C18 (C04_clause2_on_class: for snapPolygon, every requested level and configuration, when no routed-and-cleaned ring visits a pixel centre at three positions, every point of every cyclic edge of every returned ring is within half a pixel of a point of an input edge; composition of the C18 end-to-end edge theorem with the routed-chain theorem, routing premise discharged from C02) and REFUTED beyond the class (C04_refuted, finding F5, valid-polygon witness replayed on the implementation). Clause 3 (coverage) is not a theorem: decided by exact search (even-odd coverage at sample locations, hole-in-shell test) on the implementation; correspondence on ring nesting and points.",
  note="Trusted: as C01. Search is not proof for clause 3 and for clause 2 outside the class of C18. Known finding F5 attributed by mechanism.",
  tech=TECH + " (tie H + G2); exact-arithmetic search for clauses 2 (general) and 3", ref="DESIGN.md 6 C04"),
 "C18": dict(
  text="Partial (nesting clause: vertex form only, C18_nesting_vertex_partial — every hole of every returned polygon was attached because the model's ringContains answered in-or-on for one of its vertices, ringContains' boundary answer specified exactly; that the whole hole is inside needs C01 and is search only). Theorems for all inputs: splitRing conserves directed edges and signed area (up to the documented whole-ring reversal), dedupeInnersOuters deletes only cancelling shell/hole pairs, per-level assembly conserves edges modulo such pairs, kmpDeduplicate returns a subsequence, is the identity on repeat-free chains, and ON THE CLASS OF THE PROPERTY (no centre at three positions) never fails and conserves directed edges modulo cancelling pairs (C18_kmp_conserves_le2, every ring, any length); the class boundary is real (F5 at four visits). END TO END on the class, for snapLevel and every requested level of snapPolygon, all flag combinations (C18_end_to_end_edges, C18_snapPolygon_edges_are_routed_steps, C18_end_to_end_area, C18_snapPolygon_area): every cyclic edge of every returned ring is, up to direction, an edge of a routed-and-cleaned ring (the argument of kmpDeduplicate) and hence a step between consecutive centres of one routed edge (no run is merged); the doubled signed area of the returned geometry is the sum over the input rings of the area of their routed-and-cleaned rings, a ring counting negatively only under the documented whole-ring role swap and a hole that found no shell being returned as a shell; the plain equation is refuted for invalid input rings (C18_end_to_end_area_plain_refuted), and for valid polygons it additionally needs topology preservation (C01), which stays search only. Oracle on the implementation: routed-run test, nesting, exact signed-area accounting, class decided by the implementation's own routing.",
  note="Trusted: as C01; class membership via the verif hook.",
  tech=TECH + " (tie H incl. exhaustive chains); exact-arithmetic search for the nesting clause", ref="DESIGN.md 6 C18"),
 "C05": dict(
  text="Full at model level for all polygons inside the grid, valid or not: splitRing is total for any flags, returns repeat-free rings when the flags contain every repeated vertex, hit accounting flags exactly the centres recorded twice, shell CCW-or-zero / holes CW-or-zero (exactly opposite with reverse), every ring >= 3 vertices without keep, collapsed parts last as 1-2 vertex rings with keep, never an empty list, keep policy prefix theorem; routing premises discharged from C02. No premise is left: C05_rings_well_formed(_routing_discharged) hold for every in-grid polygon (every returned ring is repeat-free; with two or more vertices last <> first and no equal neighbours). The premise they used to carry (kmp_short_nodup: a spike-removal output of < 3 vertices is repeat-free) is false of kmpDeduplicate itself (C05_kmp_short_nodup_refuted: a 75-vertex chain over 3 centres without equal cyclic neighbours is reduced to [p; p]) - finding F14, SnapPolygon returned a two-vertex line visiting its point twice; repaired in cleanupNewRing (closing vertex dropped again after spike removal, in a loop), after which short outputs are repeat-free by construction; C05_regression_F14, corpus/C05 replayed by the harness.",
  note="Trusted: as C01; orientation is the exact integer sign (float sign agrees except on zero-area rings, exempt in the property).",
  tech=TECH + " (tie H on ring structure for all four flag sets, real and synthetic grids)", ref="DESIGN.md 6 C05"),
 "C06": dict(
  text="Partial, with a machine-checked refutation. Theorems for all inputs: kmpTable/kmpSearch/kmpSearchAll never index out of range and terminate (independent of the non-standard shift), splitRing is total, kmpDeduplicate never exhausts its fuel (no hang at model level) and can fail only through ring[-1] (exactly when matches=1 and reverse matches=0, not known reachable) or RemoveSequences' slice bounds; total on chains without step back and on the C18 class; bounded totality by enumeration inside Coq. END TO END (C06_snapPolygon_errors_only_from_spike_removal, C06_snapPolygon_total_on_class, also for the model with the Morton-key limit up to deepest level 32): every other stage — routing and cleanupNewVertices (C02: no empty centre list), splitRing, dedupeInnersOuters, matchInnersToPolygons, the level assembly, rings of < 3 vertices, empty rings, dying levels — is total on every in-grid polygon, valid or not, so if snapPolygon fails then kmpDeduplicate failed with that very error (ring[-1] or slice bounds, never a hang) on a routed-and-cleaned ring of >= 3 vertices, and on the class of C18 (no centre at three positions) snapPolygon never fails. C06_kmp_total_refuted: a 33-vertex ring over 3 centres makes it fail with SliceBounds, also at polygon level in the model — replayed: the real SnapPolygon panics (known finding F13). Runtime behaviour (time, memory, aliasing) is measured by the harness only. Source tie extended (round 5): the whole of splitRing incl. its ordered-map stack walk (C06_source_tie_split_ring), dedupeInnersOuters (C06_source_tie_dedupe_inners_outers), matchInnersToPolygons (C06_source_tie_match_inners: the index panic of polygons[k] = append(..) is shown unreachable) and twelve ring helpers of snap.go / mapslicehelp.go (C06_source_tie_ring_helpers) are regenerated from source on every run and proved equal to the model for all inputs and outcomes; of the per-polygon pipeline only addPointsAndSnap / SnapPolygon (the interleaved ring x level loop) is still hand-modelled.",
  note="Trusted: as C01, except that kmpTable/kmpSearch/kmpSearchAll are no longer a hand transcription: regenerated from snap.go on every run (gen/KmpGen.v, loops as fuelled Fixpoints over the assigned variables, index/slice panics as Err values) and proved equal to the model on all inputs and outcomes (C06_source_tie_kmp_search; int as exact Z, [2]float64 as points); likewise cleanupNewVertices (incl. its panic), asPointOrLine, ensureCorrectWindingOrder (gen/SnapSmallGen.v, C06_source_tie_small; windingOrderIsCorrect and mapslicehelp.ReverseClone stay modelled); and kmpDeduplicate itself with mapslicehelp.RemoveSequences (gen/KmpDedupGen.v, C06_source_tie_kmp_deduplicate: equal to the model for every ring and outcome; kept as the model's functions after an AST check: the go-sortedmap calls (New with the a[xAx] < b[xAx] ordering, Insert keyed by fmt.Sprint(segment), Keys/Map), slices.Contains, copy + slices.Reverse on a made local, append onto the ring window as list append); cleanupNewRing (gen/CleanupRingGen.v, C06_source_tie_cleanup_new_ring: calls the regenerated kmpDeduplicate/asPointOrLine; of splitRing only the last part (classification by size/winding order and the swap) is regenerated, gen/SplitTailGen.v, C06_source_tie_split_ring_partial; its time/memory/stack are runtime behaviour the model cannot exhibit. Known findings F11 (level > 32) and F13 attributed by mechanism. Round 5: splitRing is now tied as a whole (go-ordered-map / Go map / verticesHitMultiple as trusted micro-models after an AST check; slice aliasing outside the translation).",
  tech=TECH + " (tie H incl. exhaustive chains through code and model); harness watchdog for runtime behaviour", ref="DESIGN.md 6 C06"),
 "C07": dict(
  text="Full at model level: the model is a function; results do not depend on the order or multiplicity in which levels are processed; reversing any subset of rings of non-zero area leaves the result unchanged (xprod (rev r) = - xprod r; the hot set enters only through membership); the reverse flag reverses exactly the rings of the polygon part and nothing else. Harness: repeated runs, permuted/duplicated id lists, reversed rings, toggled flag, bit-for-bit on the implementation, incl. tile matrix sets in tiny units. Round 5 harness: the caller's own polygon value and id slice handed over again with nothing copied, one id buffer refilled between requests, rings of >= 1024 vertices under GOMAXPROCS 1/2/3/8.",
  note="Trusted: as C01; Go map iteration modelled as arbitrary order over keyed/ordered lists; zero-area input rings are outside the reversal theorem (valid polygons have non-zero area).",
  tech=TECH + " (tie H) + repetition on the implementation", ref="DESIGN.md 6 C07"),
 "C08": dict(
  text="Full: result keys are requested levels only; on a round grid (coarser resolution exactly 2^(d-L) times the deeper one, e.g. 2^d | XSpan) extents, centroids, occupied sets and routed centres for level l computed from deepest level L equal those computed from any deeper level d; a concrete non-round grid shows the hypothesis is needed; address computation and pixel extent regenerated from source (G2). Levels are independent by construction of the per-level model, which the correspondence checks on every id subset. Round 5 harness: requests enumerated in one refilled id buffer; before one call in four a polygon that is skipped as outside the grid is snapped with the same set and ids.",
  note="Trusted: as C01; the decomposition of the interleaved Go loop into per-level functions is a modelling decision validated by the correspondence on all id subsets (see DESIGN 9).",
  tech=TECH + " (tie G2 + H over all id subsets)", ref="DESIGN.md 6 C08"),
 "C09": dict(
  text="Full: a polygon is indexed iff EVERY vertex lies in the half-open integer extent [min, min+2^d*res), any vertex outside gives OutsideGrid, SnapPolygon then panics or returns the empty result with ignore-outside-grid, geometry is produced only if all vertices are inside — for all grids with positive resolution, all polygons, all sides and distances. C09_source_tie: InsertPoint's address computation (floor division) and InsertCoord's range test are regenerated from pointindex.go on every run and proved equal to the model. F2 regression example.",
  note="Trusted: Coq kernel; 'outside by any amount' is on the tool's 1e-10 integers (a float less than one unit outside truncates onto the border: below resolution).",
  tech=TECH + " (tie G2 + H)", ref="DESIGN.md 6 C09"),
 "C10": dict(
  text="Full over all feature streams, target counts, per-feature outcomes and ALL schedules of the 19-label reader/snapper/router/writer transition system: per-target invariant received++inflight++future = expected, exactly once in source order with only the target's geometry, unique final state, no panic under the contract of processPolygonFunc. Correspondence by recorded histories from the real ProcessFeatures with fake sources/targets (child processes, GOMAXPROCS 1-16, delay profiles). Round 5: the concurrency skeleton of processing.go (every statement of ProcessFeatures, processFeatures, writeFeaturesToTargets and its goroutine literals, readFeaturesFromSource, processMultiPolygon, polygonsToMulti; channel makes with their buffer size, go, defer, wg ops, sends, receives, closes, loops; everything else as its printed source text) is regenerated on every run and equals the annotated transcription the model was written from (C10_source_tie_skeleton). Harness: multipolygons of 15-257 parts; a virtual-time stream (testing/synctest bubble, go1.26.8 test binary) with pauses of 2 s to 25 h at the source, in the snapping function and at a target.",
  note="Trusted: Coq kernel; Go channel/WaitGroup semantics as modelled (rendezvous LTS); fake source/targets.",
  tech=TECH + " (tie H by histories); invariants over all reachable states", ref="DESIGN.md 6 C10"),
 "C11": dict(
  text="Full at model level for all interleavings, no fairness assumed: no deadlock, strictly decreasing measure (every execution finite), return only after every target finished and received everything, reader and snapper past their last blocking operation at return. Partial: data races and leaked goroutines are runtime behaviour no model exhibits; searched dynamically (second harness binary built -race, goroutine accounting) as supporting evidence. Round 5: C11_source_tie_skeleton (the regenerated concurrency skeleton of processing.go = the transcription the model was written from) and, with an executable small-step semantics of the skeleton language (goroutines as frame stacks, rendezvous, close, wait groups, defer, panics), C11_source_tie_model_runs_are_skeleton_runs_partial / C11_source_tie_complete_runs_partial: every run of the model, any schedule, is a run of the semantics of the regenerated skeleton with exactly the communication events its labels stand for, ending in the state the model state stands for; a final model state gives a run in which every goroutine has returned. Missing (hence partial): the converse simulation. Harness: virtual-time stream as C10.",
  note="Trusted: as C10; race detector and goroutine accounting are search, not proof.",
  tech=TECH + " (tie H by histories); -race/goroutine search for the runtime clause", ref="DESIGN.md 6 C11"),
 "C12": dict(
  text="Full for the paged-writer state machine, every stream and every page size p>0: one row per feature in order, n/p+1 transactions, extent = bounding box of all non-empty geometries (commutative idempotent monoid), one rtree entry per non-empty geometry, schema and spatial reference system copied (also over an srs id the library pre-seeds: defect F10, repaired, C12_regression_F10); p=0 is DivZero. The real TargetGeopackage is driven through the verif SQLite stand-in and the written file compared with the model. Round 5: WriteFeatures (the paging loop over the channel), writeFeatures (one transaction per page: Begin, Prepare, per feature NewBinary / capped column copy / Exec / empty test / extent accumulation, Close, Commit, UpdateGeometryExtent) and createSQL / selectSQL / insertSQL are regenerated from gpkg.go on every run and proved equal to the model's write_features / flush for every target, page size (0 and negative included), database and stream, all error outcomes (C12_source_tie_writer), and to the model's row layout (C12_source_tie_sql); database and library calls are mapped to abstract operations after an AST check. Harness: bulk pages at row counts where batching by a database limit wraps (999 and 32766 divided by 1-8 columns).",
  note="Trusted: Coq kernel; SQLite, go-sqlite3, the GeoPackage library and the verif stand-in for SpatiaLite functions are modelled, held to the code by correspondence on written files.",
  tech=TECH + " (tie H on written files)", ref="DESIGN.md 6 C12"),
 "C13": dict(
  text="Partial (urfave/cli, file system, path, SQLite modelled). Theorems: target path = dir/name_<id>ext on the safe alphabet (full path.Clean model), distinct ids give distinct files, an id list with repetitions is the run on its distinct ids (one target file per distinct id: C13_duplicate_ids_one_file_each), flag plumbing, validation gate, CLI = per-table composition of writer . route . pipeline(snap cfg), overwrite forgets prior content; C13_source_tie: flag->option map, suffix format, statement shape of injectSuffixIntoPath and IsQuadTree-before-DeviationStats extracted from main.go's AST on every run. Weight is on the end-to-end correspondence of the real binary (built -tags verif, also -race) against the composition of library calls (id lists with repetitions; date/time attributes compared as instants). Round 5 harness: wide attribute tables at the default page size (about 32766 bound values per page), runs under GOMAXPROCS 1 and 2, a tool that does not exit within 120 s is a violation.",
  note="Trusted: as C12 plus urfave/cli, path, os.",
  tech=TECH + " (CLI glue tie + tie H on the real binary)", ref="DESIGN.md 6 C13"),
 "C14": dict(
  text="Theorems: isQuadTree soundness for every record and level, universal single-field perturbation rejection, acceptance implies pixel size = cellSize/16 under stated conditions, validation total; built-in sets by computation over data regenerated from the JSON files on every run (G3). Round 5: the body of pointindex.IsQuadTree is regenerated statement by statement on every run and proved equal to the model's isQuadTree for EVERY record, no hypotheses (C14_source_tie_isQuadTree; nil dereference = panic verdict, 64-bit successor of the previous id shown equal to the exact one), the n-th errors.New being the model's Reject n (C14_source_tie_isQuadTree_checks).",
  note="Trusted: Coq kernel+vm_compute; translator G3 (JSON -> Coq terms, exact decimals); float ratio test modelled over Q with the tolerance stated.",
  tech=TECH + " (tie G3 for data, tie H for IsQuadTree/validate)", ref="DESIGN.md 6 C14"),
 "C15": dict(
  text="Theorems over Q for every matrix without variable widths, both corner conventions, every tile and interior point: fromNative . toNative consistent, outside maps to none, bbox spans tile (0,0) to (W,H), all in x,y order. Partial in the float clause (9-decimal rounding, float division): checked by correspondence with margins. Round 5: FromNative, ToNative, MatrixSize, MatrixBoundingBox, ToXYPoint, IsLatLon, axisOrderIsLatLon and roundFloat of tms20.go are regenerated on every run with float64 read as exact Q and proved equal to the model for all inputs (C15_source_tie_addressing, _tm); the translated roundFloat is within 5e-10 of the identity the model uses (C15_source_tie_roundFloat).",
  note="Trusted: as C14; float rounding is an envelope.",
  tech=TECH + " (tie G3 data, tie H)", ref="DESIGN.md 6 C15"),
 "C16": dict(
  text="Full at model level: decode-encode-decode (unconditional), stable encoding, decoder totality (no document panics), every non-positive, fractional or oversized size member rejected (defects F6a, F6b, F6c repaired; regression Examples); built-in and test documents by computation over data regenerated on every run.",
  note="Trusted: as C14; encoding/json, marshmallow, validator, defaults are modelled by their observed coercion rules, held by correspondence over mutated documents.",
  tech=TECH + " (tie G3 data, tie H on mutated documents)", ref="DESIGN.md 6 C16"),
 "C17": dict(
  text="Full: uniqueness, round trip, parent = key>>2, not-encodable flag and children keys are theorems for ALL 2^64 address pairs about the programs regenerated from morton.go on every run (bexpr reflection: lor-linearity shape check + unit-vector sweep + extension lemma).",
  note="Trusted: Coq kernel + vm_compute; translator G1 (Go AST -> bexpr, uint ops modulo 2^64) and G2 for pointindex.getQuadrantZs (gen/ChildrenGen.v, proved equal to the model's getQuadrantZs for every key incl. the MustToZ panic: C17_source_tie_children); harness cross-checks ToZ/FromZ against the model on ~10^4 inputs per run. No axioms.",
  tech="machine-checked proof in Coq over code regenerated from source (reflection + induction), correspondence by vm_compute", ref="DESIGN.md 6 C17"),
}

ORDER = ["C01", "C02", "C03", "C04", "C18", "C05", "C06", "C07", "C08", "C09", "C10", "C11", "C12", "C13", "C14", "C15", "C16", "C17"]


def has_theorems(pid):
    p = os.path.join(VERIF, "coq/theories/Properties/%s.v" % pid)
    if not os.path.exists(p):
        return False
    return bool(re.search(r"^\s*(Theorem|Corollary)\s+\w+", V.strip_comments(open(p).read()), re.M))


def harness_exists(pid):
    d = os.path.join(VERIF, V.harness_dir(pid))
    if not os.path.isdir(d):
        return False
    for f in os.listdir(d):
        if f.endswith(".go") and ('props["%s"]' % pid) in open(os.path.join(d, f)).read():
            return True
    return False


def hook_commits():
    out = subprocess.run(["git", "-C", V.REPO, "log", "--format=%h %s"], capture_output=True, text=True).stdout
    return [l.split()[0] for l in out.splitlines() if "verif hook" in l]


# properties whose check has been run and reviewed on the unchanged tree (extend as areas are integrated)
READY = [l.strip() for l in open(os.path.join(VERIF, "lib/ready.txt")).read().split() if l.strip()]


def main():
    force = set(sys.argv[1:])
    checks, na = [], []
    for pid in ORDER:
        d = P[pid]
        if (pid in READY and has_theorems(pid) and harness_exists(pid)) or pid in force:
            checks.append({
                "property_id": pid,
                "quick_cmd": "bin/check %s quick" % pid,
                "thorough_cmd": "bin/check %s thorough" % pid,
                "evidence_file": "evidence/%s.json" % pid,
                "replay_cmd_template": "bin/check %s quick --replay {path}" % pid,
                "engine": "rocq-proof",
                "level_claimed": {"category": "proof", "text": d["text"], "design_ref": d["ref"]},
                "level_note": d["note"],
                "technique": d["tech"],
            })
        else:
            na.append({"property_id": pid, "reason": "not claimed at this commit: theorems and/or harness for this property are still under construction (the Rocq technique applies; see DESIGN.md)"})
    m = {
        "version": 1,
        "setup_cmd": "bin/setup",
        "hooks": {"guard": "verif", "enable": "go build -tags verif (harness modules replace github.com/pdok/texel by /repo)",
                  "baseline_off_cmd": "cd /repo && go test -mod=mod -vet=off -count=1 ./...",
                  "source_commits": hook_commits(), "add_only": True},
        "engines": [{"name": "rocq-proof", "path": "coq/", "serves_properties": [c["property_id"] for c in checks],
                     "kind_free_text": "Coq 8.16.1 development: executable Gallina model + theorems; tie G = translator regenerating coq/gen from /repo; tie H = Go harnesses + vm_compute correspondence"}],
        "checks": checks,
        "not_applicable": na,
        "notes": "see DESIGN.md and FRAMEWORK.md; known_findings.json lists recorded findings and fixed defects",
    }
    with open(os.path.join(VERIF, "MANIFEST.json"), "w") as f:
        json.dump(m, f, indent=1)
        f.write("\n")
    print("claimed:", [c["property_id"] for c in checks])
    print("not claimed:", [n["property_id"] for n in na])


if __name__ == "__main__":
    main()
