package main

import (
	"fmt"
	"math/rand"
	"sort"
	"strings"

	hc "verif/hcommon"
)

// ---- scenario = configuration (targets, stream with outcome table) + schedule knobs ----------------

// Outcome: what the fake processPolygonFunc returns for one polygon: tile matrix id -> polygon ids.
// A missing key = dropped, one id = kept, several = split.
type Outcome map[string][]uint64 // keyed by decimal tmID (JSON friendly)

type FeatSpec struct {
	ID    uint64    `json:"id"`
	Kind  string    `json:"kind"`  // polygon | multipolygon | nil | point | linestring | multipoint | polygonptr | collection | multilinestring
	Parts []Outcome `json:"parts"` // polygon: exactly one; multipolygon: one per part; others: none
}

type Delays struct {
	Source  int         `json:"source"` // 0 none, 1 gosched, 2 short sleeps, 3 long sleeps
	Snap    int         `json:"snap"`
	Target  map[int]int `json:"target"`   // per target
	Finish  map[int]int `json:"finish"`   // per target: delay (microseconds) between seeing the close and returning
	LogLate bool        `json:"log_late"` // record a received feature after (true) or before the handling delay
}

// LongPauses: pauses of seconds to hours at chosen points.  They are only generated for the virtual-time stream
// (vt_test.go: the run happens inside a testing/synctest bubble, where sleeping costs nothing), so that behaviour that
// depends on the clock — stall guards, idle timeouts, "still waiting" timers — is exercised at any duration.
type LongPauses struct {
	Source map[int]int         `json:"source,omitempty"` // feature index (len(features) = before the close) -> seconds before handing it over
	Snap   map[int]int         `json:"snap,omitempty"`   // feature index -> seconds inside the processPolygonFunc (every part)
	Target map[int]map[int]int `json:"target,omitempty"` // target -> k-th received feature (0-based) -> seconds of handling
}

type Scenario struct {
	Long     *LongPauses `json:"long,omitempty"`
	Index    int         `json:"index"`
	Seed     int64       `json:"seed"`
	Procs    int         `json:"gomaxprocs"`
	Targets  []int       `json:"targets"`
	Features []FeatSpec  `json:"features"`
	Delays   Delays      `json:"delays"`
	Profile  string      `json:"profile"`
}

// Event as recorded by the fakes, in the order of one global log (mutex).
type Event struct {
	K   string `json:"k"`             // recv | finish | return
	TM  int    `json:"tm,omitempty"`  // target
	ID  uint64 `json:"id,omitempty"`  // feature id read from Columns()[0]
	G   string `json:"g,omitempty"`   // geometry digest: orig | p<id> | m<id>,<id>,... | alien:<what>
	Col bool   `json:"col,omitempty"` // Columns() is not the original slice
}

type Result struct {
	Index          int     `json:"index"`
	History        []Event `json:"history"`
	Hang           bool    `json:"hang"`
	Stacks         string  `json:"stacks,omitempty"`
	EarlyReturn    []int   `json:"early_return,omitempty"` // targets not finished when ProcessFeatures returned
	Leaked         int     `json:"leaked"`                 // goroutines above baseline after settling
	LeakStacks     string  `json:"leak_stacks,omitempty"`
	AliveAtReturn  int     `json:"alive_at_return"`   // goroutines above baseline right at return (allowed: reader/snapper)
	BadIDs         string  `json:"bad_ids,omitempty"` // processPolygonFunc called with ids other than the targets
	UnknownPolygon int     `json:"unknown_polygon"`   // processPolygonFunc called with a polygon that is no source polygon
	Millis         float64 `json:"ms"`
}

var otherKinds = []string{"nil", "point", "linestring", "multipoint", "polygonptr", "collection", "multilinestring"}

func genTargets(r *rand.Rand, n int) []int {
	seen := map[int]bool{}
	var ts []int
	for len(ts) < n {
		var t int
		switch r.Intn(10) {
		case 0:
			t = -1 - r.Intn(5)
		case 1:
			t = 1<<40 + r.Intn(3)
		default:
			t = r.Intn(20)
		}
		if !seen[t] {
			seen[t] = true
			ts = append(ts, t)
		}
	}
	return ts
}

// nilPolyFlag marks a result polygon id whose polygon is a NIL geom.Polygon (a computed, empty result: the snapping
// function is free to return it; the wrapper must still deliver it and not fall back on the source geometry).
const nilPolyFlag = uint64(1) << 40

func genOutcome(r *rand.Rand, ts []int, next *uint64, pDrop, pSplit float64) Outcome {
	return genOutcomeNil(r, ts, next, pDrop, pSplit, false)
}

func genOutcomeNil(r *rand.Rand, ts []int, next *uint64, pDrop, pSplit float64, allowNil bool) Outcome {
	o := Outcome{}
	for _, t := range ts {
		x := r.Float64()
		switch {
		case x < pDrop:
		case x < pDrop+pSplit:
			k := 2 + r.Intn(3)
			for j := 0; j < k; j++ {
				*next++
				o[fmt.Sprint(t)] = append(o[fmt.Sprint(t)], *next)
			}
		default:
			*next++
			id := *next
			if allowNil && r.Intn(25) == 0 {
				id |= nilPolyFlag
			}
			o[fmt.Sprint(t)] = []uint64{id}
		}
	}
	return o
}

func genLength(r *rand.Rand, maxLen int) int {
	switch x := r.Intn(100); {
	case x < 6:
		return 0
	case x < 14:
		return 1 + r.Intn(2)
	case x < 60:
		return 3 + r.Intn(12)
	case x < 90:
		return 15 + r.Intn(50)
	default:
		return 65 + r.Intn(maxLen-64)
	}
}

var profiles = []string{"uniform", "fast", "slow-reader", "slow-snap", "slow-last-target", "slow-finish", "one-proc", "slow-first-target", "bursty"}

var manyParts = []int{15, 17, 31, 33, 40, 63, 65, 100, 129, 257}

func genScenario(r *rand.Rand, idx int, scheduleHeavy bool) Scenario {
	sc := Scenario{Index: idx, Seed: r.Int63()}
	nT := 1 + r.Intn(5)
	if r.Intn(50) == 0 {
		nT = 0
	}
	sc.Targets = genTargets(r, nT)
	n := genLength(r, 200)
	if scheduleHeavy && n > 80 {
		n = 80 + r.Intn(121) // keep some long ones
	}
	pDrop, pSplit := 0.3, 0.25
	switch r.Intn(6) {
	case 0:
		pDrop, pSplit = 0.7, 0.1
	case 1:
		pDrop, pSplit = 0.05, 0.6
	}
	var next uint64
	for i := 0; i < n; i++ {
		f := FeatSpec{ID: uint64(1000 + i)}
		if r.Intn(12) == 0 && i > 0 {
			f.ID = uint64(1000 + r.Intn(i)) // a repeated identity: "exactly once" is about occurrences, not ids
		}
		switch x := r.Intn(100); {
		case x < 45:
			f.Kind = "polygon"
			f.Parts = []Outcome{genOutcomeNil(r, sc.Targets, &next, pDrop, pSplit, true)}
		case x < 70:
			f.Kind = "multipolygon"
			k := r.Intn(5) // 0 parts allowed
			if r.Intn(20) == 0 {
				// a multipolygon of very many parts (an archipelago): thresholds of batching / worker pools / buffered
				// hand-overs in the part loop (16, 32, 64, 128, 256) are only crossed by such features
				k = manyParts[r.Intn(len(manyParts))]
			}
			f.Parts = []Outcome{}
			for j := 0; j < k; j++ {
				f.Parts = append(f.Parts, genOutcome(r, sc.Targets, &next, pDrop+0.1, pSplit))
			}
			// two parts of one multipolygon may snap to the very same polygon on a (coarse) tile matrix: the target still
			// receives every computed polygon, also the identical ones
			if k >= 2 && r.Intn(4) == 0 {
				a, b := r.Intn(k), r.Intn(k)
				if a != b {
					for key, ids := range f.Parts[a] {
						if len(ids) > 0 && len(f.Parts[b][key]) > 0 && r.Intn(2) == 0 {
							f.Parts[b][key][0] = ids[0]
						}
					}
				}
			}
		default:
			f.Kind = otherKinds[r.Intn(len(otherKinds))]
		}
		sc.Features = append(sc.Features, f)
	}
	sc.Procs = 1 + r.Intn(16)
	sc.Profile = profiles[r.Intn(len(profiles))]
	d := Delays{Target: map[int]int{}, Finish: map[int]int{}, LogLate: r.Intn(2) == 0}
	lvl := func() int { return r.Intn(3) }
	d.Source, d.Snap = lvl(), lvl()
	for _, t := range sc.Targets {
		d.Target[t] = lvl()
		if r.Intn(3) == 0 {
			d.Finish[t] = r.Intn(1500)
		}
	}
	lastTarget := -1 // the target that receives the last delivered feature
	for i := len(sc.Features) - 1; i >= 0 && lastTarget < 0; i-- {
		for _, t := range sc.Targets {
			if len(expectFeature(sc.Features[i], t)) > 0 {
				lastTarget = t
			}
		}
	}
	switch sc.Profile {
	case "fast":
		d.Source, d.Snap = 0, 0
		for _, t := range sc.Targets {
			d.Target[t] = 0
		}
		d.Finish = map[int]int{}
	case "slow-reader":
		d.Source = 3
	case "slow-snap":
		d.Snap = 3
	case "slow-last-target":
		if lastTarget >= 0 || len(sc.Targets) > 0 {
			if lastTarget < 0 {
				lastTarget = sc.Targets[0]
			}
			d.Target[lastTarget] = 3
			d.Finish[lastTarget] = 2000 + r.Intn(4000)
		}
	case "slow-first-target":
		if len(sc.Targets) > 0 {
			d.Target[sc.Targets[0]] = 3
		}
	case "slow-finish":
		for _, t := range sc.Targets {
			d.Finish[t] = 500 + r.Intn(5000)
		}
	case "one-proc":
		sc.Procs = 1
	case "bursty":
		d.Source, d.Snap = 1, 1
	}
	sc.Delays = d
	return sc
}

// ---- the ORACLE's notion of what a target must get (independent of the Coq model) -------------------

func geomDigest(ids []uint64, multi bool) string {
	if !multi && len(ids) == 1 {
		return fmt.Sprintf("p%d", ids[0])
	}
	s := make([]string, len(ids))
	for i, x := range ids {
		s[i] = fmt.Sprint(x)
	}
	return "m" + strings.Join(s, ",")
}

// expectFeature: the digests (zero or one) target t must receive for feature f.
func expectFeature(f FeatSpec, t int) []string {
	key := fmt.Sprint(t)
	switch f.Kind {
	case "polygon":
		ids := f.Parts[0][key]
		if len(ids) == 0 {
			return nil
		}
		return []string{geomDigest(ids, false)}
	case "multipolygon":
		var ids []uint64
		for _, p := range f.Parts {
			ids = append(ids, p[key]...)
		}
		if len(ids) == 0 {
			return nil
		}
		return []string{geomDigest(ids, true)}
	default:
		return []string{"orig"}
	}
}

type recvd struct {
	ID uint64 `json:"id"`
	G  string `json:"g"`
}

func expectedSeq(sc Scenario, t int) []recvd {
	out := []recvd{}
	for _, f := range sc.Features {
		for _, g := range expectFeature(f, t) {
			out = append(out, recvd{f.ID, g})
		}
	}
	return out
}

type oracleFinding struct {
	Clause string // "content" (C10 and C11) or "order" (C11 only)
	What   string
	Obs    any
	Exp    any
}

// oracle checks the recorded history of one run against the property statements.
func oracle(sc Scenario, res Result) []oracleFinding {
	var fs []oracleFinding
	if res.Hang {
		fs = append(fs, oracleFinding{"content", "ProcessFeatures did not return (watchdog): deadlock; features are missing at the targets", map[string]any{"history": res.History, "goroutines": res.Stacks}, "a complete history ending with return"})
	}
	isT := map[int]bool{}
	for _, t := range sc.Targets {
		isT[t] = true
	}
	got := map[int][]recvd{}
	finishAt := map[int]int{}
	finishCount := map[int]int{}
	returnAt, returnCount := -1, 0
	for i, e := range res.History {
		switch e.K {
		case "recv":
			if !isT[e.TM] {
				fs = append(fs, oracleFinding{"content", fmt.Sprintf("a feature was delivered to %d which is not a target", e.TM), e, nil})
			}
			if _, done := finishAt[e.TM]; done {
				fs = append(fs, oracleFinding{"order", fmt.Sprintf("target %d received a feature after it finished", e.TM), e, nil})
			}
			if e.Col {
				fs = append(fs, oracleFinding{"content", fmt.Sprintf("target %d received feature %d with attribute values that are not the original Columns()", e.TM, e.ID), e, nil})
			}
			got[e.TM] = append(got[e.TM], recvd{e.ID, e.G})
		case "finish":
			finishCount[e.TM]++
			finishAt[e.TM] = i
		case "return":
			returnCount++
			returnAt = i
		}
	}
	for _, t := range sc.Targets {
		exp := expectedSeq(sc, t)
		g := got[t]
		if g == nil {
			g = []recvd{}
		}
		if fmt.Sprint(g) != fmt.Sprint(exp) {
			fs = append(fs, oracleFinding{"content", fmt.Sprintf("target %d did not receive exactly its features in source order with its own tile matrix's geometry (%s)", t, diffKind(g, exp)), g, exp})
		}
		if !res.Hang {
			if finishCount[t] != 1 {
				fs = append(fs, oracleFinding{"order", fmt.Sprintf("target %d finished %d times", t, finishCount[t]), res.History, nil})
			} else if returnAt >= 0 && finishAt[t] > returnAt {
				fs = append(fs, oracleFinding{"order", fmt.Sprintf("ProcessFeatures returned before target %d finished", t), res.History, "finish before return"})
			}
		}
	}
	if !res.Hang && returnCount != 1 {
		fs = append(fs, oracleFinding{"order", fmt.Sprintf("%d return events", returnCount), res.History, nil})
	}
	if len(res.EarlyReturn) > 0 {
		fs = append(fs, oracleFinding{"order", fmt.Sprintf("ProcessFeatures returned while WriteFeatures of target(s) %v had not returned", res.EarlyReturn), res.History, "all targets done at return"})
	}
	if res.Leaked > 0 {
		fs = append(fs, oracleFinding{"leak", fmt.Sprintf("%d goroutine(s) still alive 3 s after ProcessFeatures returned and all targets finished", res.Leaked), res.LeakStacks, 0})
	}
	if res.BadIDs != "" {
		fs = append(fs, oracleFinding{"content", "processPolygonFunc was called with tile matrix ids other than the targets' ids", res.BadIDs, sc.Targets})
	}
	if res.UnknownPolygon > 0 {
		fs = append(fs, oracleFinding{"content", "processPolygonFunc was called with a polygon that is not a source polygon / part", res.UnknownPolygon, 0})
	}
	return fs
}

func diffKind(g, exp []recvd) string {
	cnt := map[recvd]int{}
	for _, x := range exp {
		cnt[x]++
	}
	for _, x := range g {
		cnt[x]--
	}
	missing, extra := 0, 0
	for _, c := range cnt {
		if c > 0 {
			missing += c
		} else {
			extra -= c
		}
	}
	switch {
	case missing == 0 && extra == 0:
		return "reordered"
	case extra == 0:
		return fmt.Sprintf("%d missing", missing)
	case missing == 0:
		return fmt.Sprintf("%d duplicated or foreign", extra)
	default:
		return fmt.Sprintf("%d missing, %d duplicated or foreign", missing, extra)
	}
}

// ---- Coq terms --------------------------------------------------------------------------------------

func coqOutcome(o Outcome, ts []int) string {
	// keys in the order of the targets (any order is a valid association list for the map)
	var items []string
	keys := make([]int, 0, len(o))
	for _, t := range ts {
		if _, ok := o[fmt.Sprint(t)]; ok {
			keys = append(keys, t)
		}
	}
	for _, t := range keys {
		ids := o[fmt.Sprint(t)]
		s := make([]string, len(ids))
		for i, x := range ids {
			s[i] = hc.CoqN(x)
		}
		items = append(items, fmt.Sprintf("(%s, %s)", hc.CoqZ(int64(t)), hc.CoqList(s)))
	}
	return hc.CoqList(items)
}

func coqFeature(f FeatSpec, ts []int) string {
	switch f.Kind {
	case "polygon":
		return fmt.Sprintf("FP %s %s", hc.CoqN(f.ID), coqOutcome(f.Parts[0], ts))
	case "multipolygon":
		ps := make([]string, len(f.Parts))
		for i, p := range f.Parts {
			ps[i] = coqOutcome(p, ts)
		}
		return fmt.Sprintf("FM %s %s", hc.CoqN(f.ID), hc.CoqList(ps))
	default:
		return fmt.Sprintf("FO %s", hc.CoqN(f.ID))
	}
}

func coqGeom(g string) string {
	switch {
	case g == "orig":
		return "GOrig"
	case strings.HasPrefix(g, "p"):
		return "(GPoly " + g[1:] + "%N)"
	case strings.HasPrefix(g, "m"):
		var items []string
		if len(g) > 1 {
			for _, x := range strings.Split(g[1:], ",") {
				items = append(items, x+"%N")
			}
		}
		return "(GMulti " + hc.CoqList(items) + ")"
	default:
		return "(GAlien 0%N)"
	}
}

func coqEvent(e Event) string {
	switch e.K {
	case "recv":
		g := coqGeom(e.G)
		if e.Col {
			g = "(GAlien 1%N)" // not the original attribute values
		}
		return fmt.Sprintf("R %s %s %s", hc.CoqZ(int64(e.TM)), hc.CoqN(e.ID), g)
	case "finish":
		return "F " + hc.CoqZ(int64(e.TM))
	default:
		return "RET"
	}
}

func coqCase(sc Scenario, res Result) string {
	ts := make([]string, len(sc.Targets))
	for i, t := range sc.Targets {
		ts[i] = hc.CoqZ(int64(t))
	}
	fs := make([]string, len(sc.Features))
	for i, f := range sc.Features {
		fs[i] = coqFeature(f, sc.Targets)
	}
	es := make([]string, len(res.History))
	for i, e := range res.History {
		es[i] = coqEvent(e)
	}
	return fmt.Sprintf("MkCase %s\n    %s\n    %s", hc.CoqList(ts), hc.CoqList(fs), hc.CoqList(es))
}

// ---- bookkeeping for the evidence ---------------------------------------------------------------------

func scenarioStats(sc Scenario) (dropped, split, kept, others, polys, multis int) {
	for _, f := range sc.Features {
		switch f.Kind {
		case "polygon", "multipolygon":
			if f.Kind == "polygon" {
				polys++
			} else {
				multis++
			}
			for _, t := range sc.Targets {
				e := expectFeature(f, t)
				switch {
				case len(e) == 0:
					dropped++
				case strings.HasPrefix(e[0], "m") && strings.Contains(e[0], ","):
					split++
				default:
					kept++
				}
			}
		default:
			others++
		}
	}
	return
}

func scenarioKey(sc Scenario) string {
	var b strings.Builder
	ts := append([]int(nil), sc.Targets...)
	sort.Ints(ts)
	fmt.Fprint(&b, ts, "|")
	for _, f := range sc.Features {
		fmt.Fprint(&b, f.Kind[:2])
		for _, t := range sc.Targets {
			fmt.Fprint(&b, expectFeature(f, t))
		}
	}
	return fmt.Sprintf("%x", hashString(b.String()))
}

func hashString(s string) uint64 {
	var h uint64 = 1469598103934665603
	for i := 0; i < len(s); i++ {
		h ^= uint64(s[i])
		h *= 1099511628211
	}
	return h
}

var longSeconds = []int{2, 11, 31, 61, 301, 3601, 90000}

// genVTScenario: an ordinary scenario of moderate length with one to three long pauses.
func genVTScenario(r *rand.Rand, idx int) Scenario {
	sc := genScenario(r, idx, true)
	if len(sc.Features) > 40 {
		sc.Features = sc.Features[:40]
	}
	for i := range sc.Features { // keep the archipelagos short here
		if len(sc.Features[i].Parts) > 6 {
			sc.Features[i].Parts = sc.Features[i].Parts[:6]
		}
	}
	lp := &LongPauses{Source: map[int]int{}, Snap: map[int]int{}, Target: map[int]map[int]int{}}
	n := len(sc.Features)
	sec := func() int { return longSeconds[r.Intn(len(longSeconds))] }
	for k := 1 + r.Intn(3); k > 0; k-- {
		switch r.Intn(4) {
		case 0: // the source is quiet: before the first feature, in mid-stream, before the last, before the close
			pos := []int{0, n / 2, n - 1, n}[r.Intn(4)]
			if pos < 0 {
				pos = 0
			}
			lp.Source[pos] = sec()
		case 1:
			if n > 0 {
				lp.Snap[r.Intn(n)] = sec()
			}
		default: // one target is slow on one hand-over (the first, a middle one, a late one)
			if len(sc.Targets) > 0 && n > 0 {
				t := sc.Targets[r.Intn(len(sc.Targets))]
				if lp.Target[t] == nil {
					lp.Target[t] = map[int]int{}
				}
				lp.Target[t][[]int{0, 1, r.Intn(n), n / 2}[r.Intn(4)]] = sec()
			}
		}
	}
	sc.Long = lp
	sc.Profile = "virtual-time " + sc.Profile
	return sc
}
