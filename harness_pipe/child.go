package main

import (
	"encoding/json"
	"fmt"
	"io"
	"log"
	"math/rand"
	"os"
	"reflect"
	"runtime"
	"sort"
	"strconv"
	"strings"
	"sync"
	"sync/atomic"
	"time"

	"github.com/go-spatial/geom"
	"github.com/pdok/texel/processing"
)

// ---- fakes ------------------------------------------------------------------------------------------

type fakeFeature struct {
	idx  int // position in the scenario (feature ids may repeat)
	id   uint64
	cols []interface{}
	geo  geom.Geometry
}

func (f *fakeFeature) Columns() []interface{}  { return f.cols }
func (f *fakeFeature) Geometry() geom.Geometry { return f.geo }

// source polygons carry (-(index+1), part) in their first vertex; polygons returned by the fake
// processPolygonFunc carry (polygon id, 0.5)
func markerPolygon(idx, part int) geom.Polygon {
	return geom.Polygon{{{-float64(idx + 1), float64(part)}, {0, 0}, {0, 1}}}
}

func resultPolygon(id uint64) geom.Polygon {
	if id&nilPolyFlag != 0 {
		return nil // a computed result that happens to be a nil slice
	}
	return geom.Polygon{{{float64(id), 0.5}}}
}

func buildFeature(idx int, f FeatSpec) *fakeFeature {
	ff := &fakeFeature{idx: idx, id: f.ID, cols: []interface{}{int64(f.ID), fmt.Sprintf("name-%d", f.ID), nil, 3.5}}
	switch f.Kind {
	case "polygon":
		ff.geo = markerPolygon(idx, 0)
	case "multipolygon":
		mp := geom.MultiPolygon{}
		for j := range f.Parts {
			mp = append(mp, markerPolygon(idx, j))
		}
		ff.geo = mp
	case "nil":
		ff.geo = nil
	case "point":
		ff.geo = geom.Point{float64(idx), 1}
	case "linestring":
		ff.geo = geom.LineString{{float64(idx), 0}, {1, 1}}
	case "multipoint":
		ff.geo = geom.MultiPoint{{float64(idx), 0}}
	case "polygonptr":
		p := markerPolygon(idx, 0)
		ff.geo = &p // a pointer is not a geom.Polygon in the type switch: default branch
	case "collection":
		ff.geo = geom.Collection{geom.Point{float64(idx), 2}, markerPolygon(idx, 0)}
	case "multilinestring":
		ff.geo = geom.MultiLineString{{{float64(idx), 0}, {2, 2}}}
	default:
		panic("harness: unknown kind " + f.Kind)
	}
	return ff
}

type delayer struct {
	r     *rand.Rand
	level int
}

func (d *delayer) pause() {
	switch d.level {
	case 0:
		if d.r.Intn(8) == 0 {
			runtime.Gosched()
		}
	case 1:
		switch d.r.Intn(4) {
		case 0:
			runtime.Gosched()
		case 1:
			time.Sleep(time.Duration(d.r.Intn(30)) * time.Microsecond)
		}
	case 2:
		if d.r.Intn(3) == 0 {
			time.Sleep(time.Duration(d.r.Intn(150)) * time.Microsecond)
		} else if d.r.Intn(2) == 0 {
			runtime.Gosched()
		}
	default:
		time.Sleep(time.Duration(50+d.r.Intn(400)) * time.Microsecond)
	}
}

type eventLog struct {
	mu sync.Mutex
	ev []Event
}

func (l *eventLog) add(e Event) {
	l.mu.Lock()
	l.ev = append(l.ev, e)
	l.mu.Unlock()
}

func (l *eventLog) snapshot() []Event {
	l.mu.Lock()
	defer l.mu.Unlock()
	return append([]Event(nil), l.ev...)
}

type fakeSource struct {
	feats []*fakeFeature
	d     delayer
	long  map[int]int // feature index -> seconds (virtual-time stream)
}

func longSleep(sec int) {
	if sec > 0 {
		time.Sleep(time.Duration(sec) * time.Second)
	}
}

func (s *fakeSource) ReadFeatures(out chan<- processing.Feature) {
	for i, f := range s.feats {
		s.d.pause()
		longSleep(s.long[i])
		out <- f
	}
	s.d.pause()
	longSleep(s.long[len(s.feats)])
	close(out)
}

type fakeTarget struct {
	nilFor   func(featIdx int) (uint64, bool) // the flagged id this target expects as a nil polygon for that feature
	tm       int
	log      *eventLog
	d        delayer
	finishUs int
	logLate  bool
	orig     map[*fakeFeature]bool
	byCols   func(cols []interface{}) *fakeFeature
	done     atomic.Bool
	long     map[int]int // k-th received feature -> seconds of handling (virtual-time stream)
	nrecv    int
}

func digestGeometry(g geom.Geometry, orig *fakeFeature, nilID func() (uint64, bool)) string {
	if orig != nil {
		if orig.geo == nil && g == nil {
			return "orig"
		}
		if g != nil && orig.geo != nil && reflect.TypeOf(g) == reflect.TypeOf(orig.geo) && reflect.DeepEqual(g, orig.geo) {
			return "orig"
		}
	}
	polyID := func(p geom.Polygon) (uint64, bool) {
		if len(p) == 1 && len(p[0]) == 1 && p[0][0][1] == 0.5 && p[0][0][0] >= 0 {
			return uint64(p[0][0][0]), true
		}
		return 0, false
	}
	switch v := g.(type) {
	case geom.Polygon:
		if v == nil {
			if id, ok := nilID(); ok {
				return fmt.Sprintf("p%d", id)
			}
			return "alien:nil polygon"
		}
		if id, ok := polyID(v); ok {
			return fmt.Sprintf("p%d", id)
		}
		return "alien:polygon"
	case geom.MultiPolygon:
		ids := make([]string, len(v))
		for i, p := range v {
			id, ok := polyID(p)
			if !ok {
				return "alien:multipolygon"
			}
			ids[i] = fmt.Sprint(id)
		}
		return "m" + strings.Join(ids, ",")
	case nil:
		return "alien:nil"
	default:
		return fmt.Sprintf("alien:%T", g)
	}
}

func (t *fakeTarget) WriteFeatures(in <-chan processing.Feature) {
	for {
		ft, more := <-in
		if !more {
			break
		}
		e := Event{K: "recv", TM: t.tm}
		cols := ft.Columns()
		orig := t.byCols(cols)
		if orig == nil {
			e.Col = true
			if len(cols) > 0 {
				if id, ok := cols[0].(int64); ok {
					e.ID = uint64(id)
				}
			}
		} else {
			e.ID = orig.id
		}
		e.G = digestGeometry(ft.Geometry(), orig, func() (uint64, bool) {
			if orig == nil || t.nilFor == nil {
				return 0, false
			}
			return t.nilFor(orig.idx)
		})
		if !t.logLate {
			t.log.add(e)
		}
		t.d.pause()
		longSleep(t.long[t.nrecv])
		t.nrecv++
		if t.logLate {
			t.log.add(e)
		}
	}
	if t.finishUs > 0 {
		time.Sleep(time.Duration(t.finishUs) * time.Microsecond)
	}
	t.log.add(Event{K: "finish", TM: t.tm})
	t.done.Store(true)
}

// vtMode: this process runs the scenarios inside testing/synctest bubbles (vt_test.go)
var vtMode bool

var leaksSeen int // leak findings reported by this process so far

// ---- one run ------------------------------------------------------------------------------------------

func allStacks() string {
	buf := make([]byte, 1<<16)
	n := runtime.Stack(buf, true)
	return string(buf[:n])
}

// lateExpired counts runs in which ProcessFeatures returned but some target never finished within the watchdog period.
var lateExpired int

func runScenario(sc Scenario, watchdog time.Duration) Result {
	res := Result{Index: sc.Index}
	runtime.GOMAXPROCS(sc.Procs)
	r := rand.New(rand.NewSource(sc.Seed))
	feats := make([]*fakeFeature, len(sc.Features))
	byBacking := map[*interface{}]*fakeFeature{}
	for i, f := range sc.Features {
		feats[i] = buildFeature(i, f)
		byBacking[&feats[i].cols[0]] = feats[i]
	}
	byCols := func(cols []interface{}) *fakeFeature {
		if len(cols) != 4 {
			return nil
		}
		f := byBacking[&cols[0]]
		if f == nil {
			return nil
		}
		if id, ok := cols[0].(int64); !ok || uint64(id) != f.id || cols[1] != fmt.Sprintf("name-%d", f.id) || cols[2] != nil || cols[3] != 3.5 {
			return nil
		}
		return f
	}
	evlog := &eventLog{}
	src := &fakeSource{feats: feats, d: delayer{rand.New(rand.NewSource(r.Int63())), sc.Delays.Source}}
	long := sc.Long
	if long == nil {
		long = &LongPauses{}
	}
	src.long = long.Source
	targets := map[int]processing.Target{}
	fts := map[int]*fakeTarget{}
	for _, t := range sc.Targets {
		ft := &fakeTarget{tm: t, log: evlog, d: delayer{rand.New(rand.NewSource(r.Int63())), sc.Delays.Target[t]},
			finishUs: sc.Delays.Finish[t], logLate: sc.Delays.LogLate, byCols: byCols}
		ft.long = long.Target[t]
		tmKey := fmt.Sprint(t)
		ft.nilFor = func(featIdx int) (uint64, bool) {
			if featIdx >= 0 && featIdx < len(sc.Features) {
				if f := sc.Features[featIdx]; f.Kind == "polygon" && len(f.Parts) == 1 {
					if ids := f.Parts[0][tmKey]; len(ids) == 1 && ids[0]&nilPolyFlag != 0 {
						return ids[0], true
					}
				}
			}
			return 0, false
		}
		fts[t] = ft
		targets[t] = ft
	}
	wantIDs := append([]int(nil), sc.Targets...)
	sort.Ints(wantIDs)
	var badIDs atomic.Value
	var unknown atomic.Int64
	snapDelay := delayer{rand.New(rand.NewSource(r.Int63())), sc.Delays.Snap}
	f := func(p geom.Polygon, ids []int) map[int][]geom.Polygon {
		got := append([]int(nil), ids...)
		sort.Ints(got)
		if fmt.Sprint(got) != fmt.Sprint(wantIDs) {
			badIDs.Store(fmt.Sprint(ids))
		}
		snapDelay.pause()
		out := map[int][]geom.Polygon{}
		if len(p) != 1 || len(p[0]) != 3 || p[0][0][0] >= 0 {
			unknown.Add(1)
			return out
		}
		idx, part := int(-p[0][0][0])-1, int(p[0][0][1])
		longSleep(long.Snap[idx])
		if idx < 0 || idx >= len(sc.Features) || part < 0 || part >= len(sc.Features[idx].Parts) {
			unknown.Add(1)
			return out
		}
		for k, pids := range sc.Features[idx].Parts[part] {
			tm, _ := strconv.Atoi(k)
			for _, pid := range pids {
				out[tm] = append(out[tm], resultPolygon(pid))
			}
		}
		return out
	}

	time.Sleep(100 * time.Microsecond)
	baseline := runtime.NumGoroutine()
	t0 := time.Now()
	returned := make(chan struct{})
	var early []int
	var alive int
	go func() {
		processing.ProcessFeatures(src, targets, f)
		evlog.add(Event{K: "return"})
		// completion flags read right at the return
		for _, t := range sc.Targets {
			if !fts[t].done.Load() {
				early = append(early, t)
			}
		}
		alive = runtime.NumGoroutine() - 1 - baseline
		close(returned)
	}()
	select {
	case <-returned:
		res.EarlyReturn, res.AliveAtReturn = early, alive
	case <-time.After(watchdog):
		res.Hang = true
		res.Stacks = allStacks()
		res.History = evlog.snapshot()
		res.Millis = float64(time.Since(t0).Microseconds()) / 1000
		return res
	}
	// let late targets finish (only happens when ProcessFeatures returned early), so that the history is complete
	lateWait := watchdog
	if vtMode { // virtual time: the watchdog is a thousand hours; the polling below must stay short
		lateWait = 2 * time.Second
	}
	if lateExpired >= 2 { // targets that never finish were already seen twice (and are reported): do not wait a full watchdog period for every further run
		lateWait = 150 * time.Millisecond
	}
	deadline := time.Now().Add(lateWait)
	allDone := false
	for time.Now().Before(deadline) {
		all := true
		for _, t := range sc.Targets {
			all = all && fts[t].done.Load()
		}
		if all {
			allDone = true
			break
		}
		time.Sleep(200 * time.Microsecond)
	}
	if !allDone {
		lateExpired++
	}
	res.Millis = float64(time.Since(t0).Microseconds()) / 1000
	// goroutine accounting: reader and snapper are not waited for by ProcessFeatures, give them time
	settleFor := 3 * time.Second
	if leaksSeen >= 3 { // already reported: do not spend 3 s on every further run
		settleFor = 20 * time.Millisecond
	}
	settle := time.Now().Add(settleFor)
	for runtime.NumGoroutine() > baseline && time.Now().Before(settle) {
		time.Sleep(100 * time.Microsecond)
	}
	if n := runtime.NumGoroutine(); n > baseline && leaksSeen < 3 {
		res.Leaked = n - baseline
		res.LeakStacks = allStacks()
		leaksSeen++
	}
	res.History = evlog.snapshot()
	if v := badIDs.Load(); v != nil {
		res.BadIDs = v.(string)
	}
	res.UnknownPolygon = int(unknown.Load())
	return res
}

// ---- child process protocol ------------------------------------------------------------------------------
//
// env VERIF_PIPE_CHILD = scenarios.json, VERIF_PIPE_RESULT = result file (appended), VERIF_PIPE_START = first
// index to run, VERIF_PIPE_WATCHDOG = seconds.  Lines: "B <i>" before a scenario, "E <i> <json>" after.

func childMain() int {
	log.SetOutput(io.Discard) // processFeatures logs four lines per call
	data, err := os.ReadFile(os.Getenv("VERIF_PIPE_CHILD"))
	if err != nil {
		fmt.Fprintln(os.Stderr, "child:", err)
		return 2
	}
	var scs []Scenario
	if err := json.Unmarshal(data, &scs); err != nil {
		fmt.Fprintln(os.Stderr, "child:", err)
		return 2
	}
	start, _ := strconv.Atoi(os.Getenv("VERIF_PIPE_START"))
	wd, _ := strconv.Atoi(os.Getenv("VERIF_PIPE_WATCHDOG"))
	if wd <= 0 {
		wd = 20
	}
	out, err := os.OpenFile(os.Getenv("VERIF_PIPE_RESULT"), os.O_APPEND|os.O_CREATE|os.O_WRONLY, 0o644)
	if err != nil {
		fmt.Fprintln(os.Stderr, "child:", err)
		return 2
	}
	defer out.Close()
	for i := start; i < len(scs); i++ {
		fmt.Fprintf(out, "B %d\n", i)
		res := runScenario(scs[i], time.Duration(wd)*time.Second)
		b, _ := json.Marshal(res)
		fmt.Fprintf(out, "E %d %s\n", i, b)
		if res.Hang {
			return 0 // stuck goroutines stay behind: let the parent start a fresh process
		}
	}
	return 0
}
