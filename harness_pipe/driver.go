package main

import (
	"bufio"
	"bytes"
	"encoding/json"
	"fmt"
	"os"
	"os/exec"
	"path/filepath"
	"strconv"
	"strings"
	"time"

	hc "verif/hcommon"
)

type childOutcome struct {
	results map[int]Result
	crashes map[int]string // scenario index -> stderr tail of the crashed child
	stderr  string         // everything the children wrote (race reports go here)
}

// runChildren executes the scenarios in child processes of binary `bin`, restarting after a crash / hang.
func runChildren(bin string, dir string, tag string, scs []Scenario, watchdogSec int, extraEnv []string, args ...string) (childOutcome, error) {
	oc := childOutcome{results: map[int]Result{}, crashes: map[int]string{}}
	scFile := filepath.Join(dir, "scenarios_"+tag+".json")
	resFile := filepath.Join(dir, "results_"+tag+".txt")
	b, _ := json.Marshal(scs)
	if err := os.WriteFile(scFile, b, 0o644); err != nil {
		return oc, err
	}
	os.Remove(resFile)
	start, bad := 0, 0 // bad: a crash costs 1, a hang (one full watchdog period) costs 2; budget 4
	var allErr bytes.Buffer
	for start < len(scs) && bad < 4 {
		cmd := exec.Command(bin, args...)
		cmd.Env = append(os.Environ(), "VERIF_PIPE_CHILD="+scFile, "VERIF_PIPE_RESULT="+resFile,
			"VERIF_PIPE_START="+strconv.Itoa(start), "VERIF_PIPE_WATCHDOG="+strconv.Itoa(watchdogSec))
		cmd.Env = append(cmd.Env, extraEnv...)
		var stderr bytes.Buffer
		cmd.Stderr = &stderr
		cmd.Stdout = &stderr
		runErr := cmd.Run()
		allErr.Write(stderr.Bytes())
		// read back
		f, err := os.Open(resFile)
		if err != nil {
			return oc, fmt.Errorf("child produced no result file: %v; stderr: %s", err, tail(stderr.String(), 2000))
		}
		begun, ended := -1, -1
		sc := bufio.NewScanner(f)
		sc.Buffer(make([]byte, 1<<20), 1<<28)
		for sc.Scan() {
			line := sc.Text()
			switch {
			case strings.HasPrefix(line, "B "):
				begun, _ = strconv.Atoi(line[2:])
			case strings.HasPrefix(line, "E "):
				rest := line[2:]
				sp := strings.IndexByte(rest, ' ')
				i, _ := strconv.Atoi(rest[:sp])
				var r Result
				if err := json.Unmarshal([]byte(rest[sp+1:]), &r); err == nil {
					oc.results[i] = r
					ended = i
				}
			}
		}
		f.Close()
		if begun > ended { // died inside scenario `begun`
			oc.crashes[begun] = tail(stderr.String(), 6000)
			start = begun + 1
			bad++
			continue
		}
		if ended >= 0 && oc.results[ended].Hang && ended+1 < len(scs) {
			start = ended + 1
			bad += 2
			continue
		}
		if runErr != nil && begun < 0 {
			return oc, fmt.Errorf("child failed: %v; stderr: %s", runErr, tail(stderr.String(), 2000))
		}
		start = ended + 1
		if ended < 0 {
			break
		}
	}
	oc.stderr = allErr.String()
	return oc, nil
}

func tail(s string, n int) string {
	if len(s) > n {
		return s[len(s)-n:]
	}
	return s
}

type mode struct {
	id            string // C10 | C11
	scheduleHeavy bool
	clauses       map[string]bool // oracle clauses that are violations for this property
}

// runPipe: generate, run in children, oracle, cases.
func runPipe(c *hc.Ctx, m mode, quickN, thoroughN int) ([]Scenario, error) {
	self, err := os.Executable()
	if err != nil {
		return nil, err
	}
	var scs []Scenario
	if c.Replay != "" {
		sc, err := scenarioFromReplay(c.Replay)
		if err != nil {
			return nil, err
		}
		for k := 0; k < 24; k++ {
			s := sc
			s.Index = k
			s.Procs = 1 + (sc.Procs+k-1)%16
			s.Seed = sc.Seed + int64(k)
			scs = append(scs, s)
		}
	} else {
		n := c.N(quickN, thoroughN)
		if c.Search {
			n *= 4
		}
		for i := 0; i < n; i++ {
			scs = append(scs, genScenario(c.Rng, i, m.scheduleHeavy))
		}
	}
	t0 := time.Now()
	oc, err := runChildren(self, c.Out, "plain", scs, 20, nil)
	if err != nil {
		return nil, err
	}
	c.Count(fmt.Sprintf("wall ms of the implementation runs: %d", time.Since(t0).Milliseconds()/100*100))
	evaluate(c, m, scs, oc, true)
	if c.Replay == "" {
		virtualTime(c, m)
	}
	return scs, nil
}

// virtualTime: scenarios with pauses of seconds to hours, run inside testing/synctest bubbles by a test binary of this
// module built with go1.26.8 (vt_test.go).  Oracle only (the model has no clock: a pause is just a schedule).
func virtualTime(c *hc.Ctx, m mode) {
	gobin, err := exec.LookPath("go1.26.8")
	if err != nil {
		gobin = "/opt/veriftools/go1.26.8/bin/go"
	}
	src := filepath.Join(c.Verif, "harness_pipe")
	bin := filepath.Join(c.Verif, "bin", ".harness_pipe_vt")
	t0 := time.Now()
	cmd := exec.Command(gobin, "test", "-c", "-tags", "verif", "-o", bin, ".")
	cmd.Dir = src
	cmd.Env = append(os.Environ(), "GOTOOLCHAIN=local")
	out, err := cmd.CombinedOutput()
	if err != nil {
		c.Count("virtual-time stream: test binary does not build (stream skipped)")
		c.Count("virtual-time stream skipped: " + gobin + " test -c failed: " + tail(string(out), 300))
		return
	}
	n := c.N(200, 5000)
	if c.Search {
		n *= 4
	}
	scs := make([]Scenario, 0, n)
	for i := 0; i < n; i++ {
		scs = append(scs, genVTScenario(c.Rng, i))
	}
	t1 := time.Now()
	oc, err := runChildren(bin, c.Out, "vt", scs, 20, nil, "-test.run", "^TestVTChild$", "-test.timeout", "30m")
	if err != nil {
		c.Count("virtual-time stream: run failed")
		c.Count("virtual-time stream failed: " + tail(err.Error(), 300))
		return
	}
	c.Count(fmt.Sprintf("virtual-time stream: %d scenarios with pauses of 2 s to 25 h in a synctest bubble (build %d ms, run %d ms)",
		len(oc.results), t1.Sub(t0).Milliseconds()/100*100, time.Since(t1).Milliseconds()/100*100))
	for i, sc := range scs {
		if msg, crashed := oc.crashes[i]; crashed {
			c.Sum.Evaluations++
			c.Violate(hc.Violation{What: "under virtual time the process running ProcessFeatures crashed (panic in a pipeline goroutine, or a deadlock / a goroutine that never ends, which the synctest bubble reports)",
				Input: sc, Observed: msg, Expected: "ProcessFeatures returns and every goroutine it started ends"})
			continue
		}
		res, ok := oc.results[i]
		if !ok {
			continue
		}
		c.Sum.Evaluations++
		c.Count("virtual-time " + fmt.Sprintf("targets=%d", len(sc.Targets)))
		for _, f := range oracle(sc, res) {
			if m.clauses[f.Clause] {
				c.Violate(hc.Violation{What: f.What + " (virtual time: a pause of seconds to hours at the source, in the snapping function or at a target)", Input: sc, Observed: f.Obs, Expected: f.Exp})
			}
		}
	}
}

func evaluate(c *hc.Ctx, m mode, scs []Scenario, oc childOutcome, emitCases bool) {
	for i, sc := range scs {
		if msg, crashed := oc.crashes[i]; crashed {
			c.Sum.Evaluations++
			c.Violate(hc.Violation{What: "the process running ProcessFeatures crashed (panic in a pipeline goroutine)",
				Input: sc, Observed: msg, Expected: "ProcessFeatures returns"})
			continue
		}
		res, ok := oc.results[i]
		if !ok {
			continue // not run (after too many crashes / hangs)
		}
		c.Sum.Evaluations++
		dropped, split, kept, others, polys, multis := scenarioStats(sc)
		c.Count(fmt.Sprintf("targets=%d", len(sc.Targets)))
		c.Count("gomaxprocs " + bucket(sc.Procs, []int{1, 2, 4, 8, 16}))
		c.Count("stream length " + bucket(len(sc.Features), []int{0, 2, 14, 64, 200}))
		c.Count("profile " + sc.Profile)
		if res.AliveAtReturn > 0 {
			c.Count("runs where reader/snapper goroutines were still alive at return (allowed, they are not waited for)")
		}
		addDist(c, "features: polygon", polys)
		addDist(c, "features: multipolygon", multis)
		addDist(c, "features: other kinds", others)
		addDist(c, "outcomes (feature x target): dropped", dropped)
		addDist(c, "outcomes (feature x target): kept", kept)
		addDist(c, "outcomes (feature x target): split", split)
		addDist(c, "events recorded", len(res.History))
		if len(sc.Targets) >= 2 && len(sc.Features) >= 3 && dropped > 0 && split > 0 {
			c.Nontrivial(scenarioKey(sc))
		}
		for _, f := range oracle(sc, res) {
			if !m.clauses[f.Clause] {
				continue
			}
			c.Violate(hc.Violation{What: f.What, Input: sc, Observed: f.Obs, Expected: f.Exp})
		}
		if emitCases {
			desc := map[string]any{"scenario": sc, "history": res.History, "hang": res.Hang}
			c.Case(coqCase(sc, res), desc)
			if i < 3 {
				c.Sample(map[string]any{"targets": sc.Targets, "gomaxprocs": sc.Procs, "profile": sc.Profile, "features": len(sc.Features), "events": len(res.History), "ms": res.Millis})
			}
		}
	}
}

func addDist(c *hc.Ctx, key string, n int) {
	if c.Sum.Distribution == nil {
		c.Sum.Distribution = map[string]any{}
	}
	old, _ := c.Sum.Distribution[key].(int)
	c.Sum.Distribution[key] = old + n
}

func bucket(v int, edges []int) string {
	for _, e := range edges {
		if v <= e {
			return fmt.Sprintf("<=%d", e)
		}
	}
	return fmt.Sprintf(">%d", edges[len(edges)-1])
}

func scenarioFromReplay(path string) (Scenario, error) {
	var sc Scenario
	b, err := os.ReadFile(path)
	if err != nil {
		return sc, err
	}
	var rep struct {
		Case struct {
			Input json.RawMessage `json:"input"`
		} `json:"case"`
	}
	if err := json.Unmarshal(b, &rep); err != nil {
		return sc, err
	}
	if len(rep.Case.Input) == 0 {
		return sc, fmt.Errorf("replay file %s has no case.input scenario", path)
	}
	err = json.Unmarshal(rep.Case.Input, &sc)
	return sc, err
}
