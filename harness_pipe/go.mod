module verif/harness_pipe

go 1.21.6

toolchain go1.23.5

require (
	github.com/go-spatial/geom v0.0.0-20220918193402-3cd2f5a9a082
	github.com/pdok/texel v0.0.0
	verif/hcommon v0.0.0
)

require (
	github.com/creasty/defaults v1.7.0 // indirect
	github.com/gabriel-vasile/mimetype v1.4.2 // indirect
	github.com/gdey/errors v0.0.0-20190426172550-8ebd5bc891fb // indirect
	github.com/go-playground/locales v0.14.1 // indirect
	github.com/go-playground/universal-translator v0.18.1 // indirect
	github.com/go-playground/validator/v10 v10.16.0 // indirect
	github.com/josharian/intern v1.0.0 // indirect
	github.com/leodido/go-urn v1.2.4 // indirect
	github.com/mailru/easyjson v0.7.7 // indirect
	github.com/mattn/go-sqlite3 v1.14.17 // indirect
	github.com/perimeterx/marshmallow v1.1.5 // indirect
	golang.org/x/crypto v0.7.0 // indirect
	golang.org/x/net v0.8.0 // indirect
	golang.org/x/text v0.8.0 // indirect
)

replace github.com/pdok/texel => /repo

replace verif/hcommon => ../hcommon
