module verif/harness_pipe

go 1.21.6

toolchain go1.23.5

require (
	github.com/go-spatial/geom v0.0.0
	github.com/pdok/texel v0.0.0
	verif/hcommon v0.0.0
)

replace github.com/pdok/texel => /repo

replace verif/hcommon => ../hcommon
