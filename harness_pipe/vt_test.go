//go:debug asynctimerchan=0

// The virtual-time child of the pipe harness.  Built as a TEST binary with go1.26.8 (testing/synctest), run by the
// driver like the ordinary child (same scenario file, same result protocol).  Every scenario runs inside a synctest
// bubble: time.Sleep, timers and tickers inside processing.ProcessFeatures and inside the fakes use a fake clock that
// jumps forward whenever every goroutine of the bubble is blocked.  A source that is quiet for 25 hours or a target
// that needs an hour for one hand-over therefore costs nothing, and code whose behaviour depends on the clock (stall
// guards, idle timeouts) is exercised at every duration.  The bubble also turns a deadlock or a goroutine that
// never ends into a panic of this process, which the driver reports as a crash of that scenario.
//
// asynctimerchan=0: synctest needs the Go 1.23 timer channels; /repo's go.mod (go 1.21.6) would select the old ones for
// a main package built from it.  Timer behaviour that only differs under the old channels (a stale value left in a
// timer's channel by Reset without Stop) is therefore NOT exercised here.
package main

import (
	"encoding/json"
	"fmt"
	"io"
	"log"
	"os"
	"strconv"
	"testing"
	"testing/synctest"
	"time"
)

func TestVTChild(t *testing.T) {
	scFile := os.Getenv("VERIF_PIPE_CHILD")
	if scFile == "" {
		t.Skip("not run by the driver")
	}
	vtMode = true
	log.SetOutput(io.Discard)
	data, err := os.ReadFile(scFile)
	if err != nil {
		t.Fatal(err)
	}
	var scs []Scenario
	if err := json.Unmarshal(data, &scs); err != nil {
		t.Fatal(err)
	}
	start, _ := strconv.Atoi(os.Getenv("VERIF_PIPE_START"))
	out, err := os.OpenFile(os.Getenv("VERIF_PIPE_RESULT"), os.O_APPEND|os.O_CREATE|os.O_WRONLY, 0o644)
	if err != nil {
		t.Fatal(err)
	}
	defer out.Close()
	for i := start; i < len(scs); i++ {
		fmt.Fprintf(out, "B %d\n", i)
		hang := false
		synctest.Test(t, func(t *testing.T) {
			res := runScenario(scs[i], 1000*time.Hour)
			b, _ := json.Marshal(res)
			fmt.Fprintf(out, "E %d %s\n", i, b)
			hang = res.Hang
		})
		if hang || t.Failed() {
			return // blocked goroutines stay behind: the driver starts a fresh process for the rest
		}
	}
}
