// Command sharedcolumns is a stand-alone REPRODUCER (not part of bin/check) for a finding made while
// modelling the pipeline (C11, clause "no two stages access shared data without synchronisation"):
//
//	processing.featureForTileMatrixWrapper.Columns() returns the wrapped source feature's slice itself, so the
//	wrapped features that go to DIFFERENT targets share one backing array.  The real source
//	(processing/gpkg ReadFeatures) builds that slice with append: 3 attribute columns -> len 3, cap 4.  The real
//	target does, in one goroutine per target,
//	    data := f.Columns(); data = append(data, sb); ... stmt.Exec(data...)      (processing/gpkg/gpkg.go, writeFeatures)
//	so every target writes its geometry blob into element [3] of the SAME array and reads it back in Exec: an
//	unsynchronised write/write + write/read between target goroutines; if target B appends between target A's append
//	and A's Exec, A inserts the geometry computed for B's tile matrix.
//
// Part 1 shows the aliasing deterministically with the real source, the real ProcessFeatures and capturing targets.
// Part 2 runs targets that do exactly the two lines above; built with -race the detector reports the race.
// (With the real gpkg targets in this sandbox the detector stays silent: the SpatiaLite stand-in's SQL functions go
// through go-sqlite3's global callback mutex on every insert, which orders the accesses by accident.)
//
//	cd /verif/harness_pipe && GOFLAGS=-mod=mod GOPROXY=off GOSUMDB=off GOTOOLCHAIN=local \
//	   go build -race -tags verif -o /tmp/sharedcolumns ./repro/sharedcolumns && /tmp/sharedcolumns
//
// Suggested repair (processing/gpkg/gpkg.go): copy before appending, e.g.
//
//	cols := f.Columns(); data := make([]interface{}, 0, len(cols)+1); data = append(append(data, cols...), sb)
package main

import (
	"fmt"
	"io"
	"log"
	"os"
	"path/filepath"
	"sync"

	"github.com/go-spatial/geom"
	"github.com/pdok/texel/processing"
	"github.com/pdok/texel/processing/gpkg"
)

type capture struct {
	mu    *sync.Mutex
	tm    int
	feats *map[int][]processing.Feature
	like  bool // behave like gpkg.writeFeatures: append the geometry blob to Columns()
	bad   *int
}

func (c capture) WriteFeatures(in <-chan processing.Feature) {
	for f := range in {
		if c.like {
			sb := fmt.Sprintf("blob-for-tm-%d", c.tm)
			data := f.Columns()
			data = append(data, sb)      // gpkg.go:246
			if data[len(data)-1] != sb { // what stmt.Exec(data...) would read
				c.mu.Lock()
				*c.bad++
				c.mu.Unlock()
			}
		}
		c.mu.Lock()
		(*c.feats)[c.tm] = append((*c.feats)[c.tm], f)
		c.mu.Unlock()
	}
}

func main() {
	log.SetOutput(io.Discard)
	// work on a copy: merely opening a GeoPackage through the library bumps the SQLite change counter of the file
	raw, err := os.ReadFile("/repo/example/example.gpkg")
	if err != nil {
		panic(err)
	}
	dir, _ := os.MkdirTemp("", "sharedcolumns")
	defer os.RemoveAll(dir)
	file := filepath.Join(dir, "example.gpkg")
	if err := os.WriteFile(file, raw, 0o644); err != nil {
		panic(err)
	}
	src := gpkg.SourceGeopackage{}
	src.Init(file)
	defer src.Close()
	for _, tb := range src.GetTableInfo() {
		if tb.Name != "polygons" {
			continue
		}
		src.Table = tb
		for _, like := range []bool{false, true} {
			feats := map[int][]processing.Feature{}
			bad := 0
			mu := &sync.Mutex{}
			targets := map[int]processing.Target{5: capture{mu, 5, &feats, like, &bad}, 6: capture{mu, 6, &feats, like, &bad}}
			processing.ProcessFeatures(src, targets, func(p geom.Polygon, ids []int) map[int][]geom.Polygon {
				out := map[int][]geom.Polygon{}
				for _, id := range ids {
					out[id] = []geom.Polygon{p}
				}
				return out
			})
			if !like {
				a, b := feats[5][0], feats[6][0]
				ca, cb := a.Columns(), b.Columns()
				fmt.Printf("target 5 and 6 got fid %v / %v: len %d cap %d, same backing array: %v\n", ca[0], cb[0], len(ca), cap(ca), &ca[0] == &cb[0])
				da := append(ca, "geometry blob of tile matrix 5")
				db := append(cb, "geometry blob of tile matrix 6")
				fmt.Printf("after both targets appended their blob: target 5 would insert %q, target 6 would insert %q\n", da[3], db[3])
			} else {
				fmt.Println("gpkg-like concurrent targets: rows that would have been written with another target's blob:", bad)
			}
		}
	}
}
