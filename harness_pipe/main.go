// Command harness_pipe is tie H of /verif for the concurrent pipeline of processing/processing.go
// (C10, C11).  It runs the real processing.ProcessFeatures (from /repo's working tree, through
// `replace github.com/pdok/texel => /repo`) with a fake Source, fake Targets and a fake
// processPolygonFunc driven by a generated outcome table, under varying GOMAXPROCS and random
// delays, records what every target received and when it finished, applies the property oracle to
// that history, and writes Coq case files (configuration + observed history) for the monitor of
// coq/theories/Pipe/Model.v.
//
// The scenarios are executed in a child process (this same binary with VERIF_PIPE_CHILD set), because
// a bug in the pipeline typically panics in a goroutine or hangs: the parent turns a crashed or hung
// child into a violation carrying the scenario that was running.  For C11 a second binary of this
// module is built with -race and used as the child for a subset of the scenarios.
package main

import (
	"os"

	hc "verif/hcommon"
)

var props = map[string]hc.PropFunc{}

func main() {
	if os.Getenv("VERIF_PIPE_CHILD") != "" {
		os.Exit(childMain())
	}
	hc.Main(props)
}
