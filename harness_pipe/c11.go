package main

import (
	"fmt"
	"os"
	"os/exec"
	"path/filepath"
	"strings"
	"time"

	hc "verif/hcommon"
)

func init() { props["C11"] = runC11 }

func runC11(c *hc.Ctx) error {
	c.CorrInit("Texel.Corr.C11", "theories/Corr/C11.v", 40)
	c.Sum.Rule = pipeRule + "; C11 runs favour schedule variety (slow reader, slow snap, the slowest target is the one receiving the last feature, finish delayed up to 6 ms, GOMAXPROCS=1) and are repeated under the race detector"
	c.Sum.Oracle = "on the implementation, independent of the Coq model: ProcessFeatures returns (20 s watchdog; a hang or crash is a violation); when it returns every target's WriteFeatures has returned (completion flag read at the return, and finish-before-return in the global event log); every target finished exactly once and received nothing afterwards; no drop, duplicate or reordering per target; runtime.NumGoroutine is back at its baseline within 3 s (leak); a second binary of the same harness built with `go build -race` runs a subset of the scenarios and every race report is a violation"
	c.Sum.Partial = "the clause 'no stage leaves a goroutine behind and no two stages access shared data without synchronisation' is NOT a theorem: data races and goroutines outside the five modelled processes cannot be exhibited by the transition system. It is covered by SUPPORTING SEARCH only (race detector runs, goroutine count after settle), which is evidence, not proof. Everything else in C11 (always returns, under every interleaving; returns only after every target finished and received everything; no deadlock, drop, duplicate, reorder) is proved for all streams, target counts and schedules."
	c.Sum.TrustedBase = append(append([]string{}, pipeTrusted...), "the Go race detector and runtime.NumGoroutine accounting (supporting search for the partial clause)")
	c.Sum.Assumptions = []string{"targets' ids are distinct (keys of a Go map)", "Source and Target obey the channel contract of processing/interface.go (see trusted base)"}
	m := mode{id: "C11", scheduleHeavy: true, clauses: map[string]bool{"content": true, "order": true, "leak": true}}
	scs, err := runPipe(c, m, 420, 10000)
	if err != nil {
		return err
	}
	if len(c.Sum.Violations) > 0 && !c.Search {
		c.Sum.Search = "race search skipped: the plain runs already produced failing inputs"
		return nil
	}
	raceSearch(c, m, scs)
	return nil
}

// raceSearch builds this module with -race and reruns a subset of the scenarios in it.
func raceSearch(c *hc.Ctx, m mode, scs []Scenario) {
	src := filepath.Join(c.Verif, "harness_pipe")
	bin := filepath.Join(c.Verif, "bin", ".harness_pipe_race")
	t0 := time.Now()
	cmd := exec.Command("go", "build", "-race", "-tags", "verif", "-o", bin, ".")
	cmd.Dir = src
	cmd.Env = append(os.Environ(), "CGO_ENABLED=1")
	out, err := cmd.CombinedOutput()
	if err != nil {
		c.Sum.Search = "race detector NOT available: go build -race failed: " + tail(string(out), 600)
		c.Count("race detector: build failed (no race search)")
		return
	}
	buildMs := time.Since(t0).Milliseconds()
	n := c.N(160, 4000)
	if n > len(scs) {
		n = len(scs)
	}
	sub := make([]Scenario, 0, n)
	for i := 0; i < n; i++ { // spread over the whole list; cap the long ones (the detector is ~10x slower)
		s := scs[i*len(scs)/n]
		s.Index = i
		sub = append(sub, s)
	}
	logPrefix := filepath.Join(c.Out, "race_report")
	t1 := time.Now()
	oc, err := runChildren(bin, c.Out, "race", sub, 40, []string{"GORACE=halt_on_error=0 exitcode=0 log_path=" + logPrefix})
	if err != nil {
		c.Sum.Search = "race run failed: " + err.Error()
		c.Count("race detector: run failed")
		return
	}
	// the oracle again on these runs (a different timing regime), without emitting cases
	evaluateQuiet(c, m, sub, oc)
	reports := ""
	if files, _ := filepath.Glob(logPrefix + ".*"); len(files) > 0 {
		for _, f := range files {
			b, _ := os.ReadFile(f)
			reports += string(b)
		}
	}
	reports += oc.stderr
	nr := strings.Count(reports, "WARNING: DATA RACE")
	c.Count(fmt.Sprintf("race detector: %d scenarios rerun under -race", len(oc.results)))
	c.Sum.Search = fmt.Sprintf("supporting search (not proof): go build -race ok (%d ms), %d scenarios rerun under the race detector in %d ms, %d race reports; goroutine count checked after every run", buildMs, len(oc.results), time.Since(t1).Milliseconds(), nr)
	if nr > 0 {
		first := reports[strings.Index(reports, "WARNING: DATA RACE"):]
		inRepo := strings.Contains(first, "texel/processing") || strings.Contains(first, "/repo/")
		what := "data race reported by the Go race detector while running ProcessFeatures (supporting search)"
		if !inRepo {
			what = "data race reported by the Go race detector (stack does not mention /repo: check the harness fakes first)"
		}
		c.Violate(hc.Violation{What: what, Input: map[string]any{"scenarios": "the -race subset of this run (same seed)", "count": len(sub)}, Observed: tail2(first, 6000), Expected: "no race report"})
	}
}

func tail2(s string, n int) string {
	if len(s) > n {
		return s[:n]
	}
	return s
}

func evaluateQuiet(c *hc.Ctx, m mode, scs []Scenario, oc childOutcome) {
	for i, sc := range scs {
		if msg, crashed := oc.crashes[i]; crashed {
			c.Violate(hc.Violation{What: "the process running ProcessFeatures under the race detector crashed", Input: sc, Observed: msg})
			continue
		}
		res, ok := oc.results[i]
		if !ok {
			continue
		}
		c.Sum.Evaluations++
		for _, f := range oracle(sc, res) {
			if m.clauses[f.Clause] {
				c.Violate(hc.Violation{What: f.What + " (under -race)", Input: sc, Observed: f.Obs, Expected: f.Exp})
			}
		}
	}
}
