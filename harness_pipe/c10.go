package main

import hc "verif/hcommon"

func init() { props["C10"] = runC10 }

const pipeRule = "one evaluation = one run of the real processing.ProcessFeatures on a generated scenario: 0-5 targets (random distinct ids incl. negative and > 2^32), a stream of 0-200 features (polygon 45%, multipolygon with 0-4 parts 25%, one in twenty of them with 15-257 parts, other kinds 30%: nil, point, linestring, multipoint, *polygon, collection, multilinestring; repeated identities allowed), an outcome table per (polygon or part, target) in {dropped, kept, split into 2-4} with three drop/split mixes, GOMAXPROCS 1-16, nine delay profiles over source / snap function / each target / each target's finish; distinct = distinct (target set, kinds, per-target outcomes); non-trivial = >= 2 targets, >= 3 features, at least one dropped and one split outcome"

var pipeTrusted = []string{
	"modelled, not verified: Go semantics of unbuffered channel rendezvous, close, range-over-map order, sync.WaitGroup, goroutine start (Pipe/Model.v labels); the Go scheduler",
	"contract of the interfaces, assumed by model and harness: Source.ReadFeatures sends its features and then closes the channel; Target.WriteFeatures receives until the channel is closed and then returns (both true of processing/gpkg)",
	"contract of the processPolygonFunc (wf_config): result keys are requested tile matrix ids and no key maps to zero polygons (true of snap.SnapPolygon: keys come from tileMatrixIDsByLevels(tmIDs), entries are only created when len > 0); outside it processing.go:39/:107 panic, and so does the model (Example C10_outside_contract_panics)",
	"harness_pipe fakes: identity of a feature = identity of its Columns() backing array + values; geometry digest = polygon ids read back from coordinates; one global mutex-ordered event log",
}

func runC10(c *hc.Ctx) error {
	c.CorrInit("Texel.Corr.C10", "theories/Corr/C10.v", 40)
	c.Sum.Rule = pipeRule
	c.Sum.Oracle = "on the implementation, independent of the Coq model: every target received exactly the features expected from the outcome table — non-polygons once with their own geometry object, polygons once iff the table has polygons for that target (one -> that polygon, several -> one multipolygon in order), multipolygons merged per target in part order — in source order, with the original Columns() (same backing array, same values); nothing delivered to a non-target; the processPolygonFunc was called with exactly the targets' ids and only with source polygons/parts; a hang (20 s watchdog) or a crash of the pipeline is a violation"
	c.Sum.Partial = ""
	c.Sum.TrustedBase = pipeTrusted
	c.Sum.Assumptions = []string{"targets' ids are distinct (keys of a Go map)", "Source and Target obey the channel contract of processing/interface.go (see trusted base)"}
	m := mode{id: "C10", clauses: map[string]bool{"content": true}}
	_, err := runPipe(c, m, 420, 10000)
	return err
}
