package main

// C14 -- only true quadtree tile matrix sets pass validation.

import (
	"bytes"
	"fmt"
	"hash/fnv"
	"math"
	"math/big"
	"os"
	"os/exec"
	"path/filepath"
	"reflect"
	"regexp"
	"slices"
	"strconv"
	"strings"

	hc "verif/hcommon"

	"github.com/pdok/texel/pointindex"
	"github.com/pdok/texel/tms20"
)

func init() { props["C14"] = runC14 }

// ---- drivers (panics recovered) --------------------------------------------------------------------

func runIsQuadTree(t tms20.TileMatrixSet) (class string, msg string) {
	defer func() {
		if p := recover(); p != nil {
			class, msg = "panic", fmt.Sprint(p)
		}
	}()
	if err := pointindex.IsQuadTree(t); err != nil {
		return "reject", err.Error()
	}
	return "accept", ""
}

// runValidate replicates main.validateTileMatrixSet (package main cannot be imported): the order of
// its calls is tied to the source by gen_validate_calls (translator) and by running the real binary
// on the built-in sets (binaryValidate).
func runValidate(t tms20.TileMatrixSet, ids []int) (class string, msg string, stats string) {
	defer func() {
		if p := recover(); p != nil {
			class, msg = "panic", fmt.Sprint(p)
		}
	}()
	if err := pointindex.IsQuadTree(t); err != nil {
		return "reject", err.Error(), ""
	}
	if len(ids) == 0 {
		return "reject", "no tile matrices given", ""
	}
	for _, id := range ids {
		if _, exists := t.TileMatrices[id]; !exists {
			return "reject", fmt.Sprintf("tile matrix %d does not exist in tile matrix set %s", id, t.ID), ""
		}
	}
	deepest := slices.Max(ids)
	st, _, _, err := pointindex.DeviationStats(t, deepest)
	if err != nil {
		return "reject", err.Error(), ""
	}
	return "accept", "", st
}

var texelBin string

func buildTexel(c *hc.Ctx) error {
	out := filepath.Join(os.TempDir(), fmt.Sprintf("verif_texel_%d", os.Getpid()))
	cmd := exec.Command("go", "build", "-o", out, ".")
	cmd.Dir = c.Repo
	cmd.Env = append(os.Environ(), "GOFLAGS=-mod=mod", "GOPROXY=off", "GOSUMDB=off", "GOTOOLCHAIN=local")
	if b, err := cmd.CombinedOutput(); err != nil {
		return fmt.Errorf("go build of the texel binary failed: %v\n%s", err, b)
	}
	texelBin = out
	return nil
}

// binaryValidate runs the real CLI up to (and not beyond) validation: the source GeoPackage does not
// exist, so an accepted set ends in "error opening source GeoPackage".
func binaryValidate(name string, ids []int) (class string, msg string) {
	z := "["
	for i, id := range ids {
		if i > 0 {
			z += ","
		}
		z += strconv.Itoa(id)
	}
	z += "]"
	cmd := exec.Command(texelBin, "-s", "/nonexistent/verif-source.gpkg", "-t", filepath.Join(os.TempDir(), "verif-unused-target.gpkg"), "-tms", name, "-z", z)
	var buf bytes.Buffer
	cmd.Stdout, cmd.Stderr = &buf, &buf
	_ = cmd.Run()
	o := buf.String()
	switch {
	case strings.Contains(o, "panic:") || strings.Contains(o, "goroutine 1 ["):
		return "panic", trunc(o, 300)
	case strings.Contains(o, "error opening source GeoPackage"):
		return "accept", ""
	default:
		return "reject", trunc(o, 300)
	}
}

// ---- the CLI's own validateTileMatrixSet on a set given as a file (verif hook /repo/verif_validate.go) ----

var (
	texelVerifBin string
	hookDir       string
	hookRuns      int
)

// buildTexelVerif builds the binary with -tags verif (as harness_gpkg does: a scratch copy of go.mod, so that
// /repo's is never rewritten); the tag links verif_validate.go, whose init serves `texel verif-validate file ids`.
func buildTexelVerif(c *hc.Ctx) error {
	dir, err := os.MkdirTemp("", "verif_texel_hook_")
	if err != nil {
		return err
	}
	hookDir = dir
	for _, f := range []string{"go.mod", "go.sum"} {
		b, err := os.ReadFile(filepath.Join(c.Repo, f))
		if err != nil {
			return err
		}
		if err := os.WriteFile(filepath.Join(dir, f), b, 0o644); err != nil {
			return err
		}
	}
	out := filepath.Join(dir, "texel_verif")
	cmd := exec.Command("go", "build", "-modfile="+filepath.Join(dir, "go.mod"), "-tags", "verif", "-o", out, ".")
	cmd.Dir = c.Repo
	cmd.Env = append(os.Environ(), "GOFLAGS=-mod=mod", "GOPROXY=off", "GOSUMDB=off", "GOTOOLCHAIN=local", "CGO_ENABLED=1")
	if b, err := cmd.CombinedOutput(); err != nil {
		return fmt.Errorf("go build -tags verif of the texel binary failed: %v\n%s", err, b)
	}
	texelVerifBin = out
	return nil
}

func idsJSON(ids []int) string {
	z := "["
	for i, id := range ids {
		if i > 0 {
			z += ","
		}
		z += strconv.Itoa(id)
	}
	return z + "]"
}

// hookResult is what `texel verif-validate` said about a value.  The value travels as a document (tms20's
// MarshalJSON), so what the binary validates is the value the document decodes to: `loaded` is that value (decoded
// here by the same library), `faithful` says that its tile matrices are exactly those of the value written.
type hookResult struct {
	class    string // "accept" | "reject" | "panic" | "skip"
	msg      string
	skip     string // why skipped (class "skip")
	loaded   *tms20.TileMatrixSet
	faithful bool
}

func hookValidate(t *tms20.TileMatrixSet, ids []int) hookResult {
	doc, kind, msg := encodeTMS(t)
	if kind != "ok" {
		return hookResult{class: "skip", skip: "value cannot be encoded (" + kind + ")", msg: msg}
	}
	r := decodeTMS(doc)
	if r.Kind != "ok" {
		return hookResult{class: "skip", skip: "document of the value does not load (" + r.Kind + ")", msg: r.Msg}
	}
	hookRuns++
	file := filepath.Join(hookDir, fmt.Sprintf("set_%d.json", hookRuns))
	if err := os.WriteFile(file, doc, 0o644); err != nil {
		return hookResult{class: "skip", skip: "document cannot be written", msg: err.Error()}
	}
	defer os.Remove(file)
	cmd := exec.Command(texelVerifBin, "verif-validate", file, idsJSON(ids))
	var stdout, stderr bytes.Buffer
	cmd.Stdout, cmd.Stderr = &stdout, &stderr
	runErr := runLimited(cmd)
	line := strings.TrimRight(stdout.String(), "\n")
	res := hookResult{loaded: r.Value, faithful: reflect.DeepEqual(r.Value.TileMatrices, t.TileMatrices)}
	switch {
	case line == "accept":
		res.class = "accept"
	case strings.HasPrefix(line, "reject: "):
		res.class, res.msg = "reject", trunc(strings.TrimPrefix(line, "reject: "), 300)
	case strings.HasPrefix(line, "panic: "):
		res.class, res.msg = "panic", trunc(line, 300)
	case strings.HasPrefix(line, "load-error: "):
		return hookResult{class: "skip", skip: "the binary cannot load the document", msg: trunc(line, 300)}
	default:
		// no verdict line: the process died (a fatal error / a panic outside the recover) or is not the hook binary
		res.class, res.msg = "panic", trunc(fmt.Sprintf("no verdict line (%v): stdout %q stderr %q", runErr, stdout.String(), stderr.String()), 400)
	}
	return res
}

// ---- perturbations ---------------------------------------------------------------------------------

type pert struct {
	coq        string
	desc       string
	apply      func(t *tms20.TileMatrixSet)
	kind       string // which condition it breaks ("" = none intended)
	oracleOnly bool   // a value the model cannot hold (NaN, +Inf, -Inf: the model's numbers are exact decimals): no correspondence case
}

func cloneSet(t tms20.TileMatrixSet) tms20.TileMatrixSet {
	c := t
	c.TileMatrices = make(map[int]tms20.TileMatrix, len(t.TileMatrices))
	for k, m := range t.TileMatrices {
		mm := m
		if m.PointOfOrigin != nil {
			p := *m.PointOfOrigin
			mm.PointOfOrigin = &p
		}
		c.TileMatrices[k] = mm
	}
	return c
}

func modTM(t *tms20.TileMatrixSet, id int, f func(m *tms20.TileMatrix)) {
	if m, ok := t.TileMatrices[id]; ok {
		f(&m)
		t.TileMatrices[id] = m
	}
}

func decOfFloat(f float64) string { return coqDec(strconv.FormatFloat(f, 'g', -1, 64)) }

func coqUint(u uint) string { return new(big.Int).SetUint64(uint64(u)).String() }

func pMatrixWidth(id int, v uint) pert {
	return pert{fmt.Sprintf("PMatrixWidth %s %s", hc.CoqZ(int64(id)), coqUint(v)), fmt.Sprintf("matrixWidth[%d] := %d", id, v),
		func(t *tms20.TileMatrixSet) { modTM(t, id, func(m *tms20.TileMatrix) { m.MatrixWidth = v }) }, "matrix width", false}
}
func pMatrixHeight(id int, v uint) pert {
	return pert{fmt.Sprintf("PMatrixHeight %s %s", hc.CoqZ(int64(id)), coqUint(v)), fmt.Sprintf("matrixHeight[%d] := %d", id, v),
		func(t *tms20.TileMatrixSet) { modTM(t, id, func(m *tms20.TileMatrix) { m.MatrixHeight = v }) }, "matrix height", false}
}
func pTileWidth(id int, v uint) pert {
	return pert{fmt.Sprintf("PTileWidth %s %s", hc.CoqZ(int64(id)), coqUint(v)), fmt.Sprintf("tileWidth[%d] := %d", id, v),
		func(t *tms20.TileMatrixSet) { modTM(t, id, func(m *tms20.TileMatrix) { m.TileWidth = v }) }, "tile width", false}
}
func pTileHeight(id int, v uint) pert {
	return pert{fmt.Sprintf("PTileHeight %s %s", hc.CoqZ(int64(id)), coqUint(v)), fmt.Sprintf("tileHeight[%d] := %d", id, v),
		func(t *tms20.TileMatrixSet) { modTM(t, id, func(m *tms20.TileMatrix) { m.TileHeight = v }) }, "tile height", false}
}
func pOrigin(id int, x, y float64) pert {
	return pert{fmt.Sprintf("POrigin %s %s %s", hc.CoqZ(int64(id)), decOfFloat(x), decOfFloat(y)), fmt.Sprintf("pointOfOrigin[%d] := [%v, %v]", id, x, y),
		func(t *tms20.TileMatrixSet) {
			modTM(t, id, func(m *tms20.TileMatrix) { p := tms20.TwoDPoint{x, y}; m.PointOfOrigin = &p })
		}, "origin", false}
}
func pCorner(id int, code int) pert {
	v := []tms20.CornerOfOrigin{"", tms20.TopLeft, tms20.BottomLeft}[code]
	return pert{fmt.Sprintf("PCorner %s %d", hc.CoqZ(int64(id)), code), fmt.Sprintf("cornerOfOrigin[%d] := %q", id, v),
		func(t *tms20.TileMatrixSet) { modTM(t, id, func(m *tms20.TileMatrix) { m.CornerOfOrigin = v }) }, "corner", false}
}
func pCellSize(id int, v float64) pert {
	apply := func(t *tms20.TileMatrixSet) { modTM(t, id, func(m *tms20.TileMatrix) { m.CellSize = v }) }
	if math.IsNaN(v) || math.IsInf(v, 0) {
		// not a decimal: no Coq term, and no JSON document either
		return pert{"", fmt.Sprintf("cellSize[%d] := %v", id, v), apply, "cell size", true}
	}
	return pert{fmt.Sprintf("PCellSize %s %s", hc.CoqZ(int64(id)), decOfFloat(v)), fmt.Sprintf("cellSize[%d] := %v", id, v), apply, "cell size", false}
}
func pDelete(id int) pert {
	return pert{fmt.Sprintf("PDelete %s", hc.CoqZ(int64(id))), fmt.Sprintf("delete matrix %d", id),
		func(t *tms20.TileMatrixSet) { delete(t.TileMatrices, id) }, "delete", false}
}
func pVmw(id int, n int) pert {
	return pert{fmt.Sprintf("PVmw %s %d", hc.CoqZ(int64(id)), n), fmt.Sprintf("variableMatrixWidths[%d] := %d entries", id, n),
		func(t *tms20.TileMatrixSet) {
			modTM(t, id, func(m *tms20.TileMatrix) {
				m.VariableMatrixWidths = make([]tms20.VariableMatrixWidth, n)
				for i := range m.VariableMatrixWidths {
					m.VariableMatrixWidths[i] = tms20.VariableMatrixWidth{Coalesce: 2}
				}
			})
		}, "variable widths", false}
}
func pID(id int, s string) pert {
	return pert{fmt.Sprintf("PId %s %s", hc.CoqZ(int64(id)), coqStr(s)), fmt.Sprintf("id[%d] := %q", id, s),
		func(t *tms20.TileMatrixSet) { modTM(t, id, func(m *tms20.TileMatrix) { m.ID = s }) }, "id", false}
}

// pShift renumbers every tile matrix: key k and id string k become k+d (d = 1 on a set that starts at 0: "all ids
// renumbered from 1" -- a perfect quadtree in every local condition, but without tile matrix 0).
func pShift(d int) pert {
	// kind "": whether a renumbering breaks a condition depends on where the ids start afterwards (quadSpec decides)
	return pert{fmt.Sprintf("PShift %s", hc.CoqZ(int64(d))), fmt.Sprintf("every tile matrix k renumbered k%+d", d),
		func(t *tms20.TileMatrixSet) {
			n := make(map[int]tms20.TileMatrix, len(t.TileMatrices))
			for k, m := range t.TileMatrices {
				m.ID = strconv.Itoa(k + d)
				n[k+d] = m
			}
			t.TileMatrices = n
		}, "", false}
}

// ---- the independent oracle: the quadtree conditions recomputed with exact arithmetic ------------------

type specResult struct {
	ok        bool   // all conditions hold, except "the ids start at 0" (reported apart: firstNotZero)
	broken    string // first broken condition
	uncertain bool   // a cell size ratio within 1e-12 of a tolerance bound: no claim
	// the smallest id of a non-empty set is not 0 ("consecutive integer ids from 0"): such a set must not pass the
	// VALIDATION (before the repair of F22 only DeviationStats objected, and only when there was no tile matrix 0 at all)
	firstNotZero bool
	firstID      int
}

func ratioOf(prev, cur float64) *big.Rat {
	if cur == 0 || math.IsNaN(cur) || math.IsInf(cur, 0) || math.IsNaN(prev) || math.IsInf(prev, 0) {
		return nil
	}
	return new(big.Rat).Quo(ratOfFloat(prev), ratOfFloat(cur))
}

func quadSpec(t *tms20.TileMatrixSet) specResult {
	ids := sortedIDs(t)
	lo, hi := big.NewRat(199, 100), big.NewRat(201, 100)
	eps := new(big.Rat).SetFrac(big.NewInt(1), new(big.Int).Exp(big.NewInt(10), big.NewInt(12), nil))
	res := specResult{ok: true}
	fail := func(s string) {
		if res.ok {
			res.ok, res.broken = false, s
		}
	}
	if len(ids) > 0 && ids[0] != 0 {
		res.firstNotZero, res.firstID = true, ids[0]
	}
	for i, id := range ids {
		m := t.TileMatrices[id]
		if m.MatrixWidth != m.MatrixHeight {
			fail(fmt.Sprintf("matrix %d not square", id))
		}
		if m.TileWidth != m.TileHeight {
			fail(fmt.Sprintf("tiles of matrix %d not square", id))
		}
		if n, err := strconv.ParseInt(m.ID, 10, 64); err != nil || int(n) != id {
			fail(fmt.Sprintf("id %q of matrix %d is not its key", m.ID, id))
		}
		if len(m.VariableMatrixWidths) != 0 {
			fail(fmt.Sprintf("matrix %d has variable widths", id))
		}
		if i == 0 {
			continue
		}
		p := t.TileMatrices[ids[i-1]]
		if id != ids[i-1]+1 {
			fail(fmt.Sprintf("ids %d, %d not consecutive", ids[i-1], id))
		}
		if m.PointOfOrigin == nil || p.PointOfOrigin == nil || *m.PointOfOrigin != *p.PointOfOrigin {
			fail(fmt.Sprintf("origin of matrix %d differs", id))
		}
		if m.CornerOfOrigin != p.CornerOfOrigin {
			fail(fmt.Sprintf("corner of matrix %d differs", id))
		}
		if m.TileWidth != p.TileWidth {
			fail(fmt.Sprintf("tile size of matrix %d differs", id))
		}
		if m.MatrixWidth != 2*p.MatrixWidth {
			fail(fmt.Sprintf("matrix %d does not double", id))
		}
		r := ratioOf(p.CellSize, m.CellSize)
		if r == nil {
			fail(fmt.Sprintf("cell size of matrix %d is not a positive number", id))
			continue
		}
		for _, b := range []*big.Rat{lo, hi} {
			d := new(big.Rat).Sub(r, b)
			if d.Abs(d).Cmp(eps) <= 0 {
				res.uncertain = true
			}
		}
		if r.Cmp(lo) < 0 || r.Cmp(hi) > 0 {
			fail(fmt.Sprintf("cell size ratio %s at matrix %d outside [1.99, 2.01]", r.FloatString(9), id))
		}
	}
	return res
}

var resoRe = regexp.MustCompile(`int64 reso: ([0-9.\-]+)`)

// ---- base sets -------------------------------------------------------------------------------------------

func syntheticQuad(levels int, tileWidth int, cell string, corner string, ox, oy string, first int) *J {
	var tms []*J
	c := ratOfLit(cell)
	w := int64(1)
	for i := 0; i < levels; i++ {
		m := jobj(kv("id", jstr(strconv.Itoa(first+i))), kv("scaleDenominator", jnum("1000")), kv("cellSize", jnum(c.FloatString(12))))
		if corner != "" {
			m.O = append(m.O, kv("cornerOfOrigin", jstr(corner)))
		}
		m.O = append(m.O, kv("pointOfOrigin", jarr(jnum(ox), jnum(oy))), kv("tileWidth", jint(int64(tileWidth))), kv("tileHeight", jint(int64(tileWidth))),
			kv("matrixWidth", jint(w)), kv("matrixHeight", jint(w)))
		tms = append(tms, m)
		c = new(big.Rat).Quo(c, big.NewRat(2, 1))
		w *= 2
	}
	return jobj(kv("id", jstr("synthetic")), kv("crs", jstr("http://www.opengis.net/def/crs/EPSG/0/28992")), kv("orderedAxes", jarr(jstr("X"), jstr("Y"))), kv("tileMatrices", &J{Kind: jArr, A: tms}))
}

type c14Base struct {
	name    string
	coq     string
	set     tms20.TileMatrixSet
	builtin bool
	exact   bool // halving is exact (synthetic) or within the documents' precision (built-in)
	doc     *J   // the source document (the built-in file / the synthetic document), nil when it does not parse
}

func runC14(c *hc.Ctx) error {
	vs := newViolations(c)
	var buf bufferedCases
	c.Sum.Rule = "tile matrix sets = the built-in documents and synthetic exact quadtrees (tile width 1/256/512, both corners, first id 0 or 2); unperturbed (all id lists incl. the real binary for the built-in sets) and with every single-field perturbation (matrix width/height, tile width/height, origin by 1 ulp / 1e-9 / 1 unit, corner, cell size at ratios {1, 1.98, 1.99 -/+ 1ulp, 1.9900001, 2 -/+ 1e-9, 2.0099999, 2.01 -/+ 1 ulp, 2.02, 3} to BOTH neighbours, zero and negative, NaN and +Inf / -Inf, deletion, variable widths incl. the empty non-nil slice, id strings) at the first, second, a random and the last level (thorough: every level), plus random pairs of perturbations, plus (F22) the source DOCUMENTS of every quadtree set (built-in and synthetic, renumbered from 0 where needed) with the id strings of all tile matrices shifted by s in {-3..-1, 1..3} (a negative shift keeps a tile matrix 0) and with their first k = 1..3 (thorough: every k) tile matrices removed, requested ids first / last / 0 / 5 (thorough: also all), each through `texel verif-validate` without MarshalJSON in between, plus the sets without tile matrix 0 that keep every other condition (tile matrix 0 deleted; every id renumbered +1, +3, back to 0; requested ids [1], deepest, [1..5]; thorough: also first, all, the first five); the unperturbed synthetic sets, the sets without tile matrix 0 and a hashed 1-in-24 (thorough 1-in-6) sample of all other evaluations are written to a file (tms20 MarshalJSON) and validated by the CLI's own validateTileMatrixSet (`texel verif-validate`, build tag verif); distinct = distinct (set, perturbations, ids); non-trivial = perturbed or accepted"
	c.Sum.Oracle = "on the implementation (pointindex.IsQuadTree, DeviationStats, the texel binary; panics recovered): accepted => the quadtree conditions recomputed from the struct with exact rationals hold (ratio cases within 1e-12 of 1.99/2.01 make no claim); a perturbation breaking exactly one condition of an accepted set => rejected with an error; a NaN or infinite cell size at any level => rejected by IsQuadTree and by the composite (oracle only: such a value has no decimal in the model and no JSON document, so no correspondence case and no run of the hook); a set whose smallest id is not 0 is never accepted by the validation, and every document of the streams 'all ids shifted' / 'first tile matrices removed' is rejected by the library composite and by `texel verif-validate` (reject, whatever the message: never accept, never a panic); never a panic; for accepted unperturbed sets with a 1x1 root the pixel size reported by DeviationStats (int64 reso) equals cellSize(z)/16 within 1e-7 relative (built-in documents halve only to ~3e-8) resp. exactly to 1e-10 units (synthetic); the binary's verdict equals the library composite; the verdict of validateTileMatrixSet on a set given as a file (verif hook) equals the library composite on the value that file decodes to -- in particular a DeviationStats error (no tile matrix 0) is a rejection -- and is never a panic (values that cannot be encoded or whose document does not load are skipped and counted)"
	c.Sum.Partial = "float clause: the ratio condition is the binary64 test the code performs; its meaning for the exact quotient of the two float64 cell sizes is proved with a slack of 2^-50 (C14_ratio_exact: within [1.99 - 2^-50, 2.01 + 2^-50]); validate_total carries the level bound d + log2(tile width) + 4 < 64 (every built-in set satisfies it; a 60-level set does not: C14_validate_total_level_bound_needed)"
	c.Sum.TrustedBase = []string{
		"float64 division and comparison in IsQuadTree modelled bit-exactly through f64 (round to nearest even of the exact quotient of the two binary64 values)",
		"tie G2: the body of pointindex.IsQuadTree is regenerated statement by statement into gen/QuadTreeGen.v and proved equal to the model's isQuadTree for every record (C14_source_tie_isQuadTree); kept as model functions after an AST shape check: maps.Keys+slices.Sort+range+lookup = sorted_matrices, strconv.Atoi = parse_int, float64 division + mathhelp.FBetweenInc (body checked) = ratio_ok, != on [2]float64 / CornerOfOrigin = point_feqb / corner_eqb, fields of tms20.TileMatrix (types checked) = projections of the record (Tms/GoTms.v)",
		"uint(math.Log2(float64(tileWidth))) modelled as floor(log2) (exact for tile widths below 2^47); uint(-Inf) = 2^63 and 1<<n = 0 for n >= 64 as compiled for amd64",
		"main.validateTileMatrixSet is in package main: its call order is tied by the generated gen_validate_calls, by running the built binary on the built-in sets, and by running it on perturbed sets written to a file through the add-only hook /repo/verif_validate.go (build tag verif: load with tms20.LoadJSONTileMatrixSet, call validateTileMatrixSet, print the verdict); for the perturbed values that are not sampled for the hook the harness calls IsQuadTree, slices.Max, DeviationStats in that order itself",
	}
	c.Sum.Assumptions = []string{"numbers of the model are exact decimals (every finite binary64 value is one): a NaN or infinite cell size -- which no JSON document can carry, only a value built in Go -- is outside the model; those perturbations are checked by the oracle on the implementation only (rejected, no panic) and emit no correspondence case"}
	if err := buildTexel(c); err != nil {
		return err
	}
	defer os.Remove(texelBin)
	if err := buildTexelVerif(c); err != nil {
		return err
	}
	defer os.RemoveAll(hookDir)

	names, err := builtinNames(c)
	if err != nil {
		return err
	}
	var bases []c14Base
	for _, n := range names {
		t, err := mustLoadBuiltin(c, n)
		if err != nil {
			vs.add(hc.Violation{What: "a built-in tile matrix set document does not decode", Input: n, Observed: err.Error()})
			continue
		}
		var src *J
		if raw, err := builtinRaw(c, n); err == nil {
			src, _ = parseJ(raw)
		}
		bases = append(bases, c14Base{n, "(BGen " + coqStr(n) + ")", t, true, false, src})
	}
	for _, s := range []struct {
		levels, tw   int
		cell, corner string
		ox, oy       string
		first        int
	}{
		{4, 256, "1024", "", "-1000.5", "2000.25", 0},
		{6, 512, "0.703125", "bottomLeft", "-180", "-90", 0},
		{3, 1, "16", "topLeft", "0", "0", 0},
		{5, 256, "3440.64", "topLeft", "-285401.92", "903401.92", 0},
		{4, 256, "8", "", "10", "20", 2},
	} {
		doc := syntheticQuad(s.levels, s.tw, s.cell, s.corner, s.ox, s.oy, s.first)
		r := decodeTMS(doc.bytes())
		if r.Kind != "ok" {
			return fmt.Errorf("synthetic set does not decode: %s", r.Msg)
		}
		bases = append(bases, c14Base{fmt.Sprintf("synthetic(levels=%d,tile=%d,corner=%q,first=%d)", s.levels, s.tw, s.corner, s.first), "(BLit " + doc.coq() + ")", *r.Value, false, true, doc})
	}

	// which evaluations also go through `texel verif-validate` (one process start each): all that ask for it
	// (hookAlways), and of the others those whose key hashes into 1 of hookDen
	const (
		hookNever = iota
		hookSampled
		hookAlways
	)
	hookDen := uint32(c.N(24, 6))
	if c.Search {
		hookDen = uint32(c.N(8, 3))
	}
	hookViolations := 0
	seen := map[string]bool{}
	// raw != nil: the document that goes to `texel verif-validate` instead of tms20's MarshalJSON of the perturbed value;
	// f22 != "": an evaluation of the streams "all ids shifted" / "first matrices removed" (its name): the validation must reject
	f22Violations := 0
	runHX := func(b c14Base, ps []pert, ids []int, useBinary bool, hook int, raw []byte, f22 string) {
		var pc, pd []string
		for _, p := range ps {
			pc = append(pc, p.coq)
			pd = append(pd, p.desc)
		}
		key := fmt.Sprintf("%s|%v|%v|%v", b.name, pd, ids, useBinary)
		if raw != nil {
			key += "|document"
		}
		if seen[key] {
			return
		}
		seen[key] = true
		c.Sum.Evaluations++
		t := cloneSet(b.set)
		for _, p := range ps {
			p.apply(&t)
		}
		qc, qm := runIsQuadTree(t)
		vc, vm, stats := runValidate(t, ids)
		in := map[string]any{"set": b.name, "perturbations": pd, "ids": ids}
		c.Count(fmt.Sprintf("perturbations: %d", len(ps)))
		c.Count("IsQuadTree: " + qc)
		c.Count("validate: " + vc)
		if len(ps) > 0 || qc == "accept" {
			c.Nontrivial(key)
		}
		// ---- oracle
		if qc == "panic" || vc == "panic" {
			vs.add(hc.Violation{What: "validation panics", Input: in, Observed: "IsQuadTree: " + qc + " " + qm + "; validate: " + vc + " " + vm, Expected: "an error or acceptance"})
		}
		missing := len(ids) == 0
		for _, id := range ids {
			if _, ok := t.TileMatrices[id]; !ok {
				missing = true
			}
		}
		if missing && vc != "reject" {
			vs.add(hc.Violation{What: "an empty request / a request for a tile matrix that is not in the set is not rejected with an error (regression F12)", Input: in, Observed: vc + " " + vm, Expected: "an error"})
		}
		// the perturbed VALUE (a later perturbation may delete the matrix again): two or more matrices, one of them
		// with a cell size that is not a finite number => no ratio to a neighbour lies within [1.99, 2.01]
		if len(t.TileMatrices) >= 2 && (qc != "reject" || vc != "reject") {
			for _, id := range sortedIDs(&t) {
				if cs := t.TileMatrices[id].CellSize; math.IsNaN(cs) || math.IsInf(cs, 0) {
					vs.add(hc.Violation{What: fmt.Sprintf("a tile matrix set with a NaN / infinite cell size is not rejected with an error (cell size of tile matrix %d is %v)", id, cs), Input: in, Observed: "IsQuadTree: " + qc + " " + qm + "; validate: " + vc + " " + vm, Expected: "rejected by IsQuadTree (the ratio to a neighbouring cell size is not within [1.99, 2.01])"})
					break
				}
			}
		}
		spec := quadSpec(&t)
		if spec.firstNotZero {
			c.Count("ids do not start at 0: IsQuadTree " + qc + ", validate " + vc)
			if vc == "accept" {
				vs.add(hc.Violation{What: fmt.Sprintf("validation accepts a tile matrix set whose tile matrix ids do not start at 0 (first id %d)", spec.firstID), Input: in, Observed: "IsQuadTree: " + qc + "; validate: accepted", Expected: "rejected with an error: consecutive integer ids from 0"})
			}
		}
		if f22 != "" {
			// the library composite on these values is judged by the two oracles above (every such set has a first id
			// other than 0: accepted => violation; a panic => violation); the CLI's own function is judged below
			c.Count(f22 + ": library composite " + vc)
			if !spec.firstNotZero {
				vs.add(hc.Violation{What: "harness: a set of the stream '" + f22 + "' starts at id 0", Input: in, Observed: "first id 0", Expected: "a first id other than 0"})
			}
		}
		if qc == "accept" && !spec.ok && !spec.uncertain {
			vs.add(hc.Violation{What: "IsQuadTree accepts a tile matrix set that is not a quadtree: " + spec.broken, Input: in, Observed: "accepted", Expected: "rejected: " + spec.broken})
		}
		if len(ps) == 1 && ps[0].kind != "" && !spec.ok && !spec.uncertain && vc == "accept" {
			vs.add(hc.Violation{What: "a tile matrix set with one broken quadtree condition (" + ps[0].kind + ") passes validation", Input: in, Observed: "accepted", Expected: "rejected: " + spec.broken})
		}
		if qc == "reject" && spec.ok && !spec.uncertain {
			// not required by the property (rejection is always allowed), reported in the distribution only
			c.Count("rejected although all recomputed conditions hold (allowed): " + trunc(qm, 60))
		}
		if vc == "accept" && len(ps) == 0 && stats != "" {
			// pixel size used for the deepest requested matrix = its cell size / 16
			deepest := slices.Max(ids)
			root, hasRoot := t.TileMatrices[0]
			m, has := t.TileMatrices[deepest]
			if mm := resoRe.FindStringSubmatch(stats); mm != nil && has && hasRoot && root.MatrixWidth == 1 {
				reso := ratOfLit(mm[1])
				want := new(big.Rat).Quo(ratOfFloat(m.CellSize), big.NewRat(16, 1))
				diff := new(big.Rat).Sub(reso, want)
				diff.Abs(diff)
				tol := new(big.Rat).Mul(want, big.NewRat(1, 10000000))
				if b.exact {
					tol = big.NewRat(1, 10000000000)
				}
				tol.Add(tol, big.NewRat(1, 10000000000)) // one unit of the integer representation
				if diff.Cmp(tol) > 0 {
					vs.add(hc.Violation{What: "the pixel size used for tile matrix z is not its cell size / 16", Input: in, Observed: mm[1], Expected: want.FloatString(12)})
				}
				c.Count("pixel size checked")
			}
		}
		bq, bv := qc, vc
		viaHook := false
		if hook == hookSampled {
			h := fnv.New32a()
			h.Write([]byte(key))
			if h.Sum32()%hookDen != 0 {
				hook = hookNever
			}
		}
		if hook != hookNever && !useBinary {
			// the CLI's own validateTileMatrixSet on this value, written to a file: its verdict must be that of the
			// library composite on the value the document decodes to (the same value unless the round trip changes it)
			var hr hookResult
			if raw != nil {
				hr = hookValidateDoc(raw, ids, &t)
			} else {
				hr = hookValidate(&t, ids)
			}
			if f22 != "" {
				c.Count(f22 + ": texel verif-validate " + hr.class)
				if hr.class == "accept" || hr.class == "panic" {
					f22Violations++
					fin := map[string]any{"set": b.name, "perturbations": pd, "ids": ids, "command": "texel (go build -tags verif) verif-validate <document> '" + idsJSON(ids) + "'"}
					if raw != nil && f22Violations <= 2 {
						fin["document"] = string(raw)
					}
					vs.add(hc.Violation{What: "validateTileMatrixSet does not reject the document of a quadtree tile matrix set with " + f22, Input: fin, Observed: "texel verif-validate: " + hr.class + " " + hr.msg, Expected: "reject (never accept, never a panic): the ids are not the consecutive integers from 0"})
				}
			}
			if hr.class == "skip" {
				c.Count("verif-validate: skipped, " + hr.skip)
			} else {
				c.Count("verif-validate: " + hr.class)
				lc, lm := vc, vm
				if !hr.faithful {
					c.Count("verif-validate: the document decodes to other tile matrices than the value written (composite recomputed on the decoded value)")
					lc, lm, _ = runValidate(*hr.loaded, ids)
				}
				hin := map[string]any{"set": b.name, "perturbations": pd, "ids": ids, "command": "texel (go build -tags verif) verif-validate <document of the perturbed set, tms20 MarshalJSON> '" + idsJSON(ids) + "'"}
				if raw != nil {
					hin["command"] = "texel (go build -tags verif) verif-validate <the source document with its tile matrix ids rewritten / entries removed> '" + idsJSON(ids) + "'"
				}
				if hr.class != lc || hr.class == "panic" {
					hookViolations++
					if hookViolations <= 3 {
						if raw != nil {
							hin["document"] = string(raw)
						} else if doc, kind, _ := encodeTMS(&t); kind == "ok" {
							hin["document"] = string(doc)
						}
					}
				}
				switch {
				case hr.class == "panic":
					vs.add(hc.Violation{What: "texel panics while validating a tile matrix set given as a file (validateTileMatrixSet through the verif hook)", Input: hin, Observed: "texel verif-validate: " + hr.msg, Expected: "library composite: " + lc + " " + lm})
				case hr.class == "accept" && lc != "accept":
					vs.add(hc.Violation{What: "validateTileMatrixSet accepts a tile matrix set the library composite (IsQuadTree, ids non-empty and in the set, DeviationStats) rejects", Input: hin, Observed: "texel verif-validate: accept", Expected: "library composite: " + lc + " " + lm})
				case hr.class != lc:
					vs.add(hc.Violation{What: "validateTileMatrixSet's verdict differs from the library composite (IsQuadTree, ids non-empty and in the set, DeviationStats)", Input: hin, Observed: "texel verif-validate: " + hr.class + " " + hr.msg, Expected: "library composite: " + lc + " " + lm})
				}
				if hr.faithful {
					bv, viaHook = hr.class, true
				}
			}
		}
		if useBinary {
			bc, bm := binaryValidate(b.name, ids)
			c.Count("binary: " + bc)
			if bc != vc {
				vs.add(hc.Violation{What: "the texel binary's validation verdict differs from the sequence IsQuadTree, ids non-empty and in the set, DeviationStats (order of checks in validateTileMatrixSet?)", Input: in, Observed: "binary: " + bc + " " + bm, Expected: "library composite: " + vc + " " + vm})
			}
			bv = bc
			if bc == "panic" {
				vs.add(hc.Violation{What: "texel panics while validating the tile matrix set", Input: in, Observed: bm, Expected: "an error"})
			}
		}
		cls := map[string]string{"accept": "VAccept", "reject": "VReject", "panic": "VPanicked"}
		idl := make([]string, len(ids))
		for i, id := range ids {
			idl[i] = hc.CoqZ(int64(id))
		}
		addCase := buf.add
		if len(ps) == 0 {
			addCase = buf.addFirst
		}
		for _, p := range ps {
			if p.oracleOnly {
				// NaN / infinite values are outside the model's exact decimals: oracle only
				c.Count("oracle only, no correspondence case (NaN / infinite cell size)")
				addCase = func(string, any) {}
			}
		}
		addCase(fmt.Sprintf("MkCase %s %s %s %s %s", b.coq, hc.CoqList(pc), hc.CoqList(idl), cls[bq], cls[bv]),
			map[string]any{"set": b.name, "perturbations": pd, "ids": ids, "IsQuadTree": qc + " " + qm, "validate": bv + " " + vm, "binary": useBinary, "verif-validate": viaHook})
		if len(ps) == 1 && len(c.Sum.Samples) < 6 && c.Rng.Intn(300) == 0 {
			c.Sample(map[string]any{"set": b.name, "perturbation": pd[0], "IsQuadTree": qc, "message": qm})
		}
	}

	runH := func(b c14Base, ps []pert, ids []int, useBinary bool, hook int) {
		runHX(b, ps, ids, useBinary, hook, nil, "")
	}
	run := func(b c14Base, ps []pert, ids []int, useBinary bool) { runH(b, ps, ids, useBinary, hookSampled) }

	// 1. unperturbed, several id lists; the built-in ones also through the real binary, all of them (the synthetic
	// ones cannot be named on the command line) through `texel verif-validate`
	for _, b := range bases {
		ids := sortedIDs(&b.set)
		lists := [][]int{{ids[0]}, {ids[len(ids)-1]}, ids, {ids[len(ids)/2], ids[0]}}
		for _, l := range lists {
			runH(b, nil, l, false, hookAlways)
		}
		if b.builtin {
			run(b, nil, []int{ids[len(ids)-1]}, true)
			run(b, nil, []int{ids[0], ids[len(ids)/2]}, true)
		}
		// every level of an accepted set: pixel size = cell size / 16
		if cl0, _ := runIsQuadTree(b.set); cl0 == "accept" {
			for _, id := range ids {
				run(b, nil, []int{id}, false)
			}
		}
	}
	// 2. regression F12 (repaired): an empty request and ids that are not tile matrices of the set must give an error, library and binary
	for _, b := range bases {
		if b.name != "WebMercatorQuad" && b.name != "NetherlandsRDNewQuad" {
			continue
		}
		for _, l := range [][]int{{}, {51}, {52}, {60}, {-1}, {-12}, {-13}, {30}} {
			run(b, nil, l, false)
			run(b, nil, l, true)
		}
	}
	// 3. single-field perturbations of every accepted set
	next := func(f float64, up bool) float64 {
		if up {
			return math.Nextafter(f, math.Inf(1))
		}
		return math.Nextafter(f, math.Inf(-1))
	}
	for _, b := range bases {
		if cl, _ := runIsQuadTree(b.set); cl != "accept" {
			continue
		}
		ids := sortedIDs(&b.set)
		levels := map[int]bool{}
		if c.Quick() {
			for _, i := range []int{0, 1, len(ids) - 1, 1 + c.Rng.Intn(len(ids)-1)} {
				if i >= 0 && i < len(ids) {
					levels[ids[i]] = true
				}
			}
		} else {
			for _, id := range ids {
				levels[id] = true
			}
		}
		idsAll := []int{ids[len(ids)-1]}
		for _, id := range ids {
			if !levels[id] {
				continue
			}
			m := b.set.TileMatrices[id]
			var ps []pert
			for _, v := range []uint{0, 1, m.MatrixWidth - 1, m.MatrixWidth + 1, m.MatrixWidth * 2, m.MatrixWidth / 2, 1 << 63} {
				if v != m.MatrixWidth {
					ps = append(ps, pMatrixWidth(id, v), pMatrixHeight(id, v))
				}
			}
			for _, v := range []uint{0, 1, m.TileWidth - 1, m.TileWidth + 1, m.TileWidth * 2, m.TileWidth / 2, 4096} {
				if v != m.TileWidth {
					ps = append(ps, pTileWidth(id, v), pTileHeight(id, v))
				}
			}
			ox, oy := m.PointOfOrigin[0], m.PointOfOrigin[1]
			ps = append(ps, pOrigin(id, next(ox, true), oy), pOrigin(id, ox, next(oy, false)), pOrigin(id, ox+1, oy), pOrigin(id, ox, oy-0.5),
				pOrigin(id, ox+1e-9*math.Max(1, math.Abs(ox)), oy), pOrigin(id, oy, ox), pOrigin(id, 0, 0), pOrigin(id, -ox, oy))
			for code := 0; code < 3; code++ {
				if []tms20.CornerOfOrigin{"", tms20.TopLeft, tms20.BottomLeft}[code] != m.CornerOfOrigin {
					ps = append(ps, pCorner(id, code))
				}
			}
			// cell size: ratios against the previous and against the next matrix
			ratios := []float64{1, 1.98, next(1.99, false), 1.99, next(1.99, true), 1.9900001, 2 - 1e-9, 2, 2 + 1e-9, 2.0099999, next(2.01, false), 2.01, next(2.01, true), 2.02, 3, 0.5}
			addCell := func(v float64, r float64) {
				if v == m.CellSize {
					return
				}
				ps = append(ps, pCellSize(id, v))
				if !c.Quick() || r == 1.99 || r == 2.01 {
					ps = append(ps, pCellSize(id, next(v, true)), pCellSize(id, next(v, false)))
				}
			}
			if p, ok := b.set.TileMatrices[id-1]; ok {
				for _, r := range ratios {
					addCell(p.CellSize/r, r)
				}
			}
			if n, ok := b.set.TileMatrices[id+1]; ok {
				for _, r := range ratios {
					addCell(n.CellSize*r, r)
				}
			}
			ps = append(ps, pCellSize(id, 0), pCellSize(id, -m.CellSize), pCellSize(id, 1e300), pCellSize(id, 5e-324))
			// not numbers / not finite (cannot come from a document, only from a value built in Go): every comparison
			// with NaN is false, so a range test written as a negation accepts it
			ps = append(ps, pCellSize(id, math.NaN()), pCellSize(id, math.Inf(1)), pCellSize(id, math.Inf(-1)))
			ps = append(ps, pDelete(id), pVmw(id, 1), pVmw(id, 3), pVmw(id, 0))
			for _, s := range []string{"", "x", "0" + m.ID, "+" + m.ID, "-" + m.ID, m.ID + " ", strconv.Itoa(id + 1), "1e1", m.ID + ".0", "99999999999999999999"} {
				if s != m.ID {
					ps = append(ps, pID(id, s))
				}
			}
			for _, p := range ps {
				// kinds whose single application does not break a condition: recomputed by quadSpec anyway
				run(b, []pert{p}, idsAll, false)
			}
			// compensated pairs: both dimensions changed together
			run(b, []pert{pMatrixWidth(id, m.MatrixWidth*2), pMatrixHeight(id, m.MatrixWidth*2)}, idsAll, false)
			run(b, []pert{pMatrixWidth(id, m.MatrixWidth+1), pMatrixHeight(id, m.MatrixWidth+1)}, idsAll, false)
			run(b, []pert{pTileWidth(id, 512), pTileHeight(id, 512)}, idsAll, false)
			run(b, []pert{pTileWidth(id, 255), pTileHeight(id, 255)}, idsAll, false)
		}
		// deleting the root (and the first two) leaves a quadtree without id 0
		runH(b, []pert{pDelete(ids[0])}, []int{ids[len(ids)-1]}, false, hookAlways)
		if len(ids) > 2 {
			runH(b, []pert{pDelete(ids[0]), pDelete(ids[1])}, []int{ids[len(ids)-1]}, false, hookAlways)
			runH(b, []pert{pDelete(ids[len(ids)-1]), pDelete(ids[len(ids)-2])}, []int{ids[0]}, false, hookAlways)
		}
		// sets without tile matrix 0 that satisfy every other quadtree condition: tile matrix 0 deleted; all ids
		// renumbered from 1 (and from 3; and back to 0 for a set that starts higher).  Only DeviationStats (through
		// MatrixBoundingBox(0)) says that tile matrix 0 is needed, so validateTileMatrixSet must pass its error on:
		// always through the CLI's own function.
		last := ids[len(ids)-1]
		for _, ps := range [][]pert{{pDelete(0)}, {pShift(1)}, {pShift(3)}, {pShift(-ids[0])}, {pShift(1), pDelete(last + 1)}} {
			if ids[0] == 0 && len(ps) == 1 && ps[0].coq == pShift(0).coq {
				continue
			}
			t := cloneSet(b.set)
			for _, p := range ps {
				p.apply(&t)
			}
			pids := sortedIDs(&t)
			if len(pids) == 0 {
				continue
			}
			lists := [][]int{{1}, {pids[len(pids)-1]}, {1, 2, 3, 4, 5}}
			if ps[0].coq == pShift(3).coq || len(ps) > 1 {
				lists = [][]int{{pids[0]}, {pids[len(pids)-1]}}
			}
			if !c.Quick() {
				lists = append(lists, []int{1}, []int{pids[0]}, []int{last}, []int{1, 2, 3, 4, 5}, pids)
				if len(pids) > 5 {
					lists = append(lists, pids[:5])
				}
			}
			for _, l := range lists {
				runH(b, ps, l, false, hookAlways)
			}
		}
		// whole-set consistent changes (still a quadtree): every tile 512 wide; every corner bottomLeft
		var all512, allBL []pert
		for _, id := range ids {
			all512 = append(all512, pTileWidth(id, 512), pTileHeight(id, 512))
			allBL = append(allBL, pCorner(id, 2))
		}
		run(b, all512, idsAll, false)
		run(b, allBL, idsAll, false)
		// random pairs
		n := c.N(40, 600)
		if c.Search {
			n *= 10
		}
		for i := 0; i < n; i++ {
			id1 := ids[c.Rng.Intn(len(ids))]
			id2 := ids[c.Rng.Intn(len(ids))]
			m1 := b.set.TileMatrices[id1]
			mk := func(id int, m tms20.TileMatrix) pert {
				switch c.Rng.Intn(8) {
				case 0:
					return pMatrixWidth(id, m.MatrixWidth*2)
				case 1:
					return pMatrixHeight(id, m.MatrixHeight*2)
				case 2:
					return pTileWidth(id, 512)
				case 3:
					return pTileHeight(id, 512)
				case 4:
					return pCellSize(id, m.CellSize*[]float64{0.5, 2, 0.996, 1.004, 0.99, 1.01, math.NaN(), math.Inf(1)}[c.Rng.Intn(8)])
				case 5:
					return pCorner(id, 2)
				case 6:
					return pOrigin(id, m.PointOfOrigin[0]+1, m.PointOfOrigin[1])
				default:
					return pDelete(id)
				}
			}
			run(b, []pert{mk(id1, m1), mk(id2, b.set.TileMatrices[id2])}, []int{ids[c.Rng.Intn(len(ids))]}, false)
		}
	}
	// 4. (F22) documents of quadtree sets -- built-in and synthetic -- with ALL ids shifted by s in {-3..-1, 1..3} and with
	// their first k tile matrices removed, through the CLI's own validateTileMatrixSet: always a reject.  A negative shift
	// keeps a tile matrix 0 (the 2x2 / 4x4 / 8x8 one), so nothing but "the ids start at 0" is broken.  The documents are
	// the source documents with the "id" strings rewritten / entries left out (no MarshalJSON in between); the set is
	// first renumbered from 0 when it starts elsewhere (the synthetic set that starts at 2).
	for _, b := range bases {
		if b.doc == nil {
			c.Count("F22 streams: source document does not parse (skipped)")
			continue
		}
		ids := sortedIDs(&b.set)
		c0 := -ids[0]
		canon := cloneSet(b.set)
		if c0 != 0 {
			pShift(c0).apply(&canon)
		}
		if cl, _ := runIsQuadTree(canon); cl != "accept" {
			continue
		}
		c.Count("F22 streams: quadtree sets (renumbered from 0 where needed)")
		n := len(ids)
		for _, sft := range []int{-3, -2, -1, 1, 2, 3} {
			d := c0 + sft
			doc, ok := shiftDoc(b.doc, d)
			if !ok {
				c.Count("F22 streams: ids of the source document are not integers (skipped)")
				continue
			}
			raw := doc.bytes()
			first, last := sft, sft+n-1
			lists := [][]int{{first}, {last}}
			for _, q := range []int{0, 5} {
				if first <= q && q <= last && q != first && q != last {
					lists = append(lists, []int{q})
				}
			}
			if !c.Quick() {
				all := make([]int, n)
				for i := range all {
					all[i] = first + i
				}
				lists = append(lists, all, []int{first + n/2, first})
			}
			name := "all ids shifted by a negative number (tile matrix 0 present)"
			if sft > 0 {
				name = "all ids shifted by a positive number (no tile matrix 0)"
			}
			for _, l := range lists {
				runHX(b, []pert{pShift(d)}, l, false, hookAlways, raw, name)
			}
		}
		maxK := 3
		if !c.Quick() {
			maxK = n - 1
		}
		for k := 1; k <= maxK && k < n; k++ {
			var ps []pert
			src := b.doc
			if c0 != 0 {
				ps = append(ps, pShift(c0))
				var ok bool
				if src, ok = shiftDoc(b.doc, c0); !ok {
					break
				}
			}
			for i := 0; i < k; i++ {
				ps = append(ps, pDelete(i))
			}
			doc, ok := dropBelowDoc(src, k)
			if !ok {
				break
			}
			raw := doc.bytes()
			for _, l := range [][]int{{k}, {n - 1}} {
				runHX(b, ps, l, false, hookAlways, raw, "its first tile matrices removed")
			}
		}
	}
	// 5. documents of quadtree sets with one REQUIRED member of one tile matrix left out (pointOfOrigin, cellSize, tileWidth,
	// tileHeight, matrixWidth, matrixHeight): the set has no common origin / no doubling any more.  Such a document does
	// not load (the decoder rejects it); should it load, validation has to reject it -- never accept, never panic.  Oracle
	// only: the outcome is a load error or a reject.
	for bi, b := range bases {
		if b.doc == nil {
			continue
		}
		tmsArr := b.doc.get("tileMatrices")
		if tmsArr == nil || tmsArr.Kind != jArr || len(tmsArr.A) == 0 {
			continue
		}
		ids := sortedIDs(&b.set)
		for mi, member := range []string{"pointOfOrigin", "cellSize", "tileWidth", "tileHeight", "matrixWidth", "matrixHeight"} {
			if c.Quick() && (bi+mi)%3 != 0 {
				continue
			}
			for _, k := range []int{0, len(tmsArr.A) / 2, len(tmsArr.A) - 1} {
				doc := b.doc.clone()
				e := doc.get("tileMatrices").A[k]
				if e.Kind != jObj || e.get(member) == nil {
					continue
				}
				e.del(member)
				hr := hookValidateDoc(doc.bytes(), []int{ids[0]}, nil)
				c.Sum.Evaluations++
				c.Count("a required member of one tile matrix removed: " + map[string]string{"skip": "the document does not load", "reject": "texel verif-validate reject", "accept": "ACCEPTED", "panic": "PANIC"}[hr.class])
				if hr.class == "accept" || hr.class == "panic" {
					vs.add(hc.Violation{What: "a tile matrix set document with a required member of one tile matrix removed (" + member + ") is not rejected: texel verif-validate: " + hr.class,
						Input: map[string]any{"set": b.name, "tile_matrix_index": k, "member_removed": member, "ids": []int{ids[0]}}, Observed: hr.msg, Expected: "load error or reject"})
				}
			}
		}
	}
	buf.flush(c, "Texel.Corr.C14", "theories/Corr/C14.v", 16)
	return nil
}
