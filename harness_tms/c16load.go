package main

// C16, the LOADERS: how a built-in tile matrix set reaches the rest of the code.  Every built-in set is loaded through the
// real tms20.LoadEmbeddedTileMatrixSet -- first in a process where nothing was loaded before (all misses), then again
// (all hits), reversed, and in seeded random orders with repetitions, unknown ids and ids that path.Join cleans mixed in
// -- and every value is compared with a FRESH json.Unmarshal of the file's bytes (reflect.DeepEqual after the nil / empty
// slice identification of the C16 oracle).  tms20.LoadJSONTileMatrixSet is run on the same files by path.  The values of
// the last pass are printed with json.Marshal and handed to the correspondence: Coq decodes the regenerated document of
// that name (gen/TmsData.v) and compares the encoding -- so the run-time correspondence covers the loader too (the source
// tie is C16_source_tie_load_embedded.. in Properties/C16.v).
//
// The harness never writes through a loaded value: the comparison works on cloneForCompare copies.

import (
	"fmt"
	"math/rand"
	"os"
	"path/filepath"
	"reflect"

	hc "verif/hcommon"

	"github.com/pdok/texel/tms20"
)

type loadResult struct {
	Kind  string // "ok" | "error" | "panic"
	Msg   string
	Value tms20.TileMatrixSet
}

func loadEmbedded(id string) (r loadResult) {
	defer func() {
		if p := recover(); p != nil {
			r = loadResult{Kind: "panic", Msg: fmt.Sprint(p)}
		}
	}()
	t, err := tms20.LoadEmbeddedTileMatrixSet(id)
	if err != nil {
		return loadResult{Kind: "error", Msg: err.Error()}
	}
	return loadResult{Kind: "ok", Value: t}
}

func loadJSONFile(path string) (r loadResult) {
	defer func() {
		if p := recover(); p != nil {
			r = loadResult{Kind: "panic", Msg: fmt.Sprint(p)}
		}
	}()
	t, err := tms20.LoadJSONTileMatrixSet(path)
	if err != nil {
		return loadResult{Kind: "error", Msg: err.Error()}
	}
	return loadResult{Kind: "ok", Value: t}
}

// sameSet: equal values, nil and empty slices identified; strict says whether they are equal without that identification too
func sameSet(a, b tms20.TileMatrixSet) (same, strict bool) {
	strict = reflect.DeepEqual(a, b)
	x, y := cloneForCompare(a), cloneForCompare(b)
	normalizeNilEmpty(&x)
	normalizeNilEmpty(&y)
	return reflect.DeepEqual(x, y), strict
}

// c16Loaders must run before anything else of the process calls LoadEmbeddedTileMatrixSet (the first pass is then a pass
// of misses).  It draws from a generator of its own so that the other streams of C16 see the random numbers they saw before.
func c16Loaders(c *hc.Ctx, vs *violations, buf *bufferedCases) error {
	rng := rand.New(rand.NewSource(c.Seed ^ 0x10ad10ad))
	names, err := builtinNames(c)
	if err != nil {
		return err
	}
	// the reference: a fresh json.Unmarshal of the file's bytes, per name
	fresh := map[string]tms20.TileMatrixSet{}
	for _, n := range names {
		raw, err := builtinRaw(c, n)
		if err != nil {
			return err
		}
		r := decodeTMS(raw)
		if r.Kind != "ok" {
			// reported by the document stream of C16 ("a built-in tile matrix set document does not decode"); here the loader must fail too
			continue
		}
		fresh[n] = *r.Value
	}

	check := func(id, file, phase string) loadResult {
		c.Sum.Evaluations++
		r := loadEmbedded(id)
		in := map[string]any{"call": "tms20.LoadEmbeddedTileMatrixSet", "id": id, "phase": phase}
		want, exists := fresh[file]
		switch {
		case r.Kind == "panic":
			vs.add(hc.Violation{What: "LoadEmbeddedTileMatrixSet panics", Input: in, Observed: r.Msg, Expected: "a value or an error"})
		case !exists:
			c.Count("loader: id without a (decodable) embedded file -> " + r.Kind)
			if r.Kind != "error" {
				vs.add(hc.Violation{What: "LoadEmbeddedTileMatrixSet succeeds for an id that has no decodable embedded document", Input: in,
					Observed: fmt.Sprintf("ID %q, %d tile matrices", r.Value.ID, len(r.Value.TileMatrices)), Expected: "an error"})
			}
		case r.Kind != "ok":
			vs.add(hc.Violation{What: "LoadEmbeddedTileMatrixSet fails for a built-in set", Input: in, Observed: r.Msg, Expected: "the decoded document " + file + ".json"})
		default:
			same, strict := sameSet(r.Value, want)
			if !same {
				vs.add(hc.Violation{What: "LoadEmbeddedTileMatrixSet returns a value that differs from a fresh json.Unmarshal of the embedded document (cache not transparent?)", Input: in,
					Observed: trunc(fmt.Sprintf("%+v", r.Value), 1500), Expected: trunc(fmt.Sprintf("%+v", want), 1500)})
			} else if !strict {
				c.Count("loader: equal to the fresh decode only up to nil vs. empty slices")
			}
			c.Count("loader: " + phase + " -> equal to the fresh decode")
		}
		return r
	}

	// 1. nothing loaded yet: every load is a miss; 2. the same again: every load is a hit; 3. reversed
	for _, n := range names {
		check(n, n, "first load in the process (miss)")
	}
	for _, n := range names {
		check(n, n, "second load (hit)")
	}
	for i := len(names) - 1; i >= 0; i-- {
		check(names[i], names[i], "reversed order (hit)")
	}
	// 4. seeded random orders with repetitions; unknown ids and ids that path.Join cleans mixed in
	unknown := []string{"NoSuchTileMatrixSet", "", "../WebMercatorQuad", "WebMercatorQuad.json", "README.md", "..", "tilematrixsets/WebMercatorQuad", "webmercatorquad"}
	rounds := c.N(6, 60)
	if c.Search {
		rounds *= 4
	}
	for round := 0; round < rounds; round++ {
		for _, i := range rng.Perm(len(names)) {
			n := names[i]
			switch rng.Intn(8) {
			case 0:
				u := unknown[rng.Intn(len(unknown))]
				check(u, "\x00none", "random order")
			case 1:
				// the id is not the cache key's only spelling: path.Join cleans it, the cache is keyed by the spelling
				alias := []string{"./" + n, "x/../" + n, "/" + n, "../tilematrixsets/" + n}[rng.Intn(4)]
				check(alias, n, "an id that path.Join cleans to the file of a built-in set")
			case 2:
				check(n, n, "random order")
				check(n, n, "the same id twice in a row")
			default:
				check(n, n, "random order")
			}
		}
	}
	// 5. the two documents that carry the same "id" MEMBER: the cache is keyed by the file name
	byMember := map[string][]string{}
	for _, n := range names {
		if f, ok := fresh[n]; ok {
			byMember[f.ID] = append(byMember[f.ID], n)
		}
	}
	for member, files := range byMember {
		if len(files) < 2 {
			continue
		}
		for _, order := range [][]int{{0, 1}, {1, 0}, {0, 1, 0}} {
			for _, i := range order {
				check(files[i], files[i], fmt.Sprintf("two files with the id member %q, alternating", member))
			}
		}
		a, b := loadEmbedded(files[0]), loadEmbedded(files[1])
		if a.Kind == "ok" && b.Kind == "ok" {
			if same, _ := sameSet(a.Value, b.Value); same && !reflect.DeepEqual(fresh[files[0]], fresh[files[1]]) {
				vs.add(hc.Violation{What: "two embedded documents with the same id member are served as one set", Input: map[string]any{"files": files, "id member": member},
					Observed: "the same value for both names", Expected: "each name gives the set of its own file"})
			}
		}
	}

	// 6. the correspondence: the values the loader returns NOW (after all of the above), printed, against Coq's decode of the
	// regenerated document of that name
	for _, n := range names {
		r := loadEmbedded(n)
		if r.Kind != "ok" {
			continue
		}
		v := r.Value
		enc, k, m := encodeTMS(&v)
		if k != "ok" {
			vs.add(hc.Violation{What: "a loaded built-in set does not encode", Input: map[string]any{"id": n}, Observed: m})
			continue
		}
		tree, err := parseJ(enc)
		if err != nil {
			return err
		}
		c.Count("loader: value after the whole history handed to the correspondence")
		buf.addFirst(fmt.Sprintf("MkCase (DGen %s) (ObsOk %s)", coqStr(n), tree.coq()),
			map[string]any{"base": n, "through": "tms20.LoadEmbeddedTileMatrixSet after the whole history of loads", "observed": "ok", "reencoded": trunc(string(enc), 3000)})
	}

	// 7. LoadJSONTileMatrixSet on the same files by path, on a missing file and on bytes that are not JSON
	for _, n := range names {
		c.Sum.Evaluations++
		p := filepath.Join(c.Repo, "tms20", "tilematrixsets", n+".json")
		r := loadJSONFile(p)
		in := map[string]any{"call": "tms20.LoadJSONTileMatrixSet", "path": p}
		want, exists := fresh[n]
		switch {
		case r.Kind == "panic":
			vs.add(hc.Violation{What: "LoadJSONTileMatrixSet panics", Input: in, Observed: r.Msg})
		case exists && r.Kind != "ok":
			vs.add(hc.Violation{What: "LoadJSONTileMatrixSet fails for a document that decodes", Input: in, Observed: r.Msg})
		case !exists && r.Kind == "ok":
			vs.add(hc.Violation{What: "LoadJSONTileMatrixSet succeeds for a document that does not decode", Input: in})
		case exists:
			if same, _ := sameSet(r.Value, want); !same {
				vs.add(hc.Violation{What: "LoadJSONTileMatrixSet returns a value that differs from json.Unmarshal of the file", Input: in,
					Observed: trunc(fmt.Sprintf("%+v", r.Value), 1500), Expected: trunc(fmt.Sprintf("%+v", want), 1500)})
			}
			c.Count("loader: LoadJSONTileMatrixSet by path -> equal to the fresh decode")
		}
	}
	dir, err := os.MkdirTemp("", "c16load")
	if err != nil {
		return err
	}
	defer os.RemoveAll(dir)
	notJSON := filepath.Join(dir, "notjson.json")
	if err := os.WriteFile(notJSON, []byte("{\"id\": \"x\", "), 0o644); err != nil {
		return err
	}
	for _, p := range []string{filepath.Join(dir, "missing.json"), notJSON, dir} {
		c.Sum.Evaluations++
		r := loadJSONFile(p)
		c.Count("loader: LoadJSONTileMatrixSet on a missing file / a directory / bytes that are not JSON -> " + r.Kind)
		if r.Kind != "error" {
			vs.add(hc.Violation{What: "LoadJSONTileMatrixSet does not report an error", Input: map[string]any{"path": p}, Observed: r.Kind + " " + r.Msg, Expected: "an error"})
		}
	}
	return nil
}
