package main

// C15 -- tile addressing is self-consistent in x,y order for every built-in set.

import (
	"fmt"
	"math"
	"math/big"
	"sort"
	"strings"

	hc "verif/hcommon"

	"github.com/go-spatial/geom"
	"github.com/go-spatial/geom/slippy"
	"github.com/pdok/texel/tms20"
)

func init() { props["C15"] = runC15 }

type exactTM struct {
	id            int
	cell          *big.Rat
	ox, oy        *big.Rat // point of origin in x,y order (swapped when the document's first axis is lat / northing)
	tw, th, w, h  int64
	bottomLeft    bool
	variableWidth bool
}

// exactMatrices reads the tile matrices of a document with exact decimal arithmetic (no floats).
// Axis order: from the document's own orderedAxes (first axis Lat / Y / N => the stored points are y,x) --
// deliberately NOT from tms20's EPSG table, which is what is being checked.
func exactMatrices(doc *J) (map[int]*exactTM, bool, error) {
	axes := doc.get("orderedAxes")
	if axes == nil || axes.Kind != jArr || len(axes.A) < 2 || axes.A[0].Kind != jStr {
		return nil, false, fmt.Errorf("document has no orderedAxes")
	}
	first := strings.ToLower(axes.A[0].S)
	swapped := false
	switch first {
	case "lat", "y", "n":
		swapped = true
	case "lon", "x", "e":
	default:
		return nil, false, fmt.Errorf("unknown axis name %q", axes.A[0].S)
	}
	res := map[int]*exactTM{}
	for _, m := range doc.get("tileMatrices").A {
		var id int
		fmt.Sscan(m.get("id").S, &id)
		po := m.get("pointOfOrigin").A
		a, b := ratOfLit(po[0].N), ratOfLit(po[1].N)
		if swapped {
			a, b = b, a
		}
		num := func(k string) int64 {
			r := ratOfLit(m.get(k).N)
			return r.Num().Int64() / r.Denom().Int64()
		}
		e := &exactTM{id: id, cell: ratOfLit(m.get("cellSize").N), ox: a, oy: b, tw: num("tileWidth"), th: num("tileHeight"), w: num("matrixWidth"), h: num("matrixHeight")}
		if co := m.get("cornerOfOrigin"); co != nil && co.Kind == jStr && co.S == "bottomLeft" {
			e.bottomLeft = true
		}
		if v := m.get("variableMatrixWidths"); v != nil && v.Kind == jArr && len(v.A) > 0 {
			e.variableWidth = true
		}
		res[id] = e
	}
	return res, swapped, nil
}

func ri(i int64) *big.Rat         { return new(big.Rat).SetInt64(i) }
func rmul(a, b *big.Rat) *big.Rat { return new(big.Rat).Mul(a, b) }
func radd(a, b *big.Rat) *big.Rat { return new(big.Rat).Add(a, b) }
func rsub(a, b *big.Rat) *big.Rat { return new(big.Rat).Sub(a, b) }

// topLeftCorner: the exact top-left corner of tile (x, y)
func (e *exactTM) topLeftCorner(x, y int64, bottomLeft bool) (*big.Rat, *big.Rat) {
	tsx, tsy := rmul(ri(e.tw), e.cell), rmul(ri(e.th), e.cell)
	cx := radd(e.ox, rmul(ri(x), tsx))
	if bottomLeft {
		return cx, radd(e.oy, rmul(ri(y+1), tsy))
	}
	return cx, rsub(e.oy, rmul(ri(y), tsy))
}

// scale of a matrix: max(1, |origin x|, |origin y|, width, height); coordinates are compared to 1e-9 * scale
func (e *exactTM) scale() *big.Rat {
	m := ri(1)
	for _, v := range []*big.Rat{e.ox, e.oy, rmul(ri(e.w*e.tw), e.cell), rmul(ri(e.h*e.th), e.cell)} {
		a := new(big.Rat).Abs(v)
		if a.Cmp(m) > 0 {
			m = a
		}
	}
	return m
}

func closeRat(scale, a *big.Rat, f float64) bool {
	d := rsub(a, ratOfFloat(f))
	d.Abs(d)
	return d.Cmp(rmul(scale, big.NewRat(1, 1000000000))) <= 0
}

func callFromNative(t *tms20.TileMatrixSet, z int, p geom.Point) (tile *slippy.Tile, ok bool, pan string) {
	defer func() {
		if r := recover(); r != nil {
			pan = fmt.Sprint(r)
		}
	}()
	tile, ok = t.FromNative(uint(z), p)
	return
}

func callToNative(t *tms20.TileMatrixSet, z int, x, y int64) (p geom.Point, ok bool, pan string) {
	defer func() {
		if r := recover(); r != nil {
			pan = fmt.Sprint(r)
		}
	}()
	p, ok = t.ToNative(slippy.NewTile(uint(z), uint(x), uint(y)))
	return
}

func callBBox(t *tms20.TileMatrixSet, z int) (bl, tr geom.Point, err error, pan string) {
	defer func() {
		if r := recover(); r != nil {
			pan = fmt.Sprint(r)
		}
	}()
	bl, tr, err = t.MatrixBoundingBox(z)
	return
}

func runC15(c *hc.Ctx) error {
	vs := newViolations(c)
	var buf bufferedCases
	c.Sum.Rule = "every tile matrix without variable widths and with a non-negative id of every built-in document (+ the bottom-left test document), as in the document and with the other corner-of-origin convention set on the decoded value; tiles = the four corner tiles, border tiles, random tiles; per tile interior points (fx, fy) in {1e-6, 0.5, 1-1e-6} and random, given as the nearest float64 pair whose exact value keeps a margin >= 1e-6 tile sizes from every border; points outside the extent on each side (margin 1e-6 and 1 tile); the corner of every such tile incl. (W, H) and (W+1, .); the bounding box; distinct = distinct (set, matrix, corner, tile/point); non-trivial = lat/lon swapped CRS, bottom-left, non-square matrix or tile not at the origin"
	c.Sum.Oracle = "on the implementation (tms20 FromNative / ToNative / MatrixBoundingBox, panics recovered), against exact rational arithmetic on the decimals of the documents with the axis order taken from the document's own orderedAxes: FromNative(point inside tile) = that tile; outside points and tiles beyond (W, H) give none; ToNative(tile) = the exact top-left corner within 1e-9 * scale (scale = max(1, |origin|, matrix width, matrix height)); bounding box = [origin corner of tile (0,0), origin corner of tile (W,H)]; no panic"
	c.Sum.Partial = "float clause: the theorems are over exact rationals; float64 rounding in FromNative / ToNative and the 9-decimal roundFloat are an envelope checked by the correspondence at margin 1e-6 tile sizes (tiles) and 1e-9 relative (coordinates)"
	c.Sum.TrustedBase = []string{
		"float64 arithmetic of FromNative / ToNative / MatrixSize / MatrixBoundingBox and roundFloat(.., 9): not modelled; envelope = margin 1e-6 tile sizes from tile borders, coordinates compared to 1e-9 * scale, scale = max(1, |origin x|, |origin y|, matrix width, matrix height)",
		"uint(x) of a float64 quotient modelled as floor for 0 <= x < 2^63",
		"the EPSG axis table is regenerated from tms20/epsg_axis_order.go; the oracle's axis order comes from the documents' orderedAxes",
		"source tie C15_source_tie_addressing (translator/tmsaddr.go -> gen/TmsAddrGen.v): the bodies of axisOrderIsLatLon, IsLatLon, ToXYPoint, MatrixSize, FromNative, ToNative, MatrixBoundingBox, roundFloat are regenerated and proved equal to the model under the reading of Tms/GoAddr.v (float64 as exact Q, uint/int as exact Z, pointers as options); mapped to the model rather than translated: crs.Authority/Version/Code, strings.ToLower, fmt.Sprintf of %s, strconv.ParseUint(s,10,64), regexp ^(p1|p2|..).Match as a prefix test, the EPSG map look-up, calls of roundFloat as the identity (the translated body is proved within 1/(2*10^p) of it), slippy.NewTile, geom.Point.X/Y, fmt.Errorf/errors.New as Error",
	}
	c.Sum.Assumptions = []string{"points in the correspondence are finite float64 pairs (NaN / infinite ordinates: oracle only, they map to no tile); tile matrix ids are non-negative (FromNative / ToNative take the id as uint)"}

	names, err := builtinNames(c)
	if err != nil {
		return err
	}
	type setT struct {
		name, coq string
		doc       *J
		set       tms20.TileMatrixSet
	}
	var sets []setT
	for _, n := range names {
		raw, err := builtinRaw(c, n)
		if err != nil {
			return err
		}
		doc, err := parseJ(raw)
		if err != nil {
			return err
		}
		t, err := mustLoadBuiltin(c, n)
		if err != nil {
			vs.add(hc.Violation{What: "a built-in tile matrix set document does not decode", Input: n, Observed: err.Error()})
			continue
		}
		sets = append(sets, setT{n, "(SGen " + coqStr(n) + ")", doc, t})
	}
	if raw, err := testdocRaw(c); err == nil {
		if doc, err := parseJ(raw); err == nil {
			if r := decodeTMS(raw); r.Kind == "ok" {
				sets = append(sets, setT{"SomethingWithBottomLeftAndLatLonAndDoubleHeight", "(STest " + coqStr("SomethingWithBottomLeftAndLatLonAndDoubleHeight") + ")", doc, *r.Value})
			}
		}
	}

	seen := map[string]bool{}
	tilesPerMatrix := c.N(4, 30)
	if c.Search {
		tilesPerMatrix *= 6
	}
	for _, s := range sets {
		ems, swapped, err := exactMatrices(s.doc)
		if err != nil {
			if s.name == "SomethingWithBottomLeftAndLatLonAndDoubleHeight" {
				continue
			}
			return fmt.Errorf("%s: %w", s.name, err)
		}
		if s.name == "SomethingWithBottomLeftAndLatLonAndDoubleHeight" {
			// custom CRS: tms20 falls back to orderedAxes, whose reading of ["Y","X"] is "not lat/lon" (no swap)
			for _, e := range ems {
				if swapped {
					e.ox, e.oy = e.oy, e.ox
				}
			}
			swapped = false
		}
		for _, id := range sortedIDs(&s.set) {
			e := ems[id]
			if e == nil || e.variableWidth || id < 0 {
				if e != nil && e.variableWidth {
					c.Count("matrices with variable widths (outside the property)")
				}
				continue
			}
			for _, flip := range []int{0, 1, 2} {
				if flip != 0 && c.Quick() && c.Rng.Intn(4) != 0 {
					continue
				}
				t := cloneSet(s.set)
				bottomLeft := e.bottomLeft
				if flip == 1 {
					bottomLeft = false
					modTM(&t, id, func(m *tms20.TileMatrix) { m.CornerOfOrigin = tms20.TopLeft })
				} else if flip == 2 {
					bottomLeft = true
					modTM(&t, id, func(m *tms20.TileMatrix) { m.CornerOfOrigin = tms20.BottomLeft })
				}
				tsx, tsy := rmul(ri(e.tw), e.cell), rmul(ri(e.th), e.cell)
				sc := e.scale()
				nontrivialSet := swapped || bottomLeft || e.w != e.h
				// ---- bounding box
				{
					bl, tr, berr, pan := callBBox(&t, id)
					in := map[string]any{"set": s.name, "matrix": id, "corner": flip}
					c.Sum.Evaluations++
					c.Count("bounding boxes")
					if pan != "" {
						vs.add(hc.Violation{What: "MatrixBoundingBox panics", Input: in, Observed: pan})
					} else if berr != nil {
						vs.add(hc.Violation{What: "MatrixBoundingBox fails for a built-in tile matrix", Input: in, Observed: berr.Error()})
						buf.add(fmt.Sprintf("BBoxCase %s %d %d None", s.coq, id, flip), in)
					} else {
						// origin-corner of tile (0,0) and of tile (W,H)
						var minx, miny, maxx, maxy *big.Rat
						minx = e.ox
						maxx = radd(e.ox, rmul(ri(e.w), tsx))
						if bottomLeft {
							miny, maxy = e.oy, radd(e.oy, rmul(ri(e.h), tsy))
						} else {
							maxy, miny = e.oy, rsub(e.oy, rmul(ri(e.h), tsy))
						}
						if !closeRat(sc, minx, bl[0]) || !closeRat(sc, miny, bl[1]) || !closeRat(sc, maxx, tr[0]) || !closeRat(sc, maxy, tr[1]) {
							vs.add(hc.Violation{What: "the matrix bounding box is not [corner of tile (0,0), corner of tile (W,H)] in x,y order", Input: in,
								Observed: []float64{bl[0], bl[1], tr[0], tr[1]}, Expected: []string{minx.FloatString(9), miny.FloatString(9), maxx.FloatString(9), maxy.FloatString(9)}})
						}
						buf.add(fmt.Sprintf("BBoxCase %s %d %d (Some ((%s, %s), (%s, %s)))", s.coq, id, flip,
							coqQ(ratOfFloat(bl[0])), coqQ(ratOfFloat(bl[1])), coqQ(ratOfFloat(tr[0])), coqQ(ratOfFloat(tr[1]))),
							map[string]any{"set": s.name, "matrix": id, "corner": flip, "bbox": []float64{bl[0], bl[1], tr[0], tr[1]}})
					}
				}
				// ---- tiles
				type tile struct{ x, y int64 }
				tiles := []tile{{0, 0}, {e.w - 1, 0}, {0, e.h - 1}, {e.w - 1, e.h - 1}}
				for i := 0; i < tilesPerMatrix; i++ {
					switch i % 4 {
					case 0:
						tiles = append(tiles, tile{c.Rng.Int63n(e.w), 0})
					case 1:
						tiles = append(tiles, tile{e.w - 1, c.Rng.Int63n(e.h)})
					default:
						tiles = append(tiles, tile{c.Rng.Int63n(e.w), c.Rng.Int63n(e.h)})
					}
				}
				margin := big.NewRat(1, 1000000)
				for ti, tl := range tiles {
					k := fmt.Sprintf("%s|%d|%d|%d,%d", s.name, id, flip, tl.x, tl.y)
					if seen[k] {
						continue
					}
					seen[k] = true
					cx, cy := e.topLeftCorner(tl.x, tl.y, bottomLeft)
					// corner
					{
						p, ok, pan := callToNative(&t, id, tl.x, tl.y)
						in := map[string]any{"set": s.name, "matrix": id, "corner": flip, "tile": []int64{tl.x, tl.y}}
						c.Sum.Evaluations++
						c.Count("corners")
						if pan != "" {
							vs.add(hc.Violation{What: "ToNative panics", Input: in, Observed: pan})
						} else if !ok {
							vs.add(hc.Violation{What: "ToNative reports no corner for a tile of the matrix", Input: in})
							buf.add(fmt.Sprintf("CornerCase %s %d %d %d %d None", s.coq, id, flip, tl.x, tl.y), in)
						} else {
							if !closeRat(sc, cx, p[0]) || !closeRat(sc, cy, p[1]) {
								vs.add(hc.Violation{What: "ToNative is not the top-left corner of the tile in x,y order", Input: in, Observed: []float64{p[0], p[1]}, Expected: []string{cx.FloatString(9), cy.FloatString(9)}})
							}
							buf.add(fmt.Sprintf("CornerCase %s %d %d %d %d (Some (%s, %s))", s.coq, id, flip, tl.x, tl.y, coqQ(ratOfFloat(p[0])), coqQ(ratOfFloat(p[1]))),
								map[string]any{"set": s.name, "matrix": id, "corner": flip, "tile": []int64{tl.x, tl.y}, "ToNative": []float64{p[0], p[1]}})
						}
					}
					// interior points
					m2 := big.NewRat(2, 1000000)
					fr := [][2]*big.Rat{{big.NewRat(1, 2), big.NewRat(1, 2)}, {m2, m2}, {rsub(ri(1), m2), rsub(ri(1), m2)}, {m2, rsub(ri(1), m2)},
						{big.NewRat(c.Rng.Int63n(999998)+1, 1000000), big.NewRat(c.Rng.Int63n(999998)+1, 1000000)}}
					if c.Quick() {
						if ti >= 4 {
							fr = fr[3:]
						} else {
							fr = fr[1:4]
						}
					}
					for _, f := range fr {
						px := radd(cx, rmul(f[0], tsx))
						py := rsub(cy, rmul(f[1], tsy))
						fx, _ := px.Float64()
						fy, _ := py.Float64()
						// the float actually handed over must keep the margin (exactly)
						ex, ey := ratOfFloat(fx), ratOfFloat(fy)
						relx := new(big.Rat).Quo(rsub(ex, cx), tsx)
						rely := new(big.Rat).Quo(rsub(cy, ey), tsy)
						okMargin := relx.Cmp(margin) >= 0 && relx.Cmp(rsub(ri(1), margin)) <= 0 && rely.Cmp(margin) >= 0 && rely.Cmp(rsub(ri(1), margin)) <= 0
						if !okMargin {
							c.Count("points dropped: float rounding eats the margin")
							continue
						}
						tile, ok, pan := callFromNative(&t, id, geom.Point{fx, fy})
						in := map[string]any{"set": s.name, "matrix": id, "corner": flip, "tile": []int64{tl.x, tl.y}, "point": []float64{fx, fy}}
						c.Sum.Evaluations++
						c.Count("interior points")
						if nontrivialSet || tl.x > 0 || tl.y > 0 {
							c.Nontrivial(fmt.Sprintf("%s|%v|%v", k, fx, fy))
						}
						obs := "None"
						if pan != "" {
							vs.add(hc.Violation{What: "FromNative panics", Input: in, Observed: pan})
							continue
						}
						if ok {
							obs = fmt.Sprintf("(Some (%d, %d))", tile.X, tile.Y)
						}
						if !ok || int64(tile.X) != tl.x || int64(tile.Y) != tl.y || int(tile.Z) != id {
							vs.add(hc.Violation{What: "FromNative of a point strictly inside a tile is not that tile (x,y order, corner convention)", Input: in, Observed: obs, Expected: []int64{tl.x, tl.y}})
						}
						buf.add(fmt.Sprintf("PointCase %s %d %d %s %s %s", s.coq, id, flip, coqQ(ex), coqQ(ey), obs),
							map[string]any{"set": s.name, "matrix": id, "corner": flip, "point": []float64{fx, fy}, "FromNative": obs})
						if len(c.Sum.Samples) < 6 && c.Rng.Intn(2000) == 0 {
							c.Sample(in)
						}
					}
				}
				// ---- outside points
				gx0, gy0 := e.topLeftCorner(0, 0, bottomLeft) // top-left of tile (0,0)
				var top, bottom *big.Rat                      // y range of the matrix
				if bottomLeft {
					bottom = e.oy
					top = radd(e.oy, rmul(ri(e.h), tsy))
				} else {
					top = e.oy
					bottom = rsub(e.oy, rmul(ri(e.h), tsy))
				}
				_ = gy0
				right := radd(gx0, rmul(ri(e.w), tsx))
				midx := radd(gx0, rmul(big.NewRat(1, 2), rmul(ri(e.w), tsx)))
				midy := radd(bottom, rmul(big.NewRat(1, 2), rmul(ri(e.h), tsy)))
				dists := []*big.Rat{big.NewRat(2, 1000000), ri(1)}
				if c.Quick() {
					k := c.Rng.Intn(2)
					dists = dists[k : k+1]
				}
				for _, d := range dists {
					outs := [][2]*big.Rat{
						{rsub(gx0, rmul(d, tsx)), midy}, {radd(right, rmul(d, tsx)), midy},
						{midx, radd(top, rmul(d, tsy))}, {midx, rsub(bottom, rmul(d, tsy))},
						{rsub(gx0, rmul(d, tsx)), radd(top, rmul(d, tsy))},
					}
					for _, o := range outs {
						fx, _ := o[0].Float64()
						fy, _ := o[1].Float64()
						ex, ey := ratOfFloat(fx), ratOfFloat(fy)
						// still outside by at least half the intended distance (exactly)?
						half := rmul(d, big.NewRat(1, 2))
						outside := rsub(gx0, ex).Cmp(rmul(half, tsx)) >= 0 || rsub(ex, right).Cmp(rmul(half, tsx)) >= 0 ||
							rsub(ey, top).Cmp(rmul(half, tsy)) >= 0 || rsub(bottom, ey).Cmp(rmul(half, tsy)) >= 0
						if !outside {
							c.Count("points dropped: float rounding eats the margin")
							continue
						}
						tile, ok, pan := callFromNative(&t, id, geom.Point{fx, fy})
						in := map[string]any{"set": s.name, "matrix": id, "corner": flip, "point": []float64{fx, fy}}
						c.Sum.Evaluations++
						c.Count("outside points")
						if pan != "" {
							vs.add(hc.Violation{What: "FromNative panics", Input: in, Observed: pan})
							continue
						}
						obs := "None"
						if ok {
							obs = fmt.Sprintf("(Some (%d, %d))", tile.X, tile.Y)
							vs.add(hc.Violation{What: "FromNative maps a point outside the matrix extent to a tile", Input: in, Observed: obs, Expected: "no tile"})
						}
						buf.add(fmt.Sprintf("PointCase %s %d %d %s %s %s", s.coq, id, flip, coqQ(ex), coqQ(ey), obs), in)
					}
				}
				// ---- points that are not numbers: POINT EMPTY (NaN, NaN), one NaN ordinate, infinities: in no tile
				for _, np := range [][2]float64{{math.NaN(), math.NaN()}, {math.NaN(), 0}, {0, math.NaN()}, {math.Inf(1), 0}, {0, math.Inf(-1)}, {math.Inf(-1), math.Inf(1)}} {
					tile, ok, pan := callFromNative(&t, id, geom.Point{np[0], np[1]})
					in := map[string]any{"set": s.name, "matrix": id, "corner": flip, "point": fmt.Sprint(np)}
					c.Sum.Evaluations++
					c.Count("points with NaN / infinite ordinates (oracle only)")
					if pan != "" {
						vs.add(hc.Violation{What: "FromNative panics", Input: in, Observed: pan})
					} else if ok {
						vs.add(hc.Violation{What: "FromNative maps a point with a NaN / infinite ordinate (e.g. POINT EMPTY) to a tile", Input: in, Observed: fmt.Sprintf("(%d, %d)", tile.X, tile.Y), Expected: "no tile"})
					}
				}
				// ---- tiles at and beyond (W, H)
				for _, tl := range []tile{{e.w, e.h}, {e.w, 0}, {0, e.h}, {e.w + 1, 0}, {0, e.h + 1}} {
					p, ok, pan := callToNative(&t, id, tl.x, tl.y)
					in := map[string]any{"set": s.name, "matrix": id, "corner": flip, "tile": []int64{tl.x, tl.y}}
					c.Sum.Evaluations++
					c.Count("corners at / beyond (W,H)")
					if pan != "" {
						vs.add(hc.Violation{What: "ToNative panics", Input: in, Observed: pan})
						continue
					}
					beyond := tl.x > e.w || tl.y > e.h
					if ok == beyond {
						vs.add(hc.Violation{What: "ToNative must answer for tiles up to (W, H) and for none beyond", Input: in, Observed: ok})
					}
					if ok {
						cx, cy := e.topLeftCorner(tl.x, tl.y, bottomLeft)
						if !closeRat(sc, cx, p[0]) || !closeRat(sc, cy, p[1]) {
							vs.add(hc.Violation{What: "ToNative is not the top-left corner of the tile in x,y order", Input: in, Observed: []float64{p[0], p[1]}, Expected: []string{cx.FloatString(9), cy.FloatString(9)}})
						}
						buf.add(fmt.Sprintf("CornerCase %s %d %d %d %d (Some (%s, %s))", s.coq, id, flip, tl.x, tl.y, coqQ(ratOfFloat(p[0])), coqQ(ratOfFloat(p[1]))), in)
					} else {
						buf.add(fmt.Sprintf("CornerCase %s %d %d %d %d None", s.coq, id, flip, tl.x, tl.y), in)
					}
				}
			}
		}
	}
	// the axis order of every built-in set is decided by its CRS: the (informative) orderedAxes of the document must
	// not matter — swapped, misspelt or absent, every answer stays the same
	for _, s := range sets {
		if s.name == "SomethingWithBottomLeftAndLatLonAndDoubleHeight" {
			continue
		}
		ids := make([]int, 0, len(s.set.TileMatrices))
		for id, tm := range s.set.TileMatrices {
			if id >= 0 && len(tm.VariableMatrixWidths) == 0 {
				ids = append(ids, id)
			}
		}
		sort.Ints(ids)
		if len(ids) == 0 {
			continue
		}
		probe := []int{ids[0], ids[len(ids)/2], ids[len(ids)-1]}
		variants := map[string][]string{"absent": nil, "unknown names": {"foo", "bar"}}
		if len(s.set.OrderedAxes) == 2 {
			variants["swapped"] = []string{s.set.OrderedAxes[1], s.set.OrderedAxes[0]}
		}
		for vname, axes := range variants {
			alt := s.set
			alt.OrderedAxes = axes
			orig := s.set
			for _, id := range probe {
				c.Sum.Evaluations++
				c.Count("orderedAxes altered (CRS known)")
				p0, ok0, pan0 := callToNative(&orig, id, 0, 0)
				p1, ok1, pan1 := callToNative(&alt, id, 0, 0)
				bl0, tr0, e0, bp0 := callBBox(&orig, id)
				bl1, tr1, e1, bp1 := callBBox(&alt, id)
				in := map[string]any{"set": s.name, "matrix": id, "ordered_axes_given": axes, "ordered_axes_of_the_document": s.set.OrderedAxes}
				if pan0 != pan1 || ok0 != ok1 || p0 != p1 || bp0 != bp1 || (e0 == nil) != (e1 == nil) || bl0 != bl1 || tr0 != tr1 {
					vs.add(hc.Violation{What: "the x,y order of a set with a known CRS depends on the informative orderedAxes (" + vname + ")", Input: in,
						Observed: map[string]any{"to_native_0_0": p1, "bbox": []geom.Point{bl1, tr1}}, Expected: map[string]any{"to_native_0_0": p0, "bbox": []geom.Point{bl0, tr0}}})
				}
			}
		}
	}
	buf.flush(c, "Texel.Corr.C15", "theories/Corr/C15.v", 16)
	return nil
}
