// Command harness_tms is tie H of /verif for tile matrix sets (C14, C15, C16): it runs tms20,
// pointindex.IsQuadTree / DeviationStats / FromTileMatrixSet and the real texel binary of the
// current working tree of /repo on generated inputs, applies the property oracles to what the
// implementation returns, and writes Coq case files containing inputs and observed outputs.
package main

import hc "verif/hcommon"

var props = map[string]hc.PropFunc{}

func main() { hc.Main(props) }
