package main

// C14, streams added with the repair of F22 ("a quadtree tile matrix set starts with tile matrix 0"):
// DOCUMENTS of quadtree sets whose tile matrix ids are all shifted, or whose first tile matrices are removed,
// put through the CLI's own validateTileMatrixSet (`texel verif-validate`).  The documents are made from the
// source document itself (the built-in file / the synthetic document): only the "id" strings of the entries
// of "tileMatrices" are rewritten, resp. entries are left out; nothing goes through tms20's MarshalJSON.

import (
	"bytes"
	"fmt"
	"os"
	"os/exec"
	"path/filepath"
	"reflect"
	"strconv"
	"strings"
	"time"

	"github.com/pdok/texel/tms20"
)

// runLimited runs the command with a time limit of its own (a process that hangs is killed and reported as having
// given no verdict line)
func runLimited(cmd *exec.Cmd) error {
	if err := cmd.Start(); err != nil {
		return err
	}
	done := make(chan error, 1)
	go func() { done <- cmd.Wait() }()
	select {
	case err := <-done:
		return err
	case <-time.After(60 * time.Second):
		_ = cmd.Process.Kill()
		<-done
		return fmt.Errorf("killed after 60 s")
	}
}

// docMatrixIDs: the ids of the entries of "tileMatrices", as integers; ok = every entry is an object with a
// string id that strconv.Atoi reads
func docMatrixIDs(doc *J) (ids []int, ok bool) {
	tms := doc.get("tileMatrices")
	if tms == nil || tms.Kind != jArr {
		return nil, false
	}
	for _, e := range tms.A {
		id := e.get("id")
		if id == nil || id.Kind != jStr {
			return nil, false
		}
		n, err := strconv.Atoi(id.S)
		if err != nil {
			return nil, false
		}
		ids = append(ids, n)
	}
	return ids, true
}

// shiftDoc: the document with the id string of every tile matrix k rewritten to k+d
func shiftDoc(doc *J, d int) (*J, bool) {
	ids, ok := docMatrixIDs(doc)
	if !ok {
		return nil, false
	}
	out := doc.clone()
	for i, e := range out.get("tileMatrices").A {
		e.set("id", jstr(strconv.Itoa(ids[i]+d)))
	}
	return out, true
}

// dropBelowDoc: the document without the tile matrices whose id is below j
func dropBelowDoc(doc *J, j int) (*J, bool) {
	ids, ok := docMatrixIDs(doc)
	if !ok {
		return nil, false
	}
	out := doc.clone()
	tms := out.get("tileMatrices")
	var kept []*J
	for i, e := range tms.A {
		if ids[i] >= j {
			kept = append(kept, e)
		}
	}
	tms.A = kept
	return out, true
}

// hookValidateDoc: `texel verif-validate` on a document given as bytes.  `want` is the value the harness holds for
// it (the perturbed struct): faithful = the document decodes (with the same library) to exactly those tile matrices.
func hookValidateDoc(doc []byte, ids []int, want *tms20.TileMatrixSet) hookResult {
	r := decodeTMS(doc)
	if r.Kind != "ok" {
		return hookResult{class: "skip", skip: "document does not load (" + r.Kind + ")", msg: r.Msg}
	}
	hookRuns++
	file := filepath.Join(hookDir, fmt.Sprintf("set_%d.json", hookRuns))
	if err := os.WriteFile(file, doc, 0o644); err != nil {
		return hookResult{class: "skip", skip: "document cannot be written", msg: err.Error()}
	}
	defer os.Remove(file)
	cmd := exec.Command(texelVerifBin, "verif-validate", file, idsJSON(ids))
	var stdout, stderr bytes.Buffer
	cmd.Stdout, cmd.Stderr = &stdout, &stderr
	runErr := runLimited(cmd)
	line := strings.TrimRight(stdout.String(), "\n")
	res := hookResult{loaded: r.Value, faithful: want != nil && reflect.DeepEqual(r.Value.TileMatrices, want.TileMatrices)}
	switch {
	case line == "accept":
		res.class = "accept"
	case strings.HasPrefix(line, "reject: "):
		res.class, res.msg = "reject", trunc(strings.TrimPrefix(line, "reject: "), 300)
	case strings.HasPrefix(line, "panic: "):
		res.class, res.msg = "panic", trunc(line, 300)
	case strings.HasPrefix(line, "load-error: "):
		return hookResult{class: "skip", skip: "the binary cannot load the document", msg: trunc(line, 300)}
	default:
		// no verdict line: the process died (a fatal error / a panic outside the recover), ran out of time, or is not the hook binary
		res.class, res.msg = "panic", trunc(fmt.Sprintf("no verdict line (%v): stdout %q stderr %q", runErr, stdout.String(), stderr.String()), 400)
	}
	return res
}
