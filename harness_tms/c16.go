package main

// C16 -- tile matrix set documents survive decode/encode; bad ones give errors.

import (
	"bytes"
	"encoding/json"
	"fmt"
	"math"
	"math/big"
	"math/rand"
	"reflect"
	"regexp"
	"strconv"
	"strings"

	hc "verif/hcommon"

	"github.com/pdok/texel/tms20"
)

func init() { props["C16"] = runC16 }

// ---- base documents ------------------------------------------------------------------------------

const kitchenSink = `{
 "id":"Sink","title":"Kitchen sink","description":"all members","keywords":["a","b"],
 "uri":"http://example.org/def/tms/Sink","orderedAxes":["X","Y"],
 "wellKnownScaleSet":"http://example.org/def/wkss/Sink",
 "boundingBox":{"lowerLeft":[-10.5,-20],"upperRight":[30,40.25],"orderedAxes":["E","N"],"crs":{"description":"bb","uri":"http://www.opengis.net/def/crs/EPSG/0/3857"}},
 "crs":{"description":"the crs","uri":"http://www.opengis.net/def/crs/EPSG/0/28992"},
 "tileMatrices":[
  {"id":"0","title":"t0","description":"d0","keywords":["k"],"scaleDenominator":1000.5,"cellSize":8,"cornerOfOrigin":"topLeft","pointOfOrigin":[-100,200.5],"tileWidth":256,"tileHeight":256,"matrixWidth":1,"matrixHeight":1},
  {"id":"1","scaleDenominator":500.25,"cellSize":4,"cornerOfOrigin":"topLeft","pointOfOrigin":[-100,200.5],"tileWidth":256,"tileHeight":256,"matrixWidth":2,"matrixHeight":2,
   "variableMatrixWidths":[{"coalesce":2,"minTileRow":0,"maxTileRow":0},{"coalesce":4,"minTileRow":1,"maxTileRow":1}]},
  {"id":"2","scaleDenominator":250.125,"cellSize":2,"cornerOfOrigin":"bottomLeft","pointOfOrigin":[-100,200.5],"tileWidth":256,"tileHeight":256,"matrixWidth":4,"matrixHeight":4}
 ]}`

const sinkWKT = `{
 "title":"wkt crs","orderedAxes":["Lat","Lon"],
 "crs":{"description":"w","wkt":{"type":"ProjectedCRS","name":"n","id":{"authority":"EPSG","code":"3035"},"z":[1,2.5,{"b":null,"a":true}]}},
 "tileMatrices":[
  {"id":"3","scaleDenominator":10,"cellSize":0.5,"pointOfOrigin":[1,2],"tileWidth":512,"tileHeight":512,"matrixWidth":8,"matrixHeight":8},
  {"id":"4","scaleDenominator":5,"cellSize":0.25,"pointOfOrigin":[1,2],"tileWidth":512,"tileHeight":512,"matrixWidth":16,"matrixHeight":16}
 ]}`

const sinkRef = `{
 "crs":{"referenceSystem":{"code":"x","nested":{"q":[1,2,3]}}},
 "boundingBox":{"lowerLeft":[0,0],"upperRight":[1,1],"crs":"urn:ogc:def:crs:EPSG::4326"},
 "tileMatrices":[
  {"id":"0","scaleDenominator":1,"cellSize":1e-3,"pointOfOrigin":[0,90],"tileWidth":1,"tileHeight":1,"matrixWidth":360,"matrixHeight":180}
 ]}`

const sinkURN = `{
 "crs":"urn:ogc:def:crs:OGC:1.3:CRS84","orderedAxes":["Lon","Lat"],
 "tileMatrices":[
  {"id":"0","scaleDenominator":2.795411320143589e8,"cellSize":0.703125,"pointOfOrigin":[-180,90],"tileWidth":256,"tileHeight":256,"matrixWidth":2,"matrixHeight":1},
  {"id":"1","scaleDenominator":1.397705660071794e8,"cellSize":0.3515625,"cornerOfOrigin":"","pointOfOrigin":[-180,90],"tileWidth":256,"tileHeight":256,"matrixWidth":4,"matrixHeight":2}
 ]}`

type baseDoc struct {
	name string
	tree *J
}

func truncateMatrices(t *J, n int) *J {
	c := t.clone()
	tm := c.get("tileMatrices")
	if tm != nil && tm.Kind == jArr && len(tm.A) > n {
		tm.A = tm.A[:n]
	}
	if tm != nil && tm.Kind == jArr {
		for _, m := range tm.A {
			v := m.get("variableMatrixWidths")
			if v != nil && v.Kind == jArr && len(v.A) > 2 {
				v.A = v.A[:2]
			}
		}
	}
	return c
}

func c16Bases(c *hc.Ctx) ([]baseDoc, []baseDoc, error) {
	names, err := builtinNames(c)
	if err != nil {
		return nil, nil, err
	}
	var full, small []baseDoc
	for _, n := range names {
		raw, err := builtinRaw(c, n)
		if err != nil {
			return nil, nil, err
		}
		t, err := parseJ(raw)
		if err != nil {
			return nil, nil, fmt.Errorf("%s: %w", n, err)
		}
		full = append(full, baseDoc{n, t})
		small = append(small, baseDoc{n + "[:2]", truncateMatrices(t, 2)})
	}
	if raw, err := testdocRaw(c); err == nil {
		if t, err := parseJ(raw); err == nil {
			small = append(small, baseDoc{"testdoc", t})
		}
	}
	for _, s := range []struct{ n, d string }{{"sink", kitchenSink}, {"sinkWKT", sinkWKT}, {"sinkRef", sinkRef}, {"sinkURN", sinkURN}} {
		t, err := parseJ([]byte(s.d))
		if err != nil {
			return nil, nil, fmt.Errorf("%s: %w", s.n, err)
		}
		small = append(small, baseDoc{s.n, t})
	}
	return full, small, nil
}

// ---- mutations ------------------------------------------------------------------------------------

// a position in the tree: the parent container and the index of the child
type slot struct {
	parent *J
	idx    int
	path   string
}

func collectSlots(j *J, path string, out *[]slot) {
	switch j.Kind {
	case jArr:
		for i, e := range j.A {
			p := fmt.Sprintf("%s[%d]", path, i)
			*out = append(*out, slot{j, i, p})
			collectSlots(e, p, out)
		}
	case jObj:
		for i, m := range j.O {
			p := path + "." + m.K
			*out = append(*out, slot{j, i, p})
			collectSlots(m.V, p, out)
		}
	}
}

func collectContainers(j *J, path string, out *[]slot) {
	if j.Kind == jArr || j.Kind == jObj {
		*out = append(*out, slot{j, -1, path})
	}
	switch j.Kind {
	case jArr:
		for i, e := range j.A {
			collectContainers(e, fmt.Sprintf("%s[%d]", path, i), out)
		}
	case jObj:
		for _, m := range j.O {
			collectContainers(m.V, path+"."+m.K, out)
		}
	}
}

func (s slot) child() *J {
	if s.parent.Kind == jArr {
		return s.parent.A[s.idx]
	}
	return s.parent.O[s.idx].V
}

func (s slot) setChild(v *J) {
	if s.parent.Kind == jArr {
		s.parent.A[s.idx] = v
	} else {
		s.parent.O[s.idx].V = v
	}
}

func (s slot) remove() {
	if s.parent.Kind == jArr {
		s.parent.A = append(append([]*J{}, s.parent.A[:s.idx]...), s.parent.A[s.idx+1:]...)
	} else {
		s.parent.O = append(append([]member{}, s.parent.O[:s.idx]...), s.parent.O[s.idx+1:]...)
	}
}

var numPool = []string{"0", "1", "2", "-1", "-2", "-0.5", "0.5", "0.999", "256.5", "1e3", "1e19", "1e30", "-1e30",
	"18446744073709551615", "18446744073709551616", "9223372036854775808", "-9223372036854775808", "4294967296",
	"1e-400", "1e400", "-0.0", "3.0", "1.5e0", "2E2", "9007199254740993", "-1e-9", "1e-9"}

var strPool = []string{"", "0", "1", "01", "+1", "-1", " 1", "1.0", "a", "x y", "topLeft", "bottomLeft", "TopLeft",
	"99999999999999999999", "9223372036854775807", "-9223372036854775808", "1_0", "0x10",
	"notauri", "http://a/b", "/abs", "a:b", "1:b", ":x", "http://a:8x/p", "http://a:80/p", "x#frag", "#", "http://h",
	"http://www.opengis.net/def/crs/EPSG/0/4326", "https://x/def/crs/OGC/1.3/CRS84", "http://x/def/crs/EPSG//3857",
	"http://x/def/crs//0/3857", "x/def/crs/EPSG/0/1", "http:///def/crs/EPSG/0/1", "urn:ogc:def:crs:EPSG::3857", "urn:ogc:def:crs:EPSG:3857",
	"urn:ogc:def:crs::0:3857", "xurn:ogc:def:crs:EPSG::3857", "http://x/def/crs/epsg/0/99999", "http://x/def/crs/CUSTOM/0/1"}

func randomValue(r *rand.Rand, depth int) *J {
	switch r.Intn(9) {
	case 0:
		return jnull()
	case 1:
		return jbool(r.Intn(2) == 0)
	case 2, 3:
		return jnum(numPool[r.Intn(len(numPool))])
	case 4, 5:
		return jstr(strPool[r.Intn(len(strPool))])
	case 6:
		n := r.Intn(4)
		a := &J{Kind: jArr, A: []*J{}}
		for i := 0; i < n; i++ {
			if depth > 0 && r.Intn(3) == 0 {
				a.A = append(a.A, randomValue(r, depth-1))
			} else if r.Intn(2) == 0 {
				a.A = append(a.A, jnum(numPool[r.Intn(len(numPool))]))
			} else {
				a.A = append(a.A, jstr(strPool[r.Intn(len(strPool))]))
			}
		}
		return a
	default:
		o := &J{Kind: jObj, O: []member{}}
		if depth > 0 {
			keys := []string{"id", "uri", "wkt", "authority", "code", "coalesce", "minTileRow", "description", "a", "b"}
			for i, n := 0, r.Intn(3); i < n; i++ {
				o.O = append(o.O, member{keys[r.Intn(len(keys))], randomValue(r, depth-1)})
			}
		}
		return o
	}
}

func changeValue(r *rand.Rand, v *J) *J {
	switch v.Kind {
	case jNum:
		if r.Intn(4) == 0 {
			// arithmetic change of the present value
			q := ratOfLit(v.N)
			switch r.Intn(3) {
			case 0:
				q.Mul(q, big.NewRat(2, 1))
			case 1:
				q.Add(q, big.NewRat(1, 1))
			default:
				q.Neg(q)
			}
			return jnum(q.FloatString(6))
		}
		return jnum(numPool[r.Intn(len(numPool))])
	case jStr:
		return jstr(strPool[r.Intn(len(strPool))])
	case jBool:
		return jbool(!v.B)
	}
	return randomValue(r, 1)
}

var crsForms = []string{
	`{"wkt":{"id":{"authority":"EPSG","code":"3857"}}}`,
	`{"wkt":{"id":{"authority":"EPSG","code":3857}}}`,
	`{"wkt":{}}`,
	`{"wkt":{"id":null,"x":1}}`,
	`{"referenceSystem":{"a":1}}`,
	`{"referenceSystem":{}}`,
	`{"uri":"http://www.opengis.net/def/crs/EPSG/0/3857"}`,
	`{"uri":"urn:ogc:def:crs:EPSG::4326","description":"d"}`,
	`{"uri":"nonsense"}`,
	`{"uri":5}`,
	`{"description":"only"}`,
	`{"description":null}`,
	`{"description":7}`,
}

// mutate applies one structural mutation in place and returns its description ("" if none applied).
func mutate(r *rand.Rand, root *J) string {
	var slots []slot
	collectSlots(root, "$", &slots)
	var conts []slot
	collectContainers(root, "$", &conts)
	for try := 0; try < 20; try++ {
		switch r.Intn(8) {
		case 0: // delete key / drop array element
			if len(slots) == 0 {
				continue
			}
			s := slots[r.Intn(len(slots))]
			s.remove()
			return "delete " + s.path
		case 1, 2: // change type
			if len(slots) == 0 {
				continue
			}
			s := slots[r.Intn(len(slots))]
			old := s.child()
			for k := 0; k < 10; k++ {
				nv := randomValue(r, 1)
				if nv.Kind != old.Kind {
					s.setChild(nv)
					return "retype " + s.path + " := " + trunc(nv.String(), 60)
				}
			}
		case 3, 4: // change value
			if len(slots) == 0 {
				continue
			}
			s := slots[r.Intn(len(slots))]
			old := s.child()
			if old.Kind == jArr || old.Kind == jObj || old.Kind == jNull {
				continue
			}
			nv := changeValue(r, old)
			s.setChild(nv)
			return "revalue " + s.path + " := " + trunc(nv.String(), 60)
		case 5: // add array element / duplicate a member
			if len(conts) == 0 {
				continue
			}
			s := conts[r.Intn(len(conts))]
			if s.parent.Kind == jArr {
				var nv *J
				if len(s.parent.A) > 0 && r.Intn(2) == 0 {
					nv = s.parent.A[r.Intn(len(s.parent.A))].clone()
				} else {
					nv = randomValue(r, 1)
				}
				pos := r.Intn(len(s.parent.A) + 1)
				a := append([]*J{}, s.parent.A[:pos]...)
				a = append(a, nv)
				s.parent.A = append(a, s.parent.A[pos:]...)
				return fmt.Sprintf("insert %s[%d] := %s", s.path, pos, trunc(nv.String(), 60))
			}
			if len(s.parent.O) == 0 {
				continue
			}
			m := s.parent.O[r.Intn(len(s.parent.O))]
			var nv *J
			if r.Intn(2) == 0 {
				nv = changeValue(r, m.V)
			} else {
				nv = randomValue(r, 1)
			}
			if r.Intn(2) == 0 {
				s.parent.O = append(s.parent.O, member{m.K, nv})
			} else {
				s.parent.O = append([]member{{m.K, nv}}, s.parent.O...)
			}
			return "duplicate key " + s.path + "." + m.K + " := " + trunc(nv.String(), 60)
		case 6: // add a CRS form / replace a crs
			var crsSlots []slot
			for _, s := range slots {
				if strings.HasSuffix(s.path, ".crs") {
					crsSlots = append(crsSlots, s)
				}
			}
			if len(crsSlots) == 0 {
				continue
			}
			s := crsSlots[r.Intn(len(crsSlots))]
			form, _ := parseJ([]byte(crsForms[r.Intn(len(crsForms))]))
			old := s.child()
			if old.Kind == jObj && r.Intn(2) == 0 {
				// add the members of the form to the existing object
				o := old.clone()
				for _, m := range form.O {
					if r.Intn(2) == 0 {
						o.O = append(o.O, m)
					} else {
						o.O = append([]member{m}, o.O...)
					}
				}
				s.setChild(o)
				return "add crs form to " + s.path + ": " + form.String()
			}
			if old.Kind == jStr && r.Intn(2) == 0 {
				o := jobj(kv("uri", old.clone()))
				o.O = append(o.O, form.O...)
				s.setChild(o)
				return "crs string to object + form at " + s.path + ": " + form.String()
			}
			s.setChild(form)
			return "replace " + s.path + " := " + form.String()
		default: // add an unknown or optional member
			if len(conts) == 0 {
				continue
			}
			s := conts[r.Intn(len(conts))]
			if s.parent.Kind != jObj {
				continue
			}
			keys := []string{"extra", "title", "description", "keywords", "cornerOfOrigin", "variableMatrixWidths", "orderedAxes", "boundingBox", "uri", "wellKnownScaleSet", "id", "ID", "crs", "tileMatrices", "wkt", "referenceSystem"}
			k := keys[r.Intn(len(keys))]
			nv := randomValue(r, 2)
			s.parent.O = append(s.parent.O, member{k, nv})
			return "add member " + s.path + "." + k + " := " + trunc(nv.String(), 60)
		}
	}
	return ""
}

// ---- the independent "is this document malformed" oracle (schema of the OGC TMS JSON encoding) -------

type reason struct {
	What  string
	Class string // "" = must be rejected (no known-finding classes are left)
}

var intLike = regexp.MustCompile(`^[+-]?[0-9]+$`)

func lastWins(o *J) map[string]*J {
	m := map[string]*J{}
	for _, mm := range o.O {
		m[mm.K] = mm.V
	}
	return m
}

func floatOfLit(lit string) (float64, bool) {
	f, err := strconv.ParseFloat(lit, 64)
	if err != nil {
		return 0, false
	}
	return f, true
}

func checkUintField(v *J, name string, min float64, rs *[]reason) {
	if v == nil || v.Kind == jNull {
		if min >= 1 {
			*rs = append(*rs, reason{name + " missing", ""})
		}
		return
	}
	if v.Kind != jNum {
		*rs = append(*rs, reason{name + " is not a number", ""})
		return
	}
	f, ok := floatOfLit(v.N)
	if !ok {
		*rs = append(*rs, reason{name + " out of float range", ""})
		return
	}
	switch {
	case f != math.Trunc(f):
		*rs = append(*rs, reason{name + " is not an integer: " + v.N + " (regression F6b)", ""})
	case f < 0:
		*rs = append(*rs, reason{name + " is negative: " + v.N + " (regression F6b)", ""})
	case f < min:
		*rs = append(*rs, reason{name + " is zero", ""})
	case f >= 9007199254740992.0:
		*rs = append(*rs, reason{name + " is not exactly representable (>= 2^53): " + v.N, ""})
	}
}

func checkPosFloat(v *J, name string, rs *[]reason) {
	if v == nil || v.Kind == jNull {
		*rs = append(*rs, reason{name + " missing", ""})
		return
	}
	if v.Kind != jNum {
		*rs = append(*rs, reason{name + " is not a number", ""})
		return
	}
	f, ok := floatOfLit(v.N)
	if !ok || !(f > 0) {
		*rs = append(*rs, reason{name + " is not positive: " + v.N, ""})
	}
}

func checkPoint(v *J, name string, rs *[]reason) {
	if v == nil || v.Kind == jNull {
		*rs = append(*rs, reason{name + " missing", ""})
		return
	}
	if v.Kind != jArr {
		*rs = append(*rs, reason{name + " is not an array", ""})
		return
	}
	nums := 0
	for _, e := range v.A {
		if e.Kind != jNum {
			*rs = append(*rs, reason{name + " has a non-number element", ""})
			return
		}
		if e.Kind == jNum {
			if _, ok := floatOfLit(e.N); !ok {
				*rs = append(*rs, reason{name + " element out of float range", ""})
				return
			}
		}
		nums++
	}
	if len(v.A) != 2 {
		*rs = append(*rs, reason{fmt.Sprintf("%s has %d elements instead of 2 (regression F6c)", name, len(v.A)), ""})
	}
}

func checkOptString(v *J, name string, rs *[]reason) {
	if v != nil && v.Kind != jNull && v.Kind != jStr {
		*rs = append(*rs, reason{name + " is not a string", ""})
	}
}

func checkOptStrings(v *J, name string, rs *[]reason) {
	if v == nil || v.Kind == jNull {
		return
	}
	if v.Kind != jArr {
		*rs = append(*rs, reason{name + " is not an array", ""})
		return
	}
	for _, e := range v.A {
		if e.Kind != jStr && e.Kind != jNull {
			*rs = append(*rs, reason{name + " has a non-string element", ""})
			return
		}
	}
}

func anyNumberOutOfRange(j *J) bool {
	switch j.Kind {
	case jNum:
		_, ok := floatOfLit(j.N)
		return !ok
	case jArr:
		for _, e := range j.A {
			if anyNumberOutOfRange(e) {
				return true
			}
		}
	case jObj:
		for _, m := range j.O {
			if anyNumberOutOfRange(m.V) {
				return true
			}
		}
	}
	return false
}

// crsPlausible: necessary conditions for a CRS member to denote a CRS in one of the three forms.
func crsMalformed(v *J, name string, rs *[]reason) {
	if v == nil {
		*rs = append(*rs, reason{name + " missing", ""})
		return
	}
	looksLikeCrsURI := func(s string) bool {
		return strings.Contains(s, "/def/crs/") || strings.HasPrefix(s, "urn:ogc:def:crs:")
	}
	switch v.Kind {
	case jStr:
		if !looksLikeCrsURI(v.S) {
			*rs = append(*rs, reason{name + " string is not a CRS URI", ""})
		}
	case jObj:
		m := lastWins(v)
		okForm := false
		if u := m["uri"]; u != nil && u.Kind == jStr && looksLikeCrsURI(u.S) {
			okForm = true
		}
		if w := m["wkt"]; w != nil && w.Kind == jObj {
			okForm = true
		}
		if r := m["referenceSystem"]; r != nil && r.Kind == jObj {
			okForm = true
		}
		if !okForm {
			*rs = append(*rs, reason{name + " has none of uri / wkt / referenceSystem with the right type", ""})
		}
		if d, has := m["description"]; has && d.Kind != jStr {
			*rs = append(*rs, reason{name + ".description is not a string", ""})
		}
	default:
		*rs = append(*rs, reason{name + " is neither a string nor an object", ""})
	}
}

func malformed(doc *J) []reason {
	var rs []reason
	if doc.Kind != jObj {
		return []reason{{"document is not an object", ""}}
	}
	// streaming semantics of the top level: every occurrence of a typed member must have the right type
	for _, m := range doc.O {
		switch m.K {
		case "id", "title", "description", "uri", "wellKnownScaleSet":
			checkOptString(m.V, m.K, &rs)
		case "keywords", "orderedAxes":
			checkOptStrings(m.V, m.K, &rs)
		case "boundingBox":
			if m.V.Kind != jObj {
				rs = append(rs, reason{"boundingBox is not an object", ""})
				break
			}
			var bcrs *J
			var ll, ur *J
			for _, bm := range m.V.O {
				switch bm.K {
				case "lowerLeft":
					ll = bm.V
					checkPoint(bm.V, "boundingBox.lowerLeft", &rs) // every occurrence is decoded (streaming); null is an error too
				case "upperRight":
					ur = bm.V
					checkPoint(bm.V, "boundingBox.upperRight", &rs) // every occurrence is decoded (streaming); null is an error too
				case "orderedAxes":
					checkOptStrings(bm.V, "boundingBox.orderedAxes", &rs)
					if bm.V.Kind == jArr && len(bm.V.A) != 2 {
						rs = append(rs, reason{"boundingBox.orderedAxes does not have 2 elements", ""})
					}
				case "crs":
					bcrs = bm.V
				}
			}
			if ll == nil {
				rs = append(rs, reason{"boundingBox.lowerLeft missing", ""})
			}
			if ur == nil {
				rs = append(rs, reason{"boundingBox.upperRight missing", ""})
			}
			crsMalformed(bcrs, "boundingBox.crs", &rs)
		}
	}
	top := lastWins(doc)
	crsMalformed(top["crs"], "crs", &rs)
	if anyNumberOutOfRange(doc) {
		rs = append(rs, reason{"a number is outside the float64 range", ""})
	}
	tms := top["tileMatrices"]
	switch {
	case tms == nil:
		rs = append(rs, reason{"tileMatrices missing", ""})
	case tms.Kind != jArr:
		rs = append(rs, reason{"tileMatrices is not an array", ""})
	case len(tms.A) == 0:
		rs = append(rs, reason{"tileMatrices is empty", ""})
	default:
		for i, tm := range tms.A {
			p := fmt.Sprintf("tileMatrices[%d].", i)
			if tm.Kind != jObj {
				rs = append(rs, reason{p + " is not an object", ""})
				continue
			}
			m := lastWins(tm)
			id := m["id"]
			switch {
			case id == nil || id.Kind == jNull:
				rs = append(rs, reason{p + "id missing", ""})
			case id.Kind != jStr:
				rs = append(rs, reason{p + "id is not a string", ""})
			case !intLike.MatchString(id.S):
				rs = append(rs, reason{p + "id is not integer-like: " + id.S, ""})
			default:
				if _, err := strconv.ParseInt(id.S, 10, 64); err != nil {
					rs = append(rs, reason{p + "id does not fit int64", ""})
				}
			}
			checkOptString(m["title"], p+"title", &rs)
			checkOptString(m["description"], p+"description", &rs)
			checkOptStrings(m["keywords"], p+"keywords", &rs)
			checkPosFloat(m["scaleDenominator"], p+"scaleDenominator", &rs)
			checkPosFloat(m["cellSize"], p+"cellSize", &rs)
			checkPoint(m["pointOfOrigin"], p+"pointOfOrigin", &rs)
			for _, f := range []string{"tileWidth", "tileHeight", "matrixWidth", "matrixHeight"} {
				checkUintField(m[f], p+f, 1, &rs)
			}
			if co, has := m["cornerOfOrigin"]; has {
				if co.Kind != jStr || (co.S != "" && co.S != "topLeft" && co.S != "bottomLeft") {
					rs = append(rs, reason{p + "cornerOfOrigin is not topLeft / bottomLeft", ""})
				}
			}
			if v := m["variableMatrixWidths"]; v != nil && v.Kind != jNull {
				if v.Kind != jArr {
					rs = append(rs, reason{p + "variableMatrixWidths is not an array", ""})
				} else {
					for k, e := range v.A {
						if e.Kind == jNull {
							continue
						}
						if e.Kind != jObj {
							rs = append(rs, reason{p + "variableMatrixWidths element is not an object", ""})
							continue
						}
						em := lastWins(e)
						for _, f := range []string{"coalesce", "minTileRow", "maxTileRow"} {
							checkUintField(em[f], fmt.Sprintf("%svariableMatrixWidths[%d].%s", p, k, f), 0, &rs)
						}
					}
				}
			}
		}
	}
	return rs
}

func hasLongPoint(j *J) bool {
	found := false
	var walk func(j *J, key string)
	walk = func(j *J, key string) {
		switch j.Kind {
		case jArr:
			if (key == "pointOfOrigin" || key == "lowerLeft" || key == "upperRight") && len(j.A) > 2 {
				found = true
			}
			for _, e := range j.A {
				walk(e, "")
			}
		case jObj:
			for _, m := range j.O {
				walk(m.V, m.K)
			}
		}
	}
	walk(j, "")
	return found
}

// ---- value comparison --------------------------------------------------------------------------------

// cloneForCompare copies the parts normalizeNilEmpty writes to
func cloneForCompare(t tms20.TileMatrixSet) tms20.TileMatrixSet {
	c := t
	if t.BoundingBox != nil {
		bb := *t.BoundingBox
		c.BoundingBox = &bb
	}
	c.TileMatrices = make(map[int]tms20.TileMatrix, len(t.TileMatrices))
	for k, m := range t.TileMatrices {
		c.TileMatrices[k] = m
	}
	return c
}

func normalizeNilEmpty(t *tms20.TileMatrixSet) {
	if len(t.Keywords) == 0 {
		t.Keywords = nil
	}
	if t.BoundingBox != nil && len(t.BoundingBox.OrderedAxes) == 0 {
		t.BoundingBox.OrderedAxes = nil
	}
	for k, m := range t.TileMatrices {
		if len(m.Keywords) == 0 {
			m.Keywords = nil
		}
		if len(m.VariableMatrixWidths) == 0 {
			m.VariableMatrixWidths = nil
		}
		t.TileMatrices[k] = m
	}
}

// semantic equality of two JSON texts: keys unordered, numbers by float64 value (as testify's JSONEq)
func jsonSemEq(a, b []byte) bool {
	var x, y any
	if json.Unmarshal(a, &x) != nil || json.Unmarshal(b, &y) != nil {
		return false
	}
	return reflect.DeepEqual(x, y)
}

// ---- the run -----------------------------------------------------------------------------------------

type c16Outcome struct {
	res   decodeResult
	enc1  []byte
	encK  string
	encM  string
	canon *J
}

func c16Run(doc []byte) c16Outcome {
	o := c16Outcome{res: decodeTMS(doc)}
	if o.res.Kind == "ok" {
		o.enc1, o.encK, o.encM = encodeTMS(o.res.Value)
		if o.encK == "ok" {
			o.canon, _ = parseJ(o.enc1)
		}
	}
	return o
}

func c16Obs(o c16Outcome) (string, string) {
	switch {
	case o.res.Kind == "panic" || o.encK == "panic":
		return "ObsPanic", "panic"
	case o.res.Kind == "error" || o.encK == "error":
		return "ObsError", "error"
	default:
		return "(ObsOk " + o.canon.coq() + ")", "ok"
	}
}

func c16Oracle(c *violations, name string, muts []string, tree *J, doc []byte, o c16Outcome, builtinOriginal []byte, reps int) {
	in := map[string]any{"base": name, "mutations": muts, "document": string(doc)}
	rs := malformed(tree)
	// never a panic
	if o.res.Kind == "panic" || o.encK == "panic" {
		msg := o.res.Msg
		if o.encK == "panic" {
			msg = "while encoding: " + o.encM
		}
		what := "decoding / encoding a tile matrix set document panics"
		if hasLongPoint(tree) {
			what += " (a point array with more than 2 elements: regression of F6c?)"
		}
		c.add(hc.Violation{What: what, Input: in, Observed: "panic: " + msg, Expected: "an error"})
		return
	}
	if o.res.Kind == "error" {
		if builtinOriginal != nil {
			c.add(hc.Violation{What: "a built-in tile matrix set document does not decode", Input: in, Observed: o.res.Msg})
		}
		return
	}
	// accepted: malformed documents must not be
	if len(rs) > 0 {
		what := "a malformed tile matrix set document is accepted: " + rs[0].What
		var all []string
		for _, r := range rs {
			all = append(all, r.What)
		}
		c.add(hc.Violation{What: what, Input: in, Observed: "decoded without error; re-encoded: " + trunc(string(o.enc1), 400), Expected: map[string]any{"error because": all}})
	}
	if o.encK != "ok" {
		c.add(hc.Violation{What: "a decoded tile matrix set does not encode", Input: in, Observed: o.encM})
		return
	}
	// decode . encode . decode
	r2 := decodeTMS(o.enc1)
	if r2.Kind != "ok" {
		c.add(hc.Violation{What: "the encoding of a decoded document does not decode again", Input: in, Observed: r2.Kind + ": " + r2.Msg})
		return
	}
	enc2, k2, m2 := encodeTMS(r2.Value)
	if k2 != "ok" {
		c.add(hc.Violation{What: "second encoding fails", Input: in, Observed: m2})
		return
	}
	if !bytes.Equal(o.enc1, enc2) {
		c.add(hc.Violation{What: "the encoding is not stable: encode(decode(encode(decode d))) differs from encode(decode d)", Input: in, Observed: map[string]string{"first": trunc(string(o.enc1), 600), "second": trunc(string(enc2), 600)}})
	} else {
		// one and the same value (and the equal value decoded from its encoding) encodes to the same bytes every time:
		// the tile matrices are a Go map, whose iteration order differs from call to call
		for i := 0; i < reps; i++ {
			v, which := o.res.Value, "the decoded value"
			if i%2 == 1 {
				v, which = r2.Value, "the value decoded from the encoding"
			}
			e, k, m := encodeTMS(v)
			if k != "ok" || !bytes.Equal(e, o.enc1) {
				c.add(hc.Violation{What: "the encoding is not stable: encoding " + which + " again gives other bytes (order of the tile matrices depends on map iteration order?)", Input: in,
					Observed: map[string]any{"first": trunc(string(o.enc1), 600), fmt.Sprintf("repetition %d", i+1): trunc(string(e), 600), "kind": k + " " + m, "tile matrix ids, first": idOrder(o.enc1), "tile matrix ids, repetition": idOrder(e)},
					Expected: "the same bytes on every one of " + strconv.Itoa(reps) + " repetitions"})
				break
			}
		}
		// equal value: nil and empty slices are the same value for every user of the API (same JSON, same length,
		// same iteration), so they are identified before reflect.DeepEqual
		a, b := cloneForCompare(*o.res.Value), cloneForCompare(*r2.Value)
		normalizeNilEmpty(&a)
		normalizeNilEmpty(&b)
		if !reflect.DeepEqual(a, b) {
			c.add(hc.Violation{What: "decode(encode(decode d)) is not equal to decode d", Input: in, Observed: fmt.Sprintf("%+v  vs  %+v", a, b)})
		} else if !reflect.DeepEqual(*o.res.Value, *r2.Value) {
			c.c.Count("values equal up to nil vs. empty slices (keywords: [] / variableMatrixWidths: [])")
		}
	}
	if builtinOriginal != nil && !jsonSemEq(builtinOriginal, o.enc1) {
		c.add(hc.Violation{What: "the re-encoded built-in document is not semantically equal to the original", Input: in, Observed: trunc(string(o.enc1), 600)})
	}
}

// idOrder lists the ids of the tile matrices of an encoded document in the order they are printed.
func idOrder(doc []byte) []string {
	t, err := parseJ(doc)
	if err != nil || t.Kind != jObj {
		return nil
	}
	tm := t.get("tileMatrices")
	if tm == nil || tm.Kind != jArr {
		return nil
	}
	var ids []string
	for _, m := range tm.A {
		if m.Kind == jObj {
			if id := m.get("id"); id != nil && id.Kind == jStr {
				ids = append(ids, id.S)
			}
		}
	}
	return ids
}

// unsignedObject locates a tile matrix (vi < 0) or one of its variableMatrixWidths elements.
func unsignedObject(root *J, mi, vi int) *J {
	tm := root.get("tileMatrices")
	if tm == nil || tm.Kind != jArr || mi >= len(tm.A) || tm.A[mi].Kind != jObj {
		return nil
	}
	if vi < 0 {
		return tm.A[mi]
	}
	v := tm.A[mi].get("variableMatrixWidths")
	if v == nil || v.Kind != jArr || vi >= len(v.A) || v.A[vi].Kind != jObj {
		return nil
	}
	return v.A[vi]
}

var unsignedMembers = []string{"tileWidth", "tileHeight", "matrixWidth", "matrixHeight", "coalesce", "minTileRow", "maxTileRow"}

func runC16(c *hc.Ctx) error {
	vs := newViolations(c)
	var buf bufferedCases
	c.Sum.Rule = "documents = the built-in documents (whole, unmutated), and their 3-matrix prefixes, the test document and 4 synthetic documents covering every optional member and the 3 CRS forms, each with 1-3 structural mutations (delete member / array element, change type, change value from pools of boundary numbers and strings, insert / duplicate array element, duplicate key, add or replace a CRS form, add a member) plus the systematic single replacement of every member of the kitchen-sink document by every pool value, plus systematic double mutations inside one object (every tile matrix and every variableMatrixWidths element of these documents with at least two of the unsigned members tileWidth, tileHeight, matrixWidth, matrixHeight, coalesce, minTileRow, maxTileRow: every ordered pair, first member deleted / null / a string, second member -1, -3, 2.5, 1e30; quick: 1 in 24 for tile matrices, 1 in 4 for variableMatrixWidths elements), plus documents of 2, 3 and 4 tile matrices whose ids are set together to extreme values (int64 extremes, +/-6e18, +/-2^62, 0, 1, -1: fixed patterns with differences beyond 2^63 and random assignments; thorough: every ordered triple on the kitchen-sink document); distinct = distinct document text; non-trivial = mutated and (decodes, or fails for a reason other than a missing crs/tileMatrices)"
	c.Sum.Oracle = "on the implementation (json.Unmarshal / json.Marshal of tms20.TileMatrixSet, panics recovered): never a panic; a document that an independent schema check (types, presence, positive integer sizes, 2-element points, integer-like ids, a CRS in one of three forms) calls malformed is rejected with an error; an accepted document d satisfies decode(encode(decode d)) = decode d (reflect.DeepEqual with nil and empty slices identified) and encode is byte-stable: encode(decode(encode(decode d))) = encode(decode d), and encoding the decoded value and the value decoded from its encoding again (2 times; 40 times for the documents with extreme ids) gives the same bytes every time (the tile matrices are a Go map); built-in documents re-encode semantically equal (keys unordered, numbers by float64 value) to the original"
	c.Sum.Partial = ""
	c.Sum.TrustedBase = []string{
		"text -> tree: encoding/json syntax check and easyjson lexer (the model starts from the JSON tree; strings are byte strings, valid UTF-8 only)",
		"strconv.ParseFloat is correctly rounded and strconv's shortest formatting round-trips (model: numbers kept as the decimals of the document, compared by their binary64 image f64)",
		"marshmallow v1.1.5 coercions observed on the real code: JSON null leaves a member at its zero value; a number for a uint member is converted with Go's float64->uint conversion -- since the repair of F6b (/repo 4bfd034) tms20 checks on the raw map first that such a number is whole, not negative and below 2^53 (tileWidth, tileHeight, matrixWidth, matrixHeight, and coalesce / minTileRow / maxTileRow of every object in variableMatrixWidths), so the conversion is exact",
		"points (pointOfOrigin, boundingBox.lowerLeft / upperRight): TwoDPoint decodes itself (repair of F6c, /repo 909171c): exactly an array of two JSON numbers, anything else (other length, null, non-number element, non-array) is an error; in a tile matrix the error is recorded by the custom unmarshaler without stopping the population of the other members, in the bounding box it stops the streaming decoder",
		"marshmallow: a wrong JSON type for a primitive / slice / array / struct member stops population with an error ; an invalid element inside a slice, and the error of CornerOfOrigin's custom unmarshaler, are recorded without stopping; unknown members are ignored; member names are case sensitive; duplicate keys: last wins inside tile matrices / crs / wkt (Go maps), every occurrence is converted in order at the top level and in boundingBox (streaming) where null never overwrites",
		"[]string members: null elements become \"\"; `[]` gives an empty non-nil slice",
		"validator v10.16.0: tags on unexported struct fields are NOT enforced (URICRS.uri/authority/code, WKTCRS.wkt -> ProjJSON required tags, ReferenceSystemCRS.referenceSystem); slices of structs without `dive` are not validated element-wise (VariableMatrixWidth tags never checked); required on numbers = non-zero, on pointers = non-nil; omitempty on a slice skips only nil; `uri` = strip '#...' then net/url.ParseRequestURI (modelled for the alphabet [A-Za-z0-9:/._#+-], control bytes rejected)",
		"creasty/defaults: the structs carry no default tags, Set is a no-op",
		"encoding/json Marshal: struct member order, omitempty (empty string, nil or empty slice, nil pointer), map keys sorted bytewise, orderedAxes has no omitempty (null when nil); HTML escaping and invalid UTF-8 replacement are outside the model (generated strings avoid <, >, & and are valid UTF-8)",
		"regexp semantics of crsURIRegexURL / crsURIRegexURN modelled by splitting at '/' resp. ':'",
		"source ties C16_source_tie_* (translator/tmsjson.go -> gen/TmsJsonGen.v, reading of the Go constructs in Tms/GoJson.v): the project's own code around the libraries -- checkUnsignedIntegers, TwoDPoint / TileMatrix .UnmarshalJSONFromMap, unmarshalTileMatrices, unmarshalCRS and the three CRS types (decode and MarshalJSON), TwoDBoundingBox and TileMatrixSet UnmarshalJSON / MarshalJSON -- is regenerated statement by statement on every run and proved equal to the model's functions for every input; the library calls themselves are mapped to the model after checking their exact shape in the AST (list at the top of gen/TmsJsonGen.v)",
	}
	c.Sum.Assumptions = []string{"documents are JSON trees with finite depth; numbers with exponents of moderate size (|e| <= 400)"}

	// the loaders (c16load.go): first, while nothing has been loaded in this process; with a random generator of their own
	c.Sum.Rule += "; the LOADERS: every built-in set through the real tms20.LoadEmbeddedTileMatrixSet -- first in a process where nothing was loaded (misses), again (hits), reversed, and in seeded random orders with repetitions, unknown ids and ids that path.Join cleans to a built-in file mixed in, the two files that carry the same id member alternating -- and tms20.LoadJSONTileMatrixSet on the same files by path, a missing file, a directory and bytes that are not JSON"
	c.Sum.Oracle += "; the loaders: every value LoadEmbeddedTileMatrixSet / LoadJSONTileMatrixSet returns equals a fresh json.Unmarshal of the file's bytes (reflect.DeepEqual, nil and empty slices identified) whatever was loaded before, an id without an embedded file is an error, never a panic; the values returned after the whole history are printed and compared by Coq with the decode of the regenerated document of that name"
	c.Sum.TrustedBase = append(c.Sum.TrustedBase,
		"source ties C16_source_tie_load_* (translator/tmsload.go -> gen/TmsLoadGen.v, reading of the Go constructs in Tms/GoLoad.v): LoadEmbeddedTileMatrixSet with its package-level cache as a state and LoadJSONTileMatrixSet are regenerated statement by statement and proved to return the model's decode of the file of the id after every history of loads (cache transparency, invariant, no panic); modelled: embed.FS / os.ReadFile as a finite map from names to contents (the embedded file list regenerated from the directory the //go:embed pattern names), encoding/json's text -> tree step and its dispatch to TileMatrixSet.UnmarshalJSON, path.Join, Go maps with string keys; calls are sequential (the cache is an unguarded map); struct copies are shallow: the returned value shares its slices, maps and pointers with the cached one -- recorded in the model (ld_shares), the consequences of a caller writing through them are outside it (no function of /repo does)")
	if err := c16Loaders(c, vs, &buf); err != nil {
		return err
	}

	full, small, err := c16Bases(c)
	if err != nil {
		return err
	}
	seen := map[string]bool{}
	stabilityReps := 2 // how often an accepted value is encoded again (40 for the documents with extreme tile matrix ids)
	emit := func(name string, muts []string, tree *J, docTerm string, builtinOriginal []byte) {
		doc := tree.bytes()
		if builtinOriginal != nil {
			doc = builtinOriginal
		}
		if seen[string(doc)] && builtinOriginal == nil {
			return
		}
		seen[string(doc)] = true
		c.Sum.Evaluations++
		o := c16Run(doc)
		obs, kind := c16Obs(o)
		c.Count("outcome: " + kind)
		c.Count(fmt.Sprintf("mutation depth %d", len(muts)))
		if len(muts) > 0 {
			nontrivial := kind == "ok" || kind == "panic"
			if kind == "error" && !strings.Contains(o.res.Msg, `missing key`) {
				nontrivial = true
			}
			if nontrivial {
				c.Nontrivial(string(doc))
			}
		} else {
			c.Nontrivial(string(doc))
		}
		c16Oracle(vs, name, muts, tree, doc, o, builtinOriginal, stabilityReps)
		desc := map[string]any{"base": name, "mutations": muts, "document": trunc(string(doc), 3000), "observed": kind}
		if kind == "error" {
			desc["error"] = trunc(o.res.Msg, 300)
		}
		if kind == "ok" {
			desc["reencoded"] = trunc(string(o.enc1), 3000)
		}
		if len(muts) == 0 {
			buf.addFirst(fmt.Sprintf("MkCase %s %s", docTerm, obs), desc)
		} else {
			buf.add(fmt.Sprintf("MkCase %s %s", docTerm, obs), desc)
		}
		if len(muts) > 0 && len(c.Sum.Samples) < 6 && c.Rng.Intn(40) == 0 {
			c.Sample(map[string]any{"base": name, "mutations": muts, "observed": kind})
		}
	}

	// 1. built-in documents, whole and unmutated (the model reads them from the regenerated TmsData.v)
	for _, b := range full {
		raw, _ := builtinRaw(c, b.name)
		emit(b.name, nil, b.tree, "(DGen "+coqStr(b.name)+")", raw)
	}
	// 2. the small bases unmutated
	for _, b := range small {
		emit(b.name, nil, b.tree, "(DLit "+b.tree.coq()+")", nil)
	}
	// 3. systematic: every member (at any depth) of the synthetic documents replaced by every pool value / deleted
	var sinks []baseDoc
	for _, b := range small {
		if strings.HasPrefix(b.name, "sink") || b.name == "testdoc" {
			sinks = append(sinks, b)
		}
	}
	var pool []*J
	pool = append(pool, jnull(), jbool(true), jarr(), jarr(jnum("1")), jarr(jnum("1"), jnum("2")), jarr(jnum("1"), jnum("2"), jnum("3")),
		jarr(jnum("1"), jnum("2"), jnull()), jarr(jnull(), jnull(), jnull(), jnum("4")), jarr(jstr("a"), jnum("2")), jarr(jnum("1"), jnum("2"), jstr("a")),
		jarr(jstr("a")), jarr(jstr("a"), jstr("b")), jarr(jnull(), jstr("b")), jarr(jobj()), jarr(jnull()), jobj(), jobj(kv("a", jnum("1"))))
	for _, n := range numPool {
		pool = append(pool, jnum(n))
	}
	for _, s := range strPool {
		pool = append(pool, jstr(s))
	}
	sysEvery := 1
	if c.Quick() {
		sysEvery = 10
	}
	cnt := 0
	for _, b := range sinks {
		var slots []slot
		collectSlots(b.tree, "$", &slots)
		for si := range slots {
			// deletion
			{
				t := b.tree.clone()
				var ss []slot
				collectSlots(t, "$", &ss)
				ss[si].remove()
				emit(b.name, []string{"delete " + slots[si].path}, t, "(DLit "+t.coq()+")", nil)
			}
			for _, pv := range pool {
				cnt++
				if cnt%sysEvery != int(c.Seed%int64(sysEvery)) {
					continue
				}
				t := b.tree.clone()
				var ss []slot
				collectSlots(t, "$", &ss)
				ss[si].setChild(pv.clone())
				emit(b.name, []string{"replace " + slots[si].path + " := " + pv.String()}, t, "(DLit "+t.coq()+")", nil)
			}
		}
	}
	// 4. random structural mutations, depth 1..3
	n := c.N(1400, 16000)
	if c.Search {
		n *= 5
	}
	for i := 0; i < n; i++ {
		b := small[c.Rng.Intn(len(small))]
		t := b.tree.clone()
		depth := 1 + c.Rng.Intn(3)
		var muts []string
		for d := 0; d < depth; d++ {
			if m := mutate(c.Rng, t); m != "" {
				muts = append(muts, m)
			}
		}
		if len(muts) == 0 {
			continue
		}
		emit(b.name, muts, t, "(DLit "+t.coq()+")", nil)
	}
	// 5. systematic DOUBLE mutations inside one object: of every tile matrix and every variableMatrixWidths element
	// that has at least two of the unsigned members, every ordered pair (first member deleted / null / a string,
	// second member negative, fractional or huge).  The second member alone makes the document malformed; the first
	// one must not keep the decoder from looking at it.
	{
		firsts := []struct {
			name string
			f    func(o *J, k string)
		}{
			{"delete", func(o *J, k string) { o.del(k) }},
			{"null", func(o *J, k string) { o.set(k, jnull()) }},
			{"string", func(o *J, k string) { o.set(k, jstr("7")) }},
		}
		seconds := []string{"-1", "-3", "2.5", "1e30"}
		cntM, cntV := 0, 0
		for _, b := range small {
			tm := b.tree.get("tileMatrices")
			if tm == nil || tm.Kind != jArr {
				continue
			}
			type ref struct{ mi, vi int }
			var refs []ref
			for mi, m := range tm.A {
				if m.Kind != jObj {
					continue
				}
				refs = append(refs, ref{mi, -1})
				if v := m.get("variableMatrixWidths"); v != nil && v.Kind == jArr {
					for vi := range v.A {
						refs = append(refs, ref{mi, vi})
					}
				}
			}
			for _, r := range refs {
				obj := unsignedObject(b.tree, r.mi, r.vi)
				if obj == nil {
					continue
				}
				var have []string
				for _, k := range unsignedMembers {
					if v := obj.get(k); v != nil && v.Kind == jNum {
						have = append(have, k)
					}
				}
				if len(have) < 2 {
					continue
				}
				path := fmt.Sprintf("$.tileMatrices[%d]", r.mi)
				every, cnt := 24, &cntM
				if r.vi >= 0 {
					path += fmt.Sprintf(".variableMatrixWidths[%d]", r.vi)
					every, cnt = 4, &cntV
				}
				if !c.Quick() {
					every = 1
				}
				for _, k1 := range have {
					for _, k2 := range have {
						if k1 == k2 {
							continue
						}
						for _, f := range firsts {
							for _, v2 := range seconds {
								*cnt++
								if *cnt%every != int(c.Seed%int64(every)) {
									continue
								}
								t := b.tree.clone()
								o := unsignedObject(t, r.mi, r.vi)
								f.f(o, k1)
								o.set(k2, jnum(v2))
								c.Count("double mutation inside one object")
								emit(b.name, []string{f.name + " " + path + "." + k1, "revalue " + path + "." + k2 + " := " + v2}, t, "(DLit "+t.coq()+")", nil)
							}
						}
					}
				}
			}
		}
	}
	// 6. extreme tile matrix ids, several in one document (the int64 extremes, +/-6e18, +/-2^62 and small ones): ids
	// whose differences do not fit an int64.  Every accepted document is encoded 40 more times (the value and the value
	// decoded from its encoding in turn): always the same bytes.
	{
		extremes := []string{"6000000000000000000", "-6000000000000000000", "9223372036854775807", "-9223372036854775808", "0", "1", "-1", "4611686018427387904", "-4611686018427387904"}
		var xb []baseDoc
		for _, b := range small {
			if b.name == "sink" || b.name == "sinkWKT" || b.name == "sinkURN" {
				xb = append(xb, b)
			}
		}
		for _, b := range full {
			if b.name == "WebMercatorQuad" || b.name == "CDB1GlobalGrid" || b.name == "NetherlandsRDNewQuad" {
				xb = append(xb, baseDoc{b.name + "[:4]", truncateMatrices(b.tree, 4)}, baseDoc{b.name + "[:3]", truncateMatrices(b.tree, 3)})
			}
		}
		fixed := map[int][][]int{
			2: {{2, 6}, {6, 2}, {2, 3}, {0, 1}, {3, 5}, {1, 2}},
			3: {{0, 4, 1}, {4, 0, 1}, {1, 0, 4}, {2, 4, 3}, {2, 6, 3}, {3, 2, 4}, {7, 1, 2}, {0, 8, 3}},
			4: {{0, 4, 1, 5}, {2, 3, 4, 6}, {5, 0, 6, 1}, {8, 2, 7, 3}},
		}
		stabilityReps = 40
		assign := func(b baseDoc, pick []int) {
			t := b.tree.clone()
			tm := t.get("tileMatrices")
			var muts []string
			for i, m := range tm.A {
				if i < len(pick) && m.Kind == jObj {
					m.set("id", jstr(extremes[pick[i]]))
					muts = append(muts, fmt.Sprintf("revalue $.tileMatrices[%d].id := %q", i, extremes[pick[i]]))
				}
			}
			c.Count("extreme tile matrix ids in one document")
			emit(b.name, muts, t, "(DLit "+t.coq()+")", nil)
		}
		for _, b := range xb {
			tm := b.tree.get("tileMatrices")
			if tm == nil || tm.Kind != jArr || len(tm.A) < 2 {
				continue
			}
			k := len(tm.A)
			for _, pick := range fixed[k] {
				assign(b, pick)
			}
			n := c.N(12, 150)
			if c.Search {
				n *= 4
			}
			if !c.Quick() && b.name == "sink" {
				// every ordered triple of distinct extremes
				for i := range extremes {
					for j := range extremes {
						for l := range extremes {
							if i != j && j != l && i != l {
								assign(b, []int{i, j, l})
							}
						}
					}
				}
			}
			for i := 0; i < n; i++ {
				assign(b, c.Rng.Perm(len(extremes))[:k])
			}
		}
		stabilityReps = 2
	}
	buf.flush(c, "Texel.Corr.C16", "theories/Corr/C16.v", 16)
	return nil
}
