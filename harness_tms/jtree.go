package main

// An ordered JSON tree (member order and duplicate keys preserved, numbers kept as their decimal
// text), with a serialiser, a printer of Coq terms of type Texel.Tms.Json.json and helpers to
// navigate and mutate it.  Only the standard library is used.

import (
	"bytes"
	"encoding/json"
	"fmt"
	"io"
	"math/big"
	"strings"
)

type jkind int

const (
	jNull jkind = iota
	jBool
	jNum
	jStr
	jArr
	jObj
)

type member struct {
	K string
	V *J
}

type J struct {
	Kind jkind
	B    bool
	N    string // decimal literal as it is written
	S    string
	A    []*J
	O    []member
}

func jnull() *J                { return &J{Kind: jNull} }
func jbool(b bool) *J          { return &J{Kind: jBool, B: b} }
func jnum(lit string) *J       { return &J{Kind: jNum, N: lit} }
func jint(i int64) *J          { return &J{Kind: jNum, N: fmt.Sprint(i)} }
func jstr(s string) *J         { return &J{Kind: jStr, S: s} }
func jarr(a ...*J) *J          { return &J{Kind: jArr, A: a} }
func jobj(m ...member) *J      { return &J{Kind: jObj, O: m} }
func kv(k string, v *J) member { return member{k, v} }

func parseJ(data []byte) (*J, error) {
	dec := json.NewDecoder(bytes.NewReader(data))
	dec.UseNumber()
	v, err := parseJTok(dec)
	if err != nil {
		return nil, err
	}
	if _, err := dec.Token(); err != io.EOF {
		return nil, fmt.Errorf("trailing data")
	}
	return v, nil
}

func parseJTok(dec *json.Decoder) (*J, error) {
	tok, err := dec.Token()
	if err != nil {
		return nil, err
	}
	switch t := tok.(type) {
	case nil:
		return jnull(), nil
	case bool:
		return jbool(t), nil
	case json.Number:
		return jnum(string(t)), nil
	case string:
		return jstr(t), nil
	case json.Delim:
		switch t {
		case '[':
			r := &J{Kind: jArr}
			for dec.More() {
				e, err := parseJTok(dec)
				if err != nil {
					return nil, err
				}
				r.A = append(r.A, e)
			}
			_, err := dec.Token()
			return r, err
		case '{':
			r := &J{Kind: jObj}
			for dec.More() {
				kt, err := dec.Token()
				if err != nil {
					return nil, err
				}
				k, ok := kt.(string)
				if !ok {
					return nil, fmt.Errorf("key is not a string")
				}
				e, err := parseJTok(dec)
				if err != nil {
					return nil, err
				}
				r.O = append(r.O, member{k, e})
			}
			_, err := dec.Token()
			return r, err
		}
	}
	return nil, fmt.Errorf("unexpected token %v", tok)
}

func (j *J) clone() *J {
	c := *j
	if j.A != nil {
		c.A = make([]*J, len(j.A))
		for i, e := range j.A {
			c.A[i] = e.clone()
		}
	}
	if j.O != nil {
		c.O = make([]member, len(j.O))
		for i, m := range j.O {
			c.O[i] = member{m.K, m.V.clone()}
		}
	}
	return &c
}

func (j *J) write(b *bytes.Buffer) {
	switch j.Kind {
	case jNull:
		b.WriteString("null")
	case jBool:
		if j.B {
			b.WriteString("true")
		} else {
			b.WriteString("false")
		}
	case jNum:
		b.WriteString(j.N)
	case jStr:
		s, _ := json.Marshal(j.S)
		b.Write(s)
	case jArr:
		b.WriteByte('[')
		for i, e := range j.A {
			if i > 0 {
				b.WriteByte(',')
			}
			e.write(b)
		}
		b.WriteByte(']')
	case jObj:
		b.WriteByte('{')
		for i, m := range j.O {
			if i > 0 {
				b.WriteByte(',')
			}
			s, _ := json.Marshal(m.K)
			b.Write(s)
			b.WriteByte(':')
			m.V.write(b)
		}
		b.WriteByte('}')
	}
}

func (j *J) bytes() []byte {
	var b bytes.Buffer
	j.write(&b)
	return b.Bytes()
}

func (j *J) String() string { return string(j.bytes()) }

func (j *J) get(k string) *J { // last binding
	if j == nil || j.Kind != jObj {
		return nil
	}
	for i := len(j.O) - 1; i >= 0; i-- {
		if j.O[i].K == k {
			return j.O[i].V
		}
	}
	return nil
}

func (j *J) set(k string, v *J) { // replace the last binding or append
	for i := len(j.O) - 1; i >= 0; i-- {
		if j.O[i].K == k {
			j.O[i].V = v
			return
		}
	}
	j.O = append(j.O, member{k, v})
}

func (j *J) del(k string) {
	var o []member
	for _, m := range j.O {
		if m.K != k {
			o = append(o, m)
		}
	}
	j.O = o
}

// ---- Coq printers ---------------------------------------------------------------------------------

func coqStr(s string) string {
	plain := true
	for i := 0; i < len(s); i++ {
		if s[i] < 32 || s[i] > 126 {
			plain = false
			break
		}
	}
	if plain {
		return `"` + strings.ReplaceAll(s, `"`, `""`) + `"%string`
	}
	parts := make([]string, len(s))
	for i := 0; i < len(s); i++ {
		parts[i] = fmt.Sprintf("%d%%N", s[i])
	}
	return "(bs [" + strings.Join(parts, "; ") + "])"
}

func coqBigZ(z *big.Int) string {
	if z.Sign() < 0 {
		return "(" + z.String() + ")"
	}
	return z.String()
}

// decimalOf: the text of a JSON number as (mantissa, exponent), value = mantissa * 10^exponent exactly.
func decimalOf(lit string) (*big.Int, *big.Int) {
	s := lit
	neg := false
	if strings.HasPrefix(s, "-") {
		neg = true
		s = s[1:]
	}
	exp := new(big.Int)
	if i := strings.IndexAny(s, "eE"); i >= 0 {
		exp.SetString(strings.TrimPrefix(s[i+1:], "+"), 10)
		s = s[:i]
	}
	intPart, frac := s, ""
	if i := strings.IndexByte(s, '.'); i >= 0 {
		intPart, frac = s[:i], s[i+1:]
	}
	m, ok := new(big.Int).SetString(intPart+frac, 10)
	if !ok {
		panic("bad number literal " + lit)
	}
	if neg {
		m.Neg(m)
	}
	exp.Sub(exp, big.NewInt(int64(len(frac))))
	return m, exp
}

func coqDec(lit string) string {
	m, e := decimalOf(lit)
	return fmt.Sprintf("(Dec %s %s)", coqBigZ(m), coqBigZ(e))
}

// ratOfLit: the exact rational value of a decimal literal.
func ratOfLit(lit string) *big.Rat {
	m, e := decimalOf(lit)
	r := new(big.Rat).SetInt(m)
	p := new(big.Int).Exp(big.NewInt(10), new(big.Int).Abs(e), nil)
	if e.Sign() >= 0 {
		return r.Mul(r, new(big.Rat).SetInt(p))
	}
	return r.Quo(r, new(big.Rat).SetInt(p))
}

// coq prints the tree as a term of type json, using the short constructors of Texel.Tms.Json
// (jn m e = JNum (Dec m e)).
func (j *J) coq() string {
	var b strings.Builder
	j.coqTo(&b)
	return b.String()
}

func (j *J) coqTo(b *strings.Builder) {
	switch j.Kind {
	case jNull:
		b.WriteString("JNull")
	case jBool:
		if j.B {
			b.WriteString("(JBool true)")
		} else {
			b.WriteString("(JBool false)")
		}
	case jNum:
		m, e := decimalOf(j.N)
		fmt.Fprintf(b, "(jn %s %s)", coqBigZ(m), coqBigZ(e))
	case jStr:
		b.WriteString("(JStr " + coqStr(j.S) + ")")
	case jArr:
		b.WriteString("(JArr [")
		for i, e := range j.A {
			if i > 0 {
				b.WriteString(";")
			}
			e.coqTo(b)
		}
		b.WriteString("])")
	case jObj:
		b.WriteString("(JObj [")
		for i, m := range j.O {
			if i > 0 {
				b.WriteString(";")
			}
			b.WriteString("(" + coqStr(m.K) + ",")
			m.V.coqTo(b)
			b.WriteString(")")
		}
		b.WriteString("])")
	}
}

// coqQ prints an exact rational as a Coq Q term (mkq num den) -- mkq is defined in Texel.Corr.C15.
func coqQ(r *big.Rat) string {
	return fmt.Sprintf("(mkq %s %s)", coqBigZ(r.Num()), r.Denom().String())
}

func ratOfFloat(f float64) *big.Rat {
	r := new(big.Rat)
	if r.SetFloat64(f) == nil {
		panic(fmt.Sprintf("not a finite float: %v", f))
	}
	return r
}
