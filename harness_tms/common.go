package main

import (
	"encoding/json"
	"fmt"
	"os"
	"path/filepath"
	"sort"
	"strings"

	hc "verif/hcommon"

	"github.com/pdok/texel/tms20"
)

// builtinNames lists the tile matrix set documents of the current working tree (not a fixed list:
// a document added to or removed from tms20/tilematrixsets is picked up).
func builtinNames(c *hc.Ctx) ([]string, error) {
	files, err := filepath.Glob(filepath.Join(c.Repo, "tms20", "tilematrixsets", "*.json"))
	if err != nil {
		return nil, err
	}
	sort.Strings(files)
	var names []string
	for _, f := range files {
		names = append(names, strings.TrimSuffix(filepath.Base(f), ".json"))
	}
	if len(names) == 0 {
		return nil, fmt.Errorf("no tile matrix set documents under %s", c.Repo)
	}
	return names, nil
}

func builtinRaw(c *hc.Ctx, name string) ([]byte, error) {
	return os.ReadFile(filepath.Join(c.Repo, "tms20", "tilematrixsets", name+".json"))
}

func testdocRaw(c *hc.Ctx) ([]byte, error) {
	return os.ReadFile(filepath.Join(c.Repo, "tms20", "testdata", "SomethingWithBottomLeftAndLatLonAndDoubleHeight.json"))
}

// decodeResult is what json.Unmarshal into a tms20.TileMatrixSet did.
type decodeResult struct {
	Kind  string // "ok" | "error" | "panic"
	Msg   string
	Value *tms20.TileMatrixSet
}

func decodeTMS(data []byte) (r decodeResult) {
	defer func() {
		if p := recover(); p != nil {
			r = decodeResult{Kind: "panic", Msg: fmt.Sprint(p)}
		}
	}()
	var t tms20.TileMatrixSet
	if err := json.Unmarshal(data, &t); err != nil {
		return decodeResult{Kind: "error", Msg: err.Error()}
	}
	return decodeResult{Kind: "ok", Value: &t}
}

func encodeTMS(t *tms20.TileMatrixSet) (out []byte, kind string, msg string) {
	defer func() {
		if p := recover(); p != nil {
			out, kind, msg = nil, "panic", fmt.Sprint(p)
		}
	}()
	b, err := json.Marshal(t)
	if err != nil {
		return nil, "error", err.Error()
	}
	return b, "ok", ""
}

func mustLoadBuiltin(c *hc.Ctx, name string) (tms20.TileMatrixSet, error) {
	// a built-in set reaches the tool through LoadEmbeddedTileMatrixSet: the value used here is the one a SECOND load
	// returns (the cached one), so that whatever the loader does to a set it keeps is in front of the oracles, which take
	// their expectations from the raw document, tile matrix by tile matrix, by the "id" member
	if _, err := tms20.LoadEmbeddedTileMatrixSet(name); err == nil {
		if t, err := tms20.LoadEmbeddedTileMatrixSet(name); err == nil {
			return t, nil
		}
	}
	raw, err := builtinRaw(c, name)
	if err != nil {
		return tms20.TileMatrixSet{}, err
	}
	r := decodeTMS(raw)
	if r.Kind != "ok" {
		return tms20.TileMatrixSet{}, fmt.Errorf("built-in %s does not decode: %s %s", name, r.Kind, r.Msg)
	}
	return *r.Value, nil
}

// sortedIDs returns the tile matrix ids of a set in increasing order.
func sortedIDs(t *tms20.TileMatrixSet) []int {
	ids := make([]int, 0, len(t.TileMatrices))
	for k := range t.TileMatrices {
		ids = append(ids, k)
	}
	sort.Ints(ids)
	return ids
}

func trunc(s string, n int) string {
	if len(s) > n {
		return s[:n] + "..."
	}
	return s
}

// violations: a known finding is reported with at most 2 witnesses per (id, what), so that the
// bounded violation list of the summary keeps room for anything that is NOT a known finding.
type violations struct {
	c    *hc.Ctx
	seen map[string]int
}

func newViolations(c *hc.Ctx) *violations { return &violations{c: c, seen: map[string]int{}} }

func (v *violations) add(x hc.Violation) {
	if x.KnownFinding != "" {
		k := x.KnownFinding + "|" + x.What
		v.seen[k]++
		v.c.Count("known finding " + x.KnownFinding + " witnessed")
		if v.seen[k] > 2 {
			return
		}
	}
	v.c.Violate(x)
}

// bufferedCases collects cases and emits them in shards.  In the thorough tier the shared case writer keeps only a
// capped prefix per case kind, so the cases are put in a seeded random order first (priority cases -- the unmutated
// documents / unperturbed sets -- stay in front).
type bufferedCases struct {
	terms []string
	descs []any
	prio  []bool
}

func (b *bufferedCases) add(term string, desc any) {
	b.terms = append(b.terms, term)
	b.descs = append(b.descs, desc)
	b.prio = append(b.prio, false)
}

func (b *bufferedCases) addFirst(term string, desc any) {
	b.add(term, desc)
	b.prio[len(b.prio)-1] = true
}

func (b *bufferedCases) reorder(c *hc.Ctx) {
	var first, rest []int
	for i := range b.terms {
		if b.prio[i] {
			first = append(first, i)
		} else {
			rest = append(rest, i)
		}
	}
	c.Rng.Shuffle(len(rest), func(i, j int) { rest[i], rest[j] = rest[j], rest[i] })
	order := append(first, rest...)
	terms := make([]string, len(order))
	descs := make([]any, len(order))
	for k, i := range order {
		terms[k], descs[k] = b.terms[i], b.descs[i]
	}
	b.terms, b.descs = terms, descs
}

func (b *bufferedCases) flush(c *hc.Ctx, importPath, file string, shards int) {
	// one shard per core, but never more than ~450 kB of Coq text per shard (coqc needs ~2 MB of memory per kB of
	// case text; shards are evaluated 16 at a time)
	if !c.Quick() {
		b.reorder(c)
		// the shared writer keeps at most 8000 cases per case kind in the thorough tier
		kept := map[string]int{}
		var terms []string
		var descs []any
		for i, t := range b.terms {
			kind := t
			if j := strings.IndexAny(t, " ("); j > 0 {
				kind = t[:j]
			}
			kept[kind]++
			if kept[kind] <= 8000 {
				terms = append(terms, t)
				descs = append(descs, b.descs[i])
			}
		}
		b.terms, b.descs = terms, descs
	}
	total := 0
	for _, t := range b.terms {
		total += len(t)
	}
	if n := (total + 449999) / 450000; n > shards {
		shards = n
	}
	per := (len(b.terms) + shards - 1) / shards
	if per < 1 {
		per = 1
	}
	c.CorrInit(importPath, file, per)
	for i := range b.terms {
		c.Case(b.terms[i], b.descs[i])
	}
}
