package main

import (
	"fmt"
	"reflect"

	"github.com/pdok/texel/intgeom"
	"github.com/pdok/texel/pointindex"
	"github.com/pdok/texel/snap"

	hc "verif/hcommon"
)

func init() { props["C02"] = runC02 }

// routeImpl runs the implementation's snapClosestPoints (hook) for one segment on an index holding verts.
func routeImpl(g *Grid, verts []Pt, a, b Pt, level uint) ([]Pt, error) {
	ix, err := pointindex.FromTileMatrixSet(g.TMS, g.DeepestID)
	if err != nil {
		return nil, err
	}
	// in half of the cases the index is used between insertions (insert, snap, insert, snap): the route must depend on
	// the set of occupied pixels only, not on the history of the index
	incremental := len(verts) >= 2 && (verts[0][0]/7+verts[0][1]/3)%2 == 0
	for i, v := range verts {
		x, _ := toFloat(v[0])
		y, _ := toFloat(v[1])
		if err := ix.InsertPoint([2]float64{x, y}); err != nil {
			return nil, err
		}
		if incremental && i == len(verts)/2-1 {
			_ = pointindex.VerifSnapClosestPoints(ix, intgeom.Line{{a[0], a[1]}, {b[0], b[1]}}, []pointindex.Level{pointindex.Level(level)})
			_ = pointindex.VerifSnapClosestPoints(ix, intgeom.Line{{b[0], b[1]}, {a[0], a[1]}}, []pointindex.Level{pointindex.Level(level)})
		}
	}
	res := pointindex.VerifSnapClosestPoints(ix, intgeom.Line{{a[0], a[1]}, {b[0], b[1]}}, []pointindex.Level{pointindex.Level(level)})
	var out []Pt
	for _, p := range res[pointindex.Level(level)] {
		out = append(out, Pt{p[0], p[1]})
	}
	return out, nil
}

func extentTerm(e [4]int64) string {
	return fmt.Sprintf("(mkExtent %s %s %s %s)", hc.CoqZ(e[0]), hc.CoqZ(e[1]), hc.CoqZ(e[2]), hc.CoqZ(e[3]))
}

// tieKind classifies how a segment relates to the pixel lattice of a level (for the input distribution).
func tieKind(g *Grid, level uint, a, b Pt) string {
	s := g.Span(level)
	on := func(v, min int64) bool { return (v-min)%s == 0 }
	ax, ay := on(a[0], g.Ext[0]), on(a[1], g.Ext[1])
	bx, by := on(b[0], g.Ext[0]), on(b[1], g.Ext[1])
	switch {
	case (ax && ay) || (bx && by):
		return "tie: endpoint on a pixel corner"
	case (a[0] == b[0] && ax) || (a[1] == b[1] && ay):
		return "tie: edge along a pixel border"
	case ax || ay || bx || by:
		return "tie: endpoint on a pixel border"
	}
	// passes exactly through a lattice corner?
	minx, maxx := min64(a[0], b[0]), max64(a[0], b[0])
	for x := g.Ext[0] + ((minx-g.Ext[0])/s)*s; x <= maxx; x += s {
		if x < minx || a[0] == b[0] {
			continue
		}
		// y at x: a.y + (x-a.x)*(b.y-a.y)/(b.x-a.x) integral and on lattice?
		num := (x - a[0]) * (b[1] - a[1])
		den := b[0] - a[0]
		if num%den == 0 && on(a[1]+num/den, g.Ext[1]) {
			return "tie: edge through a pixel corner"
		}
	}
	return "generic"
}

func runC02(c *hc.Ctx) error {
	c.CorrInit("Texel.Corr.C02", "theories/Corr/C02.v", 250)
	c.Sum.Rule = "(a) segments with endpoints on the quarter-pixel lattice x random hot sets (1-12 occupied pixels) x every level 1..deepest of synthetic dyadic grids (depth 4-7), plus tie templates (endpoint on border / corner, along a border, through a corner, 8 directions, degenerate one-point segments, segments leaving the window) and raw lineIntersects calls incl. NetherlandsRDNewQuad-sized coordinates; (b) valid polygons that do not collapse; distinct by (grid, hot set, segment, level); non-trivial = a tie case, or >= 3 hot pixels met"
	c.Sum.Oracle = "independent exact clip (math/big rationals): the implementation returns the centres of exactly the occupied pixels whose half-open square the closed segment meets, ordered by entry parameter; non-collapsing polygons are returned as the ring-by-ring concatenation of these routes, shell counter-clockwise, holes clockwise"
	grids := syntheticGrids()
	n := c.N(4000, 300000)
	if c.Search {
		n *= 10
	}
	for i := 0; i < n; i++ {
		g := pickGrid(c, grids)
		w := randWindow(c.Rng, g, 4)
		nh := 1 + c.Rng.Intn(12)
		var verts []Pt
		for k := 0; k < nh; k++ {
			verts = append(verts, w.randPt(c.Rng))
		}
		a, b := w.randPt(c.Rng), w.randPt(c.Rng)
		level := uint(1 + c.Rng.Intn(int(g.Deep)))
		s := g.Span(level)
		snapTo := func(p Pt, ax int) Pt { // move an ordinate onto the pixel lattice of the level
			p[ax] = g.Ext[ax] + ((p[ax]-g.Ext[ax])/s)*s
			return p
		}
		switch c.Rng.Intn(12) {
		case 0:
			a = snapTo(a, 0)
		case 1:
			a = snapTo(snapTo(a, 0), 1)
		case 2:
			b = snapTo(snapTo(b, 0), 1)
		case 3: // along a border
			a = snapTo(a, 1)
			b[1] = a[1]
		case 4:
			a = snapTo(a, 0)
			b[0] = a[0]
		case 5: // through a corner: mirror a around a lattice corner
			k := snapTo(snapTo(w.randPt(c.Rng), 0), 1)
			b = Pt{2*k[0] - a[0], 2*k[1] - a[1]}
		case 6: // diagonal through corners
			a = snapTo(snapTo(a, 0), 1)
			d := int64(1+c.Rng.Intn(3)) * s
			b = Pt{a[0] + d*int64(1-2*c.Rng.Intn(2)), a[1] + d*int64(1-2*c.Rng.Intn(2))}
		case 7:
			b = a // degenerate
		case 8: // a vertex of the hot set as endpoint
			a = verts[c.Rng.Intn(len(verts))]
		case 9:
			a, b = verts[c.Rng.Intn(len(verts))], verts[c.Rng.Intn(len(verts))]
		}
		if !g.inGrid([][]Pt{{a, b}}) {
			i--
			continue
		}
		got, err := routeImpl(g, verts, a, b, level)
		if err != nil {
			return err
		}
		want := g.expectedRoute(level, g.hotPixels(level, [][]Pt{verts}), a, b)
		c.Sum.Evaluations++
		kind := tieKind(g, level, a, b)
		c.Count(kind)
		if kind != "generic" || len(want) >= 3 {
			c.Nontrivial(fmt.Sprint(g.Name, verts, a, b, level))
		}
		in := map[string]any{"grid": g.Name, "grid_int": map[string]any{"ext": g.Ext, "res": g.Res, "deep": g.Deep}, "hot_vertices_int": verts, "segment_int": []Pt{a, b}, "level": level}
		if !reflect.DeepEqual(got, want) && !(len(got) == 0 && len(want) == 0) {
			c.Violate(hc.Violation{What: "an edge is not routed through exactly the occupied pixels it meets, in order of travel", Input: in, Observed: got, Expected: want})
		}
		c.Case(fmt.Sprintf("RouteCase %s %s %s %s %d%%nat %s", g.CoqTerm(), ptsTerm(verts), hc.CoqPt(a), hc.CoqPt(b), level, ptsTerm(got)), map[string]any{"input": in, "observed": got})
		if i < 3 {
			c.Sample(map[string]any{"input": in, "observed": got})
		}
	}
	// routes on REAL grids (non-round: WebMercatorQuad; round with non-zero origin: NetherlandsRDNewQuad), deep levels
	for k := 0; k < c.N(400, 20000); k++ {
		name, id := "WebMercatorQuad", 12+c.Rng.Intn(8)
		if k%3 == 0 {
			name, id = "NetherlandsRDNewQuad", 10+c.Rng.Intn(5)
		}
		g, err := embeddedGrid(name, id)
		if err != nil || g.Deep > 32 {
			continue
		}
		size := int64(1) << g.Deep
		w := Window{G: g, X0: g.Ext[0] + (size/8+c.Rng.Int63n(size/2))*g.Res, Y0: g.Ext[1] + (size/8+c.Rng.Int63n(size/2))*g.Res, W: 2 + c.Rng.Int63n(3), Unit: max64(1, g.Res/4)}
		switch c.Rng.Intn(3) {
		case 0: // aligned with a coarse quadrant corner, far from the origin
			q := int64(1) << (g.Deep - uint(4+c.Rng.Intn(8)))
			w.X0 = g.Ext[0] + (size/q*3/4)*q*g.Res - g.Res
			w.Y0 = g.Ext[1] + (size/q*3/4)*q*g.Res - g.Res
		case 1: // straddling a border between the quadrants of levels 1-3 (the middle of the extent and its quarters),
			// on a fine lattice: 1/64 pixel, so that vertices fall within a fraction of a pixel of the border
			q := int64(1) << (g.Deep - uint(1+c.Rng.Intn(3)))
			w.X0 = g.Ext[0] + (1+c.Rng.Int63n(size/q-1))*q*g.Res - g.Res
			w.Y0 = g.Ext[1] + (1+c.Rng.Int63n(size/q-1))*q*g.Res - g.Res
			if c.Rng.Intn(2) == 0 {
				w.Y0 = g.Ext[1] + (size/8+c.Rng.Int63n(size/2))*g.Res
			}
			w.W, w.Unit = 2, max64(1, g.Res/64)
		}
		nh := 1 + c.Rng.Intn(8)
		var verts []Pt
		ok := true
		fix := func(p Pt) Pt {
			x, ok1 := fixRoundTrip(p[0])
			y, ok2 := fixRoundTrip(p[1])
			ok = ok && ok1 && ok2
			return Pt{x, y}
		}
		for j := 0; j < nh; j++ {
			verts = append(verts, fix(w.randPt(c.Rng)))
		}
		a, b := verts[c.Rng.Intn(len(verts))], fix(w.randPt(c.Rng))
		if c.Rng.Intn(2) == 0 {
			b = verts[c.Rng.Intn(len(verts))]
		}
		if !ok || !g.inGrid([][]Pt{verts, {a, b}}) {
			continue
		}
		level := g.Deep - uint(c.Rng.Intn(6))
		got, err := routeImpl(g, verts, a, b, level)
		if err != nil {
			continue
		}
		want := g.expectedRoute(level, g.hotPixels(level, [][]Pt{verts}), a, b)
		c.Sum.Evaluations++
		c.Count("real grid " + name)
		c.Nontrivial(fmt.Sprint(name, verts, a, b, level))
		in := map[string]any{"grid": g.Name, "grid_int": map[string]any{"ext": g.Ext, "res": g.Res, "deep": g.Deep}, "hot_vertices_int": verts, "segment_int": []Pt{a, b}, "level": level}
		if !reflect.DeepEqual(got, want) && !(len(got) == 0 && len(want) == 0) {
			c.Violate(hc.Violation{What: "an edge is not routed through exactly the occupied pixels it meets, in order of travel (real grid)", Input: in, Observed: got, Expected: want})
		}
		c.Case(fmt.Sprintf("RouteCase %s %s %s %s %d%%nat %s", g.CoqTerm(), ptsTerm(verts), hc.CoqPt(a), hc.CoqPt(b), level, ptsTerm(got)), map[string]any{"input": in, "observed": got})
	}
	// raw lineIntersects calls, incl. large coordinates (the 128-bit product path)
	m := c.N(3000, 200000)
	for i := 0; i < m; i++ {
		var scale int64 = 2500000000
		var off int64
		if i%3 == 0 { // RD-sized: coordinates around 1e15-1e16 in 1e-10 units
			scale, off = 1318359375, 1172202820000000+c.Rng.Int63n(1<<40)
		}
		rp := func() Pt { return Pt{off + scale*c.Rng.Int63n(40), off + scale*c.Rng.Int63n(40)} }
		a, b := rp(), rp()
		lo := rp()
		e := [4]int64{lo[0], lo[1], lo[0] + scale*(1+c.Rng.Int63n(8)), lo[1] + scale*(1+c.Rng.Int63n(8))}
		if i%5 == 0 {
			b = Pt{e[2], e[3]} // tip on the exclusive corner
		}
		got := pointindex.VerifLineIntersects(intgeom.Line{{a[0], a[1]}, {b[0], b[1]}}, intgeom.Extent{e[0], e[1], e[2], e[3]})
		_, want := meet(a, b, e[0], e[1], e[2], e[3])
		c.Sum.Evaluations++
		c.Count("raw lineIntersects")
		if got != want {
			c.Violate(hc.Violation{What: "the segment / half-open box test disagrees with the exact clip", Input: map[string]any{"segment_int": []Pt{a, b}, "extent_int": e}, Observed: got, Expected: want})
		}
		c.Case(fmt.Sprintf("LineCase %s %s %s %s", hc.CoqPt(a), hc.CoqPt(b), extentTerm(e), hc.CoqBool(got)), map[string]any{"segment_int": []Pt{a, b}, "extent_int": e, "observed": got})
	}
	// (b) non-collapsing polygons
	np := c.N(600, 40000)
	for i := 0; i < np; i++ {
		g, poly, kind := validCase(c, grids, 12)
		id := g.DeepestID
		if c.Rng.Intn(3) == 0 {
			id = c.Rng.Intn(g.DeepestID + 1)
		}
		if i%8 == 6 { // a triangle with an edge between two diagonal neighbour pixels exactly through their common corner,
			// its third vertex in the pixel that owns that corner (or in the fourth pixel around it): a tie inside
			// SnapPolygon's own call of the index (the segment stream above reaches the descent below it only)
			gg := pickGrid(c, grids)
			lv := gg.Level(gg.DeepestID)
			sp := gg.Span(lv)
			n := (int64(1) << lv) - 3
			if sp >= 8 && n > 2 {
				kx := gg.Ext[0] + (1+c.Rng.Int63n(n))*sp
				ky := gg.Ext[1] + (1+c.Rng.Int63n(n))*sp
				dx, dy := 1+c.Rng.Int63n(sp-1), 1+c.Rng.Int63n(sp-1)
				sx := int64(1 - 2*c.Rng.Intn(2)) // which diagonal
				pa, pb := Pt{kx - sx*dx, ky + dy}, Pt{kx + sx*dx, ky - dy}
				var pc Pt
				if c.Rng.Intn(4) != 0 {
					pc = Pt{kx + c.Rng.Int63n(sp), ky + c.Rng.Int63n(sp)} // the pixel that owns the corner
				} else {
					pc = Pt{kx - 1 - c.Rng.Int63n(sp-1), ky - 1 - c.Rng.Int63n(sp-1)}
				}
				tri := []Pt{pa, pb, pc}
				if c.Rng.Intn(2) == 0 {
					tri = []Pt{pb, pa, pc}
				}
				if areaSign(tri) != 0 && gg.inGrid([][]Pt{tri}) {
					g, poly, kind, id = gg, [][]Pt{tri}, "triangle with an edge through the common corner of two diagonal neighbour pixels", gg.DeepestID
				}
			}
		}
		if i%25 == 12 { // a steep sawtooth inside ONE pixel column of tile matrix 0, a vertex in every pixel row of that column:
			// on the shallow matrix every edge is routed through the whole column (the routed ring is several times as long as
			// the input ring), on the deepest matrix nothing collapses: requested together, the deep result must not notice
			for _, gg := range grids {
				if gg.DeepestID != 4 || gg.Level(0) == gg.Level(4) || gg.Span(gg.Level(0)) != 16*gg.Span(gg.Level(4)) {
					continue
				}
				P0 := gg.Span(gg.Level(0))
				n0 := int64(1) << gg.Level(0)
				if n0 < 9 {
					continue
				}
				ox, oy := gg.Ext[0]+c.Rng.Int63n(n0-1)*P0, gg.Ext[1]+c.Rng.Int63n(n0-8)*P0
				u := P0 / 128
				var saw []Pt
				for _, q := range [][2]int64{{5, 3}, {123, 3}, {115, 963}, {101, 13}, {91, 963}, {77, 13}, {67, 963}, {53, 13}, {43, 963}, {29, 13}, {19, 963}, {15, 829}, {14, 701}, {12, 573}, {10, 445}, {9, 317}, {7, 189}} {
					saw = append(saw, Pt{ox + q[0]*u, oy + q[1]*u})
				}
				if gg.inGrid([][]Pt{saw}) && validPolygon([][]Pt{saw}) {
					g, poly, kind, id = gg, [][]Pt{saw}, "sawtooth in one pixel column of tile matrix 0, requested with the deepest tile matrix", 0
				}
				break
			}
		}
		ids := []int{id}
		if id != g.DeepestID {
			ids = append(ids, g.DeepestID)
		}
		cfg := snap.Config{KeepPointsAndLines: c.Rng.Intn(2) == 0, ReverseWindingOrder: c.Rng.Intn(2) == 0}
		r := runSnap(g, poly, ids, cfg, watchdog)
		c.Sum.Evaluations++
		// every requested tile matrix is held to the clause (the result of one must not depend on what another one needed)
		for _, id := range ids {
			level := g.Level(id)
			// expected rings from the independent oracle
			hot := g.hotPixels(level, poly)
			var expected [][]Pt
			shared := map[Pt]int{}
			ok := true
			for ri, ring := range poly {
				r := ring
				if (areaSign(r) > 0) != (ri == 0) {
					r = reverseRing(r)
				}
				var chain []Pt
				for k := range r {
					pts := g.expectedRoute(level, hot, r[k], r[(k+1)%len(r)])
					if len(pts) > 1 {
						pts = pts[:len(pts)-1]
					}
					if len(chain) > 0 && len(pts) > 0 && pts[0] == chain[len(chain)-1] {
						pts = pts[1:]
					}
					chain = append(chain, pts...)
				}
				if len(chain) > 1 && chain[0] == chain[len(chain)-1] {
					chain = chain[:len(chain)-1]
				}
				for _, p := range chain {
					shared[p]++
					if shared[p] > 1 {
						ok = false
					}
				}
				if len(chain) < 3 {
					ok = false
				}
				if cfg.ReverseWindingOrder {
					chain = reverseRing(chain)
				}
				expected = append(expected, chain)
			}
			if !ok {
				c.Count("polygon collapses (not in C02's polygon class)")
			} else {
				c.Count("polygon does not collapse: kind " + kind)
				c.Nontrivial(keyOf(g, poly, ids, cfg))
				if r.Panic != "" || len(r.ByID[id]) != 1 || !reflect.DeepEqual(r.ByID[id][0], expected) {
					c.Violate(hc.Violation{What: fmt.Sprintf("a non-collapsing polygon is not returned as the concatenation of its routed edges (shell CCW, holes CW) at tile matrix %d", id), Input: caseJSON(g, poly, ids, cfg, r), Expected: expected})
				}
			}
		}
		c.Case("PolyCase ("+snapCaseTerm(g, poly, ids, cfg, r)+")", caseJSON(g, poly, ids, cfg, r))
	}
	// tiny non-collapsing triangles at deep levels far from the origin (float cancellation in winding tests)
	for _, wmID := range []int{17, 19, 20} {
		g, err := embeddedGrid("WebMercatorQuad", wmID)
		if err != nil || g.Deep > 32 {
			continue
		}
		for k := 0; k < c.N(40, 2000); k++ {
			level := g.Level(wmID)
			span := g.Span(level)
			px := (int64(194600000000000000)-g.Ext[0])/span + c.Rng.Int63n(1000)
			py := (int64(90000000000000000)-g.Ext[1])/span + c.Rng.Int63n(1000)
			cen := func(dx, dy int64) Pt { return g.centre(level, pixel{px + dx, py + dy}) }
			tri := []Pt{cen(0, 0), cen(2+c.Rng.Int63n(2), 1), cen(1, 3+c.Rng.Int63n(2))}
			ok := true
			for j := range tri {
				x, ok1 := fixRoundTrip(tri[j][0])
				y, ok2 := fixRoundTrip(tri[j][1])
				ok = ok && ok1 && ok2 && g.pixelOf(level, Pt{x, y}) == g.pixelOf(level, tri[j])
				tri[j] = Pt{x, y}
			}
			if !ok || areaSign(tri) <= 0 {
				continue
			}
			poly := [][]Pt{tri}
			cfg := snap.Config{KeepPointsAndLines: c.Rng.Intn(2) == 0}
			r := runSnap(g, poly, []int{wmID}, cfg, watchdog)
			c.Sum.Evaluations++
			c.Count("tiny triangle far from the origin, WebMercatorQuad")
			c.Nontrivial(keyOf(g, poly, []int{wmID}, cfg))
			want := []Pt{cen(0, 0), tri[1], tri[2]}
			for j := range want {
				want[j] = g.centre(level, g.pixelOf(level, tri[j]))
			}
			if r.Panic != "" || len(r.ByID[wmID]) != 1 || len(r.ByID[wmID][0]) != 1 || !reflect.DeepEqual(r.ByID[wmID][0][0], want) {
				c.Violate(hc.Violation{What: "a non-collapsing counter-clockwise triangle is not returned as the concatenation of its routed edges, shell counter-clockwise", Input: caseJSON(g, poly, []int{wmID}, cfg, r), Expected: want})
			}
			c.Case("PolyCase ("+snapCaseTerm(g, poly, []int{wmID}, cfg, r)+")", caseJSON(g, poly, []int{wmID}, cfg, r))
		}
	}
	return nil
}
