package main

import (
	"encoding/json"
	"math"
	"os"
	"path/filepath"
	"sort"

	"github.com/pdok/texel/snap"

	hc "verif/hcommon"
)

// CorpusCase is a committed regression / witness input (corpus/<id>/*.json): always run first.
type CorpusCase struct {
	Note string `json:"note"`
	Grid struct {
		D    int     `json:"d"`
		Cell float64 `json:"cell"`
		OX   float64 `json:"ox"`
		OY   float64 `json:"oy"`
		Set  string  `json:"set"` // embedded tile matrix set instead of a synthetic grid
	} `json:"grid"`
	Polygon [][][2]float64 `json:"polygon"`
	IDs     []int          `json:"ids"`
	Config  struct {
		Keep    bool `json:"keep"`
		Ignore  bool `json:"ignore_outside"`
		Reverse bool `json:"reverse"`
	} `json:"config"`
}

type snapEval func(c *hc.Ctx, g *Grid, poly [][]Pt, kind string, ids []int, cfg snap.Config)

func runCorpus(c *hc.Ctx, f snapEval) error {
	files, _ := filepath.Glob(filepath.Join(c.Verif, "corpus", c.ID, "*.json"))
	sort.Strings(files)
	if c.Replay != "" {
		files = append([]string{c.Replay}, files...)
	}
	for _, fn := range files {
		b, err := os.ReadFile(fn)
		if err != nil {
			return err
		}
		var cc CorpusCase
		if err := json.Unmarshal(b, &cc); err != nil {
			// a replay file written by bin/check wraps the case; try to dig it out
			var wrap struct {
				Case struct {
					Input json.RawMessage `json:"input"`
				} `json:"case"`
			}
			if json.Unmarshal(b, &wrap) != nil {
				continue
			}
			continue
		}
		if len(cc.Polygon) == 0 && len(cc.IDs) == 0 {
			continue
		}
		var g *Grid
		if cc.Grid.Set != "" {
			maxid := 0
			for _, id := range cc.IDs {
				if id > maxid {
					maxid = id
				}
			}
			g, err = embeddedGrid(cc.Grid.Set, maxid)
		} else {
			g, err = newSyntheticGrid(cc.Grid.D, cc.Grid.Cell, cc.Grid.OX, cc.Grid.OY)
		}
		if err != nil {
			return err
		}
		poly := make([][]Pt, len(cc.Polygon))
		for i, r := range cc.Polygon {
			poly[i] = make([]Pt, len(r))
			for j, p := range r {
				poly[i][j] = Pt{int64(math.Round(p[0] * 1e10)), int64(math.Round(p[1] * 1e10))}
				if cc.Grid.Set != "" {
					poly[i][j] = Pt{fromGeomOrd(p[0]), fromGeomOrd(p[1])}
				}
			}
		}
		c.Count("corpus")
		f(c, g, poly, "corpus:"+filepath.Base(fn), cc.IDs, snap.Config{KeepPointsAndLines: cc.Config.Keep, IgnoreOutsideGrid: cc.Config.Ignore, ReverseWindingOrder: cc.Config.Reverse})
	}
	return nil
}

func fromGeomOrd(f float64) int64 { return int64(f * 1e10) }
