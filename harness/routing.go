package main

import (
	"math/big"
	"sort"

	"github.com/pdok/texel/intgeom"
	"github.com/pdok/texel/pointindex"
)

// ---- independent exact oracle for "the hot pixels a closed segment meets, in order of travel" -----------

type pixel struct{ X, Y int64 }

func (g *Grid) pixelOf(level uint, p Pt) pixel {
	s := g.Span(level)
	return pixel{floorDiv64(p[0]-g.Ext[0], s), floorDiv64(p[1]-g.Ext[1], s)}
}

func floorDiv64(a, b int64) int64 {
	q := a / b
	if a%b != 0 && (a < 0) != (b < 0) {
		q--
	}
	return q
}

func (g *Grid) centre(level uint, px pixel) Pt {
	s := g.Span(level)
	return Pt{g.Ext[0] + px.X*s + s/2, g.Ext[1] + px.Y*s + s/2}
}

// hotPixels: pixels of the level that contain a vertex of the polygon.
func (g *Grid) hotPixels(level uint, poly [][]Pt) []pixel {
	seen := map[pixel]bool{}
	var out []pixel
	for _, r := range poly {
		for _, v := range r {
			p := g.pixelOf(level, v)
			if !seen[p] {
				seen[p] = true
				out = append(out, p)
			}
		}
	}
	return out
}

type paramIv struct {
	lo, hi             *big.Rat
	loStrict, hiStrict bool
}

// meet computes the set of parameters t in [0,1] with a + t(b-a) inside the half-open box [x0,x1) x [y0,y1).
func meet(a, b Pt, x0, y0, x1, y1 int64) (paramIv, bool) {
	iv := paramIv{lo: big.NewRat(0, 1), hi: big.NewRat(1, 1)}
	for ax := 0; ax < 2; ax++ {
		from, to := a[ax], b[ax]
		mn, mx := x0, x1
		if ax == 1 {
			mn, mx = y0, y1
		}
		d := to - from
		switch {
		case d == 0:
			if from < mn || from >= mx {
				return iv, false
			}
		case d > 0:
			// t >= (mn-from)/d ; t < (mx-from)/d
			iv.raiseLo(ratio(mn-from, d), false)
			iv.lowerHi(ratio(mx-from, d), true)
		default:
			// from + t d < mx  <=>  t > (from-mx)/(-d) ; from + t d >= mn <=> t <= (from-mn)/(-d)
			iv.raiseLo(ratio(from-mx, -d), true)
			iv.lowerHi(ratio(from-mn, -d), false)
		}
	}
	c := iv.lo.Cmp(iv.hi)
	if c > 0 || (c == 0 && (iv.loStrict || iv.hiStrict)) {
		return iv, false
	}
	return iv, true
}

func ratio(n, d int64) *big.Rat { return new(big.Rat).SetFrac(big.NewInt(n), big.NewInt(d)) }

func (iv *paramIv) raiseLo(v *big.Rat, strict bool) {
	c := v.Cmp(iv.lo)
	if c > 0 || (c == 0 && strict) {
		iv.lo, iv.loStrict = v, strict || (c == 0 && iv.loStrict)
	}
}

func (iv *paramIv) lowerHi(v *big.Rat, strict bool) {
	c := v.Cmp(iv.hi)
	if c < 0 || (c == 0 && strict) {
		iv.hi, iv.hiStrict = v, strict || (c == 0 && iv.hiStrict)
	}
}

// expectedRoute: centres of the hot pixels met by the closed segment a-b, in order of travel.
func (g *Grid) expectedRoute(level uint, hot []pixel, a, b Pt) []Pt {
	s := g.Span(level)
	type hit struct {
		px pixel
		iv paramIv
	}
	var hits []hit
	for _, p := range hot {
		x0, y0 := g.Ext[0]+p.X*s, g.Ext[1]+p.Y*s
		if iv, ok := meet(a, b, x0, y0, x0+s, y0+s); ok {
			hits = append(hits, hit{p, iv})
		}
	}
	sort.SliceStable(hits, func(i, j int) bool {
		c := hits[i].iv.lo.Cmp(hits[j].iv.lo)
		if c != 0 {
			return c < 0
		}
		return !hits[i].iv.loStrict && hits[j].iv.loStrict
	})
	out := make([]Pt, len(hits))
	for i, h := range hits {
		out[i] = g.centre(level, h.px)
	}
	return out
}

// ---- the implementation's own routing (through the verif hook) ----------------------------------------

type Routing struct {
	Level    uint
	Segments [][][]Pt // per ring, per edge: centres returned by snapClosestPoints
	Chains   [][]Pt   // per ring: cleaned cyclic chain (as cleanupNewVertices + closing vertex removal produce it)
}

func implRouting(g *Grid, poly [][]Pt, level uint) (*Routing, error) {
	ix, err := pointindex.FromTileMatrixSet(g.TMS, g.DeepestID)
	if err != nil {
		return nil, err
	}
	fp, _ := g.toFloatPoly(poly)
	if err := ix.InsertPolygon(fp); err != nil {
		return nil, err
	}
	rt := &Routing{Level: level}
	for _, ring := range poly {
		var segs [][]Pt
		var chain []Pt
		n := len(ring)
		for i := range ring {
			a, b := ring[i], ring[(i+1)%n]
			res := pointindex.VerifSnapClosestPoints(ix, intgeom.Line{{a[0], a[1]}, {b[0], b[1]}}, []pointindex.Level{pointindex.Level(level)})
			var pts []Pt
			for _, p := range res[pointindex.Level(level)] {
				pts = append(pts, Pt{p[0], p[1]})
			}
			segs = append(segs, pts)
			kept := pts
			if len(kept) > 1 {
				kept = kept[:len(kept)-1]
			}
			if len(chain) > 0 && len(kept) > 0 && kept[0] == chain[len(chain)-1] {
				kept = kept[1:]
			}
			chain = append(chain, kept...)
		}
		if len(chain) > 1 && chain[0] == chain[len(chain)-1] {
			chain = chain[:len(chain)-1]
		}
		rt.Segments = append(rt.Segments, segs)
		rt.Chains = append(rt.Chains, chain)
	}
	return rt, nil
}

// maxVisits: the largest number of times a routed chain passes through one pixel centre.
func (rt *Routing) maxVisits() int {
	m := 0
	for _, ch := range rt.Chains {
		cnt := map[Pt]int{}
		for _, p := range ch {
			cnt[p]++
			if cnt[p] > m {
				m = cnt[p]
			}
		}
	}
	return m
}

// centresShared: some pixel centre is visited more than once by the routed chains taken together
// ("two parts of the polygon collapse onto a common pixel").
func (rt *Routing) centresShared() bool {
	cnt := map[Pt]int{}
	for _, ch := range rt.Chains {
		for _, p := range ch {
			cnt[p]++
			if cnt[p] > 1 {
				return true
			}
		}
	}
	return false
}

// isRoutedRun: the edge u-v is a routed edge or a straight run of consecutive routed edges of some chain.
func (rt *Routing) isRoutedRun(u, v Pt) bool {
	for _, ch := range rt.Chains {
		n := len(ch)
		if n < 2 {
			continue
		}
		for i := 0; i < n; i++ {
			if ch[i] != u {
				continue
			}
			for _, dir := range []int{1, -1} {
				j := i
				for steps := 0; steps < n; steps++ {
					j = (j + dir + n) % n
					if ch[j] == v {
						return true
					}
					if !onSegment(u, v, ch[j]) {
						break
					}
				}
			}
		}
	}
	return false
}
