package main

import (
	"fmt"

	"github.com/pdok/texel/snap"

	hc "verif/hcommon"
)

func init() { props["F5HUNT"] = runF5Hunt }

// runF5Hunt is a search tool (not a registered check): it looks for valid polygons on which spike removal
// invents an edge, prints them, and classifies them by what else goes wrong (crossing, half-pixel, coverage).
func runF5Hunt(c *hc.Ctx) error {
	c.CorrInit("Texel.Corr.C01", "theories/Corr/C01.v", 100)
	grids := syntheticGrids()
	n := c.N(20000, 2000000)
	found := 0
	visits := map[int]int{}
	for i := 0; i < n && found < 40; i++ {
		g, poly, _ := collapsingCase(c, grids)
		if i%3 == 0 {
			g, poly, _ = validCase(c, grids, 6)
		}
		id := c.Rng.Intn(g.DeepestID + 1)
		ids := []int{id}
		if id != g.DeepestID {
			ids = append(ids, g.DeepestID)
		}
		level := g.Level(id)
		rt, err := implRouting(g, poly, level)
		if err != nil {
			continue
		}
		mv := rt.maxVisits()
		visits[mv]++
		if mv < 3 {
			continue
		}
		cfg := snap.Config{KeepPointsAndLines: c.Rng.Intn(2) == 0}
		r := runSnap(g, poly, ids, cfg, watchdog)
		c.Sum.Evaluations++
		if r.Panic != "" {
			fmt.Println("PANIC", r.Panic, poly)
			continue
		}
		var invented []Edge
		for _, pl := range r.ByID[id] {
			for _, ring := range pl {
				for _, e := range ringEdges(ring) {
					if !rt.isRoutedRun(e.A, e.B) {
						invented = append(invented, e)
					}
				}
			}
		}
		if len(invented) == 0 {
			continue
		}
		found++
		es := polysEdges(r.ByID[id])
		cross := false
		for a := 0; a < len(es); a++ {
			for b := a + 1; b < len(es); b++ {
				if properCross(es[a].A, es[a].B, es[b].A, es[b].B) {
					cross = true
				}
			}
		}
		fp, _ := polyToFloat(poly)
		fmt.Printf("INVENTED visits=%d cross=%v grid=%s id=%d keep=%v poly=%v\n   chain=%v\n   out=%v invented=%v\n", mv, cross, g.Name, id, cfg.KeepPointsAndLines, fp, rt.Chains, r.Raw[id], invented)
	}
	fmt.Println("visits histogram:", visits, "found:", found)
	return nil
}
