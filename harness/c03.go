package main

import (
	"encoding/json"
	"fmt"
	"math"
	"math/big"
	"os"
	"path/filepath"
	"sort"
	"strings"

	"github.com/pdok/texel/intgeom"
	"github.com/pdok/texel/pointindex"
	"github.com/pdok/texel/snap"
	"github.com/pdok/texel/tms20"

	hc "verif/hcommon"
)

func init() { props["C03"] = runC03 }

func embeddedNames(repo string) []string {
	ms, _ := filepath.Glob(filepath.Join(repo, "tms20", "tilematrixsets", "*.json"))
	var out []string
	for _, m := range ms {
		out = append(out, strings.TrimSuffix(filepath.Base(m), ".json"))
	}
	sort.Strings(out)
	return out
}

func maxID(t tms20.TileMatrixSet) int {
	m := 0
	for id := range t.TileMatrices {
		if id > m {
			m = id
		}
	}
	return m
}

// fixRoundTrip nudges an integer ordinate until its float image reads back as itself.
func fixRoundTrip(o int64) (int64, bool) {
	if o2 := intgeom.FromGeomOrd(intgeom.ToGeomOrd(o)); o2 != o {
		// what the implementation reads for the float image of o; representable by construction or by a neighbouring float
		if _, ok := toFloat(o2); ok {
			return o2, true
		}
	}
	for d := int64(0); d < 4; d++ {
		for _, c := range []int64{o + d, o - d} {
			if _, ok := toFloat(c); ok {
				return c, true
			}
		}
	}
	return o, false
}

func ratOfFloat(f float64) *big.Rat { r := new(big.Rat); r.SetFloat64(f); return r }

func runC03(c *hc.Ctx) error {
	c.CorrInit("Texel.Corr.C03", "theories/Corr/C03.v", 60)
	c.Sum.Rule = "every built-in tile matrix set accepted by validation x tile matrix ids (quick: 4 per set incl. the deepest reported round; thorough: all) x id subsets x star polygons of 3-9 vertices at random anchors inside the extent (integer coordinates that survive the float round trip), plus synthetic dyadic grids; distinct by (set, ids, polygon); non-trivial = set with non-zero origin or non-zero deviation, or >= 2 ids"
	c.Sum.Oracle = "on the implementation, with exact rationals: deepest level = deepest id + log2(tile width) + 4; every returned coordinate is the float image of min + k*S + S/2 (S = 2^(d-l)*res) with 0 <= k < 2^l; its distance to the ideal centre min + (k+1/2)*cellSize(z)/16 is at most the deviation DeviationStats reports (+ float slack 1e-9 relative); on round sets S equals cellSize(z)/16 exactly"
	c.Sum.Assumptions = []string{"float64 conversion (ToGeomOrd) and DeviationStats' float arithmetic are outside the theorems; the oracle recomputes them with math/big", "cell sizes are read from the decoded documents (float64) and compared at 1e-9 relative"}
	var grids []*Grid
	type setInfo struct {
		name    string
		t       tms20.TileMatrixSet
		devs    map[int]float64
		maxID   int
		rounded bool
	}
	var sets []setInfo
	for _, name := range embeddedNames(c.Repo) {
		t, err := tms20.LoadEmbeddedTileMatrixSet(name)
		if err != nil {
			return fmt.Errorf("load %s: %w", name, err)
		}
		if pointindex.IsQuadTree(t) != nil {
			c.Count("set rejected by validation: " + name)
			continue
		}
		c.Count("set accepted: " + name)
		if what, obs, exp := originMismatch(c.Repo, name, t); what != "" {
			c.Violate(hc.Violation{What: what, Input: map[string]any{"set": name}, Observed: obs, Expected: exp})
		}
		sets = append(sets, setInfo{name: name, t: t, devs: map[int]float64{}, maxID: maxID(t)})
	}
	if len(sets) == 0 {
		return fmt.Errorf("no built-in tile matrix set passes IsQuadTree")
	}
	_ = grids
	maxDocGap := 0.0
	n := c.N(400, 30000)
	if c.Search {
		n *= 10
	}
	for i := 0; i < n; i++ {
		si := &sets[c.Rng.Intn(len(sets))]
		// deepest id: bounded so that 2^level fits comfortably and res >= 4 units
		deepest := c.Rng.Intn(si.maxID + 1)
		g, err := gridFor(si.name, si.t, deepest, false)
		if err != nil || g.Res < 8 || g.Deep > 32 { // deeper levels cannot be keyed (MustToZ): known finding F11, see C06
			i--
			continue
		}
		root := si.t.TileMatrices[0]
		wantDeep := uint(deepest) + uint(math.Round(math.Log2(float64(root.TileWidth)))) + 4
		if g.Deep != wantDeep {
			c.Violate(hc.Violation{What: "deepest level is not id + log2(tile width) + 4", Input: map[string]any{"set": si.name, "id": deepest, "tile_width": root.TileWidth}, Observed: g.Deep, Expected: wantDeep})
		}
		_, devUnits, _, err := pointindex.DeviationStats(si.t, deepest)
		if err != nil {
			return err
		}
		ids := []int{deepest}
		for k := 0; k < 2; k++ {
			if id := c.Rng.Intn(deepest + 1); !containsInt(ids, id) && deepest-id < 12 {
				ids = append(ids, id)
			}
		}
		// a star polygon of a few pixels of the coarsest requested id, anchored at random inside the extent
		coarse := ids[0]
		for _, id := range ids {
			if id < coarse {
				coarse = id
			}
		}
		span := g.Span(g.Level(coarse))
		size := int64(1) << g.Deep
		total := size * g.Res
		w := span * int64(2+c.Rng.Intn(6))
		if w >= total/2 {
			w = total / 4
		}
		ax := g.Ext[0] + c.Rng.Int63n(total-w-1)
		ay := g.Ext[1] + c.Rng.Int63n(total-w-1)
		if c.Rng.Intn(6) == 0 { // at the minimum corner of the extent: the same small pixel addresses occur on every level
			ax, ay = g.Ext[0]+c.Rng.Int63n(span), g.Ext[1]+c.Rng.Int63n(span)
		}
		cx, cy := ax+w/2, ay+w/2
		nv := 3 + c.Rng.Intn(7)
		var ring []Pt
		okRT := true
		for k := 0; k < nv; k++ {
			ang := (float64(k) + 0.8*c.Rng.Float64()) * 2 * math.Pi / float64(nv)
			rad := float64(w) / 2 * (0.35 + 0.6*c.Rng.Float64())
			x, ok1 := fixRoundTrip(cx + int64(rad*math.Cos(ang)))
			y, ok2 := fixRoundTrip(cy + int64(rad*math.Sin(ang)))
			okRT = okRT && ok1 && ok2
			ring = append(ring, Pt{x, y})
		}
		poly := [][]Pt{ring}
		if !okRT || !g.inGrid(poly) || !ringSimple(ring) {
			i--
			continue
		}
		cfg := snap.Config{KeepPointsAndLines: c.Rng.Intn(2) == 0, ReverseWindingOrder: c.Rng.Intn(2) == 0}
		r := runSnap(g, poly, ids, cfg, watchdog)
		c.Sum.Evaluations++
		c.Count("set " + si.name)
		if g.Ext[0] != 0 || devUnits != 0 || len(ids) > 1 {
			c.Nontrivial(keyOf(g, poly, ids, cfg))
		}
		if unexpectedPanic(c, g, poly, ids, cfg, r) {
			continue
		}
		if len(r.NotCentre) > 0 {
			c.Violate(hc.Violation{What: "a returned coordinate is not the float image of a pixel centre of its tile matrix", Input: caseJSON(g, poly, ids, cfg, r), Observed: r.NotCentre})
		}
		dev := ratOfFloat(math.Abs(devUnits))
		slack := new(big.Rat).Mul(ratOfFloat(math.Max(math.Abs(intToUnits(g.Ext[2])), math.Abs(intToUnits(g.Ext[0])))), big.NewRat(1, 1000000000))
		bound := new(big.Rat).Add(dev, slack)
		for _, id := range sortedIDs(r.ByID) {
			level := g.Level(id)
			S := g.Span(level)
			tm := si.t.TileMatrices[id]
			cell := ratOfFloat(tm.CellSize)
			px := new(big.Rat).Quo(cell, big.NewRat(16, 1)) // ideal pixel size in units
			// the documents give cell sizes as rounded decimals: cellSize(z) * tileWidth * matrixWidth(z) differs from the
			// extent of tile matrix 0 by up to a few 1e-9 relative (e.g. 0.11 units for UPSAntarcticWGS84Quad id 20).  That
			// inconsistency of the DOCUMENT is allowed on top of the reported deviation (the theorem C03_centre_deviation_bound
			// is about the ideal centre derived from the extent, min + (k+1/2) * XSpan / 2^l).
			docSpan := new(big.Rat).Mul(cell, new(big.Rat).SetInt64(int64(tm.TileWidth)*int64(tm.MatrixWidth)))
			docGap := new(big.Rat).Sub(docSpan, big.NewRat(g.Ext[2]-g.Ext[0], 10000000000))
			docGap.Abs(docGap)
			bound := new(big.Rat).Add(bound, docGap)
			if f, _ := docGap.Float64(); f > maxDocGap {
				maxDocGap = f
			}
			for _, pl := range r.ByID[id] {
				for _, ring := range pl {
					for _, v := range ring {
						for axis := 0; axis < 2; axis++ {
							k := (v[axis] - g.Ext[axis]) / S
							if (v[axis]-g.Ext[axis])%S != S/2 || k < 0 || k >= int64(1)<<level {
								c.Violate(hc.Violation{What: "returned coordinate is not min + k*S + S/2", Input: caseJSON(g, poly, ids, cfg, r), Observed: v})
								continue
							}
							// ideal centre = min + (k + 1/2) * cellSize/16, in units; actual in units = v/1e10
							ideal := new(big.Rat).Add(big.NewRat(g.Ext[axis], 10000000000), new(big.Rat).Mul(big.NewRat(2*k+1, 2), px))
							actual := big.NewRat(v[axis], 10000000000)
							diff := new(big.Rat).Sub(ideal, actual)
							diff.Abs(diff)
							if diff.Cmp(bound) > 0 {
								f, _ := diff.Float64()
								c.Violate(hc.Violation{What: "distance to the ideal pixel centre exceeds the deviation the tool reports", Input: caseJSON(g, poly, ids, cfg, r), Observed: map[string]any{"coordinate": v, "distance_units": f, "reported_deviation_units": devUnits}})
							}
						}
					}
				}
			}
		}
		c.Case(snapCaseTerm(g, poly, ids, cfg, r), caseJSON(g, poly, ids, cfg, r))
		if i < 3 {
			c.Sample(caseJSON(g, poly, ids, cfg, r))
		}
	}
	c.Sum.Assumptions = append(c.Sum.Assumptions, fmt.Sprintf("largest inconsistency between a document's cellSize(z)*tileWidth*matrixWidth(z) and the extent of tile matrix 0 seen in this run: %.6f units (allowed on top of the reported deviation)", maxDocGap))
	// synthetic grids as well (exact)
	sg := syntheticGrids()
	for i := 0; i < c.N(300, 5000); i++ {
		g, poly, _ := rawCase(c, sg, 8)
		ids := randIDs(c.Rng, g)
		cfg := randCfg(c.Rng)
		cfg.IgnoreOutsideGrid = false
		r := runSnap(g, poly, ids, cfg, watchdog)
		c.Sum.Evaluations++
		c.Count("synthetic dyadic grid")
		if r.Panic == "" && len(r.NotCentre) > 0 {
			c.Violate(hc.Violation{What: "a returned coordinate is not a pixel centre of its tile matrix", Input: caseJSON(g, poly, ids, cfg, r), Observed: r.NotCentre})
		}
		c.Case(snapCaseTerm(g, poly, ids, cfg, r), caseJSON(g, poly, ids, cfg, r))
	}
	_ = os.Stderr
	return nil
}

// originMismatch: the grid the index is built on starts at the corner of the tile-matrix-set extent, the corner being
// read from the DOCUMENT itself, independently of package tms20: pointOfOrigin of tile matrix 0 is given in the order of
// the document's orderedAxes (first axis Y / N / Lat = northing first), cornerOfOrigin defaults to topLeft, and the
// extent spans cellSize * tileWidth * matrixWidth to the right and cellSize * tileHeight * matrixHeight downwards.
func originMismatch(repo, name string, t tms20.TileMatrixSet) (string, any, any) {
	raw, err := os.ReadFile(filepath.Join(repo, "tms20", "tilematrixsets", name+".json"))
	if err != nil {
		return "", nil, nil
	}
	var doc struct {
		OrderedAxes  []string `json:"orderedAxes"`
		TileMatrices []struct {
			ID             string     `json:"id"`
			PointOfOrigin  [2]float64 `json:"pointOfOrigin"`
			CornerOfOrigin string     `json:"cornerOfOrigin"`
			CellSize       float64    `json:"cellSize"`
			TileWidth      int64      `json:"tileWidth"`
			TileHeight     int64      `json:"tileHeight"`
			MatrixWidth    int64      `json:"matrixWidth"`
			MatrixHeight   int64      `json:"matrixHeight"`
		} `json:"tileMatrices"`
	}
	if json.Unmarshal(raw, &doc) != nil || len(doc.OrderedAxes) != 2 {
		return "", nil, nil
	}
	for _, m := range doc.TileMatrices {
		if m.ID != "0" || (m.CornerOfOrigin != "" && m.CornerOfOrigin != "topLeft") {
			continue
		}
		x, y := m.PointOfOrigin[0], m.PointOfOrigin[1]
		switch doc.OrderedAxes[0] {
		case "Y", "N", "Lat", "y", "n", "lat":
			x, y = y, x
		}
		w := m.CellSize * float64(m.TileWidth*m.MatrixWidth)
		h := m.CellSize * float64(m.TileHeight*m.MatrixHeight)
		want := [4]float64{x, y - h, x + w, y}
		g, err := gridFor(name, t, 0, false)
		if err != nil {
			return "", nil, nil
		}
		got := [4]float64{intToUnits(g.Ext[0]), intToUnits(g.Ext[1]), intToUnits(g.Ext[2]), intToUnits(g.Ext[3])}
		for i := range want {
			if math.Abs(got[i]-want[i]) > 1e-6*math.Max(1, math.Max(math.Abs(w), math.Abs(want[i]))) {
				return "the grid does not start at the corner of the tile-matrix-set extent given by the document (pointOfOrigin in orderedAxes order)", got, want
			}
		}
	}
	return "", nil, nil
}

func intToUnits(v int64) float64 { return float64(v) / 1e10 }
