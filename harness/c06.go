package main

import (
	"fmt"
	"math"
	"os"
	"path/filepath"
	"strings"
	"time"

	"github.com/pdok/texel/snap"

	"github.com/pdok/texel/tms20"

	hc "verif/hcommon"
)

func init() { props["C06"] = runC06 }

// C06 — snapping is total: no panic, no hang for any in-grid polygon.
func runC06(c *hc.Ctx) error {
	c.CorrInit("Texel.Corr.C06", "theories/Corr/C06.v", 120)
	c.Sum.Exhaustive = "kmpDeduplicate: all chains over 3 centres up to length 10 and 4 centres up to length 8 (quick) without equal neighbours and with first != last, through the implementation AND the model"
	c.Sum.Rule = "arbitrary vertex sequences on the quarter-pixel lattice of synthetic dyadic grids (random, repeats, spikes, zigzags, periodic words, 0-2 point rings, empty rings, combs) x 1-3 rings x random id subsets x config flags; distinct by (grid, polygon, ids, flags); non-trivial = some ring has >= 3 vertices and the routed chain revisits a pixel centre (collapse) at some level"
	c.Sum.Oracle = "SnapPolygon on an in-grid polygon returns normally (no panic of any kind, watchdog 20 s) and within c*n^2 time"
	c.Sum.Partial = "wall-clock time, memory, Go slice aliasing and stack depth cannot be exhibited by the model; they are measured by the harness only"
	grids := syntheticGrids()
	if err := runCorpus(c, evalC06); err != nil {
		return err
	}
	n := c.N(1800, 60000)
	if c.Search {
		n *= 8
	}
	for i := 0; i < n; i++ {
		g := grids[c.Rng.Intn(len(grids))]
		w := randWindow(c.Rng, g, 8)
		poly, kind := genRawPolygon(c.Rng, w)
		switch {
		case c.Rng.Intn(4) == 0:
			poly, kind = genValidPolygon(c.Rng, w)
		case c.Rng.Intn(6) == 0:
			poly, kind = [][]Pt{genPeriodic(c.Rng, w)}, "periodic word"
		}
		if !g.inGrid(poly) {
			i--
			continue
		}
		evalC06(c, g, poly, kind, randIDs(c.Rng, g), randCfg(c.Rng))
	}
	// component level: kmpDeduplicate on EVERY chain over 3 centres up to length 10 and 4 centres up to length 8
	// (thorough: 4 centres up to length 10, 5 up to 9), no equal neighbours, first != last
	chainStream(c, 3, c.N(10, 13), 0, true, false)
	chainStream(c, 4, c.N(8, 10), 0, true, false)
	if !c.Quick() {
		chainStream(c, 5, 9, 0, true, false)
	}
	// real grids whose extent is not a round number of pixels (WebMercatorQuad, LAEA, NZTM): small polygons, valid or not,
	// within a fraction of a pixel of the borders between the quadrants of levels 1-3 (the middle of the extent and its
	// quarters), on a 1/64-pixel lattice: where the integer pixel grid and a float-derived quantity can part company
	for k := 0; k < c.N(240, 6000); k++ {
		name := []string{"WebMercatorQuad", "EuropeanETRS89_LAEAQuad", "NZTM2000Quad", "NetherlandsRDNewQuad"}[k%4]
		t, err := loadSet(name)
		if err != nil {
			continue
		}
		id := 10 + c.Rng.Intn(9)
		if id > maxID(t) {
			id = maxID(t)
		}
		g, err := gridFor(name, t, id, false)
		if err != nil || g.Deep > 32 || g.Res < 64 {
			continue
		}
		size := int64(1) << g.Deep
		q := int64(1) << (g.Deep - uint(1+c.Rng.Intn(3)))
		w := Window{G: g, W: 2, Unit: max64(1, g.Res/64)}
		w.X0 = g.Ext[0] + (1+c.Rng.Int63n(size/q-1))*q*g.Res - g.Res
		w.Y0 = g.Ext[1] + (1+c.Rng.Int63n(size/q-1))*q*g.Res - g.Res
		if c.Rng.Intn(2) == 0 {
			w.Y0 = g.Ext[1] + (size/8+c.Rng.Int63n(size/2))*g.Res
		}
		var ring []Pt
		okRT := true
		for v := 3 + c.Rng.Intn(5); v > 0; v-- {
			p := w.randPt(c.Rng)
			x, ok1 := fixRoundTrip(p[0])
			y, ok2 := fixRoundTrip(p[1])
			okRT = okRT && ok1 && ok2
			ring = append(ring, Pt{x, y})
		}
		poly := [][]Pt{ring}
		if !okRT || !g.inGrid(poly) {
			continue
		}
		ids := []int{id}
		if c.Rng.Intn(2) == 0 && id >= 2 {
			ids = append(ids, id-1-c.Rng.Intn(2))
		}
		cfg := randCfg(c.Rng)
		r := runSnap(g, poly, ids, cfg, 20*time.Second)
		c.Sum.Evaluations++
		c.Count("real grid, at a border between coarse quadrants: " + name)
		if r.Panic != "" {
			c.Violate(hc.Violation{What: "SnapPolygon panicked on an in-grid polygon next to a border between coarse quadrants of a real grid: " + r.Panic, Input: caseJSON(g, poly, ids, cfg, nil), Observed: r.PanicMsg})
		}
	}
	// vertices within a few integer units (1e-10) of a border between deepest-level pixels, far from the corner of the
	// grid (offsets beyond 2^53 units: a quotient computed in floating point lands in the neighbouring pixel there), one
	// of them given twice in a row (a zero-length edge, routed inside one pixel: the pixel its end points are indexed in
	// must be the pixel the routing looks in)
	for k := 0; k < c.N(160, 6000); k++ {
		name := []string{"WebMercatorQuad", "WebMercatorQuad", "WorldMercatorWGS84Quad", "EuropeanETRS89_LAEAQuad"}[k%4]
		t, err := loadSet(name)
		if err != nil {
			continue
		}
		id := []int{14, 17, 20, 12}[c.Rng.Intn(4)]
		if id > maxID(t) {
			id = maxID(t)
		}
		g, err := gridFor(name, t, id, false)
		if err != nil || g.Deep > 32 || g.Res < 64 {
			continue
		}
		size := int64(1) << g.Deep
		px := size/2 + size/8 + c.Rng.Int63n(size/4)
		py := size/2 + size/8 + c.Rng.Int63n(size/4)
		near := func(p int64, ext int64) int64 { return ext + p*g.Res + []int64{-3, -2, -1, 0, 1, 2}[c.Rng.Intn(6)] }
		a := Pt{near(px, g.Ext[0]), near(py, g.Ext[1])}
		b := Pt{near(px+2+c.Rng.Int63n(4), g.Ext[0]), near(py+c.Rng.Int63n(3), g.Ext[1])}
		d := Pt{near(px+c.Rng.Int63n(4), g.Ext[0]), near(py+2+c.Rng.Int63n(4), g.Ext[1])}
		ring := []Pt{a, a, b, d}
		if c.Rng.Intn(3) == 0 {
			ring = []Pt{a, b, b, d, d}
		}
		okRT := true
		for j := range ring {
			x, ok1 := fixRoundTrip(ring[j][0])
			y, ok2 := fixRoundTrip(ring[j][1])
			okRT = okRT && ok1 && ok2
			ring[j] = Pt{x, y}
		}
		poly := [][]Pt{ring}
		if !okRT || !g.inGrid(poly) {
			continue
		}
		ids := []int{id}
		cfg := randCfg(c.Rng)
		r := runSnap(g, poly, ids, cfg, 20*time.Second)
		c.Sum.Evaluations++
		c.Count("real grid, vertices within 3 units of a deepest pixel border, one repeated: " + name)
		if r.Panic != "" {
			c.Violate(hc.Violation{What: "SnapPolygon panicked on an in-grid polygon with a repeated vertex next to a pixel border of a real grid: " + r.Panic, Input: caseJSON(g, poly, ids, cfg, nil), Observed: r.PanicMsg})
		}
	}
	// long rings on many tile matrices at once, again and again: work that is split by ring size or by level (goroutines
	// per level, per part of a ring) and shares maps or buffers takes the whole process down only now and then.  The case
	// is written to disk before it runs, so that a fatal runtime error still names its input.
	manyLevels(c)
	// tile matrices deeper than level 32 (pixel addresses no longer fit the 32-bit Morton halves)
	for _, name := range []string{"UPSArcticWGS84Quad", "NZTM2000Quad", "NetherlandsRDNewQuad", "WebMercatorQuad"} {
		t, err := loadSet(name)
		if err != nil {
			continue
		}
		for k := 0; k < c.N(6, 60); k++ {
			id := maxID(t) - c.Rng.Intn(3)
			atEdge := false
			if name == "WebMercatorQuad" { // exactly level 32: the deepest grid that can be keyed; polygons in its last pixel columns / rows
				id, atEdge = 20, true
			}
			g, err := gridFor(name, t, id, false)
			if err != nil || (g.Deep <= 32 && !atEdge) || g.Deep < 32 || g.Res < 8 {
				continue
			}
			size := int64(1) << g.Deep
			var ring []Pt
			bx, by := c.Rng.Int63n(size-8), c.Rng.Int63n(size-8)
			if atEdge {
				if c.Rng.Intn(2) == 0 {
					bx = size - 8
				} else {
					by = size - 8
				}
			}
			for v := 0; v < 4; v++ {
				x, _ := fixRoundTrip(g.Ext[0] + (bx+c.Rng.Int63n(8))*g.Res + g.Res/2)
				y, _ := fixRoundTrip(g.Ext[1] + (by+c.Rng.Int63n(8))*g.Res + g.Res/2)
				ring = append(ring, Pt{x, y})
			}
			poly := [][]Pt{ring}
			if !g.inGrid(poly) {
				continue
			}
			dcfg := randCfg(c.Rng)
			r := runSnap(g, poly, []int{id}, dcfg, 20*time.Second)
			c.Sum.Evaluations++
			c.Count("deeper than level 32")
			c.Case("SnapC ("+snapCaseTerm(g, poly, []int{id}, dcfg, r)+")", caseJSON(g, poly, []int{id}, dcfg, r))
			if r.Panic != "" {
				v := hc.Violation{What: "SnapPolygon panicked on an in-grid polygon: " + r.Panic, Input: caseJSON(g, poly, []int{id}, dcfg, nil), Observed: r.PanicMsg}
				if r.Panic == "MustToZ" && g.Deep > 32 {
					v.KnownFinding = "F11"
					v.What = fmt.Sprintf("tile matrices deeper than level 32 cannot be snapped: MustToZ panics (e.g. %s id %d = level %d) (F11)", name, id, g.Deep)
				}
				c.Violate(v)
			}
		}
	}
	return nil
}

func loadSet(name string) (tms20.TileMatrixSet, error) { return tms20.LoadEmbeddedTileMatrixSet(name) }

// f13Attributable: known finding F13 — kmpDeduplicate records overlapping removal ranges and RemoveSequences
// (or the restart index) goes out of bounds: the panic is a slice-bounds / index panic raised under
// kmpDeduplicate, and some routed chain passes a pixel centre at least five times.
func f13Attributable(g *Grid, poly [][]Pt, ids []int, r *Result) bool {
	if r.Panic != "SliceBounds" && r.Panic != "IndexOutOfRange" {
		return false
	}
	if !strings.Contains(r.Stack, "snap.kmpDeduplicate") {
		return false
	}
	for _, id := range ids {
		if rt, err := implRouting(g, poly, g.Level(id)); err == nil && rt.maxVisits() >= 5 {
			return true
		}
	}
	return false
}

const f13What = "kmpDeduplicate records overlapping removal ranges on long periodic chains (a centre passed five or more times): RemoveSequences slices out of bounds and SnapPolygon panics (F13)"

func manyLevels(c *hc.Ctx) {
	g, err := newSyntheticGrid(4, 16, 0, 0)
	if err != nil {
		return
	}
	size := int64(1) << g.Deep
	all := make([]int, g.DeepestID+1)
	for i := range all {
		all[i] = i
	}
	for k := 0; k < c.N(6, 60); k++ {
		n := 100 + c.Rng.Intn(400)
		cx, cy := g.Ext[0]+(size/2)*g.Res, g.Ext[1]+(size/2)*g.Res
		var ring []Pt
		for i := 0; i < n; i++ { // a star: the radius alternates, so the routed ring keeps its vertices on every level
			a := 2 * math.Pi * float64(i) / float64(n)
			rad := float64((size/8+c.Rng.Int63n(size/4))*g.Res) * (0.6 + 0.4*float64(i%2))
			ring = append(ring, Pt{cx + int64(rad*math.Cos(a)), cy + int64(rad*math.Sin(a))})
		}
		poly := [][]Pt{ring}
		if !g.inGrid(poly) {
			continue
		}
		cfg := randCfg(c.Rng)
		cfg.IgnoreOutsideGrid = false
		in := caseJSON(g, poly, all, cfg, nil)
		// should the runtime abort the process, this is what it was doing
		pending := hc.Violation{What: "the process was taken down by a fatal runtime error (e.g. concurrent map writes) while SnapPolygon ran on a ring of 100+ vertices with every tile matrix requested", Input: in, Observed: "see the harness log"}
		_ = hc.WriteJSON(filepath.Join(c.Out, "violations_partial.json"), append(append([]hc.Violation{}, c.Sum.Violations...), pending))
		for rep := 0; rep < c.N(40, 200); rep++ {
			r := runSnap(g, poly, all, cfg, 20*time.Second)
			c.Sum.Evaluations++
			if r.Panic != "" {
				c.Violate(hc.Violation{What: "SnapPolygon panicked on an in-grid ring of 100+ vertices with every tile matrix requested: " + r.Panic, Input: in, Observed: r.PanicMsg})
				break
			}
		}
		c.Count("ring of 100-500 vertices x all tile matrices, repeated")
	}
	if len(c.Sum.Violations) == 0 {
		_ = os.Remove(filepath.Join(c.Out, "violations_partial.json"))
	} else {
		_ = hc.WriteJSON(filepath.Join(c.Out, "violations_partial.json"), c.Sum.Violations)
	}
}

func evalC06(c *hc.Ctx, g *Grid, poly [][]Pt, kind string, ids []int, cfg snap.Config) {
	r := runSnap(g, poly, ids, cfg, 20*time.Second)
	c.Sum.Evaluations++
	c.Count("kind " + kind)
	nv := nVerts(poly)
	c.Count(fmt.Sprintf("vertices %02d-%02d", nv/5*5, nv/5*5+4))
	if collapses(g, poly, r) {
		c.Nontrivial(fmt.Sprint(g.Name, poly, ids, cfg))
	}
	if r.Panic != "" {
		c.Count("panic " + r.Panic)
		v := hc.Violation{What: "SnapPolygon panicked / hung on an in-grid polygon: " + r.Panic, Input: caseJSON(g, poly, ids, cfg, nil), Observed: r.PanicMsg}
		if f13Attributable(g, poly, ids, r) {
			v.KnownFinding, v.What = "F13", f13What
		}
		c.Violate(v)
	}
	if lim := time.Duration(50+nv*nv) * time.Millisecond; r.Dur > lim {
		c.Violate(hc.Violation{What: "SnapPolygon slower than c*n^2", Input: caseJSON(g, poly, ids, cfg, nil), Observed: r.Dur.String(), Expected: "<= " + lim.String()})
	}
	c.Case("SnapC ("+snapCaseTerm(g, poly, ids, cfg, r)+")", caseJSON(g, poly, ids, cfg, r))
	c.Sample(caseJSON(g, poly, ids, cfg, r))
}

// collapses: the output has fewer vertices than the input at some level, or a level is missing / has points-and-lines.
func collapses(g *Grid, poly [][]Pt, r *Result) bool {
	if r.Panic != "" {
		return true
	}
	big := false
	for _, ring := range poly {
		if len(ring) >= 3 {
			big = true
		}
	}
	if !big {
		return false
	}
	nin := 0
	for _, ring := range poly {
		nin += len(ring)
	}
	for _, ps := range r.ByID {
		nout := 0
		for _, p := range ps {
			for _, ring := range p {
				nout += len(ring)
				if len(ring) < 3 {
					return true
				}
			}
		}
		if nout != nin {
			return true
		}
	}
	return false
}
