package main

import (
	"fmt"
	"strings"
	"time"

	"github.com/pdok/texel/snap"

	"github.com/pdok/texel/tms20"

	hc "verif/hcommon"
)

func init() { props["C06"] = runC06 }

// C06 — snapping is total: no panic, no hang for any in-grid polygon.
func runC06(c *hc.Ctx) error {
	c.CorrInit("Texel.Corr.C06", "theories/Corr/C06.v", 120)
	c.Sum.Exhaustive = "kmpDeduplicate: all chains over 3 centres up to length 10 and 4 centres up to length 8 (quick) without equal neighbours and with first != last, through the implementation AND the model"
	c.Sum.Rule = "arbitrary vertex sequences on the quarter-pixel lattice of synthetic dyadic grids (random, repeats, spikes, zigzags, periodic words, 0-2 point rings, empty rings, combs) x 1-3 rings x random id subsets x config flags; distinct by (grid, polygon, ids, flags); non-trivial = some ring has >= 3 vertices and the routed chain revisits a pixel centre (collapse) at some level"
	c.Sum.Oracle = "SnapPolygon on an in-grid polygon returns normally (no panic of any kind, watchdog 20 s) and within c*n^2 time"
	c.Sum.Partial = "wall-clock time, memory, Go slice aliasing and stack depth cannot be exhibited by the model; they are measured by the harness only"
	grids := syntheticGrids()
	if err := runCorpus(c, evalC06); err != nil {
		return err
	}
	n := c.N(1800, 60000)
	if c.Search {
		n *= 8
	}
	for i := 0; i < n; i++ {
		g := grids[c.Rng.Intn(len(grids))]
		w := randWindow(c.Rng, g, 8)
		poly, kind := genRawPolygon(c.Rng, w)
		switch {
		case c.Rng.Intn(4) == 0:
			poly, kind = genValidPolygon(c.Rng, w)
		case c.Rng.Intn(6) == 0:
			poly, kind = [][]Pt{genPeriodic(c.Rng, w)}, "periodic word"
		}
		if !g.inGrid(poly) {
			i--
			continue
		}
		evalC06(c, g, poly, kind, randIDs(c.Rng, g), randCfg(c.Rng))
	}
	// component level: kmpDeduplicate on EVERY chain over 3 centres up to length 10 and 4 centres up to length 8
	// (thorough: 4 centres up to length 10, 5 up to 9), no equal neighbours, first != last
	chainStream(c, 3, c.N(10, 13), 0, true, false)
	chainStream(c, 4, c.N(8, 10), 0, true, false)
	if !c.Quick() {
		chainStream(c, 5, 9, 0, true, false)
	}
	// tile matrices deeper than level 32 (pixel addresses no longer fit the 32-bit Morton halves)
	for _, name := range []string{"UPSArcticWGS84Quad", "NZTM2000Quad", "NetherlandsRDNewQuad", "WebMercatorQuad"} {
		t, err := loadSet(name)
		if err != nil {
			continue
		}
		for k := 0; k < c.N(6, 60); k++ {
			id := maxID(t) - c.Rng.Intn(3)
			atEdge := false
			if name == "WebMercatorQuad" { // exactly level 32: the deepest grid that can be keyed; polygons in its last pixel columns / rows
				id, atEdge = 20, true
			}
			g, err := gridFor(name, t, id, false)
			if err != nil || (g.Deep <= 32 && !atEdge) || g.Deep < 32 || g.Res < 8 {
				continue
			}
			size := int64(1) << g.Deep
			var ring []Pt
			bx, by := c.Rng.Int63n(size-8), c.Rng.Int63n(size-8)
			if atEdge {
				if c.Rng.Intn(2) == 0 {
					bx = size - 8
				} else {
					by = size - 8
				}
			}
			for v := 0; v < 4; v++ {
				x, _ := fixRoundTrip(g.Ext[0] + (bx+c.Rng.Int63n(8))*g.Res + g.Res/2)
				y, _ := fixRoundTrip(g.Ext[1] + (by+c.Rng.Int63n(8))*g.Res + g.Res/2)
				ring = append(ring, Pt{x, y})
			}
			poly := [][]Pt{ring}
			if !g.inGrid(poly) {
				continue
			}
			dcfg := randCfg(c.Rng)
			r := runSnap(g, poly, []int{id}, dcfg, 20*time.Second)
			c.Sum.Evaluations++
			c.Count("deeper than level 32")
			c.Case("SnapC ("+snapCaseTerm(g, poly, []int{id}, dcfg, r)+")", caseJSON(g, poly, []int{id}, dcfg, r))
			if r.Panic != "" {
				v := hc.Violation{What: "SnapPolygon panicked on an in-grid polygon: " + r.Panic, Input: caseJSON(g, poly, []int{id}, dcfg, nil), Observed: r.PanicMsg}
				if r.Panic == "MustToZ" && g.Deep > 32 {
					v.KnownFinding = "F11"
					v.What = fmt.Sprintf("tile matrices deeper than level 32 cannot be snapped: MustToZ panics (e.g. %s id %d = level %d) (F11)", name, id, g.Deep)
				}
				c.Violate(v)
			}
		}
	}
	return nil
}

func loadSet(name string) (tms20.TileMatrixSet, error) { return tms20.LoadEmbeddedTileMatrixSet(name) }

// f13Attributable: known finding F13 — kmpDeduplicate records overlapping removal ranges and RemoveSequences
// (or the restart index) goes out of bounds: the panic is a slice-bounds / index panic raised under
// kmpDeduplicate, and some routed chain passes a pixel centre at least five times.
func f13Attributable(g *Grid, poly [][]Pt, ids []int, r *Result) bool {
	if r.Panic != "SliceBounds" && r.Panic != "IndexOutOfRange" {
		return false
	}
	if !strings.Contains(r.Stack, "snap.kmpDeduplicate") {
		return false
	}
	for _, id := range ids {
		if rt, err := implRouting(g, poly, g.Level(id)); err == nil && rt.maxVisits() >= 5 {
			return true
		}
	}
	return false
}

const f13What = "kmpDeduplicate records overlapping removal ranges on long periodic chains (a centre passed five or more times): RemoveSequences slices out of bounds and SnapPolygon panics (F13)"

func evalC06(c *hc.Ctx, g *Grid, poly [][]Pt, kind string, ids []int, cfg snap.Config) {
	r := runSnap(g, poly, ids, cfg, 20*time.Second)
	c.Sum.Evaluations++
	c.Count("kind " + kind)
	nv := nVerts(poly)
	c.Count(fmt.Sprintf("vertices %02d-%02d", nv/5*5, nv/5*5+4))
	if collapses(g, poly, r) {
		c.Nontrivial(fmt.Sprint(g.Name, poly, ids, cfg))
	}
	if r.Panic != "" {
		c.Count("panic " + r.Panic)
		v := hc.Violation{What: "SnapPolygon panicked / hung on an in-grid polygon: " + r.Panic, Input: caseJSON(g, poly, ids, cfg, nil), Observed: r.PanicMsg}
		if f13Attributable(g, poly, ids, r) {
			v.KnownFinding, v.What = "F13", f13What
		}
		c.Violate(v)
	}
	if lim := time.Duration(50+nv*nv) * time.Millisecond; r.Dur > lim {
		c.Violate(hc.Violation{What: "SnapPolygon slower than c*n^2", Input: caseJSON(g, poly, ids, cfg, nil), Observed: r.Dur.String(), Expected: "<= " + lim.String()})
	}
	c.Case("SnapC ("+snapCaseTerm(g, poly, ids, cfg, r)+")", caseJSON(g, poly, ids, cfg, r))
	c.Sample(caseJSON(g, poly, ids, cfg, r))
}

// collapses: the output has fewer vertices than the input at some level, or a level is missing / has points-and-lines.
func collapses(g *Grid, poly [][]Pt, r *Result) bool {
	if r.Panic != "" {
		return true
	}
	big := false
	for _, ring := range poly {
		if len(ring) >= 3 {
			big = true
		}
	}
	if !big {
		return false
	}
	nin := 0
	for _, ring := range poly {
		nin += len(ring)
	}
	for _, ps := range r.ByID {
		nout := 0
		for _, p := range ps {
			for _, ring := range p {
				nout += len(ring)
				if len(ring) < 3 {
					return true
				}
			}
		}
		if nout != nin {
			return true
		}
	}
	return false
}
