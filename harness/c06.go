package main

import (
	"fmt"
	"time"

	hc "verif/hcommon"
)

func init() { props["C06"] = runC06 }

// C06 — snapping is total: no panic, no hang for any in-grid polygon.
func runC06(c *hc.Ctx) error {
	c.CorrInit("Texel.Corr.C06", "theories/Corr/C06.v", 120)
	c.Sum.Rule = "arbitrary vertex sequences on the quarter-pixel lattice of synthetic dyadic grids (random, repeats, spikes, zigzags, periodic words, 0-2 point rings, empty rings, combs) x 1-3 rings x random id subsets x config flags; distinct by (grid, polygon, ids, flags); non-trivial = some ring has >= 3 vertices and the routed chain revisits a pixel centre (collapse) at some level"
	c.Sum.Oracle = "SnapPolygon on an in-grid polygon returns normally (no panic of any kind, watchdog 20 s) and within c*n^2 time"
	c.Sum.Partial = "wall-clock time, memory, Go slice aliasing and stack depth cannot be exhibited by the model; they are measured by the harness only"
	grids := syntheticGrids()
	n := c.N(1800, 60000)
	if c.Search {
		n *= 8
	}
	for i := 0; i < n; i++ {
		g := grids[c.Rng.Intn(len(grids))]
		w := randWindow(c.Rng, g, 8)
		poly, kind := genRawPolygon(c.Rng, w)
		if c.Rng.Intn(4) == 0 {
			poly, kind = genValidPolygon(c.Rng, w)
		}
		if !g.inGrid(poly) {
			i--
			continue
		}
		ids := randIDs(c.Rng, g)
		cfg := randCfg(c.Rng)
		r := runSnap(g, poly, ids, cfg, 20*time.Second)
		c.Sum.Evaluations++
		c.Count("kind " + kind)
		nv := 0
		for _, ring := range poly {
			nv += len(ring)
		}
		c.Count(fmt.Sprintf("vertices %02d-%02d", nv/5*5, nv/5*5+4))
		if collapses(g, poly, r) {
			c.Nontrivial(fmt.Sprint(g.Name, poly, ids, cfg))
		}
		if r.Panic != "" {
			c.Count("panic " + r.Panic)
			c.Violate(hc.Violation{What: "SnapPolygon panicked / hung on an in-grid polygon: " + r.Panic, Input: caseJSON(g, poly, ids, cfg, nil), Observed: r.PanicMsg})
		}
		if lim := time.Duration(50+nv*nv) * time.Millisecond; r.Dur > lim {
			c.Violate(hc.Violation{What: "SnapPolygon slower than c*n^2", Input: caseJSON(g, poly, ids, cfg, nil), Observed: r.Dur.String(), Expected: "<= " + lim.String()})
		}
		c.Case(snapCaseTerm(g, poly, ids, cfg, r), caseJSON(g, poly, ids, cfg, r))
		if i < 3 {
			c.Sample(caseJSON(g, poly, ids, cfg, r))
		}
	}
	return nil
}

// collapses: the output has fewer vertices than the input at some level, or a level is missing / has points-and-lines.
func collapses(g *Grid, poly [][]Pt, r *Result) bool {
	if r.Panic != "" {
		return true
	}
	big := false
	for _, ring := range poly {
		if len(ring) >= 3 {
			big = true
		}
	}
	if !big {
		return false
	}
	nin := 0
	for _, ring := range poly {
		nin += len(ring)
	}
	for _, ps := range r.ByID {
		nout := 0
		for _, p := range ps {
			for _, ring := range p {
				nout += len(ring)
				if len(ring) < 3 {
					return true
				}
			}
		}
		if nout != nin {
			return true
		}
	}
	return false
}
