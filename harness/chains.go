package main

import (
	"fmt"
	"strings"

	"github.com/pdok/texel/snap"

	hc "verif/hcommon"
)

// Component-level tie for kmpDeduplicate (verif hook): exhaustive chains over few pixel centres.

var chainCentres = []Pt{{0, 0}, {1, 0}, {1, 1}, {0, 1}, {2, 0}, {2, 1}}

// enumChains calls f for every chain over the first k centres of length minLen..maxLen that has no two
// equal neighbours and first != last (what cleanupNewRing hands to kmpDeduplicate).
func enumChains(k, minLen, maxLen int, f func(ch []int)) {
	ch := make([]int, 0, maxLen)
	var rec func()
	rec = func() {
		if len(ch) >= minLen && ch[0] != ch[len(ch)-1] {
			f(ch)
		}
		if len(ch) == maxLen {
			return
		}
		for s := 0; s < k; s++ {
			if len(ch) > 0 && ch[len(ch)-1] == s {
				continue
			}
			if len(ch) == 0 && s != 0 { // fix the first symbol: chains are equivalent up to renaming
				continue
			}
			ch = append(ch, s)
			rec()
			ch = ch[:len(ch)-1]
		}
	}
	rec()
}

func chainPts(ch []int) []Pt {
	out := make([]Pt, len(ch))
	for i, s := range ch {
		out[i] = chainCentres[s]
	}
	return out
}

func chainName(ch []int) string {
	var b strings.Builder
	for _, s := range ch {
		b.WriteByte(byte('A' + s))
	}
	return b.String()
}

// kmpImpl runs the implementation's kmpDeduplicate with panic recovery.
func kmpImpl(ring []Pt) (out []Pt, panicKind string, msg string) {
	fr := make([][2]float64, len(ring))
	for i, p := range ring {
		fr[i] = [2]float64{float64(p[0]), float64(p[1])}
	}
	defer func() {
		if r := recover(); r != nil {
			panicKind, msg = classifyPanic(r)
		}
	}()
	res := snap.VerifKmpDeduplicate(fr)
	out = make([]Pt, len(res))
	for i, p := range res {
		out[i] = Pt{int64(p[0]), int64(p[1])}
	}
	return out, "", ""
}

func kmpCaseTerm(ring, out []Pt, panicKind string) string {
	if panicKind != "" {
		return fmt.Sprintf("KmpCase %s (KPanic %s)", ptsTerm(ring), panicTerm(panicKind))
	}
	return fmt.Sprintf("KmpCase %s (KOk %s)", ptsTerm(ring), ptsTerm(out))
}

type dedge struct{ A, B Pt }

func cyclicEdges(r []Pt) map[dedge]int {
	m := map[dedge]int{}
	n := len(r)
	if n < 2 {
		return m
	}
	for i := 0; i < n; i++ {
		m[dedge{r[i], r[(i+1)%n]}]++
	}
	return m
}

// conservedModuloCancellation: out's directed edges are in's minus pairs (e, reverse e).
func conservedModuloCancellation(in, out []Pt) (bool, *dedge) {
	ei, eo := cyclicEdges(in), cyclicEdges(out)
	for e, c := range eo {
		if c > ei[e] {
			return false, &e
		}
	}
	seen := map[dedge]bool{}
	for e := range ei {
		r := dedge{e.B, e.A}
		if seen[e] || seen[r] {
			continue
		}
		seen[e] = true
		if ei[e]-ei[r] != eo[e]-eo[r] {
			return false, &e
		}
	}
	return true, nil
}

func maxVisitsChain(ch []int) int {
	cnt := map[int]int{}
	m := 0
	for _, s := range ch {
		cnt[s]++
		if cnt[s] > m {
			m = cnt[s]
		}
	}
	return m
}

// chainStream feeds exhaustive chains to the implementation, the oracles and the correspondence.
func chainStream(c *hc.Ctx, k, maxLen int, maxVisits int, emit bool, conservation bool) {
	enumChains(k, 3, maxLen, func(ch []int) {
		mv := maxVisitsChain(ch)
		if maxVisits > 0 && mv > maxVisits {
			return
		}
		ring := chainPts(ch)
		out, pk, msg := kmpImpl(ring)
		c.Sum.Evaluations++
		c.Count(fmt.Sprintf("chain over %d centres, max visits %d", k, mv))
		if mv >= 2 {
			c.Nontrivial("chain " + chainName(ch))
		}
		if pk != "" && c.ID != "C01" && c.ID != "C04" { // totality is C06's clause; elsewhere a panic shows as a model/code difference
			c.Violate(hc.Violation{What: "kmpDeduplicate panicked on a chain of pixel centres: " + pk, Input: map[string]any{"chain": chainName(ch), "points": ring}, Observed: msg})
		} else if pk == "" {
			seen := map[Pt]bool{}
			_ = seen
			if conservation {
				if ok, e := conservedModuloCancellation(ring, out); !ok {
					v := hc.Violation{What: "spike removal does not conserve directed edges modulo cancellation", Input: map[string]any{"chain": chainName(ch), "points": ring}, Observed: map[string]any{"result": out, "edge": e}}
					if mv >= 3 {
						v.KnownFinding, v.What = "F5", f5What
					}
					c.Violate(v)
				}
			}
		}
		if emit {
			c.Case(kmpCaseTerm(ring, out, pk), map[string]any{"chain": chainName(ch), "points": ring, "observed": out, "panic": pk})
		}
	})
}
