package main

import (
	"fmt"

	"github.com/pdok/texel/snap"

	hc "verif/hcommon"
)

func init() { props["F5BUILD"] = runF5Build }

// runF5Build (search tool): symmetries and rotations of a constructed comb whose routed chain is A B A B A B C B A D.
func runF5Build(c *hc.Ctx) error {
	c.CorrInit("Texel.Corr.C01", "theories/Corr/C01.v", 100)
	g, _ := newSyntheticGrid(0, 16, 0, 0)
	base := [][2]float64{{0.5, 0.0625}, {1.5, 0.09375}, {0.5, 0.125}, {1.5, 0.15625}, {0.5, 0.1875}, {1.5, 0.21875}, {1.9375, 1.0625}, {1.96875, 0.03125}, {0.03125, 0.015625}, {0.03125, 1.5}}
	for sym := 0; sym < 8; sym++ {
		for rot := 0; rot < len(base); rot++ {
			var ring []Pt
			for k := range base {
				p := base[(k+rot)%len(base)]
				x, y := p[0], p[1]
				if sym&1 != 0 {
					x = 2 - x
				}
				if sym&2 != 0 {
					y = 2 - y
				}
				if sym&4 != 0 {
					x, y = y, x
				}
				ring = append(ring, Pt{int64((x + 5) * 1e10), int64((y + 5) * 1e10)})
			}
			poly := [][]Pt{ring}
			if !validPolygon(poly) {
				fmt.Println("invalid", sym, rot)
				continue
			}
			rt, _ := implRouting(g, poly, 4)
			for _, keep := range []bool{false, true} {
				r := runSnap(g, poly, []int{0}, snap.Config{KeepPointsAndLines: keep}, watchdog)
				var invented []Edge
				for _, pl := range r.ByID[0] {
					for _, rg := range pl {
						for _, e := range ringEdges(rg) {
							if !rt.isRoutedRun(e.A, e.B) {
								invented = append(invented, e)
							}
						}
					}
				}
				far := false
				scaled := scalePoly(poly, 8)
				for _, e := range invented {
					for k := int64(0); k <= 8; k++ {
						p := Pt{e.A[0]*(8-k) + e.B[0]*k, e.A[1]*(8-k) + e.B[1]*k}
						if !nearBoundary(scaled, p, 8*(g.Span(4)/2)) {
							far = true
						}
					}
				}
				if len(invented) > 0 {
					fmt.Println("FAR FROM BOUNDARY:", far)
				}
				if len(invented) > 0 || r.Panic != "" {
					fp, _ := polyToFloat(poly)
					fmt.Printf("sym=%d rot=%d keep=%v area=%d panic=%q visits=%d\n  poly=%v\n  chain=%v\n  out=%v\n  invented=%v\n", sym, rot, keep, areaSign(ring), r.Panic, rt.maxVisits(), fp, rt.Chains, r.Raw[0], invented)
				}
			}
		}
	}
	return nil
}
