package main

import (
	"math/big"
	"sort"
)

// Exact integer geometry used by the oracles (independent of the Coq model and of the implementation).

func abs64(a int64) int64 {
	if a < 0 {
		return -a
	}
	return a
}

// cmpProd returns sign(a*b - c*d), exactly.
func cmpProd(a, b, c, d int64) int {
	const lim = 1 << 31
	if abs64(a) < lim && abs64(b) < lim && abs64(c) < lim && abs64(d) < lim {
		x, y := a*b, c*d
		switch {
		case x < y:
			return -1
		case x > y:
			return 1
		}
		return 0
	}
	x := new(big.Int).Mul(big.NewInt(a), big.NewInt(b))
	y := new(big.Int).Mul(big.NewInt(c), big.NewInt(d))
	return x.Cmp(y)
}

// orient is the sign of the cross product (b-a) x (c-a): +1 = c left of ab (counter-clockwise).
func orient(a, b, c Pt) int {
	return cmpProd(b[0]-a[0], c[1]-a[1], b[1]-a[1], c[0]-a[0])
}

// properCross: the open segments ab and cd cross in a single interior point (touching and collinear overlap allowed).
func properCross(a, b, c, d Pt) bool {
	o1, o2 := orient(a, b, c), orient(a, b, d)
	o3, o4 := orient(c, d, a), orient(c, d, b)
	return o1*o2 < 0 && o3*o4 < 0
}

func onSegment(a, b, p Pt) bool {
	if orient(a, b, p) != 0 {
		return false
	}
	return min64(a[0], b[0]) <= p[0] && p[0] <= max64(a[0], b[0]) && min64(a[1], b[1]) <= p[1] && p[1] <= max64(a[1], b[1])
}

func min64(a, b int64) int64 {
	if a < b {
		return a
	}
	return b
}
func max64(a, b int64) int64 {
	if a > b {
		return a
	}
	return b
}

// segmentsIntersect: closed segments share at least one point.
func segmentsIntersect(a, b, c, d Pt) bool {
	o1, o2 := orient(a, b, c), orient(a, b, d)
	o3, o4 := orient(c, d, a), orient(c, d, b)
	if o1*o2 < 0 && o3*o4 < 0 {
		return true
	}
	return onSegment(a, b, c) || onSegment(a, b, d) || onSegment(c, d, a) || onSegment(c, d, b)
}

// area2 is twice the signed area (big, exact).
func area2(r []Pt) *big.Int {
	s := new(big.Int)
	n := len(r)
	for i := 0; i < n; i++ {
		p, q := r[(i+n-1)%n], r[i]
		t := new(big.Int).Mul(big.NewInt(p[0]), big.NewInt(q[1]))
		u := new(big.Int).Mul(big.NewInt(q[0]), big.NewInt(p[1]))
		s.Add(s, t.Sub(t, u))
	}
	return s
}

func areaSign(r []Pt) int {
	if len(r) < 3 {
		return 0
	}
	return area2(r).Sign()
}

// pointInRing: 1 inside, 0 on boundary, -1 outside (even-odd, exact).
func pointInRing(r []Pt, p Pt) int {
	n := len(r)
	inside := false
	for i := 0; i < n; i++ {
		a, b := r[i], r[(i+1)%n]
		if onSegment(a, b, p) {
			return 0
		}
		if (a[1] > p[1]) != (b[1] > p[1]) {
			// x coordinate of the edge at height p.y compared with p.x : sign of orientation
			o := orient(a, b, p)
			if b[1] < a[1] {
				o = -o
			}
			if o > 0 {
				inside = !inside
			}
		}
	}
	if inside {
		return 1
	}
	return -1
}

// ringSimple: no two non-adjacent edges share a point, adjacent edges share only their common vertex, no repeated vertex.
func ringSimple(r []Pt) bool {
	n := len(r)
	if n < 3 || areaSign(r) == 0 {
		return false
	}
	for i := 0; i < n; i++ {
		if r[i] == r[(i+1)%n] {
			return false
		}
	}
	for i := 0; i < n; i++ {
		a, b := r[i], r[(i+1)%n]
		for j := i + 1; j < n; j++ {
			c, d := r[j], r[(j+1)%n]
			adjacent := j == i+1 || (i == 0 && j == n-1)
			if adjacent {
				// share exactly one endpoint; must not overlap otherwise
				var shared, oa, ob Pt
				if j == i+1 {
					shared, oa, ob = b, a, d
				} else {
					shared, oa, ob = a, b, c
				}
				if onSegment(shared, oa, ob) || onSegment(shared, ob, oa) {
					return false
				}
				continue
			}
			if segmentsIntersect(a, b, c, d) {
				return false
			}
		}
	}
	return true
}

// validPolygon: every ring simple, holes strictly inside the shell, holes mutually disjoint (boundaries do not touch).
func validPolygon(p [][]Pt) bool {
	if len(p) == 0 {
		return false
	}
	for _, r := range p {
		if !ringSimple(r) {
			return false
		}
	}
	shell := p[0]
	for hi := 1; hi < len(p); hi++ {
		h := p[hi]
		for _, v := range h {
			if pointInRing(shell, v) != 1 {
				return false
			}
		}
		if ringsTouch(shell, h) {
			return false
		}
		for hj := hi + 1; hj < len(p); hj++ {
			if ringsTouch(h, p[hj]) {
				return false
			}
			if pointInRing(h, p[hj][0]) >= 0 || pointInRing(p[hj], h[0]) >= 0 {
				return false
			}
		}
	}
	return true
}

func ringsTouch(r, s []Pt) bool {
	for i := range r {
		a, b := r[i], r[(i+1)%len(r)]
		for j := range s {
			if segmentsIntersect(a, b, s[j], s[(j+1)%len(s)]) {
				return true
			}
		}
	}
	return false
}

type Edge struct{ A, B Pt }

func ringEdges(r []Pt) []Edge {
	n := len(r)
	if n < 2 {
		return nil
	}
	if n == 2 {
		return []Edge{{r[0], r[1]}}
	}
	es := make([]Edge, n)
	for i := 0; i < n; i++ {
		es[i] = Edge{r[i], r[(i+1)%n]}
	}
	return es
}

func polysEdges(ps [][][]Pt) []Edge {
	var es []Edge
	for _, p := range ps {
		for _, r := range p {
			es = append(es, ringEdges(r)...)
		}
	}
	return es
}

func sortPts(ps []Pt) {
	sort.Slice(ps, func(i, j int) bool {
		if ps[i][0] != ps[j][0] {
			return ps[i][0] < ps[j][0]
		}
		return ps[i][1] < ps[j][1]
	})
}

func reverseRing(r []Pt) []Pt {
	out := make([]Pt, len(r))
	for i := range r {
		out[len(r)-1-i] = r[i]
	}
	return out
}
