package main

import (
	"fmt"
	"math/bits"

	hc "verif/hcommon"

	"github.com/pdok/texel/morton"
	"github.com/pdok/texel/pointindex"
	"github.com/pdok/texel/tms20"
)

func init() { props["C17"] = runC17 }

// specInterleave is an independent bit-by-bit definition of the Z-order key.
func specInterleave(x, y uint64) uint64 {
	var z uint64
	for i := 0; i < 32; i++ {
		z |= ((x >> i) & 1) << (2 * i)
		z |= ((y >> i) & 1) << (2*i + 1)
	}
	return z
}

func runC17(c *hc.Ctx) error {
	c.CorrInit("Texel.Corr.C17", "theories/Corr/C17.v", 2000)
	c.Sum.Rule = "pairs (x,y): all one- and two-bit patterns per axis, random 32-bit, random wide (up to 64 bit), values at and above 2^32; distinct = distinct (x,y); non-trivial = x or y has >= 2 bits set or exceeds 2^32"
	c.Sum.Oracle = "on the implementation: ToZ(x,y) equals the bit-by-bit interleaving and ok iff both < 2^32; FromZ(ToZ(x,y)) = (x,y); parent key = key >> 2; FromZ equals de-interleaving on random 64-bit keys"
	c.Sum.TrustedBase = []string{"translator G1: Go AST of morton.go -> bexpr (loops with constant bounds unrolled, uint ops modulo 2^64)"}
	type pair struct{ x, y uint64 }
	var ps []pair
	for i := 0; i < 34; i++ {
		for j := 0; j < 34; j++ {
			ps = append(ps, pair{1 << i, 1 << j})
		}
	}
	for i := 0; i < 32; i++ {
		for j := i + 1; j < 32; j += 3 {
			ps = append(ps, pair{1<<i | 1<<j, 1 << ((i + j) % 32)}, pair{1 << ((i * 7) % 32), 1<<i | 1<<j})
		}
	}
	n := c.N(6000, 200000)
	if c.Search {
		n *= 20
	}
	for i := 0; i < n; i++ {
		switch i % 5 {
		case 0, 1, 2:
			ps = append(ps, pair{uint64(c.Rng.Uint32()), uint64(c.Rng.Uint32())})
		case 3:
			ps = append(ps, pair{c.Rng.Uint64() >> uint(c.Rng.Intn(40)), c.Rng.Uint64() >> uint(c.Rng.Intn(40))})
		default:
			ps = append(ps, pair{1<<32 + uint64(c.Rng.Intn(3)) - 1, uint64(c.Rng.Uint32())})
		}
	}
	ps = append(ps, pair{0, 0}, pair{1<<32 - 1, 1<<32 - 1}, pair{1 << 32, 0}, pair{0, 1 << 32}, pair{^uint64(0), ^uint64(0)})
	corrEvery := 1
	if len(ps) > c.N(8000, 60000) {
		corrEvery = len(ps)/c.N(8000, 60000) + 1
	}
	// keys must not depend on what else the process has done: a shallow and a deep index are built first (and a shallow one
	// again half-way), as a process that works on several tile matrix sets would
	for _, spec := range []struct {
		name string
		id   int
	}{{"NetherlandsRDNewQuad", 0}, {"WebMercatorQuad", 20}, {"NetherlandsRDNewQuad", 3}} {
		if t, err := loadSet(spec.name); err == nil {
			_, _ = pointindex.FromTileMatrixSet(t, spec.id)
		}
	}
	for i, p := range ps {
		if i == len(ps)/2 {
			if t, err := loadSet("NetherlandsRDNewQuad"); err == nil {
				_, _ = pointindex.FromTileMatrixSet(t, 1)
			}
		}
		c.Sum.Evaluations++
		z, ok := morton.ToZ(uint(p.x), uint(p.y))
		fits := p.x < 1<<32 && p.y < 1<<32
		key := fmt.Sprintf("%d,%d", p.x, p.y)
		if bits.OnesCount64(p.x) >= 2 || bits.OnesCount64(p.y) >= 2 || !fits {
			c.Nontrivial(key)
		}
		switch {
		case !fits:
			c.Count("above 2^32")
		case bits.OnesCount64(p.x) <= 1 && bits.OnesCount64(p.y) <= 1:
			c.Count("unit vectors")
		default:
			c.Count("multi-bit 32-bit")
		}
		if ok != fits {
			c.Violate(hc.Violation{What: "not-encodable flag wrong", Input: map[string]any{"x": p.x, "y": p.y}, Observed: ok, Expected: fits})
		}
		if fits {
			if uint64(z) != specInterleave(p.x, p.y) {
				c.Violate(hc.Violation{What: "ToZ is not the interleaving of x and y (keys collide or are not hierarchical)", Input: map[string]any{"x": p.x, "y": p.y}, Observed: uint64(z), Expected: specInterleave(p.x, p.y)})
			}
			fx, fy := morton.FromZ(z)
			if uint64(fx) != p.x || uint64(fy) != p.y {
				c.Violate(hc.Violation{What: "FromZ(ToZ(x,y)) != (x,y)", Input: map[string]any{"x": p.x, "y": p.y, "z": uint64(z)}, Observed: []uint64{uint64(fx), uint64(fy)}})
			}
			pz, _ := morton.ToZ(uint(p.x/2), uint(p.y/2))
			if uint64(pz) != uint64(z)>>2 {
				c.Violate(hc.Violation{What: "parent key is not key>>2", Input: map[string]any{"x": p.x, "y": p.y}, Observed: uint64(pz), Expected: uint64(z) >> 2})
			}
		}
		if i%corrEvery == 0 || !fits {
			c.Case(fmt.Sprintf("ToZCase %s %s %s %s", hc.CoqN(p.x), hc.CoqN(p.y), hc.CoqN(uint64(z)), hc.CoqBool(ok)),
				map[string]any{"op": "ToZ", "x": p.x, "y": p.y, "z": uint64(z), "ok": ok})
		}
		if i < 3 {
			c.Sample(map[string]any{"op": "ToZ", "x": p.x, "y": p.y, "z": uint64(z), "ok": ok})
		}
	}
	// FromZ on arbitrary 64-bit keys
	m := c.N(3000, 60000)
	for i := 0; i < m; i++ {
		var z uint64
		switch i % 3 {
		case 0:
			z = c.Rng.Uint64()
		case 1:
			z = 1 << uint(i/3%64)
		default:
			z = c.Rng.Uint64() >> uint(c.Rng.Intn(64))
		}
		c.Sum.Evaluations++
		c.Count("FromZ keys")
		x, y := morton.FromZ(uint(z))
		var ex, ey uint64
		for b := 0; b < 32; b++ {
			ex |= ((z >> (2 * b)) & 1) << b
			ey |= ((z >> (2*b + 1)) & 1) << b
		}
		c.Nontrivial(fmt.Sprintf("z%d", z))
		if uint64(x) != ex || uint64(y) != ey {
			c.Violate(hc.Violation{What: "FromZ is not the de-interleaving", Input: map[string]any{"z": z}, Observed: []uint64{uint64(x), uint64(y)}, Expected: []uint64{ex, ey}})
		}
		c.Case(fmt.Sprintf("FromZCase %s %s %s", hc.CoqN(z), hc.CoqN(uint64(x)), hc.CoqN(uint64(y))), map[string]any{"op": "FromZ", "z": z, "x": uint64(x), "y": uint64(y)})
		if i < 2 {
			c.Sample(map[string]any{"op": "FromZ", "z": z, "x": uint64(x), "y": uint64(y)})
		}
	}
	// pointindex.getQuadrantZs through the hook: the children of a pixel are the keys 4z..4z+3, and a parent whose
	// children do not fit in 32 bits is reported (panic in MustToZ), never aliased
	q := c.N(2000, 40000)
	for i := 0; i < q; i++ {
		var z uint64
		switch i % 4 {
		case 0:
			z = c.Rng.Uint64() >> uint(2*c.Rng.Intn(32))
		case 1: // a level-32 parent with a wide address
			pz, _ := morton.ToZ(uint(1<<31+c.Rng.Intn(1<<20)), uint(c.Rng.Uint32()))
			z = uint64(pz)
			if c.Rng.Intn(2) == 0 {
				pz, _ = morton.ToZ(uint(c.Rng.Uint32()), uint(1<<31+c.Rng.Intn(1<<20)))
				z = uint64(pz)
			}
		case 2:
			pz, _ := morton.ToZ(uint(c.Rng.Uint32()>>1), uint(c.Rng.Uint32()>>1))
			z = uint64(pz)
		default:
			z = c.Rng.Uint64() >> uint(c.Rng.Intn(40))
		}
		c.Sum.Evaluations++
		c.Count("getQuadrantZs parents")
		keys, panicked := quadrantZs(z)
		px, py := morton.FromZ(uint(z))
		wide := uint64(px) >= 1<<31 || uint64(py) >= 1<<31
		c.Nontrivial(fmt.Sprintf("q%d", z))
		obs := "None"
		if !panicked {
			var ks []string
			for _, k := range keys {
				ks = append(ks, hc.CoqN(k))
			}
			obs = "(Some " + hc.CoqList(ks) + ")"
		}
		switch {
		case wide && !panicked:
			c.Violate(hc.Violation{What: "children that do not fit in 32 bits are silently aliased instead of reported as not encodable", Input: map[string]any{"parent_z": z, "parent_x": uint64(px), "parent_y": uint64(py)}, Observed: keys})
		case !wide && panicked:
			c.Violate(hc.Violation{What: "getQuadrantZs panics on a parent whose children fit in 32 bits", Input: map[string]any{"parent_z": z}})
		case !wide:
			for k := 0; k < 4; k++ {
				cx, cy := 2*uint64(px)+uint64(k&1), 2*uint64(py)+uint64(k>>1)
				if keys[k] != specInterleave(cx, cy) || keys[k]>>2 != specInterleave(uint64(px), uint64(py)) {
					c.Violate(hc.Violation{What: "child key is not the key of (2x+i, 2y+j) / its parent key is not key>>2", Input: map[string]any{"parent_z": z, "child": k}, Observed: keys[k], Expected: specInterleave(cx, cy)})
				}
			}
		}
		c.Case(fmt.Sprintf("QuadCase %s %s", hc.CoqN(z), obs), map[string]any{"op": "getQuadrantZs", "z": z, "keys": keys, "panic": panicked})
	}
	// the per-level maps of the point index are keyed by MustToZ: on a grid with more than 32 levels (WebMercatorQuad
	// tile matrix 21 and deeper) an in-grid pixel whose deepest address needs 33 bits must be REPORTED (panic
	// "cannot make Z out of ..."), never stored under the key of another pixel
	if t, err := tms20.LoadEmbeddedTileMatrixSet("WebMercatorQuad"); err == nil {
		for _, id := range []int{21, 22} {
			ix, err := pointindex.FromTileMatrixSet(t, id)
			if err != nil {
				continue
			}
			_, _, deep := pointindex.VerifGrid(ix)
			if deep <= 32 {
				continue
			}
			size := uint64(1) << uint(deep)
			for k := 0; k < c.N(40, 2000); k++ {
				x, y := uint64(c.Rng.Int63n(int64(size))), uint64(c.Rng.Int63n(int64(size)))
				switch k % 4 {
				case 0:
					x = 1<<32 + uint64(c.Rng.Intn(1<<16))
					y = uint64(c.Rng.Intn(1 << 16))
				case 1:
					y = 1<<32 + uint64(c.Rng.Intn(1<<16))
				}
				wide := x >= 1<<32 || y >= 1<<32
				c.Sum.Evaluations++
				c.Count("InsertCoord on a grid deeper than level 32")
				c.Nontrivial(fmt.Sprintf("ic%d,%d,%d", id, x, y))
				panicked, msg := insertCoordPanics(t, id, int(x), int(y))
				if wide && !panicked {
					c.Violate(hc.Violation{What: "a pixel address that does not fit in 32 bits is stored in the point index without being reported (silently aliased)", Input: map[string]any{"set": "WebMercatorQuad", "tile_matrix": id, "level": deep, "x": x, "y": y}, Observed: "InsertCoord returned normally"})
				}
				if !wide && panicked {
					c.Violate(hc.Violation{What: "InsertCoord panics on an in-grid pixel whose address fits in 32 bits", Input: map[string]any{"set": "WebMercatorQuad", "tile_matrix": id, "x": x, "y": y}, Observed: msg})
				}
			}
		}
	}
	return nil
}

func insertCoordPanics(t tms20.TileMatrixSet, id int, x, y int) (panicked bool, msg string) {
	defer func() {
		if r := recover(); r != nil {
			panicked, msg = true, fmt.Sprint(r)
		}
	}()
	ix, err := pointindex.FromTileMatrixSet(t, id)
	if err != nil {
		return false, ""
	}
	if err := ix.InsertCoord(x, y); err != nil {
		return true, "error: " + err.Error() // reported as outside the grid: also "reported"
	}
	return false, ""
}

func quadrantZs(z uint64) (keys []uint64, panicked bool) {
	defer func() {
		if r := recover(); r != nil {
			keys, panicked = nil, true
		}
	}()
	for _, k := range pointindex.VerifGetQuadrantZs(uint(z)) {
		keys = append(keys, uint64(k))
	}
	return keys, false
}
