package main

import (
	"fmt"
	"math"
	"math/big"
	"reflect"
	"runtime"
	"sort"
	"sync"
	"time"

	"github.com/go-spatial/geom"
	"github.com/pdok/texel/intgeom"

	"github.com/pdok/texel/snap"

	hc "verif/hcommon"
)

const watchdog = 20 * time.Second

func init() {
	props["C01"] = runC01
	props["C04"] = runC04
	props["C18"] = runC18
	props["C05"] = runC05
	props["C07"] = runC07
	props["C08"] = runC08
	props["C09"] = runC09
}

func nVerts(poly [][]Pt) int {
	n := 0
	for _, r := range poly {
		n += len(r)
	}
	return n
}

func keyOf(g *Grid, poly [][]Pt, ids []int, cfg snap.Config) string {
	return fmt.Sprint(g.Name, poly, ids, cfg)
}

func pickGrid(c *hc.Ctx, grids []*Grid) *Grid { return grids[c.Rng.Intn(len(grids))] }

// validCase draws a valid in-grid polygon.
func validCase(c *hc.Ctx, grids []*Grid, maxW int64) (*Grid, [][]Pt, string) {
	for {
		g := pickGrid(c, grids)
		w := randWindow(c.Rng, g, maxW)
		poly, kind := genValidPolygon(c.Rng, w)
		if g.Dyadic && c.Rng.Intn(16) == 0 {
			if pp, ok := genTrapezium(c.Rng, w); ok {
				poly, kind = pp, "trapezium+hole"
			}
		} else if g.Dyadic && c.Rng.Intn(8) == 0 {
			if pp, ok := genRectilinear(c.Rng, w); ok {
				poly, kind = pp, "rectilinear"
				if len(pp) > 1 {
					kind = "rectilinear+hole"
				}
			}
		} else if g.Dyadic && c.Rng.Intn(8) == 0 {
			if pp, ok := genPinched(c.Rng, w); ok {
				poly, kind = pp, "pinched"
				if len(pp) > 1 {
					kind = "pinched+hole"
				}
			}
		}
		if !g.Dyadic { // decimal grid: nudge every ordinate to an integer whose float image reads back as itself
			ok := true
			for _, ring := range poly {
				for k := range ring {
					x, ok1 := fixRoundTrip(ring[k][0])
					y, ok2 := fixRoundTrip(ring[k][1])
					ring[k] = Pt{x, y}
					ok = ok && ok1 && ok2
				}
			}
			if !ok || !validPolygon(poly) {
				continue
			}
		}
		if g.Dyadic && g.Res >= 16 && c.Rng.Intn(5) == 0 {
			// decimal-like input: some ordinates one integer unit below (or exactly on) a pixel border, and every float
			// handed to the implementation carries a fraction of 0.6 units that FromGeomOrd truncates away
			gb := *g
			gb.Bias = true
			q := clonePoly(poly)
			for _, ring := range q {
				for k := range ring {
					if c.Rng.Intn(3) == 0 {
						ax := c.Rng.Intn(2)
						b := g.Ext[ax] + ((ring[k][ax]-g.Ext[ax]+g.Res/2)/g.Res)*g.Res // nearest pixel border
						ring[k][ax] = b - int64(c.Rng.Intn(2))
					}
				}
			}
			if gb.inGrid(q) && validPolygon(q) {
				return &gb, q, kind + "+subunit"
			}
		}
		if g.inGrid(poly) {
			return g, poly, kind
		}
	}
}

func clonePoly(p [][]Pt) [][]Pt {
	out := make([][]Pt, len(p))
	for i := range p {
		out[i] = append([]Pt{}, p[i]...)
	}
	return out
}

// collapsingCase: a valid polygon with many sub-pixel teeth, requested at a coarse tile matrix as well.
func collapsingCase(c *hc.Ctx, grids []*Grid) (*Grid, [][]Pt, string) {
	for try := 0; ; try++ {
		g := pickGrid(c, grids)
		w := randWindow(c.Rng, g, 6)
		ring := genDenseComb(c.Rng, w)
		poly := [][]Pt{ring}
		if g.inGrid(poly) && validPolygon(poly) {
			return g, poly, "dense comb"
		}
		if try > 200 {
			return validCase(c, grids, 8)
		}
	}
}

func rawCase(c *hc.Ctx, grids []*Grid, maxW int64) (*Grid, [][]Pt, string) {
	for {
		g := pickGrid(c, grids)
		w := randWindow(c.Rng, g, maxW)
		poly, kind := genRawPolygon(c.Rng, w)
		if c.Rng.Intn(3) == 0 {
			poly, kind = genValidPolygon(c.Rng, w)
		}
		if g.inGrid(poly) {
			return g, poly, kind
		}
	}
}

func unexpectedPanic(c *hc.Ctx, g *Grid, poly [][]Pt, ids []int, cfg snap.Config, r *Result) bool {
	if r.Panic == "" {
		return false
	}
	c.Violate(hc.Violation{What: "SnapPolygon panicked on an in-grid polygon: " + r.Panic, Input: caseJSON(g, poly, ids, cfg, nil), Observed: r.PanicMsg})
	return true
}

// f5Attributable: the known finding F5 (spike removal invents an edge when a routed chain passes a
// centre at least three times): (a) some routed chain visits a centre >= 3 times at this level and
// (b) the offending output edge is not a routed edge nor a straight run of consecutive routed edges.
func f5Attributable(rt *Routing, edges ...Edge) bool {
	if rt == nil || rt.maxVisits() < 3 {
		return false
	}
	for _, e := range edges {
		if !rt.isRoutedRun(e.A, e.B) {
			return true
		}
	}
	return false
}

// f16Attributable: the known finding F16 — every wrongly covered location lies in a hole that is attached to a CANCELLED
// polygon (one whose shell is also one of its holes, the other way round: dedupeInnersOuters keeps such a pair) while a
// larger polygon around it comes back without that hole.
func f16Attributable(out [][][]Pt, bad []Pt) bool {
	sameRing := func(a, b []Pt) bool {
		if len(a) != len(b) {
			return false
		}
		m := map[Pt]int{}
		for _, p := range a {
			m[p]++
		}
		for _, p := range b {
			m[p]--
		}
		for _, n := range m {
			if n != 0 {
				return false
			}
		}
		return true
	}
	for _, p := range bad {
		found := false
		for _, pl := range out {
			if len(pl) < 3 {
				continue
			}
			cancelled := false
			for _, h := range pl[1:] {
				cancelled = cancelled || sameRing(pl[0], h)
			}
			if !cancelled {
				continue
			}
			for _, h := range pl[1:] {
				if !sameRing(pl[0], h) && pointInRing(h, p) > 0 {
					found = true
				}
			}
		}
		if !found {
			return false
		}
	}
	return true
}

const f16What = "a hole that lies inside a cancelled polygon (shell = one of its holes: a C-shaped hole whose sub-pixel band collapsed) is attached to that zero-area polygon instead of the polygon around it, which comes back without the hole and covers it (F16)"

const f5What = "spike removal invents an edge when a routed chain passes a pixel centre three or more times (F5)"

// ---------------------------------------------------------------------------------------------------
// C01 — snapping never introduces crossing edges
// ---------------------------------------------------------------------------------------------------
func runC01(c *hc.Ctx) error {
	c.CorrInit("Texel.Corr.C01", "theories/Corr/C01.v", 100)
	c.Sum.Rule = "valid polygons (star, 2-opt, comb, sliver; 0-2 holes; either winding) on the quarter-pixel lattice of synthetic dyadic grids, windows 2-12 px at random quadtree alignments x random id subsets x 4 flag sets; distinct by (grid, polygon, ids, flags); non-trivial = polygon collapses somewhere (output vertex count differs from input or a ring is dropped) at some requested level"
	c.Sum.Oracle = "exact integer test: no two edges of the geometries returned for one tile matrix cross in their interiors (all edge pairs)"
	c.Sum.Partial = "on the class of C18 (no routed-and-cleaned ring passes a centre three times) 'valid input => no crossing output' is a theorem (C01_on_class: deformation argument, first contact over R + sweep lemma); beyond the class it is false in general (C01_refuted, finding F5) and is decided per polygon by this search"
	grids := syntheticGrids()
	if err := runCorpus(c, evalC01); err != nil {
		return err
	}
	n := c.N(1500, 120000)
	if c.Search {
		n *= 10
	}
	for i := 0; i < n; i++ {
		g, poly, kind := validCase(c, grids, 12)
		if i%4 == 3 { // collapse-heavy shapes: many thin teeth in few pixels (hunting F5-like inventions)
			g, poly, kind = collapsingCase(c, grids)
		}
		ids := randIDs(c.Rng, g)
		cfg := randCfg(c.Rng)
		cfg.IgnoreOutsideGrid = false
		evalC01(c, g, poly, kind, ids, cfg)
	}
	// component level: spike removal on every chain over 3 centres (length <= 10) and 4 centres (length <= 8) through
	// the hook, so that the model the theorems are about is held to the code also where chains revisit a centre often
	chainStream(c, 3, c.N(10, 12), 0, true, false)
	chainStream(c, 4, c.N(8, 9), 0, true, false)
	return nil
}

func evalC01(c *hc.Ctx, g *Grid, poly [][]Pt, kind string, ids []int, cfg snap.Config) {
	r := runSnap(g, poly, ids, cfg, watchdog)
	c.Sum.Evaluations++
	c.Count("kind " + kind)
	if collapses(g, poly, r) {
		c.Nontrivial(keyOf(g, poly, ids, cfg))
	}
	if unexpectedPanic(c, g, poly, ids, cfg, r) {
		return
	}
	for _, id := range sortedIDs(r.ByID) {
		es := polysEdges(r.ByID[id])
		for a := 0; a < len(es); a++ {
			for b := a + 1; b < len(es); b++ {
				if properCross(es[a].A, es[a].B, es[b].A, es[b].B) {
					rt, _ := implRouting(g, poly, g.Level(id))
					v := hc.Violation{What: fmt.Sprintf("two output edges cross at tile matrix %d", id), Input: caseJSON(g, poly, ids, cfg, r), Observed: []Edge{es[a], es[b]}}
					if f5Attributable(rt, es[a], es[b]) {
						v.KnownFinding, v.What = "F5", f5What
					}
					c.Violate(v)
				}
			}
		}
	}
	c.Case("SnapC ("+snapCaseTerm(g, poly, ids, cfg, r)+")", caseJSON(g, poly, ids, cfg, r))
	c.Sample(caseJSON(g, poly, ids, cfg, r))
}

// ---------------------------------------------------------------------------------------------------
// C04 — shape fidelity
// ---------------------------------------------------------------------------------------------------

// segMeetsClosedBox: the closed segment a-b meets the closed square centre c, half-size h (Chebyshev ball).
func segMeetsClosedBox(a, b, c Pt, h int64) bool {
	lo, hi := big.NewRat(0, 1), big.NewRat(1, 1)
	for ax := 0; ax < 2; ax++ {
		from, d := a[ax], b[ax]-a[ax]
		mn, mx := c[ax]-h, c[ax]+h
		if d == 0 {
			if from < mn || from > mx {
				return false
			}
			continue
		}
		t1, t2 := ratio(mn-from, d), ratio(mx-from, d)
		if t1.Cmp(t2) > 0 {
			t1, t2 = t2, t1
		}
		if t1.Cmp(lo) > 0 {
			lo = t1
		}
		if t2.Cmp(hi) < 0 {
			hi = t2
		}
	}
	return lo.Cmp(hi) <= 0
}

func nearBoundary(poly [][]Pt, p Pt, h int64) bool {
	for _, r := range poly {
		n := len(r)
		for i := range r {
			if segMeetsClosedBox(r[i], r[(i+1)%n], p, h) {
				return true
			}
		}
	}
	return false
}

func coveredInput(poly [][]Pt, p Pt) bool {
	in := false
	for _, r := range poly {
		if pointInRing(r, p) >= 0 {
			in = !in
		}
	}
	return in
}

func coveredOutput(polys [][][]Pt, p Pt) bool {
	for _, pl := range polys {
		if len(pl) == 0 || len(pl[0]) < 3 {
			continue
		}
		if pointInRing(pl[0], p) < 0 {
			continue
		}
		inHole := false
		for _, h := range pl[1:] {
			if len(h) >= 3 && pointInRing(h, p) > 0 {
				inHole = true
			}
		}
		if !inHole {
			return true
		}
	}
	return false
}

func runC04(c *hc.Ctx) error {
	c.CorrInit("Texel.Corr.C04", "theories/Corr/C04.v", 100)
	c.Sum.Rule = "valid polygons as for C01; per requested tile matrix: every output vertex, 9 sample points per output edge (in 1/8 steps, doubled coordinates) and 48 sample locations over the bounding box; distinct by (grid, polygon, ids, flags); non-trivial = collapses at some level"
	c.Sum.Oracle = "(1) every output vertex is the pixel centre of an input vertex; (2) every sampled point of every output edge is within half a pixel (Chebyshev, exact) of the input boundary; (3) sample locations farther than one pixel from the input boundary are covered by the output iff covered by the input"
	c.Sum.Partial = "clause 3 (coverage) is not a theorem (needs the planarity argument); clause 2 is a theorem for routed edges only; both are decided here by search"
	grids := syntheticGrids()
	if err := runCorpus(c, evalC04); err != nil {
		return err
	}
	n := c.N(1200, 80000)
	if c.Search {
		n *= 10
	}
	for i := 0; i < n; i++ {
		g, poly, kind := validCase(c, grids, 12)
		if i%4 == 3 {
			g, poly, kind = collapsingCase(c, grids)
		}
		ids := randIDs(c.Rng, g)
		if i%10 == 9 { // a few pixels on WebMercatorQuad at a deep tile matrix, |x| beyond 2^24 m
			if dg, dp, did, ok := deepRealCase(c.Rng); ok {
				g, poly, kind, ids = dg, dp, lastDeepKind, []int{did}
			}
		}
		if i%8 == 5 { // a C-shaped hole with a sub-pixel band around an island that has a hole of its own
			gg := pickGrid(c, grids)
			if p2, ok := genCHoleIsland(c.Rng, gg); ok {
				g, poly, kind, ids = gg, p2, "C-shaped thin hole around an island with a hole", randIDs(c.Rng, gg)
			}
		}
		if i%8 == 1 { // an island with a hole inside a thick C-shaped hole, deep on WebMercatorQuad far from the origin (F23)
			if dg, dp, did, ok := deepNestedCase(c.Rng); ok {
				g, poly, kind, ids = dg, dp, "thick C-shaped hole around an island with a hole, deep real grid far from the origin", []int{did}
			}
		}
		cfg := randCfg(c.Rng)
		cfg.IgnoreOutsideGrid = false
		evalC04(c, g, poly, kind, ids, cfg)
	}
	// component level, as for C01: "nothing is lost" depends on what spike removal keeps
	chainStream(c, 3, c.N(10, 12), 0, true, false)
	chainStream(c, 4, c.N(8, 9), 0, true, false)
	// "holes stay holes, parts stay parts" depends on ring matching: matchInnersToPolygons / ringContains / dedupe / split
	componentStream(c)
	return nil
}

func evalC04(c *hc.Ctx, g *Grid, poly [][]Pt, kind string, ids []int, cfg snap.Config) {
	r := runSnap(g, poly, ids, cfg, watchdog)
	c.Sum.Evaluations++
	c.Count("kind " + kind)
	if collapses(g, poly, r) {
		c.Nontrivial(keyOf(g, poly, ids, cfg))
	}
	if unexpectedPanic(c, g, poly, ids, cfg, r) {
		return
	}
	for _, id := range sortedIDs(r.ByID) {
		level := g.Level(id)
		span := g.Span(level)
		centres := map[Pt]bool{}
		for _, ring := range poly {
			for _, v := range ring {
				centres[g.centre(level, g.pixelOf(level, v))] = true
			}
		}
		var rt *Routing
		attribute := func(v hc.Violation, es ...Edge) {
			if rt == nil {
				rt, _ = implRouting(g, poly, level)
			}
			if f5Attributable(rt, es...) {
				v.KnownFinding, v.What = "F5", f5What
			}
			c.Violate(v)
		}
		scaled := scalePoly(poly, 8)
		for _, pl := range r.ByID[id] {
			for _, ring := range pl {
				for _, v := range ring {
					if !centres[v] {
						c.Violate(hc.Violation{What: fmt.Sprintf("output vertex is not the pixel centre of an input vertex (tile matrix %d)", id), Input: caseJSON(g, poly, ids, cfg, r), Observed: v})
					}
				}
				for _, e := range ringEdges(ring) {
					for k := int64(0); k <= 8; k++ {
						p := Pt{e.A[0]*(8-k) + e.B[0]*k, e.A[1]*(8-k) + e.B[1]*k} // coordinates scaled by 8
						if !nearBoundary(scaled, p, 8*(span/2)) {
							attribute(hc.Violation{What: fmt.Sprintf("a point of an output edge is farther than half a pixel from the input boundary (tile matrix %d)", id), Input: caseJSON(g, poly, ids, cfg, r), Observed: map[string]any{"edge": e, "k_of_8": k}}, e)
							break
						}
					}
				}
			}
		}
		// holes stay holes of THEIR part: every vertex of a returned hole lies inside or on its shell
		for _, pl := range r.ByID[id] {
			if len(pl) < 2 || len(pl[0]) < 3 {
				continue
			}
			for _, hole := range pl[1:] {
				for _, v := range hole {
					if pointInRing(pl[0], v) < 0 {
						c.Violate(hc.Violation{What: fmt.Sprintf("a returned hole is attached to a shell that does not contain it (tile matrix %d)", id), Input: caseJSON(g, poly, ids, cfg, r), Observed: map[string]any{"shell": pl[0], "hole": hole}})
						break
					}
				}
			}
		}
		minx, miny, maxx, maxy := bbox(poly)
		var bad []Pt
		// 48 random locations over the bounding box, and the middle of the bounding box of every input ring (the middle of
		// a hole is where a lost hole shows)
		var locs []Pt
		for s := 0; s < 48; s++ {
			locs = append(locs, Pt{minx - span + c.Rng.Int63n(maxx-minx+2*span+1), miny - span + c.Rng.Int63n(maxy-miny+2*span+1)})
		}
		for _, ring := range poly {
			if len(ring) >= 3 {
				x0, y0, x1, y1 := bbox([][]Pt{ring})
				locs = append(locs, Pt{(x0 + x1) / 2, (y0 + y1) / 2})
			}
		}
		for _, p := range locs {
			if nearBoundary(poly, p, span) {
				continue
			}
			if coveredInput(poly, p) != coveredOutput(r.ByID[id], p) {
				bad = append(bad, p)
			}
		}
		if len(bad) > 0 {
			v := hc.Violation{What: fmt.Sprintf("location farther than one pixel from the boundary changed coverage (tile matrix %d)", id), Input: caseJSON(g, poly, ids, cfg, r), Observed: bad}
			if f16Attributable(r.ByID[id], bad) {
				v.KnownFinding, v.What = "F16", f16What
				c.Violate(v)
			} else {
				attribute(v, polysEdges(r.ByID[id])...)
			}
		}
	}
	c.Case("SnapC ("+snapCaseTerm(g, poly, ids, cfg, r)+")", caseJSON(g, poly, ids, cfg, r))
	c.Sample(caseJSON(g, poly, ids, cfg, r))
}

func scalePoly(poly [][]Pt, k int64) [][]Pt {
	out := make([][]Pt, len(poly))
	for i, r := range poly {
		out[i] = make([]Pt, len(r))
		for j, p := range r {
			out[i][j] = Pt{p[0] * k, p[1] * k}
		}
	}
	return out
}

func bbox(poly [][]Pt) (minx, miny, maxx, maxy int64) {
	first := true
	for _, r := range poly {
		for _, p := range r {
			if first {
				minx, maxx, miny, maxy = p[0], p[0], p[1], p[1]
				first = false
			}
			minx, maxx = min64(minx, p[0]), max64(maxx, p[0])
			miny, maxy = min64(miny, p[1]), max64(maxy, p[1])
		}
	}
	return
}

// ---------------------------------------------------------------------------------------------------
// C18 — moderately collapsing polygons are reduced without inventing geometry
// ---------------------------------------------------------------------------------------------------
func runC18(c *hc.Ctx) error {
	c.CorrInit("Texel.Corr.C18", "theories/Corr/C18.v", 100)
	c.Sum.Rule = "valid polygons biased to collapse (combs, slivers, 2-opt thin shapes, holes near the shell) on synthetic dyadic grids, single tile matrix per case so that the class condition is per level; kept only if the implementation's own routed chains visit every pixel centre at most twice; distinct by (grid, polygon, id, flags); non-trivial = some centre is visited exactly twice"
	c.Sum.Oracle = "every edge of every returned ring (>= 3 vertices, or kept lines) is a routed edge or a straight run of consecutive routed edges; every hole lies inside or on its shell; signed area of the returned rings (>= 3 vertices) equals the signed area of the routed chains"
	c.Sum.Partial = "edges and signed area are proved end to end on the class (snapLevel/snapPolygon, with the whole-ring role swap and holes turned shells accounted for explicitly); that neither role change happens for a valid polygon, and the nesting clause (hole inside shell), are decided by search only"
	grids := syntheticGrids()
	n := c.N(1500, 100000)
	if c.Search {
		n *= 10
	}
	for i := 0; i < n; i++ {
		g, poly, kind := validCase(c, grids, 8)
		id := c.Rng.Intn(g.DeepestID + 1)
		ids := []int{id}
		if id != g.DeepestID {
			ids = append(ids, g.DeepestID)
		}
		if i%10 == 9 { // a few pixels on a real grid at a deep tile matrix far from the origin
			if dg, dp, did, ok := deepRealCase(c.Rng); ok {
				g, poly, kind, id, ids = dg, dp, lastDeepKind, did, []int{did}
			}
		}
		if i%12 == 7 { // rings of equal vertex count a few 1e-7 units apart (a set in small units)
			mg := microGrid()
			if mp, ok := genMicroNested(c.Rng, mg); ok {
				g, poly, kind, id = mg, mp, "micro grid (pixel 1e-7): shell, square hole and triangular hole of a few pixels", mg.DeepestID
				ids = []int{id}
			}
		}
		cfg := randCfg(c.Rng)
		cfg.IgnoreOutsideGrid = false
		level := g.Level(id)
		rt, err := implRouting(g, poly, level)
		if err != nil {
			continue
		}
		mv := rt.maxVisits()
		c.Count(fmt.Sprintf("max visits %d", mv))
		if mv > 2 {
			continue
		}
		r := runSnap(g, poly, ids, cfg, watchdog)
		c.Sum.Evaluations++
		c.Count("kind " + kind)
		if mv == 2 {
			c.Nontrivial(keyOf(g, poly, ids, cfg))
		}
		if unexpectedPanic(c, g, poly, ids, cfg, r) {
			continue
		}
		out := r.ByID[id]
		sumOut := new(big.Int)
		for _, pl := range out {
			for ri, ring := range pl {
				for _, e := range ringEdges(ring) {
					if !rt.isRoutedRun(e.A, e.B) {
						c.Violate(hc.Violation{What: "returned edge is neither a routed edge nor a straight run of routed edges although no centre is visited more than twice", Input: caseJSON(g, poly, ids, cfg, r), Observed: e})
					}
				}
				if len(ring) >= 3 {
					sumOut.Add(sumOut, area2(ring))
				}
				if ri > 0 && len(pl[0]) >= 3 {
					for _, v := range ring {
						if pointInRing(pl[0], v) < 0 {
							c.Violate(hc.Violation{What: "a hole vertex lies outside its shell", Input: caseJSON(g, poly, ids, cfg, r), Observed: v})
							break
						}
					}
				}
			}
		}
		sumIn := new(big.Int)
		for _, ch := range rt.Chains {
			sumIn.Add(sumIn, area2(ch))
		}
		// the chains follow the input rings as given; the implementation first normalises their winding
		sumNorm := new(big.Int)
		for ri, ch := range rt.Chains {
			a := area2(ch)
			in := area2(poly[ri])
			// shell counted positive, holes negative, whatever the direction they were written in
			if (ri == 0) != (in.Sign() > 0) {
				a.Neg(a)
			}
			sumNorm.Add(sumNorm, a)
		}
		if cfg.ReverseWindingOrder {
			sumNorm.Neg(sumNorm)
		}
		if sumOut.Cmp(sumNorm) != 0 {
			c.Violate(hc.Violation{What: "signed area of the returned geometry differs from the signed area of the routed boundary", Input: caseJSON(g, poly, ids, cfg, r), Observed: sumOut.String(), Expected: sumNorm.String()})
		}
		c.Case("SnapC ("+snapCaseTerm(g, poly, ids, cfg, r)+")", caseJSON(g, poly, ids, cfg, r))
		if c.Sum.Evaluations <= 3 {
			c.Sample(caseJSON(g, poly, ids, cfg, r))
		}
	}
	// component level: every chain in the class (each centre at most twice) over 4 centres (length <= 8) and
	// 5 centres up to length 9: directed edges conserved modulo cancellation by the implementation's spike removal
	chainStream(c, 4, 8, 2, true, true)
	chainStream(c, 5, c.N(8, 10), 2, !c.Quick(), true)
	return nil
}

// ---------------------------------------------------------------------------------------------------
// C05 — returned rings are well formed, correctly oriented, collapse policy respected
// ---------------------------------------------------------------------------------------------------
func checkRingsWellFormed(c *hc.Ctx, g *Grid, poly [][]Pt, ids []int, cfg snap.Config, r *Result) {
	for _, id := range sortedIDs(r.ByID) {
		pls := r.ByID[id]
		if len(pls) == 0 {
			c.Violate(hc.Violation{What: fmt.Sprintf("tile matrix %d mapped to an empty list", id), Input: caseJSON(g, poly, ids, cfg, r)})
		}
		for _, pl := range pls {
			if len(pl) == 0 {
				c.Violate(hc.Violation{What: "polygon without rings", Input: caseJSON(g, poly, ids, cfg, r)})
			}
			for ri, ring := range pl {
				bad := ""
				n := len(ring)
				switch {
				case n == 0:
					bad = "ring without vertices"
				case !cfg.KeepPointsAndLines && n < 3:
					bad = "ring with fewer than three vertices although keep-points-and-lines is off"
				case n > 1 && ring[0] == ring[n-1]:
					bad = "ring repeats its first vertex at the end"
				}
				seen := map[Pt]bool{}
				for k, v := range ring {
					if k > 0 && ring[k-1] == v && bad == "" {
						bad = "two equal consecutive vertices"
					}
					if seen[v] && bad == "" {
						bad = "ring visits a vertex twice"
					}
					seen[v] = true
				}
				if n >= 3 && bad == "" {
					s := areaSign(ring)
					want := 1
					if ri > 0 {
						want = -1
					}
					if cfg.ReverseWindingOrder {
						want = -want
					}
					if s != 0 && s != want {
						bad = fmt.Sprintf("ring %d of a polygon has the wrong orientation", ri)
					}
				}
				if bad != "" {
					c.Violate(hc.Violation{What: bad + fmt.Sprintf(" (tile matrix %d)", id), Input: caseJSON(g, poly, ids, cfg, r), Observed: ring})
				}
			}
		}
	}
}

func hasEmptyRing(poly [][]Pt) bool {
	for _, r := range poly {
		if len(r) == 0 {
			return true
		}
	}
	return false
}

// evalC05Corpus runs one committed case with its own flags and with keep-points-and-lines toggled.
func evalC05Corpus(c *hc.Ctx, g *Grid, poly [][]Pt, kind string, ids []int, cfg snap.Config) {
	for _, keep := range []bool{cfg.KeepPointsAndLines, !cfg.KeepPointsAndLines} {
		cf := cfg
		cf.KeepPointsAndLines = keep
		r := runSnap(g, poly, ids, cf, watchdog)
		c.Sum.Evaluations++
		c.Count("kind " + kind)
		if collapses(g, poly, r) {
			c.Nontrivial(keyOf(g, poly, ids, snap.Config{}))
		}
		if unexpectedPanic(c, g, poly, ids, cf, r) {
			continue
		}
		checkRingsWellFormed(c, g, poly, ids, cf, r)
		c.Case("SnapC ("+snapCaseTerm(g, poly, ids, cf, r)+")", caseJSON(g, poly, ids, cf, r))
	}
}

func runC05(c *hc.Ctx) error {
	c.CorrInit("Texel.Corr.C05", "theories/Corr/C05.v", 100)
	c.Sum.Rule = "polygons inside the grid, valid or not (raw sequences with repeats/spikes/zigzags, combs, slivers, valid shapes with holes), each run with all four combinations of keep-points-and-lines and reverse-winding-order; distinct by (grid, polygon, ids); non-trivial = collapses at some level"
	c.Sum.Oracle = "per returned ring: >= 1 vertex, first != last, no equal neighbours, no vertex twice, shell CCW / holes CW unless zero area (opposite with reverse); without keep: >= 3 vertices and no level mapped to []; with keep: every level present without it carries the same polygons as a prefix, followed by single-ring polygons of one or two vertices"
	grids := syntheticGrids()
	// committed witnesses first (corpus/C05: F14, a two-vertex line that repeated its point)
	if err := runCorpus(c, evalC05Corpus); err != nil {
		return err
	}
	n := c.N(450, 30000)
	if c.Search {
		n *= 10
	}
	for i := 0; i < n; i++ {
		g, poly, kind := rawCase(c, grids, 8)
		if i%4 == 3 { // valid polygons, a share of them with decimal-like ordinates next to pixel borders
			g, poly, kind = validCase(c, grids, 10)
		}
		if i%9 == 4 { // the same directed line walked twice: a self-touching hole given twice, two holes starting with one line
			gg := pickGrid(c, grids)
			if p2, ok := genRepeatedLines(c.Rng, gg); ok {
				g, poly, kind = gg, p2, "the same directed line walked twice (self-touching hole given twice / two holes sharing a line)"
			}
		}
		ids := randIDs(c.Rng, g)
		c.Count("kind " + kind)
		results := map[[2]bool]*Result{}
		for _, keep := range []bool{false, true} {
			for _, rev := range []bool{false, true} {
				cfg := snap.Config{KeepPointsAndLines: keep, ReverseWindingOrder: rev}
				r := runSnap(g, poly, ids, cfg, watchdog)
				c.Sum.Evaluations++
				results[[2]bool{keep, rev}] = r
				if collapses(g, poly, r) {
					c.Nontrivial(keyOf(g, poly, ids, snap.Config{}))
				}
				if unexpectedPanic(c, g, poly, ids, cfg, r) {
					continue
				}
				checkRingsWellFormed(c, g, poly, ids, cfg, r)
				c.Case("SnapC ("+snapCaseTerm(g, poly, ids, cfg, r)+")", caseJSON(g, poly, ids, cfg, r))
				if i < 1 {
					c.Sample(caseJSON(g, poly, ids, cfg, r))
				}
			}
		}
		_ = kind
		for _, rev := range []bool{false, true} {
			without, with := results[[2]bool{false, rev}], results[[2]bool{true, rev}]
			if without.Panic != "" || with.Panic != "" {
				continue
			}
			cfg := snap.Config{KeepPointsAndLines: true, ReverseWindingOrder: rev}
			for _, id := range sortedIDs(without.ByID) {
				a, b := without.ByID[id], with.ByID[id]
				ok := len(b) >= len(a) && reflect.DeepEqual(a, b[:len(a)])
				if ok {
					for _, extra := range b[len(a):] {
						if len(extra) != 1 || len(extra[0]) > 2 || len(extra[0]) == 0 {
							ok = false
						}
					}
				}
				if !ok {
					c.Violate(hc.Violation{What: fmt.Sprintf("keep-points-and-lines changed the polygons of tile matrix %d instead of only appending one- or two-vertex parts", id), Input: caseJSON(g, poly, ids, cfg, with), Expected: a, Observed: b})
				}
			}
		}
	}
	// large coordinates on a real grid (regression of F4: vertices hit twice were looked up through a float->int
	// round trip that is off by more than one unit there): WebMercatorQuad tile matrix 14 around (600000, 6800000)
	for _, wmID := range []int{14, 18, 20} {
		wm, err := embeddedGrid("WebMercatorQuad", wmID)
		if err != nil {
			continue
		}
		for i := 0; i < c.N(60, 3000); i++ {
			span := wm.Span(wm.Level(wmID))
			bx := int64(6000000000000000) + c.Rng.Int63n(1000)*span
			by := int64(68000000000000000) + c.Rng.Int63n(1000)*span
			if c.Rng.Intn(2) == 0 { // far from the origin (New Zealand): products of coordinates ~1e14
				bx = int64(194600000000000000) + c.Rng.Int63n(1000)*span
				by = int64(-50500000000000000) + c.Rng.Int63n(1000)*span
			}
			nv := 4 + c.Rng.Intn(8)
			var ring []Pt
			ok := true
			for k := 0; k < nv; k++ {
				var p Pt
				if k >= 2 && c.Rng.Intn(4) == 0 {
					p = ring[c.Rng.Intn(len(ring))] // revisit
				} else {
					x, ok1 := fixRoundTrip(bx + c.Rng.Int63n(6*span))
					y, ok2 := fixRoundTrip(by + c.Rng.Int63n(6*span))
					ok = ok && ok1 && ok2
					p = Pt{x, y}
				}
				ring = append(ring, p)
			}
			poly := [][]Pt{ring}
			if !ok || !wm.inGrid(poly) {
				continue
			}
			for _, keep := range []bool{false, true} {
				cfg := snap.Config{KeepPointsAndLines: keep, ReverseWindingOrder: c.Rng.Intn(2) == 0}
				r := runSnap(wm, poly, []int{wmID}, cfg, watchdog)
				c.Sum.Evaluations++
				c.Count(fmt.Sprintf("WebMercatorQuad id %d, large coordinates", wmID))
				if collapses(wm, poly, r) {
					c.Nontrivial(keyOf(wm, poly, []int{wmID}, cfg))
				}
				if unexpectedPanic(c, wm, poly, []int{wmID}, cfg, r) {
					continue
				}
				checkRingsWellFormed(c, wm, poly, []int{wmID}, cfg, r)
				c.Case("SnapC ("+snapCaseTerm(wm, poly, []int{wmID}, cfg, r)+")", caseJSON(wm, poly, []int{wmID}, cfg, r))
			}
		}
	}
	componentStream(c)
	return nil
}

// ---------------------------------------------------------------------------------------------------
// C07 — deterministic and independent of how the polygon is written down
// ---------------------------------------------------------------------------------------------------
func runC07(c *hc.Ctx) error {
	c.CorrInit("Texel.Corr.C07", "theories/Corr/C07.v", 100)
	c.Sum.Rule = "polygons valid or not on synthetic dyadic grids incl. equal-area shells, multi-level requests; each case is run 3x in-process (fresh Go map seeds per map), with the id list shuffled, with every ring reversed (valid polygons) and with the reverse flag toggled; batches of 8 valid cases repeated 60x from 8 goroutines at once; distinct by (grid, polygon, ids, flags); non-trivial = >= 2 levels requested or collapse"
	c.Sum.Oracle = "repeated runs return deeply equal results; shuffled/duplicated id lists return the same map; for a valid polygon any subset of rings given in the opposite direction returns identical geometry; the reverse flag returns the ring-wise reverse of rings with >= 3 vertices and leaves points and lines alone"
	c.Sum.Partial = "the float winding sign of degenerate (zero-area) INPUT rings is outside the theorem (valid polygons have non-zero area); fresh-process repetition is covered by in-process repetition only (Go randomises map iteration per map, not per process)"
	grids := syntheticGrids()
	n := c.N(700, 50000)
	if c.Search {
		n *= 10
	}
	for i := 0; i < n; i++ {
		valid := c.Rng.Intn(2) == 0
		var g *Grid
		var poly [][]Pt
		var kind string
		if valid && i%5 == 4 {
			// a tile matrix set in small units (pixel 1e-5): absolute thresholds on areas or distances would show here
			g, poly, kind = validCase(c, tinyGrids(), 10)
			kind = "tiny units " + kind
		} else if valid {
			g, poly, kind = validCase(c, grids, 10)
		} else {
			g, poly, kind = rawCase(c, grids, 8)
		}
		ids := randIDs(c.Rng, g)
		cfg := randCfg(c.Rng)
		cfg.IgnoreOutsideGrid = false
		c.Count("kind " + kind)
		r := runSnap(g, poly, ids, cfg, watchdog)
		c.Sum.Evaluations++
		if len(ids) > 1 || collapses(g, poly, r) {
			c.Nontrivial(keyOf(g, poly, ids, cfg))
		}
		if unexpectedPanic(c, g, poly, ids, cfg, r) {
			continue
		}
		for rep := 0; rep < 2; rep++ {
			ids2 := append([]int(nil), ids...)
			c.Rng.Shuffle(len(ids2), func(a, b int) { ids2[a], ids2[b] = ids2[b], ids2[a] })
			if rep == 1 {
				ids2 = append(ids2, ids2[0])
			}
			// what was snapped before must not matter: in between, another polygon is snapped with the same tile matrix
			// set and ids — one that shares vertices with this one but reaches outside the grid and is skipped
			// (ignore-outside-grid), or an ordinary one
			if other := clonePoly(poly); len(other) > 0 && len(other[0]) > 0 {
				cfgI := cfg
				if rep == 0 {
					// vertices half-way along this polygon's edges (inside pixels its edges pass through), then one outside
					ring := other[0]
					var mids []Pt
					for k := range ring {
						a, b := ring[k], ring[(k+1)%len(ring)]
						mids = append(mids, Pt{(a[0] + b[0]) / 2, (a[1] + b[1]) / 2})
					}
					mids = append(mids, Pt{g.Ext[0] - g.Res, ring[0][1]})
					other = [][]Pt{mids}
					cfgI.IgnoreOutsideGrid = true
				} else {
					other[0][0] = Pt{other[0][0][0] + g.Res, other[0][0][1]}
				}
				_ = runSnap(g, other, ids2, cfgI, watchdog)
			}
			r2 := runSnap(g, poly, ids2, cfg, watchdog)
			c.Sum.Evaluations++
			if r2.Panic != "" || !reflect.DeepEqual(r.Raw, r2.Raw) {
				c.Violate(hc.Violation{What: "the same polygon and settings returned different geometry on repetition / with the id list permuted", Input: caseJSON(g, poly, ids, cfg, r), Observed: r2.Raw})
			}
		}
		// a caller that keeps its values: the very same polygon value and id slice are handed over twice (nothing is rebuilt
		// or copied in between), and one id buffer is refilled for successive requests.  A call that writes into its
		// arguments, or keeps a reference to them for the next call, shows here.
		if reused := reusedValues(c, g, poly, ids, cfg, r); reused != "" {
			continue
		}
		if valid {
			rp := make([][]Pt, len(poly))
			for k := range poly {
				rp[k] = poly[k]
				if c.Rng.Intn(2) == 0 || len(poly) == 1 {
					rp[k] = reverseRing(poly[k])
				}
			}
			r3 := runSnap(g, rp, ids, cfg, watchdog)
			c.Sum.Evaluations++
			if r3.Panic != "" || !reflect.DeepEqual(r.Raw, r3.Raw) {
				c.Violate(hc.Violation{What: "giving rings of a valid polygon in the opposite direction changed the result", Input: caseJSON(g, poly, ids, cfg, r), Observed: map[string]any{"rings_as_given": rp, "result": r3.Raw}})
			}
		}
		cfg4 := cfg
		cfg4.ReverseWindingOrder = !cfg.ReverseWindingOrder
		r4 := runSnap(g, poly, ids, cfg4, watchdog)
		c.Sum.Evaluations++
		if r4.Panic != "" || !reverseOnly(r.ByID, r4.ByID) {
			c.Violate(hc.Violation{What: "the reverse-winding-order flag changed more than the direction of the rings", Input: caseJSON(g, poly, ids, cfg, r), Observed: r4.Raw})
		}
		c.Case("SnapC ("+snapCaseTerm(g, poly, ids, cfg, r)+")", caseJSON(g, poly, ids, cfg, r))
		if i < 3 {
			c.Sample(caseJSON(g, poly, ids, cfg, r))
		}
	}
	componentStream(c)
	concurrentRepetition(c, grids)
	bigRingsAcrossProcs(c)
	sharedIDDeterminism(c)
	// built-in sets whose CRS lists northing first (the point of origin is put in x,y order on every use): the same
	// loaded set used again and again must keep giving the same answer
	for _, name := range []string{"EuropeanETRS89_LAEAQuad", "NZTM2000Quad", "WGS1984Quad"} {
		id := 8 + c.Rng.Intn(4)
		g, err := embeddedGrid(name, id)
		if err != nil || g.Deep > 32 {
			continue
		}
		for k := 0; k < c.N(3, 40); k++ {
			size := int64(1) << g.Deep
			w := Window{G: g, X0: g.Ext[0] + (size/4+c.Rng.Int63n(size/2))*g.Res, Y0: g.Ext[1] + (size/4+c.Rng.Int63n(size/2))*g.Res, W: 4 + c.Rng.Int63n(6), Unit: max64(1, g.Res/4)}
			poly, _ := genValidPolygon(c.Rng, w)
			okRT := true
			for _, ring := range poly {
				for j := range ring {
					x, ok1 := fixRoundTrip(ring[j][0])
					y, ok2 := fixRoundTrip(ring[j][1])
					ring[j] = Pt{x, y}
					okRT = okRT && ok1 && ok2
				}
			}
			if !okRT || !validPolygon(poly) || !g.inGrid(poly) {
				continue
			}
			cfg := randCfg(c.Rng)
			cfg.IgnoreOutsideGrid = false
			first := runSnap(g, poly, []int{id}, cfg, watchdog)
			for rep := 2; rep <= 4; rep++ {
				again := runSnap(g, poly, []int{id}, cfg, watchdog)
				c.Sum.Evaluations++
				c.Count("repetition on a built-in set with a northing-first CRS")
				if again.Panic != first.Panic || !reflect.DeepEqual(first.Raw, again.Raw) {
					obs := any(again.Raw)
					if again.Panic != "" {
						obs = again.Panic + ": " + again.PanicMsg
					}
					c.Violate(hc.Violation{What: fmt.Sprintf("the same polygon and settings returned different geometry on repetition %d with the same loaded tile matrix set", rep), Input: caseJSON(g, poly, []int{id}, cfg, first), Observed: obs})
					break
				}
			}
		}
	}
	return nil
}

// bigRingsAcrossProcs: "in every process": a ring of a thousand and more vertices (a digitised circle whose segments are
// shorter than a pixel) is snapped with GOMAXPROCS 1, 2, 3 and 8, as processes on machines with other core counts
// would; work that is split by size and by the number of threads shows here.
func bigRingsAcrossProcs(c *hc.Ctx) {
	g, err := newSyntheticGrid(4, 16, 0, 0)
	if err != nil {
		return
	}
	old := runtime.GOMAXPROCS(0)
	defer runtime.GOMAXPROCS(old)
	size := int64(1) << g.Deep
	for k := 0; k < c.N(2, 12); k++ {
		n := []int{1024, 1500, 2048, 4096}[c.Rng.Intn(4)]
		cx := g.Ext[0] + (size/2)*g.Res + c.Rng.Int63n(g.Res)
		cy := g.Ext[1] + (size/2)*g.Res + c.Rng.Int63n(g.Res)
		rad := float64((size/8 + c.Rng.Int63n(size/4)) * g.Res)
		ring := make([]Pt, 0, n)
		for i := 0; i < n; i++ {
			a := 2 * math.Pi * float64(i) / float64(n)
			ring = append(ring, Pt{cx + int64(rad*math.Cos(a)), cy + int64(rad*math.Sin(a))})
		}
		poly := [][]Pt{ring}
		if !g.inGrid(poly) {
			continue
		}
		ids := []int{g.DeepestID - 2 + c.Rng.Intn(3), g.DeepestID}
		if ids[0] == ids[1] {
			ids = ids[:1]
		}
		cfg := randCfg(c.Rng)
		cfg.IgnoreOutsideGrid = false
		runtime.GOMAXPROCS(1)
		first := runSnap(g, poly, ids, cfg, watchdog)
		for _, procs := range []int{2, 3, 8} {
			runtime.GOMAXPROCS(procs)
			again := runSnap(g, poly, ids, cfg, watchdog)
			c.Sum.Evaluations++
			c.Count("ring of >= 1024 vertices repeated under another GOMAXPROCS")
			if again.Panic != first.Panic || !reflect.DeepEqual(first.Raw, again.Raw) {
				obs := any(again.Raw)
				if again.Panic != "" {
					obs = again.Panic + ": " + again.PanicMsg
				}
				c.Violate(hc.Violation{What: fmt.Sprintf("the same polygon (a ring of %d vertices) and settings returned different geometry with GOMAXPROCS=%d than with GOMAXPROCS=1", n, procs),
					Input: map[string]any{"grid": g.Name, "ring": "circle", "vertices": n, "centre": Pt{cx, cy}, "radius_units": rad, "ids": ids, "config": cfgJSON(cfg)}, Observed: obs})
				break
			}
		}
	}
}

// reusedValues: see the call site.  Returns a non-empty string after reporting a violation.
func reusedValues(c *hc.Ctx, g *Grid, poly [][]Pt, ids []int, cfg snap.Config, want *Result) string {
	fp, _ := g.toFloatPoly(poly)
	before, _ := g.toFloatPoly(poly)
	buf := append([]int(nil), ids...)
	for rep := 1; rep <= 2; rep++ {
		got := runSnapShared(g, fp, buf, cfg, watchdog)
		c.Sum.Evaluations++
		c.Count("repetition with the caller's own polygon value and id slice (nothing copied)")
		if got.Panic != want.Panic || !reflect.DeepEqual(got.Raw, want.Raw) {
			obs := any(got.Raw)
			if got.Panic != "" {
				obs = got.Panic + ": " + got.PanicMsg
			}
			what := fmt.Sprintf("the same polygon VALUE snapped again (call %d with the same slices, nothing rebuilt in between) returned different geometry", rep)
			if !reflect.DeepEqual(fp, before) {
				what += ": the call wrote into the caller's polygon"
			}
			if !reflect.DeepEqual(buf, ids) {
				what += ": the call wrote into the caller's id slice"
			}
			c.Violate(hc.Violation{What: what, Input: caseJSON(g, poly, ids, cfg, want), Observed: obs})
			return what
		}
	}
	if !reflect.DeepEqual(fp, before) || !reflect.DeepEqual(buf, ids) {
		what := "SnapPolygon wrote into its arguments (the polygon or the id slice differs after the call): the caller's next use of that value snaps another polygon"
		c.Violate(hc.Violation{What: what, Input: caseJSON(g, poly, ids, cfg, want), Observed: map[string]any{"polygon_after": fp, "ids_after": buf}})
		return what
	}
	// one id buffer refilled: first another request of the same length, then this one
	if g.DeepestID >= len(ids) && len(ids) > 0 {
		perm := c.Rng.Perm(g.DeepestID + 1)
		other := perm[:len(ids)]
		if !reflect.DeepEqual(other, ids) {
			buf2 := make([]int, len(ids)) // a buffer of its own: the calls above must not have seen it
			copy(buf2, other)
			fp2, _ := g.toFloatPoly(poly)
			_ = runSnapShared(g, fp2, buf2, cfg, watchdog)
			copy(buf2, ids)
			got := runSnapShared(g, fp2, buf2, cfg, watchdog)
			c.Sum.Evaluations++
			c.Count("id buffer refilled between two requests")
			if got.Panic != want.Panic || !reflect.DeepEqual(got.Raw, want.Raw) {
				obs := any(got.Raw)
				if got.Panic != "" {
					obs = got.Panic + ": " + got.PanicMsg
				}
				what := fmt.Sprintf("the request %v made from an id buffer that held %v for the previous request returned different geometry (or other keys) than the same request made from a fresh slice", ids, other)
				c.Violate(hc.Violation{What: what, Input: caseJSON(g, poly, ids, cfg, want), Observed: obs})
				return what
			}
		}
	}
	return ""
}

// concurrentRepetition: "in every process and on every repetition" also while other goroutines are snapping other
// polygons: a batch of cases is first run alone, then all of them repeatedly from as many goroutines at once; every
// result must be the one obtained alone (no mutable state shared between calls).
func concurrentRepetition(c *hc.Ctx, grids []*Grid) {
	type job struct {
		g    *Grid
		poly [][]Pt
		ids  []int
		cfg  snap.Config
		want *Result
	}
	batches := c.N(3, 40)
	for b := 0; b < batches; b++ {
		var jobs []job
		for len(jobs) < 8 {
			g, poly, _ := validCase(c, grids, 12)
			ids := randIDs(c.Rng, g)
			cfg := randCfg(c.Rng)
			cfg.IgnoreOutsideGrid = false
			r := runSnap(g, poly, ids, cfg, watchdog)
			if r.Panic != "" {
				continue
			}
			jobs = append(jobs, job{g, poly, ids, cfg, r})
		}
		type bad struct {
			j   int
			got *Result
		}
		bads := make(chan bad, len(jobs))
		var wg sync.WaitGroup
		for j := range jobs {
			wg.Add(1)
			go func(j int) {
				defer wg.Done()
				for rep := 0; rep < 60; rep++ {
					r := runSnap(jobs[j].g, jobs[j].poly, jobs[j].ids, jobs[j].cfg, watchdog)
					if r.Panic != "" || !reflect.DeepEqual(r.Raw, jobs[j].want.Raw) {
						bads <- bad{j, r}
						return
					}
				}
			}(j)
		}
		wg.Wait()
		close(bads)
		c.Sum.Evaluations += len(jobs) * 60
		c.Count("concurrent repetition batches (8 goroutines x 60 calls)")
		for x := range bads {
			jb := jobs[x.j]
			obs := any(x.got.Raw)
			if x.got.Panic != "" {
				obs = x.got.Panic + ": " + x.got.PanicMsg
			}
			c.Violate(hc.Violation{What: "the same polygon and settings returned different geometry while other goroutines were snapping other polygons (state shared between calls)", Input: caseJSON(jb.g, jb.poly, jb.ids, jb.cfg, jb.want), Observed: obs})
			break
		}
	}
}

func reverseOnly(a, b map[int][][][]Pt) bool {
	if len(a) != len(b) {
		return false
	}
	for id, pa := range a {
		pb, ok := b[id]
		if !ok || len(pa) != len(pb) {
			return false
		}
		for i := range pa {
			if len(pa[i]) != len(pb[i]) {
				return false
			}
			for j := range pa[i] {
				ra, rb := pa[i][j], pb[i][j]
				if len(pa[i]) == 1 && len(ra) < 3 { // points and lines are never reversed
					if !reflect.DeepEqual(ra, rb) {
						return false
					}
					continue
				}
				if !reflect.DeepEqual(ra, reverseRing(rb)) {
					return false
				}
			}
		}
	}
	return true
}

// ---------------------------------------------------------------------------------------------------
// C08 — a tile matrix's result does not depend on which others are requested
// ---------------------------------------------------------------------------------------------------
// shellFatesDiffer: requested alone (keep off), some tile matrix returns geometry while a deeper one returns nothing.
func shellFatesDiffer(g *Grid, poly [][]Pt) bool {
	present := make([]bool, g.DeepestID+1)
	for id := 0; id <= g.DeepestID; id++ {
		r := runSnap(g, poly, []int{id}, snap.Config{}, watchdog)
		if r.Panic != "" {
			return false
		}
		present[id] = len(r.Raw[id]) > 0
	}
	for id := range present {
		for id2 := id + 1; id2 < len(present); id2++ {
			if present[id] && !present[id2] {
				return true
			}
		}
	}
	return false
}

func runC08(c *hc.Ctx) error {
	c.CorrInit("Texel.Corr.C08", "theories/Corr/C08.v", 100)
	c.Sum.Rule = "polygons valid or not on round grids (synthetic dyadic grids with deepest id 1-3, round grids with an odd deepest resolution of 9765625 units; NetherlandsRDNewQuad ids 10-14 with coordinates on its 1e-10 lattice), every non-empty id subset of a random 3-element id set; distinct by (grid, polygon, flags); non-trivial = >= 2 ids and the polygon collapses at the coarsest"
	c.Sum.Oracle = "the result is keyed by requested ids only; the geometry returned for an id when requested alone is deeply equal to the geometry returned for it in every larger request"
	var grids []*Grid
	for _, g := range syntheticGrids() {
		if g.DeepestID >= 1 {
			grids = append(grids, g)
		}
	}
	n := c.N(500, 40000)
	if c.Search {
		n *= 10
	}
	sharedIDs := make([]int, 16)
	for i := 0; i < n; i++ {
		g, poly, kind := rawCase(c, grids, 8)
		if i%3 == 1 { // shapes whose shell collapses at a deep level but not at a coarser one (rejection sampled on that fate)
			for try := 0; try < 150; try++ {
				gg := pickGrid(c, grids)
				w := randWindow(c.Rng, gg, 12)
				ring := genArrowhead(c.Rng, w)
				if gg.inGrid([][]Pt{ring}) && ringSimple(ring) {
					g, poly, kind = gg, [][]Pt{ring}, "arrowhead"
					if c.Rng.Intn(3) == 0 { // with a hole-like second ring, so that later rings see the level map
						poly = append(poly, genStar(c.Rng, w, 3+c.Rng.Intn(3)))
						if !g.inGrid(poly) {
							poly = poly[:1]
						}
					}
					if shellFatesDiffer(g, poly) {
						break
					}
				}
			}
		}
		if i%5 == 4 { // round grids whose deepest resolution is an odd number of integer units
			g, poly, kind = validCase(c, oddGrids(), 10)
			kind = "odd-resolution grid: " + kind
		}
		cfg := randCfg(c.Rng)
		cfg.IgnoreOutsideGrid = false
		c.Count("kind " + kind)
		all := make([]int, g.DeepestID+1)
		for k := range all {
			all[k] = k
		}
		// single-id requests: each with its own deepest level (the grid is round, so this must not matter)
		single := map[int]*Result{}
		for _, id := range all {
			gi, err := gridFor(g.Name, g.TMS, id, true)
			if err != nil {
				return err
			}
			single[id] = runSnap(gi, poly, []int{id}, cfg, watchdog)
			c.Sum.Evaluations++
		}
		// fates per level when requested alone: present / absent
		deeperGone := false
		for _, id := range all {
			for _, id2 := range all {
				if id2 > id && single[id].Panic == "" && single[id2].Panic == "" && len(single[id].Raw[id]) > 0 && len(single[id2].Raw[id2]) == 0 {
					deeperGone = true
				}
			}
		}
		if deeperGone {
			c.Count("fates differ: present at a coarser tile matrix, absent at a deeper one")
		}
		type freshReq struct {
			g   *Grid
			ids []int
			r   *Result
		}
		var fresh []freshReq
		for mask := 1; mask < 1<<len(all); mask++ {
			var ids []int
			for k, id := range all {
				if mask&(1<<k) != 0 {
					ids = append(ids, id)
				}
			}
			gm, err := gridFor(g.Name, g.TMS, ids[len(ids)-1], true)
			if err != nil {
				return err
			}
			// the caller's id list comes from ranging over a Go map: any order, so shuffle it
			c.Rng.Shuffle(len(ids), func(a, b int) { ids[a], ids[b] = ids[b], ids[a] })
			r := runSnap(gm, poly, ids, cfg, watchdog)
			c.Sum.Evaluations++
			if len(ids) >= 2 {
				c.Nontrivial(keyOf(g, poly, ids, cfg))
			}
			if unexpectedPanic(c, gm, poly, ids, cfg, r) {
				continue
			}
			fresh = append(fresh, freshReq{gm, append([]int(nil), ids...), r})
			for id := range r.Raw {
				if !containsInt(ids, id) {
					c.Violate(hc.Violation{What: fmt.Sprintf("result contains tile matrix %d which was not requested", id), Input: caseJSON(gm, poly, ids, cfg, r)})
				}
			}
			for _, id := range ids {
				if single[id].Panic != "" {
					continue
				}
				if !reflect.DeepEqual(r.Raw[id], single[id].Raw[id]) {
					c.Violate(hc.Violation{What: fmt.Sprintf("geometry for tile matrix %d differs between the request %v and the request [%d] alone", id, ids, id), Input: caseJSON(gm, poly, ids, cfg, r), Expected: single[id].Raw[id], Observed: r.Raw[id]})
				}
			}
			if mask == 1<<len(all)-1 || c.Rng.Intn(3) == 0 {
				c.Case(snapCaseTerm(gm, poly, ids, cfg, r), caseJSON(gm, poly, ids, cfg, r))
			}
			if i < 1 && mask <= 2 {
				c.Sample(caseJSON(gm, poly, ids, cfg, r))
			}
		}
		if i%3 == 0 {
			// a caller that enumerates its requests in ONE buffer, refilled for every request (as a subset enumeration
			// does), with nothing else snapped in between: each answer must be the one the same request got from a fresh slice
			for _, fr := range fresh {
				buf := sharedIDs[:len(fr.ids)]
				copy(buf, fr.ids)
				fp, _ := fr.g.toFloatPoly(poly)
				r2 := runSnapShared(fr.g, fp, buf, cfg, watchdog)
				c.Sum.Evaluations++
				c.Count("request made from a buffer that held the previous request")
				if r2.Panic != fr.r.Panic || !reflect.DeepEqual(r2.Raw, fr.r.Raw) {
					obs := any(r2.Raw)
					if r2.Panic != "" {
						obs = r2.Panic + ": " + r2.PanicMsg
					}
					c.Violate(hc.Violation{What: fmt.Sprintf("the request %v made from an id buffer that held the previous request returned other keys or geometry than the same request made from a fresh slice", fr.ids), Input: caseJSON(fr.g, poly, fr.ids, cfg, fr.r), Observed: obs})
					break
				}
			}
		}
	}
	return nil
}

// sharedIDDeterminism: "the same polygon with the same settings returns identical geometry in every process": what a
// set returns may not depend on which OTHER set was used before in the process, also not on one that carries the same
// identifier (a copy of a set with an edited point of origin, loaded from a file).  The expected geometry comes from a copy
// of the set under an identifier used by nothing else.
func sharedIDDeterminism(c *hc.Ctx) {
	for round := 0; round < c.N(24, 400); round++ {
		gA, errA := newSyntheticGrid(2, 8, 32, 32)
		gB, errB := newSyntheticGrid(2, 8, 32.0625, 32-0.1875)
		gS, errS := newSyntheticGrid(2, 8, 32.0625, 32-0.1875)
		if errA != nil || errB != nil || errS != nil {
			return
		}
		shared := fmt.Sprintf("verif-shared-identifier-%d-%d", c.Rng.Int63(), round)
		gA.TMS.ID, gB.TMS.ID, gS.TMS.ID = shared, shared, shared+"-solo"
		gB.Name, gS.Name = gB.Name+" id=shared", gB.Name+" id=solo"
		ids := randIDs(c.Rng, gB)
		p, _ := validCaseOn(c, gB, 8)
		q, _ := validCaseOn(c, gA, 8)
		if !gA.inGrid(p) || !gB.inGrid(p) {
			continue
		}
		cfg := randCfg(c.Rng)
		cfg.IgnoreOutsideGrid = false
		want := runSnap(gS, p, ids, cfg, watchdog)
		_ = runSnap(gA, q, ids, snap.Config{IgnoreOutsideGrid: true}, watchdog)
		got := runSnap(gB, p, ids, cfg, watchdog)
		c.Sum.Evaluations += 2
		c.Count("a set used after another set with the same identifier: compared with a copy under an identifier of its own")
		if want.Panic != got.Panic || !reflect.DeepEqual(want.ByID, got.ByID) {
			c.Violate(hc.Violation{What: "the same polygon and settings returned different geometry after another tile matrix set with the same identifier had been used in the process", Input: caseJSON(gB, p, ids, cfg, got), Expected: want.ByID, Observed: got.ByID})
		}
	}
}

// sameIDSets: two tile matrix sets that carry the same identifier but lie elsewhere (a copy of a set with an edited point
// of origin), used one after the other in one process: each must be range-checked against ITS OWN extent.
func sameIDSets(c *hc.Ctx) {
	gA, errA := newSyntheticGrid(2, 8, 32, 32)
	gB, errB := newSyntheticGrid(2, 8, 32, -48)
	if errA != nil || errB != nil {
		return
	}
	gA.TMS.ID, gB.TMS.ID = "verif-shared-identifier", "verif-shared-identifier"
	gA.Name, gB.Name = gA.Name+" id=shared", gB.Name+" id=shared"
	for round := 0; round < c.N(30, 400); round++ {
		first, second := gA, gB
		if round%2 == 1 {
			first, second = gB, gA
		}
		ids := randIDs(c.Rng, first)
		pf, _ := validCaseOn(c, first, 8)
		_ = runSnap(first, pf, ids, snap.Config{}, watchdog)
		// now the other set: a polygon inside it must be snapped, one reaching outside it must be rejected
		ps, _ := validCaseOn(c, second, 8)
		cfg := randCfg(c.Rng)
		r := runSnap(second, ps, ids, cfg, watchdog)
		c.Sum.Evaluations++
		c.Count("two sets with the same identifier used one after the other")
		if r.Panic == "OutsideGrid" || (cfg.IgnoreOutsideGrid && r.Panic == "" && len(r.Raw) == 0 && nVerts(ps) >= 3 && !collapsesEverywhere(second, ps, ids, cfg)) {
			c.Violate(hc.Violation{What: "a polygon inside the extent of its tile matrix set was rejected as outside the grid after another set with the same identifier had been used", Input: caseJSON(second, ps, ids, cfg, nil), Observed: r.Panic + " " + r.PanicMsg})
			continue
		}
		// move one vertex just outside (below / left of) the second set's extent
		po := clonePoly(ps)
		if len(po) == 0 || len(po[0]) == 0 {
			continue
		}
		po[0][0] = Pt{second.Ext[0] - 1 - c.Rng.Int63n(second.Res), po[0][0][1]}
		ro := runSnap(second, po, ids, cfg, watchdog)
		c.Sum.Evaluations++
		bad := (!cfg.IgnoreOutsideGrid && ro.Panic != "OutsideGrid") || (cfg.IgnoreOutsideGrid && (ro.Panic != "" || len(ro.Raw) != 0))
		if bad {
			c.Violate(hc.Violation{What: "a polygon with a vertex outside the extent of its tile matrix set was not rejected after another set with the same identifier had been used", Input: caseJSON(second, po, ids, cfg, nil), Observed: map[string]any{"panic": ro.Panic, "result": ro.Raw}})
		}
	}
}

// collapsesEverywhere: requested with a fresh, identifier-less copy of the set the polygon returns nothing (so an empty
// result is no sign of rejection)
func collapsesEverywhere(g *Grid, poly [][]Pt, ids []int, cfg snap.Config) bool {
	t := g.TMS
	t.ID = ""
	g2 := *g
	g2.TMS = t
	r := runSnap(&g2, poly, ids, cfg, watchdog)
	return r.Panic == "" && len(r.Raw) == 0
}

// validCaseOn: a valid polygon inside the given grid
func validCaseOn(c *hc.Ctx, g *Grid, maxW int64) ([][]Pt, string) {
	for {
		w := randWindow(c.Rng, g, maxW)
		poly, kind := genValidPolygon(c.Rng, w)
		if g.inGrid(poly) && nVerts(poly) >= 3 {
			return poly, kind
		}
	}
}

func containsInt(l []int, x int) bool {
	for _, v := range l {
		if v == x {
			return true
		}
	}
	return false
}

// ---------------------------------------------------------------------------------------------------
// C09 — polygons reaching outside the grid are rejected, never silently moved
// ---------------------------------------------------------------------------------------------------
func runC09(c *hc.Ctx) error {
	c.CorrInit("Texel.Corr.C09", "theories/Corr/C09.v", 150)
	c.Sum.Rule = "polygons with exactly one vertex moved outside the extent: each of the four sides and corners x distance in {1 unit (1e-10), 1/4 px, 1/2 px, 1 px - 1 unit, 1 px, 1.6 px, 40 px} x grids with zero and non-zero origin x both values of ignore-outside-grid; plus control polygons with a vertex exactly ON each border (left/bottom belong to the grid, right/top do not); distinct by (grid, polygon, flags); non-trivial = the outside vertex is less than one deepest pixel outside"
	c.Sum.Oracle = "any vertex outside the half-open integer extent => panic OutsideGrid by default, empty result with ignore-outside-grid, and never a snapped result; all vertices inside => no OutsideGrid"
	c.Sum.Assumptions = []string{"'outside by any amount' is decided on the tool's integer coordinates (units of 1e-10): a float less than one unit outside truncates onto the border and is below the tool's resolution"}
	grids := syntheticGrids()
	// the integer extent the index is built on is the extent of the tile matrix set, computed here from the set's own
	// definition (bottom-left origin, one root tile of cellSize(0) x tileWidth) and not read back from the implementation
	for _, g := range grids {
		root := g.TMS.TileMatrices[0]
		span := root.CellSize * float64(root.TileWidth) * float64(root.MatrixWidth)
		o := *root.PointOfOrigin
		want := [4]int64{intgeom.FromGeomOrd(o[0]), intgeom.FromGeomOrd(o[1]), intgeom.FromGeomOrd(o[0] + span), intgeom.FromGeomOrd(o[1] + span)}
		c.Sum.Evaluations++
		if g.Ext != want {
			c.Violate(hc.Violation{What: "the index is not built on the extent of the tile matrix set (vertices are range-checked against a shifted extent)", Input: map[string]any{"grid": g.Name, "origin": o, "corner": "bottomLeft", "span": span}, Observed: g.Ext, Expected: want})
		}
	}
	n := c.N(1500, 60000)
	if c.Search {
		n *= 10
	}
	for i := 0; i < n; i++ {
		g := pickGrid(c, grids)
		w := randWindow(c.Rng, g, 8)
		var poly [][]Pt
		if c.Rng.Intn(2) == 0 {
			poly, _ = genValidPolygon(c.Rng, w)
		} else {
			poly, _ = genRawPolygon(c.Rng, w)
		}
		if !g.inGrid(poly) || nVerts(poly) == 0 {
			i--
			continue
		}
		size := (int64(1) << g.Deep) * g.Res
		lo := [2]int64{g.Ext[0], g.Ext[1]}
		hi := [2]int64{g.Ext[0] + size, g.Ext[1] + size} // exclusive
		dists := []int64{1, g.Res / 4, g.Res / 2, g.Res - 1, g.Res, g.Res*8/5 + 1, 40 * g.Res}
		d := dists[c.Rng.Intn(len(dists))]
		// choose the vertex and the side(s)
		ri := c.Rng.Intn(len(poly))
		for len(poly[ri]) == 0 {
			ri = c.Rng.Intn(len(poly))
		}
		vi := c.Rng.Intn(len(poly[ri]))
		mode := c.Rng.Intn(10) // 0-3 sides, 4-7 corners, 8 on-border inside, 9 on-border outside
		p := poly[ri][vi]
		outside := true
		side := ""
		switch mode {
		case 0:
			p[0], side = lo[0]-d, "left"
		case 1:
			p[0], side = hi[0]-1+d, "right"
		case 2:
			p[1], side = lo[1]-d, "bottom"
		case 3:
			p[1], side = hi[1]-1+d, "top"
		case 4:
			p[0], p[1], side = lo[0]-d, lo[1]-d, "bottom-left corner"
		case 5:
			p[0], p[1], side = hi[0]-1+d, lo[1]-d, "bottom-right corner"
		case 6:
			p[0], p[1], side = lo[0]-d, hi[1]-1+d, "top-left corner"
		case 7:
			p[0], p[1], side = hi[0]-1+d, hi[1]-1+d, "top-right corner"
		case 8:
			if c.Rng.Intn(2) == 0 {
				p[0] = lo[0]
			} else {
				p[1] = lo[1]
			}
			outside, side = false, "on the left/bottom border (inside)"
		default:
			if c.Rng.Intn(2) == 0 {
				p[0] = hi[0]
			} else {
				p[1] = hi[1]
			}
			side = "on the right/top border (outside)"
		}
		poly[ri] = append([]Pt(nil), poly[ri]...)
		poly[ri][vi] = p
		if _, ok := polyToFloat(poly); !ok {
			i--
			continue
		}
		cfg := randCfg(c.Rng)
		cfg.IgnoreOutsideGrid = c.Rng.Intn(2) == 0
		ids := randIDs(c.Rng, g)
		r := runSnap(g, poly, ids, cfg, watchdog)
		c.Sum.Evaluations++
		c.Count("side " + side)
		c.Count(fmt.Sprintf("ignore=%v", cfg.IgnoreOutsideGrid))
		if outside && d < g.Res {
			c.Nontrivial(keyOf(g, poly, ids, cfg))
		}
		switch {
		case outside && !cfg.IgnoreOutsideGrid && r.Panic != "OutsideGrid":
			c.Violate(hc.Violation{What: "a polygon with a vertex outside the grid (" + side + ") was not rejected", Input: caseJSON(g, poly, ids, cfg, r), Expected: "panic OutsideGrid"})
		case outside && cfg.IgnoreOutsideGrid && (r.Panic != "" || len(r.Raw) != 0):
			c.Violate(hc.Violation{What: "with ignore-outside-grid a polygon with a vertex outside the grid (" + side + ") did not return an empty result", Input: caseJSON(g, poly, ids, cfg, r), Expected: "empty map"})
		case !outside && r.Panic != "":
			c.Violate(hc.Violation{What: "a polygon inside the half-open extent (vertex " + side + ") panicked: " + r.Panic, Input: caseJSON(g, poly, ids, cfg, r), Observed: r.PanicMsg})
		}
		c.Case(snapCaseTerm(g, poly, ids, cfg, r), caseJSON(g, poly, ids, cfg, r))
		if i < 3 {
			c.Sample(caseJSON(g, poly, ids, cfg, r))
		}
	}
	// NON-ROUND real grids (WebMercatorQuad): the accepted region [min, min + 2^d*res) must not reach beyond the
	// extent of the tile matrix set; vertices on the right/top border of that extent, and a hair beyond, are outside
	for i := 0; i < c.N(120, 4000); i++ {
		id := 8 + c.Rng.Intn(12)
		g, err := embeddedGrid("WebMercatorQuad", id)
		if err != nil || g.Deep > 32 {
			continue
		}
		size := int64(1) << g.Deep
		inside := Pt{g.Ext[0] + (size-50-c.Rng.Int63n(1000))*g.Res, g.Ext[1] + (size-50-c.Rng.Int63n(1000))*g.Res}
		ring := []Pt{inside, {inside[0] - 30*g.Res, inside[1] + 3*g.Res}, {inside[0] - 10*g.Res, inside[1] - 25*g.Res}}
		ax := c.Rng.Intn(2)
		beyond := []int64{0, 1, g.Res / 16, g.Res / 2, g.Res}[c.Rng.Intn(5)]
		ring[0][ax] = g.Ext[ax+2] + beyond // on the (exclusive) right/top border of the extent, or beyond it
		fp := geom.Polygon{make([][2]float64, len(ring))}
		for j := range ring {
			fp[0][j] = [2]float64{float64(ring[j][0]) / 1e10, float64(ring[j][1]) / 1e10}
		}
		seen := intgeom.FromGeomPoint(fp[0][0])
		if seen[ax] < g.Ext[ax+2] {
			continue // the float image fell back inside the extent
		}
		cfg := randCfg(c.Rng)
		cfg.IgnoreOutsideGrid = c.Rng.Intn(2) == 0
		r := runSnapFloat(g, fp, []int{id}, cfg, watchdog)
		c.Sum.Evaluations++
		c.Count("on / just beyond the right or top border of a non-round extent (WebMercatorQuad)")
		c.Nontrivial(fmt.Sprint(fp, id, cfg))
		in := map[string]any{"grid": g.Name, "grid_int": map[string]any{"ext": g.Ext, "res": g.Res, "deep": g.Deep}, "ids": []int{id}, "config": cfgJSON(cfg), "polygon": fp}
		switch {
		case !cfg.IgnoreOutsideGrid && r.Panic != "OutsideGrid":
			c.Violate(hc.Violation{What: "a polygon with a vertex on or beyond the right/top border of the tile matrix set extent was not rejected", Input: in, Expected: "panic OutsideGrid", Observed: r.Panic + " " + r.PanicMsg})
		case cfg.IgnoreOutsideGrid && (r.Panic != "" || len(r.Raw) != 0):
			c.Violate(hc.Violation{What: "with ignore-outside-grid a polygon with a vertex on or beyond the right/top border of the extent did not return an empty result", Input: in, Expected: "empty map", Observed: r.Panic + " " + r.PanicMsg})
		}
	}
	// far outside: vertices whole multiples of 2^32 (and 2^31, 2^16) deepest pixels beyond a border, on a real
	// deep grid (NetherlandsRDNewQuad tile matrix 12-14: non-zero origin), where such distances fit in int64
	for i := 0; i < c.N(60, 2000); i++ {
		id := 12 + c.Rng.Intn(3)
		g, err := embeddedGrid("NetherlandsRDNewQuad", id)
		if err != nil {
			return err
		}
		size := int64(1) << g.Deep
		base := Pt{g.Ext[0] + (size/2+c.Rng.Int63n(1000))*g.Res + g.Res/2, g.Ext[1] + (size/2+c.Rng.Int63n(1000))*g.Res + g.Res/2}
		ring := []Pt{base, {base[0] + 40*g.Res, base[1]}, {base[0] + 20*g.Res, base[1] + 30*g.Res}}
		k := []int64{1 << 32, 1 << 31, 1 << 16, 3 << 32}[c.Rng.Intn(4)]
		off := k*g.Res + c.Rng.Int63n(size)*g.Res/4
		ax := c.Rng.Intn(2)
		if c.Rng.Intn(2) == 0 {
			off = -off
		}
		ring[1][ax] += off
		alias := i%3 == 2
		if alias { // the vertex right after an in-grid vertex lies in the pixel whose address differs from that vertex's
			// pixel by a whole multiple of 2^32 on one axis only: the same 32-bit-truncated key (a de-duplication or a cache
			// keyed by a key made without its ok flag takes the two for one pixel)
			// (bit 16 of the in-grid pixel address set: morton.ToZ's first spreading step folds bit 32 of an address onto it)
			kk := []int64{1 << 32, 3 << 32, -(1 << 32)}[c.Rng.Intn(3)]
			for j := range ring {
				ring[j][0] += 65536 * g.Res
				ring[j][1] += 65536 * g.Res
			}
			ring[1] = ring[0]
			ring[1][ax] += kk * g.Res
		}
		// such magnitudes do not survive the float round trip, so this stream is oracle-only (floats in, no model case)
		fp := geom.Polygon{make([][2]float64, len(ring))}
		for j := range ring {
			fp[0][j] = [2]float64{float64(ring[j][0]) / 1e10, float64(ring[j][1]) / 1e10}
		}
		seen := intgeom.FromGeomPoint(fp[0][1])
		if g.inGrid([][]Pt{{{seen[0], seen[1]}}}) {
			continue
		}
		cfg := randCfg(c.Rng)
		cfg.IgnoreOutsideGrid = c.Rng.Intn(2) == 0
		r := runSnapFloat(g, fp, []int{id}, cfg, watchdog)
		c.Sum.Evaluations++
		c.Count("far outside (multiples of 2^16..2^32 pixels), NetherlandsRDNewQuad")
		if alias {
			c.Count("far outside: the vertex after an in-grid vertex is that vertex moved by a whole multiple of 2^32 pixels (same truncated key)")
		}
		c.Nontrivial(fmt.Sprint(fp, id, cfg))
		in := map[string]any{"grid": g.Name, "ids": []int{id}, "config": cfgJSON(cfg), "polygon": fp}
		switch {
		case !cfg.IgnoreOutsideGrid && r.Panic != "OutsideGrid":
			c.Violate(hc.Violation{What: "a polygon with a vertex far outside the grid was not rejected with OutsideGrid", Input: in, Expected: "panic OutsideGrid", Observed: r.Panic + " " + r.PanicMsg})
		case cfg.IgnoreOutsideGrid && (r.Panic != "" || len(r.Raw) != 0):
			c.Violate(hc.Violation{What: "with ignore-outside-grid a polygon with a vertex far outside the grid did not return an empty result", Input: in, Expected: "empty map", Observed: r.Panic + " " + r.PanicMsg})
		}
	}
	// beyond what an int64 of 1e-10 units can hold (|ordinate| >= 9.22e8): 1e9, 1e15, 1e300, +-Inf on each side.  The
	// conversion of such a float is platform specific in Go; the property only asks that the polygon is REJECTED like any
	// other polygon with a vertex outside: OutsideGrid by default, the empty result with ignore-outside-grid.
	for i := 0; i < c.N(48, 600); i++ {
		var g *Grid
		var id int
		if i%2 == 0 {
			id = 12 + c.Rng.Intn(3)
			gg, err := embeddedGrid("NetherlandsRDNewQuad", id)
			if err != nil {
				return err
			}
			g = gg
		} else {
			g = pickGrid(c, grids)
			id = g.DeepestID
		}
		size := int64(1) << g.Deep
		bx := float64(g.Ext[0]+(size/2)*g.Res) / 1e10
		by := float64(g.Ext[1]+(size/2)*g.Res) / 1e10
		px := float64(g.Res) / 1e10
		fp := geom.Polygon{{{bx, by}, {bx + 40*px, by}, {bx + 20*px, by + 30*px}}}
		huge := []float64{1e9, 1e15, 1e300, math.Inf(1)}[c.Rng.Intn(4)]
		if c.Rng.Intn(2) == 0 {
			huge = -huge
		}
		fp[0][c.Rng.Intn(3)][c.Rng.Intn(2)] = huge
		cfg := randCfg(c.Rng)
		cfg.IgnoreOutsideGrid = i%4 < 2
		r := runSnapFloat(g, fp, []int{id}, cfg, watchdog)
		c.Sum.Evaluations++
		c.Count("beyond the int64 range of 1e-10 units (1e9 .. Inf)")
		c.Nontrivial(fmt.Sprint(fp, id, cfg))
		in := map[string]any{"grid": g.Name, "ids": []int{id}, "config": cfgJSON(cfg), "polygon": fmt.Sprint(fp)}
		switch {
		case !cfg.IgnoreOutsideGrid && r.Panic != "OutsideGrid":
			c.Violate(hc.Violation{What: "a polygon with a vertex beyond the int64 range was not rejected with OutsideGrid", Input: in, Expected: "panic OutsideGrid", Observed: r.Panic + " " + r.PanicMsg})
		case cfg.IgnoreOutsideGrid && (r.Panic != "" || len(r.Raw) != 0):
			c.Violate(hc.Violation{What: "with ignore-outside-grid a polygon with a vertex beyond the int64 range did not return an empty result", Input: in, Expected: "empty map", Observed: r.Panic + " " + r.PanicMsg})
		}
	}
	sameIDSets(c)
	return nil
}

var _ = sort.Ints
