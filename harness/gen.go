package main

import (
	"fmt"
	"math/rand"
	"sort"

	"github.com/pdok/texel/snap"
)

// Window is a square region of the grid, in deepest-level pixels, with a quarter-pixel lattice.
type Window struct {
	G      *Grid
	X0, Y0 int64 // lower-left corner, integer units
	W      int64 // width in deepest-level pixels
	Unit   int64 // lattice unit (deepest resolution / 4)
}

func (w Window) pt(i, j int64) Pt { return Pt{w.X0 + i*w.Unit, w.Y0 + j*w.Unit} }

// N is the number of lattice steps per side.
func (w Window) N() int64 { return w.W * (w.G.Res / w.Unit) }

func (w Window) randPt(r *rand.Rand) Pt {
	n := w.N()
	return w.pt(r.Int63n(n+1), r.Int63n(n+1))
}

// randWindow picks a window of 2..maxW pixels at a random quadtree alignment, strictly inside the grid.
func randWindow(r *rand.Rand, g *Grid, maxW int64) Window {
	size := int64(1) << g.Deep
	w := 2 + r.Int63n(maxW-1)
	if w > size-2 {
		w = size - 2
	}
	px := 1 + r.Int63n(size-w-1)
	py := 1 + r.Int63n(size-w-1)
	if r.Intn(3) == 0 { // straddle a coarse quadtree boundary
		px = clamp(size/2-w/2+r.Int63n(3)-1, 1, size-w-1)
	}
	if r.Intn(3) == 0 {
		py = clamp(size/2-w/2+r.Int63n(3)-1, 1, size-w-1)
	}
	unit := g.Res / 4
	if unit == 0 {
		unit = 1
	}
	return Window{G: g, X0: g.Ext[0] + px*g.Res, Y0: g.Ext[1] + py*g.Res, W: w, Unit: unit}
}

func clamp(v, lo, hi int64) int64 {
	if v < lo {
		return lo
	}
	if v > hi {
		return hi
	}
	return v
}

// angleLess orders points by angle around c (exact).
func angleLess(c, a, b Pt) bool {
	ha, hb := half(c, a), half(c, b)
	if ha != hb {
		return ha < hb
	}
	return orient(c, a, b) > 0
}

func half(c, a Pt) int {
	dx, dy := a[0]-c[0], a[1]-c[1]
	if dy > 0 || (dy == 0 && dx > 0) {
		return 0
	}
	return 1
}

// genStar: points sorted by angle around a centre.
func genStar(r *rand.Rand, w Window, n int) []Pt {
	c := w.randPt(r)
	var ps []Pt
	for len(ps) < n {
		p := w.randPt(r)
		if p != c {
			ps = append(ps, p)
		}
	}
	sort.Slice(ps, func(i, j int) bool { return angleLess(c, ps[i], ps[j]) })
	// drop points on the same ray
	out := ps[:0:0]
	for i, p := range ps {
		if i > 0 && half(c, p) == half(c, ps[i-1]) && orient(c, ps[i-1], p) == 0 {
			continue
		}
		out = append(out, p)
	}
	return out
}

// genTwoOpt: random points untangled by 2-opt moves; yields thin and pinching shapes.
func genTwoOpt(r *rand.Rand, w Window, n int) []Pt {
	ps := make([]Pt, n)
	for i := range ps {
		ps[i] = w.randPt(r)
	}
	for iter := 0; iter < 200; iter++ {
		changed := false
		for i := 0; i < n && !changed; i++ {
			for j := i + 2; j < n; j++ {
				if i == 0 && j == n-1 {
					continue
				}
				if properCross(ps[i], ps[(i+1)%n], ps[j], ps[(j+1)%n]) {
					for a, b := i+1, j; a < b; a, b = a+1, b-1 {
						ps[a], ps[b] = ps[b], ps[a]
					}
					changed = true
					break
				}
			}
		}
		if !changed {
			break
		}
	}
	return ps
}

// genComb: a comb / zigzag with sub-pixel teeth on top of a base; simple by construction.
func genComb(r *rand.Rand, w Window) []Pt {
	n := w.N()
	teeth := 2 + r.Intn(4)
	dx := 1 + r.Int63n(3) // lattice steps per half tooth (1..3 quarter pixels)
	for int64(2*teeth)*dx > n && teeth > 1 {
		teeth--
	}
	if int64(2*teeth)*dx > n {
		dx = 1
	}
	x0 := r.Int63n(max64(1, n-int64(2*teeth)*dx-1) + 1)
	yb := r.Int63n(n/2 + 1)
	h1 := yb + 1 + r.Int63n(max64(1, n/2))
	var top []Pt
	for t := 0; t <= 2*teeth; t++ {
		y := h1
		if t%2 == 1 {
			y = h1 + 1 + r.Int63n(max64(1, n-h1))
		}
		if y > n {
			y = n
		}
		top = append(top, w.pt(x0+int64(t)*dx, y))
	}
	ring := []Pt{w.pt(x0, yb), w.pt(x0+int64(2*teeth)*dx, yb)}
	for i := len(top) - 1; i >= 0; i-- {
		ring = append(ring, top[i])
	}
	return ring
}

// genSliver: a long thin quadrilateral / triangle that collapses at coarse levels.
func genSliver(r *rand.Rand, w Window) []Pt {
	a, b := w.randPt(r), w.randPt(r)
	d := Pt{b[0] - a[0], b[1] - a[1]}
	off := (1 + r.Int63n(3)) * w.Unit
	var c, e Pt
	if abs64(d[0]) > abs64(d[1]) {
		c, e = Pt{b[0], b[1] + off}, Pt{a[0], a[1] + off}
	} else {
		c, e = Pt{b[0] + off, b[1]}, Pt{a[0] + off, a[1]}
	}
	if r.Intn(2) == 0 {
		return []Pt{a, b, c}
	}
	return []Pt{a, b, c, e}
}

// genRaw: arbitrary vertex sequences incl. repeats, spikes and zigzags (invalid polygons).
func genRaw(r *rand.Rand, w Window, n int) []Pt {
	var ps []Pt
	for len(ps) < n {
		switch r.Intn(8) {
		case 0:
			if len(ps) > 0 { // repeat the previous vertex
				ps = append(ps, ps[len(ps)-1])
				continue
			}
			fallthrough
		case 1:
			if len(ps) > 1 { // spike: go back to the one before
				ps = append(ps, ps[len(ps)-2])
				continue
			}
			fallthrough
		case 2:
			if len(ps) > 2 { // revisit an earlier vertex
				ps = append(ps, ps[r.Intn(len(ps))])
				continue
			}
			fallthrough
		default:
			ps = append(ps, w.randPt(r))
		}
	}
	return ps
}

// genZigzag: a back-and-forth chain (A B A B ... ) followed by an excursion; hunts kmpDeduplicate.
func genZigzag(r *rand.Rand, w Window) []Pt {
	a, b := w.randPt(r), w.randPt(r)
	var ps []Pt
	reps := 1 + r.Intn(4)
	for i := 0; i < reps; i++ {
		ps = append(ps, a, b)
		if r.Intn(3) == 0 {
			ps = append(ps, w.randPt(r), b)
		}
	}
	for i := 0; i < 1+r.Intn(4); i++ {
		ps = append(ps, w.randPt(r))
	}
	return ps
}

// genValidPolygon returns a valid polygon (rejection sampled), with 0..2 holes.
func genValidPolygon(r *rand.Rand, w Window) ([][]Pt, string) {
	for try := 0; try < 200; try++ {
		var shell []Pt
		kind := ""
		switch r.Intn(10) {
		case 0, 1, 2:
			shell, kind = genStar(r, w, 3+r.Intn(10)), "star"
		case 3, 4, 5:
			shell, kind = genTwoOpt(r, w, 4+r.Intn(9)), "2opt"
		case 6, 7:
			shell, kind = genComb(r, w), "comb"
		case 8:
			shell, kind = genSliver(r, w), "sliver"
		default:
			shell, kind = genStar(r, w, 3+r.Intn(5)), "star"
		}
		if !ringSimple(shell) {
			continue
		}
		poly := [][]Pt{shell}
		if r.Intn(3) == 0 {
			holes := 1 + r.Intn(2)
			for h := 0; h < holes; h++ {
				for t := 0; t < 20; t++ {
					sub := w
					sub.W = max64(1, w.W/2)
					n := w.N() - sub.N()
					sub.X0 += r.Int63n(n+1) * w.Unit
					sub.Y0 += r.Int63n(n+1) * w.Unit
					hole := genStar(r, sub, 3+r.Intn(4))
					cand := append(append([][]Pt{}, poly...), hole)
					if ringSimple(hole) && validPolygon(cand) {
						poly = cand
						kind += "+hole"
						break
					}
				}
			}
		}
		if r.Intn(2) == 0 { // the implementation normalises winding; feed both directions
			for i := range poly {
				if r.Intn(2) == 0 {
					poly[i] = reverseRing(poly[i])
				}
			}
		}
		if validPolygon(poly) {
			return poly, kind
		}
	}
	w0 := w
	return [][]Pt{{w0.pt(0, 0), w0.pt(4, 0), w0.pt(0, 4)}}, "fallback"
}

// genRawPolygon: arbitrary rings (possibly invalid, short, empty).
func genRawPolygon(r *rand.Rand, w Window) ([][]Pt, string) {
	nr := 1 + r.Intn(3)
	var poly [][]Pt
	kind := "raw"
	for i := 0; i < nr; i++ {
		switch r.Intn(10) {
		case 0:
			poly = append(poly, genRaw(r, w, r.Intn(3))) // 0..2 points
		case 1, 2:
			poly = append(poly, genZigzag(r, w))
			kind = "raw+zigzag"
		case 3:
			poly = append(poly, genComb(r, w))
		case 4:
			poly = append(poly, genTwoOpt(r, w, 4+r.Intn(8)))
		default:
			poly = append(poly, genRaw(r, w, 3+r.Intn(10)))
		}
	}
	return poly, kind
}

func randCfg(r *rand.Rand) snap.Config {
	return snap.Config{KeepPointsAndLines: r.Intn(2) == 0, ReverseWindingOrder: r.Intn(2) == 0, IgnoreOutsideGrid: r.Intn(4) == 0}
}

// randIDs: a non-empty subset of 0..deepestID that contains deepestID (so that the grid is the one of g).
func randIDs(r *rand.Rand, g *Grid) []int {
	ids := []int{g.DeepestID}
	for id := 0; id < g.DeepestID; id++ {
		if r.Intn(2) == 0 {
			ids = append(ids, id)
		}
	}
	r.Shuffle(len(ids), func(i, j int) { ids[i], ids[j] = ids[j], ids[i] })
	return ids
}

// inGrid: every vertex lies inside the half-open integer extent of the grid as the implementation sees it.
func (g *Grid) inGrid(poly [][]Pt) bool {
	size := int64(1) << g.Deep
	for _, r := range poly {
		for _, p := range r {
			if p[0] < g.Ext[0] || p[1] < g.Ext[1] || (p[0]-g.Ext[0])/g.Res >= size || (p[1]-g.Ext[1])/g.Res >= size {
				return false
			}
		}
	}
	return true
}

// standard synthetic grids
func syntheticGrids() []*Grid {
	var gs []*Grid
	for _, spec := range []struct {
		d      int
		cell   float64
		ox, oy float64
	}{{0, 16, 0, 0}, {1, 8, 0, 0}, {2, 16, 0, 0}, {3, 16, 0, 0}, {1, 16, -16, -16}, {2, 8, 32, 32}, {3, 8, -64, -64}, {4, 16, 0, 0}, {2, 8, 32, -48}, {1, 16, -16, 64}} {
		g, err := newSyntheticGrid(spec.d, spec.cell, spec.ox, spec.oy)
		if err != nil {
			panic(err)
		}
		gs = append(gs, g)
	}
	return gs
}

// genDenseComb: many thin teeth whose tips and valleys fall into very few pixels of a coarse level, so that
// the routed chain passes the same centres again and again (three, four and more visits).
func genDenseComb(r *rand.Rand, w Window) []Pt {
	n := w.N()
	teeth := 3 + r.Intn(5)
	var top []Pt
	x := r.Int63n(n/2 + 1)
	yb := r.Int63n(n/3 + 1)
	ylo := yb + 1 + r.Int63n(3)
	for t := 0; t <= 2*teeth; t++ {
		y := ylo + r.Int63n(2)
		if t%2 == 1 {
			y = ylo + 2 + r.Int63n(max64(1, n-ylo-2))
		}
		if y > n {
			y = n
		}
		top = append(top, w.pt(x, y))
		x += 1 + r.Int63n(2)
		if x > n {
			x = n
		}
	}
	ring := []Pt{w.pt(top[0][0]/1*0+((top[0][0]-w.X0)/w.Unit), 0)}
	ring = []Pt{{top[0][0], w.Y0 + yb*w.Unit}, {top[len(top)-1][0], w.Y0 + yb*w.Unit}}
	for i := len(top) - 1; i >= 0; i-- {
		ring = append(ring, top[i])
	}
	return ring
}

// genArrowhead: a quadrilateral A, B, X, B2 with B and B2 in the same deepest pixel (two slivers joined in a
// vertex).  At the deepest level its shell tends to degenerate (walk A..B..X..B..A) while a coarser level may
// keep a triangle: levels then have different fates within one request.
func genArrowhead(r *rand.Rand, w Window) []Pt {
	fine := w
	fine.Unit = w.G.Res / 16
	if fine.Unit == 0 {
		fine.Unit = 1
	}
	a, x := fine.randPt(r), fine.randPt(r)
	b := fine.randPt(r)
	px := (b[0] - w.G.Ext[0]) / w.G.Res
	py := (b[1] - w.G.Ext[1]) / w.G.Res
	b2 := Pt{w.G.Ext[0] + px*w.G.Res + r.Int63n(16)*fine.Unit, w.G.Ext[1] + py*w.G.Res + r.Int63n(16)*fine.Unit}
	b1 := Pt{w.G.Ext[0] + px*w.G.Res + r.Int63n(16)*fine.Unit, w.G.Ext[1] + py*w.G.Res + r.Int63n(16)*fine.Unit}
	return []Pt{a, b1, x, b2}
}

var tinyGridsCache []*Grid

// tinyGrids: synthetic quadtree sets whose pixel measures 1e-5 or 2e-5 units (integer resolution 1e5 / 2e5),
// with a non-zero origin; coordinates are decimal, so they are used for VALID polygons only (DESIGN 4.2).
func tinyGrids() []*Grid {
	if tinyGridsCache == nil {
		for _, spec := range []struct {
			d    int
			cell float64
		}{{1, 16e-5}, {2, 32e-5}} {
			g, err := newSyntheticGrid(spec.d, spec.cell, 0, 0)
			if err != nil {
				panic(err)
			}
			g.Dyadic = false
			tinyGridsCache = append(tinyGridsCache, g)
		}
	}
	return tinyGridsCache
}

// oddGrids: ROUND synthetic quadtree sets whose deepest pixel measures an ODD number of 1e-10 units (2^-10 and 2^-11
// units = 9765625 and 4882812.5 -> the latter is not used; 2^-10 only, at deepest ids 2 and 3), so that "half a pixel"
// truncates at the deepest level and the order of halving and scaling matters at coarser ones.  Decimal, valid polygons only.
var oddGridsCache []*Grid

func oddGrids() []*Grid {
	if oddGridsCache == nil {
		for _, spec := range []struct {
			d    int
			cell float64
		}{{2, 0.015625}, {3, 0.015625}} {
			g, err := newSyntheticGrid(spec.d, spec.cell, 0, 0)
			if err != nil {
				panic(err)
			}
			g.Dyadic = false
			oddGridsCache = append(oddGridsCache, g)
		}
		// tiles whose width is not a power of two (24 pixels): the level of a tile matrix is id + floor(log2 24) + 4
		if g, err := newSyntheticGridTW(2, 1, 0, 0, 24); err == nil {
			g.Dyadic = false
			oddGridsCache = append(oddGridsCache, g)
		}
	}
	return oddGridsCache
}

// genPinched: a shell of two lobes joined by a neck narrower than a pixel (the neck collapses onto one pixel
// centre, so the snapped shell touches itself there and is split), optionally with a hole in one lobe that has a
// vertex inside the neck's pixel.  Horizontal or vertical; sixteenth-pixel lattice; rejection sampled for validity.
func genPinched(r *rand.Rand, w Window) ([][]Pt, bool) {
	u := w.G.Res / 16
	if u == 0 {
		return nil, false
	}
	px := int64(16)
	for try := 0; try < 60; try++ {
		// neck centre somewhere in the middle of the window, in sixteenth-pixel units relative to the window origin
		n := w.W * px
		if n < 6*px {
			return nil, false
		}
		nx := 2*px + r.Int63n(n-4*px)
		ny := 2*px + r.Int63n(n-4*px)
		half := 1 + r.Int63n(6) // half neck width: 1/16 .. 6/16 px
		h1 := px + r.Int63n(2*px)
		h2 := px + r.Int63n(2*px)
		w1 := px/2 + r.Int63n(2*px)
		w2 := px/2 + r.Int63n(2*px)
		// lobe B below, lobe A above the neck
		ring := []Pt{
			{nx - w2, ny - h2}, {nx + w2, ny - h2 + r.Int63n(px/2)}, {nx + half, ny}, {nx + w1, ny + h1}, {nx - w1, ny + h1 - r.Int63n(px/2)}, {nx - half, ny},
		}
		vertical := r.Intn(2) == 0
		conv := func(p Pt) Pt {
			if vertical {
				p[0], p[1] = p[1], p[0]
			}
			return Pt{w.X0 + p[0]*u, w.Y0 + p[1]*u}
		}
		shell := make([]Pt, len(ring))
		for i, p := range ring {
			shell[i] = conv(p)
		}
		if vertical { // the swap mirrors the ring: keep any winding, the implementation normalises
		}
		poly := [][]Pt{shell}
		if !ringSimple(shell) {
			continue
		}
		if r.Intn(4) != 0 {
			// hole in the lower (or upper) lobe with its first vertex close to the neck
			up := r.Intn(2) == 0
			sgn := int64(-1)
			hh, ww := h2, w2
			if up {
				sgn, hh, ww = 1, h1, w1
			}
			d := 2 + r.Int63n(px/2)
			first := Pt{nx + r.Int63n(3) - 1, ny + sgn*d}
			hole := []Pt{conv(first), conv(Pt{nx - ww/3, ny + sgn*(hh*2/3)}), conv(Pt{nx + ww/3, ny + sgn*(hh*2/3)})}
			if r.Intn(2) == 0 {
				hole = []Pt{hole[0], hole[2], hole[1]}
			}
			cand := [][]Pt{shell, hole}
			if ringSimple(hole) && validPolygon(cand) {
				poly = cand
			}
		}
		if validPolygon(poly) {
			return poly, true
		}
	}
	return nil, false
}

// genPeriodic: an adversarially repetitive ring over 2-4 far-apart lattice points: u^k followed by (reverse u)^m,
// optionally with a prefix; such words drive kmpDeduplicate's match counting (zigzags, backtraces) to its limits.
func genPeriodic(r *rand.Rand, w Window) []Pt {
	k := 2 + r.Intn(3)
	pts := make([]Pt, k)
	for i := range pts {
		pts[i] = w.randPt(r)
	}
	var ring []Pt
	if r.Intn(2) == 0 {
		ring = append(ring, pts[r.Intn(k)])
	}
	reps := 1 + r.Intn(8)
	for i := 0; i < reps; i++ {
		ring = append(ring, pts...)
	}
	back := r.Intn(7)
	for i := 0; i < back; i++ {
		for j := k - 1; j >= 0; j-- {
			ring = append(ring, pts[j])
		}
	}
	for i := r.Intn(3); i > 0; i-- {
		ring = append(ring, w.randPt(r))
	}
	return ring
}

// genRectilinear: an axis-aligned (rectilinear) shell — a histogram over pixel-aligned columns — with an optional
// rectangular hole whose sides lie on the same column lines (hole vertices exactly below vertical shell edges,
// edges along pixel borders: the degenerate cases of ray casting and of the half-open pixel rule).
func genRectilinear(r *rand.Rand, w Window) ([][]Pt, bool) {
	step := w.G.Res / w.Unit // lattice steps per pixel
	n := w.N()
	if n < 6*step {
		return nil, false
	}
	cols := 3 + r.Intn(4)
	xs := []int64{r.Int63n(step + 1)}
	for i := 0; i < cols; i++ {
		nx := xs[len(xs)-1] + step*(1+r.Int63n(2)) + r.Int63n(2)*step/2
		if nx > n {
			break
		}
		xs = append(xs, nx)
	}
	if len(xs) < 4 {
		return nil, false
	}
	base := r.Int63n(step + 1)
	minTop := base + 3*step
	if minTop+step > n {
		return nil, false
	}
	tops := make([]int64, len(xs)-1)
	for i := range tops {
		tops[i] = minTop + r.Int63n(max64(1, (n-minTop)/step+1))*step
		if tops[i] > n {
			tops[i] = n
		}
	}
	var ring []Pt
	ring = append(ring, w.pt(xs[0], base), w.pt(xs[len(xs)-1], base))
	for i := len(tops) - 1; i >= 0; i-- {
		ring = append(ring, w.pt(xs[i+1], tops[i]), w.pt(xs[i], tops[i]))
	}
	// drop duplicate consecutive points (equal tops)
	clean := ring[:0:0]
	for _, p := range ring {
		if len(clean) > 0 && clean[len(clean)-1] == p {
			continue
		}
		clean = append(clean, p)
	}
	// remove collinear middle points
	var shell []Pt
	for i, p := range clean {
		a, b := clean[(i+len(clean)-1)%len(clean)], clean[(i+1)%len(clean)]
		if orient(a, p, b) == 0 {
			continue
		}
		shell = append(shell, p)
	}
	if !ringSimple(shell) {
		return nil, false
	}
	poly := [][]Pt{shell}
	if r.Intn(3) != 0 && len(xs) >= 4 {
		i := 1 + r.Intn(len(xs)-3)
		j := i + 1 + r.Intn(len(xs)-i-2)
		y0 := base + step/2 + r.Int63n(step)
		y1 := y0 + step/2 + r.Int63n(step)
		hole := []Pt{w.pt(xs[i], y0), w.pt(xs[i], y1), w.pt(xs[j], y1), w.pt(xs[j], y0)}
		cand := [][]Pt{shell, hole}
		if validPolygon(cand) {
			poly = cand
		}
	}
	return poly, validPolygon(poly)
}

// genTrapezium: a trapezium whose two top corners lie in the pixel columns of the sides of a rectangular hole: every
// hole vertex has, exactly above it, a shell VERTEX whose two edges are both non-vertical (the ray cast of
// ringContains passes through a vertex; only the nudge to the right keeps the parity right).
func genTrapezium(r *rand.Rand, w Window) ([][]Pt, bool) {
	step := w.G.Res / w.Unit
	n := w.N()
	if step < 2 || n < 7*step {
		return nil, false
	}
	x0 := r.Int63n(step)
	x1 := x0 + step*(1+r.Int63n(2)) + r.Int63n(step)
	x2 := x1 + step*(2+r.Int63n(2))
	x3 := x2 + step*(1+r.Int63n(2)) + r.Int63n(step)
	y0 := r.Int63n(step)
	y1 := y0 + step*(4+r.Int63n(2))
	if x3 > n || y1 > n {
		return nil, false
	}
	shell := []Pt{w.pt(x0, y0), w.pt(x3, y0), w.pt(x2, y1), w.pt(x1, y1)}
	h0 := y0 + step + r.Int63n(step)
	h1 := h0 + step + r.Int63n(step)
	hole := []Pt{w.pt(x1, h0), w.pt(x1, h1), w.pt(x2, h1), w.pt(x2, h0)}
	poly := [][]Pt{shell, hole}
	return poly, validPolygon(poly)
}

// deepRealCase: a valid polygon of a few pixels on a REAL grid at a deep tile matrix far from the origin
// (WebMercatorQuad ids 17-20 around New Zealand / Western Europe): float cancellation territory.
func deepRealCase(r *rand.Rand) (*Grid, [][]Pt, int, bool) {
	id := []int{17, 18, 19, 20}[r.Intn(4)]
	name := "WebMercatorQuad"
	if r.Intn(4) == 0 { // a set whose cell sizes are written with rounded decimals (quotients of cell sizes just below a power of two)
		name, id = "EuropeanETRS89_LAEAQuad", []int{11, 14, 15}[r.Intn(3)]
	}
	g, err := embeddedGrid(name, id)
	if err != nil || g.Deep > 32 {
		return nil, nil, 0, false
	}
	ax, ay := int64(194600000000000000), int64(90000000000000000)
	if r.Intn(3) == 0 {
		ax, ay = 6000000000000000, 68000000000000000
	}
	px := (ax-g.Ext[0])/g.Res + r.Int63n(1000)
	py := (ay-g.Ext[1])/g.Res + r.Int63n(1000)
	if name != "WebMercatorQuad" {
		size := int64(1) << g.Deep
		px, py = size/4+r.Int63n(size/2), size/4+r.Int63n(size/2)
	}
	w := Window{G: g, X0: g.Ext[0] + px*g.Res, Y0: g.Ext[1] + py*g.Res, W: 3 + r.Int63n(6), Unit: max64(1, g.Res/4)}
	rect := r.Intn(2) == 0 // rectilinear shell with an aligned hole: every hole vertex exactly below a vertical shell edge
	if rect {
		w.W = 8 + r.Int63n(5)
	}
	for try := 0; try < 20; try++ {
		poly, _ := genValidPolygon(r, w)
		if rect {
			pp, okr := genRectilinear(r, w)
			if r.Intn(2) == 0 {
				pp, okr = genTrapezium(r, w)
			}
			if !okr {
				continue
			}
			poly = pp
		}
		ok := true
		for _, ring := range poly {
			for k := range ring {
				x, ok1 := fixRoundTrip(ring[k][0])
				y, ok2 := fixRoundTrip(ring[k][1])
				ring[k] = Pt{x, y}
				ok = ok && ok1 && ok2
			}
		}
		if ok && validPolygon(poly) && g.inGrid(poly) {
			lastDeepKind = "deep real grid"
			if name != "WebMercatorQuad" {
				lastDeepKind = "deep real grid " + name
			}
			if rect {
				lastDeepKind = fmt.Sprintf("deep real grid, rectilinear, %d ring(s)", len(poly))
			}
			return g, poly, id, true
		}
	}
	return nil, nil, 0, false
}

var lastDeepKind string

// genCHoleIsland: a shell, a C-shaped hole whose band is thinner than a pixel of the deepest level and whose mouth is
// narrower still (after snapping the band collapses: the hole's routed ring splits into an island outline and an equal
// ring the other way round), and a square hole inside the island enclosed by the C, more than two pixels wide, so that
// locations in it are farther than one pixel from every boundary.  Found wanting by a seeding agent's generator (F16).
func genCHoleIsland(r *rand.Rand, g *Grid) ([][]Pt, bool) {
	P := g.Res
	size := int64(1) << g.Deep
	if size < 14 || P < 64 {
		return nil, false
	}
	bx := 1 + r.Int63n(size-12)
	by := 1 + r.Int63n(size-12)
	X := func(px int64, frac int64) int64 { return g.Ext[0] + (bx+px)*P + P*frac/64 }
	Y := func(px int64, frac int64) int64 { return g.Ext[1] + (by+px)*P + P*frac/64 }
	a := 5 + r.Int63n(2)                         // the island is about a pixels wide
	in0, in1 := 20+r.Int63n(12), 20+r.Int63n(12) // inner side of the band: fraction of a pixel past the pixel border
	w := 14 + r.Int63n(10)                       // band width in 1/64 pixel (< 1/2 pixel)
	mouth := 4 + r.Int63n(6)                     // mouth width in 1/64 pixel
	mid := a * 32                                // middle of the top side, in 1/64 pixel from pixel 1
	ix0, iy0 := X(1, in0), Y(1, in1)
	ix1, iy1 := X(1+a, -in0), Y(1+a, -in1)
	ox0, oy0, ox1, oy1 := ix0-P*w/64, iy0-P*w/64, ix1+P*w/64, iy1+P*w/64
	mx0, mx1 := X(1, mid-mouth/2), X(1, mid+mouth/2+1)
	hole := []Pt{{mx0, iy1}, {ix0, iy1}, {ix0, iy0}, {ix1, iy0}, {ix1, iy1}, {mx1, iy1}, {mx1, oy1}, {ox1, oy1}, {ox1, oy0}, {ox0, oy0}, {ox0, oy1}, {mx0, oy1}}
	inset := P * (58 + r.Int63n(10)) / 64 // just under one pixel
	sq := []Pt{{ix0 + inset, iy1 - inset}, {ix0 + inset, iy0 + inset}, {ix1 - inset, iy0 + inset}, {ix1 - inset, iy1 - inset}}
	shell := []Pt{{X(1+a+1, 30+r.Int63n(30)), Y(1+a+1, 30+r.Int63n(30))}, {X(0, 0), Y(1+a+1, 35)}, {X(0, 0), Y(0, 0)}, {X(1+a+1, 35), Y(0, 0)}}
	poly := [][]Pt{shell, hole, sq}
	if !g.inGrid(poly) || !validPolygon(poly) {
		return nil, false
	}
	return poly, true
}

// genThickCIsland: a square shell of 30 pixels, a C-shaped hole with a band three pixels thick whose mouth (the neck of
// material that joins the island inside the C to the rest) is narrower than half a pixel and closes when snapped, so that
// the island becomes a polygon of its own inside the hole, and a square hole of eight pixels inside that island.  The
// square hole lies inside the shell AND inside the island: it must go to the island, the SMALLER of the two, which
// matchInnersToPolygons decides by the area order of sortPolyIdxsByOuterAreaDesc (finding F23: geomhelp.Shoelace lost
// areas of a few pixels in the rounding of raw-ordinate products far from the origin of the CRS).  (bx, by) is the pixel
// of the shell's lower left corner at the deepest level.
func genThickCIsland(r *rand.Rand, g *Grid, bx, by int64) ([][]Pt, bool) {
	P := g.Res
	if P < 64 {
		return nil, false
	}
	X := func(px int64, frac int64) int64 { return g.Ext[0] + (bx+px)*P + P*frac/64 }
	Y := func(px int64, frac int64) int64 { return g.Ext[1] + (by+px)*P + P*frac/64 }
	f := 8 + r.Int63n(48) // where in their pixels the corners lie
	o0, o1 := int64(4), int64(26)
	i0, i1 := o0+3, o1-3
	mouth := 16 + r.Int63n(12) // < 1/2 pixel, in 1/64
	mc := 14 + r.Int63n(3)     // pixel column of the neck
	mf := 4 + r.Int63n(60-mouth)
	mx0, mx1 := X(mc, mf), X(mc, mf+mouth)
	shell := []Pt{{X(0, f), Y(0, f)}, {X(30, f), Y(0, f)}, {X(30, f), Y(30, f)}, {X(0, f), Y(30, f)}}
	hole := []Pt{{mx1, Y(o1, f)}, {X(o1, f), Y(o1, f)}, {X(o1, f), Y(o0, f)}, {X(o0, f), Y(o0, f)}, {X(o0, f), Y(o1, f)}, {mx0, Y(o1, f)},
		{mx0, Y(i1, f)}, {X(i0, f), Y(i1, f)}, {X(i0, f), Y(i0, f)}, {X(i1, f), Y(i0, f)}, {X(i1, f), Y(i1, f)}, {mx1, Y(i1, f)}}
	sq := []Pt{{X(11, f), Y(11, f)}, {X(11, f), Y(19, f)}, {X(19, f), Y(19, f)}, {X(19, f), Y(11, f)}}
	poly := [][]Pt{shell, hole, sq}
	for _, ring := range poly {
		for k := range ring {
			x, ok1 := fixRoundTrip(ring[k][0])
			y, ok2 := fixRoundTrip(ring[k][1])
			if !ok1 || !ok2 {
				return nil, false
			}
			ring[k] = Pt{x, y}
		}
	}
	if !g.inGrid(poly) || !validPolygon(poly) {
		return nil, false
	}
	return poly, true
}

// deepNestedCase: genThickCIsland on WebMercatorQuad at tile matrix 18-20, tens of thousands of kilometres from the
// origin of the CRS, where the square of an ordinate has a rounding unit larger than the area of the rings
func deepNestedCase(r *rand.Rand) (*Grid, [][]Pt, int, bool) {
	id := []int{20, 20, 19, 18}[r.Intn(4)]
	g, err := embeddedGrid("WebMercatorQuad", id)
	if err != nil || g.Deep > 32 {
		return nil, nil, 0, false
	}
	size := int64(1) << g.Deep
	// anchors as fractions of the grid: (0.955, 0.908) is the witness of F23 (x 1.82e7, y 1.64e7); the others lie in the
	// other three outer corners and near the middle of the right and top sides
	fr := [][2]float64{{0.955, 0.908}, {0.955, 0.908}, {0.93, 0.07}, {0.06, 0.94}, {0.05, 0.06}, {0.97, 0.52}, {0.48, 0.96}}[r.Intn(7)]
	bx := int64(fr[0]*float64(size)) + r.Int63n(200000)
	by := int64(fr[1]*float64(size)) + r.Int63n(200000)
	if bx+40 >= size || by+40 >= size {
		return nil, nil, 0, false
	}
	for try := 0; try < 5; try++ {
		if poly, ok := genThickCIsland(r, g, bx+int64(try), by); ok {
			return g, poly, id, true
		}
	}
	return nil, nil, 0, false
}

// microGrid: a synthetic quadtree set whose deepest pixel measures 1e-7 units (degrees, say): every distance inside a
// polygon of a few pixels is far below any "reasonable" absolute tolerance (1e-6), while the pixel itself is 1000 integer
// units, so nothing is below the tool's resolution.  Decimal: valid polygons only.
var microGridCache *Grid

func microGrid() *Grid {
	if microGridCache == nil {
		g, err := newSyntheticGrid(2, 16e-7, 0, 0)
		if err != nil {
			panic(err)
		}
		g.Dyadic = false
		microGridCache = g
	}
	return microGridCache
}

// genMicroNested: on the micro grid a square shell of about eight pixels with a square hole (as many vertices as the
// shell) and a triangular hole, each several pixels wide, none collapsing: rings of equal vertex count whose
// corresponding vertices are a few 1e-7 apart, so code that compares coordinates or rings with an absolute tolerance
// takes the hole for the shell
func genMicroNested(r *rand.Rand, g *Grid) ([][]Pt, bool) {
	P := g.Res
	size := int64(1) << g.Deep
	if size < 14 {
		return nil, false
	}
	bx, by := 1+r.Int63n(size-12), 1+r.Int63n(size-12)
	f := 8 + r.Int63n(48)
	X := func(px, fr int64) int64 { return g.Ext[0] + (bx+px)*P + P*fr/64 }
	Y := func(px, fr int64) int64 { return g.Ext[1] + (by+px)*P + P*fr/64 }
	shell := []Pt{{X(0, f), Y(0, f)}, {X(9, f), Y(0, f)}, {X(9, f), Y(9, f)}, {X(0, f), Y(9, f)}}
	sq := []Pt{{X(1, f), Y(1, f)}, {X(1, f), Y(4, f)}, {X(4, f), Y(4, f)}, {X(4, f), Y(1, f)}}
	tri := []Pt{{X(5, f), Y(5, f)}, {X(6, f), Y(8, f)}, {X(8, f), Y(5, f)}}
	poly := [][]Pt{shell, sq, tri}
	if r.Intn(2) == 0 {
		poly = [][]Pt{shell, tri, sq}
	}
	for _, ring := range poly {
		for k := range ring {
			x, ok1 := fixRoundTrip(ring[k][0])
			y, ok2 := fixRoundTrip(ring[k][1])
			if !ok1 || !ok2 {
				return nil, false
			}
			ring[k] = Pt{x, y}
		}
	}
	if !g.inGrid(poly) || !validPolygon(poly) {
		return nil, false
	}
	return poly, true
}

// genRepeatedLines: an (invalid) polygon in which the same directed line is walked more than once: a hole that touches
// itself in a vertex (two triangles joined at their apex) given TWICE, or two holes that start with the same line, the
// second coming back to the end of that line.  The second walk finds everything of the first already snapped: what is
// recorded while an edge is snapped (which centres were hit, how often) must be recorded again.
func genRepeatedLines(r *rand.Rand, g *Grid) ([][]Pt, bool) {
	P := g.Res
	size := int64(1) << g.Deep
	if size < 16 {
		return nil, false
	}
	bx, by := 1+r.Int63n(size-14), 1+r.Int63n(size-14)
	f := func() int64 { return P * (4 + r.Int63n(56)) / 64 }
	at := func(px, py int64) Pt { return Pt{g.Ext[0] + (bx+px)*P + f(), g.Ext[1] + (by+py)*P + f()} }
	shell := []Pt{at(0, 0), at(12, 0), at(12, 12), at(0, 12)}
	apex := at(6, 9)
	var poly [][]Pt
	if r.Intn(2) == 0 {
		h := []Pt{apex, at(10, 4), at(8, 4), apex, at(4, 4), at(2, 4)}
		h2 := append([]Pt{}, h...)
		poly = [][]Pt{shell, h, h2}
	} else {
		b := at(10, 9)
		h1 := []Pt{apex, b, at(8, 5)}
		h2 := []Pt{apex, b, at(11, 7), at(10, 4), b, at(9, 3), at(6, 3)}
		poly = [][]Pt{shell, h1, h2}
	}
	if !g.inGrid(poly) {
		return nil, false
	}
	return poly, true
}
