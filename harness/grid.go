package main

import (
	"fmt"
	"math"
	"runtime/debug"
	"sort"
	"strconv"
	"strings"
	"time"

	"github.com/go-spatial/geom"
	"github.com/pdok/texel/intgeom"
	"github.com/pdok/texel/pointindex"
	"github.com/pdok/texel/snap"
	"github.com/pdok/texel/tms20"

	hc "verif/hcommon"
)

// Pt is an integer point in units of 1e-10 (intgeom.Point).
type Pt = [2]int64

// Grid is a tile matrix set together with the integer grid the implementation derives from it
// for a given deepest tile matrix id (read back through the verif hook, never recomputed here).
type Grid struct {
	Name      string
	TMS       tms20.TileMatrixSet
	DeepestID int
	LevelDiff uint
	Ext       [4]int64
	Res       int64
	Deep      uint
	Dyadic    bool // float arithmetic on pixel centres is exact (synthetic grids)
	// Bias: feed the implementation floats that still read back as the same integers (FromGeomOrd truncates) but
	// carry a fraction of 0.6 integer units, as decimal input data does; the model keeps the integers
	Bias bool
}

type fakeCRS struct{}

func (fakeCRS) Description() string { return "" }
func (fakeCRS) Authority() string   { return "" }
func (fakeCRS) Version() string     { return "" }
func (fakeCRS) Code() string        { return "" }

// newSyntheticGrid builds a quadtree tile matrix set like snap_test.go's newSimpleTileMatrixSet:
// tile matrices 0..deepestID, tiles of 1x1 "pixels", root matrix 1x1, so level = id + 4 and
// the internal pixel at the deepest id measures cellSize/16.
func newSyntheticGrid(deepestID int, cellSize float64, ox, oy float64) (*Grid, error) {
	return newSyntheticGridTW(deepestID, cellSize, ox, oy, 1)
}

// newSyntheticGridTW: the same with tiles of tw x tw "pixels" (tw need not be a power of two: IsQuadTree accepts such
// sets, and the level of a tile matrix is then id + floor(log2 tw) + 4 at every site that computes it)
func newSyntheticGridTW(deepestID int, cellSize float64, ox, oy float64, tw uint) (*Grid, error) {
	origin := tms20.TwoDPoint([2]float64{ox, oy})
	t := tms20.TileMatrixSet{CRS: fakeCRS{}, OrderedAxes: []string{"X", "Y"}, TileMatrices: map[tms20.TMID]tms20.TileMatrix{}}
	for id := 0; id <= deepestID; id++ {
		cs := cellSize * float64(uint(1)<<uint(deepestID-id))
		t.TileMatrices[id] = tms20.TileMatrix{ID: strconv.Itoa(id), ScaleDenominator: cs / tms20.StandardizedRenderingPixelSize,
			CellSize: cs, CornerOfOrigin: tms20.BottomLeft, PointOfOrigin: &origin, TileWidth: tw, TileHeight: tw, MatrixWidth: 1, MatrixHeight: 1}
	}
	name := fmt.Sprintf("synthetic(d=%d,cell=%g,origin=%g,%g)", deepestID, cellSize, ox, oy)
	if tw != 1 {
		name += fmt.Sprintf(",tilewidth=%d", tw)
	}
	return gridFor(name, t, deepestID, true)
}

func gridFor(name string, t tms20.TileMatrixSet, deepestID int, dyadic bool) (*Grid, error) {
	ix, err := pointindex.FromTileMatrixSet(t, deepestID)
	if err != nil {
		return nil, err
	}
	ext, res, deep := pointindex.VerifGrid(ix)
	root := t.TileMatrices[0]
	ld := uint(math.Log2(float64(root.TileWidth))) + uint(math.Log2(float64(pointindex.VectorTileInternalPixelResolution)))
	return &Grid{Name: name, TMS: t, DeepestID: deepestID, LevelDiff: ld, Ext: [4]int64{ext[0], ext[1], ext[2], ext[3]}, Res: res, Deep: uint(deep), Dyadic: dyadic}, nil
}

func embeddedGrid(name string, deepestID int) (*Grid, error) {
	t, err := tms20.LoadEmbeddedTileMatrixSet(name)
	if err != nil {
		return nil, err
	}
	return gridFor(name, t, deepestID, false)
}

func (g *Grid) Level(id int) uint { return uint(id) + g.LevelDiff }

// Span is the integer pixel size at a level.
func (g *Grid) Span(level uint) int64 { return (int64(1) << (g.Deep - level)) * g.Res }

func (g *Grid) CoqTerm() string {
	return fmt.Sprintf("(mkGrid (mkExtent %s %s %s %s) %s %d)", hc.CoqZ(g.Ext[0]), hc.CoqZ(g.Ext[1]), hc.CoqZ(g.Ext[2]), hc.CoqZ(g.Ext[3]), hc.CoqZ(g.Res), g.Deep)
}

// toFloat converts an integer ordinate to the float the implementation will read back as the same integer.
func toFloat(o int64) (float64, bool) {
	f := intgeom.ToGeomOrd(o)
	if intgeom.FromGeomOrd(f) == o {
		return f, true
	}
	// large magnitudes (beyond 2^53 units): walk the neighbouring floats
	up, down := f, f
	for i := 0; i < 16; i++ {
		up = math.Nextafter(up, math.Inf(1))
		if intgeom.FromGeomOrd(up) == o {
			return up, true
		}
		down = math.Nextafter(down, math.Inf(-1))
		if intgeom.FromGeomOrd(down) == o {
			return down, true
		}
	}
	return f, false
}

func ringToFloat(r []Pt) ([][2]float64, bool) {
	out := make([][2]float64, len(r))
	ok := true
	for i, p := range r {
		x, okx := toFloat(p[0])
		y, oky := toFloat(p[1])
		out[i] = [2]float64{x, y}
		ok = ok && okx && oky
	}
	return out, ok
}

func polyToFloat(p [][]Pt) (geom.Polygon, bool) {
	out := make(geom.Polygon, len(p))
	ok := true
	for i, r := range p {
		fr, o := ringToFloat(r)
		out[i] = fr
		ok = ok && o
	}
	return out, ok
}

func (g *Grid) toFloatPoly(p [][]Pt) (geom.Polygon, bool) {
	if g.Bias {
		return polyToFloatBias(p)
	}
	return polyToFloat(p)
}

// polyToFloatBias: as polyToFloat, but every ordinate gets 0.6 integer units of fraction where a float with that
// fraction exists and truncates back to the same integer.
func polyToFloatBias(p [][]Pt) (geom.Polygon, bool) {
	out, ok := polyToFloat(p)
	for i := range out {
		for j := range out[i] {
			for ax := 0; ax < 2; ax++ {
				o := p[i][j][ax]
				f := (float64(o) + 0.6) / 1e10
				if o < 0 {
					f = (float64(o) - 0.6) / 1e10 // truncation is toward zero
				}
				if intgeom.FromGeomOrd(f) == o {
					out[i][j][ax] = f
				}
			}
		}
	}
	return out, ok
}

// centreOf maps a returned float back to the unique integer pixel centre c of the level with ToGeomOrd(c) == f.
func (g *Grid) centreOf(level uint, axis int, f float64) (int64, bool) {
	span := g.Span(level)
	min := g.Ext[axis]
	c0 := int64(math.Round(f * 1e10))
	k := (c0 - min) / span
	var found int64
	n := 0
	for dk := int64(-1); dk <= 1; dk++ {
		c := min + (k+dk)*span + span/2
		if intgeom.ToGeomOrd(c) == f {
			found = c
			n++
		}
	}
	return found, n == 1
}

// Result of one call of snap.SnapPolygon.
type Result struct {
	Panic     string // "" | OutsideGrid | NoPointsFound | PartialRingsOnStack | IndexOutOfRange | SliceBounds | Hang | Other
	PanicMsg  string
	Raw       map[int][]geom.Polygon
	ByID      map[int][][][]Pt // integer pixel centres
	NotCentre []string         // returned floats that are not the image of a pixel centre
	Dur       time.Duration
	Stack     string // goroutine stack at the panic
}

func classifyPanic(r any) (string, string) {
	msg := fmt.Sprint(r)
	if _, ok := r.(pointindex.OutsideGridError); ok {
		return "OutsideGrid", msg
	}
	if e, ok := r.(error); ok {
		var og pointindex.OutsideGridError
		if asOG(e, &og) {
			return "OutsideGrid", msg
		}
	}
	switch {
	case strings.Contains(msg, "outside the grid"):
		return "OutsideGrid", msg
	case strings.HasPrefix(msg, "no points found"):
		return "NoPointsFound", msg
	case strings.HasPrefix(msg, "reached end of ring with stack length"):
		return "PartialRingsOnStack", msg
	case strings.Contains(msg, "index out of range"):
		return "IndexOutOfRange", msg
	case strings.Contains(msg, "slice bounds out of range"):
		return "SliceBounds", msg
	case strings.Contains(msg, "divide by zero"):
		return "DivZero", msg
	case strings.Contains(msg, "cannot make Z"):
		return "MustToZ", msg
	}
	return "Other", msg
}

func asOG(e error, target *pointindex.OutsideGridError) bool {
	for e != nil {
		if og, ok := e.(pointindex.OutsideGridError); ok {
			*target = og
			return true
		}
		u, ok := e.(interface{ Unwrap() error })
		if !ok {
			return false
		}
		e = u.Unwrap()
	}
	return false
}

// runSnap calls the implementation with panic recovery and a watchdog.
func runSnap(g *Grid, poly [][]Pt, ids []int, cfg snap.Config, timeout time.Duration) *Result {
	fp, _ := g.toFloatPoly(poly)
	skippedPolygonBefore(g, poly, ids, cfg, timeout)
	return runSnapFloat(g, fp, ids, cfg, timeout)
}

// skippedPolygonBefore: what was snapped before must not matter to ANY property.  Before one call in four (chosen by the
// polygon itself, not by the random stream) another polygon is snapped with the same tile matrix set, ids and settings:
// its vertices lie half-way along this polygon's edges (inside pixels these edges pass through) and its last vertex lies
// outside the grid, so that with ignore-outside-grid it is skipped after its other vertices were looked at.  State that
// survives a call (a reused index, a cache, a pool) then shows as vertices, routes or shapes this polygon does not have.
func skippedPolygonBefore(g *Grid, poly [][]Pt, ids []int, cfg snap.Config, timeout time.Duration) {
	if len(poly) == 0 || len(poly[0]) < 2 {
		return
	}
	var h uint64 = 1469598103934665603
	for _, r := range poly {
		for _, p := range r {
			h = (h ^ uint64(p[0])) * 1099511628211
			h = (h ^ uint64(p[1])) * 1099511628211
		}
	}
	if h%4 != 0 {
		return
	}
	ring := poly[0]
	var mids []Pt
	for k := range ring {
		a, b := ring[k], ring[(k+1)%len(ring)]
		mids = append(mids, Pt{(a[0] + b[0]) / 2, (a[1] + b[1]) / 2})
	}
	mids = append(mids, Pt{g.Ext[0] - g.Res, ring[0][1]})
	cfgI := cfg
	cfgI.IgnoreOutsideGrid = true
	fp, _ := g.toFloatPoly([][]Pt{mids})
	_ = runSnapFloat(g, fp, ids, cfgI, timeout)
}

func runSnapFloat(g *Grid, fp geom.Polygon, ids []int, cfg snap.Config, timeout time.Duration) *Result {
	return runSnapShared(g, fp, append([]int(nil), ids...), cfg, timeout)
}

// runSnapShared hands the caller's own values to the implementation: the polygon and the id slice are NOT copied, so a
// caller that keeps using them (snapping the same value again, refilling one id buffer) sees what the call did to them.
func runSnapShared(g *Grid, fp geom.Polygon, ids []int, cfg snap.Config, timeout time.Duration) *Result {
	res := &Result{}
	done := make(chan struct{})
	t0 := time.Now()
	go func() {
		defer close(done)
		defer func() {
			if r := recover(); r != nil {
				res.Panic, res.PanicMsg = classifyPanic(r)
				res.Stack = string(debug.Stack())
			}
		}()
		res.Raw = snap.SnapPolygon(fp, g.TMS, ids, cfg)
	}()
	select {
	case <-done:
	case <-time.After(timeout):
		return &Result{Panic: "Hang", PanicMsg: fmt.Sprintf("no result after %v", timeout), Dur: time.Since(t0)}
	}
	res.Dur = time.Since(t0)
	if res.Panic != "" {
		return res
	}
	res.ByID = map[int][][][]Pt{}
	for id, polys := range res.Raw {
		level := g.Level(id)
		out := make([][][]Pt, len(polys))
		for i, p := range polys {
			out[i] = make([][]Pt, len(p))
			for j, r := range p {
				out[i][j] = make([]Pt, len(r))
				for k, v := range r {
					x, okx := g.centreOf(level, 0, v[0])
					y, oky := g.centreOf(level, 1, v[1])
					if !okx || !oky {
						res.NotCentre = append(res.NotCentre, fmt.Sprintf("id %d: (%v, %v)", id, v[0], v[1]))
					}
					out[i][j][k] = Pt{x, y}
				}
			}
		}
		res.ByID[id] = out
	}
	return res
}

func sortedIDs(m map[int][][][]Pt) []int {
	ids := make([]int, 0, len(m))
	for id := range m {
		ids = append(ids, id)
	}
	sort.Ints(ids)
	return ids
}

func cfgTerm(c snap.Config) string {
	return fmt.Sprintf("(mkConfig %s %s %s)", hc.CoqBool(c.KeepPointsAndLines), hc.CoqBool(c.IgnoreOutsideGrid), hc.CoqBool(c.ReverseWindingOrder))
}

func cfgJSON(c snap.Config) map[string]bool {
	return map[string]bool{"keep": c.KeepPointsAndLines, "ignore_outside": c.IgnoreOutsideGrid, "reverse": c.ReverseWindingOrder}
}

func ptsTerm(r []Pt) string {
	s := make([]string, len(r))
	for i, p := range r {
		s[i] = hc.CoqPt(p)
	}
	return hc.CoqList(s)
}

func ringsTerm(rs [][]Pt) string {
	s := make([]string, len(rs))
	for i, r := range rs {
		s[i] = ptsTerm(r)
	}
	return hc.CoqList(s)
}

func polysTerm(ps [][][]Pt) string {
	s := make([]string, len(ps))
	for i, p := range ps {
		s[i] = ringsTerm(p)
	}
	return hc.CoqList(s)
}

// snapCaseTerm prints `SnapCase grid polygon levels cfg observed` (Corr/SnapCase.v).
func snapCaseTerm(g *Grid, poly [][]Pt, ids []int, cfg snap.Config, r *Result) string {
	uniq := map[int]bool{}
	var levels []string
	sorted := append([]int(nil), ids...)
	sort.Ints(sorted)
	for _, id := range sorted {
		if !uniq[id] {
			uniq[id] = true
			levels = append(levels, fmt.Sprintf("%d%%nat", g.Level(id)))
		}
	}
	var obs string
	if r.Panic != "" {
		obs = "(ObsPanic " + panicTerm(r.Panic) + ")"
	} else {
		var items []string
		for _, id := range sortedIDs(r.ByID) {
			items = append(items, fmt.Sprintf("(%d%%nat, %s)", g.Level(id), polysTerm(r.ByID[id])))
		}
		ctor := "ObsOk"
		if !g.Dyadic { // pixel centres are not exact floats: see Corr/SnapCase.v ObsOkFloat
			ctor = "ObsOkFloat"
		}
		obs = "(" + ctor + " " + hc.CoqList(items) + ")"
	}
	return fmt.Sprintf("SnapCase %s %s %s %s %s", g.CoqTerm(), ringsTerm(poly), hc.CoqList(levels), cfgTerm(cfg), obs)
}

func panicTerm(k string) string {
	switch k {
	case "OutsideGrid", "NoPointsFound", "PartialRingsOnStack", "IndexOutOfRange", "SliceBounds", "DivZero", "MustToZ":
		return k
	case "Hang":
		return "OutOfFuel"
	}
	return "OtherPanic"
}

func caseJSON(g *Grid, poly [][]Pt, ids []int, cfg snap.Config, r *Result) map[string]any {
	m := map[string]any{"grid": g.Name, "grid_int": map[string]any{"ext": g.Ext, "res": g.Res, "deep": g.Deep, "level_diff": g.LevelDiff},
		"polygon_int_1e-10": poly, "ids": ids, "config": cfgJSON(cfg)}
	if fp, ok := g.toFloatPoly(poly); ok {
		m["polygon"] = fp
	}
	if g.Bias {
		m["float_fraction"] = "every ordinate carries 0.6e-10 of fraction (truncated away by FromGeomOrd)"
	}
	if r != nil {
		if r.Panic != "" {
			m["observed_panic"] = r.Panic + ": " + r.PanicMsg
		} else {
			m["observed"] = r.Raw
		}
	}
	return m
}
