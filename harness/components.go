package main

import (
	"fmt"
	"reflect"

	"github.com/pdok/texel/intgeom"
	"github.com/pdok/texel/snap"

	hc "verif/hcommon"
)

// Component-level tie for snap.go (verif hook): arguments are generated directly, so that states the end-to-end
// generators reach only rarely (several equal rings to dedupe, ties in hole matching) are exercised on every run.

func fring(r []Pt) [][2]float64 {
	out := make([][2]float64, len(r))
	for i, p := range r {
		out[i] = [2]float64{float64(p[0]), float64(p[1])}
	}
	return out
}

func frings(rs [][]Pt) [][][2]float64 {
	out := make([][][2]float64, len(rs))
	for i, r := range rs {
		out[i] = fring(r)
	}
	return out
}

func iring(r [][2]float64) []Pt {
	out := make([]Pt, len(r))
	for i, p := range r {
		out[i] = Pt{int64(p[0]), int64(p[1])}
	}
	return out
}

func irings(rs [][][2]float64) [][]Pt {
	out := make([][]Pt, len(rs))
	for i, r := range rs {
		out[i] = iring(r)
	}
	return out
}

func guard(f func()) (kind, msg string) {
	defer func() {
		if r := recover(); r != nil {
			kind, msg = classifyPanic(r)
		}
	}()
	f()
	return "", ""
}

func robs(kind, ok string) string {
	if kind != "" {
		return "(RPanic " + panicTerm(kind) + ")"
	}
	return "(ROk " + ok + ")"
}

var basePool = [][]Pt{
	{{0, 0}, {4, 0}, {4, 4}, {0, 4}},
	{{0, 0}, {4, 0}, {4, 4}},
	{{1, 1}, {3, 1}, {3, 3}, {1, 3}},
	{{0, 0}, {8, 0}, {8, 8}, {0, 8}},
	{{2, 2}, {6, 2}, {6, 6}, {2, 6}, {1, 4}},
	{{10, 0}, {14, 0}, {14, 4}, {10, 4}},
}

// variant: the same cyclic ring rotated and possibly reversed (what ringsAreEqual must identify)
func variant(c *hc.Ctx, r []Pt, reversed bool) []Pt {
	n := len(r)
	k := c.Rng.Intn(n)
	out := make([]Pt, n)
	for i := range r {
		out[i] = r[(i+k)%n]
	}
	if reversed {
		out = reverseRing(out)
	}
	return out
}

func componentStream(c *hc.Ctx) {
	n := c.N(400, 8000)
	for i := 0; i < n; i++ {
		// ---- dedupeInnersOuters: several copies of few rings, as shells (ccw) and holes (cw)
		var outs, ins [][]Pt
		pool := []int{c.Rng.Intn(len(basePool)), c.Rng.Intn(len(basePool))}
		for k := c.Rng.Intn(5); k > 0; k-- {
			outs = append(outs, variant(c, basePool[pool[c.Rng.Intn(2)]], false))
		}
		for k := c.Rng.Intn(5); k > 0; k-- {
			ins = append(ins, variant(c, basePool[pool[c.Rng.Intn(2)]], true))
		}
		var do, di [][]Pt
		kind, _ := guard(func() {
			o, in := snap.VerifDedupeInnersOuters(frings(outs), frings(ins))
			do, di = irings(o), irings(in)
		})
		c.Sum.Evaluations++
		c.Count("component dedupeInnersOuters")
		if len(outs)+len(ins) >= 3 {
			c.Nontrivial(fmt.Sprint("dedupe", outs, ins))
		}
		if kind != "" {
			c.Violate(hc.Violation{What: "dedupeInnersOuters panicked: " + kind, Input: map[string]any{"outers": outs, "inners": ins}})
		} else {
			for rep := 0; rep < 6; rep++ { // Go map iteration order is random per range
				o2, i2 := snap.VerifDedupeInnersOuters(frings(outs), frings(ins))
				if !reflect.DeepEqual(irings(o2), do) || !reflect.DeepEqual(irings(i2), di) {
					c.Violate(hc.Violation{What: "dedupeInnersOuters returned different rings on repetition (same arguments)", Input: map[string]any{"outers": outs, "inners": ins}, Expected: [][][]Pt{do, di}, Observed: [][][]Pt{irings(o2), irings(i2)}})
					break
				}
			}
		}
		c.Case(fmt.Sprintf("Comp (DedupeCase %s %s %s)", ringsTerm(outs), ringsTerm(ins), robs(kind, "("+ringsTerm(do)+", "+ringsTerm(di)+")")), map[string]any{"op": "dedupeInnersOuters", "outers": outs, "inners": ins, "observed": [][][]Pt{do, di}})

		// ---- matchInnersToPolygons: shells from the pool (shifted), holes inside / touching / outside
		var polys [][][]Pt
		for k := 1 + c.Rng.Intn(3); k > 0; k-- {
			sh := basePool[[]int{0, 3, 5, 2}[c.Rng.Intn(4)]]
			polys = append(polys, [][]Pt{variant(c, sh, false)})
		}
		var holes [][]Pt
		for k := c.Rng.Intn(4); k > 0; k-- {
			dx, dy := int64(c.Rng.Intn(12)), int64(c.Rng.Intn(6))
			h := []Pt{{dx, dy}, {dx, dy + 1 + int64(c.Rng.Intn(2))}, {dx + 1 + int64(c.Rng.Intn(2)), dy + 1}}
			holes = append(holes, h)
		}
		fp := make([][][][2]float64, len(polys))
		for k := range polys {
			fp[k] = frings(polys[k])
		}
		var mp [][][]Pt
		kind, _ = guard(func() {
			res := snap.VerifMatchInnersToPolygons(fp, frings(holes))
			for _, p := range res {
				mp = append(mp, irings(p))
			}
		})
		c.Sum.Evaluations++
		c.Count("component matchInnersToPolygons")
		c.Nontrivial(fmt.Sprint("match", polys, holes))
		if kind != "" {
			c.Violate(hc.Violation{What: "matchInnersToPolygons panicked: " + kind, Input: map[string]any{"polygons": polys, "inners": holes}})
		} else {
			nh := 0
			for _, p := range mp {
				nh += len(p) - 1
			}
			if nh+len(mp)-len(polys) != len(holes) {
				c.Violate(hc.Violation{What: "matchInnersToPolygons lost or duplicated a hole", Input: map[string]any{"polygons": polys, "inners": holes}, Observed: mp})
			}
		}
		c.Case(fmt.Sprintf("Comp (MatchCase %s %s %s)", polysTerm(polys), ringsTerm(holes), robs(kind, polysTerm(mp))), map[string]any{"op": "matchInnersToPolygons", "polygons": polys, "inners": holes, "observed": mp})

		// ---- splitRing: a chain over few centres, flags = the vertices visited more than once (or a random subset)
		chain := make([]int, 0, 10)
		for len(chain) < 4+c.Rng.Intn(7) {
			s := c.Rng.Intn(5)
			if len(chain) > 0 && chain[len(chain)-1] == s {
				continue
			}
			chain = append(chain, s)
		}
		if chain[0] == chain[len(chain)-1] {
			chain = chain[:len(chain)-1]
		}
		ring := chainPts(chain)
		cnt := map[Pt]int{}
		for _, p := range ring {
			cnt[p]++
		}
		var flags []Pt
		hm := map[intgeom.Point][]int{}
		for p, k := range cnt {
			if k >= 2 || c.Rng.Intn(6) == 0 {
				flags = append(flags, p)
			}
		}
		sortPts(flags)
		for _, p := range flags {
			hm[intgeom.Point{p[0] * intgeom.One, p[1] * intgeom.One}] = []int{7} // ToGeomPoint gives back the ring's float
		}
		isOuter := c.Rng.Intn(2) == 0
		var so, si, sp [][]Pt
		kind, _ = guard(func() {
			o, in, pl := snap.VerifSplitRing(fring(ring), isOuter, hm, 7)
			so, si, sp = irings(o), irings(in), irings(pl)
		})
		c.Sum.Evaluations++
		c.Count("component splitRing")
		c.Nontrivial(fmt.Sprint("split", ring, flags, isOuter))
		if kind != "" && len(ring) >= 3 {
			c.Violate(hc.Violation{What: "splitRing panicked: " + kind, Input: map[string]any{"ring": ring, "flags": flags, "isOuter": isOuter}})
		}
		c.Case(fmt.Sprintf("Comp (SplitCase %s %s %s %s)", ptsTerm(ring), hc.CoqBool(isOuter), ptsTerm(flags), robs(kind, "("+ringsTerm(so)+", "+ringsTerm(si)+", "+ringsTerm(sp)+")")), map[string]any{"op": "splitRing", "ring": ring, "flags": flags, "isOuter": isOuter, "observed": [][][]Pt{so, si, sp}})

		// ---- ringContains: points on vertices, on edges, below vertical edges, inside, outside
		rr := variant(c, basePool[c.Rng.Intn(len(basePool))], c.Rng.Intn(2) == 0)
		pt := Pt{int64(c.Rng.Intn(16)) - 1, int64(c.Rng.Intn(10)) - 1}
		var rc, rb bool
		kind, _ = guard(func() { rc, rb = snap.VerifRingContains(fring(rr), [2]float64{float64(pt[0]), float64(pt[1])}) })
		c.Sum.Evaluations++
		c.Count("component ringContains")
		want := pointInRing(rr, pt)
		if kind == "" && (rc != (want >= 0) || rb != (want == 0)) {
			c.Violate(hc.Violation{What: "ringContains disagrees with exact point-in-ring (inside or on the boundary)", Input: map[string]any{"ring": rr, "point": pt}, Observed: []bool{rc, rb}, Expected: want})
		}
		c.Case(fmt.Sprintf("Comp (ContainsCase %s %s %s)", ptsTerm(rr), hc.CoqPt(pt), robs(kind, "("+hc.CoqBool(rc)+", "+hc.CoqBool(rb)+")")), map[string]any{"op": "ringContains", "ring": rr, "point": pt, "observed": []bool{rc, rb}})
	}
}
