// Command harness is tie H of /verif for the snapping core (C01-C09, C17, C18): it runs PDOK/texel
// (the current working tree of /repo, through `replace github.com/pdok/texel => /repo`, built with
// -tags verif) on generated inputs, applies the property oracle to what the implementation returns,
// and writes Coq case files containing the inputs together with the observed outputs.
package main

import hc "verif/hcommon"

var props = map[string]hc.PropFunc{}

func main() { hc.Main(props) }
