package main

// Shared helpers of the C12 / C13 harnesses: table / srs / geometry descriptions that can be turned
// into (a) a source GeoPackage written with plain SQL, (b) Coq terms of Texel.Gpkg.Model, and the
// functions that read a written GeoPackage back with database/sql.

import (
	"database/sql"
	"encoding/binary"
	"fmt"
	"hash/fnv"
	"math"
	"math/rand"
	"os"
	"sort"
	"strconv"
	"strings"
	"time"

	"github.com/go-spatial/geom"
	"github.com/go-spatial/geom/cmp"
	gs "github.com/go-spatial/geom/encoding/gpkg"

	hc "verif/hcommon"
)

// ---- descriptions -----------------------------------------------------------------------------------

type colSpec struct {
	Name    string `json:"name"`
	Type    string `json:"type"`
	NotNull bool   `json:"notnull"`
	PK      int    `json:"pk"`
}

type srsSpec struct {
	Name  string `json:"name"`
	ID    int    `json:"id"`
	Org   string `json:"org"`
	OrgID int    `json:"orgid"`
	Def   string `json:"def"`
	Desc  string `json:"desc"`
}

type tableSpec struct {
	Name  string    `json:"name"`
	Cols  []colSpec `json:"cols"`
	GCol  string    `json:"gcol"`
	GType string    `json:"gtype"` // upper-case standard name
	Srs   srsSpec   `json:"srs"`
	// what the SOURCE records about the table besides the schema; none of it may reach a target:
	// gpkg_geometry_columns z / m: 0 prohibited or 2 optional (the geometries are XY either way; a target table is
	// created with 0, 0); gpkg_contents min_x min_y max_x max_y (nil = NULL): the GeoPackage extent is informative,
	// so it may be absent, exact, loose (larger than the data) or stale (elsewhere)
	Z             int       `json:"z,omitempty"`
	M             int       `json:"m,omitempty"`
	SrcExtent     []float64 `json:"src_extent,omitempty"`
	SrcExtentMode string    `json:"src_extent_mode,omitempty"`
	// DEFAULT clauses of the source's columns (column name -> SQL text of the default).  Not part of "columns" (createSQL
	// copies name, type, NOT NULL, PRIMARY KEY): the tool only has to cope with them when it describes the table (F17)
	Defaults map[string]string `json:"defaults,omitempty"`
}

// defaultsClass names what kind of DEFAULT clauses a source table has, for the input distribution in the evidence
func defaultsClass(t tableSpec) string {
	if len(t.Defaults) == 0 {
		return "source column defaults: none"
	}
	for _, d := range t.Defaults {
		if _, err := strconv.ParseInt(d, 10, 64); err != nil && d != "NULL" {
			return "source column defaults: some not an integer ('x', 1.5, CURRENT_TIMESTAMP, ..)"
		}
	}
	return "source column defaults: integers / NULL only"
}

// genDefaults gives some attribute columns of a source table a DEFAULT clause: integers, reals, texts, NULL, keywords and
// expressions.  The choice is a function of the table (name, column names and types), so it does not disturb the random
// stream the generators draw from.
func genDefaults(t tableSpec) map[string]string {
	h := fnv.New64a()
	h.Write([]byte(t.Name))
	for _, c := range t.Cols {
		h.Write([]byte(c.Name + "|" + c.Type))
	}
	r := rand.New(rand.NewSource(int64(h.Sum64())))
	if r.Intn(3) != 0 {
		return nil
	}
	texts := []string{"'x'", "1.5", "CURRENT_TIMESTAMP", "7", "NULL", "(1+1)", "'it''s'", "-3", "'2020-01-02T03:04:05Z'", "''", "x'00ff'", "1e3", "TRUE", "CURRENT_DATE"}
	m := map[string]string{}
	for _, c := range t.Cols {
		if c.PK != 0 || c.Name == t.GCol || r.Intn(2) == 0 {
			continue
		}
		m[c.Name] = texts[r.Intn(len(texts))]
	}
	if len(m) == 0 {
		return nil
	}
	return m
}

// recordExtent chooses what the source records as the extent of a table whose features have the coordinates pts
func (t *tableSpec) recordExtent(r *rand.Rand, pts [][2]float64) {
	t.SrcExtent, t.SrcExtentMode = nil, "null"
	var b [4]float64
	for i, p := range pts {
		if i == 0 {
			b = [4]float64{p[0], p[1], p[0], p[1]}
		}
		b[0], b[1], b[2], b[3] = math.Min(b[0], p[0]), math.Min(b[1], p[1]), math.Max(b[2], p[0]), math.Max(b[3], p[1])
	}
	w, h := b[2]-b[0]+1, b[3]-b[1]+1
	switch r.Intn(4) {
	case 1:
		if len(pts) > 0 {
			t.SrcExtent, t.SrcExtentMode = b[:], "exact"
		}
	case 2: // larger on some or all sides (also around no data at all)
		g := [4]float64{float64(r.Intn(3)) * w / 2, float64(r.Intn(3)) * h / 2, float64(r.Intn(3)) * w / 2, float64(1+r.Intn(3)) * h / 2}
		t.SrcExtent, t.SrcExtentMode = []float64{b[0] - g[0], b[1] - g[1], b[2] + g[2], b[3] + g[3]}, "loose"
	case 3: // somewhere else: disjoint from the data, or overlapping it partly
		dx, dy := float64(r.Intn(7)-3)*w/2, float64(r.Intn(7)-3)*h/2
		if dx == 0 && dy == 0 {
			dx = 2 * w
		}
		t.SrcExtent, t.SrcExtentMode = []float64{b[0] + dx, b[1] + dy, b[2] + dx, b[3] + dy}, "stale"
	}
}

var gtypeCode = map[string]int{"GEOMETRY": 0, "POINT": 1, "LINESTRING": 2, "POLYGON": 3, "MULTIPOINT": 4,
	"MULTILINESTRING": 5, "MULTIPOLYGON": 6, "GEOMETRYCOLLECTION": 7}

func (t tableSpec) attrCols() []colSpec {
	var r []colSpec
	for _, c := range t.Cols {
		if c.Name != t.GCol {
			r = append(r, c)
		}
	}
	return r
}

func (t tableSpec) pkName() string {
	for _, c := range t.Cols {
		if c.PK == 1 {
			return c.Name
		}
	}
	return ""
}

// value of an attribute: K = 0 NULL, 1 integer, 2 real (R/8), 3 text (pool id T),
// 4 date/time: the INSTANT, I = nanoseconds since the Unix epoch (UTC).  A date/time cell is a column declared
// DATE / DATETIME / TIMESTAMP: the SQLite driver parses its text into a time.Time on the way out of the source and
// writes a time.Time in its own layout ("2006-01-02 15:04:05.999999999-07:00"), so the unchanged tool already
// changes the TEXT of such a cell; what must survive the copy is the instant, to the nanosecond.
type val struct {
	K int   `json:"k"`
	I int64 `json:"i,omitempty"`
	R int64 `json:"r,omitempty"`
	T int   `json:"t,omitempty"`
}

// texts of the text pool, by id; chosen to need care: empty string, quotes, unicode, digits only, a long one
var textPool = []string{"", "a", "O'Reilly", `say "hi"`, "ünïcödé ✓", "12", " leading and trailing ", "NULL",
	strings.Repeat("long ", 50), "line\nbreak", "semi;colon -- comment", "%v %d", "tab\tsep"}

func (v val) goValue() interface{} {
	switch v.K {
	case 1:
		return v.I
	case 2:
		return float64(v.R) / 8
	case 3:
		return textPool[v.T]
	case 4: // what ReadFeatures delivers for a date/time column
		return time.Unix(0, v.I).UTC()
	}
	return nil
}

// isTimeType: the declared types the SQLite driver converts to time.Time (go-sqlite3 compares the lower-cased
// declared type with "date", "datetime", "timestamp"; the verif SpatiaLite stand-in is the same driver type)
func isTimeType(typ string) bool {
	switch strings.ToLower(typ) {
	case "date", "datetime", "timestamp":
		return true
	}
	return false
}

// srcValue: the value as a SOURCE GeoPackage holds it: date/times as ISO 8601 text in UTC, the GeoPackage forms
// "2023-05-17" (DATE) and "2023-05-17T23:59:59.891Z" (DATETIME; whole seconds with or without ".000", finer than
// milliseconds with nine digits)
func (v val) srcValue(c colSpec) interface{} {
	if v.K != 4 {
		return v.goValue()
	}
	t := time.Unix(0, v.I).UTC()
	switch ns := t.Nanosecond(); {
	case strings.EqualFold(c.Type, "DATE") && ns == 0 && t.Hour() == 0 && t.Minute() == 0 && t.Second() == 0:
		return t.Format("2006-01-02")
	case ns%1000000 != 0:
		return t.Format("2006-01-02T15:04:05.000000000Z")
	case ns == 0 && t.Second()%2 == 0:
		return t.Format("2006-01-02T15:04:05Z")
	default:
		return t.Format("2006-01-02T15:04:05.000Z")
	}
}

func (v val) coq() string {
	switch v.K {
	case 1:
		return "VInt " + hc.CoqZ(v.I)
	case 2:
		return "VReal " + hc.CoqZ(v.R)
	case 3:
		return fmt.Sprintf("VText %d%%N", v.T)
	case 4:
		return "VTime " + hc.CoqZ(v.I)
	}
	return "VNull"
}

// layouts of a date/time text: ISO 8601 / the driver's, with or without zone (none = UTC, as the driver reads it)
var timeLayouts = []string{
	"2006-01-02T15:04:05.999999999Z07:00", "2006-01-02 15:04:05.999999999Z07:00",
	"2006-01-02T15:04:05.999999999", "2006-01-02 15:04:05.999999999",
	"2006-01-02T15:04Z07:00", "2006-01-02 15:04Z07:00", "2006-01-02T15:04", "2006-01-02 15:04", "2006-01-02",
}

func instantVal(t time.Time) val {
	if y := t.Year(); y < 1700 || y > 2250 { // outside UnixNano (e.g. the zero time the driver returns for text it cannot parse)
		return val{K: 3, T: 999997}
	}
	return val{K: 4, I: t.UnixNano()}
}

// valOfCol: a cell of a column with declared type typ.  Date/time columns are read RAW (selectList) and parsed
// here: equal values = the same instant to the nanosecond, whatever the layout; text that is no date/time at all
// is not a date/time value (the driver would silently turn it into the zero time on BOTH sides).
func valOfCol(x interface{}, typ string) val {
	if !isTimeType(typ) {
		return valOf(x)
	}
	var s string
	switch v := x.(type) {
	case time.Time:
		return instantVal(v)
	case string:
		s = v
	case []byte:
		s = string(v)
	default:
		return valOf(x) // NULL, or a number where a date/time text was written
	}
	for _, l := range timeLayouts {
		if t, err := time.Parse(l, s); err == nil {
			return instantVal(t)
		}
	}
	return val{K: 3, T: 999996}
}

// selectList: every column by name; date/time columns as +"c" (an expression has no declared type: the driver hands
// the stored text over as it is)
func selectList(cols []colSpec) string {
	l := make([]string, len(cols))
	for i, c := range cols {
		if isTimeType(c.Type) {
			l[i] = fmt.Sprintf(`+"%s" AS "%s"`, c.Name, c.Name)
		} else {
			l[i] = fmt.Sprintf(`"%s"`, c.Name)
		}
	}
	return strings.Join(l, ", ")
}

func tableInfo(db *sql.DB, table string) (cols []colSpec, dflt []bool, err error) {
	rows, err := db.Query(fmt.Sprintf(`PRAGMA table_info('%s')`, table))
	if err != nil {
		return nil, nil, err
	}
	defer rows.Close()
	for rows.Next() {
		var cid, notnull, pk int
		var name, typ string
		var d interface{}
		if err := rows.Scan(&cid, &name, &typ, &notnull, &d, &pk); err != nil {
			return nil, nil, err
		}
		cols = append(cols, colSpec{Name: name, Type: typ, NotNull: notnull == 1, PK: pk})
		dflt = append(dflt, d != nil)
	}
	return cols, dflt, rows.Err()
}

// valOf maps a value read back by database/sql to the abstract value (text not in the pool: id 999999)
func valOf(x interface{}) val {
	switch v := x.(type) {
	case nil:
		return val{}
	case time.Time:
		return instantVal(v)
	case int64:
		return val{K: 1, I: v}
	case float64:
		r := v * 8
		if r == math.Trunc(r) && math.Abs(r) < 1e15 {
			return val{K: 2, R: int64(r)}
		}
		return val{K: 2, R: 1<<62 + int64(math.Float64bits(v)%1000)}
	case []byte:
		return textVal(string(v))
	case string:
		return textVal(v)
	}
	return val{K: 3, T: 999998}
}

func textVal(s string) val {
	for i, t := range textPool {
		if t == s {
			return val{K: 3, T: i}
		}
	}
	return val{K: 3, T: 999999}
}

// geomSpec: Kind 1 point, 2 linestring, 3 polygon, 4 multipoint, 5 multilinestring, 6 multipolygon.
// Parts = polygons -> rings -> points; the lower kinds use the first ring / point.  Empty: no Parts
// (POINT EMPTY is the point (NaN, NaN)).  Coordinates are integers (exact in float64 and float32).
type geomSpec struct {
	Kind  int            `json:"kind"`
	Parts [][][][2]int64 `json:"parts,omitempty"`
}

func fpts(r [][2]int64) [][2]float64 {
	o := make([][2]float64, len(r))
	for i, p := range r {
		o[i] = [2]float64{float64(p[0]), float64(p[1])}
	}
	return o
}

func frings(rs [][][2]int64) [][][2]float64 {
	o := make([][][2]float64, len(rs))
	for i, r := range rs {
		o[i] = fpts(r)
	}
	return o
}

func (g geomSpec) toGeom() geom.Geometry {
	first := func() [][2]int64 {
		if len(g.Parts) > 0 && len(g.Parts[0]) > 0 {
			return g.Parts[0][0]
		}
		return nil
	}
	switch g.Kind {
	case 1:
		if r := first(); len(r) > 0 {
			return geom.Point{float64(r[0][0]), float64(r[0][1])}
		}
		return geom.Point{math.NaN(), math.NaN()}
	case 2:
		return geom.LineString(fpts(first()))
	case 3:
		if len(g.Parts) == 0 {
			return geom.Polygon{}
		}
		return geom.Polygon(frings(g.Parts[0]))
	case 4:
		return geom.MultiPoint(fpts(first()))
	case 5:
		if len(g.Parts) == 0 {
			return geom.MultiLineString{}
		}
		return geom.MultiLineString(frings(g.Parts[0]))
	case 6:
		mp := make(geom.MultiPolygon, len(g.Parts))
		for i, p := range g.Parts {
			mp[i] = frings(p)
		}
		return mp
	}
	return nil
}

func ipts(r [][2]float64) ([][2]int64, bool) {
	o := make([][2]int64, 0, len(r))
	ok := true
	for _, p := range r {
		if p[0] != math.Trunc(p[0]) || p[1] != math.Trunc(p[1]) || math.Abs(p[0]) > 1e15 || math.Abs(p[1]) > 1e15 {
			ok = false
			o = append(o, [2]int64{math.MinInt32, math.MinInt32})
			continue
		}
		o = append(o, [2]int64{int64(p[0]), int64(p[1])})
	}
	return o, ok
}

// specOf maps a decoded geometry back to a geomSpec (ok=false when a coordinate is not an integer)
func specOf(g geom.Geometry) (geomSpec, bool) {
	ok := true
	conv := func(r [][2]float64) [][2]int64 {
		o, k := ipts(r)
		ok = ok && k
		return o
	}
	convRings := func(rs [][][2]float64) [][][2]int64 {
		o := make([][][2]int64, len(rs))
		for i, r := range rs {
			o[i] = conv(r)
		}
		return o
	}
	switch v := g.(type) {
	case geom.Point:
		if v[0] != v[0] || v[1] != v[1] {
			return geomSpec{Kind: 1}, true
		}
		return geomSpec{Kind: 1, Parts: [][][][2]int64{{conv([][2]float64{v})}}}, ok
	case geom.LineString:
		if len(v) == 0 {
			return geomSpec{Kind: 2}, true
		}
		return geomSpec{Kind: 2, Parts: [][][][2]int64{{conv(v)}}}, ok
	case geom.Polygon:
		if len(v) == 0 {
			return geomSpec{Kind: 3}, true
		}
		return geomSpec{Kind: 3, Parts: [][][][2]int64{convRings(v)}}, ok
	case geom.MultiPoint:
		if len(v) == 0 {
			return geomSpec{Kind: 4}, true
		}
		return geomSpec{Kind: 4, Parts: [][][][2]int64{{conv(v)}}}, ok
	case geom.MultiLineString:
		if len(v) == 0 {
			return geomSpec{Kind: 5}, true
		}
		return geomSpec{Kind: 5, Parts: [][][][2]int64{convRings(v)}}, ok
	case geom.MultiPolygon:
		if len(v) == 0 {
			return geomSpec{Kind: 6}, true
		}
		s := geomSpec{Kind: 6}
		for _, p := range v {
			s.Parts = append(s.Parts, convRings(p))
		}
		return s, ok
	}
	return geomSpec{Kind: 0}, false
}

func (g geomSpec) flat() [][2]int64 {
	var o [][2]int64
	for _, p := range g.Parts {
		for _, r := range p {
			o = append(o, r...)
		}
	}
	return o
}

func (g geomSpec) isEmpty() bool { return len(g.flat()) == 0 }

// digest of the exact shape (type + nesting + coordinates)
func (g geomSpec) digest() uint32 {
	h := fnv.New32a()
	fmt.Fprintf(h, "%d|", g.Kind)
	for _, p := range g.Parts {
		h.Write([]byte("P"))
		for _, r := range p {
			h.Write([]byte("R"))
			for _, q := range r {
				fmt.Fprintf(h, "%d,%d;", q[0], q[1])
			}
		}
	}
	return h.Sum32()
}

func (g geomSpec) coq() string {
	return fmt.Sprintf("MkGeom %d%%N %s %d%%N", g.Kind, hc.CoqPts(g.flat()), g.digest())
}

// bbox = [minx miny maxx maxy]; ok=false when there is no coordinate
type bbox struct {
	MinX, MinY, MaxX, MaxY int64
}

func bboxOf(pts [][2]int64) (bbox, bool) {
	if len(pts) == 0 {
		return bbox{}, false
	}
	b := bbox{pts[0][0], pts[0][1], pts[0][0], pts[0][1]}
	for _, p := range pts {
		if p[0] < b.MinX {
			b.MinX = p[0]
		}
		if p[0] > b.MaxX {
			b.MaxX = p[0]
		}
		if p[1] < b.MinY {
			b.MinY = p[1]
		}
		if p[1] > b.MaxY {
			b.MaxY = p[1]
		}
	}
	return b, true
}

func (b bbox) coq() string {
	return fmt.Sprintf("MkExt %s %s %s %s", hc.CoqZ(b.MinX), hc.CoqZ(b.MinY), hc.CoqZ(b.MaxX), hc.CoqZ(b.MaxY))
}

func coqOptBBox(b *bbox) string {
	if b == nil {
		return "None"
	}
	return "(Some (" + b.coq() + "))"
}

func coqString(s string) string {
	return `"` + strings.ReplaceAll(s, `"`, `""`) + `"%string`
}

func fnv32(s string) uint32 {
	h := fnv.New32a()
	h.Write([]byte(s))
	return h.Sum32()
}

func (s srsSpec) coq() string {
	return fmt.Sprintf("MkSrs %s %s %s %s %d%%N %s", coqString(s.Name), hc.CoqZ(int64(s.ID)), coqString(s.Org),
		hc.CoqZ(int64(s.OrgID)), fnv32(s.Def), coqString(s.Desc))
}

func (c colSpec) coq() string {
	return fmt.Sprintf("MkCol %s %s %s %d%%N", coqString(c.Name), coqString(c.Type), hc.CoqBool(c.NotNull), c.PK)
}

func coqCols(cs []colSpec) string {
	s := make([]string, len(cs))
	for i, c := range cs {
		s[i] = c.coq()
	}
	return hc.CoqList(s)
}

func (t tableSpec) coq() string {
	return fmt.Sprintf("MkTable %s %s %s %d%%N (%s)", coqString(t.Name), coqCols(t.Cols), coqString(t.GCol),
		gtypeCode[t.GType], t.Srs.coq())
}

// ---- writing a source GeoPackage with plain SQL ----------------------------------------------------------

func knownSrsSpec(id int) (srsSpec, bool) {
	k, ok := gs.KnownSRS[int32(id)]
	if !ok {
		return srsSpec{}, false
	}
	return srsSpec{Name: k.Name, ID: k.ID, Org: k.Organization, OrgID: k.OrganizationCoordsysID, Def: k.Definition, Desc: k.Description}, true
}

func (c colSpec) ddl() string {
	s := c.Name + " " + c.Type
	if c.NotNull {
		s += " NOT NULL"
	}
	if c.PK == 1 {
		s += " PRIMARY KEY"
	}
	return s
}

// createSource makes a GeoPackage with the given feature tables (metadata rows by plain SQL; no rtree
// in the source) and returns the open handle.
func createSource(path string, tables []tableSpec) (*gs.Handle, error) {
	h, err := gs.Open(path)
	if err != nil {
		return nil, err
	}
	for _, t := range tables {
		s := t.Srs
		if _, err = h.Exec(`INSERT OR REPLACE INTO gpkg_spatial_ref_sys(srs_name,srs_id,organization,organization_coordsys_id,definition,description) VALUES(?,?,?,?,?,?)`,
			s.Name, s.ID, s.Org, s.OrgID, s.Def, s.Desc); err != nil {
			return nil, fmt.Errorf("srs: %w", err)
		}
		defs := make([]string, len(t.Cols))
		for i, c := range t.Cols {
			defs[i] = c.ddl()
			if d, ok := t.Defaults[c.Name]; ok {
				defs[i] += " DEFAULT " + d
			}
		}
		if _, err = h.Exec(fmt.Sprintf(`CREATE TABLE "%s"(%s)`, t.Name, strings.Join(defs, ", "))); err != nil {
			return nil, fmt.Errorf("create %s: %w", t.Name, err)
		}
		var e [4]interface{} // NULL unless the source records an extent
		if len(t.SrcExtent) == 4 {
			e = [4]interface{}{t.SrcExtent[0], t.SrcExtent[1], t.SrcExtent[2], t.SrcExtent[3]}
		}
		if _, err = h.Exec(`INSERT INTO gpkg_contents(table_name,data_type,identifier,description,srs_id,min_x,min_y,max_x,max_y) VALUES(?,?,?,?,?,?,?,?,?)`,
			t.Name, "features", "ident of "+t.Name, "description of "+t.Name, s.ID, e[0], e[1], e[2], e[3]); err != nil {
			return nil, fmt.Errorf("contents: %w", err)
		}
		if _, err = h.Exec(`INSERT INTO gpkg_geometry_columns(table_name,column_name,geometry_type_name,srs_id,z,m) VALUES(?,?,?,?,?,?)`,
			t.Name, t.GCol, t.GType, s.ID, t.Z, t.M); err != nil {
			return nil, fmt.Errorf("geometry_columns: %w", err)
		}
	}
	return h, nil
}

// ---- reading a GeoPackage back -------------------------------------------------------------------------------

type obsGeom struct {
	Spec      geomSpec `json:"spec"`
	IntCoords bool     `json:"int_coords"`
	SrsID     int32    `json:"srs_id"`
	FlagEmpty bool     `json:"flag_empty"`
	Envelope  []string `json:"envelope"`
	Err       string   `json:"err,omitempty"`
	Null      bool     `json:"null,omitempty"`
}

type obsCell struct {
	IsGeom bool     `json:"g,omitempty"`
	V      val      `json:"v"`
	G      *obsGeom `json:"geom,omitempty"`
}

type obsRtree struct {
	ID                     int64
	MinX, MaxX, MinY, MaxY float64
}

type obsTable struct {
	Name    string      `json:"name"`
	Cols    []colSpec   `json:"cols"`
	Dflt    []bool      `json:"dflt_set"`
	Rows    [][]obsCell `json:"rows"`
	Extent  []*float64  `json:"extent"` // min_x min_y max_x max_y (nil = NULL)
	Rtree   []obsRtree  `json:"rtree"`
	RtreeOK bool        `json:"rtree_table_exists"`
	// gpkg_contents / gpkg_geometry_columns
	DataType, Identifier, Description string
	ContentsSrs                       int64
	GCol, GType                       string
	GSrs, Z, M                        int64
	Extension                         bool // gpkg_extensions row for the rtree
}

type obsFile struct {
	Tables  []obsTable `json:"tables"` // in gpkg_contents rowid order
	Srs     []srsSpec  `json:"srs"`    // ORDER BY srs_id
	AppID   int64      `json:"application_id"`
	Counter uint32     `json:"change_counter"`
	Err     string     `json:"err,omitempty"`
}

func changeCounter(path string) uint32 {
	f, err := os.Open(path)
	if err != nil {
		return 0
	}
	defer f.Close()
	var b [28]byte
	if _, err := f.ReadAt(b[:], 0); err != nil {
		return 0
	}
	return binary.BigEndian.Uint32(b[24:28])
}

func decodeGeomCell(x interface{}) *obsGeom {
	if x == nil {
		return &obsGeom{Null: true}
	}
	blob, ok := x.([]byte)
	if !ok {
		return &obsGeom{Err: fmt.Sprintf("geometry cell is %T", x)}
	}
	sb, err := gs.DecodeGeometry(blob)
	if err != nil {
		return &obsGeom{Err: err.Error()}
	}
	spec, ints := specOf(sb.Geometry)
	o := &obsGeom{Spec: spec, IntCoords: ints, SrsID: sb.SRSID, FlagEmpty: sb.Header.IsGeometryEmpty()}
	for _, e := range sb.Header.Envelope() {
		o.Envelope = append(o.Envelope, fmt.Sprint(e))
	}
	if cmp.IsEmptyGeo(sb.Geometry) != spec.isEmpty() {
		o.Err = "IsEmptyGeo disagrees with the coordinate list"
	}
	return o
}

func readFile(path string) obsFile {
	var o obsFile
	o.Counter = changeCounter(path)
	db, err := sql.Open("spatialite", path)
	if err != nil {
		o.Err = err.Error()
		return o
	}
	defer db.Close()
	fail := func(err error) obsFile { o.Err = err.Error(); return o }
	_ = db.QueryRow(`PRAGMA application_id`).Scan(&o.AppID)

	rows, err := db.Query(`SELECT srs_name,srs_id,organization,organization_coordsys_id,definition,description FROM gpkg_spatial_ref_sys ORDER BY srs_id`)
	if err != nil {
		return fail(err)
	}
	for rows.Next() {
		var s srsSpec
		var desc *string
		if err := rows.Scan(&s.Name, &s.ID, &s.Org, &s.OrgID, &s.Def, &desc); err != nil {
			rows.Close()
			return fail(err)
		}
		if desc != nil {
			s.Desc = *desc
		} else {
			s.Desc = "<NULL>"
		}
		o.Srs = append(o.Srs, s)
	}
	rows.Close()

	rows, err = db.Query(`SELECT table_name,data_type,identifier,description,min_x,min_y,max_x,max_y,srs_id FROM gpkg_contents ORDER BY rowid`)
	if err != nil {
		return fail(err)
	}
	for rows.Next() {
		var t obsTable
		var ident, descr *string
		var e [4]*float64
		var srs *int64
		if err := rows.Scan(&t.Name, &t.DataType, &ident, &descr, &e[0], &e[1], &e[2], &e[3], &srs); err != nil {
			rows.Close()
			return fail(err)
		}
		if ident != nil {
			t.Identifier = *ident
		}
		if descr != nil {
			t.Description = *descr
		}
		if srs != nil {
			t.ContentsSrs = *srs
		} else {
			t.ContentsSrs = math.MinInt32
		}
		t.Extent = e[:]
		o.Tables = append(o.Tables, t)
	}
	rows.Close()

	for i := range o.Tables {
		t := &o.Tables[i]
		err := db.QueryRow(`SELECT column_name,geometry_type_name,srs_id,z,m FROM gpkg_geometry_columns WHERE table_name=?`, t.Name).
			Scan(&t.GCol, &t.GType, &t.GSrs, &t.Z, &t.M)
		if err != nil {
			return fail(fmt.Errorf("gpkg_geometry_columns %s: %w", t.Name, err))
		}
		var n int
		_ = db.QueryRow(`SELECT count(*) FROM gpkg_extensions WHERE table_name=? AND column_name=? AND extension_name='gpkg_rtree_index'`, t.Name, t.GCol).Scan(&n)
		t.Extension = n == 1

		if t.Cols, t.Dflt, err = tableInfo(db, t.Name); err != nil {
			return fail(err)
		}
		typeOf := map[string]string{}
		for _, c := range t.Cols {
			typeOf[c.Name] = c.Type
		}

		rows, err := db.Query(fmt.Sprintf(`SELECT %s FROM "%s" ORDER BY rowid`, selectList(t.Cols), t.Name))
		if err != nil {
			return fail(err)
		}
		names, _ := rows.Columns()
		for rows.Next() {
			vals := make([]interface{}, len(names))
			ptrs := make([]interface{}, len(names))
			for k := range vals {
				ptrs[k] = &vals[k]
			}
			if err := rows.Scan(ptrs...); err != nil {
				rows.Close()
				return fail(err)
			}
			row := make([]obsCell, len(names))
			for k, n := range names {
				if n == t.GCol {
					row[k] = obsCell{IsGeom: true, G: decodeGeomCell(vals[k])}
				} else {
					row[k] = obsCell{V: valOfCol(vals[k], typeOf[n])}
				}
			}
			t.Rows = append(t.Rows, row)
		}
		rows.Close()

		rows, err = db.Query(fmt.Sprintf(`SELECT id,minx,maxx,miny,maxy FROM "rtree_%s_%s" ORDER BY id`, t.Name, t.GCol))
		if err == nil {
			t.RtreeOK = true
			for rows.Next() {
				var r obsRtree
				if err := rows.Scan(&r.ID, &r.MinX, &r.MaxX, &r.MinY, &r.MaxY); err != nil {
					rows.Close()
					return fail(err)
				}
				t.Rtree = append(t.Rtree, r)
			}
			rows.Close()
		}
	}
	return o
}

func sortedKeys(m map[string]int) []string {
	k := make([]string, 0, len(m))
	for s := range m {
		k = append(k, s)
	}
	sort.Strings(k)
	return k
}
