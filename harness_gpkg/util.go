package main

// Shared helpers of the C12 / C13 harnesses: table / srs / geometry descriptions that can be turned
// into (a) a source GeoPackage written with plain SQL, (b) Coq terms of Texel.Gpkg.Model, and the
// functions that read a written GeoPackage back with database/sql.

import (
	"database/sql"
	"encoding/binary"
	"fmt"
	"hash/fnv"
	"math"
	"math/rand"
	"os"
	"sort"
	"strconv"
	"strings"
	"time"

	"github.com/go-spatial/geom"
	"github.com/go-spatial/geom/cmp"
	gs "github.com/go-spatial/geom/encoding/gpkg"

	hc "verif/hcommon"
)

// ---- descriptions -----------------------------------------------------------------------------------

type colSpec struct {
	Name    string `json:"name"`
	Type    string `json:"type"`
	NotNull bool   `json:"notnull"`
	PK      int    `json:"pk"`
}

type srsSpec struct {
	Name  string `json:"name"`
	ID    int    `json:"id"`
	Org   string `json:"org"`
	OrgID int    `json:"orgid"`
	Def   string `json:"def"`
	Desc  string `json:"desc"`
}

type tableSpec struct {
	Name  string    `json:"name"`
	Cols  []colSpec `json:"cols"`
	GCol  string    `json:"gcol"`
	GType string    `json:"gtype"` // upper-case standard name
	Srs   srsSpec   `json:"srs"`
	// what the SOURCE records about the table besides the schema; none of it may reach a target:
	// gpkg_geometry_columns z / m: 0 prohibited or 2 optional (the geometries are XY either way; a target table is
	// created with 0, 0); gpkg_contents min_x min_y max_x max_y (nil = NULL): the GeoPackage extent is informative,
	// so it may be absent, exact, loose (larger than the data) or stale (elsewhere)
	Z             int       `json:"z,omitempty"`
	M             int       `json:"m,omitempty"`
	SrcExtent     []float64 `json:"src_extent,omitempty"`
	SrcExtentMode string    `json:"src_extent_mode,omitempty"`
	// DEFAULT clauses of the source's columns (column name -> SQL text of the default).  Not part of "columns" (createSQL
	// copies name, type, NOT NULL, PRIMARY KEY): the tool only has to cope with them when it describes the table (F17)
	Defaults map[string]string `json:"defaults,omitempty"`
}

// defaultsClass names what kind of DEFAULT clauses a source table has, for the input distribution in the evidence
func defaultsClass(t tableSpec) string {
	if len(t.Defaults) == 0 {
		return "source column defaults: none"
	}
	for _, d := range t.Defaults {
		if _, err := strconv.ParseInt(d, 10, 64); err != nil && d != "NULL" {
			return "source column defaults: some not an integer ('x', 1.5, CURRENT_TIMESTAMP, ..)"
		}
	}
	return "source column defaults: integers / NULL only"
}

// genDefaults gives some attribute columns of a source table a DEFAULT clause: integers, reals, texts, NULL, keywords and
// expressions.  The choice is a function of the table (name, column names and types), so it does not disturb the random
// stream the generators draw from.
func genDefaults(t tableSpec) map[string]string {
	h := fnv.New64a()
	h.Write([]byte(t.Name))
	for _, c := range t.Cols {
		h.Write([]byte(c.Name + "|" + c.Type))
	}
	r := rand.New(rand.NewSource(int64(h.Sum64())))
	if r.Intn(3) != 0 {
		return nil
	}
	texts := []string{"'x'", "1.5", "CURRENT_TIMESTAMP", "7", "NULL", "(1+1)", "'it''s'", "-3", "'2020-01-02T03:04:05Z'", "''", "x'00ff'", "1e3", "TRUE", "CURRENT_DATE"}
	m := map[string]string{}
	for _, c := range t.Cols {
		if c.PK != 0 || c.Name == t.GCol || r.Intn(2) == 0 {
			continue
		}
		m[c.Name] = texts[r.Intn(len(texts))]
	}
	if len(m) == 0 {
		return nil
	}
	return m
}

// recordExtent chooses what the source records as the extent of a table whose features have the coordinates pts
func (t *tableSpec) recordExtent(r *rand.Rand, pts [][2]float64) {
	t.SrcExtent, t.SrcExtentMode = nil, "null"
	var b [4]float64
	for i, p := range pts {
		if i == 0 {
			b = [4]float64{p[0], p[1], p[0], p[1]}
		}
		b[0], b[1], b[2], b[3] = math.Min(b[0], p[0]), math.Min(b[1], p[1]), math.Max(b[2], p[0]), math.Max(b[3], p[1])
	}
	w, h := b[2]-b[0]+1, b[3]-b[1]+1
	switch r.Intn(4) {
	case 1:
		if len(pts) > 0 {
			t.SrcExtent, t.SrcExtentMode = b[:], "exact"
		}
	case 2: // larger on some or all sides (also around no data at all)
		g := [4]float64{float64(r.Intn(3)) * w / 2, float64(r.Intn(3)) * h / 2, float64(r.Intn(3)) * w / 2, float64(1+r.Intn(3)) * h / 2}
		t.SrcExtent, t.SrcExtentMode = []float64{b[0] - g[0], b[1] - g[1], b[2] + g[2], b[3] + g[3]}, "loose"
	case 3: // somewhere else: disjoint from the data, or overlapping it partly
		dx, dy := float64(r.Intn(7)-3)*w/2, float64(r.Intn(7)-3)*h/2
		if dx == 0 && dy == 0 {
			dx = 2 * w
		}
		t.SrcExtent, t.SrcExtentMode = []float64{b[0] + dx, b[1] + dy, b[2] + dx, b[3] + dy}, "stale"
	}
}

var gtypeCode = map[string]int{"GEOMETRY": 0, "POINT": 1, "LINESTRING": 2, "POLYGON": 3, "MULTIPOINT": 4,
	"MULTILINESTRING": 5, "MULTIPOLYGON": 6, "GEOMETRYCOLLECTION": 7}

func (t tableSpec) attrCols() []colSpec {
	var r []colSpec
	for _, c := range t.Cols {
		if c.Name != t.GCol {
			r = append(r, c)
		}
	}
	return r
}

// pkType: the declared type of the primary key column.  Only a key declared exactly INTEGER is an alias of the rowid:
// its order is the order in which the table stores (and a SELECT without ORDER BY returns) the rows.  INT PRIMARY KEY,
// TEXT PRIMARY KEY are ordinary columns with a unique index: the stored order is the insertion order, whatever the keys.
func (t tableSpec) pkType() string {
	for _, c := range t.Cols {
		if c.PK == 1 {
			return c.Type
		}
	}
	return ""
}

func (t tableSpec) pkIsRowid() bool { return strings.EqualFold(t.pkType(), "INTEGER") }

// decorateTable gives a generated table what the repairs F18 - F20 and the source order are about.  The choice is a function
// of the table (name, column names and types), so it does not disturb the random stream the generators draw from; force
// (bits: 1 names, 2 kinds, 4 key) makes a choice certain.
//
//	names: attribute columns named by SQL keywords (order, group, select, table, ..), with a space, a dash, a leading digit,
//	  an embedded double quote, a comma, non-ASCII letters; the primary key by a keyword / with a space / a dash / a leading
//	  digit / non-ASCII (the GeoPackage library writes the key as "name" without doubling a quote); the geometry column by a
//	  keyword / with a leading digit / non-ASCII (the library writes it bare inside rtree_<table>_<column>_insert, so only
//	  what may continue an identifier)
//	kinds: attribute columns declared BOOLEAN / boolean (cells NULL, 0, 1) and BLOB (arbitrary bytes)
//	key:   INT PRIMARY KEY or TEXT PRIMARY KEY instead of INTEGER PRIMARY KEY (no rowid alias; genStream shuffles the keys)
func decorateTable(t *tableSpec, force int) {
	if force < 0 { // classes that are about something else keep their plain tables
		return
	}
	h := fnv.New64a()
	h.Write([]byte(t.Name))
	for _, c := range t.Cols {
		h.Write([]byte(c.Name + "|" + c.Type + ";"))
	}
	r := rand.New(rand.NewSource(int64(h.Sum64()) ^ 0x5deece66d))
	doNames := r.Intn(2) == 0 || force&1 != 0
	doKinds := r.Intn(3) > 0 || force&2 != 0
	doKey := r.Intn(4) == 0 || force&4 != 0
	used := map[string]bool{}
	for _, c := range t.Cols {
		used[strings.ToLower(c.Name)] = true
	}
	fresh := func(base string, i int) string { // SQLite compares column names without regard to (ASCII) case
		n := base
		for used[strings.ToLower(n)] {
			n = fmt.Sprintf("%s%d", base, i)
			i += 7
		}
		used[strings.ToLower(n)] = true
		return n
	}
	if doKinds {
		kinds := []string{"BOOLEAN", "BLOB", "boolean", "BLOB", "BOOLEAN"}
		for i := range t.Cols {
			c := &t.Cols[i]
			if c.PK == 0 && c.Name != t.GCol && r.Intn(3) == 0 {
				c.Type = kinds[r.Intn(len(kinds))]
			}
		}
		for n := r.Intn(3); n > 0; n-- {
			c := colSpec{Name: fresh([]string{"actief", "foto", "is_hoofd", "raw"}[r.Intn(4)], len(t.Cols)), Type: kinds[r.Intn(len(kinds))], NotNull: r.Intn(6) == 0}
			pos := r.Intn(len(t.Cols) + 1)
			t.Cols = append(t.Cols[:pos:pos], append([]colSpec{c}, t.Cols[pos:]...)...)
		}
	}
	if doNames {
		attrNames := []string{"order", "group", "select", "table", "street name", "huis-nr", "1e_verdieping", `a"b`, `naam "x"`, "ünï cödé",
			"from", "where", "index", "values", `"`, "a,b", " lead", "Order By", "x'y", "primary", "not null", "(a)", "a;b", "100%"}
		for i := range t.Cols {
			c := &t.Cols[i]
			switch {
			case c.Name == t.GCol:
				if r.Intn(3) == 0 {
					c.Name = fresh([]string{"select", "table", "1geom", "géom", "group", "order"}[r.Intn(6)], i)
					t.GCol = c.Name
				}
			case c.PK == 1:
				if r.Intn(3) == 0 {
					c.Name = fresh([]string{"order", "group by", "id-nr", "1id", "prim key", "ключ", "index", "a,b"}[r.Intn(8)], i)
				}
			case r.Intn(2) == 0:
				c.Name = fresh(attrNames[r.Intn(len(attrNames))], i)
			}
		}
	}
	if doKey {
		for i := range t.Cols {
			if t.Cols[i].PK == 1 {
				t.Cols[i].Type = []string{"INT", "INT", "TEXT"}[r.Intn(3)]
			}
		}
	}
}

// bareName: may the name be written into SQL as it is (letters, digits, underscore, bytes above 0x7f; no leading digit; none
// of the keywords the generators use)
func bareName(n string) bool {
	if n == "" || (n[0] >= '0' && n[0] <= '9') {
		return false
	}
	for _, ch := range n {
		if !(ch == '_' || ch >= 0x80 || (ch >= '0' && ch <= '9') || (ch >= 'a' && ch <= 'z') || (ch >= 'A' && ch <= 'Z')) {
			return false
		}
	}
	switch strings.ToLower(n) {
	case "order", "group", "select", "table", "from", "where", "index", "values", "primary":
		return false
	}
	return true
}

// plainNames: the table with every column name that needs quoting replaced by a bare one (scaffolding the harness builds
// in process with the tool's own writer must not depend on what the run under test is about)
func plainNames(t tableSpec) tableSpec {
	cols := append([]colSpec{}, t.Cols...)
	used := map[string]bool{}
	for _, c := range cols {
		used[strings.ToLower(c.Name)] = true
	}
	for i := range cols {
		if bareName(cols[i].Name) {
			continue
		}
		n := fmt.Sprintf("q%d", i)
		for used[n] {
			n += "_"
		}
		used[n] = true
		if cols[i].Name == t.GCol {
			t.GCol = n
		}
		cols[i].Name = n
	}
	t.Cols = cols
	t.Defaults = nil
	return t
}

// tableKinds names what a table has of the above, for the input distribution in the evidence
func tableKinds(t tableSpec) []string {
	var out []string
	bare := bareName
	nb, nblob, nq := 0, 0, 0
	for _, c := range t.Cols {
		if isBoolType(c.Type) {
			nb++
		}
		if isBlobType(c.Type) {
			nblob++
		}
		if !bare(c.Name) {
			nq++
			switch {
			case c.Name == t.GCol:
				out = append(out, "geometry column name needs quoting (keyword / leading digit)")
			case c.PK == 1:
				out = append(out, "primary key name needs quoting")
			}
		}
	}
	if nb > 0 {
		out = append(out, "tables with BOOLEAN columns")
	}
	if nblob > 0 {
		out = append(out, "tables with BLOB attribute columns")
	}
	if nq > 0 {
		out = append(out, "tables with column names that need quoting (keyword, space, dash, leading digit, double quote, comma ..)")
	} else {
		out = append(out, "tables whose column names are all legal bare identifiers")
	}
	if !t.pkIsRowid() {
		out = append(out, "primary key is no rowid alias ("+strings.ToUpper(t.pkType())+" PRIMARY KEY): keys out of order")
	}
	return out
}

func (t tableSpec) pkName() string {
	for _, c := range t.Cols {
		if c.PK == 1 {
			return c.Name
		}
	}
	return ""
}

// value of an attribute: K = 0 NULL, 1 integer, 2 real (R/8), 3 text (pool id T),
// 4 date/time: the INSTANT, I = nanoseconds since the Unix epoch (UTC).  A date/time cell is a column declared
// DATE / DATETIME / TIMESTAMP: the SQLite driver parses its text into a time.Time on the way out of the source and
// writes a time.Time in its own layout ("2006-01-02 15:04:05.999999999-07:00"), so the unchanged tool already
// changes the TEXT of such a cell; what must survive the copy is the instant, to the nanosecond.
// 5 blob (pool id T): a BLOB value in an attribute column -- distinct from the text with the same bytes (typeof).
// 6 boolean: the integer I = 0 / 1 in a column declared BOOLEAN: the SQLite driver hands such a cell over as a Go bool
// and binds a Go bool as the integer 1 / 0, so ReadFeatures delivers true / false and the target holds the integer
// again (in the Coq terms it IS that integer: VInt 0 / VInt 1).
type val struct {
	K int   `json:"k"`
	I int64 `json:"i,omitempty"`
	R int64 `json:"r,omitempty"`
	T int   `json:"t,omitempty"`
}

// texts of the text pool, by id; chosen to need care: empty string, quotes, unicode, digits only, a long one
var textPool = []string{"", "a", "O'Reilly", `say "hi"`, "ünïcödé ✓", "12", " leading and trailing ", "NULL",
	strings.Repeat("long ", 50), "line\nbreak", "semi;colon -- comment", "%v %d", "tab\tsep"}

// bytes of the blob pool, by id; chosen to need care: empty, a NUL byte, invalid UTF-8, the bytes of texts that are in
// the text pool too (only typeof tells them apart), valid UTF-8 beyond ASCII, the start of a GeoPackage geometry header,
// a few hundred arbitrary bytes
var blobPool = func() [][]byte {
	long := make([]byte, 300)
	x := uint32(2463534242)
	for i := range long {
		x ^= x << 13
		x ^= x >> 17
		x ^= x << 5
		long[i] = byte(x)
	}
	long[0], long[1], long[2] = 0xff, 0x00, 0xc3
	return [][]byte{{}, {0x00}, {0xff, 0xfe, 0x00, 0x80}, []byte("a"), []byte("O'Reilly"), []byte("ünïcödé ✓"),
		{'G', 'P', 0x00, 0x01, 0x40, 0x71, 0x00, 0x00}, {0x00, 'a', 0x00}, []byte("12"), {0xc3}, long}
}()

func (v val) goValue() interface{} {
	switch v.K {
	case 1:
		return v.I
	case 2:
		return float64(v.R) / 8
	case 3:
		return textPool[v.T]
	case 4: // what ReadFeatures delivers for a date/time column
		return time.Unix(0, v.I).UTC()
	case 5: // a copy, never nil (ReadFeatures makes one with make + copy): an empty blob is not NULL
		return append([]byte{}, blobPool[v.T]...)
	case 6: // what ReadFeatures delivers for an integer cell of a BOOLEAN column
		return v.I > 0
	case 7:
		return keyText(v.I)
	}
	return nil
}

// keyText: K = 7, the text of a TEXT PRIMARY KEY: 16 digits with leading zeros (as the identifiers of the Dutch base
// registers).  The rtree of the GeoPackage library takes the integer value of the key as its id.
func keyText(i int64) string { return fmt.Sprintf("%016d", i) }

// isBoolType: the declared type for which the SQLite driver hands an integer cell over as a Go bool (go-sqlite3 compares
// the lower-cased declared type with "boolean")
func isBoolType(typ string) bool { return strings.ToLower(typ) == "boolean" }

// isBlobType: a column the generators fill with blobs (SQLite itself does not care: a blob keeps its storage class in
// any column)
func isBlobType(typ string) bool {
	return strings.EqualFold(typ, "BLOB") || strings.EqualFold(typ, "MEDIUMBLOB")
}

// isTimeType: the declared types the SQLite driver converts to time.Time (go-sqlite3 compares the lower-cased
// declared type with "date", "datetime", "timestamp"; the verif SpatiaLite stand-in is the same driver type)
func isTimeType(typ string) bool {
	switch strings.ToLower(typ) {
	case "date", "datetime", "timestamp":
		return true
	}
	return false
}

// srcValue: the value as a SOURCE GeoPackage holds it: date/times as ISO 8601 text in UTC, the GeoPackage forms
// "2023-05-17" (DATE) and "2023-05-17T23:59:59.891Z" (DATETIME; whole seconds with or without ".000", finer than
// milliseconds with nine digits)
func (v val) srcValue(c colSpec) interface{} {
	if v.K == 6 { // the source holds the integer
		return v.I
	}
	if v.K != 4 {
		return v.goValue()
	}
	t := time.Unix(0, v.I).UTC()
	switch ns := t.Nanosecond(); {
	case strings.EqualFold(c.Type, "DATE") && ns == 0 && t.Hour() == 0 && t.Minute() == 0 && t.Second() == 0:
		return t.Format("2006-01-02")
	case ns%1000000 != 0:
		return t.Format("2006-01-02T15:04:05.000000000Z")
	case ns == 0 && t.Second()%2 == 0:
		return t.Format("2006-01-02T15:04:05Z")
	default:
		return t.Format("2006-01-02T15:04:05.000Z")
	}
}

func (v val) coq() string {
	switch v.K {
	case 1:
		return "VInt " + hc.CoqZ(v.I)
	case 2:
		return "VReal " + hc.CoqZ(v.R)
	case 3:
		return fmt.Sprintf("VText %d%%N", v.T)
	case 4:
		return "VTime " + hc.CoqZ(v.I)
	case 5:
		return fmt.Sprintf("VBlob %d%%N", v.T)
	case 6: // a Go bool is the integer the driver binds it as (Gpkg/SchemaOps.v value_of_bool)
		return "VInt " + hc.CoqZ(v.I)
	case 7: // a key text: a text id of its own range
		return fmt.Sprintf("VText %d%%N", 2000000+v.I)
	}
	return "VNull"
}

// layouts of a date/time text: ISO 8601 / the driver's, with or without zone (none = UTC, as the driver reads it)
var timeLayouts = []string{
	"2006-01-02T15:04:05.999999999Z07:00", "2006-01-02 15:04:05.999999999Z07:00",
	"2006-01-02T15:04:05.999999999", "2006-01-02 15:04:05.999999999",
	"2006-01-02T15:04Z07:00", "2006-01-02 15:04Z07:00", "2006-01-02T15:04", "2006-01-02 15:04", "2006-01-02",
}

func instantVal(t time.Time) val {
	if y := t.Year(); y < 1700 || y > 2250 { // outside UnixNano (e.g. the zero time the driver returns for text it cannot parse)
		return val{K: 3, T: 999997}
	}
	return val{K: 4, I: t.UnixNano()}
}

// cellVal: a cell of a column with declared type typ, read RAW (selectList hands every attribute cell over as the
// expression +"c", which has no declared type: the driver converts nothing) together with SQLite's typeof() of the
// cell.  The storage class decides what the value is: a TEXT and a BLOB with the same bytes are different values.
// Date/time columns: a text is parsed here: equal values = the same instant to the nanosecond, whatever the layout;
// text that is no date/time at all is not a date/time value (the driver would silently turn it into the zero time on
// BOTH sides).  BOOLEAN columns: the integers 0 / 1 are the boolean values.
func cellVal(x interface{}, typeof string, typ string) val {
	odd := func(code int) val { return val{K: 3, T: code} }
	switch typeof {
	case "null":
		if x != nil {
			return odd(999990)
		}
		return val{}
	case "integer":
		i, ok := x.(int64)
		if !ok {
			return odd(999991)
		}
		if isBoolType(typ) && (i == 0 || i == 1) {
			return val{K: 6, I: i}
		}
		return val{K: 1, I: i}
	case "real":
		f, ok := x.(float64)
		if !ok {
			return odd(999992)
		}
		return valOf(f)
	case "text":
		var t string
		switch v := x.(type) {
		case string:
			t = v
		case []byte:
			t = string(v)
		default:
			return odd(999993)
		}
		if !isTimeType(typ) {
			if len(t) == 16 && strings.Trim(t, "0123456789") == "" {
				if i, err := strconv.ParseInt(t, 10, 64); err == nil {
					return val{K: 7, I: i}
				}
			}
			return textVal(t)
		}
		for _, l := range timeLayouts {
			if tm, err := time.Parse(l, t); err == nil {
				return instantVal(tm)
			}
		}
		return odd(999996)
	case "blob":
		b, ok := x.([]byte)
		if !ok {
			return odd(999994)
		}
		return blobVal(b)
	}
	return odd(999995)
}

// qid: a name as an SQL identifier (the harness's own statements quote every table and column name)
func qid(name string) string { return `"` + strings.ReplaceAll(name, `"`, `""`) + `"` }

// selectList: per column the cell and SQLite's typeof of it.  An attribute cell is read as +"c" (an expression has no
// declared type: the driver hands the stored value over as it is -- no time.Time for DATE / DATETIME / TIMESTAMP, no
// bool for BOOLEAN), the geometry column as it is.  Result column 2i is the cell of column i, 2i+1 its typeof.
func selectList(cols []colSpec, gcol string) string {
	l := make([]string, 0, 2*len(cols))
	for _, c := range cols {
		if c.Name == gcol {
			l = append(l, qid(c.Name), "typeof("+qid(c.Name)+")")
		} else {
			l = append(l, "+"+qid(c.Name), "typeof("+qid(c.Name)+")")
		}
	}
	return strings.Join(l, ", ")
}

func tableInfo(db *sql.DB, table string) (cols []colSpec, dflt []bool, err error) {
	rows, err := db.Query(fmt.Sprintf(`PRAGMA table_info(%s)`, qid(table)))
	if err != nil {
		return nil, nil, err
	}
	defer rows.Close()
	for rows.Next() {
		var cid, notnull, pk int
		var name, typ string
		var d interface{}
		if err := rows.Scan(&cid, &name, &typ, &notnull, &d, &pk); err != nil {
			return nil, nil, err
		}
		cols = append(cols, colSpec{Name: name, Type: typ, NotNull: notnull == 1, PK: pk})
		dflt = append(dflt, d != nil)
	}
	return cols, dflt, rows.Err()
}

// valOf maps a number read back by database/sql to the abstract value
func valOf(x interface{}) val {
	switch v := x.(type) {
	case nil:
		return val{}
	case int64:
		return val{K: 1, I: v}
	case float64:
		r := v * 8
		if r == math.Trunc(r) && math.Abs(r) < 1e15 {
			return val{K: 2, R: int64(r)}
		}
		return val{K: 2, R: 1<<62 + int64(math.Float64bits(v)%1000)}
	}
	return val{K: 3, T: 999998}
}

// textVal / blobVal: the pool id of a text / of a blob (not in the pool: id 999999)
func textVal(s string) val {
	for i, t := range textPool {
		if t == s {
			return val{K: 3, T: i}
		}
	}
	return val{K: 3, T: 999999}
}

func blobVal(b []byte) val {
	for i, t := range blobPool {
		if string(t) == string(b) {
			return val{K: 5, T: i}
		}
	}
	return val{K: 5, T: 999999}
}

// geomSpec: Kind 1 point, 2 linestring, 3 polygon, 4 multipoint, 5 multilinestring, 6 multipolygon.
// Parts = polygons -> rings -> points; the lower kinds use the first ring / point.  Empty: no Parts
// (POINT EMPTY is the point (NaN, NaN)).  Coordinates are integers (exact in float64 and float32).
type geomSpec struct {
	Kind  int            `json:"kind"`
	Parts [][][][2]int64 `json:"parts,omitempty"`
}

func fpts(r [][2]int64) [][2]float64 {
	o := make([][2]float64, len(r))
	for i, p := range r {
		o[i] = [2]float64{float64(p[0]), float64(p[1])}
	}
	return o
}

func frings(rs [][][2]int64) [][][2]float64 {
	o := make([][][2]float64, len(rs))
	for i, r := range rs {
		o[i] = fpts(r)
	}
	return o
}

func (g geomSpec) toGeom() geom.Geometry {
	first := func() [][2]int64 {
		if len(g.Parts) > 0 && len(g.Parts[0]) > 0 {
			return g.Parts[0][0]
		}
		return nil
	}
	switch g.Kind {
	case 1:
		if r := first(); len(r) > 0 {
			return geom.Point{float64(r[0][0]), float64(r[0][1])}
		}
		return geom.Point{math.NaN(), math.NaN()}
	case 2:
		return geom.LineString(fpts(first()))
	case 3:
		if len(g.Parts) == 0 {
			return geom.Polygon{}
		}
		return geom.Polygon(frings(g.Parts[0]))
	case 4:
		return geom.MultiPoint(fpts(first()))
	case 5:
		if len(g.Parts) == 0 {
			return geom.MultiLineString{}
		}
		return geom.MultiLineString(frings(g.Parts[0]))
	case 6:
		mp := make(geom.MultiPolygon, len(g.Parts))
		for i, p := range g.Parts {
			mp[i] = frings(p)
		}
		return mp
	}
	return nil
}

func ipts(r [][2]float64) ([][2]int64, bool) {
	o := make([][2]int64, 0, len(r))
	ok := true
	for _, p := range r {
		if p[0] != math.Trunc(p[0]) || p[1] != math.Trunc(p[1]) || math.Abs(p[0]) > 1e15 || math.Abs(p[1]) > 1e15 {
			ok = false
			o = append(o, [2]int64{math.MinInt32, math.MinInt32})
			continue
		}
		o = append(o, [2]int64{int64(p[0]), int64(p[1])})
	}
	return o, ok
}

// specOf maps a decoded geometry back to a geomSpec (ok=false when a coordinate is not an integer)
func specOf(g geom.Geometry) (geomSpec, bool) {
	ok := true
	conv := func(r [][2]float64) [][2]int64 {
		o, k := ipts(r)
		ok = ok && k
		return o
	}
	convRings := func(rs [][][2]float64) [][][2]int64 {
		o := make([][][2]int64, len(rs))
		for i, r := range rs {
			o[i] = conv(r)
		}
		return o
	}
	switch v := g.(type) {
	case geom.Point:
		if v[0] != v[0] || v[1] != v[1] {
			return geomSpec{Kind: 1}, true
		}
		return geomSpec{Kind: 1, Parts: [][][][2]int64{{conv([][2]float64{v})}}}, ok
	case geom.LineString:
		if len(v) == 0 {
			return geomSpec{Kind: 2}, true
		}
		return geomSpec{Kind: 2, Parts: [][][][2]int64{{conv(v)}}}, ok
	case geom.Polygon:
		if len(v) == 0 {
			return geomSpec{Kind: 3}, true
		}
		return geomSpec{Kind: 3, Parts: [][][][2]int64{convRings(v)}}, ok
	case geom.MultiPoint:
		if len(v) == 0 {
			return geomSpec{Kind: 4}, true
		}
		return geomSpec{Kind: 4, Parts: [][][][2]int64{{conv(v)}}}, ok
	case geom.MultiLineString:
		if len(v) == 0 {
			return geomSpec{Kind: 5}, true
		}
		return geomSpec{Kind: 5, Parts: [][][][2]int64{convRings(v)}}, ok
	case geom.MultiPolygon:
		if len(v) == 0 {
			return geomSpec{Kind: 6}, true
		}
		s := geomSpec{Kind: 6}
		for _, p := range v {
			s.Parts = append(s.Parts, convRings(p))
		}
		return s, ok
	}
	return geomSpec{Kind: 0}, false
}

func (g geomSpec) flat() [][2]int64 {
	var o [][2]int64
	for _, p := range g.Parts {
		for _, r := range p {
			o = append(o, r...)
		}
	}
	return o
}

func (g geomSpec) isEmpty() bool { return len(g.flat()) == 0 }

// digest of the exact shape (type + nesting + coordinates)
func (g geomSpec) digest() uint32 {
	h := fnv.New32a()
	fmt.Fprintf(h, "%d|", g.Kind)
	for _, p := range g.Parts {
		h.Write([]byte("P"))
		for _, r := range p {
			h.Write([]byte("R"))
			for _, q := range r {
				fmt.Fprintf(h, "%d,%d;", q[0], q[1])
			}
		}
	}
	return h.Sum32()
}

func (g geomSpec) coq() string {
	return fmt.Sprintf("MkGeom %d%%N %s %d%%N", g.Kind, hc.CoqPts(g.flat()), g.digest())
}

// bbox = [minx miny maxx maxy]; ok=false when there is no coordinate
type bbox struct {
	MinX, MinY, MaxX, MaxY int64
}

func bboxOf(pts [][2]int64) (bbox, bool) {
	if len(pts) == 0 {
		return bbox{}, false
	}
	b := bbox{pts[0][0], pts[0][1], pts[0][0], pts[0][1]}
	for _, p := range pts {
		if p[0] < b.MinX {
			b.MinX = p[0]
		}
		if p[0] > b.MaxX {
			b.MaxX = p[0]
		}
		if p[1] < b.MinY {
			b.MinY = p[1]
		}
		if p[1] > b.MaxY {
			b.MaxY = p[1]
		}
	}
	return b, true
}

func (b bbox) coq() string {
	return fmt.Sprintf("MkExt %s %s %s %s", hc.CoqZ(b.MinX), hc.CoqZ(b.MinY), hc.CoqZ(b.MaxX), hc.CoqZ(b.MaxY))
}

func coqOptBBox(b *bbox) string {
	if b == nil {
		return "None"
	}
	return "(Some (" + b.coq() + "))"
}

func coqString(s string) string {
	return `"` + strings.ReplaceAll(s, `"`, `""`) + `"%string`
}

func fnv32(s string) uint32 {
	h := fnv.New32a()
	h.Write([]byte(s))
	return h.Sum32()
}

func (s srsSpec) coq() string {
	return fmt.Sprintf("MkSrs %s %s %s %s %d%%N %s", coqString(s.Name), hc.CoqZ(int64(s.ID)), coqString(s.Org),
		hc.CoqZ(int64(s.OrgID)), fnv32(s.Def), coqString(s.Desc))
}

func (c colSpec) coq() string {
	return fmt.Sprintf("MkCol %s %s %s %d%%N", coqString(c.Name), coqString(c.Type), hc.CoqBool(c.NotNull), c.PK)
}

func coqCols(cs []colSpec) string {
	s := make([]string, len(cs))
	for i, c := range cs {
		s[i] = c.coq()
	}
	return hc.CoqList(s)
}

func (t tableSpec) coq() string {
	return fmt.Sprintf("MkTable %s %s %s %d%%N (%s)", coqString(t.Name), coqCols(t.Cols), coqString(t.GCol),
		gtypeCode[t.GType], t.Srs.coq())
}

// ---- writing a source GeoPackage with plain SQL ----------------------------------------------------------

func knownSrsSpec(id int) (srsSpec, bool) {
	k, ok := gs.KnownSRS[int32(id)]
	if !ok {
		return srsSpec{}, false
	}
	return srsSpec{Name: k.Name, ID: k.ID, Org: k.Organization, OrgID: k.OrganizationCoordsysID, Def: k.Definition, Desc: k.Description}, true
}

func (c colSpec) ddl() string {
	s := qid(c.Name) + " " + c.Type
	if c.NotNull {
		s += " NOT NULL"
	}
	if c.PK == 1 {
		s += " PRIMARY KEY"
	}
	return s
}

// createSource makes a GeoPackage with the given feature tables (metadata rows by plain SQL; no rtree
// in the source) and returns the open handle.
func createSource(path string, tables []tableSpec) (*gs.Handle, error) {
	h, err := gs.Open(path)
	if err != nil {
		return nil, err
	}
	for _, t := range tables {
		s := t.Srs
		if _, err = h.Exec(`INSERT OR REPLACE INTO gpkg_spatial_ref_sys(srs_name,srs_id,organization,organization_coordsys_id,definition,description) VALUES(?,?,?,?,?,?)`,
			s.Name, s.ID, s.Org, s.OrgID, s.Def, s.Desc); err != nil {
			return nil, fmt.Errorf("srs: %w", err)
		}
		defs := make([]string, len(t.Cols))
		for i, c := range t.Cols {
			defs[i] = c.ddl()
			if d, ok := t.Defaults[c.Name]; ok {
				defs[i] += " DEFAULT " + d
			}
		}
		if _, err = h.Exec(fmt.Sprintf(`CREATE TABLE %s(%s)`, qid(t.Name), strings.Join(defs, ", "))); err != nil {
			return nil, fmt.Errorf("create %s: %w", t.Name, err)
		}
		var e [4]interface{} // NULL unless the source records an extent
		if len(t.SrcExtent) == 4 {
			e = [4]interface{}{t.SrcExtent[0], t.SrcExtent[1], t.SrcExtent[2], t.SrcExtent[3]}
		}
		if _, err = h.Exec(`INSERT INTO gpkg_contents(table_name,data_type,identifier,description,srs_id,min_x,min_y,max_x,max_y) VALUES(?,?,?,?,?,?,?,?,?)`,
			t.Name, "features", "ident of "+t.Name, "description of "+t.Name, s.ID, e[0], e[1], e[2], e[3]); err != nil {
			return nil, fmt.Errorf("contents: %w", err)
		}
		if _, err = h.Exec(`INSERT INTO gpkg_geometry_columns(table_name,column_name,geometry_type_name,srs_id,z,m) VALUES(?,?,?,?,?,?)`,
			t.Name, t.GCol, t.GType, s.ID, t.Z, t.M); err != nil {
			return nil, fmt.Errorf("geometry_columns: %w", err)
		}
	}
	return h, nil
}

// insertRows stores features as rows of a source table, in the given order (plain SQL; date/times as the GeoPackage text
// forms, booleans as the integers 0 / 1, blobs as blobs)
func insertRows(h *gs.Handle, t tableSpec, attrs [][]val, geoms []geom.Geometry) error {
	if len(attrs) == 0 {
		return nil
	}
	tx, err := h.Begin()
	if err != nil {
		return err
	}
	var names, marks []string
	for _, c := range t.Cols {
		names = append(names, qid(c.Name))
		marks = append(marks, "?")
	}
	stmt, err := tx.Prepare(fmt.Sprintf(`INSERT INTO %s(%s) VALUES(%s)`, qid(t.Name), strings.Join(names, ","), strings.Join(marks, ",")))
	if err != nil {
		_ = tx.Rollback()
		return err
	}
	for i := range attrs {
		var args []interface{}
		ai := 0
		for _, c := range t.Cols {
			if c.Name == t.GCol {
				sb, err := gs.NewBinary(int32(t.Srs.ID), geoms[i])
				if err != nil {
					_ = tx.Rollback()
					return err
				}
				args = append(args, sb)
			} else {
				args = append(args, attrs[i][ai].srcValue(c))
				ai++
			}
		}
		if _, err := stmt.Exec(args...); err != nil {
			_ = tx.Rollback()
			return err
		}
	}
	stmt.Close()
	return tx.Commit()
}

// ---- reading a GeoPackage back -------------------------------------------------------------------------------

type obsGeom struct {
	Spec      geomSpec `json:"spec"`
	IntCoords bool     `json:"int_coords"`
	SrsID     int32    `json:"srs_id"`
	FlagEmpty bool     `json:"flag_empty"`
	Envelope  []string `json:"envelope"`
	Err       string   `json:"err,omitempty"`
	Null      bool     `json:"null,omitempty"`
}

type obsCell struct {
	IsGeom bool     `json:"g,omitempty"`
	V      val      `json:"v"`
	G      *obsGeom `json:"geom,omitempty"`
}

type obsRtree struct {
	ID                     int64
	MinX, MaxX, MinY, MaxY float64
}

type obsTable struct {
	Name    string      `json:"name"`
	Cols    []colSpec   `json:"cols"`
	Dflt    []bool      `json:"dflt_set"`
	Rows    [][]obsCell `json:"rows"`
	Extent  []*float64  `json:"extent"` // min_x min_y max_x max_y (nil = NULL)
	Rtree   []obsRtree  `json:"rtree"`
	RtreeOK bool        `json:"rtree_table_exists"`
	// gpkg_contents / gpkg_geometry_columns
	DataType, Identifier, Description string
	ContentsSrs                       int64
	GCol, GType                       string
	GSrs, Z, M                        int64
	Extension                         bool // gpkg_extensions row for the rtree
}

type obsFile struct {
	Tables  []obsTable `json:"tables"` // in gpkg_contents rowid order
	Srs     []srsSpec  `json:"srs"`    // ORDER BY srs_id
	AppID   int64      `json:"application_id"`
	Counter uint32     `json:"change_counter"`
	Err     string     `json:"err,omitempty"`
}

func changeCounter(path string) uint32 {
	f, err := os.Open(path)
	if err != nil {
		return 0
	}
	defer f.Close()
	var b [28]byte
	if _, err := f.ReadAt(b[:], 0); err != nil {
		return 0
	}
	return binary.BigEndian.Uint32(b[24:28])
}

func decodeGeomCell(x interface{}) *obsGeom {
	if x == nil {
		return &obsGeom{Null: true}
	}
	blob, ok := x.([]byte)
	if !ok {
		return &obsGeom{Err: fmt.Sprintf("geometry cell is %T", x)}
	}
	sb, err := gs.DecodeGeometry(blob)
	if err != nil {
		return &obsGeom{Err: err.Error()}
	}
	spec, ints := specOf(sb.Geometry)
	o := &obsGeom{Spec: spec, IntCoords: ints, SrsID: sb.SRSID, FlagEmpty: sb.Header.IsGeometryEmpty()}
	for _, e := range sb.Header.Envelope() {
		o.Envelope = append(o.Envelope, fmt.Sprint(e))
	}
	if cmp.IsEmptyGeo(sb.Geometry) != spec.isEmpty() {
		o.Err = "IsEmptyGeo disagrees with the coordinate list"
	}
	return o
}

func readFile(path string) obsFile {
	var o obsFile
	o.Counter = changeCounter(path)
	db, err := sql.Open("spatialite", path)
	if err != nil {
		o.Err = err.Error()
		return o
	}
	defer db.Close()
	fail := func(err error) obsFile { o.Err = err.Error(); return o }
	_ = db.QueryRow(`PRAGMA application_id`).Scan(&o.AppID)

	rows, err := db.Query(`SELECT srs_name,srs_id,organization,organization_coordsys_id,definition,description FROM gpkg_spatial_ref_sys ORDER BY srs_id`)
	if err != nil {
		return fail(err)
	}
	for rows.Next() {
		var s srsSpec
		var desc *string
		if err := rows.Scan(&s.Name, &s.ID, &s.Org, &s.OrgID, &s.Def, &desc); err != nil {
			rows.Close()
			return fail(err)
		}
		if desc != nil {
			s.Desc = *desc
		} else {
			s.Desc = "<NULL>"
		}
		o.Srs = append(o.Srs, s)
	}
	rows.Close()

	rows, err = db.Query(`SELECT table_name,data_type,identifier,description,min_x,min_y,max_x,max_y,srs_id FROM gpkg_contents ORDER BY rowid`)
	if err != nil {
		return fail(err)
	}
	for rows.Next() {
		var t obsTable
		var ident, descr *string
		var e [4]*float64
		var srs *int64
		if err := rows.Scan(&t.Name, &t.DataType, &ident, &descr, &e[0], &e[1], &e[2], &e[3], &srs); err != nil {
			rows.Close()
			return fail(err)
		}
		if ident != nil {
			t.Identifier = *ident
		}
		if descr != nil {
			t.Description = *descr
		}
		if srs != nil {
			t.ContentsSrs = *srs
		} else {
			t.ContentsSrs = math.MinInt32
		}
		t.Extent = e[:]
		o.Tables = append(o.Tables, t)
	}
	rows.Close()

	for i := range o.Tables {
		t := &o.Tables[i]
		err := db.QueryRow(`SELECT column_name,geometry_type_name,srs_id,z,m FROM gpkg_geometry_columns WHERE table_name=?`, t.Name).
			Scan(&t.GCol, &t.GType, &t.GSrs, &t.Z, &t.M)
		if err != nil {
			return fail(fmt.Errorf("gpkg_geometry_columns %s: %w", t.Name, err))
		}
		var n int
		_ = db.QueryRow(`SELECT count(*) FROM gpkg_extensions WHERE table_name=? AND column_name=? AND extension_name='gpkg_rtree_index'`, t.Name, t.GCol).Scan(&n)
		t.Extension = n == 1

		if t.Cols, t.Dflt, err = tableInfo(db, t.Name); err != nil {
			return fail(err)
		}
		// the rows in the order the table stores them (rowid order = insertion order), NOT in key order
		rows, err := db.Query(fmt.Sprintf(`SELECT %s FROM %s ORDER BY rowid`, selectList(t.Cols, t.GCol), qid(t.Name)))
		if err != nil {
			return fail(err)
		}
		for rows.Next() {
			vals, err := scanCells(rows, len(t.Cols))
			if err != nil {
				rows.Close()
				return fail(err)
			}
			row := make([]obsCell, len(t.Cols))
			for k, c := range t.Cols {
				if c.Name == t.GCol {
					row[k] = obsCell{IsGeom: true, G: decodeGeomCell(vals[2*k])}
				} else {
					row[k] = obsCell{V: cellVal(vals[2*k], fmt.Sprint(vals[2*k+1]), c.Type)}
				}
			}
			t.Rows = append(t.Rows, row)
		}
		rows.Close()

		rows, err = db.Query(fmt.Sprintf(`SELECT id,minx,maxx,miny,maxy FROM %s ORDER BY id`, qid("rtree_"+t.Name+"_"+t.GCol)))
		if err == nil {
			t.RtreeOK = true
			for rows.Next() {
				var r obsRtree
				if err := rows.Scan(&r.ID, &r.MinX, &r.MaxX, &r.MinY, &r.MaxY); err != nil {
					rows.Close()
					return fail(err)
				}
				t.Rtree = append(t.Rtree, r)
			}
			rows.Close()
		}
	}
	return o
}

// scanCells: the current row of a selectList query over n columns: 2n values (cell, typeof, cell, typeof, ..)
func scanCells(rows *sql.Rows, n int) ([]interface{}, error) {
	vals := make([]interface{}, 2*n)
	ptrs := make([]interface{}, 2*n)
	for k := range vals {
		ptrs[k] = &vals[k]
	}
	if err := rows.Scan(ptrs...); err != nil {
		return nil, err
	}
	for k := 1; k < len(vals); k += 2 { // typeof comes as string (or []byte with older drivers)
		if b, ok := vals[k].([]byte); ok {
			vals[k] = string(b)
		}
	}
	return vals, nil
}

func sortedKeys(m map[string]int) []string {
	k := make([]string, 0, len(m))
	for s := range m {
		k = append(k, s)
	}
	sort.Strings(k)
	return k
}
