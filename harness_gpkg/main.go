// Command harness_gpkg is tie H of /verif for the GeoPackage target writer (C12) and the command
// line tool (C13): it drives the real processing/gpkg.TargetGeopackage and the real texel binary
// (both from /repo's working tree, built with -tags verif so that the SpatiaLite stand-in of
// processing/gpkg/verif_spatialite.go is linked), reads the written files back with database/sql,
// applies the property oracle, and writes Coq case files with the inputs and the observed outputs.
package main

import (
	"os"

	hc "verif/hcommon"
)

var props = map[string]hc.PropFunc{}

func main() {
	// worker mode: the C12 cases run in child processes, because the implementation ends the process
	// (log.Fatalf) on most errors
	if len(os.Args) > 1 && os.Args[1] == "c12worker" {
		os.Exit(c12Worker(os.Args[2:]))
	}
	hc.Main(props)
}
