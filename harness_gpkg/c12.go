package main

// C12 — target GeoPackage is complete and consistent for any page size.
//
// Drives the REAL processing/gpkg.TargetGeopackage (Init, CreateTables, WriteFeatures over a channel,
// Close) of /repo's working tree, reads the written file back with database/sql, applies an oracle that
// is independent of the Coq model, and emits correspondence cases for Texel.Corr.C12.  In a third of the
// cases ("via source") the harness stores the features as rows of the source table and the writer receives
// what the REAL SourceGeopackage.ReadFeatures delivers for them, as in the tool.
//
// The implementation stops the process with log.Fatalf on most errors, so the cases run in worker
// processes (this executable re-executed as `c12worker in out dir`); a worker that dies is a violation
// with the case it was running as the failing input.

import (
	"bufio"
	"bytes"
	"encoding/json"
	"fmt"
	"math/rand"
	"os"
	"os/exec"
	"path/filepath"
	"reflect"
	"sort"
	"strings"
	"sync"
	"time"

	"github.com/go-spatial/geom"
	"github.com/pdok/texel/processing"
	tg "github.com/pdok/texel/processing/gpkg"

	hc "verif/hcommon"
)

func init() { props["C12"] = runC12 }

type c12Feat struct {
	Attrs []val    `json:"attrs"`
	G     geomSpec `json:"geom"`
}

type c12Call struct {
	Table string    `json:"table"`
	Feats []c12Feat `json:"features"`
}

type c12Case struct {
	ID     int         `json:"id"`
	Class  string      `json:"class"`
	P      int         `json:"pagesize"`
	Tables []tableSpec `json:"tables"`
	Calls  []c12Call   `json:"calls"`
	// ViaSource: the features of every call are stored as rows of the source table (plain SQL, in stream order) and the
	// writer is fed with what the real ReadFeatures delivers for them, instead of features made by the harness
	ViaSource bool `json:"via_source,omitempty"`
}

type c12Obs struct {
	ID   int     `json:"id"`
	C0   uint32  `json:"counter_before"`
	C1   uint32  `json:"counter_after"`
	File obsFile `json:"file"`
	Err  string  `json:"err,omitempty"`
	// via source: what ReadFeatures delivered differs from the rows (first few differences)
	Read []string `json:"read_differences,omitempty"`
}

// ---- the implementation run (worker side) ------------------------------------------------------------

type c12Feature struct {
	cols []interface{}
	g    geom.Geometry
}

func (f c12Feature) Columns() []interface{}  { return f.cols }
func (f c12Feature) Geometry() geom.Geometry { return f.g }

func runC12Case(dir string, k c12Case) (o c12Obs) {
	o.ID = k.ID
	src := filepath.Join(dir, fmt.Sprintf("src_%d.gpkg", k.ID))
	tgt := filepath.Join(dir, fmt.Sprintf("tgt_%d.gpkg", k.ID))
	defer os.Remove(src)
	defer os.Remove(tgt)
	defer os.Remove(tgt + "-journal")
	h, err := createSource(src, k.Tables)
	if err != nil {
		o.Err = "harness: creating the source: " + err.Error()
		return o
	}
	if k.ViaSource {
		for _, ts := range k.Tables {
			var attrs [][]val
			var geoms []geom.Geometry
			for _, call := range k.Calls {
				if call.Table == ts.Name {
					for _, f := range call.Feats {
						attrs = append(attrs, f.Attrs)
						geoms = append(geoms, f.G.toGeom())
					}
				}
			}
			if err := insertRows(h, ts, attrs, geoms); err != nil {
				h.Close()
				o.Err = "harness: filling the source table " + ts.Name + ": " + err.Error()
				return o
			}
		}
	}
	h.Close()

	// gpkg.Table has unexported fields: the values come from the implementation's own GetTableInfo
	s := tg.SourceGeopackage{}
	s.Init(src)
	infos := s.GetTableInfo()
	s.Close()
	byName := map[string]tg.Table{}
	for _, t := range infos {
		byName[t.Name] = t
	}
	tables := make([]tg.Table, 0, len(k.Tables))
	for _, ts := range k.Tables {
		t, ok := byName[ts.Name]
		if !ok {
			o.Err = "GetTableInfo does not return table " + ts.Name
			return o
		}
		tables = append(tables, t)
	}

	// via source: the real reader delivers the rows of every table (all calls of the table, in order)
	read := map[string][]processing.Feature{}
	if k.ViaSource {
		for _, ts := range k.Tables {
			fmt.Fprintf(os.Stderr, "[c12worker] case %d: ReadFeatures of %s\n", k.ID, ts.Name)
			rs := tg.SourceGeopackage{Table: byName[ts.Name]}
			rs.Init(src)
			ch := make(chan processing.Feature)
			go rs.ReadFeatures(ch)
			for f := range ch {
				read[ts.Name] = append(read[ts.Name], f)
			}
			rs.Close()
			var want []c12Feat
			for _, call := range k.Calls {
				if call.Table == ts.Name {
					want = append(want, call.Feats...)
				}
			}
			if len(read[ts.Name]) != len(want) {
				o.Err = fmt.Sprintf("ReadFeatures delivers %d features for the %d rows of %s", len(read[ts.Name]), len(want), ts.Name)
				return o
			}
			for i, f := range read[ts.Name] {
				if d := readDifference(f.Columns(), want[i].Attrs); d != "" && len(o.Read) < 5 {
					o.Read = append(o.Read, fmt.Sprintf("table %s row %d: %s", ts.Name, i, d))
				}
			}
		}
	}

	t := tg.TargetGeopackage{}
	t.Init(tgt, k.P)
	if err := t.CreateTables(tables); err != nil {
		o.Err = "CreateTables: " + err.Error()
		t.Close()
		return o
	}
	o.C0 = changeCounter(tgt)
	for _, call := range k.Calls {
		t.Table = byName[call.Table]
		ch := make(chan processing.Feature)
		done := make(chan struct{})
		go func() { defer close(done); t.WriteFeatures(ch) }()
		if k.ViaSource {
			n := len(call.Feats)
			for _, f := range read[call.Table][:n] {
				ch <- f
			}
			read[call.Table] = read[call.Table][n:]
		} else {
			for _, f := range call.Feats {
				var cols []interface{} // built by repeated append, as ReadFeatures does (spare capacity)
				for _, a := range f.Attrs {
					cols = append(cols, a.goValue())
				}
				ch <- c12Feature{cols: cols, g: f.G.toGeom()}
			}
		}
		close(ch)
		<-done
	}
	t.Close()
	o.C1 = changeCounter(tgt)
	o.File = readFile(tgt)
	return o
}

// readDifference: the attribute values a feature of ReadFeatures carries against the values of the row it was read from:
// the same Go values the harness itself would hand to the writer (int64, float64, string, []byte for a blob, bool for a
// BOOLEAN cell, time.Time for a date/time cell, nil) -- "" when equal
func readDifference(got []interface{}, want []val) string {
	if len(got) != len(want) {
		return fmt.Sprintf("%d attribute values for %d attribute columns", len(got), len(want))
	}
	for i, w := range want {
		g, e := got[i], w.goValue()
		same := false
		switch ev := e.(type) {
		case []byte:
			gb, ok := g.([]byte)
			same = ok && gb != nil && bytes.Equal(gb, ev)
		case time.Time:
			gt, ok := g.(time.Time)
			same = ok && gt.Equal(ev)
		default:
			same = g == e
		}
		if !same {
			return fmt.Sprintf("attribute %d is %T(%v), the row holds %T(%v)", i, g, g, e, e)
		}
	}
	return ""
}

// c12Worker: `harness_gpkg c12worker <cases.json> <out.jsonl> <dir>`
func c12Worker(args []string) int {
	if len(args) != 3 {
		fmt.Fprintln(os.Stderr, "usage: c12worker cases.json out.jsonl dir")
		return 2
	}
	b, err := os.ReadFile(args[0])
	if err != nil {
		fmt.Fprintln(os.Stderr, err)
		return 2
	}
	var cases []c12Case
	if err := json.Unmarshal(b, &cases); err != nil {
		fmt.Fprintln(os.Stderr, err)
		return 2
	}
	out, err := os.OpenFile(args[1], os.O_APPEND|os.O_CREATE|os.O_WRONLY, 0o644)
	if err != nil {
		fmt.Fprintln(os.Stderr, err)
		return 2
	}
	defer out.Close()
	for _, k := range cases {
		fmt.Fprintf(os.Stderr, "[c12worker] case %d\n", k.ID)
		o := runC12Case(args[2], k)
		line, _ := json.Marshal(o)
		if _, err := out.Write(append(line, '\n')); err != nil {
			fmt.Fprintln(os.Stderr, err)
			return 2
		}
	}
	return 0
}

// ---- generators -------------------------------------------------------------------------------------------

var c12Words = []string{"roads", "parcels", "water", "Build_ings", "poi", "t", "Land_use2", "x9"}

func genSrs(r *rand.Rand, mode int) srsSpec {
	switch mode {
	case 0: // an id of its own
		id := []int{28992, 3035, 25831, 900913, 100000 + r.Intn(1000)}[r.Intn(5)]
		orgID := id
		if r.Intn(3) == 0 { // srs_id is a file-local key: the organisation's own code may differ from it
			orgID = []int{28992, 7415, 1, id + 1}[r.Intn(4)]
		}
		return srsSpec{Name: fmt.Sprintf("srs %d name", id), ID: id, Org: []string{"EPSG", "epsg", "NONE", "custom org"}[r.Intn(4)],
			OrgID: orgID, Def: fmt.Sprintf(`PROJCS["definition of %d",UNIT["metre",1]] %d`, id, r.Intn(1000)), Desc: []string{"", "a description", "ünï"}[r.Intn(3)]}
	case 1: // an id the library pre-seeds, with the library's content
		id := []int{3857, 4326, 0, -1}[r.Intn(4)]
		s, _ := knownSrsSpec(id)
		return s
	default: // an id the library pre-seeds, with the content another writer (e.g. GDAL) gives it
		id := []int{3857, 4326}[r.Intn(2)]
		if id == 3857 {
			return srsSpec{Name: "WGS 84 / Pseudo-Mercator", ID: 3857, Org: "EPSG", OrgID: 3857, Def: `PROJCS["WGS 84 / Pseudo-Mercator",GEOGCS["WGS 84"]]`, Desc: "as GDAL writes it"}
		}
		return srsSpec{Name: "WGS 84 geodetic", ID: 4326, Org: "EPSG", OrgID: 4326, Def: `GEOGCS["WGS 84",DATUM["WGS_1984"]]`, Desc: "longitude/latitude"}
	}
}

func genTable(r *rand.Rand, idx int, srs srsSpec) tableSpec {
	t := tableSpec{Name: fmt.Sprintf("%s_%d", c12Words[r.Intn(len(c12Words))], idx), Srs: srs}
	t.GCol = []string{"geom", "geometry", "shape", "the_geom"}[r.Intn(4)]
	t.GType = []string{"POINT", "LINESTRING", "POLYGON", "MULTIPOLYGON", "GEOMETRY", "MULTIPOINT", "MULTILINESTRING", "GEOMETRYCOLLECTION"}[r.Intn(8)]
	pk := colSpec{Name: []string{"fid", "id", "ogc_fid"}[r.Intn(3)], Type: "INTEGER", NotNull: r.Intn(2) == 0, PK: 1}
	nattr := r.Intn(6)
	var attrs []colSpec
	types := []string{"INTEGER", "MEDIUMINT", "REAL", "DOUBLE", "TEXT", "TEXT(20)", "DATETIME", "DATETIME", "DATE", "TIMESTAMP"}
	for i := 0; i < nattr; i++ {
		attrs = append(attrs, colSpec{Name: fmt.Sprintf("%s%d", []string{"a", "naam", "Col_", "v", "a", "naam", "hoogte_m²_", "straße", "étages", "opp\u00a0m"}[r.Intn(10)], i), Type: types[r.Intn(len(types))], NotNull: r.Intn(5) == 0})
	}
	t.Z, t.M = []int{0, 0, 2}[r.Intn(3)], []int{0, 0, 2}[r.Intn(3)] // prohibited / optional; the features are XY
	g := colSpec{Name: t.GCol, Type: t.GType}
	// positions: the geometry column first / middle / last, the key first (usual) or elsewhere
	cols := append([]colSpec{}, attrs...)
	pkPos := 0
	if r.Intn(5) == 0 {
		pkPos = r.Intn(len(cols) + 1)
	}
	cols = append(cols[:pkPos:pkPos], append([]colSpec{pk}, cols[pkPos:]...)...)
	gPos := len(cols)
	switch r.Intn(3) {
	case 0:
		gPos = r.Intn(len(cols) + 1)
	case 1:
		if len(cols) > 1 {
			gPos = 1 + r.Intn(len(cols)-1)
		}
	}
	cols = append(cols[:gPos:gPos], append([]colSpec{g}, cols[gPos:]...)...)
	t.Cols = cols
	decorateTable(&t, 0)
	t.Defaults = genDefaults(t)
	return t
}

func genPts(r *rand.Rand, n int, big bool) [][2]int64 {
	lim := int64(1000)
	if big {
		lim = 1 << 22
	}
	cx, cy := r.Int63n(2*lim)-lim, r.Int63n(2*lim)-lim
	p := make([][2]int64, n)
	for i := range p {
		p[i] = [2]int64{cx + r.Int63n(41) - 20, cy + r.Int63n(41) - 20}
	}
	return p
}

// rings are OPEN in this geometry library (the WKB encoder closes them, the decoder opens them again)
func genRing(r *rand.Rand, big bool) [][2]int64 {
	for {
		p := genPts(r, 3+r.Intn(3), big)
		if p[0] != p[len(p)-1] { // a ring that happens to be closed would come back without its last point
			return p
		}
	}
}

func genGeom(r *rand.Rand, kind int, empty bool) geomSpec {
	g := geomSpec{Kind: kind}
	if empty {
		return g
	}
	big := r.Intn(10) == 0
	switch kind {
	case 1:
		g.Parts = [][][][2]int64{{genPts(r, 1, big)}}
	case 2:
		g.Parts = [][][][2]int64{{genPts(r, 2+r.Intn(3), big)}}
	case 3:
		rings := [][][2]int64{genRing(r, big)}
		if r.Intn(3) == 0 {
			rings = append(rings, genRing(r, big))
		}
		g.Parts = [][][][2]int64{rings}
	case 4:
		g.Parts = [][][][2]int64{{genPts(r, 1+r.Intn(3), big)}}
	case 5:
		g.Parts = [][][][2]int64{{genPts(r, 2, big), genPts(r, 3, big)}}
	case 6:
		for i := 0; i < 1+r.Intn(3); i++ {
			g.Parts = append(g.Parts, [][][2]int64{genRing(r, big)})
		}
	}
	return g
}

var kindOfType = map[string]int{"POINT": 1, "LINESTRING": 2, "POLYGON": 3, "MULTIPOINT": 4, "MULTILINESTRING": 5, "MULTIPOLYGON": 6}

func genAttr(r *rand.Rand, c colSpec) val {
	if !c.NotNull && r.Intn(5) == 0 {
		return val{}
	}
	switch {
	case isTimeType(c.Type):
		return genTime(r, c.Type)
	case isBoolType(c.Type): // the cells of a BOOLEAN column: NULL (above), 0, 1
		return val{K: 6, I: int64(r.Intn(2))}
	case isBlobType(c.Type): // mostly blobs; a text or an integer keeps its storage class in such a column too
		switch r.Intn(8) {
		case 0:
			return val{K: 3, T: r.Intn(len(textPool))}
		case 1:
			return val{K: 1, I: r.Int63n(2001) - 1000}
		}
		return val{K: 5, T: r.Intn(len(blobPool))}
	case strings.HasPrefix(c.Type, "TEXT"):
		if r.Intn(10) == 0 { // a blob in a TEXT column stays a blob
			return val{K: 5, T: r.Intn(len(blobPool))}
		}
		return val{K: 3, T: r.Intn(len(textPool))}
	case c.Type == "REAL" || c.Type == "DOUBLE":
		return val{K: 2, R: r.Int63n(2000001) - 1000000}
	default:
		switch r.Intn(6) {
		case 0:
			return val{K: 1, I: 0}
		case 1:
			return val{K: 1, I: -(1 << 62)}
		case 2:
			return val{K: 1, I: 1<<63 - 1}
		}
		return val{K: 1, I: r.Int63n(2001) - 1000}
	}
}

// genTime: an instant between 1915 and 2134.  DATE: midnight UTC.  DATETIME / TIMESTAMP: mostly with non-zero
// milliseconds (the GeoPackage form 2023-05-17T23:59:59.891Z), some whole seconds, for TIMESTAMP sometimes down to
// the nanosecond; a few fixed instants at the edges (last millisecond of a year, just before the epoch).
func genTime(r *rand.Rand, typ string) val {
	const dayNs = int64(86400) * 1000000000
	day := int64(r.Intn(80000)) - 20000
	if strings.EqualFold(typ, "DATE") {
		return val{K: 4, I: day * dayNs}
	}
	ns := day*dayNs + int64(r.Intn(86400))*1000000000
	switch k := r.Intn(20); {
	case k < 5: // whole seconds
	case k == 5:
		return val{K: 4, I: 1577836799891000000} // 2019-12-31T23:59:59.891Z
	case k == 6:
		return val{K: 4, I: -1000000} // 1969-12-31T23:59:59.999Z
	case k < 9 && strings.EqualFold(typ, "TIMESTAMP"):
		ns += 1 + r.Int63n(999999999)
	default:
		ns += int64(1+r.Intn(999)) * 1000000
	}
	return val{K: 4, I: ns}
}

// genStream: n features for table t.  pkMode 0: explicit increasing keys starting after `last`; 1: NULL keys
// (SQLite assigns max+1).  emptyMode 0: ~20% empty geometries, 1: all empty, 2: none empty.
func genStream(r *rand.Rand, t tableSpec, n int, pkMode int, last *int64, emptyMode int) []c12Feat {
	fs := make([]c12Feat, n)
	if !t.pkIsRowid() {
		pkMode = 0 // a key that is no rowid alias is not assigned by SQLite: NULL would stay NULL
	}
	mixed := t.GType == "GEOMETRY" || t.GType == "GEOMETRYCOLLECTION" || r.Intn(3) == 0
	for i := range fs {
		var attrs []val
		for _, c := range t.attrCols() {
			if c.PK == 1 {
				if pkMode == 0 {
					*last += 1 + int64(r.Intn(3))
					attrs = append(attrs, val{K: 1, I: *last})
				} else {
					*last++
					attrs = append(attrs, val{})
				}
				continue
			}
			attrs = append(attrs, genAttr(r, c))
		}
		kind := kindOfType[t.GType]
		if kind == 0 || mixed {
			kind = 1 + r.Intn(6)
		}
		empty := emptyMode == 1 || (emptyMode == 0 && r.Intn(5) == 0)
		fs[i] = c12Feat{Attrs: attrs, G: genGeom(r, kind, empty)}
	}
	shuffleKeys(r, t, fs)
	return fs
}

// shuffleKeys: for a table whose primary key is NO alias of the rowid (INT PRIMARY KEY, TEXT PRIMARY KEY) the keys of the
// stream are permuted, so that the order in which the rows are stored (and must be copied) is not the key order; a TEXT key
// becomes a 16-digit text
func shuffleKeys(r *rand.Rand, t tableSpec, fs []c12Feat) {
	if t.pkIsRowid() {
		return
	}
	ai := -1
	for i, c := range t.attrCols() {
		if c.PK == 1 {
			ai = i
		}
	}
	if ai < 0 {
		return
	}
	perm := r.Perm(len(fs))
	keys := make([]val, len(fs))
	for i := range fs {
		keys[i] = fs[perm[i]].Attrs[ai]
	}
	for i := range fs {
		k := keys[i]
		if strings.EqualFold(t.pkType(), "TEXT") && k.K == 1 {
			k = val{K: 7, I: k.I}
		}
		fs[i].Attrs[ai] = k
	}
}

func genC12Case(r *rand.Rand, id, p, n int) c12Case {
	k := c12Case{ID: id, P: p}
	k.ViaSource = r.Intn(3) == 0
	srsMode := []int{0, 0, 0, 1, 2}[r.Intn(5)]
	ntab := 1
	if r.Intn(7) == 0 {
		ntab = 2 + r.Intn(2)
	}
	srs := genSrs(r, srsMode)
	for i := 0; i < ntab; i++ {
		s := srs
		if i > 0 && r.Intn(2) == 0 {
			s = genSrs(r, 0)
			for _, t := range k.Tables { // one row per id in the source's srs table
				if t.Srs.ID == s.ID {
					s = t.Srs
				}
			}
		}
		k.Tables = append(k.Tables, genTable(r, i, s))
	}
	pkMode := r.Intn(2)
	if k.ViaSource {
		pkMode = 0 // the rows are stored in the source first: the keys are there before the writer sees them
	}
	emptyMode := []int{0, 0, 0, 0, 0, 0, 1, 2}[r.Intn(8)]
	lasts := make([]int64, ntab)
	for i := range lasts {
		if pkMode == 0 {
			lasts[i] = int64(r.Intn(50))
		}
	}
	// the calls: one per table in order (what main.go does); sometimes the first table once more
	for i, t := range k.Tables {
		m := n
		if i > 0 {
			m = r.Intn(3*p + 2)
		}
		k.Calls = append(k.Calls, c12Call{Table: t.Name, Feats: genStream(r, t, m, pkMode, &lasts[i], emptyMode)})
	}
	if r.Intn(6) == 0 {
		k.Calls = append(k.Calls, c12Call{Table: k.Tables[0].Name, Feats: genStream(r, k.Tables[0], r.Intn(2*p+2), pkMode, &lasts[0], emptyMode)})
	}
	// what the source records as the extent of each table: computed over the features handed to the writer and,
	// in a third of the cases, over further features of the source that are NOT handed over (the writer gets a
	// prefix of the source's rows; with n = 0 nothing at all): NULL / exact / loose / stale.  The target's recorded
	// extent is the bounding box of what was WRITTEN, whatever the source says.
	for i := range k.Tables {
		var pts [][2]float64
		for _, c := range k.Calls {
			if c.Table == k.Tables[i].Name {
				for _, f := range c.Feats {
					pts = append(pts, fpts(f.G.flat())...)
				}
			}
		}
		if r.Intn(3) == 0 {
			var dummy int64
			for _, f := range genStream(r, k.Tables[i], 1+r.Intn(4), 1, &dummy, 2) {
				pts = append(pts, fpts(f.G.flat())...)
			}
			k.Tables[i].recordExtent(r, pts)
			k.Tables[i].SrcExtentMode += ", source holds more features than are written"
		} else {
			k.Tables[i].recordExtent(r, pts)
		}
	}
	k.Class = fmt.Sprintf("tables=%d srs=%s pk=%s empty=%s", ntab, []string{"own id", "pre-seeded id, library content", "pre-seeded id, other content (F10 regression)"}[srsMode],
		[]string{"explicit", "auto"}[pkMode], []string{"some", "all", "none"}[emptyMode])
	if k.ViaSource {
		k.Class += " via-source"
	}
	return k
}

// F18 / F19 / F20 regressions (fixed by 574d563, 4dc32dc, a631213) and the order of a table whose key is no rowid alias:
// BOOLEAN cells (NULL / 0 / 1), BLOB cells (with NUL bytes, invalid UTF-8, the bytes of a text another row holds as text),
// column names that are SQL keywords or contain a space / a dash / a double quote, the geometry column named by a keyword;
// the rows are stored in the source with keys out of order and read by the real ReadFeatures
func c12RegressionF18to20(id int, variant int) c12Case {
	srs := srsSpec{Name: "Amersfoort / RD New", ID: 28992, Org: "EPSG", OrgID: 28992, Def: "PROJCS[...]", Desc: "rd"}
	pk := colSpec{Name: "order", Type: "INTEGER", NotNull: true, PK: 1}
	gcol := "select"
	switch variant {
	case 1:
		pk = colSpec{Name: "group by", Type: "INT", NotNull: true, PK: 1}
		gcol = "1geom"
	case 2:
		pk = colSpec{Name: "id-nr", Type: "TEXT", PK: 1}
		gcol = "table"
	}
	t := tableSpec{Name: "t1", GCol: gcol, GType: "POINT", Srs: srs, Cols: []colSpec{pk,
		{Name: "street name", Type: "TEXT"}, {Name: gcol, Type: "POINT"}, {Name: `a"b`, Type: "BLOB"}, {Name: "Flag", Type: "BOOLEAN", NotNull: variant == 1},
		{Name: "huis-nr", Type: "boolean"}, {Name: "where", Type: "REAL"}}}
	keys := []int64{40, 10, 30, 20, 50, 5, 45}
	var fs []c12Feat
	for i, key := range keys {
		kv := val{K: 1, I: key}
		if variant == 0 {
			kv.I = int64(i + 1) // a rowid alias: stored order is key order whatever is done
		}
		if variant == 2 {
			kv = val{K: 7, I: key*1000000000 + 599200000}
		}
		b2 := val{K: 6, I: int64((i / 2) % 2)}
		if i == 3 {
			b2 = val{}
		}
		blob := val{K: 5, T: i % len(blobPool)}
		if i == 5 {
			blob = val{K: 3, T: 1} // the text "a" in the BLOB column; row 3 holds the blob with the same byte
		}
		fs = append(fs, c12Feat{Attrs: []val{kv, {K: 3, T: i % len(textPool)}, blob, {K: 6, I: int64(i % 2)}, b2, {K: 2, R: int64(i)}},
			G: geomSpec{Kind: 1, Parts: [][][][2]int64{{{{int64(i), int64(2 * i)}}}}}})
	}
	return c12Case{ID: id, Class: fmt.Sprintf("regression F18-F20 (BOOLEAN / BLOB cells, quoted names, key kind %s) via-source", pk.Type), P: 3,
		Tables: []tableSpec{t}, Calls: []c12Call{{Table: "t1", Feats: fs}}, ViaSource: true}
}

// F9 regression (fixed by 16e3a13): an empty point in the middle of the stream reset the recorded extent
func c12RegressionF9(id int) c12Case {
	srs := srsSpec{Name: "Amersfoort / RD New", ID: 28992, Org: "EPSG", OrgID: 28992, Def: "PROJCS[...]", Desc: "rd"}
	t := tableSpec{Name: "t1", GCol: "geom", GType: "GEOMETRY", Srs: srs, Cols: []colSpec{{Name: "fid", Type: "INTEGER", PK: 1},
		{Name: "a", Type: "INTEGER", NotNull: true}, {Name: "geom", Type: "GEOMETRY"}, {Name: "b", Type: "TEXT"}, {Name: "c", Type: "REAL"}}}
	gs := []geomSpec{
		{Kind: 3, Parts: [][][][2]int64{{{{0, 0}, {10, 0}, {10, 10}}}}},
		{Kind: 3},
		{Kind: 1, Parts: [][][][2]int64{{{{5, 50}}}}},
		{Kind: 2},
		{Kind: 1}, // POINT EMPTY = (NaN, NaN)
		{Kind: 6, Parts: [][][][2]int64{{{{-5, -5}, {1, 1}, {2, 0}}}}},
		{Kind: 2, Parts: [][][][2]int64{{{{100, 100}, {101, 101}}}}},
	}
	var fs []c12Feat
	for i, g := range gs {
		fs = append(fs, c12Feat{Attrs: []val{{}, {K: 1, I: int64(i)}, {K: 3, T: 1}, {K: 2, R: 12}}, G: g})
	}
	return c12Case{ID: id, Class: "regression F9 (empty point)", P: 2, Tables: []tableSpec{t}, Calls: []c12Call{{Table: "t1", Feats: fs}}}
}

// ---- oracle (independent of the Coq model) ---------------------------------------------------------------

type c12Problem struct {
	What     string
	Observed any
	Expected any
}

func c12Oracle(k c12Case, o c12Obs) []c12Problem {
	var ps []c12Problem
	bad := func(what string, obs, exp any) { ps = append(ps, c12Problem{What: what, Observed: obs, Expected: exp}) }
	if o.Err != "" {
		bad("the run failed: "+o.Err, o.Err, "a written file")
		return ps
	}
	if o.File.Err != "" {
		bad("the written file cannot be read back: "+o.File.Err, o.File.Err, "a readable GeoPackage")
		return ps
	}
	if len(o.Read) > 0 {
		bad("ReadFeatures does not deliver the rows of the source table in the order the table stores them, each with the values it holds: "+o.Read[0], o.Read, "the Go value of the cell: int64, float64, string for a text, []byte for a blob, bool for a BOOLEAN cell, time.Time for a date/time cell, nil")
	}
	if o.File.AppID != 0x47504B47 {
		bad("application_id is not GPKG", o.File.AppID, 0x47504B47)
	}
	if len(o.File.Tables) != len(k.Tables) {
		bad("number of registered feature tables", len(o.File.Tables), len(k.Tables))
		return ps
	}
	writes := 0
	for ti, ts := range k.Tables {
		ot := o.File.Tables[ti]
		if ot.Name != ts.Name {
			bad("table name", ot.Name, ts.Name)
			continue
		}
		// schema_copied: columns, geometry column, geometry type, srs id
		if !reflect.DeepEqual(ot.Cols, ts.Cols) {
			bad("columns of "+ts.Name+" differ from the source's", ot.Cols, ts.Cols)
		}
		if ot.GCol != ts.GCol || ot.GType != ts.GType || ot.GSrs != int64(ts.Srs.ID) || ot.ContentsSrs != int64(ts.Srs.ID) || ot.Z != 0 || ot.M != 0 {
			bad("gpkg_geometry_columns / gpkg_contents row of "+ts.Name+" differs from the source's",
				[]any{ot.GCol, ot.GType, ot.GSrs, ot.ContentsSrs, ot.Z, ot.M}, []any{ts.GCol, ts.GType, ts.Srs.ID, ts.Srs.ID, 0, 0})
		}
		if ot.DataType != "features" || !ot.RtreeOK || !ot.Extension {
			bad("table "+ts.Name+" is not registered as a feature table with an rtree index", []any{ot.DataType, ot.RtreeOK, ot.Extension}, []any{"features", true, true})
		}
		// the stream this table received, over all calls, and the page structure
		var fs []c12Feat
		var seen [][2]int64
		for _, call := range k.Calls {
			if call.Table != ts.Name {
				continue
			}
			fs = append(fs, call.Feats...)
			for a := 0; a < len(call.Feats); a += k.P { // pages of this call
				b := a + k.P
				if b > len(call.Feats) {
					b = len(call.Feats)
				}
				writes++ // the INSERT transaction of a non-empty page
				before, had := bboxOf(seen)
				for _, f := range call.Feats[a:b] {
					seen = append(seen, f.G.flat()...)
				}
				// the UPDATE of gpkg_contents changes the file only when the box grows (SQLite does not rewrite an identical record)
				if after, has := bboxOf(seen); has && (!had || after != before) {
					writes++
				}
			}
		}
		// rows_all_in_order
		if len(ot.Rows) != len(fs) {
			bad(fmt.Sprintf("table %s has %d rows for %d features", ts.Name, len(ot.Rows), len(fs)), len(ot.Rows), len(fs))
			continue
		}
		pkIdx := -1
		for ci, c := range ts.Cols {
			if c.PK == 1 {
				pkIdx = ci
			}
		}
		var all [][2]int64
		type rt struct {
			id int64
			b  bbox
		}
		var expRtree []rt
		prevKey := int64(0)
		for ri, f := range fs {
			row := ot.Rows[ri]
			ai := 0
			var key int64
			for ci, c := range ts.Cols {
				cell := row[ci]
				if c.Name == ts.GCol {
					switch {
					case !cell.IsGeom || cell.G == nil || cell.G.Null || cell.G.Err != "":
						bad(fmt.Sprintf("row %d of %s: geometry cell unreadable", ri, ts.Name), cell, f.G)
					case !reflect.DeepEqual(cell.G.Spec, f.G) || !cell.G.IntCoords:
						bad(fmt.Sprintf("row %d of %s holds another geometry than feature %d", ri, ts.Name, ri), cell.G.Spec, f.G)
					case cell.G.SrsID != int32(ts.Srs.ID) || cell.G.FlagEmpty != f.G.isEmpty():
						bad(fmt.Sprintf("row %d of %s: GeoPackage binary header (srs id, empty flag)", ri, ts.Name), []any{cell.G.SrsID, cell.G.FlagEmpty}, []any{ts.Srs.ID, f.G.isEmpty()})
					}
					continue
				}
				want := f.Attrs[ai]
				ai++
				if c.PK == 1 && want.K == 0 {
					want = val{K: 1, I: prevKey + 1} // SQLite assigns max(rowid)+1: observable insertion order
				}
				if cell.IsGeom || cell.V != want {
					bad(fmt.Sprintf("row %d of %s, column %s: value differs from feature %d (rows out of order, lost or duplicated?)", ri, ts.Name, c.Name, ri), cell.V, want)
				}
				if ci == pkIdx {
					key = cell.V.I
				}
			}
			prevKey = key
			pts := f.G.flat()
			all = append(all, pts...)
			if b, ok := bboxOf(pts); ok {
				expRtree = append(expRtree, rt{key, b})
			}
		}
		// rtree_count
		sort.Slice(expRtree, func(a, b int) bool { return expRtree[a].id < expRtree[b].id })
		okRt := len(expRtree) == len(ot.Rtree)
		for i := 0; okRt && i < len(expRtree); i++ {
			e, g := expRtree[i], ot.Rtree[i]
			okRt = e.id == g.ID && float64(e.b.MinX) == g.MinX && float64(e.b.MaxX) == g.MaxX && float64(e.b.MinY) == g.MinY && float64(e.b.MaxY) == g.MaxY
		}
		if !okRt {
			bad(fmt.Sprintf("rtree of %s is not one entry (key, bbox) per row with a non-empty geometry", ts.Name), ot.Rtree, expRtree)
		}
		// extent_is_bbox
		b, has := bboxOf(all)
		switch {
		case !has:
			if ot.Extent[0] != nil || ot.Extent[1] != nil || ot.Extent[2] != nil || ot.Extent[3] != nil {
				bad("extent of "+ts.Name+" recorded although no coordinate was written", fmtExtent(ot.Extent), "NULL")
			}
		case ot.Extent[0] == nil || ot.Extent[1] == nil || ot.Extent[2] == nil || ot.Extent[3] == nil ||
			*ot.Extent[0] != float64(b.MinX) || *ot.Extent[1] != float64(b.MinY) || *ot.Extent[2] != float64(b.MaxX) || *ot.Extent[3] != float64(b.MaxY):
			bad("recorded extent of "+ts.Name+" is not the bounding box of all written geometries", fmtExtent(ot.Extent), b)
		}
	}
	// the srs rows equal the source's
	seen := map[int]bool{}
	for _, ts := range k.Tables {
		if seen[ts.Srs.ID] {
			continue
		}
		seen[ts.Srs.ID] = true
		var got *srsSpec
		for i := range o.File.Srs {
			if o.File.Srs[i].ID == ts.Srs.ID {
				got = &o.File.Srs[i]
			}
		}
		if got != nil && *got == ts.Srs {
			continue
		}
		// also for an id the library pre-seeds (-1, 0, 4326, 3857): F10, fixed by e2006e7, stays a regression class
		ps = append(ps, c12Problem{What: fmt.Sprintf("gpkg_spatial_ref_sys row %d differs from the source's", ts.Srs.ID), Observed: got, Expected: ts.Srs})
	}
	// page structure, as far as SQLite shows it: one writing transaction per non-empty page + one extent update
	if int(o.C1-o.C0) != writes {
		bad("number of file-modifying transactions (SQLite change counter) does not match one INSERT transaction per non-empty page plus one extent update per page that enlarges the bounding box", o.C1-o.C0, writes)
	}
	return ps
}

func fmtExtent(e []*float64) string {
	s := make([]string, len(e))
	for i, p := range e {
		if p == nil {
			s[i] = "NULL"
		} else {
			s[i] = fmt.Sprint(*p)
		}
	}
	return strings.Join(s, ",")
}

// ---- Coq term of a case + observation -----------------------------------------------------------------------

func c12CoqCase(k c12Case, o c12Obs) string {
	var tabs, calls, otabs, odescs, osrs []string
	for _, t := range k.Tables {
		tabs = append(tabs, t.coq())
	}
	for _, c := range k.Calls {
		var fs []string
		for _, f := range c.Feats {
			var as []string
			for _, a := range f.Attrs {
				as = append(as, a.coq())
			}
			fs = append(fs, fmt.Sprintf("MkFeature %s (%s)", hc.CoqList(as), f.G.coq()))
		}
		calls = append(calls, fmt.Sprintf("(%s, %s)", coqString(c.Table), hc.CoqList(fs)))
	}
	for ti, ot := range o.File.Tables {
		// auto-assigned keys: a NULL key in the input stays VNull when the file holds the expected key
		var inputs []c12Feat
		var spec *tableSpec
		if ti < len(k.Tables) && k.Tables[ti].Name == ot.Name {
			spec = &k.Tables[ti]
			for _, c := range k.Calls {
				if c.Table == ot.Name {
					inputs = append(inputs, c.Feats...)
				}
			}
		}
		pos := map[int64]int{}
		var rows []string
		prevKey := int64(0)
		for ri, row := range ot.Rows {
			var cells []string
			ai := 0
			for ci, cell := range row {
				if cell.IsGeom {
					if cell.G == nil || cell.G.Null || cell.G.Err != "" || !cell.G.IntCoords {
						cells = append(cells, "CGeom (MkGeom 99%N [] 0%N)")
					} else {
						cells = append(cells, "CGeom ("+cell.G.Spec.coq()+")")
					}
					continue
				}
				v := cell.V
				isPK := ci < len(ot.Cols) && ot.Cols[ci].PK == 1
				if isPK {
					pos[v.I] = ri
					if spec != nil && ri < len(inputs) && ai < len(inputs[ri].Attrs) && inputs[ri].Attrs[ai].K == 0 && v.K == 1 && v.I == prevKey+1 {
						prevKey = v.I
						v = val{}
					} else {
						prevKey = v.I
					}
				}
				ai++
				cells = append(cells, "CVal ("+v.coq()+")")
			}
			rows = append(rows, hc.CoqList(cells))
		}
		var ext *bbox
		if ot.Extent[0] != nil && ot.Extent[1] != nil && ot.Extent[2] != nil && ot.Extent[3] != nil {
			ext = &bbox{int64(*ot.Extent[0]), int64(*ot.Extent[1]), int64(*ot.Extent[2]), int64(*ot.Extent[3])}
			if float64(ext.MinX) != *ot.Extent[0] || float64(ext.MinY) != *ot.Extent[1] || float64(ext.MaxX) != *ot.Extent[2] || float64(ext.MaxY) != *ot.Extent[3] {
				ext = &bbox{1, 1, -1, -1} // not integers: cannot be what the model computes
			}
		} else if ot.Extent[0] != nil || ot.Extent[1] != nil || ot.Extent[2] != nil || ot.Extent[3] != nil {
			ext = &bbox{2, 2, -2, -2} // partly NULL
		}
		// the rtree entries as (position of the row with that key, box), in the order of the positions: the model lists them
		// in insertion order, the file by id = key, and the keys of a table whose key is no rowid alias are not in stream order
		type rtPos struct {
			p int
			s string
		}
		var byPos []rtPos
		for _, e := range ot.Rtree {
			p, ok := pos[e.ID]
			if !ok {
				p = 999999
			}
			b := bbox{int64(e.MinX), int64(e.MinY), int64(e.MaxX), int64(e.MaxY)}
			byPos = append(byPos, rtPos{p, fmt.Sprintf("(%d%%N, %s)", p, b.coq())})
		}
		sort.SliceStable(byPos, func(a, b int) bool { return byPos[a].p < byPos[b].p })
		var rts []string
		for _, e := range byPos {
			rts = append(rts, e.s)
		}
		otabs = append(otabs, fmt.Sprintf("MkOTable %s %s %s %s", coqString(ot.Name), hc.CoqList(rows), coqOptBBox(ext), hc.CoqList(rts)))
		code, ok := gtypeCode[ot.GType]
		if !ok {
			code = 99
		}
		srsid := ot.GSrs
		if ot.ContentsSrs != ot.GSrs {
			srsid = -999999
		}
		odescs = append(odescs, fmt.Sprintf("MkDesc %s %s %s %d%%N %s", coqString(ot.Name), coqCols(ot.Cols), coqString(ot.GCol), code, hc.CoqZ(srsid)))
	}
	for _, s := range o.File.Srs {
		osrs = append(osrs, s.coq())
	}
	return fmt.Sprintf("MkCase %d %s %s %s %s %s %d%%N", k.P, hc.CoqList(tabs), hc.CoqList(calls), hc.CoqList(otabs),
		hc.CoqList(odescs), hc.CoqList(osrs), o.C1-o.C0)
}

// ---- running the cases in worker processes ---------------------------------------------------------------------

type c12Result struct {
	Obs    c12Obs
	Died   bool
	Stderr string
}

func runC12Cases(dir string, cases []c12Case, workers int) (map[int]c12Result, error) {
	self, err := os.Executable()
	if err != nil {
		return nil, err
	}
	res := map[int]c12Result{}
	var mu sync.Mutex
	var wg sync.WaitGroup
	if workers > len(cases) {
		workers = len(cases)
	}
	var firstErr error
	for w := 0; w < workers; w++ {
		var mine []c12Case
		for i := w; i < len(cases); i += workers {
			mine = append(mine, cases[i])
		}
		wg.Add(1)
		go func(w int, todo []c12Case) {
			defer wg.Done()
			wdir := filepath.Join(dir, fmt.Sprintf("w%d", w))
			_ = os.MkdirAll(wdir, 0o755)
			hangs := 0
			for round := 0; len(todo) > 0; round++ {
				in := filepath.Join(wdir, fmt.Sprintf("in%d.json", round))
				out := filepath.Join(wdir, fmt.Sprintf("out%d.jsonl", round))
				b, _ := json.Marshal(todo)
				if err := os.WriteFile(in, b, 0o644); err != nil {
					mu.Lock()
					firstErr = err
					mu.Unlock()
					return
				}
				cmd := exec.Command(self, "c12worker", in, out, wdir)
				var stderr bytes.Buffer
				cmd.Stderr = &stderr
				// a worker that produces no further result for two minutes hangs (a writer waiting for a connection or a
				// lock it will never get): it is killed, and the case it was running is reported like a case that kills it
				hung := false
				runErr := cmd.Start()
				if runErr == nil {
					fin := make(chan error, 1)
					go func() { fin <- cmd.Wait() }()
					last, lastAt := int64(-1), time.Now()
				wait:
					for {
						select {
						case runErr = <-fin:
							break wait
						case <-time.After(2 * time.Second):
							var sz int64
							if st, err := os.Stat(out); err == nil {
								sz = st.Size()
							}
							if sz != last {
								last, lastAt = sz, time.Now()
							} else if time.Since(lastAt) > 120*time.Second {
								hung = true
								_ = cmd.Process.Kill()
								runErr = <-fin
								break wait
							}
						}
					}
				}
				if hung {
					stderr.WriteString("\n[harness] no result for 120 s: the writer hangs; the worker was killed\n")
				}
				done := map[int]bool{}
				if f, err := os.Open(out); err == nil {
					sc := bufio.NewScanner(f)
					sc.Buffer(make([]byte, 1<<20), 1<<28)
					for sc.Scan() {
						var o c12Obs
						if json.Unmarshal(sc.Bytes(), &o) == nil {
							mu.Lock()
							res[o.ID] = c12Result{Obs: o}
							mu.Unlock()
							done[o.ID] = true
						}
					}
					f.Close()
				}
				var rest []c12Case
				for _, k := range todo {
					if !done[k.ID] {
						rest = append(rest, k)
					}
				}
				if runErr == nil || len(rest) == 0 {
					if len(rest) > 0 {
						mu.Lock()
						firstErr = fmt.Errorf("worker finished without results for %d cases", len(rest))
						mu.Unlock()
					}
					return
				}
				// the worker died while running rest[0]
				tail := stderr.String()
				if len(tail) > 1500 {
					tail = tail[len(tail)-1500:]
				}
				mu.Lock()
				res[rest[0].ID] = c12Result{Died: true, Stderr: tail}
				mu.Unlock()
				todo = rest[1:]
				if hung {
					hangs++
					if hangs >= 2 { // the writer hangs again and again: the cases left to this worker are not run (two minutes each)
						mu.Lock()
						for _, k := range todo {
							res[k.ID] = c12Result{Died: true, Stderr: "[harness] not run: the writer hung twice in this worker before (see the first such case)"}
						}
						mu.Unlock()
						todo = nil
					}
				}
			}
		}(w, mine)
	}
	wg.Wait()
	return res, firstErr
}

// ---- the property run ------------------------------------------------------------------------------------------------

func runC12(c *hc.Ctx) error {
	c.CorrInit("Texel.Corr.C12", "theories/Corr/C12.v", 40)
	c.Sum.Rule = "every (page size p in 1..7, feature count n in 0..3p+1) pair several times, plus p in {50,1000}; per case random tables " +
		"(0-5 attribute columns INTEGER/MEDIUMINT/REAL/DOUBLE/TEXT/TEXT(20)/DATETIME/DATE/TIMESTAMP, NOT NULL or not, key column first or elsewhere, geometry column first/middle/last; " +
		"as a function of the table: in two thirds of the tables some attribute columns declared BOOLEAN / boolean (cells NULL, 0, 1; the writer receives the Go bool the driver makes of such a cell) or BLOB (cells of arbitrary bytes: empty, NUL, invalid UTF-8, the bytes of a text of the text pool; now and then a text or an integer in a BLOB column and a blob in a TEXT column), " +
		"in half of the tables column names that must be quoted (SQL keywords order / group / select / table / from / where / index / values, names with a space, a dash, a leading digit, a double quote, an apostrophe, a comma, a semicolon, parentheses, a percent sign, a leading space, non-ASCII) for attribute columns, in a third of those also for the primary key (no double quote: the GeoPackage library writes it as \"name\") and the geometry column (keyword / leading digit / non-ASCII only: the library writes it bare inside rtree_<table>_<column>_insert), " +
		"in a quarter of the tables a primary key that is no rowid alias (INT PRIMARY KEY, TEXT PRIMARY KEY with 16-digit texts) whose keys are NOT in stream order, " +
		"8 geometry type names, z / m prohibited (0) or optional (2) in the source's gpkg_geometry_columns, the source's recorded extent NULL / exact / loose (larger) / stale (elsewhere) and computed over the written features or over more features than are handed to the writer (a prefix of the source; nothing when n = 0), srs with an id of its own / pre-seeded id with library content / pre-seeded id with other content), 1-3 tables per file, " +
		"one WriteFeatures call per table (sometimes a second call on the first table); in a third of the cases (via-source) the harness stores the features as rows of the source table in stream order and the writer is fed by the REAL SourceGeopackage.ReadFeatures, otherwise with features made by the harness; three fixed cases (BOOLEAN + BLOB + quoted names + key kinds INTEGER / INT / TEXT, via-source); values NULL/integer (incl. int64 extremes)/real/text (quotes, unicode, empty, long)/time.Time (what ReadFeatures delivers for DATE, DATETIME, TIMESTAMP columns: midnight, whole seconds, non-zero milliseconds, nanoseconds, before 1970), " +
		"geometries point/linestring/polygon(with hole)/multipoint/multilinestring/multipolygon, ~20% empty (POINT EMPTY = NaN, no-point geometries) or all empty or none, " +
		"keys explicit increasing with gaps or NULL (assigned by SQLite: insertion order observable). distinct = distinct (p, n, class, schema shape); non-trivial = n > 0"
	c.Sum.Oracle = "on the file written by the real TargetGeopackage, read back with database/sql in the order the table STORES the rows (ORDER BY rowid, not by key): one row per feature in stream order with equal attribute values AND equal storage class (every attribute cell is read raw as +\"c\" together with typeof(\"c\"): a TEXT and a BLOB of the same bytes differ; a BOOLEAN cell is the integer 0 / 1; date/time cells compared as instants to the nanosecond: the driver writes a time.Time in its own text layout) and an equal decoded geometry; via-source: every feature ReadFeatures delivers carries the Go values of its row (int64, float64, string, []byte, bool, time.Time, nil) " +
		"(GeoPackage header srs id and empty flag), rtree = one (key, bbox) entry per row with a non-empty geometry, gpkg_contents extent = bounding box of all written coordinates (NULL if none) whatever extent the source records, gpkg_geometry_columns z = m = 0 whatever the source says, " +
		"PRAGMA table_info / gpkg_contents / gpkg_geometry_columns / gpkg_spatial_ref_sys rows equal the source's, rtree extension registered, " +
		"SQLite change counter = one transaction per non-empty page + one extent update per page that enlarges the bounding box; a run that ends in log.Fatalf is a violation"
	c.Sum.Partial = ""
	c.Sum.TrustedBase = []string{
		"modelled, not verified: SQLite + go-sqlite3, github.com/go-spatial/geom/encoding/gpkg (Open, UpdateSRS, AddGeometryTable and its rtree triggers, UpdateGeometryExtent, NewBinary/DecodeGeometry)",
		"the verif stand-in for SpatiaLite (processing/gpkg/verif_spatialite.go): ST_IsEmpty/ST_MinX/ST_MaxX/ST_MinY/ST_MaxY computed in Go with the library's decoder",
		"harness_gpkg: generators, read-back, mapping of primary keys to row positions and of auto-assigned keys to NULL (Corr/C12.v header)",
	}
	c.Sum.Assumptions = []string{
		"features satisfy the table's constraints (NOT NULL, unique key), as rows read from a source table with the same constraints do",
		"values match the declared column affinity (SQLite would convert them otherwise, also in a source table)",
		"coordinates are integers below 2^23 in absolute value (exact in float64 and in the rtree's float32)",
		"column names are any non-empty texts, distinct without regard to case (the tool writes them as quoted identifiers since fix a631213); NOT generated, because the GeoPackage library (go-spatial AddGeometryTable) fails on them: a geometry column name with characters that cannot continue a bare identifier (space, dash, quote), a primary key name with a double quote, table names with quotes; column defaults / CHECK / UNIQUE constraints are not part of 'columns' (createSQL copies name, type, NOT NULL, PRIMARY KEY only)",
		"single-column primary key: INTEGER (rowid alias, a GeoPackage requirement) or INT / TEXT (no rowid alias; the library's rtree takes the integer value of the key as id)",
		"the cells of a BOOLEAN column are NULL, 0 or 1 (the SQLite driver hands any other integer z over as z > 0, so the tool would write 1 / 0 for it); a feature table has a primary key; the geometry column is registered in gpkg_geometry_columns in the letter case the table declares",
		"the source's srs rows have a non-NULL description (getSpatialReferenceSystem reads NULL as the empty string, which is what the target then holds)",
	}

	dir, err := os.MkdirTemp("", "verif-c12-")
	if err != nil {
		return err
	}
	defer os.RemoveAll(dir)

	var cases []c12Case
	if c.Replay != "" {
		k, err := loadC12Replay(c.Replay)
		if err != nil {
			return err
		}
		cases = []c12Case{k}
	} else {
		cases = append(cases, c12RegressionF9(0))
		for v := 0; v < 3; v++ {
			cases = append(cases, c12RegressionF18to20(len(cases), v))
		}
		reps := c.N(10, 150)
		if c.Search {
			reps *= 4
		}
		for rep := 0; rep < reps; rep++ {
			for p := 1; p <= 7; p++ {
				for n := 0; n <= 3*p+1; n++ {
					cases = append(cases, genC12Case(c.Rng, len(cases), p, n))
				}
			}
			for _, p := range []int{50, 1000} {
				cases = append(cases, genC12Case(c.Rng, len(cases), p, []int{0, 1, 49, 50, 51, 100, 120}[c.Rng.Intn(7)]))
			}
		}
		// bulk pages: row counts at which batching by a database limit would wrap around — SQLite's limits on bound
		// parameters (999 in older builds, 32766 now) divided by 1..8 columns, once and twice, and their neighbours —
		// written as one page (default page size 1000 or a page larger than the stream) and as full pages plus a rest
		var bulk []int
		for _, lim := range []int{999, 32766} {
			for cols := 1; cols <= 8; cols++ {
				bulk = append(bulk, lim/cols, 2*(lim/cols))
			}
		}
		nb := c.N(10, 120)
		for b := 0; b < nb; b++ {
			n := bulk[c.Rng.Intn(len(bulk))]
			if c.Tier != "thorough" && (n > 8200 || (b > 0 && n > 4000)) { // quick: one long stream (up to 32766/4 rows) is enough
				n = bulk[c.Rng.Intn(16)]
			}
			n += []int{0, 0, 0, 0, -1, 1}[c.Rng.Intn(6)]
			p := []int{1000, 1000, n + 1 + c.Rng.Intn(50), n, (n + 1) / 2, 100000}[c.Rng.Intn(6)]
			if p < 1 {
				p = 1
			}
			k := genC12Case(c.Rng, len(cases), p, n)
			k.Class = "bulk " + k.Class
			cases = append(cases, k)
		}
	}
	results, err := runC12Cases(dir, cases, 16)
	if err != nil {
		return err
	}
	for _, k := range cases {
		c.Sum.Evaluations++
		n := 0
		for _, call := range k.Calls {
			n += len(call.Feats)
		}
		c.Count(k.Class)
		for _, t := range k.Tables {
			c.Count("source records extent: " + t.SrcExtentMode)
			c.Count(fmt.Sprintf("source z=%d m=%d", t.Z, t.M))
			c.Count(defaultsClass(t))
			for _, kind := range tableKinds(t) {
				c.Count(kind)
			}
		}
		if k.ViaSource {
			c.Count("via-source: the writer is fed by the real ReadFeatures")
		}
		c.Count(fmt.Sprintf("p=%d", k.P))
		switch {
		case n == 0:
			c.Count("n = 0")
		case len(k.Calls[0].Feats)%k.P == 0:
			c.Count("n multiple of p (empty final transaction)")
		case len(k.Calls[0].Feats)%k.P == 1:
			c.Count("n = multiple of p + 1")
		default:
			c.Count("n other")
		}
		if n > 0 {
			c.Nontrivial(fmt.Sprintf("%d/%d/%s/%d/%s", k.P, len(k.Calls[0].Feats), k.Class, len(k.Tables[0].Cols), k.Tables[0].GType))
		}
		r := results[k.ID]
		if r.Died {
			c.Violate(hc.Violation{What: "the tool's code (GetTableInfo / ReadFeatures / CreateTables / WriteFeatures) terminated the process (log.Fatalf / panic) on a valid source and stream", Input: k, Observed: r.Stderr, Expected: "a written file"})
			continue
		}
		for _, p := range c12Oracle(k, r.Obs) {
			v := hc.Violation{What: p.What, Input: k, Observed: p.Observed, Expected: p.Expected}
			c.Violate(v)
		}
		if n > 1200 {
			// a very long stream: decided by the oracle on the implementation only (a Coq term of tens of megabytes
			// overflows coqc's stack); the model sees the bulk streams of up to 1200 rows
			c.Count("bulk stream of more than 1200 rows: oracle only, no correspondence case")
		} else if r.Obs.Err == "" && r.Obs.File.Err == "" {
			c.Case(c12CoqCase(k, r.Obs), map[string]any{"case": k, "observed_counter_delta": r.Obs.C1 - r.Obs.C0})
		}
		if k.ID >= 4 && k.ID <= 6 {
			c.Sample(map[string]any{"pagesize": k.P, "tables": k.Tables, "n_features": n, "class": k.Class})
		}
	}
	return nil
}

func loadC12Replay(path string) (c12Case, error) {
	var k c12Case
	b, err := os.ReadFile(path)
	if err != nil {
		return k, err
	}
	var rp struct {
		Case struct {
			Input json.RawMessage `json:"input"`
		} `json:"case"`
	}
	if err := json.Unmarshal(b, &rp); err != nil {
		return k, err
	}
	if len(rp.Case.Input) == 0 {
		return k, fmt.Errorf("replay file %s has no case.input", path)
	}
	err = json.Unmarshal(rp.Case.Input, &k)
	return k, err
}
