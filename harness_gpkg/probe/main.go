package main

import (
	"bytes"
	"database/sql"
	"fmt"
	"os"
	"path/filepath"

	"github.com/go-spatial/geom"
	gs "github.com/go-spatial/geom/encoding/gpkg"
	"github.com/pdok/texel/processing"
	tg "github.com/pdok/texel/processing/gpkg"
	"github.com/pdok/texel/tms20"
)

func main() {
	dir, _ := os.MkdirTemp("", "gpkgprobe")
	defer os.RemoveAll(dir)
	src := filepath.Join(dir, "src.gpkg")
	h, err := gs.Open(src)
	must := func(err error) {
		if err != nil {
			panic(err)
		}
	}
	must(err)
	_, err = h.Exec(`CREATE TABLE "t1"(fid INTEGER PRIMARY KEY, a INTEGER, b TEXT, geom POLYGON)`)
	must(err)
	must(h.AddGeometryTable(gs.TableDescription{Name: "t1", ShortName: "t1", Description: "t1", GeometryField: "geom", GeometryType: gs.Polygon, SRS: 3857, Z: gs.Prohibited, M: gs.Prohibited}))
	n := 2000
	tx, _ := h.Begin()
	for i := 0; i < n; i++ {
		x := float64(i)
		sb, _ := gs.NewBinary(3857, geom.Polygon{{{x, 0}, {x + 10, 0}, {x + 10, 10}, {x, 10}}})
		_, err = tx.Exec(`INSERT INTO t1(fid,a,b,geom) VALUES(?,?,?,?)`, i+1, i, "x", sb)
		must(err)
	}
	tx.Commit()
	h.Close()

	s := tg.SourceGeopackage{}
	s.Init(src)
	tables := s.GetTableInfo()
	ids := []int{1, 2, 3, 4}
	pagesize := 100
	if len(os.Args) > 1 {
		fmt.Sscan(os.Args[1], &pagesize)
	}
	targets := map[int]processing.Target{}
	var tgs []*tg.TargetGeopackage
	for _, id := range ids {
		t := &tg.TargetGeopackage{}
		t.Init(filepath.Join(dir, fmt.Sprintf("t_%d.gpkg", id)), pagesize)
		must(t.CreateTables(tables))
		t.Table = tables[0]
		targets[id] = t
		tgs = append(tgs, t)
	}
	s.Table = tables[0]
	// the "snap" function: translate by 1000*id in y so that each tile matrix has a recognisable geometry
	processing.ProcessFeatures(s, targets, func(p geom.Polygon, tmIDs []tms20.TMID) map[tms20.TMID][]geom.Polygon {
		out := map[tms20.TMID][]geom.Polygon{}
		for _, id := range tmIDs {
			q := geom.Polygon{make([][2]float64, len(p[0]))}
			for i, pt := range p[0] {
				q[0][i] = [2]float64{pt[0], pt[1] + 1000*float64(id)}
			}
			out[id] = []geom.Polygon{q}
		}
		return out
	})
	for _, t := range tgs {
		t.Close()
	}
	s.Close()
	wrong := 0
	for _, id := range ids {
		db, err := sql.Open("spatialite", filepath.Join(dir, fmt.Sprintf("t_%d.gpkg", id)))
		must(err)
		rows, err := db.Query(`SELECT fid, geom FROM t1 ORDER BY fid`)
		must(err)
		cnt := 0
		for rows.Next() {
			var fid int
			var blob []byte
			rows.Scan(&fid, &blob)
			cnt++
			sb, err := gs.DecodeGeometry(blob)
			must(err)
			p := sb.Geometry.(geom.Polygon)
			wantY := 1000 * float64(id)
			if p[0][0][1] != wantY {
				if wrong < 5 {
					fmt.Printf("file _%d fid %d has y=%v (geometry of tile matrix %v)\n", id, fid, p[0][0][1], p[0][0][1]/1000)
				}
				wrong++
			}
		}
		rows.Close()
		db.Close()
		_ = bytes.Equal
		fmt.Println("file", id, "rows", cnt)
	}
	fmt.Println("rows with another tile matrix's geometry:", wrong, "of", n*len(ids))
}
