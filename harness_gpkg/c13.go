package main

// C13 — the command line tool writes, per tile matrix, what the library computes.
//
// Builds the REAL binary from /repo's working tree (-tags verif: SpatiaLite stand-in), generates random
// source GeoPackages, runs the binary with random tile matrix sets / ids / page sizes / flags /
// overwrite situations / target path shapes, reads every file it leaves behind, and compares with the
// composition of LIBRARY calls (snap.SnapPolygon + the fan-out rule of processing.ProcessFeatures,
// re-implemented here) on the same features.  Emits correspondence cases for Texel.Corr.C13 with the
// library's observed results as the oracle function of the model composition.

import (
	"bytes"
	"context"
	"database/sql"
	"encoding/binary"
	"encoding/json"
	"fmt"
	"hash/fnv"
	"math"
	"math/rand"
	"os"
	"os/exec"
	"path"
	"path/filepath"
	"reflect"
	"sort"
	"strings"
	"sync"
	"time"

	"github.com/go-spatial/geom"
	"github.com/go-spatial/geom/cmp"
	gs "github.com/go-spatial/geom/encoding/gpkg"
	"github.com/pdok/texel/processing"
	tg "github.com/pdok/texel/processing/gpkg"
	"github.com/pdok/texel/snap"
	"github.com/pdok/texel/tms20"

	hc "verif/hcommon"
)

func init() { props["C13"] = runC13 }

// ---- float geometries ------------------------------------------------------------------------------------

// fgeom: Kind as geomSpec (1 point, 2 linestring, 3 polygon, 6 multipolygon); Parts = polygons -> rings -> points
type fgeom struct {
	Kind  int              `json:"kind"`
	Parts [][][][2]float64 `json:"parts,omitempty"`
}

func (g fgeom) toGeom() geom.Geometry {
	switch g.Kind {
	case 1:
		if len(g.Parts) == 0 {
			return geom.Point{math.NaN(), math.NaN()}
		}
		return geom.Point(g.Parts[0][0][0])
	case 2:
		if len(g.Parts) == 0 {
			return geom.LineString{}
		}
		return geom.LineString(g.Parts[0][0])
	case 3:
		if len(g.Parts) == 0 {
			return geom.Polygon{}
		}
		return geom.Polygon(g.Parts[0])
	case 6:
		mp := make(geom.MultiPolygon, len(g.Parts))
		for i, p := range g.Parts {
			mp[i] = p
		}
		return mp
	}
	return nil
}

// normGeom: a geometry as it comes back from a GeoPackage blob (exact for float64; ring closing conventions of the codec)
func normGeom(srs int32, g geom.Geometry) (geom.Geometry, error) {
	sb, err := gs.NewBinary(srs, g)
	if err != nil {
		return nil, err
	}
	b, err := sb.Encode()
	if err != nil {
		return nil, err
	}
	d, err := gs.DecodeGeometry(b)
	if err != nil {
		return nil, err
	}
	return d.Geometry, nil
}

func geomKind(g geom.Geometry) int {
	switch g.(type) {
	case geom.Point:
		return 1
	case geom.LineString:
		return 2
	case geom.Polygon:
		return 3
	case geom.MultiPoint:
		return 4
	case geom.MultiLineString:
		return 5
	case geom.MultiPolygon:
		return 6
	}
	return 0
}

// geomDigest: type + nesting + exact float bits
func geomDigest(g geom.Geometry) uint32 {
	h := fnv.New32a()
	var b [8]byte
	pt := func(p [2]float64) {
		binary.LittleEndian.PutUint64(b[:], math.Float64bits(p[0]))
		h.Write(b[:])
		binary.LittleEndian.PutUint64(b[:], math.Float64bits(p[1]))
		h.Write(b[:])
	}
	ring := func(r [][2]float64) {
		h.Write([]byte("R"))
		for _, p := range r {
			pt(p)
		}
	}
	fmt.Fprintf(h, "%d|", geomKind(g))
	switch v := g.(type) {
	case geom.Point:
		if v[0] == v[0] {
			pt(v)
		}
	case geom.LineString:
		ring(v)
	case geom.MultiPoint:
		ring(v)
	case geom.Polygon:
		for _, r := range v {
			ring(r)
		}
	case geom.MultiLineString:
		for _, r := range v {
			ring(r)
		}
	case geom.MultiPolygon:
		for _, p := range v {
			h.Write([]byte("P"))
			for _, r := range p {
				ring(r)
			}
		}
	}
	return h.Sum32()
}

func coqGeomF(g geom.Geometry) string {
	return fmt.Sprintf("MkGeom %d%%N [] %d%%N", geomKind(g), geomDigest(g))
}

func geomEqual(a, b geom.Geometry) bool {
	if geomKind(a) != geomKind(b) {
		return false
	}
	if cmp.IsEmptyGeo(a) && cmp.IsEmptyGeo(b) {
		return geomDigest(a) == geomDigest(b)
	}
	return reflect.DeepEqual(a, b)
}

// ---- case description ---------------------------------------------------------------------------------------

type c13Feat struct {
	Attrs []val  `json:"attrs"`
	G     fgeom  `json:"geom"`
	Shape string `json:"shape"`
}

type c13Table struct {
	Spec  tableSpec `json:"spec"`
	Feats []c13Feat `json:"features"`
}

type c13Pre struct {
	Path   string      `json:"path"` // as the model names it (clean, relative to the run directory or absolute)
	Tables []tableSpec `json:"tables"`
	Calls  []c12Call   `json:"calls"`
}

type c13Case struct {
	ID        int        `json:"id"`
	Class     string     `json:"class"`
	Tms       string     `json:"tms"`
	IdsArg    string     `json:"ids_arg"` // the -z argument as given
	Ids       []int      `json:"ids"`     // as listed: an id may occur more than once (the targets are the DISTINCT ids)
	TmsOK     bool       `json:"tms_ok"`
	Target    string     `json:"target"` // the -t argument as given ("{ABS}" stands for the run directory)
	Mkdirs    []string   `json:"mkdirs"`
	Overwrite bool       `json:"overwrite"`
	PageSize  int        `json:"pagesize"` // 0: flag not given (default 1000)
	Keep      bool       `json:"keep"`
	Ignore    bool       `json:"ignore"`
	Reverse   bool       `json:"reverse"`
	Aliases   bool       `json:"aliases"` // use the short flag names
	NoSource  bool       `json:"no_source"`
	Tables    []c13Table `json:"tables"`
	// finding F24: after the source is written the geometry cell of the first row of this table (index+1; 0 = none) is
	// set to NULL (a feature without geometry, which a GeoPackage may hold)
	NullGeom int `json:"null_geometry_in_table,omitempty"`
	Pre       []c13Pre   `json:"pre"`
	Race      bool       `json:"race"` // run the -race build
	// files NEXT to the targets whose names begin with a target's name ("out_5.gpkg.keep"): not GeoPackages, not the
	// tool's; "every other path is untouched" (C13_cli_composition): they must be there, unchanged, after any run
	Bystanders []string `json:"bystanders,omitempty"`
}

type c13Cell struct {
	IsGeom bool
	V      val
	G      geom.Geometry
	Err    string
}

type c13OTable struct {
	Name       string
	Cols       []string
	GCol       string
	Rows       [][]c13Cell
	RtreeCount int
	Extent     []*float64
}

type c13Run struct {
	Exit   int
	Stderr string
	Files  map[string][]c13OTable // relative (to the run dir) or absolute clean path -> tables; nil tables = unreadable
	Errs   map[string]string
	Others []string // non-GeoPackage leftovers (journals, ...)
	// the bystander files of the case that are still there, with their content
	Bystanders map[string]string
}

func c13BystanderText(name string) string { return "not a GeoPackage, not the tool's: " + name + "\n" }

// ---- generators -----------------------------------------------------------------------------------------------

type tmsInfo struct {
	name                   string
	srs                    srsSpec
	minX, minY, maxX, maxY float64
	px0                    float64 // size of an internal pixel at id 0
	maxID                  int
}

func c13Tms() []tmsInfo {
	merc, _ := knownSrsSpec(3857)
	return []tmsInfo{
		{name: "NetherlandsRDNewQuad", srs: srsSpec{Name: "Amersfoort / RD New", ID: 28992, Org: "EPSG", OrgID: 28992, Def: `PROJCS["Amersfoort / RD New"]`, Desc: "rd"},
			minX: -285401.92, minY: 22598.08, maxX: 595401.92, maxY: 903401.92, px0: 3440.64 / 16, maxID: 14},
		{name: "WebMercatorQuad", srs: merc, minX: -20037508.3427892, minY: -20037508.3427892, maxX: 20037508.3427892, maxY: 20037508.3427892,
			px0: 156543.033928041 / 16, maxID: 16},
	}
}

func round3(x float64) float64 { return math.Round(x*1000) / 1000 }

func blob(r *rand.Rand, cx, cy, rad float64) [][2]float64 {
	n := 3 + r.Intn(5)
	angles := make([]float64, n)
	for i := range angles {
		angles[i] = r.Float64() * 2 * math.Pi
	}
	sort.Float64s(angles)
	ring := make([][2]float64, n)
	for i, a := range angles {
		rr := rad * (0.5 + 0.5*r.Float64())
		ring[i] = [2]float64{round3(cx + rr*math.Cos(a)), round3(cy + rr*math.Sin(a))}
	}
	return ring
}

// dumbbell: two squares of side s joined by a corridor of width w (splits where w falls below a pixel)
func dumbbell(cx, cy, s, w float64) [][2]float64 {
	pts := [][2]float64{{0, 0}, {s, 0}, {s, s/2 - w/2}, {2 * s, s/2 - w/2}, {2 * s, 0}, {3 * s, 0}, {3 * s, s}, {2 * s, s}, {2 * s, s/2 + w/2}, {s, s/2 + w/2}, {s, s}, {0, s}}
	for i := range pts {
		pts[i] = [2]float64{round3(cx + pts[i][0]), round3(cy + pts[i][1])}
	}
	return pts
}

func genPolygonF(r *rand.Rand, t tmsInfo, ids []int, allowOutside bool) (fgeom, string) {
	deepest := 0
	for _, id := range ids {
		if id > deepest {
			deepest = id
		}
	}
	coarse := ids[r.Intn(len(ids))]
	pxDeep := t.px0 / math.Pow(2, float64(deepest))
	pxCoarse := t.px0 / math.Pow(2, float64(coarse))
	mx, my := (t.maxX-t.minX)*0.1, (t.maxY-t.minY)*0.1
	cx := t.minX + mx + r.Float64()*(t.maxX-t.minX-2*mx)
	cy := t.minY + my + r.Float64()*(t.maxY-t.minY-2*my)
	switch k := r.Intn(24); {
	case k >= 22: // no area at all: the library returns a point / line for it under -keeppointsandlines, nothing otherwise
		ring, shape := genDegenerateRing(r, cx, cy, pxCoarse)
		return fgeom{Kind: 3, Parts: [][][][2]float64{{ring}}}, shape
	case k >= 20: // already ON the pixel grid of the deepest requested tile matrix (data that went through the tool
		// before), a rectangle with 2-14 rectangular holes: the result for that tile matrix is the polygon itself
		cen := func(i, j int64) [2]float64 {
			return [2]float64{t.minX + (float64(i)+0.5)*pxDeep, t.minY + (float64(j)+0.5)*pxDeep}
		}
		i0 := int64((cx - t.minX) / pxDeep)
		j0 := int64((cy - t.minY) / pxDeep)
		nh := 2 + r.Intn(4)
		if r.Intn(4) == 0 {
			nh = 12 + r.Intn(3)
		}
		w := int64(4*nh + 2)
		shell := [][2]float64{cen(i0, j0), cen(i0+w, j0), cen(i0+w, j0+8), cen(i0, j0+8)}
		rings := [][][2]float64{shell}
		for h := 0; h < nh; h++ {
			a := i0 + 2 + int64(4*h)
			hh := int64(2 + r.Intn(4))
			rings = append(rings, [][2]float64{cen(a, j0+2), cen(a, j0+2+hh), cen(a+2, j0+2+hh), cen(a+2, j0+2)})
		}
		return fgeom{Kind: 3, Parts: [][][][2]float64{rings}}, "on the pixel grid, with holes"
	case k < 7: // a blob of a few pixels of some requested level
		return fgeom{Kind: 3, Parts: [][][][2]float64{{blob(r, cx, cy, pxCoarse*(0.5+6*r.Float64()))}}}, "blob"
	case k < 10: // far below a pixel: collapses everywhere
		return fgeom{Kind: 3, Parts: [][][][2]float64{{blob(r, cx, cy, pxDeep*0.2*r.Float64()+0.002)}}}, "tiny"
	case k < 14: // corridor narrower than a coarse pixel, wider than a deep one (when the levels differ): splits
		s := pxCoarse * (3 + 3*r.Float64())
		w := math.Max(pxDeep*2.5, pxCoarse*0.2*r.Float64())
		return fgeom{Kind: 3, Parts: [][][][2]float64{{dumbbell(cx, cy, s, w)}}}, "dumbbell"
	case k < 16: // with a hole
		rad := pxCoarse * (4 + 6*r.Float64())
		outer := blob(r, cx, cy, rad)
		inner := blob(r, cx, cy, rad*0.2)
		for i, j := 0, len(inner)-1; i < j; i, j = i+1, j-1 {
			inner[i], inner[j] = inner[j], inner[i]
		}
		return fgeom{Kind: 3, Parts: [][][][2]float64{{outer, inner}}}, "hole"
	case k < 18 && allowOutside: // (partly) outside the grid
		ox := t.maxX + pxCoarse*(r.Float64()*4-1)
		return fgeom{Kind: 3, Parts: [][][][2]float64{{blob(r, ox, cy, pxCoarse*3)}}}, "outside"
	default:
		return fgeom{Kind: 3, Parts: [][][][2]float64{{blob(r, cx, cy, pxDeep*(1+20*r.Float64()))}}}, "small blob"
	}
}

// genDegenerateRing: an outer ring of two distinct points (WKB POLYGON((a, b, a)): the encoder closes it, the tool's
// reader strips the closing point again) a few pixels or less than a pixel apart, or of a single point
func genDegenerateRing(r *rand.Rand, cx, cy, px float64) ([][2]float64, string) {
	a := [2]float64{round3(cx), round3(cy)}
	switch r.Intn(3) {
	case 0:
		return [][2]float64{a}, "degenerate: one-point ring"
	case 1:
		return [][2]float64{a, {round3(cx + px*(1+5*r.Float64())), round3(cy + px*(4*r.Float64()-2))}}, "degenerate: two-point ring"
	default:
		return [][2]float64{a, {round3(cx + px*0.3*r.Float64() + 0.002), round3(cy + px*0.3*r.Float64())}}, "degenerate: two-point ring below a pixel"
	}
}

func genC13Table(r *rand.Rand, idx int, t tmsInfo, ids []int, kind string, n int, allowOutside bool, hazard bool) c13Table {
	spec := tableSpec{Name: fmt.Sprintf("%s_%d", c12Words[r.Intn(len(c12Words))], idx), Srs: t.srs, GCol: []string{"geom", "geometry", "shape"}[r.Intn(3)]}
	switch kind {
	case "polygon":
		spec.GType = "POLYGON"
	case "multipolygon":
		spec.GType = "MULTIPOLYGON"
	case "point":
		spec.GType = "POINT"
	default:
		spec.GType = "LINESTRING"
	}
	spec.Z, spec.M = []int{0, 0, 2}[r.Intn(3)], []int{0, 0, 2}[r.Intn(3)] // prohibited / optional; the features are XY
	pk := colSpec{Name: "fid", Type: "INTEGER", NotNull: true, PK: 1}
	nattr := r.Intn(5)
	if c13WideAttrs > 0 {
		nattr = c13WideAttrs
	}
	if hazard {
		nattr = 2 // fid + 2 = 3 attribute values: a slice built by append has spare capacity (cap 4)
	}
	cols := []colSpec{pk}
	types := []string{"INTEGER", "REAL", "TEXT", "DATETIME", "DATETIME", "DATE", "TIMESTAMP"}
	for i := 0; i < nattr; i++ {
		cols = append(cols, colSpec{Name: fmt.Sprintf("c%d", i), Type: types[r.Intn(len(types))]})
	}
	gpos := len(cols)
	if r.Intn(2) == 0 {
		gpos = r.Intn(len(cols) + 1)
	}
	g := colSpec{Name: spec.GCol, Type: spec.GType}
	cols = append(cols[:gpos:gpos], append([]colSpec{g}, cols[gpos:]...)...)
	spec.Cols = cols
	if hazard || c13WideAttrs > 0 {
		decorateTable(&spec, -1)
	} else {
		decorateTable(&spec, c13Force)
	}
	spec.Defaults = genDefaults(spec)
	tab := c13Table{Spec: spec}
	key := int64(r.Intn(10))
	for i := 0; i < n; i++ {
		var attrs []val
		for _, c := range spec.attrCols() {
			if c.PK == 1 {
				key += 1 + int64(r.Intn(2))
				attrs = append(attrs, val{K: 1, I: key})
			} else {
				attrs = append(attrs, genAttr(r, c))
			}
		}
		var f c13Feat
		f.Attrs = attrs
		switch kind {
		case "polygon":
			f.G, f.Shape = genPolygonF(r, t, ids, allowOutside)
		case "multipolygon":
			var mp fgeom
			mp.Kind = 6
			var shapes []string
			for j := 0; j < 1+r.Intn(3); j++ {
				p, s := genPolygonF(r, t, ids, allowOutside)
				mp.Parts = append(mp.Parts, p.Parts[0])
				shapes = append(shapes, s)
			}
			f.G, f.Shape = mp, "multi:"+strings.Join(shapes, "+")
		case "point":
			f.G = fgeom{Kind: 1, Parts: [][][][2]float64{{{{round3(t.minX + r.Float64()*(t.maxX-t.minX)), round3(t.minY + r.Float64()*(t.maxY-t.minY))}}}}}
			f.Shape = "point"
			if r.Intn(8) == 0 {
				f.G = fgeom{Kind: 1}
				f.Shape = "empty point"
			}
		default:
			f.G = fgeom{Kind: 2, Parts: [][][][2]float64{{blob(r, (t.minX+t.maxX)/2, (t.minY+t.maxY)/2, 5000)}}}
			f.Shape = "line"
		}
		tab.Feats = append(tab.Feats, f)
	}
	if !spec.pkIsRowid() {
		// a key that is no rowid alias: the rows are stored in the order of insertion = the order of Feats, the keys are
		// permuted so that this is not the key order
		ai := 0
		for i, c := range spec.attrCols() {
			if c.PK == 1 {
				ai = i
			}
		}
		perm := r.Perm(len(tab.Feats))
		keys := make([]val, len(tab.Feats))
		for i := range tab.Feats {
			keys[i] = tab.Feats[perm[i]].Attrs[ai]
		}
		for i := range tab.Feats {
			if strings.EqualFold(spec.pkType(), "TEXT") {
				keys[i] = val{K: 7, I: keys[i].I*1000000007 + 363100012061}
			}
			tab.Feats[i].Attrs[ai] = keys[i]
		}
	}
	tab.recordSourceExtent(r)
	return tab
}

// recordSourceExtent: what the source's gpkg_contents row says about the table (NULL / exact / loose / stale)
func (tab *c13Table) recordSourceExtent(r *rand.Rand) {
	var pts [][2]float64
	for _, f := range tab.Feats {
		for _, p := range f.G.Parts {
			for _, ring := range p {
				pts = append(pts, ring...)
			}
		}
	}
	tab.Spec.recordExtent(r, pts)
}

var c13Targets = []struct {
	arg    string
	mkdirs []string
}{
	{"out.gpkg", nil}, {"./out.gpkg", nil}, {"sub/out.gpkg", []string{"sub"}}, {"sub/deep.er/nl.tiles.gpkg", []string{"sub/deep.er"}},
	{"target", nil}, {"sub//x.tar.gz", []string{"sub"}}, {"sub/../o.gpkg", []string{"sub"}}, {"{ABS}/abs/out.gpkg", []string{"abs"}},
	{"A-b_c.GPKG", nil}, {"d.d/noext", []string{"d.d"}}, {".hidden", nil}, {"sub/./t.gpkg", []string{"sub"}},
	// F21: a percent sign is an ordinary character of a file name (the tool builds a fmt format from the path)
	{"out%20dir/x.gpkg", []string{"out%20dir"}}, {"100%.gpkg", nil}, {"x%v.gpkg", nil}, {"sub/%d.g%kg", []string{"sub"}},
	{"x.gpkg%", nil}, {"a%%b/t%", []string{"a%%b"}}, {"out%20dir/x%v.gpkg", []string{"out%20dir"}},
	// so are the metacharacters of shell / filepath.Glob patterns
	{"export[v2]/snapped.gpkg", []string{"export[v2]"}}, {"st*r/x*.gpkg", []string{"st*r"}}, {"b\\s/x\\y.gpkg", []string{"b\\s"}},
	{"br{a,b}/x{1,2}.gpkg", []string{"br{a,b}"}}, {"t[1].[g]pkg", nil},
}

// characters with a meaning to fmt (F21) or to shell / filepath.Glob patterns; ordinary in a file name on Linux.
// NOT among them: '?'.  go-sqlite3 reads a '?' in the file name as the start of the DSN parameters, so the UNCHANGED tool
// writes `-t 'q?d/x.gpkg'` to a file named "q" (shown on the real binary); such names are outside what the harness generates.
var c13Percent = []string{"%", "%v", "%d", "%20", "%%", "%s", "100%"}
var c13Glob = []string{"[v2]", "*", "\\", "{a,b}", "[1]", "[", "]", "[a-c]"}

// c13PathShape: where a target path carries a percent sign / a glob metacharacter (buckets of the evidence)
func c13PathShape(target string) []string {
	target = strings.ReplaceAll(target, "{ABS}", "")
	i := strings.LastIndex(target, "/")
	dir, file := target[:i+1], target[i+1:]
	ext := ""
	if j := strings.LastIndex(file, "."); j >= 0 {
		ext = file[j:]
	}
	stem := file[:len(file)-len(ext)]
	var out []string
	for _, part := range []struct{ where, s string }{{"directory", dir}, {"stem", stem}, {"extension", ext}} {
		if strings.Contains(part.s, "%") {
			out = append(out, "target path: '%' in the "+part.where)
		}
		if strings.ContainsAny(part.s, "[]*\\{}") {
			out = append(out, "target path: glob metacharacter in the "+part.where)
		}
	}
	if strings.HasSuffix(target, "%") {
		out = append(out, "target path: '%' as the last character")
	}
	if strings.Contains(target, "%v") {
		out = append(out, "target path: contains \"%v\"")
	}
	if len(out) == 0 {
		out = append(out, "target path: plain (no '%', no glob metacharacter)")
	}
	return out
}

// genC13Target: a random target: stems that end in the letters of their own extension ("backup.gpkg", "bgt.pkg.gpkg"),
// several dots, no extension, a trailing dot, upper case.  special: "" = over the plain alphabet; "percent" / "glob" = at
// least one token of c13Percent / c13Glob in the directory, the stem or the extension (often in several of them).
func genC13Target(r *rand.Rand, special string) (string, []string) {
	dirs := []struct {
		d  string
		mk []string
	}{{"", nil}, {"sub/", []string{"sub"}}, {"sub/d.k/", []string{"sub/d.k"}}, {"{ABS}/abs/", []string{"abs"}}, {"./", nil}}
	d := dirs[r.Intn(len(dirs))]
	const alpha = "abgkp.-_09GP"
	n := 1 + r.Intn(7)
	stem := []byte{"abgkpx"[r.Intn(6)]}
	for i := 1; i < n; i++ {
		stem = append(stem, alpha[r.Intn(len(alpha))])
	}
	ext := []string{".gpkg", ".gpkg", ".gpkg", "", ".pkg", ".g", ".GPKG", ".", ".sqlite"}[r.Intn(9)]
	if special == "" {
		return d.d + string(stem) + ext, d.mk
	}
	toks := c13Percent
	if special == "glob" {
		toks = c13Glob
	}
	tok := func() string {
		if r.Intn(6) == 0 { // now and then one of the other family as well
			all := append(append([]string{}, c13Percent...), c13Glob...)
			return all[r.Intn(len(all))]
		}
		return toks[r.Intn(len(toks))]
	}
	where := r.Intn(7) + 1 // bit 0: directory, bit 1: stem, bit 2: extension
	dir, mk, st := d.d, d.mk, string(stem)
	if where&1 != 0 {
		name := []string{"p", "out", "", "v1."}[r.Intn(4)] + tok() + []string{"", "c", "dir", ".d"}[r.Intn(4)]
		if name == "." || name == ".." {
			name = "d" + name
		}
		base := strings.TrimSuffix(strings.TrimPrefix(d.d, "{ABS}/"), "/")
		if base == "." {
			base = ""
		}
		dir = d.d + name + "/"
		mk = []string{filepath.Join(base, name)}
	}
	if where&2 != 0 {
		for j := 1 + r.Intn(2); j > 0; j-- {
			pos := r.Intn(len(st) + 1)
			st = st[:pos] + tok() + st[pos:]
		}
	}
	if where&4 != 0 {
		e := []string{"g", "gpkg", "", "pk"}[r.Intn(4)]
		pos := r.Intn(len(e) + 1)
		ext = "." + e[:pos] + tok() + e[pos:]
	}
	return dir + st + ext, mk
}

// c13WideAttrs > 0: genC13Table makes that many attribute columns (set only while a "wide bulk" case is generated)
var c13WideAttrs int

// c13Force: what decorateTable must give the tables (set only while a case of the class "attribute kinds, quoted names,
// key order" is generated)
var c13Force int

const c13ClassKinds = "attribute kinds, quoted names, key order"

func genC13Case(r *rand.Rand, id int, class string) c13Case {
	tmss := c13Tms()
	t := tmss[r.Intn(len(tmss))]
	k := c13Case{ID: id, Class: class, Tms: t.name, TmsOK: true}
	nids := 1 + r.Intn(3)
	if class == "hazard" {
		nids = 4
	}
	perm := r.Perm(t.maxID + 1)
	k.Ids = append([]int{}, perm[:nids]...)
	if class != "hazard" && r.Intn(4) == 0 {
		// one of the ids listed two or three times, anywhere in the list: [6,5,6], [5,5], [4,7,7,7], [3,9,3,1]
		again := k.Ids[r.Intn(len(k.Ids))]
		for j := 1 + r.Intn(2); j > 0; j-- {
			pos := r.Intn(len(k.Ids) + 1)
			k.Ids = append(k.Ids[:pos:pos], append([]int{again}, k.Ids[pos:]...)...)
		}
	}
	b, _ := json.Marshal(k.Ids)
	k.IdsArg = string(b)
	tg := c13Targets[r.Intn(len(c13Targets))]
	k.Target, k.Mkdirs = tg.arg, tg.mkdirs
	if r.Intn(2) == 0 {
		k.Target, k.Mkdirs = genC13Target(r, []string{"", "", "percent", "glob"}[r.Intn(4)])
	}
	if (class == "pre-existing + overwrite" || class == "pre-existing, no overwrite") && r.Intn(2) == 0 {
		// on purpose where an old target file is in the way: nothing of it may survive -overwrite, whatever its name
		k.Target, k.Mkdirs = genC13Target(r, []string{"glob", "glob", "percent"}[r.Intn(3)])
	}
	k.Keep, k.Ignore, k.Reverse, k.Aliases = r.Intn(2) == 0, r.Intn(2) == 0, r.Intn(2) == 0, r.Intn(2) == 0
	if r.Intn(3) > 0 {
		k.PageSize = 1 + r.Intn(7)
	}
	k.Overwrite = r.Intn(2) == 0
	allowOutside := r.Intn(3) == 0
	switch class {
	case "hazard":
		// several targets, page size 1, three attribute values per feature (spare capacity in Columns())
		k.PageSize = 1
		k.Ignore = true
		k.Tables = []c13Table{genC13Table(r, 0, t, k.Ids, "polygon", 150+r.Intn(100), false, true)}
		return k
	case "wide bulk":
		// a wide attribute table (33-44 columns) of several hundred rows at the DEFAULT page size: one page carries about
		// as many values as SQLite binds in one statement (32766), half of the cases below and half above that number
		k.PageSize, k.Ignore = 0, true
		k.Ids = append([]int{}, perm[:2]...)
		b, _ := json.Marshal(k.Ids)
		k.IdsArg = string(b)
		c13WideAttrs = 33 + r.Intn(12)
		n := (30000 + r.Intn(6000)) / (c13WideAttrs + 2)
		if n > 999 {
			n = 999
		}
		k.Tables = []c13Table{genC13Table(r, 0, t, k.Ids, "point", n, false, false), genC13Table(r, 1, t, k.Ids, "point", 2, false, false)}
		c13WideAttrs = 0
		return k
	case "invalid tms":
		switch r.Intn(4) {
		case 0:
			k.Tms = "NoSuchTileMatrixSet"
		case 1:
			k.Tms = "CDB1GlobalGrid" // not a quadtree
			k.IdsArg = "[1]"
		case 2:
			k.IdsArg = "[4,5" // not JSON
		default:
			k.Tms = "LINZAntarticaMapTilegrid" // not a quadtree
			k.IdsArg = "[1,2]"
		}
		k.TmsOK = false
		k.Overwrite = true
	case "no source":
		k.NoSource = true
	}
	ntab := 1 + r.Intn(3)
	kinds := []string{"polygon", "polygon", "multipolygon", "point", "line"}
	if class == c13ClassKinds {
		// BOOLEAN / BLOB columns, names that need quoting and a key that is no rowid alias, in a polygon table AND in a point
		// or line table, each with several rows
		ntab = 2
		c13Force = 7
		defer func() { c13Force = 0 }()
	}
	for i := 0; i < ntab; i++ {
		kind := kinds[r.Intn(len(kinds))]
		if i == 0 && r.Intn(3) > 0 {
			kind = "polygon"
		}
		nfeat := r.Intn(3*7 + 2)
		if class == c13ClassKinds {
			kind = []string{"polygon", []string{"point", "line"}[r.Intn(2)]}[i]
			nfeat = 4 + r.Intn(12)
			allowOutside = false
		}
		if class == "degenerate polygons + keep" {
			// -keeppointsandlines on, nothing outside the grid, and in the first table several polygons without area
			// (rings of one or two points; in a multipolygon table as one of the parts)
			k.Keep, allowOutside = true, false
			if i == 0 {
				kind, nfeat = []string{"polygon", "polygon", "multipolygon"}[r.Intn(3)], 2+r.Intn(12)
			}
		}
		tab := genC13Table(r, i, t, k.Ids, kind, nfeat, allowOutside, r.Intn(3) == 0)
		if class == "degenerate polygons + keep" && i == 0 {
			for fi := range tab.Feats {
				if fi > 0 && r.Intn(2) == 0 {
					continue
				}
				f := &tab.Feats[fi]
				first := f.G.Parts[0][0][0]
				ring, shape := genDegenerateRing(r, first[0], first[1], t.px0/math.Pow(2, float64(k.Ids[r.Intn(len(k.Ids))])))
				switch {
				case f.G.Kind == 3:
					f.G.Parts, f.Shape = [][][][2]float64{{ring}}, shape
				case r.Intn(2) == 0: // one part among ordinary ones
					pos := r.Intn(len(f.G.Parts) + 1)
					f.G.Parts = append(f.G.Parts[:pos:pos], append([][][][2]float64{{ring}}, f.G.Parts[pos:]...)...)
					f.Shape += "+" + shape
				default:
					f.G.Parts, f.Shape = [][][][2]float64{{ring}}, "multi:"+shape
				}
			}
			tab.recordSourceExtent(r)
		}
		k.Tables = append(k.Tables, tab)
	}
	switch class {
	case "pre-existing + overwrite", "pre-existing, no overwrite", "invalid tms":
		k.Overwrite = class != "pre-existing, no overwrite"
		// earlier content in (some of) the target files: tables of the same names with other rows, or other tables
		for i, tid := range distinctIds(k.Ids) {
			if i > 0 && r.Intn(3) == 0 {
				continue
			}
			p := c13Pre{Path: expectedTargetPath(k.Target, tid)}
			last := int64(1000)
			for j, tab := range k.Tables {
				spec := tab.Spec
				if r.Intn(3) == 0 {
					spec = genTable(r, 10+j, spec.Srs)
				}
				spec.Z, spec.M, spec.SrcExtent, spec.SrcExtentMode = 0, 0, nil, "" // scaffolding, written in process by the harness
				spec = plainNames(spec)                                            // .. with the tool's own writer: bare column names only
				p.Tables = append(p.Tables, spec)
				p.Calls = append(p.Calls, c12Call{Table: spec.Name, Feats: genStream(r, spec, 1+r.Intn(6), 0, &last, 0)})
			}
			k.Pre = append(k.Pre, p)
			if r.Intn(2) == 0 {
				k.Bystanders = append(k.Bystanders, p.Path+[]string{".keep", "-notes.txt", "x", ".bak"}[r.Intn(4)])
			}
		}
	}
	return k
}

// distinctIds: the ids of a list, each once (order of first mention).  main.go keeps its targets in a map keyed by
// id, and processing.ProcessFeatures takes the ids it asks the library for from that map: "[6,5,6]" is "[6,5]".
func distinctIds(ids []int) []int {
	seen := map[int]bool{}
	var o []int
	for _, id := range ids {
		if !seen[id] {
			seen[id] = true
			o = append(o, id)
		}
	}
	return o
}

// expectedTargetPath: "_<id> inserted before the extension", computed without package path's Split/Ext/Join;
// "{ABS}" stays symbolic.
func expectedTargetPath(target string, id int) string {
	i := strings.LastIndex(target, "/")
	dir, file := target[:i+1], target[i+1:]
	ext := ""
	if j := strings.LastIndex(file, "."); j >= 0 {
		ext = file[j:]
	}
	name := file[:len(file)-len(ext)]
	return filepath.Clean(dir + name + "_" + fmt.Sprint(id) + ext)
}

// ---- the library composition (oracle) -------------------------------------------------------------------------

type c13Delivery struct {
	Panics bool
	Out    map[int]geom.Geometry // id -> geometry delivered; absent = feature omitted
}

func snapSafe(p geom.Polygon, tms tms20.TileMatrixSet, ids []int, cfg snap.Config) (res map[int][]geom.Polygon, panicked bool) {
	defer func() {
		if e := recover(); e != nil {
			panicked = true
		}
	}()
	return snap.SnapPolygon(p, tms, ids, cfg), false
}

// libraryDeliver: what processing.ProcessFeatures must deliver for one feature (the fan-out rule of the property)
func libraryDeliver(g geom.Geometry, tms tms20.TileMatrixSet, ids []int, cfg snap.Config) c13Delivery {
	d := c13Delivery{Out: map[int]geom.Geometry{}}
	switch v := g.(type) {
	case geom.Polygon:
		res, pan := snapSafe(v, tms, ids, cfg)
		if pan {
			return c13Delivery{Panics: true}
		}
		for id, ps := range res {
			switch len(ps) {
			case 0:
				return c13Delivery{Panics: true} // "no new polygon for level"
			case 1:
				d.Out[id] = ps[0]
			default:
				d.Out[id] = geom.MultiPolygon(polysToMulti(ps))
			}
		}
	case geom.MultiPolygon:
		acc := map[int]geom.MultiPolygon{}
		for _, part := range v {
			res, pan := snapSafe(part, tms, ids, cfg)
			if pan {
				return c13Delivery{Panics: true}
			}
			for _, id := range ids { // per id, parts in order
				for _, p := range res[id] {
					acc[id] = append(acc[id], p)
				}
			}
		}
		for id, mp := range acc {
			d.Out[id] = mp
		}
	default:
		for _, id := range ids {
			d.Out[id] = g
		}
	}
	return d
}

func polysToMulti(ps []geom.Polygon) [][][][2]float64 {
	o := make([][][][2]float64, len(ps))
	for i, p := range ps {
		o[i] = p
	}
	return o
}

// ---- running the binary --------------------------------------------------------------------------------------------

func buildBinary(repo, scratch string, race bool) (string, error) {
	for _, f := range []string{"go.mod", "go.sum"} {
		b, err := os.ReadFile(filepath.Join(repo, f))
		if err != nil {
			return "", err
		}
		// a scratch copy of go.mod: `go build -mod=mod -tags verif` may rewrite it, /repo's must stay untouched
		if err := os.WriteFile(filepath.Join(scratch, f), b, 0o644); err != nil {
			return "", err
		}
	}
	out := filepath.Join(scratch, "texel")
	args := []string{"build", "-modfile=" + filepath.Join(scratch, "go.mod"), "-tags", "verif"}
	if race {
		out += "_race"
		args = append(args, "-race")
	}
	args = append(args, "-o", out, ".")
	cmd := exec.Command("go", args...)
	cmd.Dir = repo
	cmd.Env = append(os.Environ(), "GOFLAGS=-mod=mod", "GOPROXY=off", "GOSUMDB=off", "GOTOOLCHAIN=local", "CGO_ENABLED=1")
	if b, err := cmd.CombinedOutput(); err != nil {
		return "", fmt.Errorf("building the binary from %s: %v\n%s", repo, err, b)
	}
	return out, nil
}

func insertSourceRows(h *gs.Handle, t c13Table) error {
	attrs := make([][]val, len(t.Feats))
	geoms := make([]geom.Geometry, len(t.Feats))
	for i, f := range t.Feats {
		attrs[i], geoms[i] = f.Attrs, f.G.toGeom()
	}
	return insertRows(h, t.Spec, attrs, geoms) // in the order of Feats: the order the table stores the rows in
}

func resolvePath(rundir, p string) string {
	p = strings.ReplaceAll(p, "{ABS}", rundir)
	if filepath.IsAbs(p) {
		return p
	}
	return filepath.Join(rundir, p)
}

// writePre creates a pre-existing target file with the real writer (page size 1000), in process
func writePre(rundir string, p c13Pre) error {
	file := resolvePath(rundir, p.Path)
	src := file + ".presrc"
	// the pre-existing file is set-up, not the run under test: its helper source carries no DEFAULT clauses, so that a
	// tool that cannot describe such tables fails in the CLI run (a child process), not here inside the harness
	plain := make([]tableSpec, len(p.Tables))
	for i, t := range p.Tables {
		t.Defaults = nil
		plain[i] = t
	}
	h, err := createSource(src, plain)
	if err != nil {
		return err
	}
	h.Close()
	defer os.Remove(src)
	s := tg.SourceGeopackage{}
	s.Init(src)
	infos := s.GetTableInfo()
	s.Close()
	byName := map[string]tg.Table{}
	var tables []tg.Table
	for _, ts := range p.Tables {
		for _, t := range infos {
			if t.Name == ts.Name {
				byName[t.Name] = t
				tables = append(tables, t)
			}
		}
	}
	t := tg.TargetGeopackage{}
	t.Init(file, 1000)
	if err := t.CreateTables(tables); err != nil {
		return err
	}
	for _, call := range p.Calls {
		t.Table = byName[call.Table]
		ch := make(chan processing.Feature)
		done := make(chan struct{})
		go func() { defer close(done); t.WriteFeatures(ch) }()
		for _, f := range call.Feats {
			var cols []interface{}
			for _, a := range f.Attrs {
				cols = append(cols, a.goValue())
			}
			ch <- c12Feature{cols: cols, g: f.G.toGeom()}
		}
		close(ch)
		<-done
	}
	t.Close()
	return nil
}

func readTargetFile(file string) ([]c13OTable, error) {
	db, err := sql.Open("spatialite", file)
	if err != nil {
		return nil, err
	}
	defer db.Close()
	rows, err := db.Query(`SELECT c.table_name, g.column_name, c.min_x, c.min_y, c.max_x, c.max_y FROM gpkg_contents c JOIN gpkg_geometry_columns g ON g.table_name = c.table_name ORDER BY c.rowid`)
	if err != nil {
		return nil, err
	}
	var tabs []c13OTable
	for rows.Next() {
		var t c13OTable
		var e [4]*float64
		if err := rows.Scan(&t.Name, &t.GCol, &e[0], &e[1], &e[2], &e[3]); err != nil {
			rows.Close()
			return nil, err
		}
		t.Extent = e[:]
		tabs = append(tabs, t)
	}
	rows.Close()
	for i := range tabs {
		t := &tabs[i]
		cols, _, err := tableInfo(db, t.Name)
		if err != nil {
			return nil, err
		}
		// the rows in the order the table stores them (rowid order = insertion order, NOT key order); attribute cells raw,
		// each with its typeof
		rows, err := db.Query(fmt.Sprintf(`SELECT %s FROM %s ORDER BY rowid`, selectList(cols, t.GCol), qid(t.Name)))
		if err != nil {
			return nil, err
		}
		t.Cols = nil
		for _, c := range cols {
			t.Cols = append(t.Cols, c.Name)
		}
		for rows.Next() {
			vals, err := scanCells(rows, len(cols))
			if err != nil {
				rows.Close()
				return nil, err
			}
			row := make([]c13Cell, len(cols))
			for k, c := range cols {
				if c.Name != t.GCol {
					row[k] = c13Cell{V: cellVal(vals[2*k], fmt.Sprint(vals[2*k+1]), c.Type)}
					continue
				}
				row[k].IsGeom = true
				blob, ok := vals[2*k].([]byte)
				if !ok {
					row[k].Err = fmt.Sprintf("geometry cell is %T", vals[2*k])
					continue
				}
				sb, err := gs.DecodeGeometry(blob)
				if err != nil {
					row[k].Err = err.Error()
					continue
				}
				row[k].G = sb.Geometry
			}
			t.Rows = append(t.Rows, row)
		}
		rows.Close()
		_ = db.QueryRow(fmt.Sprintf(`SELECT count(*) FROM %s`, qid("rtree_"+t.Name+"_"+t.GCol))).Scan(&t.RtreeCount)
	}
	return tabs, nil
}

func runC13Case(scratch, bin, binRace string, k c13Case) (run c13Run, err error) {
	rundir := filepath.Join(scratch, fmt.Sprintf("run%d", k.ID))
	if err = os.MkdirAll(rundir, 0o755); err != nil {
		return
	}
	defer os.RemoveAll(rundir)
	for _, d := range k.Mkdirs {
		if err = os.MkdirAll(filepath.Join(rundir, d), 0o755); err != nil {
			return
		}
	}
	src := filepath.Join(rundir, "source.in")
	if !k.NoSource {
		var specs []tableSpec
		for _, t := range k.Tables {
			specs = append(specs, t.Spec)
		}
		var h *gs.Handle
		if h, err = createSource(src, specs); err != nil {
			return
		}
		for _, t := range k.Tables {
			if err = insertSourceRows(h, t); err != nil {
				h.Close()
				return
			}
		}
		if k.NullGeom > 0 && k.NullGeom <= len(k.Tables) {
			t := k.Tables[k.NullGeom-1].Spec
			if _, err = h.Exec(fmt.Sprintf(`UPDATE %s SET %s = NULL WHERE rowid = (SELECT min(rowid) FROM %s)`, qid(t.Name), qid(t.GCol), qid(t.Name))); err != nil {
				h.Close()
				return
			}
		}
		h.Close()
	}
	for _, p := range k.Pre {
		if err = writePre(rundir, p); err != nil {
			return run, fmt.Errorf("creating the pre-existing file %s: %w", p.Path, err)
		}
	}
	for _, b := range k.Bystanders {
		if err = os.WriteFile(resolvePath(rundir, b), []byte(c13BystanderText(b)), 0o644); err != nil {
			return run, fmt.Errorf("creating the bystander file %s: %w", b, err)
		}
	}
	flag := func(long, short string) string {
		if k.Aliases {
			return "-" + short
		}
		return "--" + long
	}
	args := []string{flag("sourceGpkg", "s"), src, flag("targetGpkg", "t"), strings.ReplaceAll(k.Target, "{ABS}", rundir),
		flag("tilematrixset", "tms"), k.Tms, flag("tilematrices", "z"), k.IdsArg}
	if k.Overwrite {
		args = append(args, flag("overwrite", "o"))
	}
	if k.PageSize > 0 {
		args = append(args, flag("pagesize", "p"), fmt.Sprint(k.PageSize))
	}
	if k.Keep {
		args = append(args, flag("keeppointsandlines", "pl"))
	}
	if k.Ignore {
		args = append(args, flag("ignoreoutsidegrid", "iog"))
	}
	if k.Reverse {
		args = append(args, flag("reversewindingorder", "rwo"))
	}
	exe := bin
	if k.Race && binRace != "" {
		exe = binRace
	}
	ctx, cancel := context.WithTimeout(context.Background(), 120*time.Second)
	defer cancel()
	cmd := exec.CommandContext(ctx, exe, args...)
	cmd.Dir = rundir
	var stderr bytes.Buffer
	cmd.Stderr = &stderr
	cmd.Env = append(os.Environ(), "GORACE=halt_on_error=1 exitcode=66")
	// the tool on a machine with few cores (a small container): every third run gets one or two threads, so that fewer
	// threads than requested tile matrices is an ordinary situation here
	switch k.ID % 6 {
	case 1:
		cmd.Env = append(cmd.Env, "GOMAXPROCS=1")
	case 4:
		cmd.Env = append(cmd.Env, "GOMAXPROCS=2")
	}
	runErr := cmd.Run()
	if ctx.Err() != nil {
		run.Exit = 124
		run.Stderr = "the tool did not exit within 120 s and was killed (hang)\n" + stderr.String()
		runErr = nil
	}
	if runErr != nil {
		if ee, ok := runErr.(*exec.ExitError); ok {
			run.Exit = ee.ExitCode()
		} else {
			return run, runErr
		}
	}
	if run.Exit != 124 {
		run.Stderr = stderr.String()
	}
	if len(run.Stderr) > 1200 {
		run.Stderr = run.Stderr[len(run.Stderr)-1200:]
	}
	// everything the run left behind (except the source)
	run.Files = map[string][]c13OTable{}
	run.Errs = map[string]string{}
	_ = filepath.Walk(rundir, func(p string, info os.FileInfo, err error) error {
		if err != nil || info.IsDir() || p == src {
			return nil
		}
		rel, _ := filepath.Rel(rundir, p)
		name := rel
		if strings.HasPrefix(rel, "abs/") {
			name = p // an absolute target
		}
		var hdr [16]byte
		f, e := os.Open(p)
		if e == nil {
			_, _ = f.Read(hdr[:])
			f.Close()
		}
		if !strings.HasPrefix(string(hdr[:]), "SQLite format 3") {
			for _, b := range k.Bystanders {
				if resolvePath(rundir, b) == p {
					all, _ := os.ReadFile(p)
					if run.Bystanders == nil {
						run.Bystanders = map[string]string{}
					}
					run.Bystanders[b] = string(all)
					return nil
				}
			}
			run.Others = append(run.Others, name)
			return nil
		}
		tabs, e := readTargetFile(p)
		if e != nil {
			run.Errs[name] = e.Error()
		}
		run.Files[name] = tabs
		return nil
	})
	return run, nil
}

// LoadEmbeddedTileMatrixSet fills an unguarded cache map: the harness calls it from one goroutine at a time
var tmsMu sync.Mutex

func loadTms(name string) (tms20.TileMatrixSet, error) {
	tmsMu.Lock()
	defer tmsMu.Unlock()
	return tms20.LoadEmbeddedTileMatrixSet(name)
}

// ---- expected content -----------------------------------------------------------------------------------------------

type c13ExpRow struct {
	Attrs []val
	G     geom.Geometry
}

type c13Expect struct {
	Panics bool
	// per id, per table (source order): the rows
	Rows map[int][][]c13ExpRow
	// per table per feature: the deliveries (for the Coq oracle function)
	Deliv [][]c13Delivery
}

func c13Expected(k c13Case) (c13Expect, error) {
	e := c13Expect{Rows: map[int][][]c13ExpRow{}}
	tms, err := loadTms(k.Tms)
	if err != nil {
		return e, err
	}
	cfg := snap.Config{KeepPointsAndLines: k.Keep, IgnoreOutsideGrid: k.Ignore, ReverseWindingOrder: k.Reverse}
	ids := distinctIds(k.Ids)
	for _, id := range ids {
		e.Rows[id] = make([][]c13ExpRow, len(k.Tables))
	}
	for ti, t := range k.Tables {
		var ds []c13Delivery
		for _, f := range t.Feats {
			g, err := normGeom(int32(t.Spec.Srs.ID), f.G.toGeom()) // as ReadFeatures decodes it from the source
			if err != nil {
				return e, err
			}
			d := libraryDeliver(g, tms, ids, cfg)
			if d.Panics {
				e.Panics = true
				ds = append(ds, d)
				continue
			}
			for id, og := range d.Out {
				ng, err := normGeom(int32(t.Spec.Srs.ID), og) // as it is read back from the target
				if err != nil {
					return e, fmt.Errorf("library result cannot be encoded: %w", err)
				}
				d.Out[id] = ng
			}
			for _, id := range ids {
				if og, ok := d.Out[id]; ok {
					e.Rows[id][ti] = append(e.Rows[id][ti], c13ExpRow{Attrs: f.Attrs, G: og})
				}
			}
			ds = append(ds, d)
		}
		e.Deliv = append(e.Deliv, ds)
	}
	return e, nil
}

// ---- oracle -------------------------------------------------------------------------------------------------------------

func c13Oracle(k c13Case, run c13Run, exp *c13Expect, rundir string) []c12Problem {
	var ps []c12Problem
	bad := func(what string, obs, want any) {
		ps = append(ps, c12Problem{What: what, Observed: obs, Expected: want})
	}
	resolve := func(p string) string { return strings.ReplaceAll(p, "{ABS}", rundir) } // the name the file has in run.Files
	preByPath := map[string]c13Pre{}
	for _, p := range k.Pre {
		preByPath[resolve(p.Path)] = p
	}
	for _, b := range k.Bystanders {
		if got, ok := run.Bystanders[b]; !ok {
			bad("a file that is not a target was removed by the run: "+b, sortedFileNames(run.Files), b)
		} else if got != c13BystanderText(b) {
			bad("a file that is not a target was changed by the run: "+b, got, c13BystanderText(b))
		}
	}
	fails := !k.TmsOK || k.NoSource || (exp != nil && exp.Panics)
	if !fails && !k.Overwrite {
		for _, p := range k.Pre { // outside the property's quantifier; the existing rtree makes CreateTables fail
			for _, t := range p.Tables {
				for _, s := range k.Tables {
					if s.Spec.Name == t.Name {
						fails = true
					}
				}
			}
		}
	}
	if fails {
		if run.Exit == 0 {
			bad("exit status 0 although the run cannot succeed (invalid tile matrix set / ids, missing source, library panic, or existing tables without -overwrite)", run.Exit, "non-zero")
		}
		if !k.TmsOK || k.NoSource {
			// the gate: no target file is created, removed or changed
			for name, tabs := range run.Files {
				p, ok := preByPath[name]
				if !ok {
					bad("a file was created although validation / opening the source failed: "+name, name, nil)
					continue
				}
				if len(tabs) != len(p.Tables) {
					bad("a pre-existing file was changed although validation failed: "+name, len(tabs), len(p.Tables))
				}
			}
			for _, p := range k.Pre {
				if _, ok := run.Files[resolve(p.Path)]; !ok {
					bad("a pre-existing file was removed although validation failed: "+p.Path, nil, p.Path)
				}
			}
		}
		return ps
	}
	if run.Exit != 0 {
		bad(fmt.Sprintf("exit status %d on a valid run", run.Exit), run.Stderr, 0)
		return ps
	}
	if len(run.Others) > 0 {
		bad("a successful run leaves files that are not GeoPackages behind (journal?)", run.Others, nil)
	}
	// exactly one file per DISTINCT requested id, named by inserting _<id> before the extension
	want := map[string]int{}
	for _, id := range k.Ids {
		want[resolve(expectedTargetPath(k.Target, id))] = id
	}
	for name := range run.Files {
		if _, ok := want[name]; !ok {
			bad("unexpected file after the run: "+name, name, sortedKeys(want))
		}
	}
	for p, id := range want {
		name := p
		tabs, ok := run.Files[name]
		if !ok {
			bad(fmt.Sprintf("no target file %s for tile matrix %d", p, id), sortedFileNames(run.Files), p)
			continue
		}
		if e := run.Errs[name]; e != "" {
			bad("target file unreadable: "+e, e, nil)
			continue
		}
		// tables: the source's (after overwrite nothing else); without overwrite older tables of other names stay in front
		var old []tableSpec
		if pre, ok := preByPath[p]; ok && !k.Overwrite {
			old = pre.Tables
		}
		if len(tabs) != len(old)+len(k.Tables) {
			var names []string
			for _, t := range tabs {
				names = append(names, t.Name)
			}
			bad(fmt.Sprintf("file %s holds %d tables, expected %d (a spatial table of the source is missing, or something of an old file survived overwrite?)", p, len(tabs), len(old)+len(k.Tables)), names, nil)
			continue
		}
		for ti, t := range k.Tables {
			ot := tabs[len(old)+ti]
			if ot.Name != t.Spec.Name {
				bad("table order / name in "+p, ot.Name, t.Spec.Name)
				continue
			}
			var wantCols []string
			for _, c := range t.Spec.Cols {
				wantCols = append(wantCols, c.Name)
			}
			if !reflect.DeepEqual(ot.Cols, wantCols) {
				bad(fmt.Sprintf("%s table %s: column names differ from the source's", p, ot.Name), ot.Cols, wantCols)
				continue
			}
			rows := exp.Rows[id][ti]
			if len(ot.Rows) != len(rows) {
				bad(fmt.Sprintf("%s table %s: %d rows, the library composition gives %d", p, ot.Name, len(ot.Rows), len(rows)), len(ot.Rows), len(rows))
				continue
			}
			nonEmpty := 0
			for ri, er := range rows {
				ai := 0
				for ci, c := range t.Spec.Cols {
					cell := ot.Rows[ri][ci]
					if c.Name == t.Spec.GCol {
						if !cell.IsGeom || cell.Err != "" || !geomEqual(cell.G, er.G) {
							bad(fmt.Sprintf("%s table %s row %d (fid %v): geometry differs from what the library returns for tile matrix %d", p, ot.Name, ri, er.Attrs[0].I, id),
								fmt.Sprintf("%v %s", cell.G, cell.Err), fmt.Sprintf("%v", er.G))
						}
						continue
					}
					if cell.IsGeom || cell.V != er.Attrs[ai] {
						bad(fmt.Sprintf("%s table %s row %d column %s (%s): attribute (value and storage class) differs from the source feature in that position of the source's stored order", p, ot.Name, ri, c.Name, c.Type), cell.V, er.Attrs[ai])
					}
					ai++
				}
				if !cmp.IsEmptyGeo(er.G) {
					nonEmpty++
				}
			}
			// the recorded extent is the bounding box of what was written, whatever extent the source records
			var box []float64
			for _, er := range rows {
				box = growBox(box, er.G)
			}
			if !extentEqual(ot.Extent, box) {
				bad(fmt.Sprintf("%s table %s: recorded extent is not the bounding box of the written geometries (NULL if there is none); the source records %v (%s)",
					p, ot.Name, t.Spec.SrcExtent, t.Spec.SrcExtentMode), fmtExtent(ot.Extent), box)
			}
			if ot.RtreeCount != nonEmpty {
				bad(fmt.Sprintf("%s table %s: rtree has %d entries for %d non-empty geometries", p, ot.Name, ot.RtreeCount, nonEmpty), ot.RtreeCount, nonEmpty)
			}
		}
	}
	return ps
}

// growBox: [minx miny maxx maxy] over all coordinates that are not NaN (POINT EMPTY is (NaN, NaN)); nil = none yet
func growBox(b []float64, g geom.Geometry) []float64 {
	pt := func(p [2]float64) {
		if p[0] != p[0] || p[1] != p[1] {
			return
		}
		if b == nil {
			b = []float64{p[0], p[1], p[0], p[1]}
			return
		}
		b[0], b[1], b[2], b[3] = math.Min(b[0], p[0]), math.Min(b[1], p[1]), math.Max(b[2], p[0]), math.Max(b[3], p[1])
	}
	rings := func(rs [][][2]float64) {
		for _, r := range rs {
			for _, p := range r {
				pt(p)
			}
		}
	}
	switch v := g.(type) {
	case geom.Point:
		pt(v)
	case geom.LineString:
		rings([][][2]float64{v})
	case geom.MultiPoint:
		rings([][][2]float64{v})
	case geom.Polygon:
		rings(v)
	case geom.MultiLineString:
		rings(v)
	case geom.MultiPolygon:
		for _, p := range v {
			rings(p)
		}
	}
	return b
}

func extentEqual(e []*float64, box []float64) bool {
	if len(e) != 4 {
		return false
	}
	if box == nil {
		return e[0] == nil && e[1] == nil && e[2] == nil && e[3] == nil
	}
	for i := range e {
		if e[i] == nil || *e[i] != box[i] {
			return false
		}
	}
	return true
}

func sortedFileNames(m map[string][]c13OTable) []string {
	var s []string
	for k := range m {
		s = append(s, k)
	}
	sort.Strings(s)
	return s
}

// ---- Coq terms ----------------------------------------------------------------------------------------------------------

func coqFeatsPre(fs []c12Feat) string {
	var s []string
	for _, f := range fs {
		var as []string
		for _, a := range f.Attrs {
			as = append(as, a.coq())
		}
		g, _ := normGeom(0, f.G.toGeom())
		s = append(s, fmt.Sprintf("MkFeature %s (%s)", hc.CoqList(as), coqGeomF(g)))
	}
	return hc.CoqList(s)
}

func c13CoqCase(k c13Case, run c13Run, exp *c13Expect, rundir string) string {
	var ids []string
	for _, id := range k.Ids {
		ids = append(ids, hc.CoqZ(int64(id)))
	}
	p := int64(k.PageSize)
	if p == 0 {
		p = 1000
	}
	flags := fmt.Sprintf("(MkFlags %s %d %s %s %s)", hc.CoqBool(k.Overwrite), p, hc.CoqBool(k.Keep), hc.CoqBool(k.Ignore), hc.CoqBool(k.Reverse))
	cfg := fmt.Sprintf("(MkSnapCfg %s %s %s)", hc.CoqBool(k.Keep), hc.CoqBool(k.Ignore), hc.CoqBool(k.Reverse))
	src := "None"
	if !k.NoSource {
		var tabs []string
		for ti, t := range k.Tables {
			var fs []string
			for fi, f := range t.Feats {
				var as []string
				for _, a := range f.Attrs {
					as = append(as, a.coq())
				}
				out := "None"
				if exp != nil && ti < len(exp.Deliv) && fi < len(exp.Deliv[ti]) && !exp.Deliv[ti][fi].Panics {
					var outs []string
					for _, id := range distinctIds(k.Ids) {
						if g, ok := exp.Deliv[ti][fi].Out[id]; ok {
							outs = append(outs, fmt.Sprintf("(%s, %s)", hc.CoqZ(int64(id)), coqGeomF(g)))
						}
					}
					out = "(Some " + hc.CoqList(outs) + ")"
				} else if exp == nil {
					out = "(Some [])"
				}
				fs = append(fs, fmt.Sprintf("MkRFeat %s %s", hc.CoqList(as), out))
			}
			tabs = append(tabs, fmt.Sprintf("(%s, %s)", t.Spec.coq(), hc.CoqList(fs)))
		}
		src = "(Some " + hc.CoqList(tabs) + ")"
	}
	abs := func(s string) string { return strings.ReplaceAll(s, "{ABS}", rundir) }
	var pres []string
	for _, pre := range k.Pre {
		var tabs []string
		for i, t := range pre.Tables {
			tabs = append(tabs, fmt.Sprintf("(%s, %s)", t.coq(), coqFeatsPre(pre.Calls[i].Feats)))
		}
		pres = append(pres, fmt.Sprintf("(%s, %s)", coqString(abs(pre.Path)), hc.CoqList(tabs)))
	}
	var files []string
	for _, name := range sortedFileNames(run.Files) {
		var tabs []string
		for _, t := range run.Files[name] {
			var rows []string
			for _, row := range t.Rows {
				var cells []string
				for _, c := range row {
					switch {
					case c.IsGeom && c.Err == "":
						cells = append(cells, "CGeom ("+coqGeomF(c.G)+")")
					case c.IsGeom:
						cells = append(cells, "CGeom (MkGeom 99%N [] 0%N)")
					default:
						cells = append(cells, "CVal ("+c.V.coq()+")")
					}
				}
				rows = append(rows, hc.CoqList(cells))
			}
			tabs = append(tabs, fmt.Sprintf("(%s, %s)", coqString(t.Name), hc.CoqList(rows)))
		}
		files = append(files, fmt.Sprintf("(%s, %s)", coqString(name), hc.CoqList(tabs)))
	}
	return fmt.Sprintf("RunCase %s %s %s %s %s %s %s %s %s", coqString(abs(k.Target)), hc.CoqList(ids), flags, cfg, hc.CoqBool(k.TmsOK), src,
		hc.CoqList(pres), hc.CoqBool(run.Exit == 0), hc.CoqList(files))
}

// goInject: injectSuffixIntoPath + Sprintf as main.go writes them (since F21 with the percent signs doubled first), with
// Go's packages strings, path and fmt
func goInject(p string, id int) string {
	p = strings.ReplaceAll(p, "%", "%%")
	dir, file := path.Split(p)
	ext := path.Ext(file)
	name := file[:len(file)-len(ext)]
	return fmt.Sprintf(path.Join(dir, name+"_%v"+ext), id)
}

func genPath(r *rand.Rand) string {
	alpha := []string{"a", "b", "Z", "0", "9", "_", "-", ".", ".", "/", "/", "ab", "x.y", "..", "."}
	if r.Intn(2) == 0 {
		alpha = append(alpha, "%", "%", "%v", "%%", "%20", "%d", "[v2]", "*", "\\", "{a,b}", "?")
	}
	n := 1 + r.Intn(9)
	var b strings.Builder
	for i := 0; i < n; i++ {
		b.WriteString(alpha[r.Intn(len(alpha))])
	}
	return b.String()
}

// genFormat: a format for fmt.Sprintf(format, id) over plain characters, '%', "%%", "%v" and verbs that do not exist; no
// flags, widths or other valid verbs ('.', digits, 'd', 'x', ... after a '%' would make Go print the argument another way)
func genFormat(r *rand.Rand) string {
	alpha := []string{"a", "_", "/", "v", "k", "%", "%%", "%%", "%v", "%v", "%_", "%/", "%k", "ab", "_%v"}
	n := r.Intn(8)
	one := -1
	if r.Intn(2) == 0 {
		// what injectSuffixIntoPath produces: plain characters and doubled percent signs around ONE %v
		alpha = []string{"a", "_", "/", "v", "k", "%%", "%%", "%%v", "ab", "%%20", "."}
		one = r.Intn(n + 1)
	}
	var b strings.Builder
	for i := 0; i <= n; i++ {
		if i == one {
			b.WriteString("%v")
		}
		if i < n {
			b.WriteString(alpha[r.Intn(len(alpha))])
		}
	}
	return b.String()
}

// ---- the property run -------------------------------------------------------------------------------------------------------

func runC13(c *hc.Ctx) error {
	c.CorrInit("Texel.Corr.C13", "theories/Corr/C13.v", 12)
	c.Sum.Rule = "random source GeoPackages (1-3 tables: polygon / multipolygon / point / linestring; as a function of the table: BOOLEAN / boolean columns (cells NULL, 0, 1) and BLOB columns (arbitrary bytes: empty, NUL, invalid UTF-8, the bytes of a pool text), column names that must be quoted (SQL keywords, space, dash, leading digit, double quote, comma ..; for the key and the geometry column what the GeoPackage library tolerates), a primary key that is no rowid alias (INT / TEXT PRIMARY KEY) with the rows inserted in an order that is NOT the key order -- and a class of its own with all of these in a polygon table and a point / line table of 4-15 rows; 0-4 attribute columns INTEGER / REAL / TEXT / DATETIME / DATE / TIMESTAMP (date/times written to the source in the GeoPackage text forms 2023-05-17 and 2023-05-17T23:59:59.891Z: midnight, whole seconds, non-zero milliseconds, nanoseconds, before 1970, NULL), geometry column anywhere, 0-22 features; " +
		"the source's gpkg_geometry_columns z / m prohibited (0) or optional (2), its recorded extent NULL / exact / loose (larger) / stale (elsewhere); polygons: rings of one point or of two distinct points (no area: WKB POLYGON((a,b,a)); also as one part of a multipolygon; a class of its own with -keeppointsandlines on), blobs of a few pixels of a requested level, sub-pixel (collapse), dumbbells whose corridor is below a coarse pixel (split), with holes, (partly) outside the grid) " +
		"x {NetherlandsRDNewQuad, WebMercatorQuad} x 1-3 distinct ids, in a quarter of the cases one of them listed two or three times anywhere in the list ([6,5,6], [5,5], [4,7,7,7]) x page size {default, 1..7} x keep/ignore-outside/reverse flags (long names or aliases) x target paths (24 fixed shapes + random stems over [abgkp.-_09GP] with extensions {.gpkg,'',.pkg,.g,.GPKG,'.',.sqlite}; in a quarter of the random ones, and in half of the cases with a pre-existing target file, tokens with a meaning to fmt {%, %v, %d, %20, %%, %s, 100%} or to glob patterns {[v2], *, \\, {a,b}, [1], [, ], [a-c]} in the directory, the stem and / or the extension) " +
		"(relative, ./, nested, dots in directories, several dots, no extension, hidden file, unclean a//b and a/../b, absolute) x " +
		"{no pre-existing files, overwrite on/off | pre-existing files with other content + overwrite | pre-existing + no overwrite (fails) | invalid tile matrix set or ids | missing source}; " +
		"in half of the cases with pre-existing target files a bystander file whose name extends a target's name (out_5.gpkg.keep); " +
		"a hazard class (4 ids, page size 1, 3 attribute values, 150+ polygons, -race build); PathCases: random strings over [a-zA-Z0-9_.-/] incl. '.', '..', '//', half of them also with %, %v, %%, %20, %d, [v2], *, \\, {a,b}, ?; " +
		"FmtCases: fmt.Sprintf(format, id) on random formats over plain characters, %, %%, %v and non-existent verbs. " +
		"distinct = distinct (class, tms, ids, flags, target shape, table kinds); non-trivial = at least one polygon feature whose result differs between ids or is dropped/split"
	c.Sum.Oracle = "exit status; exactly one GeoPackage per DISTINCT requested id (an id listed more than once counts once: exit 0, every file complete) at the path with _<id> inserted before the extension (computed by the harness from the -t argument with strings.LastIndex and filepath.Clean: neither package path nor fmt) and no other new file; a bystander file next to a target is still there, unchanged, after any run; per file the source's tables in order; " +
		"every table is read back in the order it STORES the rows (ORDER BY rowid, not by key) and compared with the source's stored order; attribute cells are compared by value AND storage class (read raw with typeof: TEXT and BLOB of the same bytes differ; a BOOLEAN cell is the integer 0 / 1); column names equal the source's; " +
		"polygon / multipolygon tables: per source feature in source order the attributes (date/time cells read raw from the target and compared with the source value as INSTANTS, to the nanosecond: the unchanged tool already rewrites their text layout) and EXACTLY the geometry snap.SnapPolygon returns for that id under the given flags " +
		"(one polygon, or a multipolygon when several; multipolygon parts merged in part order; omitted when nothing is returned), other tables row-for-row copies; " +
		"rtree entries = non-empty geometries; recorded extent of every table = bounding box of the geometries written to it (NULL if none), whatever the source records; a table whose source z / m is 'optional' is processed like any other; with -overwrite no table or row of an earlier file survives; invalid tile matrix set / ids or a missing source: non-zero exit, no file created, removed or changed; " +
		"library panic (outside the grid without -iog): non-zero exit; the -race build reports no data race"
	c.Sum.Partial = "urfave/cli, the file system, package path / fmt.Sprintf, SQLite and the GeoPackage library are modelled, not verified; the Snap and Pipe models enter as parameters (their theorems are C01-C11)"
	c.Sum.TrustedBase = []string{
		"the library calls made by the harness (snap.SnapPolygon, tms20.LoadEmbeddedTileMatrixSet) are the oracle function of the composition; the fan-out rule is re-implemented in the harness",
		"modelled: urfave/cli flag parsing, os.Remove / gpkg.Open on a finite-map file system, strings.ReplaceAll, path.Split/Ext/Join/Clean and fmt.Sprintf with %% and one %v (PathCase / FmtCase correspondence against Go's packages strings, path and fmt)",
		"modelled: SQLite, go-sqlite3, the GeoPackage library, the verif SpatiaLite stand-in (as C12)",
		"geometries are compared after one encode/decode through the GeoPackage binary codec (exact on float64)",
	}
	c.Sum.Assumptions = []string{"target paths without '?' (go-sqlite3 reads a '?' in the file name as the start of the DSN parameters: the unchanged tool writes -t 'q?d/x.gpkg' to a file named q); any other printable character, '%' and glob metacharacters included", "the tile matrix ids may be listed with repetitions: the request is the set of distinct ids", "date/time attributes are ISO 8601 texts in UTC in columns declared DATE / DATETIME / TIMESTAMP (the types the SQLite driver converts); equality of such a cell = equality of the instant", "page size > 0", "attribute values keep their storage class in their column (SQLite would convert them otherwise, also in the source)",
		"column names are any non-empty texts, distinct without regard to case; not generated because the GeoPackage library fails on them: geometry column names that cannot continue a bare identifier, a double quote in the primary key name, quotes in table names, a feature table without primary key, a geometry column registered in another letter case than the table declares; BOOLEAN cells are NULL / 0 / 1"}

	scratch, err := os.MkdirTemp("", "verif-c13-")
	if err != nil {
		return err
	}
	defer os.RemoveAll(scratch)
	bin, err := buildBinary(c.Repo, scratch, false)
	if err != nil {
		return err
	}
	binRace, err := buildBinary(c.Repo, scratch, true)
	if err != nil {
		binRace = "" // the race detector is supporting evidence only
		c.Count("race build unavailable")
	}

	var cases []c13Case
	if c.Replay != "" {
		var rp struct {
			Case struct {
				Input json.RawMessage `json:"input"`
			} `json:"case"`
		}
		b, err := os.ReadFile(c.Replay)
		if err != nil {
			return err
		}
		if err := json.Unmarshal(b, &rp); err != nil {
			return err
		}
		var k c13Case
		if err := json.Unmarshal(rp.Case.Input, &k); err != nil {
			return err
		}
		cases = []c13Case{k}
	} else {
		n := c.N(150, 3000)
		if c.Search {
			n *= 3
		}
		classes := []string{"fresh", "fresh", "fresh", "fresh", "pre-existing + overwrite", "pre-existing + overwrite", "pre-existing, no overwrite", "invalid tms", "no source", "degenerate polygons + keep", c13ClassKinds, c13ClassKinds}
		for i := 0; i < n; i++ {
			cl := classes[c.Rng.Intn(len(classes))]
			if i < len(classes) {
				cl = classes[i]
			}
			cases = append(cases, genC13Case(c.Rng, len(cases), cl))
		}
		for i := 0; i < c.N(2, 12); i++ {
			cases = append(cases, genC13Case(c.Rng, len(cases), "wide bulk"))
		}
		for i := 0; i < c.N(2, 20); i++ {
			k := genC13Case(c.Rng, len(cases), "hazard")
			k.Race = true
			cases = append(cases, k)
		}
		// finding F25 (known, not repaired): a '?' in the target path.  go-sqlite3 reads it as the start of the DSN parameters,
		// so the file is created under the name cut off there; with two ids both targets are that one file
		for i, tg := range []string{"q?d.gpkg", "sub/x?mode=ro.gpkg", "who?/x.gpkg"} {
			if i >= c.N(2, 3) {
				break
			}
			k := genC13Case(c.Rng, len(cases), "fresh")
			k.Target = tg
			k.Mkdirs = []string{"sub"}
			k.Race = false
			cases = append(cases, k)
		}
		// finding F24 (known, not repaired): a source row whose geometry cell is NULL
		for i := 0; i < c.N(4, 12); i++ {
			k := genC13Case(c.Rng, len(cases), "fresh")
			for ti, t := range k.Tables {
				if len(t.Feats) > 0 {
					k.NullGeom = ti + 1
					break
				}
			}
			if k.NullGeom > 0 {
				k.Race = false
				k.Ignore = true // no polygon is refused as outside the grid: the run would succeed but for the NULL cell
				if e, err := c13Expected(k); err != nil || e.Panics {
					continue
				}
				cases = append(cases, k)
			}
		}
		// some ordinary cases through the race build as well
		for i := range cases {
			if i%10 == 3 {
				cases[i].Race = true
			}
		}
	}

	type result struct {
		run c13Run
		exp *c13Expect
		err error
	}
	results := make([]result, len(cases))
	var wg sync.WaitGroup
	sem := make(chan struct{}, 12)
	for i := range cases {
		wg.Add(1)
		sem <- struct{}{}
		go func(i int) {
			defer wg.Done()
			defer func() { <-sem }()
			k := cases[i]
			var r result
			if k.TmsOK {
				e, err := c13Expected(k)
				if err != nil {
					r.err = err
					results[i] = r
					return
				}
				r.exp = &e
			}
			r.run, r.err = runC13Case(scratch, bin, binRace, k)
			results[i] = r
		}(i)
	}
	wg.Wait()

	for i, k := range cases {
		r := results[i]
		if r.err != nil {
			return fmt.Errorf("case %d: %w", k.ID, r.err)
		}
		c.Sum.Evaluations++
		c.Count("class: " + k.Class)
		c.Count("tms: " + k.Tms)
		for _, b := range c13PathShape(k.Target) {
			c.Count(b)
			if len(k.Pre) > 0 && k.Overwrite {
				c.Count("pre-existing target + overwrite, " + b)
			}
		}
		if len(k.Bystanders) > 0 {
			c.Count("cases with a bystander file next to a target")
		}
		if nd := len(distinctIds(k.Ids)); nd < len(k.Ids) {
			c.Count(fmt.Sprintf("id list with repetitions: %d entries, %d distinct ids", len(k.Ids), nd))
		}
		ntime := 0
		for _, t := range k.Tables {
			for _, col := range t.Spec.Cols {
				if isTimeType(col.Type) && len(t.Feats) > 0 {
					ntime++
				}
			}
		}
		degenerate := false
		for _, t := range k.Tables {
			c.Count("source records extent: " + t.Spec.SrcExtentMode)
			c.Count(fmt.Sprintf("source table z=%d m=%d", t.Spec.Z, t.Spec.M))
			c.Count(defaultsClass(t.Spec))
			for _, kind := range tableKinds(t.Spec) {
				if len(t.Feats) > 1 {
					c.Count(kind + " (source table with 2 or more rows)")
				}
			}
			for _, f := range t.Feats {
				degenerate = degenerate || strings.Contains(f.Shape, "degenerate")
			}
		}
		if degenerate {
			c.Count(fmt.Sprintf("cases with source polygons without area (ring of one or two points), keep flag %v", k.Keep))
		}
		if ntime > 0 {
			c.Count("cases with date/time attribute columns (DATE / DATETIME / TIMESTAMP) in a non-empty table")
		}
		if k.Race && binRace != "" {
			c.Count("runs under the race detector")
		}
		kept, dropped, split, panics := 0, 0, 0, 0
		if r.exp != nil {
			for ti := range r.exp.Deliv {
				for _, d := range r.exp.Deliv[ti] {
					switch {
					case d.Panics:
						panics++
					case len(d.Out) < len(distinctIds(k.Ids)):
						dropped++
					default:
						kept++
					}
					for _, g := range d.Out {
						if mp, ok := g.(geom.MultiPolygon); ok && len(mp) > 1 && k.Tables[ti].Spec.GType == "POLYGON" {
							split++
							break
						}
					}
				}
			}
		}
		if kept > 0 {
			c.Count("cases with features kept for every id")
		}
		if dropped > 0 {
			c.Count("cases with features dropped for some id")
		}
		if split > 0 {
			c.Count("cases with polygons split into multipolygons")
		}
		if panics > 0 {
			c.Count("cases where the library panics (outside the grid)")
		}
		if dropped > 0 || split > 0 || kept > 0 {
			var kinds []string
			for _, t := range k.Tables {
				kinds = append(kinds, t.Spec.GType)
			}
			c.Nontrivial(fmt.Sprintf("%s/%s/%v/%v%v%v%v/%d/%s/%v", k.Class, k.Tms, k.Ids, k.Overwrite, k.Keep, k.Ignore, k.Reverse, k.PageSize, k.Target, kinds))
		}
		if strings.Contains(r.run.Stderr, "DATA RACE") {
			c.Violate(hc.Violation{What: "the race detector reports a data race in the binary", Input: k, Observed: r.run.Stderr})
		}
		for _, p := range c13Oracle(k, r.run, r.exp, filepath.Join(scratch, fmt.Sprintf("run%d", k.ID))) {
			v := hc.Violation{What: p.What, Input: k, Observed: p.Observed, Expected: p.Expected}
			if strings.Contains(k.Target, "?") && k.TmsOK {
				v.KnownFinding = "F25"
			}
			if k.NullGeom > 0 && k.TmsOK && strings.Contains(r.run.Stderr, "interface conversion: interface {} is nil, not []uint8") {
				v.KnownFinding = "F24"
			}
			c.Violate(v)
		}
		if strings.Contains(k.Target, "?") {
			c.Count("target path with a question mark (finding F25): oracle only")
			continue
		}
		if k.NullGeom > 0 {
			c.Count(fmt.Sprintf("source row with a NULL geometry cell (finding F24): oracle only; exit status %d", r.run.Exit))
			continue
		}
		// correspondence: small cases only (the hazard class is oracle-only)
		nfeat := 0
		for _, t := range k.Tables {
			nfeat += len(t.Feats)
		}
		if k.Class != "hazard" && nfeat <= 40 {
			rundir := filepath.Join(scratch, fmt.Sprintf("run%d", k.ID))
			c.Case(c13CoqCase(k, r.run, r.exp, rundir), map[string]any{"case": k, "exit": r.run.Exit})
		}
		if i < 3 {
			c.Sample(map[string]any{"class": k.Class, "tms": k.Tms, "ids": k.Ids, "target": k.Target, "flags": []bool{k.Overwrite, k.Keep, k.Ignore, k.Reverse}, "pagesize": k.PageSize, "exit": r.run.Exit})
		}
	}
	// path construction against Go's package path
	for i := 0; i < c.N(400, 4000); i++ {
		p := genPath(c.Rng)
		id := c.Rng.Intn(40) - 3
		c.Sum.Evaluations++
		c.Count("path cases")
		if strings.Contains(p, "%") {
			c.Count("path cases with '%'")
		}
		c.Case(fmt.Sprintf("PathCase %s %s %s", coqString(p), hc.CoqZ(int64(id)), coqString(goInject(p, id))), map[string]any{"path": p, "id": id, "go": goInject(p, id)})
	}
	// fmt.Sprintf against its model: where the model gives a text, Go's is the same; where it says "outside", Go complains
	for i := 0; i < c.N(300, 3000); i++ {
		f := genFormat(c.Rng)
		id := c.Rng.Intn(40) - 3
		got := fmt.Sprintf(f, id) //nolint:govet // the point is a format that is not a constant
		marker := strings.Contains(got, "%!")
		c.Sum.Evaluations++
		if marker {
			c.Count("format cases Go complains about (%!..): outside the model")
		} else {
			c.Count("format cases Go prints without complaint: inside the model")
		}
		c.Case(fmt.Sprintf("FmtCase %s %s %s %s", coqString(f), hc.CoqZ(int64(id)), coqString(got), hc.CoqBool(marker)), map[string]any{"format": f, "id": id, "go": got})
	}
	return nil
}
