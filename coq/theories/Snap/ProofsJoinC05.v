(** * Join: the routing premise [routing_ok] of the C05 theorems is discharged from C02
      (Index/ProofsRouting.v, C02_routing_vertices). *)
From Coq Require Import ZArith Lia List Bool.
From Texel Require Import Prelude.Base Index.Model Index.ProofsInsert Index.ProofsGrid Index.ProofsRouting
  Snap.Model Snap.ProofsBasics Snap.ProofsSplit Snap.ProofsLevel Snap.ProofsLevelJoin.
Import ListNotations.
Open Scope Z_scope.

(** consecutive pairs of a mapped list / of a duplicate-free list *)
Lemma pairs_map_In {A B} (f : A -> B) (l : list A) x y :
  In (x, y) (pairs (map f l)) -> exists u v, In (u, v) (pairs l) /\ x = f u /\ y = f v.
Proof.
  induction l as [| a [| b t] IH]; cbn [map pairs]; [intros [] | intros [] |].
  intros [E | H].
  - injection E as <- <-. exists a, b. split; [left; reflexivity | auto].
  - destruct (IH H) as [u [v [Hin E]]]. exists u, v. split; [right; exact Hin | exact E].
Qed.

Lemma pairs_NoDup_neq {A} (l : list A) u v : NoDup l -> In (u, v) (pairs l) -> u <> v.
Proof.
  induction l as [| a [| b t] IH]; cbn [pairs]; intros ND H; [contradiction | contradiction |].
  inversion ND as [| ? ? Nin ND']; subst. destruct H as [E | H].
  - injection E as <- <-. intro E. apply Nin. left. symmetry. exact E.
  - apply IH; assumption.
Qed.

(** different pixels of one level have different centroids *)
Lemma pixCen_inj g L q q' : 0 < gres g -> pixCen g L q = pixCen g L q' -> q = q'.
Proof.
  intros Hr E. unfold pixCen, quadCentroid in E. injection E as Ex Ey.
  pose proof (quadSpan_pos g L Hr) as Hs. destruct q as [x y], q' as [x' y']. cbn [fst snd] in *.
  f_equal; nia.
Qed.

Lemma dedges_In (r : ring) a b : In (a, b) (dedges r) -> In a r /\ In b r.
Proof.
  unfold dedges. destruct r as [| f t]; [intros [] |]. intro H. apply pairs_In_l in H as [Ha Hb].
  assert (G : forall x, In x ((f :: t) ++ [f]) -> In x (f :: t)).
  { intros x Hx. apply in_app_or in Hx as [Hx | [<- | []]]; [exact Hx | left; reflexivity]. }
  split; apply G; assumption.
Qed.

(** the centre of the pixel of a vertex *)
Definition centreOf (g : grid) (L : nat) (v : pt) : pt := pixCen g L (pixelOf g L v).

Theorem routing_ok_from_C02 g P hs L r0 r' : 0 < gres g -> RootCovers g -> insertPolygon g P = Ok hs ->
  (L <= gdeep g)%nat -> In r0 P -> (r' = r0 \/ r' = rev r0) -> routing_ok g (hotLevels g hs) L r'.
Proof.
  intros Hr C Hi HL Hin Hr'.
  assert (Vin : forall v, In v r' -> In v (concat P)).
  { intros v Hv. apply in_concat. exists r0. split; [exact Hin |].
    destruct Hr' as [-> | ->]; [exact Hv | apply in_rev; exact Hv]. }
  assert (Edge : forall a b, In (a, b) (dedges r') ->
            exists qs r1 r2, snapClosestPoints g (hotLevels g hs) a b L = map (pixCen g L) qs /\ NoDup qs /\
                             qs = pixelOf g L a :: r1 /\ qs = r2 ++ [pixelOf g L b]).
  { intros a b Hab. apply dedges_In in Hab as [Ha Hb].
    destruct (C02_routing_vertices g P hs a b L Hr C Hi (Vin a Ha) (Vin b Hb) HL)
      as [[Ep [ND _]] [[r1 E1] [[r2 E2] _]]].
    exists (route g hs a b L), r1, r2. auto. }
  split.
  - exists (centreOf g L). intros a b Hab _. destruct (Edge a b Hab) as [qs [r1 [r2 [Ep [_ [E1 E2]]]]]].
    rewrite Ep. split.
    + rewrite E1. reflexivity.
    + rewrite E2, map_app. cbn [map]. apply last_last.
  - intros a b Hab x y Hxy. destruct (Edge a b Hab) as [qs [r1 [r2 [Ep [ND _]]]]].
    rewrite Ep in Hxy. apply pairs_map_In in Hxy as [u [v [Huv [-> ->]]]].
    intro E. apply (pixCen_inj g L u v Hr) in E. exact (pairs_NoDup_neq qs u v ND Huv E).
Qed.

(** the form the C05 theorems ask for: the normalised ring of every ring of the polygon *)
Corollary routing_premise_closed g P hs levels : 0 < gres g -> RootCovers g -> insertPolygon g P = Ok hs ->
  (forall L, In L levels -> (L <= gdeep g)%nat) ->
  forall L idx r0, In L levels -> nth_error P idx = Some r0 ->
    routing_ok g (hotLevels g hs) L (ensureCorrectWindingOrder r0 (negb (Nat.eqb idx 0))).
Proof.
  intros Hr C Hi HLs L idx r0 HL Hn. apply (routing_ok_from_C02 g P hs L r0); try assumption.
  - apply HLs. exact HL.
  - exact (nth_error_In _ _ Hn).
  - unfold ensureCorrectWindingOrder. destruct (windingOrderIsCorrect r0 _); auto.
Qed.

(** C05_rings_well_formed with the routing premise removed: no premise left *)
Theorem snap_rings_well_formed_closed g P levels cfg r :
  0 < gres g -> RootCovers g -> (forall L, In L levels -> (L <= gdeep g)%nat) ->
  snapPolygon g P levels cfg = Ok r ->
  forall L ps poly x, In (L, ps) r -> In poly ps -> In x poly ->
    NoDup x /\ ((2 <= length x)%nat -> hd dp x <> last x dp /\ no_adj_dup x).
Proof.
  intros Hr C HLs H L ps poly x Hin Hpoly Hx.
  destruct (insertPolygon g P) as [hs | e] eqn:Hi.
  - exact (snap_rings_well_formed g P levels cfg r hs Hi (routing_premise_closed g P hs levels Hr C Hi HLs) H
             L ps poly x Hin Hpoly Hx).
  - exfalso. unfold snapPolygon in H. rewrite Hi in H.
    destruct e; try discriminate. destruct (ignoreOutsideGrid cfg); [| discriminate].
    injection H as <-. destruct Hin.
Qed.
