(** * C09 at the level of SnapPolygon. *)
From Coq Require Import ZArith List Bool Lia.
From Texel Require Import Prelude.Base Index.Model Index.ProofsInsert Snap.Model.
Import ListNotations.
Open Scope Z_scope.

(** what SnapPolygon does once the polygon has been indexed *)
Definition snapIndexed (g : grid) (hs : hotset) (P : list ring) (levels : list nat) (cfg : config)
  : res (list (nat * list polygon)) :=
  let hots := hotLevels g hs in
  do rs <- mapM (fun L => do r <- snapLevel g hots P cfg L; Ok (L, r)) levels;
  Ok (flat_map (fun lr => match snd lr with Some ps => [(fst lr, ps)] | None => [] end) rs).

Theorem snap_outside g P levels cfg : 0 < gres g ->
  ~ Forall (insideGrid g) (concat P) ->
  snapPolygon g P levels cfg = if ignoreOutsideGrid cfg then Ok [] else Err OutsideGrid.
Proof.
  intros Hr H. apply (insertPolygon_outside g P Hr) in H. unfold snapPolygon. rewrite H. reflexivity.
Qed.

Theorem snap_inside g P levels cfg : 0 < gres g ->
  Forall (insideGrid g) (concat P) ->
  exists hs, insertPolygon g P = Ok hs /\ snapPolygon g P levels cfg = snapIndexed g hs P levels cfg.
Proof.
  intros Hr H. apply (insertPolygon_ok_iff g P Hr) in H. destruct H as [hs E].
  exists hs. split; [exact E |]. unfold snapPolygon. rewrite E. reflexivity.
Qed.

(** a polygon is snapped (for some requested level a geometry is produced) only if every vertex is inside *)
Theorem snapped_only_if_inside g P levels cfg r : 0 < gres g ->
  snapPolygon g P levels cfg = Ok r -> r <> [] -> Forall (insideGrid g) (concat P).
Proof.
  intros Hr E Hne.
  destruct (Forall_dec (insideGrid g)) with (l := concat P) as [F | NF]; [| exact F |].
  - intro p. unfold insideGrid.
    destruct (Z_le_dec (eminx (gext g)) (fst p)), (Z_lt_dec (fst p) (eminx (gext g) + gsize g * gres g)),
             (Z_le_dec (eminy (gext g)) (snd p)), (Z_lt_dec (snd p) (eminy (gext g) + gsize g * gres g));
      (left; lia) || (right; lia).
  - rewrite (snap_outside g P levels cfg Hr NF) in E. destruct (ignoreOutsideGrid cfg); congruence.
Qed.
