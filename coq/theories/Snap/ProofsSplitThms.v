(** * splitRing, part 3: the theorems (C05 split invariants, C18 conservation, C04 provenance). *)
From Coq Require Import ZArith List Bool Lia Permutation.
From Texel Require Import Prelude.Base Index.Model Snap.Model Snap.ProofsBasics Snap.ProofsSplit Snap.ProofsSplitRefine.
Import ListNotations.
Open Scope Z_scope.

(** all directed edges of a family of rings *)
Definition all_dedges (rs : list ring) : list (pt * pt) := concat (map dedges rs).

(** (a) [splitRing] never fails on a non-empty ring — for ANY flag predicate *)
Theorem split_total (r : ring) isOuter isMulti : r <> [] -> exists sets, splitRing r isOuter isMulti = Ok sets.
Proof.
  intro H. destruct r as [| r0 t]; [congruence |].
  destruct (splitRing_spec (r0 :: t) isOuter isMulti r0 t eq_refl) as [D [rings [_ [_ E]]]]. eauto.
Qed.

(** the sets before the final swap *)
Theorem split_decompose (r : ring) isOuter isMulti sets : splitRing r isOuter isMulti = Ok sets ->
  exists r0 t D rings, r = r0 :: t /\
    aloop isMulti (t ++ [r0]) ([[r0]], []) = Some ([], D) /\ Permutation rings D /\
    sets = (let s := classifyAll isOuter rings in if swapb isOuter s then swapSets isOuter s else s).
Proof.
  intro E. destruct r as [| r0 t]; [discriminate |].
  destruct (splitRing_spec (r0 :: t) isOuter isMulti r0 t eq_refl) as [D [rings [E1 [P E2]]]].
  exists r0, t, D, rings. rewrite E2 in E. inversion E. auto.
Qed.

Lemma classifyAll_fields isOuter rings :
  outers (classifyAll isOuter rings) = filter (isOutb isOuter) rings /\
  inners (classifyAll isOuter rings) = filter (isInb isOuter) rings /\
  pointsAndLines (classifyAll isOuter rings) = filter smallb rings.
Proof. apply (classify_fold isOuter rings (mkSets [] [] [])). Qed.

Lemma classifyAll_perm isOuter rings : Permutation (rings_of_sets (classifyAll isOuter rings)) rings.
Proof.
  unfold rings_of_sets. destruct (classifyAll_fields isOuter rings) as [-> [-> ->]]. apply three_way_perm.
Qed.

(** (e) C18: the directed cyclic edges of the rings before the swap are exactly those of the input;
    the swap reverses every ring of three or more vertices *)
Theorem split_conserves (r : ring) isOuter isMulti sets : splitRing r isOuter isMulti = Ok sets ->
  exists s0, sets = (if swapb isOuter s0 then swapSets isOuter s0 else s0) /\
             Permutation (all_dedges (rings_of_sets s0)) (dedges r).
Proof.
  intro E. destruct (split_decompose _ _ _ _ E) as [r0 [t [D [rings [Er [Ea [P Es]]]]]]].
  exists (classifyAll isOuter rings). split; [exact Es |].
  destruct (asplit_total_conserves isMulti r r0 t Er) as [D' [Ea' [Pe _]]].
  rewrite Ea in Ea'. inversion Ea'; subst D'.
  unfold all_dedges. eapply Permutation_trans; [| exact Pe].
  apply Permutation_concat_map. eapply Permutation_trans; [apply classifyAll_perm | exact P].
Qed.

Lemma length_zero_nil {A} (l : list A) : (length l =? 0)%nat = true -> l = [].
Proof. destruct l; [reflexivity | discriminate]. Qed.

(** after the swap: un-reversing the rings gives the input edges back *)
Definition unswap (s : ringSets) : list ring := map (@rev pt) (outers s ++ inners s) ++ pointsAndLines s.

Lemma swap_unswap isOuter s0 : swapb isOuter s0 = true ->
  Permutation (unswap (swapSets isOuter s0)) (rings_of_sets s0).
Proof.
  unfold swapb, swapSets, unswap, rings_of_sets. destruct isOuter; cbn [andb negb orb]; rewrite ?orb_false_r;
    intro H; apply andb_prop in H; destruct H as [H _]; apply length_zero_nil in H; rewrite H;
    cbn [outers inners pointsAndLines app]; rewrite ?app_nil_r, map_map.
  - rewrite (map_ext _ (fun x => x)) by apply rev_involutive. rewrite map_id. apply Permutation_refl.
  - rewrite (map_ext _ (fun x => x)) by apply rev_involutive. rewrite map_id. apply Permutation_refl.
Qed.

Corollary split_conserves_cases (r : ring) isOuter isMulti sets : splitRing r isOuter isMulti = Ok sets ->
  Permutation (all_dedges (rings_of_sets sets)) (dedges r) \/
  ((outers sets = [] \/ inners sets = []) /\ Permutation (all_dedges (unswap sets)) (dedges r)).
Proof.
  intro E. destruct (split_conserves _ _ _ _ E) as [s0 [Es P]].
  destruct (swapb isOuter s0) eqn:Sw; subst sets; [right | left; exact P]. split.
  - unfold swapSets. destruct isOuter; cbn [outers inners]; auto.
  - unfold all_dedges. eapply Permutation_trans; [| exact P].
    apply Permutation_concat_map, swap_unswap, Sw.
Qed.

(** every ring of the result is a ring of the unswapped sets or the reverse of one *)
Lemma swapSets_rings isOuter s0 ring : In ring (rings_of_sets (swapSets isOuter s0)) ->
  In ring (rings_of_sets s0) \/ exists ring', In ring' (rings_of_sets s0) /\ ring = rev ring'.
Proof.
  unfold swapSets, rings_of_sets. destruct isOuter; cbn [outers inners pointsAndLines app]; intro H.
  - apply in_app_or in H. destruct H as [H | H].
    + right. apply in_map_iff in H. destruct H as [x [E Hx]]. exists x. split; [| auto].
      apply in_or_app. right. apply in_or_app. left. exact Hx.
    + left. apply in_or_app. right. apply in_or_app. right. exact H.
  - apply in_app_or in H. destruct H as [H | H].
    + right. apply in_map_iff in H. destruct H as [x [E Hx]]. exists x. split; [| auto].
      apply in_or_app. left. exact Hx.
    + left. apply in_or_app. right. apply in_or_app. right. exact H.
Qed.

Lemma split_rings_from (r : ring) isOuter isMulti sets : splitRing r isOuter isMulti = Ok sets ->
  exists r0 t D, r = r0 :: t /\ aloop isMulti (t ++ [r0]) ([[r0]], []) = Some ([], D) /\
    forall ring, In ring (rings_of_sets sets) -> In ring D \/ exists ring', In ring' D /\ ring = rev ring'.
Proof.
  intro E. destruct (split_decompose _ _ _ _ E) as [r0 [t [D [rings [Er [Ea [P Es]]]]]]].
  exists r0, t, D. split; [exact Er |]. split; [exact Ea |].
  assert (Hs0 : forall x, In x (rings_of_sets (classifyAll isOuter rings)) -> In x D).
  { intros x Hx. apply (Permutation_in _ P), (Permutation_in _ (classifyAll_perm isOuter rings)), Hx. }
  intros ring Hin. cbn zeta in Es. destruct (swapb isOuter (classifyAll isOuter rings)); subst sets.
  - destruct (swapSets_rings _ _ _ Hin) as [H | [x [H1 H2]]]; [left; apply Hs0, H | right; exists x; auto].
  - left. apply Hs0, Hin.
Qed.

(** a property of rings that is invariant under reversal and holds for all completed rings holds for
    all returned rings *)
Lemma split_lift (P : ring -> Prop) (r : ring) isOuter isMulti sets :
  (forall x, P x -> P (rev x)) -> splitRing r isOuter isMulti = Ok sets ->
  (forall r0 t D, r = r0 :: t -> aloop isMulti (t ++ [r0]) ([[r0]], []) = Some ([], D) -> Forall P D) ->
  Forall P (rings_of_sets sets).
Proof.
  intros Hrev E HD. destruct (split_rings_from _ _ _ _ E) as [r0 [t [D [Er [Ea Hr]]]]].
  pose proof (HD r0 t D Er Ea) as F. rewrite Forall_forall in *. intros x Hx.
  destruct (Hr x Hx) as [H | [x' [H1 ->]]]; [apply F, H | apply Hrev, F, H1].
Qed.

(** no returned ring is empty *)
Theorem split_nonempty (r : ring) isOuter isMulti sets : splitRing r isOuter isMulti = Ok sets ->
  Forall (fun x : ring => x <> []) (rings_of_sets sets).
Proof.
  intro E. apply (split_lift _ r isOuter isMulti sets); [| exact E |].
  - intros x Hx Hr. apply Hx. rewrite <- (rev_involutive x), Hr. reflexivity.
  - intros r0 t D Er Ea. destruct (asplit_total_conserves isMulti r r0 t Er) as [D' [Ea' [_ N]]].
    rewrite Ea in Ea'. inversion Ea'; subst. exact N.
Qed.

(** (b) if every repeated vertex is flagged, no returned ring visits a vertex twice *)
Theorem split_repeat_free (r : ring) isOuter isMulti sets :
  (forall p, (2 <= count_occ pt_dec r p)%nat -> isMulti p = true) ->
  splitRing r isOuter isMulti = Ok sets -> Forall (@NoDup pt) (rings_of_sets sets).
Proof.
  intros Hfl E. apply (split_lift _ r isOuter isMulti sets); [| exact E |].
  - intros x Hx. apply NoDup_rev, Hx.
  - intros r0 t D Er Ea. apply (asplit_nodup isMulti r r0 t [] D Er Hfl Ea).
Qed.

(** every directed edge of a returned ring is an edge of the input ring, or the reverse of one *)
Lemma split_edge_from (r : ring) isOuter isMulti sets ring a b : splitRing r isOuter isMulti = Ok sets ->
  In ring (rings_of_sets sets) -> In (a, b) (dedges ring) -> In (a, b) (dedges r) \/ In (b, a) (dedges r).
Proof.
  intros E Hin He. destruct (split_rings_from _ _ _ _ E) as [r0 [t [D [Er [Ea Hr]]]]].
  destruct (asplit_total_conserves isMulti r r0 t Er) as [D' [Ea' [Pe _]]].
  rewrite Ea in Ea'. inversion Ea'; subst D'.
  assert (HD : forall x e, In x D -> In e (dedges x) -> In e (dedges r)).
  { intros x e Hx Hex. apply (Permutation_in _ Pe). apply in_concat. exists (dedges x). split; [apply in_map, Hx | exact Hex]. }
  destruct (Hr ring Hin) as [H | [x [H1 ->]]].
  - left. apply (HD ring _ H He).
  - right. apply (Permutation_in _ (dedges_rev x)) in He. apply in_map_iff in He.
    destruct He as [[c d] [E2 He]]. unfold swap in E2. cbn [fst snd] in E2. inversion E2; subst. apply (HD x _ H1 He).
Qed.

(** (c) shape: for an input without equal (cyclic) neighbours every returned ring has no equal
    neighbours, its last vertex differs from its first, and it has at least two vertices *)
Theorem split_ring_shape (r : ring) isOuter isMulti sets : no_adj_dup r ->
  splitRing r isOuter isMulti = Ok sets ->
  Forall (fun x : ring => no_adj_dup x /\ (2 <= length x)%nat) (rings_of_sets sets).
Proof.
  intros Hn E. rewrite Forall_forall. intros x Hx.
  assert (Hd : no_adj_dup x).
  { intros a b He. destruct (split_edge_from _ _ _ _ _ _ _ E Hx He) as [H | H]; [apply (Hn _ _ H) |].
    intro Eab. apply (Hn _ _ H). auto. }
  split; [exact Hd |].
  pose proof (split_nonempty _ _ _ _ E) as Ne. rewrite Forall_forall in Ne. specialize (Ne x Hx).
  destruct x as [| a [| b x]]; [congruence | | cbn [length]; lia].
  exfalso. apply (Hd a a); [left; reflexivity | reflexivity].
Qed.

Lemma no_adj_dup_first_last (x : ring) : no_adj_dup x -> x <> [] -> hd dp x <> last x dp.
Proof.
  intros H Hne. destruct x as [| a x0]; [congruence |].
  destruct (snoc_cases x0) as [-> | [x' [z ->]]].
  - exfalso. apply (H a a); [left; reflexivity | reflexivity].
  - rewrite app_comm_cons, last_last. cbn [hd]. intro Eq. apply (H z a); [| auto].
    unfold dedges. change (In (z, a) (pairs (((a :: x') ++ [z]) ++ [a]))).
    rewrite <- app_assoc. cbn [app]. change (a :: x' ++ [z; a]) with ((a :: x') ++ [z; a]).
    rewrite pairs_snoc. apply in_or_app. right. left. reflexivity.
Qed.

(** (d) orientation and sizes *)
Lemma isOutb_spec isOuter x : isOutb isOuter x = true -> (3 <= length x)%nat /\ 0 <= xprod x.
Proof.
  unfold isOutb, smallb. intro H. apply andb_prop in H. destruct H as [H1 H2].
  apply negb_true_iff, Nat.ltb_ge in H1. split; [exact H1 |].
  destruct isOuter.
  - destruct (woc_false_ccw x H2); lia.
  - apply negb_true_iff in H2. pose proof (woc_true_not x H2). lia.
Qed.

Lemma isInb_spec isOuter x : isInb isOuter x = true -> (3 <= length x)%nat /\ xprod x <= 0.
Proof.
  unfold isInb, smallb. intro H. apply andb_prop in H. destruct H as [H1 H2].
  apply negb_true_iff, Nat.ltb_ge in H1. split; [exact H1 |].
  destruct isOuter.
  - apply negb_true_iff in H2. pose proof (woc_false_not x H2). lia.
  - destruct (woc_true_cw x H2); lia.
Qed.

Theorem split_orientation (r : ring) isOuter isMulti sets : splitRing r isOuter isMulti = Ok sets ->
  Forall (fun x : ring => (3 <= length x)%nat /\ 0 <= xprod x) (outers sets) /\
  Forall (fun x : ring => (3 <= length x)%nat /\ xprod x <= 0) (inners sets) /\
  Forall (fun x : ring => (1 <= length x <= 2)%nat) (pointsAndLines sets).
Proof.
  intro E. pose proof (split_nonempty _ _ _ _ E) as Ne.
  destruct (split_decompose _ _ _ _ E) as [r0 [t [D [rings [Er [Ea [P Es]]]]]]]. cbn zeta in Es.
  destruct (classifyAll_fields isOuter rings) as [Fo [Fi Fp]].
  assert (Ho : Forall (fun x : ring => (3 <= length x)%nat /\ 0 <= xprod x) (outers (classifyAll isOuter rings))).
  { rewrite Fo, Forall_forall. intros x Hx. apply filter_In in Hx. apply (isOutb_spec isOuter), Hx. }
  assert (Hi : Forall (fun x : ring => (3 <= length x)%nat /\ xprod x <= 0) (inners (classifyAll isOuter rings))).
  { rewrite Fi, Forall_forall. intros x Hx. apply filter_In in Hx. apply (isInb_spec isOuter), Hx. }
  assert (Hp : Forall (fun x : ring => (length x <= 2)%nat) (pointsAndLines (classifyAll isOuter rings))).
  { rewrite Fp, Forall_forall. intros x Hx. apply filter_In in Hx. destruct Hx as [_ Hx].
    unfold smallb in Hx. apply Nat.ltb_lt in Hx. lia. }
  assert (Hpl : pointsAndLines sets = pointsAndLines (classifyAll isOuter rings)).
  { subst sets. destruct (swapb isOuter _); [| reflexivity]. unfold swapSets. destruct isOuter; reflexivity. }
  split; [| split].
  - subst sets. destruct (swapb isOuter _); [| exact Ho]. unfold swapSets. destruct isOuter; cbn [outers]; [| constructor].
    rewrite Forall_forall in *. intros x Hx. apply in_map_iff in Hx. destruct Hx as [y [<- Hy]].
    rewrite rev_length, xprod_rev. specialize (Hi y Hy). lia.
  - subst sets. destruct (swapb isOuter _); [| exact Hi]. unfold swapSets. destruct isOuter; cbn [inners]; [constructor |].
    rewrite Forall_forall in *. intros x Hx. apply in_map_iff in Hx. destruct Hx as [y [<- Hy]].
    rewrite rev_length, xprod_rev. specialize (Ho y Hy). lia.
  - rewrite Forall_forall in *. intros x Hx.
    assert (Hx' : In x (rings_of_sets sets)) by (unfold rings_of_sets; apply in_or_app; right; apply in_or_app; right; exact Hx).
    specialize (Ne x Hx'). rewrite Hpl in Hx. specialize (Hp x Hx). destruct x; [congruence | cbn [length] in *; lia].
Qed.

(** under the hypothesis of (c) points do not occur: collapsed parts are two-vertex lines *)
Corollary split_lines (r : ring) isOuter isMulti sets : no_adj_dup r -> splitRing r isOuter isMulti = Ok sets ->
  Forall (fun x : ring => length x = 2%nat) (pointsAndLines sets).
Proof.
  intros Hn E. destruct (split_orientation _ _ _ _ E) as [_ [_ Hp]].
  pose proof (split_ring_shape _ _ _ _ Hn E) as Hs. rewrite Forall_forall in *. intros x Hx.
  assert (Hx' : In x (rings_of_sets sets)) by (unfold rings_of_sets; apply in_or_app; right; apply in_or_app; right; exact Hx).
  specialize (Hp x Hx). destruct (Hs x Hx') as [_ H2]. lia.
Qed.

(** provenance (C04 clause 1): no point is invented *)
Lemma pairs_succ (l : list pt) p c : In p l -> exists b, In (p, b) (pairs (l ++ [c])).
Proof.
  induction l as [| a l IH]; [intros [] |]. intros [-> | H].
  - destruct l as [| b l]; [exists c; left; reflexivity | exists b; left; reflexivity].
  - destruct (IH H) as [b Hb]. exists b. destruct l as [| b' l]; [destruct H |].
    change ((a :: b' :: l) ++ [c]) with (a :: (b' :: l) ++ [c]). cbn [app] in *. rewrite pairs_cons2. right. exact Hb.
Qed.

Lemma dedges_out (x : ring) p : In p x -> exists b, In (p, b) (dedges x).
Proof. intro H. destruct x as [| a x]; [destruct H |]. unfold dedges. apply pairs_succ, H. Qed.

Lemma dedges_In (x : ring) a b : In (a, b) (dedges x) -> In a x /\ In b x.
Proof.
  destruct x as [| c x]; [intros [] |]. unfold dedges. intro H. apply pairs_In_l in H.
  destruct H as [H1 H2]. split.
  - apply in_app_or in H1. destruct H1 as [H1 | [<- | []]]; [exact H1 | left; reflexivity].
  - apply in_app_or in H2. destruct H2 as [H2 | [<- | []]]; [exact H2 | left; reflexivity].
Qed.

Theorem split_incl (r : ring) isOuter isMulti sets : splitRing r isOuter isMulti = Ok sets ->
  incl (pts_of_sets sets) r.
Proof.
  intros E p Hp. apply pts_of_sets_rings in Hp. destruct Hp as [x [Hx Hpx]].
  destruct (dedges_out x p Hpx) as [b Hb].
  destruct (split_edge_from _ _ _ _ _ _ _ E Hx Hb) as [H | H]; apply dedges_In in H; tauto.
Qed.

(** signed area: the rings returned enclose the signed area of the input (negated by the swap) *)
Fixpoint sum_xprod (rs : list ring) : Z := match rs with [] => 0 | x :: rest => xprod x + sum_xprod rest end.

Lemma sum_xprod_dedges rs : sum_xprod rs = sumc (all_dedges rs).
Proof.
  induction rs as [| x rs IH]; [reflexivity |]. unfold all_dedges in *. cbn [sum_xprod map concat].
  rewrite sumc_app, xprod_dedges, IH. reflexivity.
Qed.

Theorem split_area (r : ring) isOuter isMulti sets : splitRing r isOuter isMulti = Ok sets ->
  sum_xprod (rings_of_sets sets) = xprod r \/
  ((outers sets = [] \/ inners sets = []) /\ sum_xprod (unswap sets) = xprod r).
Proof.
  intro E. destruct (split_conserves_cases _ _ _ _ E) as [P | [H P]]; [left | right; split; [exact H |]];
    rewrite sum_xprod_dedges, xprod_dedges; apply sumc_perm, P.
Qed.
