(** * C04 clause 1 end to end: provenance through the snap pipeline (Snap/ProofsLevelJoin) joined with
      "routed points are centroids of pixels of input vertices" (Index/ProofsCentre). *)
From Coq Require Import ZArith List Bool.
From Texel Require Import Prelude.Base Index.Model Index.ProofsInsert Index.ProofsGrid Index.ProofsCentre
  Snap.Model Snap.ProofsBasics Snap.ProofsLevelJoin.
Import ListNotations.
Open Scope Z_scope.

Theorem output_vertex_is_pixel_centre_of_input_vertex g P levels cfg r L ps p :
  0 < gres g -> snapPolygon g P levels cfg = Ok r -> In (L, ps) r -> (0 < L <= gdeep g)%nat ->
  In p (concat (concat ps)) ->
  exists v, In v (concat P) /\
            p = quadCentroid g L (fst (pixelOf g L v)) (snd (pixelOf g L v)) /\
            containsPoint v (quadExtent g L (fst (pixelOf g L v)) (snd (pixelOf g L v))) = true.
Proof.
  intros Hr Hs Hin HL Hp.
  destruct (snap_provenance_closed g P levels cfg r L ps p Hs Hin Hp)
    as (hs & r0 & r' & a & b & Hins & _ & _ & _ & Hroute).
  exact (outputs_are_hot_centroids g P hs a b L p Hr Hins HL Hroute).
Qed.
