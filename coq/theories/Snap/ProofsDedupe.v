(** * dedupeInnersOuters only deletes rings (C04 provenance, C05 preservation). *)
From Coq Require Import ZArith List Bool Lia Permutation.
From Texel Require Import Prelude.Base Index.Model Snap.Model Snap.ProofsBasics.
Import ListNotations.
Open Scope Z_scope.

Lemma filter_idx_subseq {A} (l : list A) : forall k del, subseq (filter_idx l k del) l.
Proof.
  induction l as [| a l IH]; intros k del; cbn [filter_idx]; [constructor |].
  destruct (mem_Z k del); [apply sub_skip | apply sub_keep]; apply IH.
Qed.

(** the result consists of sublists (in order) of the two inputs *)
Theorem dedupe_sub outs ins outs' ins' : dedupeInnersOuters outs ins = Ok (outs', ins') ->
  subseq outs' outs /\ subseq ins' ins.
Proof.
  unfold dedupeInnersOuters. intro H. bind_inv H st Hst. inversion H; subst.
  split; apply filter_idx_subseq.
Qed.

Corollary dedupe_incl outs ins outs' ins' : dedupeInnersOuters outs ins = Ok (outs', ins') ->
  incl outs' outs /\ incl ins' ins.
Proof. intro H. destruct (dedupe_sub _ _ _ _ H). split; apply subseq_incl; assumption. Qed.

Lemma subseq_Forall {A} (P : A -> Prop) (l l' : list A) : subseq l l' -> Forall P l' -> Forall P l.
Proof.
  intros Hs Hf. rewrite Forall_forall in *. intros x Hx. apply Hf, (subseq_incl _ _ Hs), Hx.
Qed.
