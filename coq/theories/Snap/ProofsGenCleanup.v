(** * Tie G2 (loops): cleanupNewRing REGENERATED from snap.go on every run (gen/CleanupRingGen.v) is the model's
      [cleanupNewRing] (Snap/Model.v) for every ring: the closing vertex removed before spike removal, the loop that
      removes it again afterwards (the model's structural [trimClosing]), both "fewer than 3 vertices" exits.
      kmpDeduplicate, asPointOrLine and splitRing are the regenerated ones (gen_splitRing of gen/SplitWalkGen.v, equal
      to the model's by Snap/ProofsGenSplitWalk.v); the arguments (hitMultiple, ringIdx) of splitRing are the model's
      predicate [isMulti]. *)
From Coq Require Import ZArith List Bool Lia.
From Texel Require Import Prelude.Base Prelude.GoLoop Index.Model Snap.Model Snap.ProofsKmpSearch
  Snap.ProofsGenSmall Snap.ProofsGenKmpDedup Snap.ProofsGenSplitWalk.
From Texel.Gen Require Import KmpDedupGen SnapSmallGen SplitWalkGen CleanupRingGen.
Import ListNotations.
Open Scope Z_scope.

(** "more than one vertex and the first equals the last" *)
Definition closes (r : list pt) : bool :=
  match r, last_opt r with
  | a :: _, Some l => (1 <? length r)%nat && pt_eqb a l
  | _, _ => false
  end.

Lemma last_opt_snoc {A} (l : list A) b : last_opt (l ++ [b]) = Some b.
Proof. unfold last_opt. rewrite rev_app_distr. reflexivity. Qed.

Lemma idx_snoc {A} (l : list A) b : idx (l ++ [b]) (zlen l) = Ok b.
Proof.
  rewrite idx_nth by apply zlen_nonneg. replace (Z.to_nat (zlen l)) with (length l) by (unfold zlen; lia).
  rewrite nth_error_app2 by lia. rewrite Nat.sub_diag. reflexivity.
Qed.

Lemma closes_snoc a t c : closes (a :: t ++ [c]) = pt_eqb a c.
Proof.
  unfold closes. change (last_opt (a :: t ++ [c])) with (last_opt ((a :: t) ++ [c])). rewrite last_opt_snoc.
  replace (1 <? length (a :: t ++ [c]))%nat with true; [reflexivity |].
  symmetry. apply Nat.ltb_lt. cbn [length]. rewrite app_length. cbn [length]. lia.
Qed.

Lemma closing_check (r : list pt) :
  (if 1 <? zlen r then (do a <- idx r 0; do b <- idx r (zlen r - 1); Ok (pt_eqb a b)) else Ok false)
  = Ok (closes r).
Proof.
  destruct r as [| a t]; [reflexivity |].
  destruct t as [| c t] using rev_ind; [reflexivity |]. clear IHt.
  rewrite closes_snoc. change (a :: t ++ [c]) with ((a :: t) ++ [c]).
  rewrite zlen_app. change (zlen [c]) with 1. pose proof (zlen_nonneg (a :: t)) as Hn.
  destruct (Z.ltb_spec 1 (zlen (a :: t) + 1)); [| rewrite zlen_cons in *; pose proof (zlen_nonneg t); lia].
  change (idx ((a :: t) ++ [c]) 0) with (Ok (A := pt) a). cbn [bind].
  replace (zlen (a :: t) + 1 - 1) with (zlen (a :: t)) by lia. rewrite idx_snoc. reflexivity.
Qed.

Lemma strip_snoc a t b : stripTrailing a (t ++ [b]) = if pt_eqb a b then stripTrailing a t else t ++ [b].
Proof.
  induction t as [| c t IH]; cbn [app stripTrailing].
  - destruct (pt_eqb a b); reflexivity.
  - rewrite IH. destruct (pt_eqb a b); [reflexivity |]. destruct (t ++ [b]) eqn:E; [| reflexivity].
    destruct t; discriminate.
Qed.

Lemma trim_step (r : list pt) : trimClosing r = if closes r then trimClosing (removelast r) else r.
Proof.
  destruct r as [| a t]; [reflexivity |].
  destruct t as [| c t] using rev_ind; [reflexivity |]. clear IHt.
  rewrite closes_snoc. change (removelast (a :: t ++ [c])) with (removelast ((a :: t) ++ [c])).
  rewrite removelast_last. cbn [trimClosing]. rewrite strip_snoc. destruct (pt_eqb a c); reflexivity.
Qed.

Lemma removelast_length {A} (l : list A) : l <> [] -> S (length (removelast l)) = length l.
Proof.
  intro H. destruct (exists_last H) as (l' & b & ->). rewrite removelast_last, app_length. cbn [length]. lia.
Qed.

Lemma closes_ne (r : list pt) : closes r = true -> r <> [].
Proof. destruct r; [discriminate | discriminate]. Qed.

(** the loop after spike removal *)
Lemma gen_trim_loop isOuter : forall fuel r, (length r < fuel)%nat ->
  gen_cleanupNewRing_loop1 isOuter fuel r (zlen r) = Ok (Next (trimClosing r, zlen (trimClosing r))).
Proof.
  induction fuel as [| fuel IH]; intros r Hf; [lia |].
  cbn [gen_cleanupNewRing_loop1]. rewrite closing_check. cbn [bind]. rewrite (trim_step r).
  destruct (closes r) eqn:Ec; [| reflexivity].
  pose proof (closes_ne r Ec) as Hne. rewrite slice_all_but_last by assumption. cbn [bind].
  pose proof (removelast_length r Hne) as Hl.
  replace (zlen r - 1) with (zlen (removelast r)) by (unfold zlen; lia).
  apply IH. lia.
Qed.

Lemma ltb3 {A} (l : list A) : (zlen l <? 3) = (length l <? 3)%nat.
Proof. unfold zlen. destruct (Z.ltb_spec (Z.of_nat (length l)) 3), (Nat.ltb_spec (length l) 3); lia || reflexivity. Qed.

Theorem gen_cleanupNewRing_spec newRing isOuter isMulti :
  gen_cleanupNewRing newRing isOuter isMulti = cleanupNewRing newRing isOuter isMulti.
Proof.
  unfold gen_cleanupNewRing, cleanupNewRing. cbv zeta beta. rewrite closing_check. cbn [bind].
  match goal with
  | |- _ = (if (length ?X <? 3)%nat then _ else _) =>
      assert (Hr1 : X = if closes newRing then removelast newRing else newRing)
        by (unfold closes; destruct newRing as [| a t]; [reflexivity |]; destruct (last_opt (a :: t)); reflexivity);
      rewrite Hr1; clear Hr1
  end.
  assert (K : forall r1, 
    (if zlen r1 <? 3 then do t <- gen_asPointOrLine r1; Ok (mkSets [] [] t)
     else do t <- gen_kmpDeduplicate r1;
          do out <- gen_cleanupNewRing_loop1 isOuter (S (length t)) t (zlen t);
          match out with
          | Ret r => Ok r
          | Next (nr, nl) => if nl <? 3 then do t7 <- gen_asPointOrLine nr; Ok (mkSets [] [] t7)
                             else do t8 <- gen_splitRing nr isOuter isMulti; Ok t8
          end)
    = (if (length r1 <? 3)%nat then Ok (mkSets [] [] (asPointOrLine r1))
       else do r2' <- kmpDeduplicate r1;
            if (length (trimClosing r2') <? 3)%nat then Ok (mkSets [] [] (asPointOrLine (trimClosing r2')))
            else splitRing (trimClosing r2') isOuter isMulti)).
  { intro r1. rewrite ltb3. destruct (length r1 <? 3)%nat; [rewrite gen_asPointOrLine_spec; reflexivity |].
    rewrite gen_kmpDeduplicate_spec. destruct (kmpDeduplicate r1) as [r2' | e]; cbn [bind]; [| reflexivity].
    rewrite gen_trim_loop by lia. cbn [bind]. rewrite ltb3.
    destruct (length (trimClosing r2') <? 3)%nat;
      [rewrite gen_asPointOrLine_spec; reflexivity | rewrite gen_splitRing_spec; apply bind_Ok_id]. }
  destruct (closes newRing) eqn:Ec.
  - rewrite slice_all_but_last by (apply closes_ne; exact Ec). cbn [bind].
    pose proof (removelast_length newRing (closes_ne _ Ec)) as Hl.
    replace (zlen newRing - 1) with (zlen (removelast newRing)) by (unfold zlen; lia). apply K.
  - apply K.
Qed.
