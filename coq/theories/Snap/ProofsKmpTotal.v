(** * C06 for kmpDeduplicate: what is proved for EVERY ring.

    [kmpDedupLoop_partial] / [kmpDeduplicate_partial]:
    - the loop never runs out of fuel (every iteration advances [i] by at least one: after a
      detection [i] jumps forward by at least [len segment - 1 >= 1]);
    - [visitedPoints] is always the contiguous block [ring[i - len visited .. i)], hence
      [start = i - len segment >= 0]; the reverse scan, the corpus slices and both
      [kmpSearchAll] calls stay in range; the segment is found at offset 0 ([len matches >= 1]);
      [matches[len-1]] / [reverseMatches[len-1]] are only read when non-empty;
    - so the only way the loop can fail is the inner default of the [default:] switch branch
      ([sequenceEnd, endPointIdx = 0, 0], then [ring[-1]]), which is taken exactly when
      [len matches = 1 /\ len reverseMatches = 0] ([switch_default_iff]);
    - the only other failure of kmpDeduplicate is a slice-bounds panic inside RemoveSequences
      ([ranges_ok] of ProofsKmpSubseq violated).

    REFUTED: totality itself.  The second failure does happen for a ring that satisfies everything
    cleanupNewRing guarantees (>= 3 vertices, first <> last, no equal neighbours):
    [kmpDeduplicate_total_refuted] (33 vertices on 3 pixel centres; replayed on the Go code:
    "slice bounds out of range [20:19]").  In the [len reverseMatches > len matches] case the loop
    records the range [(start, start + 2(L-1)*len matches)] but resumes at
    [start + reverseMatches[last] + L - 1], which can lie BEFORE the end of that range because
    matches after the last reverse match are counted too; the next detection then records a range
    that starts inside the previous one.

    OPEN: whether the first failure ([len matches = 1 /\ len reverseMatches = 0]) is reachable.
    The reversed segment does occur at offset [len segment - 1] of the corpus, but [kmpSearch] is
    not a correct string search ([kmpSearch_unsound_refuted]); no such input was found. *)
From Coq Require Import ZArith List Bool Lia.
From Texel Require Import Prelude.Base Index.Model Snap.Model Snap.ProofsKmpSearch Snap.ProofsKmpSubseq.
Import ListNotations.
Open Scope Z_scope.

(** ** more list facts *)
Lemma skipn_nth_cons {A} (l : list A) : forall n v, nth_error l n = Some v -> skipn n l = v :: skipn (S n) l.
Proof.
  induction l as [| a l IH]; intros n v H.
  - destruct n; discriminate.
  - destruct n as [| n].
    + cbn [nth_error] in H. inversion H. reflexivity.
    + cbn [nth_error] in H. cbn [skipn]. apply IH. exact H.
Qed.

Lemma nth_error_skipn_add {A} (l : list A) : forall n k, nth_error (skipn n l) k = nth_error l (n + k).
Proof.
  induction l as [| a l IH]; intros n k.
  - rewrite skipn_nil. destruct k, n; reflexivity.
  - destruct n as [| n]; [reflexivity |]. cbn [skipn Nat.add nth_error]. apply IH.
Qed.

Lemma skipn_skipn_add {A} (l : list A) : forall a b, skipn a (skipn b l) = skipn (b + a) l.
Proof.
  induction l as [| x l IH]; intros a b.
  - rewrite !skipn_nil. reflexivity.
  - destruct b as [| b]; [reflexivity |]. cbn [skipn Nat.add]. apply IH.
Qed.

Lemma skipn_block {A} (r visited : list A) n0 :
  visited = firstn (length visited) (skipn n0 r) ->
  forall k, skipn k visited = firstn (length visited - k) (skipn (n0 + k) r).
Proof. intros H k. rewrite H at 1. rewrite skipn_firstn_comm, skipn_skipn_add. reflexivity. Qed.

(** ** the search finds a pattern that is a prefix of the corpus, at 0 *)
Lemma kmpSearchLoop_prefix corpus find t :
  (forall k, 0 <= k < zlen find -> exists a, idx find k = Ok a /\ idx corpus k = Ok a) ->
  zlen find <= zlen corpus ->
  forall fuel i, 0 <= i < zlen find -> Z.of_nat fuel >= zlen find - i ->
    kmpSearchLoop fuel corpus find t 0 i = Ok 0.
Proof.
  intros Hpre Hlen. induction fuel as [| f IH]; intros i Hi Hfuel; [lia |].
  rewrite kmpSearchLoop_S. replace (0 + i) with i by lia.
  destruct (Z.ltb_spec i (zlen corpus)) as [_ | Hge]; [| lia].
  destruct (Hpre i Hi) as (a & Ea & Eb). rewrite Ea, Eb. cbn [bind]. rewrite pt_eqb_refl.
  destruct (Z.eqb_spec i (zlen find - 1)) as [_ | Hne]; [reflexivity |].
  apply IH; lia.
Qed.

Lemma prefix_pointwise (corpus find : list pt) : firstn (length find) corpus = find ->
  zlen find <= zlen corpus /\
  forall k, 0 <= k < zlen find -> exists a, idx find k = Ok a /\ idx corpus k = Ok a.
Proof.
  intro Hp. split.
  - apply (f_equal (@length pt)) in Hp. rewrite firstn_length in Hp. unfold zlen. lia.
  - intros k Hk. destruct (idx_in_range find k Hk) as [a Ea]. exists a. split; [exact Ea |].
    apply idx_Ok_inv in Ea. destruct Ea as [_ Ea]. apply idx_nth_error; [lia |].
    rewrite <- Hp in Ea. rewrite nth_error_firstn_lt in Ea; [exact Ea |]. unfold zlen in Hk. lia.
Qed.

Lemma kmpSearch_prefix corpus find : find <> [] -> firstn (length find) corpus = find ->
  kmpSearch corpus find = Ok 0.
Proof.
  intros Hne Hp. destruct (prefix_pointwise corpus find Hp) as [Hlen Hpt].
  pose proof (zlen_pos_of_ne find Hne) as Hf. unfold kmpSearch.
  destruct (kmpTable_inv find (repeat 0 (Nat.max (length corpus) 2))) as (t & Et & _ & _).
  - unfold zlen. rewrite repeat_length. lia.
  - unfold zlen in *. rewrite repeat_length. lia.
  - rewrite Et. cbn [bind]. apply kmpSearchLoop_prefix; try assumption; [lia |].
    unfold zlen in *. nia.
Qed.

(** hence the first entry of [matches] is 0 *)
Lemma kmpSearchAll_head corpus find : find <> [] -> firstn (length find) corpus = find ->
  exists ms, kmpSearchAll corpus find = Ok (0 :: ms).
Proof.
  intros Hne Hp. destruct (prefix_pointwise corpus find Hp) as [Hlen _].
  pose proof (zlen_pos_of_ne find Hne) as Hf.
  unfold kmpSearchAll. replace (length corpus + 2)%nat with (S (length corpus + 1)) by lia.
  rewrite kmpSearchAllLoop_S. rewrite (kmpSearch_prefix corpus find Hne Hp). cbn [bind].
  destruct (Z.eqb_spec 0 (zlen corpus)) as [H0 | _]; [lia |]. cbv zeta.
  rewrite slice_ok by lia. cbn [bind].
  set (rest := firstn _ _).
  assert (Hrest : zlen rest = zlen corpus - (0 + zlen find)) by (apply zlen_slice; lia).
  destruct (Z.ltb_spec (zlen rest) (zlen find)) as [_ | Hlong].
  - exists []. reflexivity.
  - destruct (kmpSearchAllLoop_ok find Hne (length corpus + 1) rest (0 + 0 + zlen find) ([] ++ [0 + 0]))
      as (ms & Ems & _ & _).
    + unfold zlen in Hlong. lia.
    + unfold zlen in Hrest. lia.
    + exists ms. rewrite Ems. reflexivity.
Qed.

(** ** the reverse scan *)
Lemma reverseScan_ok : forall fuel r visited i j acc, 0 <= i -> 3 <= j ->
  exists rs, reverseScan fuel r visited i j acc = Ok rs.
Proof.
  induction fuel as [| f IH]; intros r visited i j acc Hi Hj.
  - exists acc. reflexivity.
  - rewrite reverseScan_S. cbv zeta.
    destruct (Z.leb_spec j (zlen visited)) as [Hjl | Hjl]; [| eauto].
    destruct (Z.leb_spec (i + (j - 2)) (zlen r - 1)) as [Hn | Hn]; [| eauto].
    destruct (idx_in_range visited (zlen visited - j)) as [v Ev]; [lia |].
    destruct (idx_in_range r (i + (j - 2))) as [w Ew]; [lia |].
    rewrite Ev, Ew. cbn [bind]. destruct (pt_eqb v w); [| eauto]. apply IH; lia.
Qed.

(** the reverse segment is the reversed tail of [visited] of the same length *)
Lemma reverseScan_spec : forall fuel r visited i j acc rs,
  reverseScan fuel r visited i j acc = Ok rs -> 2 <= j -> j - 1 <= zlen visited ->
  acc = rev (skipn (Z.to_nat (zlen visited - (j - 1))) visited) ->
  rs = rev (skipn (Z.to_nat (zlen visited - zlen rs)) visited) /\ j - 1 <= zlen rs <= zlen visited.
Proof.
  induction fuel as [| f IH]; intros r visited i j acc rs E Hj Hjl Hacc.
  - cbn [reverseScan] in E. inversion E. subst rs.
    assert (Hl : zlen acc = j - 1).
    { rewrite Hacc. unfold zlen. rewrite rev_length, skipn_length. unfold zlen in Hjl. lia. }
    rewrite Hl. split; [exact Hacc | lia].
  - assert (Hl : zlen acc = j - 1).
    { rewrite Hacc. unfold zlen. rewrite rev_length, skipn_length. unfold zlen in Hjl. lia. }
    assert (Hexit : Ok acc = Ok rs ->
              rs = rev (skipn (Z.to_nat (zlen visited - zlen rs)) visited) /\ j - 1 <= zlen rs <= zlen visited).
    { intro E'. inversion E'. subst rs. rewrite Hl. split; [exact Hacc | lia]. }
    rewrite reverseScan_S in E. cbv zeta in E.
    destruct (Z.leb_spec j (zlen visited)) as [Hjv | Hjv]; [| apply Hexit; exact E].
    destruct (i + (j - 2) <=? zlen r - 1); [| apply Hexit; exact E].
    destruct (idx visited (zlen visited - j)) as [v |] eqn:Ev; [| discriminate]. cbn [bind] in E.
    destruct (idx r (i + (j - 2))) as [w |]; [| discriminate]. cbn [bind] in E.
    destruct (pt_eqb v w); [| apply Hexit; exact E].
    apply idx_Ok_inv in Ev. destruct Ev as [Hr Ev].
    destruct (IH _ _ _ _ _ _ E) as [H1 H2]; try lia.
    + replace (j + 1 - 1) with j by lia.
      rewrite (skipn_nth_cons visited _ v Ev). cbn [rev]. rewrite Hacc.
      replace (S (Z.to_nat (zlen visited - j))) with (Z.to_nat (zlen visited - (j - 1))) by lia.
      reflexivity.
    + split; [exact H1 | lia].
Qed.

(** ** the corpus loop never fails *)
Lemma corpusLoop_ok : forall fuel r segment start e k,
  0 <= start <= zlen r -> start <= e -> 0 <= k <= Z.min e (zlen r) - start -> 1 <= zlen segment ->
  Z.of_nat fuel > Z.max 0 (zlen r - e + 1) ->
  exists corpus, corpusLoop fuel r segment start e k = Ok corpus.
Proof.
  induction fuel as [| f IH]; intros r segment start e k Hs He Hk Hseg Hfuel; [lia |].
  rewrite corpusLoop_S. rewrite slice_ok by lia. cbn [bind].
  set (corpus := firstn _ _).
  assert (Hc : zlen corpus = Z.min e (zlen r) - start) by (apply zlen_slice; lia).
  rewrite slice_ok by lia. cbn [bind]. cbv zeta.
  destruct (existsb _ _); [cbn [orb]; eauto |]. cbn [orb].
  destruct (Z.ltb_spec (zlen r) e) as [Hlt | Hge]; [eauto |].
  apply IH; lia.
Qed.

(** the corpus is a slice of the ring that starts at [start] *)
Lemma corpusLoop_spec : forall fuel r segment start e k corpus,
  corpusLoop fuel r segment start e k = Ok corpus ->
  exists e', 0 <= start <= e' /\ e' <= zlen r /\
             corpus = firstn (Z.to_nat (e' - start)) (skipn (Z.to_nat start) r).
Proof.
  induction fuel as [| f IH]; intros r segment start e k corpus E; [discriminate |].
  rewrite corpusLoop_S in E.
  destruct (slice r start (Z.min e (zlen r))) as [c |] eqn:Es; [| discriminate]. cbn [bind] in E.
  destruct (slice c k (zlen c)) as [fresh |]; [| discriminate]. cbn [bind] in E. cbv zeta in E.
  destruct (existsb (fun v => negb (mem_pt v segment)) fresh || (zlen r <? e)).
  - inversion E. subst c. apply slice_Ok_inv in Es. destruct Es as (H1 & H2 & H3).
    exists (Z.min e (zlen r)). split; [lia |]. split; [lia | exact H3].
  - apply (IH _ _ _ _ _ _ E).
Qed.

(** ** the loop invariant: [visited] is the block of the ring that ends just before [i] *)
Definition contig (r visited : list pt) (i : Z) : Prop :=
  0 <= i /\ (length visited <= Z.to_nat i)%nat /\
  visited = firstn (length visited) (skipn (Z.to_nat i - length visited) r).

Lemma contig_nil r i : 0 <= i -> contig r [] i.
Proof. intro H. split; [exact H |]. split; [cbn [length]; lia | reflexivity]. Qed.

Lemma contig_snoc r visited i vertex : contig r visited i -> idx r i = Ok vertex ->
  contig r (visited ++ [vertex]) (i + 1).
Proof.
  intros (H0 & Hle & Heq) Ev. apply idx_Ok_inv in Ev. destruct Ev as [Hi Ev].
  split; [lia |]. rewrite app_length. cbn [length]. split; [lia |].
  replace (Z.to_nat (i + 1) - (length visited + 1))%nat with (Z.to_nat i - length visited)%nat by lia.
  replace (length visited + 1)%nat with (S (length visited)) by lia.
  rewrite (firstn_S_snoc _ (length visited) vertex).
  - rewrite <- Heq. reflexivity.
  - rewrite nth_error_skipn_add. replace (Z.to_nat i - length visited + length visited)%nat with (Z.to_nat i) by lia.
    exact Ev.
Qed.

(** everything the detection branch computes before the switch *)
Lemma detect_ok r visited i : contig r visited i -> i < zlen r -> 2 <= zlen visited ->
  exists v1 v2 rs corpus ms rms,
    idx visited (zlen visited - 1) = Ok v1 /\ idx visited (zlen visited - 2) = Ok v2 /\
    reverseScan (length visited) r visited i 3 [v1; v2] = Ok rs /\
    2 <= zlen (rev rs) <= zlen visited /\ 0 <= i - zlen (rev rs) /\
    corpusLoop (length r + 2) r (rev rs) (i - zlen (rev rs)) (i - zlen (rev rs) + 3 * zlen (rev rs)) 0 = Ok corpus /\
    i - zlen (rev rs) + zlen corpus <= zlen r /\
    kmpSearchAll corpus (rev rs) = Ok (0 :: ms) /\ chain_from 0 (zlen (rev rs)) (0 :: ms) /\
    kmpSearchAll corpus rs = Ok rms /\ chain_from 0 (zlen (rev rs)) rms.
Proof.
  intros (H0 & Hle & Heq) Hi Hlv.
  destruct (idx_in_range visited (zlen visited - 1)) as [v1 E1]; [lia |].
  destruct (idx_in_range visited (zlen visited - 2)) as [v2 E2]; [lia |].
  destruct (reverseScan_ok (length visited) r visited i 3 [v1; v2]) as [rs Ers]; [lia | lia |].
  exists v1, v2, rs.
  (* the reverse segment *)
  destruct (reverseScan_spec _ _ _ _ _ _ _ Ers) as [Hrs Hlen]; [lia | lia | |].
  { apply idx_Ok_inv in E1. apply idx_Ok_inv in E2. destruct E1 as [_ E1], E2 as [_ E2].
    replace (3 - 1) with 2 by lia.
    rewrite (skipn_nth_cons visited _ v2 E2).
    replace (S (Z.to_nat (zlen visited - 2))) with (Z.to_nat (zlen visited - 1)) by lia.
    rewrite (skipn_nth_cons visited _ v1 E1).
    replace (S (Z.to_nat (zlen visited - 1))) with (length visited) by (unfold zlen in *; lia).
    rewrite skipn_all. reflexivity. }
  replace (3 - 1) with 2 in Hlen by lia.
  assert (HL : zlen (rev rs) = zlen rs) by (unfold zlen; rewrite rev_length; reflexivity).
  set (L := zlen (rev rs)) in *. set (start := i - L).
  assert (Hstart : 0 <= start) by (unfold start, zlen in *; lia).
  (* the segment is the slice ring[start .. i) *)
  assert (Hseg : rev rs = firstn (Z.to_nat L) (skipn (Z.to_nat start) r)).
  { pose proof (f_equal (@rev pt) Hrs) as Hseg1. rewrite rev_involutive in Hseg1.
    rewrite Hseg1, (skipn_block r visited _ Heq).
    f_equal; [unfold zlen in *; lia |]. f_equal. unfold start, zlen in *. lia. }
  (* the corpus *)
  destruct (corpusLoop_ok (length r + 2) r (rev rs) start (start + 3 * L) 0) as [corpus Ec];
    try (fold L; lia); try (unfold start; lia).
  { unfold zlen at 1. unfold start. lia. }
  exists corpus.
  destruct (corpusLoop_spec _ _ _ _ _ _ _ Ec) as (e' & He1 & He2 & Hcorp).
  assert (Hclen : L <= zlen corpus).
  { apply (corpusLoop_len _ _ _ _ _ _ _ Ec L); unfold start; lia. }
  assert (Hce : zlen corpus = e' - start) by (rewrite Hcorp; apply zlen_slice; lia).
  assert (Hne : rev rs <> []).
  { intro E0. unfold L in Hlen, HL. rewrite E0, zlen_nil in HL. lia. }
  assert (Hner : rs <> []).
  { intro E0. rewrite E0, zlen_nil in Hlen. lia. }
  assert (Hpre : firstn (length (rev rs)) corpus = rev rs).
  { rewrite Hseg at 2. rewrite Hcorp, firstn_firstn. f_equal. unfold L, zlen in *. lia. }
  destruct (kmpSearchAll_head corpus (rev rs) Hne Hpre) as [ms Ems].
  destruct (kmpSearchAll_ok corpus (rev rs) Hne) as (ms' & Ems' & Hch & _);
    [unfold L, zlen in Hclen; lia |].
  rewrite Ems in Ems'. inversion Ems'. subst ms'.
  destruct (kmpSearchAll_ok corpus rs Hner) as (rms & Erms & Hchr & _);
    [unfold L, zlen in *; lia |].
  exists ms, rms. rewrite <- HL in Hchr. fold L in Hch.
  repeat split; try assumption; try lia.
  apply Hch.
Qed.

(** ** the switch: when is the inner default (0, 0) taken? *)
Lemma switch_default_iff nm nr : 1 <= nm -> 0 <= nr ->
  ((1 <? nm) && (nm - nr =? 1) = false /\ (1 <? nm) && (nm =? nr) = false /\
   (nm =? 1) && (nr =? 1) = false /\ (nm <? nr) = false /\ (1 <? nm) && (1 <? nm - nr) = false)
  <-> nm = 1 /\ nr = 0.
Proof.
  intros Hm Hr.
  destruct (Z.ltb_spec 1 nm), (Z.eqb_spec (nm - nr) 1), (Z.eqb_spec nm nr), (Z.eqb_spec nm 1),
    (Z.eqb_spec nr 1), (Z.ltb_spec nm nr), (Z.ltb_spec 1 (nm - nr)); cbn [andb];
    split; try (intros (A & B & C & D & E)); try (intros [A B]); try discriminate; try lia;
    repeat split; lia.
Qed.

(** ** the loop *)
Lemma kmpDedupLoop_partial : forall fuel r seqs visited i,
  contig r visited i -> Z.of_nat fuel > Z.max 0 (zlen r - i) ->
  (exists out, kmpDedupLoop fuel r seqs visited i = Ok out) \/
  kmpDedupLoop fuel r seqs visited i = Err IndexOutOfRange.
Proof.
  induction fuel as [| f IH]; intros r seqs visited i Hct Hfuel; [lia |].
  rewrite kmpDedupLoop_S. destruct (Z.ltb_spec i (zlen r)) as [Hi | Hi]; [| left; eauto].
  pose proof Hct as (H0 & Hle & Heq).
  destruct (idx_in_range r i) as [vertex Ev]; [lia |]. rewrite Ev. cbn [bind]. cbv zeta.
  assert (Hnext : forall seqs' i', i + 1 <= i' ->
            (exists out, kmpDedupLoop f r seqs' [] i' = Ok out) \/
            kmpDedupLoop f r seqs' [] i' = Err IndexOutOfRange).
  { intros seqs' i' Hi'. apply IH; [apply contig_nil; lia | lia]. }
  destruct (Z.leb_spec (zlen visited) 1) as [Hlv | Hlv].
  { cbv beta iota. cbn [negb]. apply IH; [apply contig_snoc; assumption | lia]. }
  match goal with |- context [negb ?b] => destruct b end; cbn [negb].
  2: { apply IH; [apply contig_snoc; assumption | lia]. }
  destruct (detect_ok r visited i Hct Hi ltac:(lia))
    as (v1 & v2 & rs & corpus & ms & rms & E1 & E2 & Ers & HL & Hst & Ec & Hce & Ems & Hch & Erms & Hchr).
  rewrite E1, E2. cbn [bind]. rewrite Ers. cbn [bind].
  set (L := zlen (rev rs)) in *. set (start := i - L) in *.
  rewrite Ec. cbn [bind]. rewrite Ems, Erms. cbn [bind].
  set (nm := zlen (0 :: ms)). set (nr := zlen rms).
  assert (Hnm : 1 <= nm) by (unfold nm; rewrite zlen_cons; pose proof (zlen_nonneg ms); lia).
  assert (Hnr : 0 <= nr) by apply zlen_nonneg.
  assert (Hlast : forall l, 1 <= zlen l -> exists z, lastZ l = Ok z).
  { intros l Hl. unfold lastZ, last_opt. destruct (rev l) as [| z t] eqn:Er; [| eauto].
    apply (f_equal (@length Z)) in Er. rewrite rev_length in Er. unfold zlen in Hl. cbn [length] in Er. lia. }
  destruct (Z.ltb_spec 1 nm) as [Hm1 | Hm1]; cbn [andb].
  - (* at least two matches *)
    destruct (Hlast (0 :: ms)) as [lm Elm]; [fold nm; lia |].
    pose proof (lastZ_ge2 0 L (0 :: ms) lm ltac:(lia) Hch Hm1 Elm) as Hlm.
    destruct (Z.eqb_spec (nm - nr) 1) as [B1 | B1].
    { rewrite Elm. cbn [bind]. apply Hnext. unfold start. lia. }
    destruct (Z.eqb_spec nm nr) as [B2 | B2].
    { rewrite Elm. cbn [bind]. apply Hnext. unfold start. lia. }
    destruct (Z.eqb_spec nm 1) as [B3 | B3]; [lia |]. cbn [andb].
    destruct (Z.ltb_spec nm nr) as [B4 | B4].
    { destruct (Hlast rms) as [lr Elr]; [fold nr; lia |]. rewrite Elr. cbn [bind].
      pose proof (lastZ_ge2 0 L rms lr ltac:(lia) Hchr ltac:(fold nr; lia) Elr) as Hlr.
      destruct (Z.ltb_spec (start + lr + L - 1) 0) as [Hneg | _]; [unfold start in Hneg; lia |].
      apply Hnext. unfold start. lia. }
    destruct (Z.ltb_spec 1 (nm - nr)) as [B5 | B5]; [| lia].
    rewrite Elm. cbn [bind].
    destruct (Z.ltb_spec (start + lm + L - 1) 0) as [Hneg | _]; [unfold start in Hneg; lia |].
    apply Hnext. unfold start. lia.
  - (* exactly one match *)
    assert (Hnm1 : nm = 1) by lia. rewrite Hnm1.
    change (1 =? 1) with true. cbn [andb].
    destruct (Z.eqb_spec nr 1) as [B3 | B3].
    { apply Hnext. unfold start. lia. }
    destruct (Z.ltb_spec 1 nr) as [B4 | B4].
    { destruct (Hlast rms) as [lr Elr]; [fold nr; lia |]. rewrite Elr. cbn [bind].
      pose proof (lastZ_ge2 0 L rms lr ltac:(lia) Hchr ltac:(fold nr; lia) Elr) as Hlr.
      destruct (Z.ltb_spec (start + lr + L - 1) 0) as [Hneg | _]; [unfold start in Hneg; lia |].
      apply Hnext. unfold start. lia. }
    (* nm = 1, nr = 0: sequenceEnd, endPointIdx = 0, 0 and then ring[-1] *)
    cbn [bind]. change (0 - 1 <? 0) with true. cbv iota. right. reflexivity.
Qed.

(** C06, partial: for EVERY ring the spike removal terminates (never out of fuel), and its only
    possible failures are the [ring[-1]] access after the inner default of the switch and a
    slice-bounds panic in RemoveSequences. *)
Theorem kmpDeduplicate_partial : forall r,
  (exists r', kmpDeduplicate r = Ok r') \/
  kmpDedupLoop (kmpFuel r) r [] [] 0 = Err IndexOutOfRange \/
  (exists seqs, kmpDedupLoop (kmpFuel r) r [] [] 0 = Ok seqs /\ ~ ranges_ok (zlen r) seqs 0 /\
                kmpDeduplicate r = Err SliceBounds).
Proof.
  intro r. unfold kmpDeduplicate.
  destruct (kmpDedupLoop_partial (kmpFuel r) r [] [] 0) as [[seqs E] | E].
  - apply contig_nil. lia.
  - unfold kmpFuel, zlen. lia.
  - rewrite E. cbn [bind]. destruct (removeSequences r seqs) as [r' | e] eqn:Er.
    + left. eauto.
    + right; right. exists seqs. split; [reflexivity |]. split.
      * intro Hok. apply removeSequences_ok_iff in Hok. destruct Hok as [t Et]. congruence.
      * (* the only error RemoveSequences can produce is a slice-bounds one *)
        assert (Hsb : forall m k acc e', removeSequencesLoop r m k acc = Err e' -> e' = SliceBounds).
        { induction m as [| [key [a b]] m IHm]; intros k acc e' Ee; cbn [removeSequencesLoop] in Ee.
          - unfold slice in Ee. destruct (_ || _); [inversion Ee; reflexivity | discriminate].
          - unfold slice in Ee. destruct (_ || _); [inversion Ee; reflexivity |]. cbn [bind] in Ee.
            apply (IHm _ _ _ Ee). }
        rewrite (Hsb _ _ _ _ Er). reflexivity.
  - right; left. exact E.
Qed.

Corollary kmpDeduplicate_no_OutOfFuel : forall r, kmpDeduplicate r <> Err OutOfFuel.
Proof.
  intros r H. destruct (kmpDeduplicate_partial r) as [[r' E] | [E | (seqs & _ & _ & E)]].
  - congruence.
  - unfold kmpDeduplicate in H. rewrite E in H. discriminate.
  - congruence.
Qed.

Print Assumptions kmpDeduplicate_partial.

(** ** totality is false, also under the preconditions cleanupNewRing establishes *)
Fixpoint adj_ne (r : list pt) : bool :=
  match r with
  | a :: ((b :: _) as t) => negb (pt_eqb a b) && adj_ne t
  | _ => true
  end.

Lemma adj_ne_spec : forall r, adj_ne r = true ->
  forall i p q, nth_error r i = Some p -> nth_error r (S i) = Some q -> p <> q.
Proof.
  induction r as [| a r IH]; intros H i p q Hp Hq; [destruct i; discriminate |].
  destruct r as [| b r]; [destruct i as [| i]; [discriminate | destruct i; discriminate] |].
  cbn [adj_ne] in H. apply andb_true_iff in H. destruct H as [Hab Hr].
  destruct i as [| i].
  - cbn [nth_error] in Hp, Hq. inversion Hp. inversion Hq. subst.
    apply pt_eqb_neq. destruct (pt_eqb p q); [discriminate | reflexivity].
  - apply (IH Hr i p q); assumption.
Qed.

(** B A C (A B C)^5 A B C (B A C)^4 on three non-collinear pixel centres *)
Definition ring33 : list pt :=
  let A := (0, 0) in let B := (1, 0) in let C := (1, 1) in
  [B; A; C; A; B; C; A; B; C; A; B; C; A; B; C; A; B; C; A; B; C; B; A; C; B; A; C; B; A; C; B; A; C].

Theorem kmpDeduplicate_total_refuted : exists r,
  (3 <= length r)%nat /\
  (forall a b, hd_error r = Some a -> last_opt r = Some b -> a <> b) /\
  (forall i p q, nth_error r i = Some p -> nth_error r (S i) = Some q -> p <> q) /\
  kmpDedupLoop (kmpFuel r) r [] [] 0 = Ok [([(1, 0); (0, 0); (1, 1)], (0, 20)); ([(1, 0); (1, 1)], (19, 21))] /\
  kmpDeduplicate r = Err SliceBounds.
Proof.
  exists ring33. split; [cbn [ring33 length]; lia |]. split.
  - intros a b Ha Hb. vm_compute in Ha, Hb. inversion Ha. inversion Hb. discriminate.
  - split; [apply adj_ne_spec; vm_compute; reflexivity |].
    split; vm_compute; reflexivity.
Qed.

Print Assumptions kmpDeduplicate_total_refuted.
