(** * kmpDeduplicate on all chains WITHOUT two equal neighbours of a bounded domain: no failure,
      and an output of fewer than three vertices never repeats a vertex ([kmp_short_nodup], bounded).

    The general [kmp_short_nodup : no_adj_dup r -> kmpDeduplicate r = Ok r' -> length r' < 3 ->
    NoDup r'] is FALSE ([kmp_short_nodup_refuted] in ProofsKmpShort.v: a chain of 75 vertices over three
    centres is reduced to [p; p]); only these bounded forms hold. *)
From Coq Require Import ZArith List Bool Lia.
From Texel Require Import Prelude.Base Index.Model Snap.Model Snap.ProofsKmpSearch Snap.ProofsKmpEnum Snap.ProofsKmpEdges.
Import ListNotations.
Open Scope Z_scope.

Fixpoint nodupb (l : list pt) : bool :=
  match l with [] => true | a :: t => negb (mem_pt a t) && nodupb t end.

Lemma mem_pt_false a l : mem_pt a l = false -> ~ In a l.
Proof.
  induction l as [| b l IH]; cbn [mem_pt]; [intros _ H; exact H |].
  intro H. apply orb_false_iff in H. destruct H as [H1 H2]. intros [E | Hin].
  - subst b. rewrite pt_eqb_refl in H1. discriminate.
  - apply (IH H2 Hin).
Qed.

Lemma nodupb_spec l : nodupb l = true -> NoDup l.
Proof.
  induction l as [| a l IH]; cbn [nodupb]; [constructor |].
  intro H. apply andb_true_iff in H. destruct H as [H1 H2]. constructor.
  - apply mem_pt_false. destruct (mem_pt a l); [discriminate | reflexivity].
  - apply IH. exact H2.
Qed.

Definition ok_short (w : list nat) : bool :=
  match kmpDeduplicate (chain w) with
  | Ok r' => if first_ne_last w && (length r' <? 3)%nat then nodupb r' else true
  | Err _ => false
  end.

Lemma ok_short_spec w : ok_short w = true ->
  exists r', kmpDeduplicate (chain w) = Ok r' /\
             (first_ne_last w = true -> (length r' < 3)%nat -> NoDup r').
Proof.
  unfold ok_short. destruct (kmpDeduplicate (chain w)) as [r' | e]; [| discriminate].
  intro H. exists r'. split; [reflexivity |]. intros Hf Hl. rewrite Hf in H.
  destruct (Nat.ltb_spec (length r') 3) as [_ | Hge]; [| lia]. cbn [andb] in H.
  apply nodupb_spec. exact H.
Qed.

Lemma kmp_ne_3_15_eval : allw_ne_upto 3 15 ok_short = true.
Proof. vm_cast_no_check (eq_refl true). Qed.

(** all chains over 3 centres up to length 15 without equal neighbours (first = last allowed for the
    totality part) *)
Theorem kmp_ne_3_upto_15 : forall w, (length w <= 15)%nat -> Forall (fun a => (a < 3)%nat) w ->
  nen_from 3 w = true ->
  exists r', kmpDeduplicate (chain w) = Ok r' /\
             (first_ne_last w = true -> (length r' < 3)%nat -> NoDup r').
Proof.
  intros w Hl Hw Hne. apply ok_short_spec.
  apply (allw_ne_upto_spec 3 15 ok_short kmp_ne_3_15_eval w Hl Hw Hne).
Qed.

Lemma kmp_ne_4_10_eval : allw_ne_upto 4 10 ok_short = true.
Proof. vm_cast_no_check (eq_refl true). Qed.

Theorem kmp_ne_4_upto_10 : forall w, (length w <= 10)%nat -> Forall (fun a => (a < 4)%nat) w ->
  nen_from 4 w = true ->
  exists r', kmpDeduplicate (chain w) = Ok r' /\
             (first_ne_last w = true -> (length r' < 3)%nat -> NoDup r').
Proof.
  intros w Hl Hw Hne. apply ok_short_spec.
  apply (allw_ne_upto_spec 4 10 ok_short kmp_ne_4_10_eval w Hl Hw Hne).
Qed.

Print Assumptions kmp_ne_3_upto_15.
Print Assumptions kmp_ne_4_upto_10.
