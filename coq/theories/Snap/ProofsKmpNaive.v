(** * kmpSearch / kmpSearchAll are the exact naive searches when the first element of the pattern
      does not occur again in the pattern (then kmpTable is all zero and the non-standard shift
      degenerates to "m+1, i = 0").  Used for the class of C18 (at most two visits). *)
From Coq Require Import ZArith List Bool Lia.
From Texel Require Import Prelude.Base Index.Model Snap.Model Snap.ProofsKmpSearch.
Import ListNotations.
Open Scope Z_scope.

Definition head_fresh (find : list pt) : Prop :=
  match find with [] => True | a :: t => ~ In a t end.

Lemma head_fresh_neq find a b k : head_fresh find -> idx find 0 = Ok b -> idx find k = Ok a -> 1 <= k -> a <> b.
Proof.
  intros Hf H0 Hk Hk1. destruct find as [| b0 t]; [discriminate |].
  cbn in H0. inversion H0. subst b0.
  apply idx_Ok_inv in Hk. destruct Hk as [_ Hk].
  replace (Z.to_nat k) with (S (Z.to_nat k - 1)) in Hk by lia. cbn [nth_error] in Hk.
  apply nth_error_In in Hk. intro E. subst a. apply Hf. exact Hk.
Qed.

(** ** the table is all zero *)
Definition tbl0 (t : list Z) (pos : Z) : Prop :=
  idx t 0 = Ok (-1) /\ forall k, 1 <= k < pos -> idx t k = Ok 0.

Lemma kmpTableLoop_zero find : head_fresh find -> forall fuel table pos,
  zlen find <= zlen table -> 2 <= pos -> tbl0 table pos ->
  Z.of_nat fuel > Z.max 0 (zlen find - pos) ->
  exists t, kmpTableLoop fuel find table pos 0 = Ok t /\ tbl0 t (Z.max pos (zlen find)).
Proof.
  intro Hf. induction fuel as [| f IH]; intros table pos Hlen Hpos Hinv Hfuel; [lia |].
  rewrite kmpTableLoop_S. destruct (Z.ltb_spec pos (zlen find)) as [Hlt | Hge].
  - destruct (idx_in_range find (pos - 1)) as [a Ea]; [lia |].
    destruct (idx_in_range find 0) as [b Eb]; [lia |].
    rewrite Ea, Eb. cbn [bind].
    assert (Hab : pt_eqb a b = false).
    { apply pt_eqb_neq. apply (head_fresh_neq find a b (pos - 1) Hf Eb Ea). lia. }
    rewrite Hab. change (0 <? 0) with false. cbv iota.
    destruct (setidx_ok table pos 0) as (t' & Es & Hl & Hset & Hoth); [lia |].
    rewrite Es. cbn [bind].
    destruct (IH t' (pos + 1)) as (t & Et & Hti); try lia.
    + destruct Hinv as [H0 Hk]. split.
      * rewrite Hoth; [exact H0 | lia].
      * intros k Hk'. destruct (Z.eq_dec k pos) as [-> | Hne]; [exact Hset |].
        rewrite Hoth; [| exact Hne]. apply Hk. lia.
    + exists t. split; [exact Et |].
      replace (Z.max pos (zlen find)) with (Z.max (pos + 1) (zlen find)) by lia. exact Hti.
  - exists table. split; [reflexivity |]. replace (Z.max pos (zlen find)) with pos by lia. exact Hinv.
Qed.

Lemma kmpTable_zero find table : head_fresh find -> 2 <= zlen table -> zlen find <= zlen table ->
  exists t, kmpTable find table = Ok t /\ tbl0 t (Z.max 2 (zlen find)).
Proof.
  intros Hf H2 Hlen. unfold kmpTable.
  destruct (setidx_ok table 0 (-1)) as (t0 & E0 & Hl0 & Hs0 & Ho0); [lia |].
  rewrite E0. cbn [bind].
  destruct (setidx_ok t0 1 0) as (t1 & E1 & Hl1 & Hs1 & Ho1); [lia |].
  rewrite E1. cbn [bind].
  apply (kmpTableLoop_zero find Hf); try lia.
  - split.
    + rewrite Ho1; [exact Hs0 | lia].
    + intros k Hk. assert (k = 1) by lia. subst k. exact Hs1.
  - unfold zlen. lia.
Qed.

(** ** occurrences *)
Definition occZ (c f : list pt) (m : Z) : Prop :=
  0 <= m /\ m + zlen f <= zlen c /\ forall k, 0 <= k < zlen f -> idx c (m + k) = idx f k.

Lemma kmpSearchLoop_naive c f t : tbl0 t (zlen f) ->
  forall fuel m i, 0 <= m <= zlen c -> 0 <= i < zlen f ->
    (forall k, 0 <= k < i -> idx c (m + k) = idx f k) ->
    Z.of_nat fuel >= (zlen c + 1 - m) * (zlen f + 1) - i ->
    exists res, kmpSearchLoop fuel c f t m i = Ok res /\ m <= res <= zlen c /\
                (forall m', m <= m' < res -> ~ occZ c f m') /\ (res < zlen c -> occZ c f res).
Proof.
  intros [H0 Hk]. set (lc := zlen c). set (lf := zlen f).
  induction fuel as [| fu IH]; intros m i Hm Hi Hpre Hfuel.
  - exfalso. assert (1 * (lf + 1) <= (lc + 1 - m) * (lf + 1)) by (apply Z.mul_le_mono_nonneg_r; lia).
    lia.
  - rewrite kmpSearchLoop_S. fold lc lf. destruct (Z.ltb_spec (m + i) lc) as [Hlt | Hge].
    + destruct (idx_in_range f i) as [a Ea]; [fold lf; lia |].
      destruct (idx_in_range c (m + i)) as [b Eb]; [fold lc; lia |].
      rewrite Ea, Eb. cbn [bind]. destruct (pt_eqb a b) eqn:Hab.
      * apply pt_eqb_eq in Hab. subst b.
        assert (Hpre' : forall k, 0 <= k < i + 1 -> idx c (m + k) = idx f k).
        { intros k Hk'. destruct (Z.eq_dec k i) as [-> | Hne]; [congruence | apply Hpre; lia]. }
        destruct (Z.eqb_spec i (lf - 1)) as [Hlast | Hnl].
        -- exists m. split; [reflexivity |]. split; [lia |]. split; [intros m' Hm'; lia |].
           intros _. split; [lia |]. split; [fold lc lf; lia |]. intros k Hk'. apply Hpre'. fold lf in Hk'. lia.
        -- destruct (IH m (i + 1)) as (r & Er & Hr1 & Hr2 & Hr3); try lia; try assumption.
           exists r. split; [exact Er |]. split; [lia |]. split; assumption.
      * assert (Hno : ~ occZ c f m).
        { intros (_ & _ & Hocc). specialize (Hocc i ltac:(fold lf; lia)). rewrite Ea, Eb in Hocc.
          inversion Hocc. subst b. rewrite pt_eqb_refl in Hab. discriminate. }
        assert (Hstep : exists res, kmpSearchLoop fu c f t (m + 1) 0 = Ok res /\ m <= res <= lc /\
                          (forall m', m <= m' < res -> ~ occZ c f m') /\ (res < lc -> occZ c f res)).
        { assert (Hmul : (lc + 1 - (m + 1)) * (lf + 1) = (lc + 1 - m) * (lf + 1) - (lf + 1)) by lia.
          destruct (IH (m + 1) 0) as (r & Er & Hr1 & Hr2 & Hr3); try lia.
          exists r. split; [exact Er |]. split; [lia |]. split; [| exact Hr3].
          intros m' Hm'. destruct (Z.eq_dec m' m) as [-> | Hne]; [exact Hno | apply Hr2; lia]. }
        destruct (Z.eq_dec i 0) as [-> | Hi0].
        -- rewrite H0. cbn [bind]. change (-1 <? -1) with false. cbv iota. exact Hstep.
        -- rewrite (Hk i) by (fold lf; lia). cbn [bind]. change (-1 <? 0) with true. cbv iota.
           rewrite H0. cbn [bind]. replace (m + 0 - -1) with (m + 1) by lia. exact Hstep.
    + exists lc. split; [reflexivity |]. split; [lia |]. split; [| lia].
      intros m' Hm' (_ & Hfit & _). fold lc lf in Hfit. lia.
Qed.

(** kmpSearch returns the FIRST occurrence, or [len corpus] when there is none *)
Theorem kmpSearch_naive c f : f <> [] -> head_fresh f -> (length f <= Nat.max (length c) 2)%nat ->
  exists m, kmpSearch c f = Ok m /\ 0 <= m <= zlen c /\
            (forall m', 0 <= m' < m -> ~ occZ c f m') /\ (m < zlen c -> occZ c f m).
Proof.
  intros Hne Hf Hlen. unfold kmpSearch. pose proof (zlen_pos_of_ne f Hne) as Hlf.
  destruct (kmpTable_zero f (repeat 0 (Nat.max (length c) 2)) Hf) as (t & Et & Hti).
  - unfold zlen. rewrite repeat_length. lia.
  - unfold zlen. rewrite repeat_length. lia.
  - rewrite Et. cbn [bind].
    assert (Hti' : tbl0 t (zlen f)).
    { destruct Hti as [A B]. split; [exact A |]. intros k Hk. apply B. lia. }
    destruct (kmpSearchLoop_naive c f t Hti' ((length c + 2) * (length f + 2)) 0 0)
      as (r & Er & Hr1 & Hr2 & Hr3).
    + pose proof (zlen_nonneg c). lia.
    + lia.
    + intros k Hk. lia.
    + unfold zlen. nia.
    + exists r. auto.
Qed.

(** ** kmpSearchAll is the greedy list of non-overlapping first occurrences *)
Fixpoint greedy (f c : list pt) (off : Z) (ms : list Z) {struct ms} : Prop :=
  match ms with
  | [] => forall m, ~ occZ c f m
  | x :: rest => exists m, x = m + off /\ occZ c f m /\ (forall m', 0 <= m' < m -> ~ occZ c f m') /\
                           greedy f (skipn (Z.to_nat (m + zlen f)) c) (off + m + zlen f) rest
  end.

Lemma kmpSearchAllLoop_greedy f : f <> [] -> head_fresh f -> forall fuel c off acc,
  (length f <= length c)%nat -> (length c < fuel)%nat ->
  exists ms, kmpSearchAllLoop fuel c f off acc = Ok (acc ++ ms) /\ greedy f c off ms.
Proof.
  intros Hne Hf. pose proof (zlen_pos_of_ne f Hne) as Hlf.
  induction fuel as [| fu IH]; intros c off acc Hlen Hfuel; [lia |].
  rewrite kmpSearchAllLoop_S.
  destruct (kmpSearch_naive c f Hne Hf) as (m & Em & Hm1 & Hm2 & Hm3); [lia |].
  rewrite Em. cbn [bind]. destruct (Z.eqb_spec m (zlen c)) as [Heq | Hneq].
  - exists []. rewrite app_nil_r. split; [reflexivity |]. cbn [greedy].
    intros m' Hocc. pose proof Hocc as (Ha & Hb & _).
    apply (Hm2 m'); [lia | exact Hocc].
  - assert (Hocc : occZ c f m) by (apply Hm3; lia). pose proof Hocc as (_ & Hfit & _).
    cbv zeta. rewrite slice_ok by lia. cbn [bind].
    assert (Hrest : firstn (Z.to_nat (zlen c - (m + zlen f))) (skipn (Z.to_nat (m + zlen f)) c)
                    = skipn (Z.to_nat (m + zlen f)) c).
    { apply firstn_all2. rewrite skipn_length. unfold zlen. lia. }
    rewrite Hrest. set (rest := skipn (Z.to_nat (m + zlen f)) c).
    assert (Hrl : zlen rest = zlen c - (m + zlen f)).
    { unfold rest, zlen. rewrite skipn_length. unfold zlen in Hfit. lia. }
    destruct (Z.ltb_spec (zlen rest) (zlen f)) as [Hshort | Hlong].
    + exists [m + off]. split; [reflexivity |]. cbn [greedy]. exists m.
      split; [reflexivity |]. split; [exact Hocc |]. split; [exact Hm2 |].
      fold rest. intros m' (Ha & Hb & _). lia.
    + destruct (IH rest (off + m + zlen f) (acc ++ [m + off])) as (ms & Ems & Hg).
      * unfold zlen in Hlong. lia.
      * unfold zlen in Hrl, Hlf. lia.
      * exists ((m + off) :: ms). split.
        -- rewrite Ems. rewrite <- app_assoc. reflexivity.
        -- cbn [greedy]. exists m. split; [reflexivity |]. split; [exact Hocc |]. split; [exact Hm2 |].
           fold rest. exact Hg.
Qed.

Theorem kmpSearchAll_greedy c f : f <> [] -> head_fresh f -> (length f <= length c)%nat ->
  exists ms, kmpSearchAll c f = Ok ms /\ greedy f c 0 ms.
Proof.
  intros Hne Hf Hlen. unfold kmpSearchAll.
  destruct (kmpSearchAllLoop_greedy f Hne Hf (length c + 2) c 0 []) as (ms & E & Hg); try lia.
  exists ms. split; [exact E | exact Hg].
Qed.

(** occurrences in a suffix are occurrences in the list *)
Lemma occZ_skipn c f n m : 0 <= n -> 1 <= zlen f -> occZ (skipn (Z.to_nat n) c) f m -> occZ c f (n + m).
Proof.
  intros Hn Hf1 (Ha & Hb & Hc).
  assert (Hl : zlen (skipn (Z.to_nat n) c) = Z.max 0 (zlen c - n)).
  { unfold zlen. rewrite skipn_length. lia. }
  rewrite Hl in Hb. split; [lia |]. split.
  - lia.
  - intros k Hk. rewrite <- (Hc k Hk). unfold idx.
    destruct (Z.ltb_spec (n + m + k) 0) as [H1 | H1]; [lia |].
    destruct (Z.ltb_spec (m + k) 0) as [H2 | H2]; [lia |].
    replace (Z.to_nat (n + m + k)) with (Z.to_nat n + Z.to_nat (m + k))%nat by lia.
    assert (Hnth : forall (l : list pt) a b, nth_error (skipn a l) b = nth_error l (a + b)).
    { induction l as [| x l IHl]; intros a b.
      - rewrite skipn_nil. destruct b, a; reflexivity.
      - destruct a as [| a]; [reflexivity |]. cbn [skipn Nat.add nth_error]. apply IHl. }
    rewrite Hnth. reflexivity.
Qed.

Print Assumptions kmpSearch_naive.
Print Assumptions kmpSearchAll_greedy.
