(** * The interleaved model of addPointsAndSnap computes, level by level and for every iteration order
      of the Go maps, exactly [snapLevel]: levels do not interact (C08), map order is irrelevant (C07). *)
From Coq Require Import ZArith List Bool Lia Permutation.
From Texel Require Import Prelude.Base Index.Model Snap.Model Snap.ModelInterleaved Snap.ProofsBasics
  Snap.ProofsLevel Snap.ProofsLevelThms.
Import ListNotations.
Open Scope Z_scope.

(** ** association lists *)
Lemma aget_aset {A} (m : list (nat * A)) L v L' d :
  aget (aset m L v) L' d = if Nat.eqb L' L then v else aget m L' d.
Proof.
  induction m as [| [k w] m IH]; cbn [aset aget].
  - destruct (Nat.eqb L' L); reflexivity.
  - destruct (Nat.eqb_spec L k) as [-> | N]; cbn [aget].
    + destruct (Nat.eqb L' k); reflexivity.
    + rewrite IH. destruct (Nat.eqb_spec L' k) as [-> | N']; [| reflexivity].
      destruct (Nat.eqb_spec k L); [congruence | reflexivity].
Qed.

Lemma afind_aset {A} (m : list (nat * A)) L v L' :
  afind (aset m L v) L' = if Nat.eqb L' L then Some v else afind m L'.
Proof.
  induction m as [| [k w] m IH]; cbn [aset afind].
  - destruct (Nat.eqb L' L); reflexivity.
  - destruct (Nat.eqb_spec L k) as [-> | N]; cbn [afind].
    + destruct (Nat.eqb L' k); reflexivity.
    + rewrite IH. destruct (Nat.eqb_spec L' k) as [-> | N']; [| reflexivity].
      destruct (Nat.eqb_spec k L); [congruence | reflexivity].
Qed.

Lemma aget_afind {A} (m : list (nat * A)) L d : aget m L d = match afind m L with Some v => v | None => d end.
Proof. induction m as [| [k w] m IH]; cbn [aget afind]; [reflexivity |]. destruct (Nat.eqb L k); [reflexivity | exact IH]. Qed.

Lemma mem_nat_In n l : mem_nat n l = true <-> In n l.
Proof.
  unfold mem_nat. rewrite existsb_exists. split.
  - intros [x [Hx E]]. apply Nat.eqb_eq in E. congruence.
  - intro H. exists n. split; [exact H | apply Nat.eqb_refl].
Qed.

Lemma mem_nat_adel L' L l : mem_nat L' (adel l L) = mem_nat L' l && negb (Nat.eqb L' L).
Proof.
  unfold adel, mem_nat. induction l as [| a l IH]; cbn [filter existsb]; [reflexivity |].
  destruct (Nat.eqb_spec a L) as [-> | N]; cbn [negb existsb].
  - rewrite IH. destruct (Nat.eqb_spec L' L); cbn [orb negb]; [rewrite !andb_false_r; reflexivity | reflexivity].
  - rewrite IH. destruct (Nat.eqb_spec L' a) as [-> | N']; cbn [orb]; [| reflexivity].
    destruct (Nat.eqb_spec a L); [congruence | reflexivity].
Qed.

Lemma adel_incl l L : incl (adel l L) l.
Proof. intros x Hx. apply filter_In in Hx. apply Hx. Qed.

Lemma adel_NoDup l L : NoDup l -> NoDup (adel l L).
Proof. apply NoDup_filter. Qed.

(** ** independent per-level updates, visited in any order *)
Section Indep.
  Variables (S X : Type) (proj : S -> nat -> X) (f : nat -> X -> res X) (step : S -> nat -> res S).
  Hypothesis step_spec : forall s L,
    match step s L with
    | Ok s' => f L (proj s L) = Ok (proj s' L) /\ forall L', L' <> L -> proj s' L' = proj s L'
    | Err e => f L (proj s L) = Err e
    end.

  Lemma foldM_indep ls : NoDup ls -> forall s,
    match foldM step ls s with
    | Ok s' => (forall L, In L ls -> f L (proj s L) = Ok (proj s' L)) /\
               (forall L, ~ In L ls -> proj s' L = proj s L)
    | Err e => exists L, In L ls /\ f L (proj s L) = Err e
    end.
  Proof.
    induction 1 as [| a ls Ha ND IH]; intro s; cbn [foldM].
    - split; [intros L [] | reflexivity].
    - pose proof (step_spec s a) as Hs. destruct (step s a) as [s1 | e]; cbn [bind].
      + destruct Hs as [Hf Hfr]. specialize (IH s1). destruct (foldM step ls s1) as [s' | e].
        * destruct IH as [I1 I2]. split.
          -- intros L [<- | HL].
             ++ rewrite (I2 a Ha). exact Hf.
             ++ rewrite <- (Hfr L) by (intro; subst; contradiction). apply I1, HL.
          -- intros L HL. rewrite I2 by (intro; apply HL; right; assumption). apply Hfr. intro; subst. apply HL. left. reflexivity.
        * destruct IH as [L [HL He]]. exists L. split; [right; exact HL |].
          rewrite <- (Hfr L) by (intro; subst; contradiction). exact He.
      + exists a. split; [left; reflexivity | exact Hs].
  Qed.
End Indep.

Lemma fold_left_foldM {S A} (h : S -> A -> S) l s : foldM (fun s a => Ok (h s a)) l s = Ok (fold_left h l s).
Proof. revert s. induction l as [| a l IH]; intro s; cbn [foldM fold_left bind]; [reflexivity | apply IH]. Qed.

Lemma perm_NoDup_In (ord : site -> list nat -> list nat) :
  (forall st l, Permutation (ord st l) l) ->
  forall st l, (NoDup l -> NoDup (ord st l)) /\ (forall L, In L (ord st l) <-> In L l).
Proof.
  intros Hp st l. split.
  - intro ND. eapply Permutation_NoDup; [apply Permutation_sym, Hp | exact ND].
  - intro L. split; apply Permutation_in; [apply Hp | apply Permutation_sym, Hp].
Qed.

Definition withHits (d : ldata) (st : hits) : ldata := mkLD st (dOuters d) (dInners d) (dPL d).

Lemma withHits_withHits d a b : withHits (withHits d a) b = withHits d b.
Proof. reflexivity. Qed.

Lemma withHits_same d : withHits d (dHits d) = d.
Proof. destruct d; reflexivity. Qed.

Section Proofs.
  Variable ord : site -> list nat -> list nat.
  Hypothesis ord_perm : forall st l, Permutation (ord st l) l.
  Variables (g : grid) (hots : list (list (Z * Z))) (cfg : config).

  Let ordND st l : NoDup l -> NoDup (ord st l) := proj1 (perm_NoDup_In ord ord_perm st l).
  Let ordIn st l L : In L (ord st l) <-> In L l := proj2 (perm_NoDup_In ord ord_perm st l) L.

  (** ** one edge, all levels *)
  Lemma snapAllLevels_spec idx vi a b alive m : NoDup alive ->
    let r := snapAllLevels ord g hots idx vi a b alive m in
    (forall L, In L alive ->
       lget (fst r) L = withHits (lget m L) (snd (snapAndHit g hots (dHits (lget m L)) a b L idx)) /\
       aget (snd r) L [] = fst (snapAndHit g hots (dHits (lget m L)) a b L idx)) /\
    (forall L, ~ In L alive -> lget (fst r) L = lget m L).
  Proof.
    intro ND. cbn zeta. unfold snapAllLevels.
    match goal with |- context [fold_left ?hh _ _] => set (h := hh) end.
    pose (proj := fun (s : lmap * list (nat * list pt)) (L : nat) => (lget (fst s) L, aget (snd s) L [])).
    pose (f := fun (L : nat) (x : ldata * list pt) =>
                 Ok (withHits (fst x) (snd (snapAndHit g hots (dHits (fst x)) a b L idx)),
                     fst (snapAndHit g hots (dHits (fst x)) a b L idx))).
    assert (Hstep : forall s L, match (fun s a => Ok (h s a)) s L with
                                | Ok s' => f L (proj s L) = Ok (proj s' L) /\ forall L', L' <> L -> proj s' L' = proj s L'
                                | Err e => f L (proj s L) = Err e end).
    { intros [m0 nv0] L. unfold h, f, proj. cbn [fst snd].
      destruct (snapAndHit g hots (dHits (lget m0 L)) a b L idx) as [pts st'] eqn:E. cbn [fst snd].
      unfold lget. rewrite !aget_aset, Nat.eqb_refl. split; [reflexivity |].
      intros L' N. rewrite !aget_aset. destruct (Nat.eqb_spec L' L); [congruence | reflexivity]. }
    pose proof (foldM_indep _ _ proj f (fun s a => Ok (h s a)) Hstep (ord (SHit idx vi) alive) (ordND _ _ ND) (m, [])) as HF.
    rewrite fold_left_foldM in HF. destruct HF as [H1 H2]. split.
    - intros L HL. specialize (H1 L (proj2 (ordIn _ _ _) HL)). unfold f, proj in H1. cbn [fst snd] in H1.
      inversion H1 as [[E1 E2]]. split; reflexivity.
    - intros L HL. assert (HL' : ~ In L (ord (SHit idx vi) alive)) by (intro X; apply HL; apply (proj1 (ordIn _ _ _)) in X; exact X).
      specialize (H2 L HL'). unfold proj in H2. cbn [fst snd] in H2. inversion H2. reflexivity.
  Qed.

  Lemma cleanAllLevels_spec idx vi alive nv nr : NoDup alive ->
    match cleanAllLevels ord idx vi alive nv nr with
    | Ok nr' => (forall L, In L alive ->
                   exists c, cleanupNewVertices (aget nv L []) (last_opt (aget nr L [])) = Ok c /\
                             aget nr' L [] = aget nr L [] ++ c) /\
                (forall L, ~ In L alive -> aget nr' L [] = aget nr L [])
    | Err e => exists L, In L alive /\ cleanupNewVertices (aget nv L []) (last_opt (aget nr L [])) = Err e
    end.
  Proof.
    intro ND. unfold cleanAllLevels.
    pose (proj := fun (s : list (nat * list pt)) (L : nat) => aget s L []).
    pose (f := fun (L : nat) (x : list pt) => do c <- cleanupNewVertices (aget nv L []) (last_opt x); Ok (x ++ c)).
    match goal with |- match foldM ?st _ _ with _ => _ end => set (step := st) end.
    assert (Hstep : forall s L, match step s L with
                                | Ok s' => f L (proj s L) = Ok (proj s' L) /\ forall L', L' <> L -> proj s' L' = proj s L'
                                | Err e => f L (proj s L) = Err e end).
    { intros s L. unfold step, f, proj. destruct (cleanupNewVertices _ _) as [c | e]; cbn [bind]; [| reflexivity].
      rewrite aget_aset, Nat.eqb_refl. split; [reflexivity |]. intros L' N. rewrite aget_aset.
      destruct (Nat.eqb_spec L' L); [congruence | reflexivity]. }
    pose proof (foldM_indep _ _ proj f step Hstep (ord (SEdge idx vi) alive) (ordND _ _ ND) nr) as HF.
    destruct (foldM step (ord (SEdge idx vi) alive) nr) as [nr' | e].
    - destruct HF as [H1 H2]. split.
      + intros L HL. specialize (H1 L (proj2 (ordIn _ _ _) HL)). unfold f, proj in H1.
        destruct (cleanupNewVertices _ _) as [c | e]; cbn [bind] in H1; [| discriminate]. exists c. inversion H1. auto.
      + intros L HL. apply H2. intro X. apply HL. apply (proj1 (ordIn _ _ _)) in X. exact X.
    - destruct HF as [L [HL He]]. exists L. split; [apply (proj1 (ordIn _ _ _)) in HL; exact HL |]. unfold f, proj in He.
      destruct (cleanupNewVertices _ _) as [c | e']; cbn [bind] in He; [discriminate | inversion He; reflexivity].
  Qed.

  (** ** all vertices of a ring: per level it is [routeRing] *)
  Lemma verticesLoop_spec idx first alive : NoDup alive -> forall verts vi m nr,
    match verticesLoop ord g hots idx vi first verts alive m nr with
    | Ok (m', nr') =>
        (forall L, In L alive ->
           exists st', routeRing g hots L idx first verts (dHits (lget m L)) (aget nr L []) = Ok (aget nr' L [], st') /\
                       lget m' L = withHits (lget m L) st') /\
        (forall L, ~ In L alive -> lget m' L = lget m L)
    | Err e => exists L, In L alive /\
                 routeRing g hots L idx first verts (dHits (lget m L)) (aget nr L []) = Err e
    end.
  Proof.
    intro ND. induction verts as [| v r IH]; intros vi m nr; cbn [verticesLoop].
    - split; [| reflexivity]. intros L HL. exists (dHits (lget m L)). cbn [routeRing]. rewrite withHits_same. auto.
    - set (next := match r with [] => first | w :: _ => w end).
      pose proof (snapAllLevels_spec idx vi v next alive m ND) as Hs. cbn zeta in Hs.
      destruct (snapAllLevels ord g hots idx vi v next alive m) as [m1 nv]. cbn [fst snd] in Hs. destruct Hs as [S1 S2].
      pose proof (cleanAllLevels_spec idx vi alive nv nr ND) as Hc.
      destruct (cleanAllLevels ord idx vi alive nv nr) as [nr1 | e]; cbn [bind].
      + destruct Hc as [C1 C2]. specialize (IH (S vi) m1 nr1).
        destruct (verticesLoop ord g hots idx (S vi) first r alive m1 nr1) as [[m' nr'] | e].
        * destruct IH as [I1 I2]. split.
          -- intros L HL. destruct (S1 L HL) as [Em Ev]. destruct (C1 L HL) as [c [Ec En]].
             destruct (I1 L HL) as [st' [Er El]]. exists st'. cbn [routeRing]. fold next.
             destruct (snapAndHit g hots (dHits (lget m L)) v next L idx) as [pts st1]. cbn [fst snd] in *.
             rewrite Ev in Ec. rewrite Ec. cbn [bind]. rewrite Em in Er. cbn [withHits dHits] in Er. rewrite En in Er.
             split; [exact Er |]. rewrite El, Em. reflexivity.
          -- intros L HL. rewrite (I2 L HL). apply S2, HL.
        * destruct IH as [L [HL He]]. exists L. split; [exact HL |].
          destruct (S1 L HL) as [Em Ev]. destruct (C1 L HL) as [c [Ec En]]. cbn [routeRing]. fold next.
          destruct (snapAndHit g hots (dHits (lget m L)) v next L idx) as [pts st1]. cbn [fst snd] in *.
          rewrite Ev in Ec. rewrite Ec. cbn [bind]. rewrite Em in He. cbn [withHits dHits] in He. rewrite En in He. exact He.
      + destruct Hc as [L [HL He]]. exists L. split; [exact HL |]. destruct (S1 L HL) as [Em Ev].
        cbn [routeRing]. fold next.
        destruct (snapAndHit g hots (dHits (lget m L)) v next L idx) as [pts st1]. cbn [fst snd] in *.
        rewrite Ev in He. rewrite He. reflexivity.
  Qed.

  (** ** the per-level view of the interleaved state *)
  Definition accOf (s : istate) (L : nat) : levelAcc :=
    let d := lget (iData s) L in
    mkAcc (mem_nat L (iAlive s)) (dHits d) (dOuters d) (dInners d) (dPL d).

  Definition accumulate (d : ldata) (sets : ringSets) : ldata :=
    mkLD (dHits d) (dOuters d ++ outers sets) (dInners d ++ inners sets)
         (if keepPointsAndLines cfg then dPL d ++ pointsAndLines sets else dPL d).

  Lemma ringLevels_spec idx newRing s : NoDup (iAlive s) ->
    match ringLevels ord cfg idx newRing s with
    | Ok s' =>
        (forall L, In L (iAlive s) ->
           exists sets, cleanupNewRing (aget newRing L []) (Nat.eqb idx 0) (isMultiFor (dHits (lget (iData s) L)) idx) = Ok sets /\
             if deadb cfg (Nat.eqb idx 0) sets
             then mem_nat L (iAlive s') = false /\ lget (iData s') L = lget (iData s) L
             else mem_nat L (iAlive s') = true /\ lget (iData s') L = accumulate (lget (iData s) L) sets) /\
        (forall L, ~ In L (iAlive s) -> mem_nat L (iAlive s') = mem_nat L (iAlive s) /\ lget (iData s') L = lget (iData s) L) /\
        NoDup (iAlive s') /\ incl (iAlive s') (iAlive s)
    | Err e => exists L, In L (iAlive s) /\
                 cleanupNewRing (aget newRing L []) (Nat.eqb idx 0) (isMultiFor (dHits (lget (iData s) L)) idx) = Err e
    end.
  Proof.
    intro ND. unfold ringLevels.
    pose (proj := fun (s : istate) (L : nat) => (mem_nat L (iAlive s), lget (iData s) L)).
    pose (f := fun (L : nat) (x : bool * ldata) =>
                 do sets <- cleanupNewRing (aget newRing L []) (Nat.eqb idx 0) (isMultiFor (dHits (snd x)) idx);
                 Ok (if deadb cfg (Nat.eqb idx 0) sets then (false, snd x) else (fst x, accumulate (snd x) sets))).
    match goal with |- match foldM ?st _ _ with _ => _ end => set (step := st) end.
    assert (Hstep : forall s L, match step s L with
                                | Ok s' => f L (proj s L) = Ok (proj s' L) /\ forall L', L' <> L -> proj s' L' = proj s L'
                                | Err e => f L (proj s L) = Err e end).
    { intros s0 L. unfold step, f, proj. cbn [fst snd]. destruct (cleanupNewRing _ _ _) as [sets | e]; cbn [bind]; [| reflexivity].
      fold (deadb cfg (Nat.eqb idx 0) sets). destruct (deadb cfg (Nat.eqb idx 0) sets); cbn [iAlive iData].
      - split.
        + rewrite mem_nat_adel, Nat.eqb_refl, andb_false_r. reflexivity.
        + intros L' N. rewrite mem_nat_adel. destruct (Nat.eqb_spec L' L); [congruence |]. rewrite andb_true_r. reflexivity.
      - unfold lget. rewrite aget_aset, Nat.eqb_refl. split; [reflexivity |].
        intros L' N. rewrite aget_aset. destruct (Nat.eqb_spec L' L); [congruence | reflexivity]. }
    assert (Hinv : forall ls s0, match foldM step ls s0 with
                                 | Ok s' => (NoDup (iAlive s0) -> NoDup (iAlive s')) /\ incl (iAlive s') (iAlive s0)
                                 | Err _ => True end).
    { induction ls as [| L ls IHl]; intro s0; cbn [foldM]; [split; [auto | apply incl_refl] |].
      destruct (step s0 L) as [s1 | e] eqn:E1; cbn [bind]; [| exact I]. specialize (IHl s1).
      destruct (foldM step ls s1) as [s' | e]; [| exact I]. destruct IHl as [I1 I2].
      assert (H01 : (NoDup (iAlive s0) -> NoDup (iAlive s1)) /\ incl (iAlive s1) (iAlive s0)).
      { unfold step in E1. destruct (cleanupNewRing _ _ _) as [sets | e]; cbn [bind] in E1; [| discriminate].
        destruct (_ && _ && _); inversion E1; subst; cbn [iAlive]; split; auto using adel_NoDup, adel_incl, incl_refl. }
      destruct H01 as [H1 H2]. split; [auto | eapply incl_tran; eassumption]. }
    pose proof (foldM_indep _ _ proj f step Hstep (ord (SRing idx) (iAlive s)) (ordND _ _ ND) s) as HF.
    specialize (Hinv (ord (SRing idx) (iAlive s)) s).
    destruct (foldM step (ord (SRing idx) (iAlive s)) s) as [s' | e].
    - destruct HF as [H1 H2]. destruct Hinv as [V1 V2]. split; [| split; [| split; [auto | exact V2]]].
      + intros L HL. specialize (H1 L (proj2 (ordIn _ _ _) HL)). unfold f, proj in H1. cbn [fst snd] in H1.
        destruct (cleanupNewRing _ _ _) as [sets | e]; cbn [bind] in H1; [| discriminate]. exists sets. split; [reflexivity |].
        assert (Ma : mem_nat L (iAlive s) = true) by (apply mem_nat_In, HL). rewrite Ma in H1.
        destruct (deadb cfg (Nat.eqb idx 0) sets); inversion H1 as [[E1 E2]]; split; reflexivity.
      + intros L HL. assert (HL' : ~ In L (ord (SRing idx) (iAlive s))) by (intro X; apply HL; apply (proj1 (ordIn _ _ _)) in X; exact X).
        specialize (H2 L HL'). unfold proj in H2. inversion H2. auto.
    - destruct HF as [L [HL He]]. exists L. split; [apply (proj1 (ordIn _ _ _)) in HL; exact HL |].
      unfold f, proj in He. cbn [fst snd] in He. destruct (cleanupNewRing _ _ _) as [sets | e']; cbn [bind] in He; [discriminate | inversion He; reflexivity].
  Qed.

  (** ** one ring: for every level the interleaved step is [ringStep] *)
  Lemma accOf_dead s L : ~ In L (iAlive s) -> aAlive (accOf s L) = false.
  Proof. intro H. unfold accOf. cbn [aAlive]. destruct (mem_nat L (iAlive s)) eqn:E; [apply mem_nat_In in E; contradiction | reflexivity]. Qed.

  Lemma accOf_alive s L : In L (iAlive s) -> aAlive (accOf s L) = true.
  Proof. intro H. unfold accOf. cbn [aAlive]. apply mem_nat_In, H. Qed.

  Lemma ringStepI_spec s idx r : NoDup (iAlive s) ->
    match ringStepI ord g hots cfg s idx r with
    | Ok s' => (forall L, ringStep g hots L cfg (accOf s L) idx r = Ok (accOf s' L)) /\
               NoDup (iAlive s') /\ incl (iAlive s') (iAlive s)
    | Err e => exists L, In L (iAlive s) /\ ringStep g hots L cfg (accOf s L) idx r = Err e
    end.
  Proof.
    intro ND. unfold ringStepI. destruct (iAlive s) as [| a0 al] eqn:Eal.
    - assert (X : NoDup (iAlive s)) by (rewrite Eal; constructor).
      split; [| split; [exact X | rewrite Eal; apply incl_refl]]. intro L. apply ringStep_dead, accOf_dead. rewrite Eal. intros [].
    - rewrite <- Eal in *. clear Eal a0 al.
      set (r' := ensureCorrectWindingOrder r (negb (Nat.eqb idx 0))).
      (* the routing phase, per level *)
      assert (Hroute : match (match r' with
                              | [] => Ok (iData s, [])
                              | first :: _ => verticesLoop ord g hots idx 0 first r' (iAlive s) (iData s) []
                              end) with
               | Ok (m', nr') =>
                   (forall L, In L (iAlive s) ->
                      exists st', routeOf g hots L idx r' (dHits (lget (iData s) L)) = Ok (aget nr' L [], st') /\
                                  lget m' L = withHits (lget (iData s) L) st') /\
                   (forall L, ~ In L (iAlive s) -> lget m' L = lget (iData s) L)
               | Err e => exists L, In L (iAlive s) /\ routeOf g hots L idx r' (dHits (lget (iData s) L)) = Err e
               end).
      { unfold routeOf. destruct r' as [| first t].
        - split; [| reflexivity]. intros L HL. exists (dHits (lget (iData s) L)). rewrite withHits_same. auto.
        - pose proof (verticesLoop_spec idx first (iAlive s) ND (first :: t) 0%nat (iData s) []) as Hv.
          destruct (verticesLoop ord g hots idx 0 first (first :: t) (iAlive s) (iData s) []) as [[m' nr'] | e]; exact Hv. }
      destruct (match r' with [] => Ok (iData s, []) | first :: _ => _ end) as [[m' nr'] | e]; cbn [bind].
      + destruct Hroute as [R1 R2].
        pose proof (ringLevels_spec idx nr' (mkI (iAlive s) m') ND) as Hl. cbn [iAlive iData] in Hl.
        destruct (ringLevels ord cfg idx nr' (mkI (iAlive s) m')) as [s' | e].
        * destruct Hl as [L1 [L2 [L3 L4]]]. split; [| split; assumption].
          intro L. destruct (in_dec Nat.eq_dec L (iAlive s)) as [HL | HL].
          -- rewrite ringStep_eq by (apply accOf_alive, HL). fold r'.
             destruct (R1 L HL) as [st' [Er Em]]. unfold accOf at 1. cbn [aHits]. rewrite Er. cbn [bind fst snd].
             destruct (L1 L HL) as [sets [Ec Ed]]. rewrite Em in Ec. cbn [withHits dHits] in Ec. rewrite Ec. cbn [bind].
             unfold accOf. cbn [aOuters aInners aPL].
             destruct (deadb cfg (Nat.eqb idx 0) sets); destruct Ed as [Ea El]; rewrite Ea, El, Em; reflexivity.
          -- rewrite ringStep_dead by (apply accOf_dead, HL). f_equal. unfold accOf.
             destruct (L2 L HL) as [Ea El]. rewrite Ea, El, (R2 L HL). reflexivity.
        * destruct Hl as [L [HL He]]. exists L. split; [exact HL |].
          rewrite ringStep_eq by (apply accOf_alive, HL). fold r'.
          destruct (R1 L HL) as [st' [Er Em]]. unfold accOf. cbn [aHits]. rewrite Er. cbn [bind fst snd].
          rewrite Em in He. cbn [withHits dHits] in He. rewrite He. reflexivity.
      + destruct Hroute as [L [HL He]]. exists L. split; [exact HL |].
        rewrite ringStep_eq by (apply accOf_alive, HL). fold r'. unfold accOf. cbn [aHits]. rewrite He. reflexivity.
  Qed.

  (** ** all rings *)
  Lemma ringsLoopI_spec P : forall s idx, NoDup (iAlive s) ->
    match ringsLoopI ord g hots cfg s idx P with
    | Ok s' => (forall L, ringsLoop g hots L cfg (accOf s L) idx P = Ok (accOf s' L)) /\
               NoDup (iAlive s') /\ incl (iAlive s') (iAlive s)
    | Err e => exists L, In L (iAlive s) /\ ringsLoop g hots L cfg (accOf s L) idx P = Err e
    end.
  Proof.
    induction P as [| r rest IH]; intros s idx ND; cbn [ringsLoopI ringsLoop].
    - split; [reflexivity | split; [exact ND | apply incl_refl]].
    - pose proof (ringStepI_spec s idx r ND) as Hs. destruct (ringStepI ord g hots cfg s idx r) as [s1 | e]; cbn [bind].
      + destruct Hs as [S1 [S2 S3]]. specialize (IH s1 (S idx) S2).
        destruct (ringsLoopI ord g hots cfg s1 (S idx) rest) as [s' | e].
        * destruct IH as [I1 [I2 I3]]. split; [| split; [exact I2 | eapply incl_tran; eassumption]].
          intro L. rewrite (S1 L). cbn [bind]. apply I1.
        * destruct IH as [L [HL He]]. exists L. split; [apply S3, HL |]. rewrite (S1 L). cbn [bind]. exact He.
      + destruct Hs as [L [HL He]]. exists L. split; [exact HL |]. rewrite He. reflexivity.
  Qed.

  (** ** after the rings: dedupe, match, reverse per alive level; points and lines for every level *)
  Definition someNonEmpty (polys : list polygon) : option (list polygon) :=
    match polys with [] => None | _ => Some polys end.

  Lemma finishLevels_spec s : NoDup (iAlive s) ->
    match finishLevels ord cfg s with
    | Ok np => (forall L, In L (iAlive s) ->
                  exists polys, levelPolys cfg (accOf s L) = Ok polys /\ afind np L = someNonEmpty polys) /\
               (forall L, ~ In L (iAlive s) -> afind np L = None)
    | Err e => exists L, In L (iAlive s) /\ levelPolys cfg (accOf s L) = Err e
    end.
  Proof.
    intro ND. unfold finishLevels.
    pose (proj := fun (np : list (nat * list polygon)) (L : nat) => afind np L).
    pose (f := fun (L : nat) (x : option (list polygon)) =>
                 do polys <- levelPolys cfg (mkAcc true (dHits (lget (iData s) L)) (dOuters (lget (iData s) L))
                                                   (dInners (lget (iData s) L)) (dPL (lget (iData s) L)));
                 Ok (match polys with [] => x | _ => Some polys end)).
    match goal with |- match foldM ?st _ _ with _ => _ end => set (step := st) end.
    assert (Hstep : forall np L, match step np L with
                                 | Ok s' => f L (proj np L) = Ok (proj s' L) /\ forall L', L' <> L -> proj s' L' = proj np L'
                                 | Err e => f L (proj np L) = Err e end).
    { intros np L. unfold step, f, proj, levelPolys, flipb. cbn [aAlive aOuters aInners].
      destruct (dedupeInnersOuters _ _) as [oi | e]; cbn [bind]; [| reflexivity].
      destruct (matchInnersToPolygons _ _) as [ps | e]; cbn [bind]; [| reflexivity].
      destruct (reverseWindingOrder cfg); [destruct (map (map (@rev pt)) ps) as [| p0 pr] | destruct ps as [| p0 pr]];
        try (split; reflexivity);
        (rewrite afind_aset, Nat.eqb_refl; split; [reflexivity |]; intros L' N; rewrite afind_aset;
         destruct (Nat.eqb_spec L' L); [congruence | reflexivity]). }
    pose proof (foldM_indep _ _ proj f step Hstep (ord SFinal (iAlive s)) (ordND _ _ ND) []) as HF.
    assert (Hacc : forall L, In L (iAlive s) ->
              accOf s L = mkAcc true (dHits (lget (iData s) L)) (dOuters (lget (iData s) L))
                                (dInners (lget (iData s) L)) (dPL (lget (iData s) L))).
    { intros L HL. unfold accOf. rewrite (proj2 (mem_nat_In L (iAlive s)) HL). reflexivity. }
    destruct (foldM step (ord SFinal (iAlive s)) []) as [np | e].
    - destruct HF as [H1 H2]. split.
      + intros L HL. specialize (H1 L (proj2 (ordIn _ _ _) HL)). unfold f, proj in H1. cbn [afind] in H1.
        rewrite (Hacc L HL). destruct (levelPolys cfg _) as [polys | e]; cbn [bind] in H1; [| discriminate].
        exists polys. split; [reflexivity |]. inversion H1 as [E]. unfold someNonEmpty. destruct polys; reflexivity.
      + intros L HL. rewrite H2 by (intro X; apply HL; apply (proj1 (ordIn _ _ _)) in X; exact X). reflexivity.
    - destruct HF as [L [HL He]]. apply (proj1 (ordIn _ _ _)) in HL. exists L. split; [exact HL |].
      rewrite (Hacc L HL). unfold f in He. destruct (levelPolys cfg _) as [polys | e']; cbn [bind] in He; [discriminate | inversion He; reflexivity].
  Qed.

  Lemma appendPL_spec levels m np : NoDup levels -> forall L,
    afind (appendPL ord levels m np) L =
      if mem_nat L levels
      then match dPL (lget m L) with
           | [] => afind np L
           | pls => Some (match afind np L with Some p => p | None => [] end ++ map (fun pl => [pl]) pls)
           end
      else afind np L.
  Proof.
    intros ND L. unfold appendPL.
    match goal with |- context [fold_left ?hh _ _] => set (h := hh) end.
    pose (proj := fun (np : list (nat * list polygon)) (L : nat) => afind np L).
    pose (f := fun (L : nat) (x : option (list polygon)) =>
                 Ok (match dPL (lget m L) with
                     | [] => x
                     | pls => Some (match x with Some p => p | None => [] end ++ map (fun pl : ring => [pl]) pls)
                     end)).
    assert (Hstep : forall s L, match (fun s a => Ok (h s a)) s L with
                                | Ok s' => f L (proj s L) = Ok (proj s' L) /\ forall L', L' <> L -> proj s' L' = proj s L'
                                | Err e => f L (proj s L) = Err e end).
    { intros s0 L0. unfold h, f, proj. destruct (dPL (lget m L0)) as [| pl pls]; [split; reflexivity |].
      rewrite afind_aset, Nat.eqb_refl, aget_afind. split; [reflexivity |]. intros L' N. rewrite afind_aset.
      destruct (Nat.eqb_spec L' L0); [congruence | reflexivity]. }
    pose proof (foldM_indep _ _ proj f (fun s a => Ok (h s a)) Hstep (ord SPL levels) (ordND _ _ ND) np) as HF.
    rewrite fold_left_foldM in HF. destruct HF as [H1 H2].
    destruct (mem_nat L levels) eqn:M.
    - apply mem_nat_In in M. specialize (H1 L (proj2 (ordIn _ _ _) M)). unfold f, proj in H1. inversion H1 as [E]. reflexivity.
    - apply H2. intro X. apply (proj1 (ordIn _ _ _)) in X. apply mem_nat_In in X. congruence.
  Qed.

  (** ** the decomposition theorem *)
  Lemma Forall2_map_r {A B} (R : A -> B -> Prop) (h : A -> B) l : (forall a, In a l -> R a (h a)) -> Forall2 R l (map h l).
  Proof. induction l as [| a l IH]; intro H; cbn [map]; constructor; [apply H; left; reflexivity | apply IH; intros; apply H; right; assumption]. Qed.

  Definition perLevel (P : list ring) (levels : list nat) : res (list (nat * option (list polygon))) :=
    mapM (fun L => do r <- snapLevel g hots P cfg L; Ok (L, r)) levels.

  Theorem interleaved_spec P levels : NoDup levels ->
    match addPointsAndSnapI ord g hots cfg P levels with
    | Ok rs => perLevel P levels = Ok rs
    | Err e => exists L, In L levels /\ snapLevel g hots P cfg L = Err e
    end.
  Proof.
    intro ND. unfold addPointsAndSnapI.
    pose proof (ringsLoopI_spec P (mkI levels []) 0%nat ND) as Hl. cbn [iAlive] in Hl.
    assert (H0 : forall L, In L levels -> accOf (mkI levels []) L = acc0).
    { intros L HL. unfold accOf, acc0. cbn [iAlive iData]. rewrite (proj2 (mem_nat_In L levels) HL). reflexivity. }
    destruct (ringsLoopI ord g hots cfg (mkI levels []) 0 P) as [s | e]; cbn [bind].
    - destruct Hl as [L1 [L2 L3]]. pose proof (finishLevels_spec s L2) as Hf.
      destruct (finishLevels ord cfg s) as [np | e]; cbn [bind].
      + destruct Hf as [F1 F2]. unfold perLevel. apply mapM_of_Forall2. apply Forall2_map_r. intros L HL.
        rewrite snapLevel_eq. rewrite <- (H0 L HL), (L1 L). cbn [bind].
        assert (Hp : exists polys, levelPolys cfg (accOf s L) = Ok polys /\ afind np L = someNonEmpty polys).
        { destruct (in_dec Nat.eq_dec L (iAlive s)) as [Ha | Ha]; [apply F1, Ha |].
          exists []. split; [| apply F2, Ha]. unfold levelPolys. rewrite (accOf_dead s L Ha). reflexivity. }
        destruct Hp as [polys [Ep En]]. rewrite Ep. cbn [bind]. f_equal. f_equal.
        rewrite (appendPL_spec levels (iData s) np ND L), (proj2 (mem_nat_In L levels) HL), En.
        unfold levelResult, accOf. cbn [aPL]. cbn zeta.
        destruct (dPL (lget (iData s) L)) as [| pl pls].
        * cbn [map]. rewrite app_nil_r. unfold someNonEmpty. destruct polys; reflexivity.
        * unfold someNonEmpty. destruct polys; reflexivity.
      + destruct Hf as [L [HL He]]. exists L. split; [apply L3, HL |].
        rewrite snapLevel_eq. rewrite <- (H0 L (L3 L HL)), (L1 L). cbn [bind]. rewrite He. reflexivity.
    - destruct Hl as [L [HL He]]. exists L. split; [exact HL |]. rewrite snapLevel_eq, <- (H0 L HL), He. reflexivity.
  Qed.
End Proofs.

(** ** corollaries *)
Lemma mapM_err {A B} (f : A -> res B) l e : mapM f l = Err e -> exists a, In a l /\ f a = Err e.
Proof.
  induction l as [| a l IH]; cbn [mapM]; [discriminate |].
  destruct (f a) as [b | e'] eqn:E; cbn [bind].
  - destruct (mapM f l) as [bs | e'']; cbn [bind]; [discriminate |]. intro H. inversion H; subst.
    destruct (IH eq_refl) as [x [Hx Ex]]. exists x. split; [right; exact Hx | exact Ex].
  - intro H. inversion H; subst. exists a. split; [left; reflexivity | exact E].
Qed.

Lemma mapM_some_err {A B} (f : A -> res B) l a e : In a l -> f a = Err e -> exists e', mapM f l = Err e'.
Proof.
  induction l as [| x l IH]; intros Hin He; [destruct Hin |]. cbn [mapM]. destruct Hin as [-> | Hin].
  - rewrite He. eexists. reflexivity.
  - destruct (f x); cbn [bind]; [| eexists; reflexivity]. destruct (IH Hin He) as [e' ->]. eexists. reflexivity.
Qed.

(** levels do not interact, and the iteration order of the Go maps is irrelevant: for every family of
    orders, the interleaved algorithm returns exactly the per-level results; it fails iff some level fails,
    and then with the error of one of the failing levels *)
Theorem levels_do_not_interact ord g hots cfg P levels :
  (forall st l, Permutation (ord st l) l) -> NoDup levels ->
  (forall rs, addPointsAndSnapI ord g hots cfg P levels = Ok rs <-> perLevel g hots cfg P levels = Ok rs) /\
  (forall e, addPointsAndSnapI ord g hots cfg P levels = Err e ->
             exists L, In L levels /\ snapLevel g hots P cfg L = Err e) /\
  is_ok (addPointsAndSnapI ord g hots cfg P levels) = is_ok (perLevel g hots cfg P levels).
Proof.
  intros Hp ND. pose proof (interleaved_spec ord Hp g hots cfg P levels ND) as H.
  destruct (addPointsAndSnapI ord g hots cfg P levels) as [rs0 | e0].
  - split; [| split].
    + intro rs. split; intro E; congruence.
    + discriminate.
    + rewrite H. reflexivity.
  - destruct H as [L [HL He]]. split; [| split].
    + intro rs. split; [discriminate |]. intro E. exfalso. unfold perLevel in E.
      destruct (mapM_some_err (fun L => do r <- snapLevel g hots P cfg L; Ok (L, r)) levels L e0 HL) as [e' E'];
        [rewrite He; reflexivity | congruence].
    + intros e E. inversion E; subst. exists L. auto.
    + unfold perLevel. destruct (mapM_some_err (fun L => do r <- snapLevel g hots P cfg L; Ok (L, r)) levels L e0 HL) as [e' E'];
        [rewrite He; reflexivity |]. rewrite E'. reflexivity.
Qed.

(** two iteration orders give the same result (and fail together) *)
Corollary iteration_order_irrelevant ord1 ord2 g hots cfg P levels :
  (forall st l, Permutation (ord1 st l) l) -> (forall st l, Permutation (ord2 st l) l) -> NoDup levels ->
  (forall rs, addPointsAndSnapI ord1 g hots cfg P levels = Ok rs <-> addPointsAndSnapI ord2 g hots cfg P levels = Ok rs) /\
  is_ok (addPointsAndSnapI ord1 g hots cfg P levels) = is_ok (addPointsAndSnapI ord2 g hots cfg P levels).
Proof.
  intros H1 H2 ND. destruct (levels_do_not_interact ord1 g hots cfg P levels H1 ND) as [A1 [_ A3]].
  destruct (levels_do_not_interact ord2 g hots cfg P levels H2 ND) as [B1 [_ B3]]. split.
  - intro rs. rewrite A1, B1. reflexivity.
  - congruence.
Qed.

(** SnapPolygon with the interleaved core is SnapPolygon of the per-level model *)
Theorem snapPolygonI_agrees ord g P levels cfg : (forall st l, Permutation (ord st l) l) -> NoDup levels ->
  (forall r, snapPolygonI ord g P levels cfg = Ok r <-> snapPolygon g P levels cfg = Ok r) /\
  is_ok (snapPolygonI ord g P levels cfg) = is_ok (snapPolygon g P levels cfg).
Proof.
  intros Hp ND. unfold snapPolygonI, snapPolygon. destruct (insertPolygon g P) as [hs | e]; [| split; [reflexivity | reflexivity]].
  destruct (levels_do_not_interact ord g (hotLevels g hs) cfg P levels Hp ND) as [A1 [_ A3]]. unfold perLevel in *.
  destruct (addPointsAndSnapI ord g (hotLevels g hs) cfg P levels) as [rs | e] eqn:E1.
  - rewrite (proj1 (A1 rs) eq_refl). split; reflexivity.
  - destruct (mapM _ levels) as [rs' | e'] eqn:E2; [cbn in A3; discriminate |]. cbn [bind]. split; [| reflexivity].
    intro r. split; discriminate.
Qed.

(** a deleted level never has points or lines (the last loop of the Go code may range over all levels) *)
Lemma dead_level_no_pl g hots L cfg P acc : ringsLoop g hots L cfg acc0 0 P = Ok acc -> aAlive acc = false -> aPL acc = [].
Proof.
  intros H Hd.
  pose (I := fun (k : nat) (a : levelAcc) => (k = 0%nat -> aPL a = []) /\ (aAlive a = false -> aPL a = [])).
  assert (HI : I (0 + length P)%nat acc).
  { apply (ringsLoop_inv g hots L cfg I P 0 acc0 acc); [| | exact H].
    - intros k r a a' Hn [I1 I2] Hs. cbn [Nat.add] in *. destruct (aAlive a) eqn:Al.
      + destruct (ringStep_alive _ _ _ _ _ _ _ _ Al Hs) as [nr [st [sets [_ [_ ->]]]]]. unfold I. split; [discriminate |].
        destruct (deadb cfg (Nat.eqb k 0) sets) eqn:D; cbn [aAlive aPL]; [| discriminate].
        intros _. apply I1. unfold deadb in D. destruct (Nat.eqb_spec k 0); [assumption | discriminate].
      + rewrite ringStep_dead in Hs by exact Al. inversion Hs; subst. split; [discriminate | intros _; apply I2; reflexivity].
    - split; reflexivity. }
  apply HI, Hd.
Qed.
