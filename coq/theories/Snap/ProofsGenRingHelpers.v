(** * Tie G2: the small ring helpers of snap.go and mapslicehelp.go REGENERATED from source on every run
      (gen/RingHelpersGen.v) are the model's (Snap/Model.v) on ALL inputs.

    snap.go: ringsAreEqual, ringContains, outersToPolygons, reverseWindingOrderIfConfigured,
    sortPolyIdxsByOuterAreaDesc; mapslicehelp.go (instantiated at the types of their call sites in snap.go):
    FindLastKeyWithMaxValue, LastMatch, DeleteFromSliceByIndex, OrderedMapKeys, CountVals, LastElement, ReverseClone.

    NOT translated, kept as the function of the model (or of Prelude/GoLib.v) after the translator has checked the
    AST for the exact call shape — the trusted base of this tie:
    - geomhelp.RayIntersect(p, a, b) (float code) = [rayIntersect p a b]; geomhelp.Shoelace(r) and the literal 0.0
      (float code) = [absArea2 r] and 0 (twice the exact area);
    - sortedmap.New[int, float64](n, func(i, j float64) bool { return i > j }) = the empty list, A.Insert(i, v) with i the
      index of the enclosing range loop = [area_place A i v], A.Keys() = [map fst A];
    - *orderedmap.OrderedMap[K, V] = the insertion-ordered association list: the loop
      [for p := m.Newest(); p != nil; p = p.Prev()] = [range_loop] over [rev m], [for p := m.Oldest(); ..; p = p.Next()]
      = [range_loop] over [m], p.Key / p.Value = [fst p] / [snd p], m.Len() = [zlen m];
    - a map[int]X that is only read by [_, ok := m[k]] = the list of its keys, ok = [mem_Z k m];
    - slices.Index(s, v) = [slices_index pt_eqb s v] (first index or -1), slices.Contains(s, v) on []int = [mem_Z v s];
    - slices.Reverse(p[i][j]) on the written parameter = p[i][j] replaced by its reverse (value semantics: the rings of
      a polygon list do not share memory); config.ReverseWindingOrder = [reverseWindingOrder config];
    - &s[i] (only read through) = [Some s[i]]; s == nil on a slice = [is_nil s] (nil and empty slices are both []);
      [uint] and [int] are exact Z; [x % y] = [go_rem x y] (Err DivZero for y = 0, else the truncating [Z.rem]);
      [2]float64 is [pt] and [==] on it [pt_eqb]. *)
From Coq Require Import ZArith List Bool Lia.
From Texel Require Import Prelude.Base Prelude.GoLoop Prelude.GoLib Index.Model Snap.Model Snap.ProofsKmpSearch.
From Texel.Gen Require Import RingHelpersGen.
Import ListNotations.
Open Scope Z_scope.

(** ** lists *)
Lemma idx_app_mid {A} (l1 : list A) a l2 : idx (l1 ++ a :: l2) (zlen l1) = Ok a.
Proof.
  apply idx_nth_error; [apply zlen_nonneg |]. unfold zlen. rewrite Nat2Z.id.
  rewrite nth_error_app2 by lia. rewrite Nat.sub_diag. reflexivity.
Qed.

Lemma set_nth_app_mid {A} (l1 : list A) a l2 v : set_nth (l1 ++ a :: l2) (length l1) v = Some (l1 ++ v :: l2).
Proof. induction l1 as [| b l1 IH]; cbn [app length set_nth]; [reflexivity | rewrite IH; reflexivity]. Qed.

Lemma setidx_app_mid {A} (l1 : list A) a l2 v : setidx (l1 ++ a :: l2) (zlen l1) v = Ok (l1 ++ v :: l2).
Proof.
  unfold setidx. pose proof (zlen_nonneg l1) as H. destruct (Z.ltb_spec (zlen l1) 0) as [Hn | _]; [lia |].
  unfold zlen. rewrite Nat2Z.id, set_nth_app_mid. reflexivity.
Qed.

Lemma zlen_snoc {A} (l : list A) a : zlen (l ++ [a]) = zlen l + 1.
Proof. rewrite zlen_app, zlen_cons, zlen_nil. lia. Qed.

Lemma app_snoc {A} (l1 : list A) a l2 : l1 ++ a :: l2 = (l1 ++ [a]) ++ l2.
Proof. rewrite <- app_assoc. reflexivity. Qed.

Lemma repeat_snoc {A} (z : A) n : repeat z (S n) = repeat z n ++ [z].
Proof. induction n as [| n IH]; [reflexivity |]. cbn [repeat app] in *. rewrite <- IH. reflexivity. Qed.

(** a range loop whose body always continues is a fold *)
Lemma range_loop_cont {A S R} (body : A -> S -> res (rctl S R)) (step : S -> A -> S) :
  (forall a s, body a s = Ok (Cont (step s a))) ->
  forall l s, range_loop body l s = Ok (Next (fold_left step l s)).
Proof.
  intros Hb. induction l as [| a l IH]; intro s; cbn [range_loop fold_left]; [reflexivity |].
  rewrite Hb. apply IH.
Qed.

Lemma seq_zseq_S (n m : nat) : map Z.of_nat (seq n (S m)) = Z.of_nat n :: map Z.of_nat (seq (S n) m).
Proof. reflexivity. Qed.

(** ** ringsAreEqual *)
Definition rae_index (i0 : pt) := fix index (l : list pt) (k : Z) {struct l} : Z :=
  match l with [] => -1 | p :: r => if pt_eqb p i0 then k else index r (k + 1) end.

Definition rae_loop (ringJ : list pt) (d : bool) (ix n : Z) := fix loop (l : list pt) (k : Z) {struct l} : res bool :=
  match l with
  | [] => Ok true
  | p :: r =>
      do q <- idx ringJ (if d then (ix + n - k) mod n else (ix + k) mod n);
      if pt_eqb p q then loop r (k + 1) else Ok false
  end.

Lemma rae_index_eq i0 : forall l k, rae_index i0 l k = index_from pt_eqb l i0 k.
Proof.
  induction l as [| p l IH]; intro k; cbn [rae_index index_from]; [reflexivity |].
  destruct (pt_eqb p i0); [reflexivity | apply IH].
Qed.

Lemma rae_index_lower i0 : forall l k, 0 <= k -> rae_index i0 l k = -1 \/ k <= rae_index i0 l k.
Proof.
  induction l as [| p l IH]; intros k Hk; cbn [rae_index]; [left; reflexivity |].
  destruct (pt_eqb p i0); [right; lia |]. destruct (IH (k + 1) ltac:(lia)) as [H | H]; [left; exact H | right; lia].
Qed.

Lemma gen_ringsAreEqual_loop ringI ringJ io jo ix d : 0 <= ix -> forall suffix pre fuel,
  ringI = pre ++ suffix -> (length suffix < fuel)%nat ->
  gen_ringsAreEqual_loop1 ringI ringJ io jo (zlen ringI) ix d fuel (zlen pre)
  = match rae_loop ringJ d ix (zlen ringI) suffix (zlen pre) with
    | Ok true => Ok (Next (zlen ringI))
    | Ok false => Ok (Ret false)
    | Err e => Err e
    end.
Proof.
  intros Hix. induction suffix as [| p suffix IH]; intros pre fuel E Hf; (destruct fuel as [| fuel]; [cbn [length] in Hf; lia |]);
    cbn [gen_ringsAreEqual_loop1 rae_loop].
  - rewrite app_nil_r in E. subst pre. rewrite Z.ltb_irrefl. reflexivity.
  - assert (Hlen : zlen ringI = zlen pre + zlen suffix + 1) by (rewrite E, zlen_app, zlen_cons; lia).
    pose proof (zlen_nonneg pre) as Hp. pose proof (zlen_nonneg suffix) as Hs.
    destruct (Z.ltb_spec (zlen pre) (zlen ringI)) as [_ | Hge]; [| lia].
    assert (Hidx : idx ringI (zlen pre) = Ok p) by (rewrite E; apply idx_app_mid).
    assert (Hn0 : (zlen ringI =? 0) = false) by (apply Z.eqb_neq; lia).
    unfold go_rem. rewrite Hn0, Hidx.
    specialize (IH (pre ++ [p]) fuel). rewrite zlen_snoc in IH.
    rewrite <- app_snoc in IH. specialize (IH E ltac:(cbn [length] in Hf; lia)).
    destruct d; cbn [negb bind].
    + rewrite Z.rem_mod_nonneg by lia.
      destruct (idx ringJ ((ix + zlen ringI - zlen pre) mod zlen ringI)) as [q | e]; cbn [bind]; [| reflexivity].
      destruct (pt_eqb p q); cbn [negb]; [exact IH | reflexivity].
    + rewrite Z.rem_mod_nonneg by lia.
      destruct (idx ringJ ((ix + zlen pre) mod zlen ringI)) as [q | e]; cbn [bind]; [| reflexivity].
      destruct (pt_eqb p q); cbn [negb]; [exact IH | reflexivity].
Qed.

Theorem gen_ringsAreEqual_spec ringI ringJ io jo :
  gen_ringsAreEqual ringI ringJ io jo = ringsAreEqual ringI ringJ io jo.
Proof.
  unfold gen_ringsAreEqual, ringsAreEqual. cbv zeta.
  destruct (negb (zlen ringI =? zlen ringJ)); [reflexivity |].
  destruct (idx ringI 0) as [i0 | e]; cbn [bind]; [| reflexivity].
  change (fix index (l : list pt) (k : Z) {struct l} : Z :=
            match l with [] => -1 | p :: r => if pt_eqb p i0 then k else index r (k + 1) end) with (rae_index i0).
  unfold slices_index. rewrite <- rae_index_eq.
  destruct (Z.ltb_spec (rae_index i0 ringJ 0) 0) as [Hneg | Hix]; [reflexivity |].
  change (zlen ringI) with (zlen ([] ++ ringI)) at 3. change 0 with (zlen (@nil pt)) at 2.
  rewrite (gen_ringsAreEqual_loop ringI ringJ io jo _ _ Hix ringI [] (S (length ringI)) eq_refl (Nat.lt_succ_diag_r _)).
  cbn [app].
  match goal with |- _ = ?Y => change Y with (rae_loop ringJ (io && negb jo) (rae_index i0 ringJ 0) (zlen ringI) ringI (zlen (@nil pt))) end.
  destruct (rae_loop ringJ (io && negb jo) (rae_index i0 ringJ 0) (zlen ringI) ringI (zlen (@nil pt))) as [[|] | e]; reflexivity.
Qed.

(** ** ringContains *)
Definition rc_loop (p : pt) := fix loop (l : list pt) (c : bool) {struct l} : bool * bool :=
  match l with
  | a :: ((b :: _) as r') =>
      let '(x, on) := rayIntersect p a b in
      if on then (true, true) else loop r' (if x then negb c else c)
  | _ => (c, false)
  end.

Lemma gen_ringContains_loop r p on0 : forall suffix pre a fuel c,
  r = pre ++ a :: suffix -> (length suffix < fuel)%nat ->
  (do out <- gen_ringContains_loop1 r p on0 fuel c (zlen pre);
   match out with Ret x => Ok x | Next (c', _) => Ok (c', false) end)
  = Ok (rc_loop p (a :: suffix) c).
Proof.
  induction suffix as [| b suffix IH]; intros pre a fuel c E Hf; (destruct fuel as [| fuel]; [cbn [length] in Hf; lia |]);
    cbn [gen_ringContains_loop1 rc_loop]; pose proof (zlen_nonneg pre) as Hp.
  - assert (Hlen : zlen r = zlen pre + 1) by (rewrite E, zlen_app, zlen_cons, zlen_nil; lia).
    destruct (Z.ltb_spec (zlen pre) (zlen r - 1)) as [Hlt | _]; [lia | reflexivity].
  - assert (Hlen : zlen r = zlen pre + zlen suffix + 2) by (rewrite E, zlen_app, !zlen_cons; lia).
    pose proof (zlen_nonneg suffix) as Hs.
    destruct (Z.ltb_spec (zlen pre) (zlen r - 1)) as [_ | Hge]; [| lia].
    assert (Ha : idx r (zlen pre) = Ok a) by (rewrite E; apply idx_app_mid).
    assert (Hb : idx r (zlen pre + 1) = Ok b).
    { rewrite E, app_snoc, <- (zlen_snoc pre a). apply idx_app_mid. }
    rewrite Ha, Hb. cbn [bind].
    specialize (IH (pre ++ [a]) b fuel). rewrite zlen_snoc, <- app_snoc in IH.
    destruct (rayIntersect p a b) as [x on]. destruct on; [reflexivity |].
    destruct x; apply IH; try exact E; cbn [length] in Hf; lia.
Qed.

Theorem gen_ringContains_spec r p : gen_ringContains r p = ringContains r p.
Proof.
  unfold gen_ringContains, ringContains.
  destruct (idx r 0) as [first | e] eqn:E0; cbn [bind]; [| reflexivity].
  destruct (idx r (zlen r - 1)) as [lst | e]; cbn [bind]; [| reflexivity].
  destruct (rayIntersect p first lst) as [c0 on0]. destruct on0; [reflexivity |]. cbv zeta.
  match goal with |- _ = Ok ?Y => change Y with (rc_loop p r c0) end.
  destruct r as [| a suffix]; [discriminate E0 |].
  change 0 with (zlen (@nil pt)).
  apply (gen_ringContains_loop (a :: suffix) p false suffix [] a); [reflexivity | cbn [length]; lia].
Qed.

(** ** mapslicehelp.FindLastKeyWithMaxValue *)
Definition mw_step (acc : Z * Z * Z) (e : Z * Z) : Z * Z * Z :=
  let '(k, v, n) := acc in
  if v <? snd e then (fst e, snd e, 1) else if snd e =? v then (k, v, n + 1) else acc.

(** the three results; the model's [maxWinners] keeps the key and the number of winners *)
Definition maxWinners3 (m : list (Z * Z)) : Z * Z * Z :=
  match rev m with
  | [] => (0, 0, 0)
  | (k0, v0) :: r => fold_left mw_step r (k0, v0, 1)
  end.

Lemma maxWinners_of_3 m : maxWinners m = (fst (fst (maxWinners3 m)), snd (maxWinners3 m)).
Proof.
  unfold maxWinners, maxWinners3. destruct (rev m) as [| [k0 v0] r]; [reflexivity |].
  change (fun (acc : Z * Z * Z) (e : Z * Z) =>
            let '(k, v, n) := acc in
            if v <? snd e then (fst e, snd e, 1) else if snd e =? v then (k, v, n + 1) else acc) with mw_step.
  destruct (fold_left mw_step r (k0, v0, 1)) as [[k v] n]. reflexivity.
Qed.

Definition flk_step (st : Z * Z * Z * bool) (e : Z * Z) : Z * Z * Z * bool :=
  let '(k, v, n, first) := st in
  if first || (v <? snd e) then (fst e, snd e, 1, false)
  else if snd e =? v then (k, v, n + 1, first) else (k, v, n, first).

Lemma flk_fold_false : forall l acc, fold_left flk_step l (acc, false) = (fold_left mw_step l acc, false).
Proof.
  induction l as [| e l IH]; intro acc; cbn [fold_left]; [reflexivity |].
  destruct acc as [[k v] n]. unfold flk_step at 2, mw_step at 2. cbn [orb].
  destruct (v <? snd e); [apply IH |]. destruct (snd e =? v); apply IH.
Qed.

Theorem gen_FindLastKeyWithMaxValue_spec m : gen_FindLastKeyWithMaxValue m = Ok (maxWinners3 m).
Proof.
  unfold gen_FindLastKeyWithMaxValue, maxWinners3. cbv zeta.
  rewrite (range_loop_cont _ flk_step).
  2:{ intros e [[[k v] n] first]. unfold flk_step.
      destruct (first || (v <? snd e)); [reflexivity |]. destruct (snd e =? v); reflexivity. }
  cbn [bind]. destruct (rev m) as [| [k0 v0] r]; [reflexivity |].
  cbn [fold_left]. unfold flk_step at 2. cbn [orb fst snd]. rewrite flk_fold_false.
  destruct (fold_left mw_step r (k0, v0, 1)) as [[k v] n]. reflexivity.
Qed.

Corollary gen_FindLastKeyWithMaxValue_maxWinners m :
  exists v, gen_FindLastKeyWithMaxValue m = Ok (fst (maxWinners m), v, snd (maxWinners m)).
Proof.
  rewrite gen_FindLastKeyWithMaxValue_spec, maxWinners_of_3.
  destruct (maxWinners3 m) as [[k v] n]. exists v. reflexivity.
Qed.

(** ** mapslicehelp.LastMatch *)
Definition first_or0 (l : list Z) : Z := match l with h :: _ => h | [] => 0 end.

Lemma gen_LastMatch_loop haystack needle : forall pre suffix fuel,
  haystack = pre ++ suffix -> (length pre < fuel)%nat ->
  (do out <- gen_LastMatch_loop1 haystack needle fuel (zlen pre - 1);
   match out with Ret x => Ok x | Next _ => Ok 0 end)
  = Ok (first_or0 (filter (fun h => mem_Z h needle) (rev pre))).
Proof.
  induction pre as [| a pre IH] using rev_ind; intros suffix fuel E Hf; (destruct fuel as [| fuel]; [lia |]);
    cbn [gen_LastMatch_loop1].
  - reflexivity.
  - rewrite zlen_snoc. pose proof (zlen_nonneg pre) as Hp.
    destruct (Z.leb_spec 0 (zlen pre + 1 - 1)) as [_ | Hn]; [| lia].
    replace (zlen pre + 1 - 1) with (zlen pre) by lia.
    assert (Ha : idx haystack (zlen pre) = Ok a) by (rewrite E, <- app_assoc; apply idx_app_mid).
    rewrite Ha. cbn [bind]. rewrite rev_app_distr. cbn [rev app filter].
    destruct (mem_Z a needle); [reflexivity |].
    rewrite <- app_assoc in E. apply (IH _ fuel E). rewrite app_length in Hf. cbn [length] in Hf. lia.
Qed.

Theorem gen_LastMatch_spec haystack needle : gen_LastMatch haystack needle = Ok (lastMatch haystack needle).
Proof.
  unfold gen_LastMatch, lastMatch. cbv zeta.
  pose proof (gen_LastMatch_loop haystack needle haystack [] (S (length haystack))) as H.
  rewrite app_nil_r in H. specialize (H eq_refl (Nat.lt_succ_diag_r _)).
  destruct (gen_LastMatch_loop1 haystack needle (S (length haystack)) (zlen haystack - 1)) as [[i | x] | e];
    cbn [bind] in H |- *; rewrite H; unfold first_or0; reflexivity.
Qed.

(** ** mapslicehelp.DeleteFromSliceByIndex *)
Lemma gen_Delete_loop (s : list (list pt)) (del : list Z) (off : Z) : forall suffix pre acc,
  s = pre ++ suffix ->
  range_loop (R := list (list pt))
    (fun (i : Z) (r : list (list pt)) =>
       let skip := mem_Z (i + off) del in
       if skip then Ok (Cont r) else do t <- idx s i; let r := r ++ [t] in Ok (Cont r))
    (map Z.of_nat (seq (length pre) (length suffix))) acc
  = Ok (Next (acc ++ filter_idx suffix (zlen pre + off) del)).
Proof.
  induction suffix as [| a suffix IH]; intros pre acc E; cbn [length seq map range_loop filter_idx].
  - rewrite app_nil_r. reflexivity.
  - cbv zeta. fold (zlen pre).
    specialize (IH (pre ++ [a])). rewrite app_length in IH. cbn [length] in IH. rewrite Nat.add_1_r, zlen_snoc in IH.
    rewrite <- app_snoc in IH.
    replace (zlen pre + 1 + off) with (zlen pre + off + 1) in IH by lia.
    destruct (mem_Z (zlen pre + off) del); [apply IH; exact E |].
    assert (Ha : idx s (zlen pre) = Ok a) by (rewrite E; apply idx_app_mid).
    rewrite Ha. cbn [bind]. rewrite IH by exact E. rewrite <- app_assoc. reflexivity.
Qed.

Theorem gen_DeleteFromSliceByIndex_spec s del off :
  gen_DeleteFromSliceByIndex s del off = Ok (filter_idx s off del).
Proof.
  unfold gen_DeleteFromSliceByIndex, zseq. cbv zeta.
  pose proof (gen_Delete_loop s del off s [] [] eq_refl) as H. cbn [length app] in H.
  change (zlen (@nil (list pt)) + off) with off in H.
  cbv zeta in H. rewrite H. reflexivity.
Qed.

(** ** sortPolyIdxsByOuterAreaDesc *)
Definition sp_go := fix go (l : list polygon) (k : Z) (acc : list (Z * Z)) {struct l} : list (Z * Z) :=
  match l with
  | [] => acc
  | p :: r => go r (k + 1) (area_place acc k (match p with [] => 0 | o :: _ => absArea2 o end))
  end.

Lemma gen_sortPoly_loop (polys : list (list (list pt))) : forall suffix pre acc,
  polys = pre ++ suffix ->
  range_loop (R := list Z)
    (fun (i : Z) (areas : list (Z * Z)) =>
       do t2 <- idx polys i;
       if zlen t2 =? 0 then let areas := area_place areas i 0 in Ok (Cont areas)
       else do t3 <- idx polys i; do t4 <- idx t3 0;
            let areas := area_place areas i (absArea2 t4) in Ok (Cont areas))
    (map Z.of_nat (seq (length pre) (length suffix))) acc
  = Ok (Next (sp_go suffix (zlen pre) acc)).
Proof.
  induction suffix as [| p suffix IH]; intros pre acc E; cbn [length seq map range_loop sp_go]; [reflexivity |].
  fold (zlen pre).
  assert (Hp : idx polys (zlen pre) = Ok p) by (rewrite E; apply idx_app_mid).
  rewrite Hp. cbn [bind]. cbv zeta.
  specialize (IH (pre ++ [p])). rewrite app_length in IH. cbn [length] in IH. rewrite Nat.add_1_r, zlen_snoc in IH.
  rewrite <- app_snoc in IH.
  destruct p as [| o p]; [change (zlen (@nil (list pt)) =? 0) with true; cbv iota; apply IH; exact E |].
  assert (Hz : (zlen (o :: p) =? 0) = false).
  { apply Z.eqb_neq. rewrite zlen_cons. pose proof (zlen_nonneg p). lia. }
  rewrite Hz. change (idx (o :: p) 0) with (Ok (A := list pt) o). cbn [bind]. apply IH. exact E.
Qed.

Theorem gen_sortPolyIdxsByOuterAreaDesc_spec polys :
  gen_sortPolyIdxsByOuterAreaDesc polys = Ok (sortPolyIdxsByOuterAreaDesc polys).
Proof.
  unfold gen_sortPolyIdxsByOuterAreaDesc, sortPolyIdxsByOuterAreaDesc, zseq. cbv zeta.
  pose proof (gen_sortPoly_loop polys polys [] [] eq_refl) as H. cbn [length] in H. cbv zeta in H.
  rewrite H. reflexivity.
Qed.

(** ** outersToPolygons *)
Lemma gen_outersToPolygons_loop (outs : list (list pt)) : forall suffix pre fuel,
  outs = pre ++ suffix -> (length suffix < fuel)%nat ->
  gen_outersToPolygons_loop1 outs fuel (map (fun o => [o]) pre ++ repeat (@nil (list pt)) (length suffix)) (zlen pre)
  = Ok (Next (map (fun o => [o]) outs, zlen outs)).
Proof.
  induction suffix as [| o suffix IH]; intros pre fuel E Hf; (destruct fuel as [| fuel]; [cbn [length] in Hf; lia |]);
    cbn [gen_outersToPolygons_loop1 length repeat].
  - rewrite app_nil_r in E. subst pre. rewrite Z.ltb_irrefl, app_nil_r. reflexivity.
  - assert (Hlen : zlen outs = zlen pre + zlen suffix + 1) by (rewrite E, zlen_app, zlen_cons; lia).
    pose proof (zlen_nonneg suffix) as Hs.
    destruct (Z.ltb_spec (zlen pre) (zlen outs)) as [_ | Hge]; [| lia].
    assert (Ho : idx outs (zlen pre) = Ok o) by (rewrite E; apply idx_app_mid).
    rewrite Ho. cbn [bind].
    replace (zlen pre) with (zlen (map (fun o0 : list pt => [o0]) pre)) at 1 by (unfold zlen; rewrite map_length; reflexivity).
    rewrite setidx_app_mid. cbn [bind].
    specialize (IH (pre ++ [o]) fuel). rewrite zlen_snoc, map_app, <- app_snoc in IH. cbn [map] in IH.
    rewrite <- app_assoc in IH. apply IH; [exact E | cbn [length] in Hf; lia].
Qed.

Theorem gen_outersToPolygons_spec outs : gen_outersToPolygons outs = Ok (map (fun o => [o]) outs).
Proof.
  unfold gen_outersToPolygons. cbv zeta. unfold zlen at 1. rewrite Nat2Z.id.
  pose proof (gen_outersToPolygons_loop outs outs [] (S (length outs)) eq_refl (Nat.lt_succ_diag_r _)) as H.
  cbn [map app] in H. change (zlen (@nil (list pt))) with 0 in H. rewrite H. reflexivity.
Qed.

(** ** mapslicehelp.OrderedMapKeys *)
Lemma gen_OrderedMapKeys_loop : forall (suffix pre : list (Z * Z)),
  range_loop (R := list Z)
    (fun (p : Z * Z) '((l, i) : list Z * Z) => do l <- setidx l i (fst p); let i := i + 1 in Ok (Cont (l, i)))
    suffix (map fst pre ++ repeat 0 (length suffix), zlen pre)
  = Ok (Next (map fst (pre ++ suffix), zlen (pre ++ suffix))).
Proof.
  induction suffix as [| e suffix IH]; intro pre; cbn [range_loop length repeat].
  - rewrite !app_nil_r. reflexivity.
  - replace (zlen pre) with (zlen (map fst pre)) at 1 by (unfold zlen; rewrite map_length; reflexivity).
    rewrite setidx_app_mid. cbn [bind]. cbv zeta.
    specialize (IH (pre ++ [e])). rewrite zlen_snoc, map_app, <- !app_snoc in IH. cbn [map] in IH.
    rewrite <- app_assoc in IH. exact IH.
Qed.

Theorem gen_OrderedMapKeys_spec m : gen_OrderedMapKeys m = Ok (map fst m).
Proof.
  unfold gen_OrderedMapKeys. cbv zeta. unfold zlen at 1. rewrite Nat2Z.id.
  pose proof (gen_OrderedMapKeys_loop m []) as H. cbn [map app] in H. change (zlen (@nil (Z * Z))) with 0 in H.
  rewrite H. reflexivity.
Qed.

(** ** mapslicehelp.CountVals *)
Lemma countvals_fold (v : bool) : forall (m : list (Z * bool)) n,
  fold_left (fun (n : Z) (p : Z * bool) => if Bool.eqb (snd p) v then n + 1 else n) m n
  = n + zlen (filter (fun p => Bool.eqb (snd p) v) m).
Proof.
  induction m as [| p m IH]; intro n; cbn [fold_left filter]; [rewrite zlen_nil; lia |].
  rewrite IH. destruct (Bool.eqb (snd p) v); [rewrite zlen_cons |]; lia.
Qed.

Theorem gen_CountVals_spec m v : gen_CountVals m v = Ok (zlen (filter (fun p => Bool.eqb (snd p) v) m)).
Proof.
  unfold gen_CountVals. cbv zeta.
  rewrite (range_loop_cont _ (fun (n : Z) (p : Z * bool) => if Bool.eqb (snd p) v then n + 1 else n)).
  2:{ intros p n. destruct (Bool.eqb (snd p) v); reflexivity. }
  cbn [bind]. rewrite countvals_fold. reflexivity.
Qed.

(** the two counts dedupeInnersOuters takes (the model's [nO], [nI]) *)
Corollary gen_CountVals_outers_inners (m : list (Z * bool)) :
  gen_CountVals m true = Ok (zlen (filter (fun e => snd e) m)) /\
  gen_CountVals m false = Ok (zlen (filter (fun e => negb (snd e)) m)).
Proof.
  rewrite !gen_CountVals_spec. split; do 2 f_equal; apply filter_ext; intros [k b]; destruct b; reflexivity.
Qed.

(** ** mapslicehelp.LastElement *)
Theorem gen_LastElement_spec (l : list pt) : gen_LastElement l = Ok (last_opt l).
Proof.
  unfold gen_LastElement, last_opt. cbv zeta.
  destruct l as [| a l] using rev_ind; [reflexivity |].
  rewrite rev_app_distr. cbn [rev app]. rewrite zlen_snoc. pose proof (zlen_nonneg l) as H.
  destruct (Z.ltb_spec 0 (zlen l + 1)) as [_ | Hn]; [| lia].
  replace (zlen l + 1 - 1) with (zlen l) by lia. rewrite idx_app_mid. reflexivity.
Qed.

(** ** mapslicehelp.ReverseClone *)
Lemma gen_ReverseClone_loop (s : list pt) : forall suffix pre fuel,
  s = pre ++ suffix -> (length suffix < fuel)%nat ->
  gen_ReverseClone_loop1 s (zlen s) fuel (repeat ((0, 0) : pt) (length suffix) ++ rev pre) (zlen pre)
  = Ok (Next (rev s, zlen s)).
Proof.
  induction suffix as [| a suffix IH]; intros pre fuel E Hf; (destruct fuel as [| fuel]; [cbn [length] in Hf; lia |]);
    cbn [gen_ReverseClone_loop1 length].
  - rewrite app_nil_r in E. subst pre. rewrite Z.ltb_irrefl. reflexivity.
  - assert (Hlen : zlen s = zlen pre + zlen suffix + 1) by (rewrite E, zlen_app, zlen_cons; lia).
    pose proof (zlen_nonneg suffix) as Hs.
    destruct (Z.ltb_spec (zlen pre) (zlen s)) as [_ | Hge]; [| lia].
    assert (Ha : idx s (zlen pre) = Ok a) by (rewrite E; apply idx_app_mid).
    rewrite Ha. cbn [bind]. rewrite repeat_snoc, <- app_assoc. cbn [app].
    replace (zlen s - 1 - zlen pre) with (zlen (repeat ((0, 0) : pt) (length suffix)))
      by (unfold zlen in *; rewrite repeat_length; lia).
    rewrite setidx_app_mid. cbn [bind].
    specialize (IH (pre ++ [a]) fuel). rewrite zlen_snoc, rev_app_distr, <- app_snoc in IH. cbn [rev app] in IH.
    apply IH; [exact E | cbn [length] in Hf; lia].
Qed.

Theorem gen_ReverseClone_spec (s : list pt) : gen_ReverseClone s = Ok (rev s).
Proof.
  unfold gen_ReverseClone. destruct s as [| a s]; [reflexivity |]. cbn [is_nil]. cbv zeta.
  unfold zlen at 2. rewrite Nat2Z.id.
  pose proof (gen_ReverseClone_loop (a :: s) (a :: s) [] (S (length (a :: s))) eq_refl (Nat.lt_succ_diag_r _)) as H.
  cbn [rev] in H. rewrite app_nil_r in H. change (zlen (@nil pt)) with 0 in H. rewrite H. reflexivity.
Qed.

(** ** reverseWindingOrderIfConfigured *)
Lemma gen_reverse_inner (P1 P2 : list (list (list pt))) : forall (suffix pre : list (list pt)),
  range_loop (R := list (list (list pt)))
    (fun (j : Z) (polygons : list (list (list pt))) =>
       do t2 <- idx polygons (zlen P1); do t3 <- idx t2 j; do t4 <- setidx t2 j (rev t3);
       do polygons <- setidx polygons (zlen P1) t4; Ok (Cont polygons))
    (map Z.of_nat (seq (length pre) (length suffix))) (P1 ++ (map (@rev pt) pre ++ suffix) :: P2)
  = Ok (Next (P1 ++ map (@rev pt) (pre ++ suffix) :: P2)).
Proof.
  induction suffix as [| a suffix IH]; intro pre; cbn [length seq map range_loop].
  - rewrite !app_nil_r. reflexivity.
  - rewrite idx_app_mid. cbn [bind]. fold (zlen pre).
    replace (zlen pre) with (zlen (map (@rev pt) pre)) by (unfold zlen; rewrite map_length; reflexivity).
    rewrite idx_app_mid. cbn [bind]. rewrite setidx_app_mid. cbn [bind]. rewrite setidx_app_mid. cbn [bind].
    specialize (IH (pre ++ [a])). rewrite app_length in IH. cbn [length] in IH.
    rewrite Nat.add_1_r, map_app, <- !app_snoc in IH. cbn [map] in IH. rewrite <- app_assoc in IH. exact IH.
Qed.

Lemma gen_reverse_outer : forall (suffix pre : list (list (list pt))),
  range_loop (R := list (list (list pt)))
    (fun (i : Z) (polygons : list (list (list pt))) =>
       do t1 <- idx polygons i;
       do out <- range_loop (R := list (list (list pt)))
                   (fun (j : Z) (polygons : list (list (list pt))) =>
                      do t2 <- idx polygons i; do t3 <- idx t2 j; do t4 <- setidx t2 j (rev t3);
                      do polygons <- setidx polygons i t4; Ok (Cont polygons))
                   (zseq (length t1)) polygons;
       match out with Ret r => Ok (RRet r) | Next polygons => Ok (Cont polygons) end)
    (map Z.of_nat (seq (length pre) (length suffix))) (map (map (@rev pt)) pre ++ suffix)
  = Ok (Next (map (map (@rev pt)) (pre ++ suffix))).
Proof.
  induction suffix as [| row suffix IH]; intro pre; cbn [length seq map range_loop].
  - rewrite !app_nil_r. reflexivity.
  - fold (zlen pre).
    replace (zlen pre) with (zlen (map (map (@rev pt)) pre)) by (unfold zlen; rewrite map_length; reflexivity).
    rewrite idx_app_mid. cbn [bind]. unfold zseq.
    pose proof (gen_reverse_inner (map (map (@rev pt)) pre) suffix row []) as H. cbn [map app length] in H.
    rewrite H. cbn [bind].
    specialize (IH (pre ++ [row])). rewrite app_length in IH. cbn [length] in IH.
    rewrite Nat.add_1_r, map_app, <- !app_snoc in IH. cbn [map] in IH. rewrite <- app_assoc in IH. exact IH.
Qed.

Theorem gen_reverseWindingOrderIfConfigured_spec (ps : list (list (list pt))) (cfg : config) :
  gen_reverseWindingOrderIfConfigured ps cfg
  = Ok (if reverseWindingOrder cfg then map (map (@rev pt)) ps else ps).
Proof.
  unfold gen_reverseWindingOrderIfConfigured. destruct (reverseWindingOrder cfg); cbn [negb]; [| reflexivity].
  pose proof (gen_reverse_outer ps []) as H. cbn [length map app] in H. unfold zseq at 2. rewrite H. reflexivity.
Qed.
